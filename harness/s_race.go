package main

import (
	"bytes"
	"crypto/sha256"
	"encoding/hex"
	"errors"
	"math/rand"
	"runtime"
	"sort"
	"strings"
	"sync"

	"github.com/squadracorsepolito/acmelib"
)

// stream race — C18, oracle lines only (no model side): read-only use of one shared model from
// several goroutines.
//
//	oracle race <seed> <variant> <goroutines>
//
// builds the network of (seed, variant) — buses that share nodes (a node has an interface on
// each), types, units, enums, attributes and one CAN-ID builder —, computes SEQUENTIALLY the
// result of a mixed bag of read-only operations (every getter family, failing and succeeding
// lookups, GetSignalByName, GetCANID, Decode, CalculateBusLoad, String, ExportBus,
// ExportToMarkdown, SaveNetwork, ExportNetwork into a temporary directory), then runs the same
// operations from <goroutines> goroutines at once, each in its own random order, three rounds,
// and compares every result with the sequential one:
//
//	c18-result-differs:<family>        a concurrent result is not the sequential one
//	c18-panic:<family>                 an operation panicked (sequentially or concurrently)
//	c18-sequential-unstable:<family>   two sequential evaluations differ (the comparison has no reference)
//
// Results whose ORDER is unspecified by the API are canonicalised before the comparison: References()
// and Message.SignalNames() (map order), the reference lists inside String() (map order: the lines of
// a rendering are compared as a multiset), the entries of CalculateBusLoad with equal load and its
// float sum (map order), the signal an error of SignalEnum.GetValue is attributed to (first map entry).
//
// The file is meant to be run under the race detector too (go build -race): all harness state
// of the concurrent phase is goroutine-local (own PRNG, own result list) or read-only (the operation
// list and the reference results, written before the goroutines start); the results are merged
// after WaitGroup.Wait.  A detector report therefore concerns acmelib.

type raceStream struct{ baseStream }

func init() { register(raceStream{}) }

func (raceStream) Name() string    { return "race" }
func (raceStream) Props() []string { return []string{"C18"} }

const raceVariants = 4
const raceRounds = 3

func raceBuild(seed int64, variant int) *genNet {
	var o genOpts
	switch variant {
	case 0:
		o = genOpts{dbcSafe: true, maxNest: 1}
	case 1:
		o = genOpts{maxNest: 2, manyEqual: true}
	case 2:
		o = genOpts{maxNest: 3, bigNames: true}
	default:
		o = genOpts{maxNest: 2, manyEqual: true, dbcSafe: true}
	}
	g, r := safeBuildNetwork(seed, o)
	if variant >= 1 {
		mdExtras(g, r, o, 3)
		detExtras(g, r, o)
	}
	// one CAN-ID builder shared by all buses (variant 3: the default builders stay)
	if variant != 3 && len(g.buses) > 0 {
		cb := acmelib.NewCANIDBuilder(g.name(r, "shared_builder", o))
		cb.UseMessagePriority(9).UseMessageID(4, 5).UseNodeID(0, 4)
		for _, b := range g.buses {
			b.SetCANIDBuilder(cb)
		}
		g.builders = append(g.builders, cb)
	}
	return g
}

func (raceStream) Gen(r *rand.Rand, tier string, idx int) []string {
	return []string{sprintf("oracle race %d %d %d", r.Int63n(1<<40), idx%raceVariants, pick(r, 8, 16, 32))}
}

func (raceStream) Tag(lines, outs []string) (bool, []string) {
	tags := []string{}
	for i, l := range lines {
		f := fields(l)
		if len(f) == 5 {
			tags = append(tags, "race:v"+f[3], "race:n"+f[4], "race:"+fields(outs[i] + " ?")[0])
		}
	}
	return true, tags
}

type raceExec struct{ fs []Finding }

func (raceStream) NewExec() Exec        { return &raceExec{} }
func (e *raceExec) Findings() []Finding { return e.fs }

func (e *raceExec) add(sig, detail string) {
	if len(detail) > 700 {
		detail = detail[:700] + "…"
	}
	e.fs = append(e.fs, Finding{Prop: "C18", Sig: sig, Detail: detail})
}

// raceOp is one read-only operation with a canonical result.
type raceOp struct {
	family string
	what   string
	run    func() string
}

func digest(b []byte) string {
	h := sha256.Sum256(b)
	return sprintf("%d:%s", len(b), hex.EncodeToString(h[:8]))
}

func errStr(err error) string {
	if err == nil {
		return "nil"
	}
	return "err(" + err.Error() + ")"
}

func errClass(err error) string {
	switch {
	case err == nil:
		return "nil"
	case errors.Is(err, acmelib.ErrNotFound):
		return "err(not found)"
	}
	return "err(other)"
}

func attAssStr(as []*acmelib.AttributeAssignment) string {
	var xs []string
	for _, a := range as {
		xs = append(xs, sprintf("%s=%v@%s", a.Attribute().Name(), a.Value(), a.Entity().EntityID()))
	}
	return listStr(xs)
}

func sortedIDs[T interface{ EntityID() acmelib.EntityID }](xs []T) string {
	ids := make([]string, 0, len(xs))
	for _, x := range xs {
		ids = append(ids, string(x.EntityID()))
	}
	sort.Strings(ids)
	return listStr(ids)
}

func sigBrief(s acmelib.Signal) string {
	if s == nil {
		return "<nil>"
	}
	return sprintf("%s/%s@%d+%d", s.Name(), s.Kind(), s.GetStartBit(), s.GetSize())
}

// sample returns up to n elements of xs chosen by r (all if fewer).
func sample[T any](r *rand.Rand, xs []T, n int) []T {
	if len(xs) <= n {
		return xs
	}
	out := make([]T, 0, n)
	for _, i := range r.Perm(len(xs))[:n] {
		out = append(out, xs[i])
	}
	return out
}

func raceOps(g *genNet, r *rand.Rand) []raceOp {
	var ops []raceOp
	add := func(family, what string, f func() string) {
		ops = append(ops, raceOp{family, what, f})
	}
	net := g.net

	add("network-getters", "net", func() string {
		var bs []string
		for _, b := range net.Buses() {
			bs = append(bs, b.Name())
		}
		return sprintf("%s|%s|%s|%s|%s", net.Name(), net.Desc(), net.EntityID(), net.EntityKind(), listStr(bs))
	})
	add("string", "network", canonLines(net.String))
	add("export-md", "network", func() string {
		var buf bytes.Buffer
		err := acmelib.ExportToMarkdown(net, &buf)
		return errStr(err) + digest(buf.Bytes())
	})
	add("save-wire", "network", func() string {
		var buf bytes.Buffer
		err := acmelib.SaveNetwork(net, acmelib.SaveEncodingWire, &buf, nil, nil)
		return errStr(err) + digest(buf.Bytes())
	})
	add("save-json-text", "network", func() string {
		var j, t bytes.Buffer
		err := acmelib.SaveNetwork(net, acmelib.SaveEncodingJSON|acmelib.SaveEncodingText, nil, &j, &t)
		// protojson / prototext insert random whitespace by design: compare the token streams
		return errStr(err) + digest([]byte(strings.Join(strings.Fields(j.String()), " "))) + digest([]byte(strings.Join(strings.Fields(t.String()), " ")))
	})
	add("export-network", "network", func() string {
		files, err := exportNetworkFiles(net)
		if err != nil {
			return errStr(err)
		}
		var names []string
		for n := range files {
			names = append(names, n)
		}
		sort.Strings(names)
		var b strings.Builder
		for _, n := range names {
			b.WriteString(n + "=" + digest(files[n]) + ";")
		}
		return b.String()
	})

	for _, bus := range g.buses {
		bus := bus
		add("bus-getters", bus.Name(), func() string {
			var nis []string
			for _, ni := range bus.NodeInterfaces() {
				nis = append(nis, sprintf("%s#%d", ni.Node().Name(), ni.Number()))
			}
			pn := "<nil>"
			if p := bus.ParentNetwork(); p != nil {
				pn = p.Name()
			}
			return sprintf("%s|%s|%d|%s|%s|%s|%s|%s", bus.Name(), bus.Desc(), bus.Baudrate(), bus.Type(), bus.CANIDBuilder().Name(),
				listStr(nis), pn, attAssStr(bus.AttributeAssignments()))
		})
		add("bus-lookups", bus.Name(), func() string {
			var out []string
			for _, ni := range bus.NodeInterfaces() {
				x, err := bus.GetNodeInterfaceByNodeName(ni.Node().Name())
				out = append(out, sprintf("%v%s", x == ni, errStr(err)))
			}
			_, err := bus.GetNodeInterfaceByNodeName("no such node")
			_, err2 := bus.GetAttributeAssignment("no-such-id")
			return listStr(out) + errStr(err) + errStr(err2)
		})
		add("string", "bus "+bus.Name(), canonLines(bus.String))
		add("busload", bus.Name(), func() string {
			total, loads, err := acmelib.CalculateBusLoad(bus, 10)
			var xs []string
			for _, l := range loads {
				xs = append(xs, sprintf("%s:%.6f:%.4f", l.Message.EntityID(), l.BitsPerSec, l.Percentage))
			}
			sort.Strings(xs) // entries of equal load come in map order
			_, _, err2 := acmelib.CalculateBusLoad(bus, -1)
			return sprintf("%.6f|%s|%s|%s", total, listStr(xs), errStr(err), errStr(err2))
		})
		add("export-bus", bus.Name(), func() string {
			var buf bytes.Buffer
			acmelib.ExportBus(&buf, bus)
			return digest(buf.Bytes())
		})
	}

	for _, cb := range g.builders {
		cb := cb
		p, m, n := acmelib.MessagePriority(r.Intn(4)), acmelib.MessageID(r.Intn(2048)), acmelib.NodeID(r.Intn(64))
		add("canid-builder", cb.Name(), func() string {
			var os []string
			for _, o := range cb.Operations() {
				os = append(os, sprintf("%s:%d:%d", o.Kind(), o.From(), o.Len()))
			}
			return sprintf("%s|%s|%d|%v|%s", cb.Name(), listStr(os), cb.Calculate(p, m, n), cb.CalculatePartials(p, m, n), sortedIDs(cb.References()))
		})
		add("string", "canid-builder", canonLines(cb.String))
	}

	for _, node := range sample(r, g.nodes, 8) {
		node := node
		add("node-getters", node.Name(), func() string {
			var is []string
			for _, ni := range node.Interfaces() {
				pb := "<none>"
				if b := ni.ParentBus(); b != nil {
					pb = b.Name()
				}
				is = append(is, sprintf("%d@%s", ni.Number(), pb))
			}
			_, e1 := node.GetInterface(0)
			_, e2 := node.GetInterface(99)
			_, e3 := node.GetInterface(-1)
			_, e4 := node.GetAttributeAssignment("no-such-id")
			return sprintf("%s|%d|%s|%s|%s%s%s%s", node.Name(), node.ID(), listStr(is), attAssStr(node.AttributeAssignments()),
				errStr(e1), errStr(e2), errStr(e3), errStr(e4))
		})
		add("string", "node", canonLines(node.String))
		for _, ni := range node.Interfaces() {
			ni := ni
			add("interface-getters", sprintf("%s#%d", node.Name(), ni.Number()), func() string {
				var sent, rec, look []string
				for _, m := range ni.SentMessages() {
					sent = append(sent, m.Name())
					x, err := ni.GetSentMessageByName(m.Name())
					look = append(look, sprintf("%v%s", x == m, errStr(err)))
				}
				for _, m := range ni.ReceivedMessages() {
					rec = append(rec, m.Name())
				}
				_, err := ni.GetSentMessageByName("no such message")
				return sprintf("%s|%s|%s|%s|%s", ni.Node().Name(), listStr(sent), listStr(rec), listStr(look), errStr(err))
			})
			add("string", "node-interface", canonLines(ni.String))
		}
	}

	for _, m := range sample(r, g.msgs, 14) {
		m := m
		add("message-getters", m.Name(), func() string {
			var sigs, recs []string
			for _, s := range m.Signals() {
				sigs = append(sigs, sigBrief(s))
			}
			for _, ni := range m.Receivers() {
				recs = append(recs, ni.Node().Name())
			}
			snd := "<none>"
			if ni := m.SenderNodeInterface(); ni != nil {
				snd = ni.Node().Name()
			}
			return sprintf("%s|%s|%d|%d|%s|%d|%d|%d|%s|%d|%v|%s|%s|%s|%s|%s", m.Name(), m.Desc(), m.ID(), m.SizeByte(), m.ByteOrder(), m.CycleTime(),
				m.DelayTime(), m.StartDelayTime(), m.SendType(), m.Priority(), m.HasStaticCANID(), listStr(sigs), listStr(sortedStrs(m.SignalNames())),
				listStr(recs), snd, attAssStr(m.AttributeAssignments()))
		})
		add("GetCANID", m.Name(), func() string { return sprintf("%d", m.GetCANID()) })
		names := sortedStrs(m.SignalNames()) // SignalNames() comes in map order
		add("GetSignalByName", m.Name(), func() string {
			var out []string
			for _, n := range names {
				s, err := m.GetSignalByName(n)
				out = append(out, sigBrief(s)+errStr(err))
				if s != nil {
					s2, err2 := m.GetSignal(s.EntityID())
					out = append(out, sprintf("%v%s", s2 == s, errStr(err2)))
				}
			}
			_, e1 := m.GetSignalByName("no such signal")
			_, e2 := m.GetSignal("no-such-id")
			_, e3 := m.GetAttributeAssignment("no-such-id")
			return listStr(out) + errStr(e1) + errStr(e2) + errStr(e3)
		})
		data := make([]byte, m.SizeByte())
		for i := range data {
			data[i] = byte(r.Intn(256))
		}
		add("Decode", m.Name(), func() string {
			var out []string
			for _, d := range m.SignalLayout().Decode(data) {
				if d == nil {
					out = append(out, "<nil>")
					continue
				}
				out = append(out, sprintf("%s=%d/%v/%v/%s", d.Signal.Name(), d.RawValue, d.ValueType, d.Value, d.Unit))
			}
			var fl []string
			for _, f := range m.SignalLayout().Filters() {
				fl = append(fl, sprintf("%s:%d:%02x:%d:%d", f.Signal().Name(), f.ByteIndex(), f.Mask(), f.Length(), f.LeftOffset()))
			}
			return listStr(out) + listStr(fl)
		})
		add("string", "message", canonLines(m.String))
		add("string", "signal-layout", canonLines(m.SignalLayout().String))
	}

	for _, s := range sample(r, g.sigs, 24) {
		s := s
		add("signal-getters", s.Name(), func() string {
			pm, pmux := "<none>", "<none>"
			if p := s.ParentMessage(); p != nil {
				pm = p.Name()
			}
			if p := s.ParentMultiplexerSignal(); p != nil {
				pmux = p.Name()
			}
			extra := ""
			switch s.Kind() {
			case acmelib.SignalKindStandard:
				ss, err := s.ToStandard()
				_, e2 := s.ToEnum()
				u := "<none>"
				if ss.Unit() != nil {
					u = ss.Unit().Name()
				}
				extra = sprintf("%s|%s|%s%s", ss.Type().Name(), u, errStr(err), errStr(e2))
			case acmelib.SignalKindEnum:
				es, err := s.ToEnum()
				_, e2 := s.ToMultiplexer()
				extra = sprintf("%s|%s%s", es.Enum().Name(), errStr(err), errStr(e2))
			case acmelib.SignalKindMultiplexer:
				ms, err := s.ToMultiplexer()
				_, e2 := s.ToStandard()
				var gs []string
				for i, grp := range ms.GetSignalGroups() {
					var xs []string
					for _, c := range grp {
						xs = append(xs, sigBrief(c))
					}
					gs = append(gs, listStr(xs))
					if len(ms.GetSignalGroup(i)) != len(grp) {
						gs = append(gs, "group-getter-differs")
					}
				}
				extra = sprintf("%d|%d|%d|%s|%d|%s%s", ms.GroupCount(), ms.GroupSize(), ms.GetGroupCountSize(), listStr(gs), len(ms.GetSignalGroup(99)), errStr(err), errStr(e2))
			}
			_, e3 := s.GetAttributeAssignment("no-such-id")
			return sprintf("%s|%s|%s|%d|%d|%d|%v|%s|%s|%s|%s|%s|%s|%s", s.Name(), s.Desc(), s.Kind(), s.GetStartBit(), s.GetSize(), s.GetRelativeStartPos(),
				s.StartValue(), s.SendType(), s.Endianness(), pm, pmux, attAssStr(s.AttributeAssignments()), extra, errStr(e3))
		})
		add("string", "signal:"+s.Kind().String(), canonLines(s.String))
	}

	for _, t := range sample(r, g.types, 8) {
		t := t
		add("type-getters", t.Name(), func() string {
			return sprintf("%s|%s|%s|%d|%v|%v|%v|%v|%v|%d|%s", t.Name(), t.Desc(), t.Kind(), t.Size(), t.Signed(), t.Min(), t.Max(), t.Scale(), t.Offset(),
				t.ReferenceCount(), sortedIDs(t.References()))
		})
		add("string", "signal-type", canonLines(t.String))
	}
	for _, u := range sample(r, g.units, 6) {
		u := u
		add("unit-getters", u.Name(), func() string {
			return sprintf("%s|%s|%s|%s|%d|%s", u.Name(), u.Desc(), u.Kind(), u.Symbol(), u.ReferenceCount(), sortedIDs(u.References()))
		})
		add("string", "signal-unit", canonLines(u.String))
	}
	for _, en := range sample(r, g.enums, 8) {
		en := en
		add("enum-getters", en.Name(), func() string {
			var vs []string
			for _, v := range en.Values() {
				x, err := en.GetValue(v.EntityID())
				pe := "<none>"
				if v.ParentEnum() != nil {
					pe = v.ParentEnum().Name()
				}
				vs = append(vs, sprintf("%s=%d/%s/%v%s/%s", v.Name(), v.Index(), v.Desc(), x == v, errStr(err), pe))
			}
			// the error of a failing lookup is attributed to the first referencing signal in map order
			_, err := en.GetValue("no-such-id")
			return sprintf("%s|%s|%d|%d|%d|%s|%d|%s|%s", en.Name(), en.Desc(), en.GetSize(), en.MaxIndex(), en.MinSize(), listStr(vs),
				en.ReferenceCount(), sortedIDs(en.References()), errClass(err))
		})
		add("string", "signal-enum", canonLines(en.String))
		for _, v := range en.Values() {
			add("string", "signal-enum-value", canonLines(v.String))
		}
	}
	for _, a := range g.attrs {
		a := a
		add("attribute-getters", a.Name(), func() string {
			extra := ""
			switch a.Type() {
			case acmelib.AttributeTypeString:
				x, err := a.ToString()
				_, e2 := a.ToInteger()
				extra = sprintf("%s%s%s", x.DefValue(), errStr(err), errStr(e2))
			case acmelib.AttributeTypeInteger:
				x, err := a.ToInteger()
				_, e2 := a.ToFloat()
				extra = sprintf("%d/%d/%d/%v%s%s", x.DefValue(), x.Min(), x.Max(), x.IsHexFormat(), errStr(err), errStr(e2))
			case acmelib.AttributeTypeFloat:
				x, err := a.ToFloat()
				_, e2 := a.ToEnum()
				extra = sprintf("%v/%v/%v%s%s", x.DefValue(), x.Min(), x.Max(), errStr(err), errStr(e2))
			case acmelib.AttributeTypeEnum:
				x, err := a.ToEnum()
				_, e2 := a.ToString()
				extra = sprintf("%s/%v%s%s", x.DefValue(), x.Values(), errStr(err), errStr(e2))
			}
			return sprintf("%s|%s|%s|%s|%s", a.Name(), a.Desc(), a.Type(), extra, sortedIDs(a.References()))
		})
		add("string", "attribute:"+a.Type().String(), canonLines(a.String))
	}
	return ops
}

// canonLines: String() prints reference lists in map order; the rendering is compared as the
// multiset of its lines.
func canonLines(f func() string) func() string {
	return func() string {
		ls := strings.Split(f(), "\n")
		sort.Strings(ls)
		return digest([]byte(strings.Join(ls, "\n")))
	}
}

func sortedStrs(xs []string) []string {
	out := append([]string{}, xs...)
	sort.Strings(out)
	return out
}

func runOp(op raceOp) (res string, panicked bool) {
	defer func() {
		if p := recover(); p != nil {
			res = sprintf("panic: %v", p)
			panicked = true
		}
	}()
	return op.run(), false
}

type raceDiff struct {
	op       int
	got      string
	panicked bool
	gor      int
	round    int
}

func firstDiffAt(a, b string) int {
	n := min(len(a), len(b))
	i := 0
	for i < n && a[i] == b[i] {
		i++
	}
	return i
}

func clip(s string, at int) string {
	lo := max(0, at-60)
	hi := min(len(s), at+100)
	return s[lo:hi]
}

func (e *raceExec) Do(line string) string {
	f := fields(line)
	if len(f) != 5 || f[0] != "oracle" || f[1] != "race" {
		return "bad-op"
	}
	seed, variant, n := int64(atoi(f[2])), atoi(f[3]), atoi(f[4])
	if n < 1 || n > 256 {
		return "bad-op"
	}
	g := raceBuild(seed, variant)
	ctx := sprintf("seed=%d variant=%d goroutines=%d", seed, variant, n)
	ops := raceOps(g, rand.New(rand.NewSource(seed^0x5eed)))

	// the backing arrays of every listing, before any read-only operation has run
	snaps := listingSnapshots(g)

	// sequential reference (twice: the reference must be a function of the model)
	want := make([]string, len(ops))
	usable := make([]bool, len(ops))
	reported := map[string]bool{}
	for i, op := range ops {
		r1, p1 := runOp(op)
		r2, p2 := runOp(op)
		want[i] = r1
		usable[i] = true
		switch {
		case p1 || p2:
			usable[i] = false
			if !reported["p"+op.family] {
				reported["p"+op.family] = true
				e.add("c18-panic:"+op.family, sprintf("%s: sequential %s(%s): %s", ctx, op.family, op.what, r1+r2))
			}
		case r1 != r2:
			usable[i] = false
			if !reported["u"+op.family] {
				reported["u"+op.family] = true
				at := firstDiffAt(r1, r2)
				e.add("c18-sequential-unstable:"+op.family, sprintf("%s: %s(%s): …%s… / …%s…", ctx, op.family, op.what, clip(r1, at), clip(r2, at)))
			}
		}
	}

	// the per-bus workers of ExportNetwork against the sequential ExportBus of every bus, with
	// fewer workers than buses, as many, and more (C18: "concurrent results equal the sequential ones")
	func() {
		defer func() {
			if p := recover(); p != nil {
				e.add("c18-panic:export-network", sprintf("%s: %v", ctx, p))
			}
		}()
		var seq [][]byte
		for _, b := range g.net.Buses() {
			var buf bytes.Buffer
			acmelib.ExportBus(&buf, b)
			seq = append(seq, buf.Bytes())
		}
		prev := runtime.GOMAXPROCS(0)
		defer runtime.GOMAXPROCS(prev)
		for _, procs := range []int{1, 2, 3, prev} {
			runtime.GOMAXPROCS(procs)
			files, err := exportNetworkFiles(g.net)
			if err != nil {
				continue
			}
			for i, want := range seq {
				found := false
				for _, got := range files {
					found = found || bytes.Equal(got, want)
				}
				if !found && !reported["xn"] {
					reported["xn"] = true
					e.add("c18-result-differs:export-network-vs-export-bus", sprintf("%s: GOMAXPROCS=%d, %d buses: no file of ExportNetwork equals ExportBus of bus %q", ctx, procs, len(seq), g.net.Buses()[i].Name()))
				}
			}
		}
	}()

	// no read-only operation may have stored into memory that a listing of the model shares
	if ch := listingChanged(snaps); len(ch) > 0 {
		e.add("c18-readonly-write-into-listing", sprintf("%s: after the sequential read-only operations the backing array of %v holds other elements than before: a read-only operation stored into memory shared with a listing", ctx, ch))
	}

	// concurrent phase
	var wg sync.WaitGroup
	perG := make([][]raceDiff, n)
	start := make(chan struct{})
	for gi := 0; gi < n; gi++ {
		wg.Add(1)
		go func(gi int) {
			defer wg.Done()
			rr := rand.New(rand.NewSource(seed + int64(gi)*7919 + 1))
			var local []raceDiff
			<-start
			for round := 0; round < raceRounds; round++ {
				for _, i := range rr.Perm(len(ops)) {
					if !usable[i] {
						continue
					}
					got, p := runOp(ops[i])
					if p || got != want[i] {
						if len(local) < 20 {
							local = append(local, raceDiff{op: i, got: got, panicked: p, gor: gi, round: round})
						}
					}
					if rr.Intn(8) == 0 {
						runtime.Gosched()
					}
				}
			}
			perG[gi] = local // one slot per goroutine; read after Wait
		}(gi)
	}
	close(start)
	wg.Wait()

	nDiff := 0
	for _, local := range perG {
		for _, d := range local {
			nDiff++
			op := ops[d.op]
			sig := "c18-result-differs:" + op.family
			if d.panicked {
				sig = "c18-panic:" + op.family
			}
			if reported[sig] {
				continue
			}
			reported[sig] = true
			at := firstDiffAt(want[d.op], d.got)
			e.add(sig, sprintf("%s: goroutine %d round %d %s(%s): sequential …%s… concurrent …%s…", ctx, d.gor, d.round, op.family, op.what,
				clip(want[d.op], at), clip(d.got, at)))
		}
	}
	if len(reported) > 0 {
		keys := make([]string, 0, len(reported))
		for k := range reported {
			keys = append(keys, k)
		}
		sort.Strings(keys)
		return sprintf("diff ops=%d differing=%d %s", len(ops), nDiff, strings.Join(keys, ","))
	}
	return sprintf("ok ops=%d", len(ops))
}
