package main

import (
	"bytes"
	"encoding/json"
	"math/rand"
	"regexp"
	"sort"
	"strconv"
	"strings"

	"github.com/squadracorsepolito/acmelib"
)

// stream md — C16 (and the Markdown clause of C15): the real ExportToMarkdown against
// Acme.Core.Md.
//
//	md doc <json>
//
// <json> (compact, every blank escaped as backslash-u0020) is the structure of one generated network as seen
// through the PUBLIC getters, in the order of Buses()/NodeInterfaces()/SentMessages()/Signals()/
// GetSignalGroups(); it carries seed and variant, so the line is its own replay: the executor
// rebuilds the network from them, exports it with the real ExportToMarkdown, PARSES the document
// (headings, pipe tables) and prints the canonical summary the model prints from the JSON:
//
//	ok <item>|<item>|…|types[..]|units[..]|enums[..]
//	item = H<level>:<text>  |  T(<header width>,<row widths>…)[(<cell>;<cell>;…)…]     (all cells of all rows)
//
//	oracle mdtext <kind>     Go side only: a one-signal network whose texts contain a pipe / a line break
//
// Entity ids are random per process, so the JSON names the shared definitions by stable labels
// (t<i>, u<i>, e<i> = position in the generator's lists).  The appendix order among entries with
// equal primary key (size+name / name) is by entity id in the code and by label in the model:
// the executor checks the real-id order itself (c15-md-tie-order) and prints such a run in label order.

type mdStream struct{ baseStream }

func init() { register(mdStream{}) }

func (mdStream) Name() string    { return "md" }
func (mdStream) Props() []string { return []string{"C16", "C15"} }

const mdVariants = 7

func mdOpts(variant int) genOpts {
	switch variant {
	case 0:
		return genOpts{}
	case 1:
		return genOpts{maxNest: 1, dbcSafe: true}
	case 2:
		return genOpts{maxNest: 3}
	case 3:
		return genOpts{maxNest: 2, manyEqual: true}
	case 4:
		return genOpts{maxNest: 2, bigNames: true}
	case 5:
		return genOpts{maxNest: 3, manyEqual: true, bigNames: true}
	}
	return genOpts{maxNest: 2, manyEqual: true}
}

// mdBuild builds the network of (seed, variant): the shared generator plus, for variants >= 2,
// the corner cases C16 names explicitly (built through the public API as well).
func mdBuild(seed int64, variant int) *genNet {
	o := mdOpts(variant)
	g, r := safeBuildNetwork(seed, o)
	if variant >= 2 {
		mdExtras(g, r, o, variant)
	}
	if seed%2 == 0 {
		mdMoveAfterRead(g)
	}
	return g
}

// mdMoveAfterRead: every getter a document uses is read once (as a first export would), then
// the top-level signals of every message are moved (compaction, a shift of the first
// multiplexer): the document of the moved network must show the NEW start bits at every depth.
func mdMoveAfterRead(g *genNet) {
	var walk func(s acmelib.Signal)
	walk = func(s acmelib.Signal) {
		_ = s.GetStartBit()
		_ = s.GetSize()
		if ms, err := s.ToMultiplexer(); err == nil {
			for _, grp := range ms.GetSignalGroups() {
				for _, k := range grp {
					walk(k)
				}
			}
		}
	}
	for _, m := range g.msgs {
		for _, s := range m.Signals() {
			walk(s)
		}
	}
	for _, m := range g.msgs {
		for _, s := range m.Signals() {
			if s.Kind() == acmelib.SignalKindMultiplexer {
				m.ShiftSignalRight(s.EntityID(), 3)
				break
			}
		}
		m.CompactSignals()
	}
}

// mdAbsStart is the absolute start bit of a signal computed from the RELATIVE positions and the
// selector widths along its ancestors (independent of Signal.GetStartBit).
func mdAbsStart(s acmelib.Signal) int {
	if p := s.ParentMultiplexerSignal(); p != nil {
		return mdAbsStart(p) + p.GetGroupCountSize() + s.GetRelativeStartPos()
	}
	return s.GetRelativeStartPos()
}

// safeBuildNetwork runs the shared generator; a seed on which the generator itself fails (it
// can draw a duplicated enum value index) is replaced, deterministically, by a derived seed.
func safeBuildNetwork(seed int64, o genOpts) (*genNet, *rand.Rand) {
	for k := int64(0); ; k++ {
		r := rand.New(rand.NewSource(seed + k*1000003))
		var g *genNet
		func() {
			defer func() {
				if p := recover(); p != nil {
					if s, ok := p.(string); !ok || !strings.HasPrefix(s, "netgen: ") || k > 50 {
						panic(p)
					}
					g = nil
				}
			}()
			g = buildNetwork(r, o)
		}()
		if g != nil {
			return g, r
		}
	}
}

func mdExtras(g *genNet, r *rand.Rand, o genOpts, variant int) {
	if len(g.buses) == 0 {
		return
	}
	bus := g.buses[r.Intn(len(g.buses))]
	node := acmelib.NewNode(g.name(r, "xnode", o), acmelib.NodeID(200+r.Intn(20)), 1)
	g.nodes = append(g.nodes, node)
	ni := node.Interfaces()[0]
	must(bus.AddNodeInterface(ni))
	mid := 1000

	newMsg := func(size int) *acmelib.Message {
		mid++
		m := acmelib.NewMessage(g.name(r, "xmsg", o), acmelib.MessageID(mid), size)
		return m
	}
	attach := func(m *acmelib.Message) {
		must(ni.AddSentMessage(m))
		g.msgs = append(g.msgs, m)
	}

	// 1. a message without signals
	if r.Intn(2) == 0 {
		attach(newMsg(pick(r, 0, 1, 8)))
	}

	// 2. definitions that tie on the primary sort keys of the appendix
	var tieTypes []*acmelib.SignalType
	nTie := 2 + r.Intn(2)
	for i := 0; i < nTie; i++ {
		t, err := acmelib.NewIntegerSignalType("tie_type", 8, false)
		must(err)
		t.SetDesc(sprintf("tie %d", i))
		tieTypes = append(tieTypes, t)
	}
	t2, err := acmelib.NewIntegerSignalType("tie_other", 8, true)
	must(err)
	tieTypes = append(tieTypes, t2)
	t3, err := acmelib.NewIntegerSignalType("tie_type", 4, false)
	must(err)
	tieTypes = append(tieTypes, t3)
	g.types = append(g.types, tieTypes...)

	var tieUnits []*acmelib.SignalUnit
	for i := 0; i < 2+r.Intn(2); i++ {
		tieUnits = append(tieUnits, acmelib.NewSignalUnit("tie_unit", acmelib.SignalUnitKindCustom, sprintf("tu%d", i)))
	}
	g.units = append(g.units, tieUnits...)

	var tieEnums []*acmelib.SignalEnum
	for i := 0; i < 3; i++ {
		e := acmelib.NewSignalEnum("tie_enum")
		if i < 2 { // two of them without values and indistinguishable in the document
			if i == 1 && r.Intn(2) == 0 {
				e.SetDesc("tie enum desc")
			}
		} else {
			must(e.AddValue(acmelib.NewSignalEnumValue("TV", 1)))
		}
		tieEnums = append(tieEnums, e)
	}
	g.enums = append(g.enums, tieEnums...)

	if variant >= 3 {
		m := newMsg(8)
		perm := r.Perm(len(tieTypes))
		pos := 0
		for _, k := range perm {
			t := tieTypes[k]
			if pos+t.Size() > 40 {
				continue
			}
			s, err := acmelib.NewStandardSignal(g.name(r, "ts", o), t)
			must(err)
			if r.Intn(2) == 0 {
				s.SetUnit(tieUnits[r.Intn(len(tieUnits))])
			}
			must(m.InsertSignal(s, pos))
			g.sigs = append(g.sigs, s)
			pos += t.Size()
		}
		for _, k := range r.Perm(len(tieEnums)) {
			e := tieEnums[k]
			if r.Intn(4) == 0 {
				continue
			}
			s, err := acmelib.NewEnumSignal(g.name(r, "tes", o), e)
			must(err)
			must(m.InsertSignal(s, pos))
			g.sigs = append(g.sigs, s)
			pos += s.GetSize()
		}
		attach(m)
		// a second message referencing some of the same definitions again (collected once)
		m2 := newMsg(4)
		s, err := acmelib.NewStandardSignal(g.name(r, "ts", o), tieTypes[r.Intn(len(tieTypes))])
		must(err)
		s.SetUnit(tieUnits[0])
		must(m2.InsertSignal(s, 0))
		g.sigs = append(g.sigs, s)
		// a unit without symbol is a unit all the same: referenced, hence listed
		blank := acmelib.NewSignalUnit("blank_unit", acmelib.SignalUnitKindCustom, "")
		g.units = append(g.units, blank)
		bs, err := acmelib.NewStandardSignal(sprintf("blank_sig_%d", mid), tieTypes[0])
		must(err)
		bs.SetUnit(blank)
		must(m2.InsertSignal(bs, 16))
		g.sigs = append(g.sigs, bs)
		attach(m2)
	}

	// 3. multiplexers: without any signal; nested with empty groups
	m := newMsg(8)
	empty, err := acmelib.NewMultiplexerSignal(g.name(r, "xmux", o), pick(r, 1, 2, 5), 6)
	must(err)
	must(m.InsertSignal(empty, 0))
	g.sigs = append(g.sigs, empty)
	outer, err := acmelib.NewMultiplexerSignal(g.name(r, "xmux", o), 2, 20)
	must(err)
	inner, err := acmelib.NewMultiplexerSignal(g.name(r, "xmux", o), 3, 6)
	must(err)
	leafT := g.types[3] // 4 bits
	leaf, err := acmelib.NewStandardSignal(g.name(r, "xs", o), leafT)
	must(err)
	must(inner.InsertSignal(leaf, pick(r, 0, 1, 2), 1))
	if r.Intn(2) == 0 {
		innermost, err := acmelib.NewMultiplexerSignal(g.name(r, "xmux", o), 2, 1)
		must(err)
		fl, err := acmelib.NewStandardSignal(g.name(r, "xf", o), g.types[8]) // flag
		must(err)
		must(innermost.InsertSignal(fl, 0, 1))
		must(inner.InsertSignal(innermost, 0, 2))
		g.sigs = append(g.sigs, innermost, fl)
	}
	must(outer.InsertSignal(inner, pick(r, 0, 3), pick(r, 0, 1)))
	must(m.InsertSignal(outer, 16))
	g.sigs = append(g.sigs, outer, inner, leaf)
	attach(m)

	// 4. an enum without values referenced next to a standard signal
	if r.Intn(2) == 0 {
		e := acmelib.NewSignalEnum(g.name(r, "xenum", o))
		g.enums = append(g.enums, e)
		m := newMsg(2)
		s, err := acmelib.NewEnumSignal(g.name(r, "xes", o), e)
		must(err)
		must(m.InsertSignal(s, 3))
		g.sigs = append(g.sigs, s)
		attach(m)
	}
}

// ---- JSON of the structure (public getters only) ----

type jType struct {
	ID     string `json:"id"`
	Size   int    `json:"size"`
	Name   string `json:"name"`
	Kind   string `json:"kind"`
	Signed string `json:"signed"`
	Min    string `json:"min"`
	Max    string `json:"max"`
	Scale  string `json:"scale"`
	Offset string `json:"offset"`
	Desc   string `json:"desc"`
}
type jUnit struct {
	ID     string `json:"id"`
	Name   string `json:"name"`
	Kind   string `json:"kind"`
	Symbol string `json:"symbol"`
	Desc   string `json:"desc"`
}
type jVal struct {
	N string `json:"n"`
	I int    `json:"i"`
	D string `json:"d"`
}
type jEnum struct {
	ID   string `json:"id"`
	Name string `json:"name"`
	Max  int    `json:"max"`
	V    []jVal `json:"v"`
}
type jSig struct {
	K string   `json:"k"` // std | enum | mux
	N string   `json:"n"`
	S int      `json:"s"`
	Z int      `json:"z"`
	D string   `json:"d"`
	T *jType   `json:"t,omitempty"`
	U *jUnit   `json:"u,omitempty"`
	E *jEnum   `json:"e,omitempty"`
	G [][]jSig `json:"g,omitempty"`
}
type jMsg struct {
	Name string `json:"name"`
	Sigs []jSig `json:"sigs"`
}
type jIf struct {
	Node string `json:"node"`
	Msgs []jMsg `json:"msgs"`
}
type jBus struct {
	Name string `json:"name"`
	Ifs  []jIf  `json:"ifs"`
}
type jDoc struct {
	Seed    int64  `json:"seed"`
	Variant int    `json:"variant"`
	Name    string `json:"name"`
	Buses   []jBus `json:"buses"`
}

// mdLabels maps the entity ids of the shared definitions of a generated network to stable labels.
type mdLabels struct {
	types map[acmelib.EntityID]string
	units map[acmelib.EntityID]string
	enums map[acmelib.EntityID]string
}

func newMdLabels(g *genNet) *mdLabels {
	l := &mdLabels{map[acmelib.EntityID]string{}, map[acmelib.EntityID]string{}, map[acmelib.EntityID]string{}}
	for i, t := range g.types {
		l.types[t.EntityID()] = sprintf("t%d", i)
	}
	for i, u := range g.units {
		l.units[u.EntityID()] = sprintf("u%d", i)
	}
	for i, e := range g.enums {
		l.enums[e.EntityID()] = sprintf("e%d", i)
	}
	return l
}

func (l *mdLabels) sig(s acmelib.Signal) jSig {
	j := jSig{N: s.Name(), S: mdAbsStart(s), Z: s.GetSize(), D: s.Desc()}
	switch s.Kind() {
	case acmelib.SignalKindStandard:
		ss, err := s.ToStandard()
		must(err)
		j.K = "std"
		t := ss.Type()
		j.T = &jType{ID: l.types[t.EntityID()], Size: t.Size(), Name: t.Name(), Kind: t.Kind().String(),
			Signed: strconv.FormatBool(t.Signed()), Min: mdG(t.Min()), Max: mdG(t.Max()), Scale: mdG(t.Scale()),
			Offset: mdG(t.Offset()), Desc: t.Desc()}
		if u := ss.Unit(); u != nil {
			j.U = &jUnit{ID: l.units[u.EntityID()], Name: u.Name(), Kind: u.Kind().String(), Symbol: u.Symbol(), Desc: u.Desc()}
		}
	case acmelib.SignalKindEnum:
		es, err := s.ToEnum()
		must(err)
		j.K = "enum"
		e := es.Enum()
		je := &jEnum{ID: l.enums[e.EntityID()], Name: e.Name(), Max: e.MaxIndex(), V: []jVal{}}
		for _, v := range e.Values() {
			je.V = append(je.V, jVal{v.Name(), v.Index(), v.Desc()})
		}
		j.E = je
	case acmelib.SignalKindMultiplexer:
		ms, err := s.ToMultiplexer()
		must(err)
		j.K = "mux"
		j.G = [][]jSig{}
		for _, grp := range ms.GetSignalGroups() {
			jg := []jSig{}
			for _, c := range grp {
				jg = append(jg, l.sig(c))
			}
			j.G = append(j.G, jg)
		}
	}
	return j
}

func mdJSON(g *genNet, seed int64, variant int) string {
	l := newMdLabels(g)
	d := jDoc{Seed: seed, Variant: variant, Name: g.net.Name(), Buses: []jBus{}}
	for _, b := range g.net.Buses() {
		jb := jBus{Name: b.Name(), Ifs: []jIf{}}
		for _, ni := range b.NodeInterfaces() {
			ji := jIf{Node: ni.Node().Name(), Msgs: []jMsg{}}
			for _, m := range ni.SentMessages() {
				jm := jMsg{Name: m.Name(), Sigs: []jSig{}}
				for _, s := range m.Signals() {
					jm.Sigs = append(jm.Sigs, l.sig(s))
				}
				ji.Msgs = append(ji.Msgs, jm)
			}
			jb.Ifs = append(jb.Ifs, ji)
		}
		d.Buses = append(d.Buses, jb)
	}
	var buf bytes.Buffer
	enc := json.NewEncoder(&buf)
	enc.SetEscapeHTML(false)
	if err := enc.Encode(d); err != nil {
		panic(err)
	}
	return strings.ReplaceAll(strings.TrimSpace(buf.String()), " ", "\\u"+"0020")
}

// every place x every hostile character of the probe network
func (mdStream) Exhaustive(tier string) [][]string {
	var sc []string
	for k := 0; k < 4*mdHostilePlaces; k++ {
		sc = append(sc, sprintf("oracle mdtext %d", k))
	}
	return [][]string{sc}
}

func (mdStream) Gen(r *rand.Rand, tier string, idx int) []string {
	n := 2
	if tier == "thorough" {
		n = 4
	}
	var sc []string
	for i := 0; i < n; i++ {
		seed := r.Int63n(1 << 40)
		variant := (idx + i*3) % mdVariants
		if r.Intn(4) == 0 {
			variant = r.Intn(mdVariants)
		}
		sc = append(sc, "md doc "+mdJSON(mdBuild(seed, variant), seed, variant))
	}
	if idx%3 == 0 {
		sc = append(sc, sprintf("oracle mdtext %d", r.Intn(4*mdHostilePlaces)))
	}
	return sc
}

func (mdStream) Tag(lines, outs []string) (bool, []string) {
	tags := []string{}
	nt := false
	for i, l := range lines {
		if isOracleLine(l) {
			tags = append(tags, "mdtext:"+outs[i])
			continue
		}
		tags = append(tags, "doc")
		if strings.Contains(l, `"k":"mux"`) {
			tags = append(tags, "doc:mux")
			nt = true
		}
		if strings.Contains(l, `"g":[[]`) || strings.Contains(l, `,[]]`) || strings.Contains(l, `,[],`) {
			tags = append(tags, "doc:empty-group")
		}
		if strings.Contains(l, `"sigs":[]`) {
			tags = append(tags, "doc:msg-without-signals")
		}
		if strings.Contains(l, `"v":[]`) {
			tags = append(tags, "doc:enum-without-values")
		}
		if strings.Contains(l, `tie_type`) {
			tags = append(tags, "doc:ties")
		}
		if !strings.HasPrefix(outs[i], "ok ") {
			tags = append(tags, "doc:"+fields(outs[i] + " ?")[0])
		}
	}
	return nt, tags
}

// ---- parsing the produced document ----

type mdItem struct {
	level  int // 0 = table
	text   string
	header []string
	rows   [][]string
}

func mdSplitRow(line string) []string {
	line = strings.TrimSpace(line)
	line = strings.TrimPrefix(line, "|")
	if strings.HasSuffix(line, "|") && !strings.HasSuffix(line, "\\|") {
		line = strings.TrimSuffix(line, "|")
	}
	// a pipe escaped with a backslash is cell text, not a separator (GFM tables)
	var parts []string
	var cur strings.Builder
	for i := 0; i < len(line); i++ {
		if line[i] == '\\' && i+1 < len(line) && line[i+1] == '|' {
			cur.WriteByte('|')
			i++
			continue
		}
		if line[i] == '|' {
			parts = append(parts, strings.TrimSpace(cur.String()))
			cur.Reset()
			continue
		}
		cur.WriteByte(line[i])
	}
	parts = append(parts, strings.TrimSpace(cur.String()))
	return parts
}

var mdRuleCell = regexp.MustCompile(`^:?-+:?$`)

func mdIsRuleRow(cells []string) bool {
	for _, c := range cells {
		if !mdRuleCell.MatchString(c) {
			return false
		}
	}
	return len(cells) > 0
}

func mdParse(doc string) []mdItem {
	var items []mdItem
	lines := strings.Split(doc, "\n")
	for i := 0; i < len(lines); i++ {
		l := lines[i]
		switch {
		case strings.HasPrefix(l, "#### "):
			items = append(items, mdItem{level: 4, text: l[5:]})
		case strings.HasPrefix(l, "### "):
			items = append(items, mdItem{level: 3, text: l[4:]})
		case strings.HasPrefix(l, "## "):
			items = append(items, mdItem{level: 2, text: l[3:]})
		case strings.HasPrefix(l, "# "):
			items = append(items, mdItem{level: 1, text: l[2:]})
		case strings.HasPrefix(l, "|"):
			it := mdItem{header: mdSplitRow(l)}
			j := i + 1
			first := true
			for ; j < len(lines) && strings.HasPrefix(lines[j], "|"); j++ {
				cells := mdSplitRow(lines[j])
				if first && mdIsRuleRow(cells) {
					first = false
					continue
				}
				first = false
				it.rows = append(it.rows, cells)
			}
			i = j - 1
			items = append(items, it)
		}
	}
	return items
}

func mdItemStr(it mdItem) string {
	if it.level > 0 {
		return sprintf("H%d:%s", it.level, it.text)
	}
	ws := []string{strconv.Itoa(len(it.header))}
	var b strings.Builder
	for _, r := range it.rows {
		ws = append(ws, strconv.Itoa(len(r)))
		b.WriteString("(" + strings.Join(r, ";") + ")")
	}
	return "T(" + strings.Join(ws, ",") + ")[" + b.String() + "]"
}

var mdSepCell = regexp.MustCompile(`^- \d+ -$`)

func mdIsSepRow(r []string) bool {
	if len(r) == 0 || !mdSepCell.MatchString(r[0]) {
		return false
	}
	for _, c := range r {
		if c != r[0] {
			return false
		}
	}
	return true
}

// ---- executor ----

type mdExec struct{ fs []Finding }

func (mdStream) NewExec() Exec        { return &mdExec{} }
func (e *mdExec) Findings() []Finding { return e.fs }

func (e *mdExec) add(prop, sig, detail string) {
	if len(detail) > 600 {
		detail = detail[:600] + "…"
	}
	e.fs = append(e.fs, Finding{Prop: prop, Sig: sig, Detail: detail})
}

type mdOcc struct{ name, start, size string }

// mdWalk lists the signal occurrences of a tree in document order and counts its groups.
func mdWalk(s acmelib.Signal, occ *[]mdOcc, groups *int, refs *mdRefs) {
	*occ = append(*occ, mdOcc{s.Name(), strconv.Itoa(mdAbsStart(s)), strconv.Itoa(s.GetSize())})
	switch s.Kind() {
	case acmelib.SignalKindStandard:
		ss, _ := s.ToStandard()
		refs.types[ss.Type().EntityID()] = ss.Type()
		if u := ss.Unit(); u != nil {
			refs.units[u.EntityID()] = u
		}
	case acmelib.SignalKindEnum:
		es, _ := s.ToEnum()
		refs.enums[es.Enum().EntityID()] = es.Enum()
	case acmelib.SignalKindMultiplexer:
		ms, _ := s.ToMultiplexer()
		for _, grp := range ms.GetSignalGroups() {
			*groups++
			for _, c := range grp {
				mdWalk(c, occ, groups, refs)
			}
		}
	}
}

type mdRefs struct {
	types map[acmelib.EntityID]*acmelib.SignalType
	units map[acmelib.EntityID]*acmelib.SignalUnit
	enums map[acmelib.EntityID]*acmelib.SignalEnum
}

func mdG(x float64) string { return sprintf("%g", x) }

func mdDash(s string) string {
	if s == "" {
		return "-"
	}
	return s
}

// the rendering of the appendix entries, as the document shows them (used to find the entity
// a parsed row stands for)
func mdTypeCells(t *acmelib.SignalType) []string {
	return []string{t.Name(), strconv.Itoa(t.Size()), "`" + t.Kind().String() + "`", "`" + strconv.FormatBool(t.Signed()) + "`",
		mdG(t.Min()), mdG(t.Max()), mdG(t.Scale()), mdG(t.Offset()), mdDash(t.Desc())}
}

func mdUnitCells(u *acmelib.SignalUnit) []string {
	return []string{u.Name(), u.Kind().String(), u.Symbol(), mdDash(u.Desc())}
}

func mdEnumKey(e *acmelib.SignalEnum) string {
	var b strings.Builder
	b.WriteString(e.Name())
	for _, v := range e.Values() {
		b.WriteString(sprintf("|%s;%d;%s", v.Name(), v.Index(), mdDash(v.Desc())))
	}
	return b.String()
}

func mdNorm(cells []string) string {
	out := make([]string, len(cells))
	for i, c := range cells {
		out[i] = strings.Join(strings.Fields(c), " ")
	}
	return strings.Join(out, "\x1f")
}

type mdEntry struct {
	items []int    // the document items of the entry (enum: heading and value table)
	table int      // types / units: the item index of the table …
	row   []string // … and the row of the entry
	label string
	id    string // real entity id ("" when no entity matches)
	key   string // primary sort key
}

// mdFixTies checks that runs of equal primary key are in real-id order and puts them in label order.
func (e *mdExec) mdFixTies(kind string, es []mdEntry, line string) []mdEntry {
	out := make([]mdEntry, 0, len(es))
	for i := 0; i < len(es); {
		j := i + 1
		for j < len(es) && es[j].key == es[i].key {
			j++
		}
		run := append([]mdEntry{}, es[i:j]...)
		for k := 1; k < len(run); k++ {
			if run[k-1].id != "" && run[k].id != "" && run[k-1].id > run[k].id {
				e.add("C15", "c15-md-tie-order:"+kind, sprintf("entries with key %q are not in entity-id order in %s", run[k].key, line))
				break
			}
		}
		sort.SliceStable(run, func(a, b int) bool { return run[a].label < run[b].label })
		out = append(out, run...)
		i = j
	}
	return out
}

func mdLabelsOf(es []mdEntry) []string {
	ls := make([]string, 0, len(es))
	for _, x := range es {
		ls = append(ls, x.label)
	}
	return ls
}

func mdTryString(f func() string) (ok bool) {
	defer func() {
		if r := recover(); r != nil {
			ok = false
		}
	}()
	_ = f()
	return true
}

func (e *mdExec) checkStrings(g *genNet, line string) {
	bad := func(kind string) {
		e.add("C16", "c16-string-panic:"+kind, line[:min(len(line), 120)])
	}
	if !mdTryString(g.net.String) {
		bad("network")
	}
	for _, b := range g.buses {
		if !mdTryString(b.String) {
			bad("bus")
		}
		if !mdTryString(b.CANIDBuilder().String) {
			bad("canid-builder")
		}
		for _, ni := range b.NodeInterfaces() {
			if !mdTryString(ni.String) {
				bad("node-interface")
			}
		}
	}
	for _, n := range g.nodes {
		if !mdTryString(n.String) {
			bad("node")
		}
		for _, ni := range n.Interfaces() {
			if !mdTryString(ni.String) {
				bad("node-interface")
			}
		}
	}
	for _, m := range g.msgs {
		if !mdTryString(m.String) {
			bad("message")
		}
		if !mdTryString(m.SignalLayout().String) {
			bad("signal-layout")
		}
	}
	for _, s := range g.sigs {
		if !mdTryString(s.String) {
			bad("signal:" + s.Kind().String())
		}
		for _, aa := range s.AttributeAssignments() {
			if !mdTryString(aa.Attribute().String) {
				bad("attribute")
			}
		}
	}
	for _, t := range g.types {
		if !mdTryString(t.String) {
			bad("signal-type")
		}
	}
	for _, u := range g.units {
		if !mdTryString(u.String) {
			bad("signal-unit")
		}
	}
	for _, en := range g.enums {
		if !mdTryString(en.String) {
			bad("signal-enum")
		}
		for _, v := range en.Values() {
			if !mdTryString(v.String) {
				bad("signal-enum-value")
			}
		}
	}
	for _, a := range g.attrs {
		if !mdTryString(a.String) {
			bad("attribute:" + a.Type().String())
		}
	}
}

func (e *mdExec) Do(line string) string {
	f := fields(line)
	if len(f) == 3 && f[0] == "oracle" && f[1] == "mdtext" {
		return e.hostileText(atoi(f[2]))
	}
	if len(f) != 3 || f[1] != "doc" {
		return "bad-op"
	}
	var hdr struct {
		Seed    int64 `json:"seed"`
		Variant int   `json:"variant"`
	}
	if err := json.Unmarshal([]byte(f[2]), &hdr); err != nil {
		return "bad-op"
	}
	g := mdBuild(hdr.Seed, hdr.Variant)
	if again := "md doc " + mdJSON(g, hdr.Seed, hdr.Variant); again != line {
		// the line is not a replay of (seed, variant): a corpus line edited by hand
		return "bad-replay"
	}
	short := sprintf("seed=%d variant=%d", hdr.Seed, hdr.Variant)

	e.checkStrings(g, short)

	var buf bytes.Buffer
	var err error
	panicked := func() (p bool) {
		defer func() {
			if r := recover(); r != nil {
				p = true
				e.add("C16", "c16-panic", sprintf("%s: %v", short, r))
			}
		}()
		err = acmelib.ExportToMarkdown(g.net, &buf)
		return false
	}()
	if panicked {
		return "panic"
	}
	retErr := ""
	if err != nil {
		// the document is written nevertheless: the oracles below say which row is the cause
		msg := strings.Join(strings.SplitN(err.Error(), ": ", 3)[:min(2, len(strings.SplitN(err.Error(), ": ", 3)))], ": ")
		e.add("C16", "c16-export-error:"+msg, short+": "+err.Error())
		retErr = "err " + msg
	}
	items := mdParse(buf.String())

	// ---- oracle: every referenced definition OBJECT is listed (by object, not by entity id: two
	// definitions that share an id — a clone that kept the id of its original — are two definitions) ----
	{
		type def struct{ kind, name string }
		seenObj := map[any]def{}
		var walk func(s acmelib.Signal)
		walk = func(s acmelib.Signal) {
			if ss, err := s.ToStandard(); err == nil && ss != nil {
				seenObj[ss.Type()] = def{"type", ss.Type().Name()}
				if u := ss.Unit(); u != nil {
					seenObj[u] = def{"unit", u.Name()}
				}
			}
			if es, err := s.ToEnum(); err == nil && es != nil {
				seenObj[es.Enum()] = def{"enum", es.Enum().Name()}
			}
			if mx, err := s.ToMultiplexer(); err == nil && mx != nil {
				for _, grp := range mx.GetSignalGroups() {
					for _, c := range grp {
						walk(c)
					}
				}
			}
		}
		for _, b := range g.net.Buses() {
			for _, ni := range b.NodeInterfaces() {
				for _, m := range ni.SentMessages() {
					for _, sg := range m.Signals() {
						walk(sg)
					}
				}
			}
		}
		ids := map[acmelib.EntityID]def{}
		text := buf.String()
		for obj, d := range seenObj {
			id := obj.(interface{ EntityID() acmelib.EntityID }).EntityID()
			if o, dup := ids[id]; dup && o != d {
				e.add("C16", "c16-definitions-share-an-id", sprintf("%s: the %s %q and the %s %q, both referenced by signals of the network, have the same entity id %s: the appendix (keyed by id) lists one of them", short, o.kind, o.name, d.kind, d.name, id))
			}
			ids[id] = d
			if d.name != "" && strings.TrimSpace(d.name) == d.name && !strings.ContainsAny(d.name, "|\n\\") && !strings.Contains(text, d.name) {
				e.add("C16", "c16-referenced-definition-not-listed", sprintf("%s: the %s %q is referenced by a signal of the network and its name does not occur in the document", short, d.kind, d.name))
			}
		}
	}

	// ---- oracle: sections ----
	var wantHead []string
	wantHead = append(wantHead, "H1:"+g.net.Name())
	type msgExp struct {
		name   string
		occ    []mdOcc
		groups int
		nsig   int
	}
	var msgs []msgExp
	refs := &mdRefs{map[acmelib.EntityID]*acmelib.SignalType{}, map[acmelib.EntityID]*acmelib.SignalUnit{}, map[acmelib.EntityID]*acmelib.SignalEnum{}}
	for _, b := range g.net.Buses() {
		wantHead = append(wantHead, "H2:"+b.Name())
		for _, ni := range b.NodeInterfaces() {
			wantHead = append(wantHead, "H3:"+ni.Node().Name())
			for _, m := range ni.SentMessages() {
				wantHead = append(wantHead, "H4:"+m.Name())
				me := msgExp{name: m.Name(), nsig: len(m.Signals())}
				for _, s := range m.Signals() {
					mdWalk(s, &me.occ, &me.groups, refs)
				}
				msgs = append(msgs, me)
			}
		}
	}
	nBody := len(wantHead)
	wantHead = append(wantHead, "H2:Signal Types", "H2:Signal Units", "H2:Signal Enums")
	var gotHead []string
	for _, it := range items {
		if it.level > 0 {
			gotHead = append(gotHead, mdItemStr(it))
		}
	}
	okSections := len(gotHead) >= len(wantHead)
	for i := 0; okSections && i < len(wantHead); i++ {
		okSections = gotHead[i] == wantHead[i]
	}
	for i := len(wantHead); okSections && i < len(gotHead); i++ {
		okSections = strings.HasPrefix(gotHead[i], "H4:")
	}
	if okSections && len(gotHead)-len(wantHead) != len(refs.enums) {
		okSections = false
	}
	if !okSections {
		e.add("C16", "c16-sections", sprintf("%s: want %v got %v", short, wantHead, gotHead))
	}

	// ---- oracle: tables ----
	// split the items at the three appendix headings (the last three H2)
	var h2 []int
	for i, it := range items {
		if it.level == 2 {
			h2 = append(h2, i)
		}
	}
	var typeEntries, unitEntries, enumEntries []mdEntry
	if len(h2) >= 3 {
		iT, iU, iE := h2[len(h2)-3], h2[len(h2)-2], h2[len(h2)-1]
		// body: one table per message with signals, right after its H4
		mi := -1
		seenTable := map[int]bool{}
		for i := 0; i < iT; i++ {
			it := items[i]
			if it.level == 4 {
				mi++
				continue
			}
			if it.level != 0 {
				continue
			}
			if mi < 0 || mi >= len(msgs) || seenTable[mi] {
				e.add("C16", "c16-sections", sprintf("%s: unexpected table #%d", short, i))
				continue
			}
			seenTable[mi] = true
			me := msgs[mi]
			if len(it.header) != 8 {
				e.add("C16", "c16-row-width", sprintf("%s: message %s header has %d cells", short, me.name, len(it.header)))
			}
			var got []mdOcc
			seps := 0
			for _, r := range it.rows {
				if len(r) != len(it.header) {
					e.add("C16", "c16-row-width", sprintf("%s: message %s row %v has %d cells, header %d", short, me.name, r, len(r), len(it.header)))
				}
				if mdIsSepRow(r) {
					seps++
					continue
				}
				o := mdOcc{}
				if len(r) > 0 {
					o.name = r[0]
				}
				if len(r) > 1 {
					o.start = r[1]
				}
				if len(r) > 2 {
					o.size = r[2]
				}
				got = append(got, o)
			}
			same := len(got) == len(me.occ) && seps == me.groups
			for k := 0; same && k < len(got); k++ {
				w := me.occ[k]
				w.name = strings.Join(strings.Fields(w.name), " ")
				same = got[k] == w
			}
			if !same {
				e.add("C16", "c16-missing-row", sprintf("%s: message %s: want %v (+%d group rows) got %v (+%d)", short, me.name, me.occ, me.groups, got, seps))
			}
		}
		for k, me := range msgs {
			if me.nsig > 0 && !seenTable[k] {
				e.add("C16", "c16-missing-row", sprintf("%s: message %s has signals but no table", short, me.name))
			}
			if me.nsig == 0 && seenTable[k] {
				e.add("C16", "c16-missing-row", sprintf("%s: message %s has no signals but a table", short, me.name))
			}
		}

		// appendix: types
		lab := newMdLabels(g)
		usedT := map[acmelib.EntityID]bool{}
		for i := iT + 1; i < iU; i++ {
			it := items[i]
			if it.level != 0 {
				continue
			}
			if len(it.header) != 9 {
				e.add("C16", "c16-row-width", sprintf("%s: types header has %d cells", short, len(it.header)))
			}
			for _, r := range it.rows {
				if len(r) != len(it.header) {
					e.add("C16", "c16-row-width", sprintf("%s: types row %v", short, r))
				}
				var cands []*acmelib.SignalType
				for _, t := range g.types {
					if !usedT[t.EntityID()] && mdNorm(mdTypeCells(t)) == mdNorm(r) {
						cands = append(cands, t)
					}
				}
				sort.Slice(cands, func(a, b int) bool { return cands[a].EntityID() < cands[b].EntityID() })
				key := ""
				if len(r) > 1 {
					key = r[1] + "\x1f" + r[0]
				}
				if len(cands) == 0 {
					typeEntries = append(typeEntries, mdEntry{table: i, row: r, label: "?" + strings.Join(r, ";"), key: key})
					e.add("C16", "c16-appendix-dup", sprintf("%s: types row %v stands for no (further) signal type", short, r))
					continue
				}
				t := cands[0]
				usedT[t.EntityID()] = true
				typeEntries = append(typeEntries, mdEntry{table: i, row: r, label: lab.types[t.EntityID()], id: string(t.EntityID()), key: key})
				if _, ok := refs.types[t.EntityID()]; !ok {
					e.add("C16", "c16-appendix-extra", sprintf("%s: signal type %s is listed but not referenced", short, t.Name()))
				}
			}
		}
		for id, t := range refs.types {
			if !usedT[id] {
				e.add("C16", "c16-appendix-missing", sprintf("%s: signal type %s (%s) is referenced but not listed", short, t.Name(), lab.types[id]))
			}
		}
		// units
		usedU := map[acmelib.EntityID]bool{}
		for i := iU + 1; i < iE; i++ {
			it := items[i]
			if it.level != 0 {
				continue
			}
			if len(it.header) != 4 {
				e.add("C16", "c16-row-width", sprintf("%s: units header has %d cells", short, len(it.header)))
			}
			for _, r := range it.rows {
				if len(r) != len(it.header) {
					e.add("C16", "c16-row-width", sprintf("%s: units row %v", short, r))
				}
				var cands []*acmelib.SignalUnit
				for _, u := range g.units {
					if !usedU[u.EntityID()] && mdNorm(mdUnitCells(u)) == mdNorm(r) {
						cands = append(cands, u)
					}
				}
				sort.Slice(cands, func(a, b int) bool { return cands[a].EntityID() < cands[b].EntityID() })
				key := ""
				if len(r) > 0 {
					key = r[0]
				}
				if len(cands) == 0 {
					unitEntries = append(unitEntries, mdEntry{table: i, row: r, label: "?" + strings.Join(r, ";"), key: key})
					e.add("C16", "c16-appendix-dup", sprintf("%s: units row %v stands for no (further) signal unit", short, r))
					continue
				}
				u := cands[0]
				usedU[u.EntityID()] = true
				unitEntries = append(unitEntries, mdEntry{table: i, row: r, label: lab.units[u.EntityID()], id: string(u.EntityID()), key: key})
				if _, ok := refs.units[u.EntityID()]; !ok {
					e.add("C16", "c16-appendix-extra", sprintf("%s: signal unit %s is listed but not referenced", short, u.Name()))
				}
			}
		}
		for id, u := range refs.units {
			if !usedU[id] {
				e.add("C16", "c16-appendix-missing", sprintf("%s: signal unit %s (%s) is referenced but not listed", short, u.Name(), lab.units[id]))
			}
		}
		// enums: H4 + table each
		usedE := map[acmelib.EntityID]bool{}
		for i := iE + 1; i < len(items); i++ {
			it := items[i]
			if it.level != 4 {
				continue
			}
			key := it.text
			full := it.text
			its := []int{i}
			if i+1 < len(items) && items[i+1].level == 0 {
				its = append(its, i+1)
				tb := items[i+1]
				if len(tb.header) != 3 {
					e.add("C16", "c16-row-width", sprintf("%s: enum %s header has %d cells", short, it.text, len(tb.header)))
				}
				for _, r := range tb.rows {
					if len(r) != len(tb.header) {
						e.add("C16", "c16-row-width", sprintf("%s: enum %s row %v", short, it.text, r))
					}
					full += "|" + strings.Join(r, ";")
				}
			} else {
				e.add("C16", "c16-missing-row", sprintf("%s: enum %s has no value table", short, it.text))
			}
			var cands []*acmelib.SignalEnum
			for _, en := range g.enums {
				if !usedE[en.EntityID()] && strings.Join(strings.Fields(mdEnumKey(en)), " ") == full {
					cands = append(cands, en)
				}
			}
			// a referenced entity first (an unreferenced twin would be an extra), then by entity id
			sort.Slice(cands, func(a, b int) bool {
				_, ra := refs.enums[cands[a].EntityID()]
				_, rb := refs.enums[cands[b].EntityID()]
				if ra != rb {
					return ra
				}
				return cands[a].EntityID() < cands[b].EntityID()
			})
			if len(cands) == 0 {
				enumEntries = append(enumEntries, mdEntry{items: its, label: "?" + it.text, key: key})
				e.add("C16", "c16-appendix-dup", sprintf("%s: enum section %q stands for no (further) signal enum", short, full))
				continue
			}
			en := cands[0]
			usedE[en.EntityID()] = true
			enumEntries = append(enumEntries, mdEntry{items: its, label: lab.enums[en.EntityID()], id: string(en.EntityID()), key: key})
			if _, ok := refs.enums[en.EntityID()]; !ok {
				e.add("C16", "c16-appendix-extra", sprintf("%s: signal enum %s is listed but not referenced", short, en.Name()))
			}
		}
		for id, en := range refs.enums {
			if !usedE[id] {
				e.add("C16", "c16-appendix-missing", sprintf("%s: signal enum %s (%s) is referenced but not listed", short, en.Name(), lab.enums[id]))
			}
		}
	} else {
		e.add("C16", "c16-sections", sprintf("%s: fewer than three H2 headings", short))
	}
	_ = nBody

	if retErr != "" {
		return retErr
	}
	// ---- the summary compared with the model ----
	typeEntries = e.mdFixTies("types", typeEntries, short)
	unitEntries = e.mdFixTies("units", unitEntries, short)
	enumEntries = e.mdFixTies("enums", enumEntries, short)
	for _, es := range [][]mdEntry{typeEntries, unitEntries} { // the rows of a run of equal keys in label order
		for k, en := range es {
			if en.table == es[0].table && k < len(items[en.table].rows) {
				items[en.table].rows[k] = en.row
			}
		}
	}
	moved := map[int]bool{}
	for _, en := range enumEntries {
		for _, i := range en.items {
			moved[i] = true
		}
	}
	parts := make([]string, 0, len(items)+3)
	for i, it := range items {
		if !moved[i] {
			parts = append(parts, mdItemStr(it))
		}
	}
	for _, en := range enumEntries { // the enum sections, runs of equal names in label order
		for _, i := range en.items {
			parts = append(parts, mdItemStr(items[i]))
		}
	}
	parts = append(parts,
		"types"+listStr(mdLabelsOf(typeEntries)),
		"units"+listStr(mdLabelsOf(unitEntries)),
		"enums"+listStr(mdLabelsOf(enumEntries)))
	return "ok " + strings.Join(parts, "|")
}

// hostileText: a small network with every kind of table row (standard, enum and multiplexer
// signal, a nested multiplexer with inner signals, type, unit, enum, enum value, message, node,
// bus) is exported twice: as it is, and with ONE text (a name, description or symbol, chosen by
// kind/2) replaced by a text that contains a character that is structural in a Markdown pipe
// table (kind%2: pipe / line break).  The two documents must have the same shape: the same
// headings count, the same tables, the same number of rows in each, every row of header width.
const mdHostilePlaces = 24

func mdHostileNet(place int, text string) (*acmelib.Network, string) {
	where := "none"
	set := func(p int, w string, f func()) {
		if p == place {
			where = w
			f()
		}
	}
	nm := func(p int, w, def string) string {
		if p == place {
			where = w
			return text
		}
		return def
	}
	net := acmelib.NewNetwork(nm(0, "network-name", "net"))
	bus := acmelib.NewBus(nm(1, "bus-name", "bus"))
	must(net.AddBus(bus))
	node := acmelib.NewNode(nm(2, "node-name", "node"), 1, 1)
	must(bus.AddNodeInterface(node.Interfaces()[0]))
	msg := acmelib.NewMessage(nm(3, "message-name", "msg"), 1, 8)
	must(node.Interfaces()[0].AddSentMessage(msg))
	typ, err := acmelib.NewIntegerSignalType(nm(4, "type-name", "typ"), 4, false)
	must(err)
	unit := acmelib.NewSignalUnit(nm(5, "unit-name", "unit"), acmelib.SignalUnitKindCustom, nm(6, "unit-symbol", "u"))
	enum := acmelib.NewSignalEnum(nm(7, "enum-name", "enum"))
	val := acmelib.NewSignalEnumValue(nm(8, "enum-value-name", "v1"), 1)
	must(enum.AddValue(val))
	std, err := acmelib.NewStandardSignal(nm(9, "standard-signal-name", "std"), typ)
	must(err)
	std.SetUnit(unit)
	es, err := acmelib.NewEnumSignal(nm(10, "enum-signal-name", "es"), enum)
	must(err)
	mux, err := acmelib.NewMultiplexerSignal(nm(11, "multiplexer-name", "mux"), 2, 16)
	must(err)
	inner, err := acmelib.NewMultiplexerSignal(nm(12, "nested-multiplexer-name", "inner"), 2, 6)
	must(err)
	deep, err := acmelib.NewStandardSignal(nm(13, "nested-signal-name", "deep"), typ)
	must(err)
	set(14, "bus-desc", func() { bus.SetDesc(text) })
	set(15, "node-desc", func() { node.SetDesc(text) })
	set(16, "message-desc", func() { msg.SetDesc(text) })
	set(17, "type-desc", func() { typ.SetDesc(text) })
	set(18, "unit-desc", func() { unit.SetDesc(text) })
	set(19, "enum-desc", func() { enum.SetDesc(text) })
	set(20, "enum-value-desc", func() { val.SetDesc(text) })
	set(21, "standard-signal-desc", func() { std.SetDesc(text) })
	set(22, "multiplexer-desc", func() { mux.SetDesc(text) })
	set(23, "nested-multiplexer-desc", func() { inner.SetDesc(text); deep.SetDesc(text); es.SetDesc(text) })
	must(inner.InsertSignal(deep, 0))
	must(mux.InsertSignal(inner, 0, 1))
	must(msg.AppendSignal(std))
	must(msg.AppendSignal(es))
	must(msg.AppendSignal(mux))
	return net, where
}

func mdShape(doc string) (string, bool) {
	var b strings.Builder
	ok := true
	for _, it := range mdParse(doc) {
		if it.level != 0 {
			b.WriteString(sprintf("H%d ", it.level))
			continue
		}
		b.WriteString(sprintf("T%dx%d ", len(it.header), len(it.rows)))
		for _, r := range it.rows {
			if len(r) != len(it.header) {
				ok = false
				b.WriteString(sprintf("(row of %d) ", len(r)))
			}
		}
	}
	return b.String(), ok
}

func (e *mdExec) hostileText(kind int) string {
	text := "a|b"
	what := "pipe"
	if kind%2 == 1 {
		text = "line one\nline two"
		what = "newline"
	}
	if kind%4 == 3 {
		text = "cr\rlf"
		what = "carriage-return"
	}
	place := (kind / 2) % mdHostilePlaces
	export := func(n *acmelib.Network) (string, error) {
		var buf bytes.Buffer
		err := acmelib.ExportToMarkdown(n, &buf)
		return buf.String(), err
	}
	cleanNet, _ := mdHostileNet(-1, "")
	clean, err := export(cleanNet)
	if err != nil {
		e.add("C16", "c16-export-error:"+err.Error(), sprintf("mdtext %d (clean network)", kind))
		return "err"
	}
	hostNet, where := mdHostileNet(place, text)
	host, err := export(hostNet)
	if err != nil {
		e.add("C16", "c16-export-error:"+err.Error(), sprintf("mdtext %d: %s = %q", kind, where, text))
		return "err " + where
	}
	cs, cok := mdShape(clean)
	hs, hok := mdShape(host)
	if !cok {
		e.add("C16", "c16-row-width", sprintf("mdtext %d: the clean probe network has a row whose width differs from its header: %s", kind, cs))
		return "broken clean"
	}
	if !hok || cs != hs {
		e.add("C16", "c16-text-breaks-table:"+what, sprintf("probe network with %s = %q: the document shape changes from [%s] to [%s] (H = heading, T<header width>x<rows>)", where, text, cs, hs))
		return "broken " + what + " " + where
	}
	return "ok " + what + " " + where
}
