package main

import (
	"math/rand"
	"sort"

	"github.com/squadracorsepolito/acmelib/internal"
)

// stream avl — C19: internal.IntervalBST against the Lean model Acme.Core.Avl.
//
//	avl new | avl ins lo hi | avl del lo hi | avl clear | avl dump | avl q lo hi | avl cu slo shi lo hi

type ivl struct{ lo, hi int }

func (i ivl) GetLow() int  { return i.lo }
func (i ivl) GetHigh() int { return i.hi }

type avlStream struct{ baseStream }

func init() { register(avlStream{}) }

func (avlStream) Name() string    { return "avl" }
func (avlStream) Parallel() bool  { return true } // no shared state: cases run on all cores
func (avlStream) Props() []string { return []string{"C19"} }

func (avlStream) Gen(r *rand.Rand, tier string, idx int) []string {
	n := 5 + r.Intn(40)
	if tier == "thorough" {
		n = 5 + r.Intn(120)
	}
	// coordinate range: small (many duplicates / overlaps) or wide
	span := pick(r, 4, 8, 16, 64, 1000)
	disjointMode := r.Intn(2) == 0 // produce pairwise-disjoint contents half of the time
	var sc []string
	var live []ivl
	rnd := func() ivl {
		lo := r.Intn(span) - span/4
		w := r.Intn(1 + span/4)
		if r.Intn(12) == 0 {
			return ivl{lo + w + 1, lo} // inverted
		}
		return ivl{lo, lo + w}
	}
	overl := func(a ivl) bool {
		for _, b := range live {
			if a.lo <= b.hi && b.lo <= a.hi {
				return true
			}
		}
		return false
	}
	for i := 0; i < n; i++ {
		switch k := r.Intn(20); {
		case k < 10:
			x := rnd()
			if disjointMode && x.lo <= x.hi && overl(x) {
				continue
			}
			sc = append(sc, sprintf("avl ins %d %d", x.lo, x.hi))
			if x.lo <= x.hi {
				live = append(live, x)
			}
		case k < 15:
			var x ivl
			if len(live) > 0 && r.Intn(5) != 0 {
				j := r.Intn(len(live))
				x = live[j]
				live = append(live[:j], live[j+1:]...)
			} else {
				x = rnd()
				for j, y := range live {
					if y == x {
						live = append(live[:j], live[j+1:]...)
						break
					}
				}
			}
			sc = append(sc, sprintf("avl del %d %d", x.lo, x.hi))
		case k < 16 && r.Intn(4) == 0:
			sc = append(sc, "avl clear")
			live = nil
		case k < 18:
			q := rnd()
			sc = append(sc, sprintf("avl q %d %d", q.lo, q.hi))
		default:
			q := rnd()
			s := rnd()
			if len(live) > 0 {
				s = live[r.Intn(len(live))]
			}
			sc = append(sc, sprintf("avl cu %d %d %d %d", s.lo, s.hi, q.lo, q.hi))
		}
		if r.Intn(4) == 0 {
			sc = append(sc, "avl dump")
		}
	}
	sc = append(sc, "avl dump")
	// all queries over the coordinate range (bounded)
	if span <= 16 {
		for lo := -span / 4; lo < span; lo += 1 + span/8 {
			for hi := lo; hi < span+span/4; hi += 1 + span/8 {
				sc = append(sc, sprintf("avl q %d %d", lo, hi))
			}
		}
	}
	return sc
}

// Exhaustive: every op sequence of length ≤ L over coordinates 0..K-1 (thorough), shorter in quick.
func (avlStream) Exhaustive(tier string) [][]string {
	K, L := 3, 4
	if tier == "thorough" {
		K, L = 3, 6
	}
	var alphabet []string
	for lo := 0; lo < K; lo++ {
		for hi := lo; hi < K; hi++ {
			alphabet = append(alphabet, sprintf("avl ins %d %d", lo, hi), sprintf("avl del %d %d", lo, hi))
		}
	}
	var res [][]string
	var rec func(prefix []string, depth int)
	rec = func(prefix []string, depth int) {
		if depth == L {
			sc := append([]string{}, prefix...)
			sc = append(sc, "avl dump")
			for lo := 0; lo < K; lo++ {
				sc = append(sc, sprintf("avl q %d %d", lo, lo))
			}
			res = append(res, sc)
			return
		}
		for _, a := range alphabet {
			rec(append(prefix, a), depth+1)
		}
	}
	// only full-length sequences: shorter ones are prefixes (dump happens at the end; intermediate
	// states are covered by the oracle that runs after every op)
	rec(nil, 0)
	return res
}

func (avlStream) Tag(lines, outs []string) (bool, []string) {
	ins, del, two := 0, 0, false
	for _, l := range lines {
		f := fields(l)
		switch f[1] {
		case "ins":
			ins++
		case "del":
			del++
			if ins >= 3 {
				two = true
			}
		}
	}
	tags := []string{sprintf("len<=%d", ((len(lines)+19)/20)*20)}
	if two {
		tags = append(tags, "delete-after-3-inserts")
	}
	return ins >= 2 && del >= 1, tags
}

type avlExec struct {
	t     *internal.IntervalBST[ivl]
	spec  []ivl // brute-force multiset
	fs    []Finding
	nline int
}

func (avlStream) NewExec() Exec {
	return &avlExec{t: internal.NewIntervalBST[ivl]()}
}

func (e *avlExec) Findings() []Finding { return e.fs }

func (e *avlExec) fail(sig, detail string) {
	if len(e.fs) < 5 {
		e.fs = append(e.fs, Finding{Prop: "C19", Sig: sig, Detail: detail, Line: e.nline})
	}
}

func (e *avlExec) Do(line string) string {
	defer func() { e.nline++ }()
	f := fields(line)
	switch f[1] {
	case "new":
		e.t = internal.NewIntervalBST[ivl]()
		e.spec = nil
		return "ok"
	case "ins":
		x := ivl{atoi(f[2]), atoi(f[3])}
		e.t.Insert(x)
		if x.lo <= x.hi {
			e.spec = append(e.spec, x)
		}
		e.oracle()
		return "ok"
	case "del":
		x := ivl{atoi(f[2]), atoi(f[3])}
		e.t.Delete(x)
		for j, y := range e.spec {
			if y == x {
				e.spec = append(e.spec[:j], e.spec[j+1:]...)
				break
			}
		}
		e.oracle()
		return "ok"
	case "clear":
		e.t.Clear()
		e.spec = nil
		e.oracle()
		return "ok"
	case "dump":
		items := []string{}
		for _, x := range e.t.GetAllIntervals() {
			items = append(items, sprintf("(%d,%d)", x.lo, x.hi))
		}
		shape := []string{}
		for _, n := range e.t.VerifShape() {
			shape = append(shape, sprintf("(%d,%d,%d,%d,%s,%s)", n.Low, n.High, n.Max, n.Height, boolStr(n.HasLeft), boolStr(n.HasRight)))
		}
		return sprintf("size=%d items=%s shape=%s", e.t.Size(), listStr(items), listStr(shape))
	case "q":
		lo, hi := atoi(f[2]), atoi(f[3])
		got := e.t.Intersects(ivl{lo, hi})
		if e.disjoint() {
			want := false
			for _, y := range e.spec {
				if y.lo <= hi && lo <= y.hi {
					want = true
				}
			}
			if got != want {
				e.fail("intersects-vs-bruteforce", sprintf("Intersects(%d,%d)=%v, scan=%v", lo, hi, got, want))
			}
		}
		return boolStr(got)
	case "cu":
		s := ivl{atoi(f[2]), atoi(f[3])}
		lo, hi := atoi(f[4]), atoi(f[5])
		got := e.t.CanUpdateInterval(s, lo, hi)
		member := false
		for _, y := range e.spec {
			if y == s {
				member = true
			}
		}
		if e.disjoint() && member {
			other := false
			for _, y := range e.spec {
				if y != s && y.lo <= hi && lo <= y.hi {
					other = true
				}
			}
			if got != !other {
				e.fail("canupdate-vs-bruteforce", sprintf("CanUpdateInterval((%d,%d),%d,%d)=%v, scan=%v", s.lo, s.hi, lo, hi, got, !other))
			}
		}
		return boolStr(got)
	}
	return "bad-op"
}

func (e *avlExec) disjoint() bool {
	for i, a := range e.spec {
		for _, b := range e.spec[i+1:] {
			if a.lo <= b.hi && b.lo <= a.hi {
				return false
			}
		}
	}
	return true
}

// oracle checks the first sentence of C19 on the real tree after every mutation.
func (e *avlExec) oracle() {
	if e.t.Size() != len(e.spec) {
		e.fail("size-vs-multiset", sprintf("Size()=%d, multiset has %d", e.t.Size(), len(e.spec)))
	}
	got := e.t.GetAllIntervals()
	want := append([]ivl{}, e.spec...)
	sort.Slice(want, func(i, j int) bool {
		if want[i].lo != want[j].lo {
			return want[i].lo < want[j].lo
		}
		return want[i].hi < want[j].hi
	})
	if len(got) != len(want) {
		e.fail("contents-vs-multiset", sprintf("contents %v, multiset %v", got, want))
	} else {
		for i := range got {
			if i > 0 && got[i-1].lo > got[i].lo {
				e.fail("contents-not-ascending", sprintf("%v", got))
				break
			}
		}
		g2 := append([]ivl{}, got...)
		sort.Slice(g2, func(i, j int) bool {
			if g2[i].lo != g2[j].lo {
				return g2[i].lo < g2[j].lo
			}
			return g2[i].hi < g2[j].hi
		})
		for i := range g2 {
			if g2[i] != want[i] {
				e.fail("contents-vs-multiset", sprintf("contents %v, multiset %v", got, want))
				break
			}
		}
	}
	// balance, heights, max from the pre-order shape
	sh := e.t.VerifShape()
	pos := 0
	var walk func() (h, mx int, ok bool)
	walk = func() (int, int, bool) {
		n := sh[pos]
		pos++
		lh, rh, m := 0, 0, n.High
		if n.HasLeft {
			h, x, _ := walk()
			lh = h
			if x > m {
				m = x
			}
		}
		if n.HasRight {
			h, x, _ := walk()
			rh = h
			if x > m {
				m = x
			}
		}
		h := 1 + max(lh, rh)
		if n.Height != h {
			e.fail("height-field", sprintf("node (%d,%d) height %d, real %d", n.Low, n.High, n.Height, h))
		}
		if n.Max != m {
			e.fail("max-field", sprintf("node (%d,%d) max %d, real %d", n.Low, n.High, n.Max, m))
		}
		if lh-rh > 1 || rh-lh > 1 {
			e.fail("unbalanced", sprintf("node (%d,%d) left height %d right height %d", n.Low, n.High, lh, rh))
		}
		return h, m, true
	}
	if len(sh) > 0 {
		walk()
	}
}
