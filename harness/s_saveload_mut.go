package main

// saveload stream, part 3 (C13): field-level mutations of saved protobuf trees by
// reflection, and damaged byte inputs.

import (
	"encoding/base64"
	"math"
	"math/rand"
	"regexp"
	"strings"

	"github.com/squadracorsepolito/acmelib"
	acmelibv1 "github.com/squadracorsepolito/acmelib/proto/gen/go/acmelib/v1"
	"google.golang.org/protobuf/encoding/protojson"
	"google.golang.org/protobuf/encoding/prototext"
	"google.golang.org/protobuf/proto"
	"google.golang.org/protobuf/reflect/protoreflect"
)

// slAllocCap: group_count and interface_count above this make the constructors allocate
// eagerly (documented exclusion); mutations and byte inputs stay at or below it.
const slAllocCap = 65536

type slSite struct {
	m    protoreflect.Message
	fd   protoreflect.FieldDescriptor
	path string
}

type slSites struct {
	subMsgs   []slSite // set singular message fields
	lists     []slSite // non-empty repeated fields
	idStrs    []slSite // singular string fields holding an entity id
	enums     []slSite
	nums      []slSite
	strs      []slSite
	payloads  []slSite            // SignalPayload messages with >= 2 refs (site.m is the payload)
	entLists  []slSite            // repeated message fields with >= 2 elements that carry an Entity
	enumAttrs []slSite            // EnumAttribute messages
	muxes     []slSite            // MultiplexerSignal messages with >= 2 groups
	oneofs    []slSite            // messages having a oneof (site.fd unused)
	ifNums    []slSite            // interface numbers / counts
	root      protoreflect.Message
	pool      map[string][]string // owner message name -> entity ids
	wantOf    map[string]string   // path of an id field -> kind of entity it should name
	names     []string
}

func slIsIDField(fd protoreflect.FieldDescriptor) bool {
	return fd.Kind() == protoreflect.StringKind && strings.Contains(string(fd.Name()), "entity_id")
}

func (s *slSites) collect(m protoreflect.Message, path, owner string) {
	md := m.Descriptor()
	if md.Oneofs().Len() > 0 {
		s.oneofs = append(s.oneofs, slSite{m: m, path: path})
	}
	switch md.Name() {
	case "EnumAttribute":
		s.enumAttrs = append(s.enumAttrs, slSite{m: m, path: path})
	case "MultiplexerSignal":
		if fd := md.Fields().ByName("groups"); m.Get(fd).List().Len() >= 2 {
			s.muxes = append(s.muxes, slSite{m: m, fd: fd, path: path})
		}
	case "SignalPayload":
		if fd := md.Fields().ByName("refs"); fd != nil && m.Get(fd).List().Len() >= 2 {
			s.payloads = append(s.payloads, slSite{m: m, fd: fd, path: path})
		}
	case "Entity":
		if id := m.Get(md.Fields().ByName("entity_id")).String(); id != "" {
			s.pool[owner] = append(s.pool[owner], id)
		}
		if nm := m.Get(md.Fields().ByName("name")).String(); nm != "" {
			s.names = append(s.names, nm)
		}
	}
	fds := md.Fields()
	for i := 0; i < fds.Len(); i++ {
		fd := fds.Get(i)
		p := path + "." + string(fd.Name())
		switch {
		case fd.IsList():
			l := m.Get(fd).List()
			if l.Len() > 0 {
				s.lists = append(s.lists, slSite{m, fd, p})
			}
			if fd.Message() != nil {
				if l.Len() >= 2 && fd.Message().Fields().ByName("entity") != nil {
					s.entLists = append(s.entLists, slSite{m, fd, p})
				}
				for j := 0; j < l.Len(); j++ {
					s.collect(l.Get(j).Message(), sprintf("%s[%d]", p, j), string(md.Name()))
				}
			}
		case fd.Message() != nil:
			if m.Has(fd) {
				s.subMsgs = append(s.subMsgs, slSite{m, fd, p})
				s.collect(m.Get(fd).Message(), p, string(md.Name()))
			}
		case slIsIDField(fd):
			s.idStrs = append(s.idStrs, slSite{m, fd, p})
			s.wantOf[p] = slPoolFor(fd, owner)
		case fd.Kind() == protoreflect.StringKind:
			s.strs = append(s.strs, slSite{m, fd, p})
		case fd.Kind() == protoreflect.EnumKind:
			s.enums = append(s.enums, slSite{m, fd, p})
		default:
			s.nums = append(s.nums, slSite{m, fd, p})
			switch fd.Name() {
			case "number", "node_interface_number", "interface_count":
				s.ifNums = append(s.ifNums, slSite{m, fd, p})
			}
		}
	}
}

func slCollectSites(p *acmelibv1.Network) *slSites {
	s := &slSites{pool: map[string][]string{}, wantOf: map[string]string{}, root: p.ProtoReflect()}
	s.collect(p.ProtoReflect(), "net", "Network")
	return s
}

// slPoolFor maps an id field to the kind of entity it should name.
func slPoolFor(fd protoreflect.FieldDescriptor, parent string) string {
	switch fd.Name() {
	case "type_entity_id":
		return "SignalType"
	case "unit_entity_id":
		return "SignalUnit"
	case "enum_entity_id":
		return "SignalEnum"
	case "node_entity_id":
		return "Node"
	case "attribute_entity_id":
		return "Attribute"
	case "canid_builder_entity_id":
		return "CANIDBuilder"
	case "signal_entity_id", "fixed_signal_entity_ids":
		return "Signal"
	}
	return parent
}

func (s *slSites) someID(r *rand.Rand, want string) (string, string) {
	switch r.Intn(10) {
	case 0, 1, 2, 3, 4:
		if ids := s.pool[want]; len(ids) > 0 {
			return ids[r.Intn(len(ids))], "another " + want + " id"
		}
	case 5, 6, 7:
		var kinds []string
		for k, v := range s.pool {
			if k != want && len(v) > 0 {
				kinds = append(kinds, k)
			}
		}
		if len(kinds) > 0 {
			sortStrings(kinds)
			k := kinds[r.Intn(len(kinds))]
			ids := s.pool[k]
			return ids[r.Intn(len(ids))], "an id of a " + k
		}
	case 8:
		return "", "the empty id"
	}
	return "no_such_entity_id", "a garbage id"
}

func sortStrings(xs []string) {
	for i := 1; i < len(xs); i++ {
		for j := i; j > 0 && xs[j] < xs[j-1]; j-- {
			xs[j], xs[j-1] = xs[j-1], xs[j]
		}
	}
}

func slNumValue(r *rand.Rand, fd protoreflect.FieldDescriptor, cur protoreflect.Value) (protoreflect.Value, string) {
	switch fd.Kind() {
	case protoreflect.BoolKind:
		return protoreflect.ValueOfBool(!cur.Bool()), sprintf("%v", !cur.Bool())
	case protoreflect.Uint32Kind:
		c := uint32(cur.Uint())
		var v uint32
		if fd.Name() == "group_count" || fd.Name() == "interface_count" {
			v = pick(r, 0, 1, 2, 3, c+1, c-1, 255, 65535, slAllocCap)
			if v > slAllocCap {
				v = slAllocCap
			}
		} else {
			v = pick(r, 0, 1, 2, 7, 8, 9, 63, 64, 65, c+1, c-1, c+8, 1<<16, 1<<31, math.MaxUint32, math.MaxUint32-7)
		}
		return protoreflect.ValueOfUint32(v), sprintf("%d", v)
	case protoreflect.Int32Kind:
		c := int32(cur.Int())
		v := pick(r, -1, 0, 1, 2, 3, c+1, c-1, 100, math.MaxInt32, math.MinInt32)
		return protoreflect.ValueOfInt32(v), sprintf("%d", v)
	case protoreflect.Int64Kind:
		v := pick(r, int64(-1), 0, 1, -62135596801, 253402300800, math.MaxInt64, math.MinInt64)
		return protoreflect.ValueOfInt64(v), sprintf("%d", v)
	case protoreflect.DoubleKind:
		v := pick(r, 0, -1, 1, math.NaN(), math.Inf(1), math.Inf(-1), 1e300, -1e300, cur.Float()+1)
		return protoreflect.ValueOfFloat64(v), sprintf("%v", v)
	}
	return protoreflect.Value{}, ""
}

func slCloneValue(fd protoreflect.FieldDescriptor, v protoreflect.Value) protoreflect.Value {
	if fd.Message() != nil {
		return protoreflect.ValueOfMessage(proto.Clone(v.Message().Interface()).ProtoReflect())
	}
	return v
}

// slMutate applies one mutation and describes it ("" when the chosen category has no site).
func (s *slSites) mutate(r *rand.Rand) (cat, desc string) {
	cats := []string{"clear-submessage", "clear-submessage", "clear-submessage", "list", "list", "list",
		"retarget-id", "retarget-id", "retarget-id", "retarget-id", "enum-kind", "enum-kind",
		"number", "number", "number", "number", "string", "overlap", "overlap", "duplicate-key", "duplicate-key", "duplicate-key",
		"enum-attribute", "interface-number", "interface-number", "oneof", "oneof", "group-position", "group-position",
		"group-copy", "group-copy", "group-copy", "many-interfaces", "dup-nested-name", "dup-nested-name", "dup-nested-name", "group-position", "group-position", "group-position"}
	cat = cats[r.Intn(len(cats))]
	switch cat {
	case "clear-submessage":
		if len(s.subMsgs) == 0 {
			return cat, ""
		}
		st := s.subMsgs[r.Intn(len(s.subMsgs))]
		st.m.Clear(st.fd)
		return cat, st.path + ": sub-message deleted"
	case "list":
		if len(s.lists) == 0 {
			return cat, ""
		}
		st := s.lists[r.Intn(len(s.lists))]
		l := st.m.Mutable(st.fd).List()
		n := l.Len()
		i := r.Intn(n)
		switch op := r.Intn(6); {
		case op == 0:
			st.m.Clear(st.fd)
			return cat, sprintf("%s: all %d elements removed", st.path, n)
		case op == 1:
			var keep []protoreflect.Value
			for j := 0; j < n; j++ {
				if j != i {
					keep = append(keep, slCloneValue(st.fd, l.Get(j)))
				}
			}
			l.Truncate(0)
			for _, v := range keep {
				l.Append(v)
			}
			return cat, sprintf("%s: element %d of %d removed", st.path, i, n)
		case op == 2 || op == 3:
			l.Append(slCloneValue(st.fd, l.Get(i)))
			return cat, sprintf("%s: element %d duplicated (appended)", st.path, i)
		case op == 4 && n >= 2:
			j := r.Intn(n)
			a, b := slCloneValue(st.fd, l.Get(i)), slCloneValue(st.fd, l.Get(j))
			l.Set(i, b)
			l.Set(j, a)
			return cat, sprintf("%s: elements %d and %d swapped", st.path, i, j)
		default:
			if st.fd.Kind() == protoreflect.StringKind {
				var v, how string
				if slIsIDField(st.fd) || strings.Contains(string(st.fd.Name()), "_ids") {
					v, how = s.someID(r, "Signal")
				} else {
					v, how = pick(r, "", "nope", l.Get(r.Intn(n)).String()), "another text"
				}
				if r.Intn(2) == 0 {
					l.Set(i, protoreflect.ValueOfString(v))
					return cat, sprintf("%s[%d]: set to %s %q", st.path, i, how, v)
				}
				l.Append(protoreflect.ValueOfString(v))
				return cat, sprintf("%s: appended %s %q", st.path, how, v)
			}
			l.Append(slCloneValue(st.fd, l.Get(i)))
			return cat, sprintf("%s: element %d duplicated (appended)", st.path, i)
		}
	case "retarget-id":
		if len(s.idStrs) == 0 {
			return cat, ""
		}
		st := s.idStrs[r.Intn(len(s.idStrs))]
		want := s.wantOf[st.path]
		v, how := s.someID(r, want)
		old := st.m.Get(st.fd).String()
		st.m.Set(st.fd, protoreflect.ValueOfString(v))
		return cat, sprintf("%s: %q retargeted to %s %q", st.path, old, how, v)
	case "enum-kind":
		if len(s.enums) == 0 {
			return cat, ""
		}
		st := s.enums[r.Intn(len(s.enums))]
		n := st.fd.Enum().Values().Len()
		old := st.m.Get(st.fd).Enum()
		v := protoreflect.EnumNumber(r.Intn(n + 1))
		if r.Intn(8) == 0 {
			v = 99
		}
		if v == old {
			v = (v + 1) % protoreflect.EnumNumber(n)
		}
		st.m.Set(st.fd, protoreflect.ValueOfEnum(v))
		return cat, sprintf("%s: enum %d changed to %d", st.path, old, v)
	case "number":
		if len(s.nums) == 0 {
			return cat, ""
		}
		st := s.nums[r.Intn(len(s.nums))]
		old := st.m.Get(st.fd)
		v, txt := slNumValue(r, st.fd, old)
		if !v.IsValid() {
			return cat, ""
		}
		st.m.Set(st.fd, v)
		return cat, sprintf("%s: %v set to %s", st.path, old.Interface(), txt)
	case "string":
		if len(s.strs) == 0 {
			return cat, ""
		}
		st := s.strs[r.Intn(len(s.strs))]
		old := st.m.Get(st.fd).String()
		v := pick(r, "", "x", "a b", slOddText)
		if len(s.names) > 0 && r.Intn(2) == 0 {
			v = s.names[r.Intn(len(s.names))]
		}
		st.m.Set(st.fd, protoreflect.ValueOfString(v))
		return cat, sprintf("%s: %q set to %q", st.path, slClip(old, 40), slClip(v, 40))
	case "overlap":
		if len(s.payloads) == 0 {
			return cat, ""
		}
		st := s.payloads[r.Intn(len(s.payloads))]
		l := st.m.Mutable(st.fd).List()
		a := r.Intn(l.Len())
		b := (a + 1 + r.Intn(l.Len()-1)) % l.Len()
		fd := st.fd.Message().Fields().ByName("rel_start_bit")
		pa := uint32(l.Get(a).Message().Get(fd).Uint())
		nv := pa + uint32(r.Intn(2))
		old := l.Get(b).Message().Get(fd).Uint()
		l.Get(b).Message().Set(fd, protoreflect.ValueOfUint32(nv))
		return cat, sprintf("%s.refs[%d].rel_start_bit: %d set to %d (ref %d starts at %d)", st.path, b, old, nv, a, pa)
	case "duplicate-key":
		if len(s.entLists) == 0 {
			return cat, ""
		}
		st := s.entLists[r.Intn(len(s.entLists))]
		l := st.m.Mutable(st.fd).List()
		a := r.Intn(l.Len())
		b := (a + 1 + r.Intn(l.Len()-1)) % l.Len()
		efd := st.fd.Message().Fields().ByName("entity")
		ma, mb := l.Get(a).Message(), l.Get(b).Message()
		if !ma.Has(efd) {
			return cat, ""
		}
		ea := ma.Get(efd).Message()
		eb := mb.Mutable(efd).Message()
		nameFd := ea.Descriptor().Fields().ByName("name")
		idFd := ea.Descriptor().Fields().ByName("entity_id")
		switch r.Intn(3) {
		case 0:
			eb.Set(nameFd, ea.Get(nameFd))
			return cat, sprintf("%s: element %d gets the name %q of element %d", st.path, b, ea.Get(nameFd).String(), a)
		case 1:
			old := eb.Get(idFd).String()
			eb.Set(idFd, ea.Get(idFd))
			return cat, sprintf("%s: element %d (id %q) gets the entity id %q of element %d", st.path, b, old, ea.Get(idFd).String(), a)
		default:
			// a further element with the same name and a fresh id
			c := proto.Clone(ma.Interface()).ProtoReflect()
			c.Mutable(efd).Message().Set(idFd, protoreflect.ValueOfString(ea.Get(idFd).String()+"_copy"))
			l.Append(protoreflect.ValueOfMessage(c))
			return cat, sprintf("%s: copy of element %d appended under the id %q (same name)", st.path, a, ea.Get(idFd).String()+"_copy")
		}
	case "group-position":
		// a child that lives in several groups (or a fixed one) gets another position in ONE group
		if len(s.muxes) == 0 {
			return cat, ""
		}
		st := s.muxes[r.Intn(len(s.muxes))]
		groups := st.m.Mutable(st.fd).List()
		refsFd := st.fd.Message().Fields().ByName("refs")
		idFd := refsFd.Message().Fields().ByName("signal_entity_id")
		posFd := refsFd.Message().Fields().ByName("rel_start_bit")
		count := map[string]int{}
		for g := 0; g < groups.Len(); g++ {
			refs := groups.Get(g).Message().Get(refsFd).List()
			for i := 0; i < refs.Len(); i++ {
				count[refs.Get(i).Message().Get(idFd).String()]++
			}
		}
		type cand struct{ g, i int }
		var cands []cand
		for g := 0; g < groups.Len(); g++ {
			refs := groups.Get(g).Message().Get(refsFd).List()
			for i := 0; i < refs.Len(); i++ {
				if count[refs.Get(i).Message().Get(idFd).String()] >= 2 {
					cands = append(cands, cand{g, i})
				}
			}
		}
		if len(cands) == 0 {
			return cat, ""
		}
		c := cands[r.Intn(len(cands))]
		ref := groups.Get(c.g).Message().Mutable(refsFd).List().Get(c.i).Message()
		old := uint32(ref.Get(posFd).Uint())
		nv := pick(r, 0, 1, old+1, old-1, old+2, old+4)
		if nv == old {
			nv = old + 1
		}
		ref.Set(posFd, protoreflect.ValueOfUint32(nv))
		return cat, sprintf("%s.groups[%d].refs[%d].rel_start_bit: %d set to %d for signal %q, which other groups place at %d", st.path, c.g, c.i, old, nv, ref.Get(idFd).String(), old)
	case "dup-nested-name":
		// two signals of ONE message at different multiplexing depths (or under different
		// multiplexers) get the same name: a duplicate key the loader must refuse wherever the two
		// sit in the tree and in whatever order the tree enters the message
		type named struct {
			ent   protoreflect.Message
			depth int
			path  string
		}
		var msgs []protoreflect.Message
		var findMsgs func(m protoreflect.Message)
		findMsgs = func(m protoreflect.Message) {
			if m.Descriptor().Name() == "Message" {
				msgs = append(msgs, m)
				return
			}
			m.Range(func(fd protoreflect.FieldDescriptor, v protoreflect.Value) bool {
				if fd.Message() == nil || fd.IsMap() {
					return true
				}
				if fd.IsList() {
					l := v.List()
					for i := 0; i < l.Len(); i++ {
						findMsgs(l.Get(i).Message())
					}
				} else {
					findMsgs(v.Message())
				}
				return true
			})
		}
		findMsgs(s.root)
		if len(msgs) == 0 {
			return cat, ""
		}
		msg := msgs[r.Intn(len(msgs))]
		// mostly a message whose FIRST saved signal is a populated multiplexer (it enters a message
		// that has no name yet)
		var muxFirst []protoreflect.Message
		for _, mm := range msgs {
			if sf := mm.Descriptor().Fields().ByName("signals"); sf != nil && mm.Get(sf).List().Len() > 0 {
				first := mm.Get(sf).List().Get(0).Message()
				if mf := first.Descriptor().Fields().ByName("multiplexer"); mf != nil && first.Has(mf) {
					muxFirst = append(muxFirst, mm)
				}
			}
		}
		if len(muxFirst) > 0 && r.Intn(4) != 0 {
			msg = muxFirst[r.Intn(len(muxFirst))]
		}
		var all []named
		var walk func(sig protoreflect.Message, depth int, path string)
		walk = func(sig protoreflect.Message, depth int, path string) {
			fds := sig.Descriptor().Fields()
			if e := fds.ByName("entity"); e != nil && sig.Has(e) {
				all = append(all, named{sig.Get(e).Message(), depth, path})
			}
			if mf := fds.ByName("multiplexer"); mf != nil && sig.Has(mf) {
				mx := sig.Get(mf).Message()
				if sf := mx.Descriptor().Fields().ByName("signals"); sf != nil {
					l := mx.Get(sf).List()
					for i := 0; i < l.Len(); i++ {
						walk(l.Get(i).Message(), depth+1, sprintf("%s/%d", path, i))
					}
				}
			}
		}
		if sf := msg.Descriptor().Fields().ByName("signals"); sf != nil {
			l := msg.Get(sf).List()
			for i := 0; i < l.Len(); i++ {
				walk(l.Get(i).Message(), 0, sprintf("%d", i))
			}
		}
		var pairs [][2]int
		for a := range all {
			for b := range all {
				if a < b && all[a].depth != all[b].depth && all[a].depth+all[b].depth >= 1 {
					pairs = append(pairs, [2]int{a, b})
					// twice as likely: both inside the tree of one top-level multiplexer (the names a
					// populated multiplexer brings along when it enters a message)
					if strings.SplitN(all[a].path, "/", 2)[0] == strings.SplitN(all[b].path, "/", 2)[0] {
						pairs = append(pairs, [2]int{a, b}, [2]int{a, b})
						if strings.SplitN(all[a].path, "/", 2)[0] == "0" {
							pairs = append(pairs, [2]int{a, b}, [2]int{a, b}, [2]int{a, b})
						}
					}
				}
			}
		}
		if len(pairs) == 0 {
			return cat, ""
		}
		pr := pairs[r.Intn(len(pairs))]
		nameFd := all[pr[0]].ent.Descriptor().Fields().ByName("name")
		if nameFd == nil {
			return cat, ""
		}
		from, to := pr[0], pr[1]
		if r.Intn(2) == 0 {
			from, to = to, from
		}
		nm := all[from].ent.Get(nameFd)
		old := all[to].ent.Get(nameFd).String()
		all[to].ent.Set(nameFd, nm)
		return cat, sprintf("signal %s (depth %d) renamed from %q to %q, the name of signal %s (depth %d) of the same message", all[to].path, all[to].depth, old, nm.String(), all[from].path, all[from].depth)
	case "group-copy":
		// a child of one group is listed, at the position it has there, in ANOTHER group as well
		// (where that position may be taken): the loader inserts group by group and must check
		// every group's layout, also for a signal it already knows
		if len(s.muxes) == 0 {
			return cat, ""
		}
		st := s.muxes[r.Intn(len(s.muxes))]
		groups := st.m.Mutable(st.fd).List()
		refsFd := st.fd.Message().Fields().ByName("refs")
		idFd := refsFd.Message().Fields().ByName("signal_entity_id")
		posFd := refsFd.Message().Fields().ByName("rel_start_bit")
		var from []int
		for g := 0; g < groups.Len(); g++ {
			if groups.Get(g).Message().Get(refsFd).List().Len() > 0 {
				from = append(from, g)
			}
		}
		if len(from) == 0 || groups.Len() < 2 {
			return cat, ""
		}
		g1 := from[r.Intn(len(from))]
		g2 := (g1 + 1 + r.Intn(groups.Len()-1)) % groups.Len()
		src := groups.Get(g1).Message().Get(refsFd).List()
		ref := src.Get(r.Intn(src.Len())).Message()
		// prefer a pair (child, other group) in which the child's position is certainly taken:
		// another child starts at the same bit there
		type pair struct{ g1, i, g2 int }
		var sure []pair
		for a := 0; a < groups.Len(); a++ {
			ra := groups.Get(a).Message().Get(refsFd).List()
			for i := 0; i < ra.Len(); i++ {
				for b := 0; b < groups.Len(); b++ {
					if b == a {
						continue
					}
					rb := groups.Get(b).Message().Get(refsFd).List()
					same, taken := false, false
					for k := 0; k < rb.Len(); k++ {
						if rb.Get(k).Message().Get(idFd).String() == ra.Get(i).Message().Get(idFd).String() {
							same = true
						} else if rb.Get(k).Message().Get(posFd).Uint() == ra.Get(i).Message().Get(posFd).Uint() {
							taken = true
						}
					}
					if taken && !same {
						sure = append(sure, pair{a, i, b})
					}
				}
			}
		}
		if len(sure) > 0 && r.Intn(4) != 0 {
			c := sure[r.Intn(len(sure))]
			g1, g2 = c.g1, c.g2
			ref = groups.Get(g1).Message().Get(refsFd).List().Get(c.i).Message()
		}
		dst := groups.Get(g2).Message().Mutable(refsFd).List()
		for i := 0; i < dst.Len(); i++ {
			if dst.Get(i).Message().Get(idFd).String() == ref.Get(idFd).String() {
				return cat, ""
			}
		}
		cp := dst.NewElement()
		cp.Message().Set(idFd, ref.Get(idFd))
		cp.Message().Set(posFd, ref.Get(posFd))
		dst.Append(cp)
		return cat, sprintf("%s.groups[%d]: signal %q of group %d listed here too at its position %d", st.path, g2, ref.Get(idFd).String(), g1, ref.Get(posFd).Uint())
	case "many-interfaces":
		// a node with several hundred interfaces, and a reference to one of the high numbers: valid
		var counts []slSite
		for _, st := range s.ifNums {
			if st.fd.Name() == "interface_count" {
				counts = append(counts, st)
			}
		}
		if len(counts) == 0 {
			return cat, ""
		}
		nd := counts[r.Intn(len(counts))]
		entFd := nd.m.Descriptor().Fields().ByName("entity")
		if entFd == nil || !nd.m.Has(entFd) {
			return cat, ""
		}
		em := nd.m.Get(entFd).Message()
		nodeID := em.Get(em.Descriptor().Fields().ByName("entity_id")).String()
		var refs []slSite
		for _, st := range s.ifNums {
			nfd := st.m.Descriptor().Fields().ByName("node_entity_id")
			if st.fd.Name() != "interface_count" && nfd != nil && st.m.Get(nfd).String() == nodeID {
				refs = append(refs, st)
			}
		}
		count := pick(r, uint32(257), 300, 300, 1000)
		old := nd.m.Get(nd.fd).Uint()
		nd.m.Set(nd.fd, protoreflect.ValueOfUint32(count))
		d := sprintf("%s: interface_count %d set to %d", nd.path, old, count)
		if len(refs) > 0 {
			st := refs[r.Intn(len(refs))]
			num := pick(r, count-1, 256, 255+uint32(r.Intn(int(count-255))))
			if st.fd.Kind() == protoreflect.Int32Kind {
				st.m.Set(st.fd, protoreflect.ValueOfInt32(int32(num)))
			} else {
				st.m.Set(st.fd, protoreflect.ValueOfUint32(num))
			}
			d += sprintf("; %s set to %d", st.path, num)
		}
		return cat, d
	case "enum-attribute":
		if len(s.enumAttrs) == 0 {
			return cat, ""
		}
		st := s.enumAttrs[r.Intn(len(s.enumAttrs))]
		fds := st.m.Descriptor().Fields()
		vals, def := fds.ByName("values"), fds.ByName("def_value")
		switch r.Intn(4) {
		case 0:
			st.m.Clear(vals)
			return cat, st.path + ".values: emptied"
		case 1:
			st.m.Set(def, protoreflect.ValueOfString("not_in_list"))
			return cat, st.path + `.def_value: set to "not_in_list"`
		case 2:
			st.m.Clear(vals)
			st.m.Clear(def)
			return cat, st.path + ": values emptied and def_value cleared"
		default:
			l := st.m.Mutable(vals).List()
			if l.Len() > 0 {
				l.Append(l.Get(0))
			}
			l.Append(protoreflect.ValueOfString(""))
			return cat, st.path + ".values: first value repeated and an empty value appended"
		}
	case "interface-number":
		if len(s.ifNums) == 0 {
			return cat, ""
		}
		st := s.ifNums[r.Intn(len(s.ifNums))]
		old := st.m.Get(st.fd)
		var v protoreflect.Value
		var txt string
		switch st.fd.Kind() {
		case protoreflect.Int32Kind:
			x := pick(r, int32(-1), 1, 2, 3, 4, 100, math.MaxInt32, math.MinInt32)
			v, txt = protoreflect.ValueOfInt32(x), sprintf("%d", x)
		default:
			var x uint32
			if st.fd.Name() == "interface_count" {
				x = pick(r, uint32(0), 1, 0, slAllocCap)
			} else {
				x = pick(r, uint32(1), 2, 3, 4, 100, 1<<31, math.MaxUint32)
			}
			v, txt = protoreflect.ValueOfUint32(x), sprintf("%d", x)
		}
		st.m.Set(st.fd, v)
		return cat, sprintf("%s: %v set to %s", st.path, old.Interface(), txt)
	case "oneof":
		if len(s.oneofs) == 0 {
			return cat, ""
		}
		st := s.oneofs[r.Intn(len(s.oneofs))]
		od := st.m.Descriptor().Oneofs().Get(0)
		cur := st.m.WhichOneof(od)
		if cur != nil && r.Intn(3) == 0 {
			st.m.Clear(cur)
			return cat, sprintf("%s: oneof member %s deleted", st.path, cur.Name())
		}
		var others []protoreflect.FieldDescriptor
		for i := 0; i < od.Fields().Len(); i++ {
			if f := od.Fields().Get(i); cur == nil || f.Number() != cur.Number() {
				others = append(others, f)
			}
		}
		f := others[r.Intn(len(others))]
		if f.Message() != nil {
			st.m.Mutable(f)
		} else {
			st.m.Set(f, f.Default())
		}
		curName := "<none>"
		if cur != nil {
			curName = string(cur.Name())
		}
		return cat, sprintf("%s: oneof member %s replaced by an empty %s (kind/type field unchanged)", st.path, curName, f.Name())
	}
	return cat, ""
}

// slTreeSafe: the documented exclusion (eager allocation) must not be entered.
func slTreeSafe(m protoreflect.Message) bool {
	ok := true
	big := 0 // capacity / size fields of 2^20 bits or more: two of them make the layouts build one filter per byte
	var walk func(m protoreflect.Message)
	walk = func(m protoreflect.Message) {
		m.Range(func(fd protoreflect.FieldDescriptor, v protoreflect.Value) bool {
			switch {
			case fd.IsList() && fd.Message() != nil:
				l := v.List()
				for i := 0; i < l.Len(); i++ {
					walk(l.Get(i).Message())
				}
			case fd.Message() != nil:
				walk(v.Message())
			case fd.Name() == "group_count" || fd.Name() == "interface_count":
				if v.Uint() > slAllocCap {
					ok = false
				}
			case fd.Name() == "size_byte":
				if v.Uint() >= 1<<17 {
					big++
				}
			case fd.Name() == "group_size" || fd.Name() == "min_size" || (fd.Name() == "size" && fd.Kind() == protoreflect.Uint32Kind):
				if v.Uint() >= 1<<20 {
					big++
				}
			}
			return ok
		})
	}
	walk(m)
	return ok && big < 2
}

func slMarshal(p *acmelibv1.Network, k int) ([]byte, error) {
	switch k {
	case 0:
		return proto.Marshal(p)
	case 1:
		return protojson.MarshalOptions{Multiline: true}.Marshal(p)
	default:
		return prototext.MarshalOptions{Multiline: true}.Marshal(p)
	}
}

func slUnmarshal(data []byte, k int) (*acmelibv1.Network, error) {
	p := &acmelibv1.Network{}
	var err error
	switch k {
	case 0:
		err = proto.Unmarshal(data, p)
	case 1:
		err = protojson.Unmarshal(data, p)
	default:
		err = prototext.Unmarshal(data, p)
	}
	return p, err
}

func (x *slRun) c13(seed int64, variant int, mseed int64) string {
	x.setStage("build")
	n := slBuild(seed, variant)
	tree := acmelib.VerifSaveProto(n.g.net)
	mut := proto.Clone(tree).(*acmelibv1.Network)
	r := rand.New(rand.NewSource(mseed))
	want := 1 + r.Intn(3)
	var descs []string
	for tries := 0; len(descs) < want && tries < 40; tries++ {
		sites := slCollectSites(mut)
		cat, d := sites.mutate(r)
		if d == "" {
			continue
		}
		x.tag(cat)
		descs = append(descs, d)
	}
	id := sprintf("seed=%d variant=%d mutation-seed=%d mutations=%s", seed, variant, mseed, listStr(descs))
	x.debug = listStr(descs)
	if !slTreeSafe(mut.ProtoReflect()) {
		return "c13 excluded(eager-allocation) " + x.tagList()
	}
	nOK, nErr, nPanic, nSkip := 0, 0, 0, 0
	treeNames := slCollectSites(mut).names
	check := func(how string, res slLoadRes) {
		switch {
		case res.panic != "":
			nPanic++
			x.report("c13-panic:"+res.panic, sprintf("%s: %s panicked: %s", id, how, res.where))
		case res.err != nil:
			nErr++
		case res.net == nil:
			x.report("c13-invalid-network:nil-without-error", sprintf("%s: %s returned neither a network nor an error", id, how))
		default:
			nOK++
			x.setStage("invariants after " + how + " of " + id)
			inv := slTryInv(res.net, treeNames)
			if inv.panic != "" {
				x.report("c13-panic-in-walk:"+inv.panic, sprintf("%s: %s succeeded, then a public getter panicked during the invariant walk: %s", id, how, inv.where))
			}
			for _, vi := range inv.vs {
				x.report("c13-invalid-network:"+vi.which, sprintf("%s: %s succeeded but: %s", id, how, vi.detail))
			}
		}
	}
	x.setStage("VerifLoadProto of " + id)
	check("VerifLoadProto", slTry(func() (*acmelib.Network, error) {
		return acmelib.VerifLoadProto(proto.Clone(mut).(*acmelibv1.Network))
	}))
	for k := 0; k < 3; k++ {
		data, err := slMarshal(mut, k)
		if err != nil {
			nSkip++ // e.g. an invalid timestamp cannot be written as JSON
			continue
		}
		x.setStage(sprintf("LoadNetwork(%s) of %s", slEncNames[k], id))
		check("LoadNetwork("+slEncNames[k]+")", slLoadBytes(data, slEncs[k]))
	}
	switch {
	case nPanic > 0:
		x.tag("outcome:panic")
	case nOK > 0 && nErr > 0:
		x.tag("outcome:mixed")
	case nOK > 0:
		x.tag("outcome:loaded")
	default:
		x.tag("outcome:error")
	}
	return sprintf("c13 seed=%d v=%d mseed=%d mutations=%d loaded=%d error=%d panic=%d unmarshallable=%d %s", seed, variant, mseed, len(descs), nOK, nErr, nPanic, nSkip, x.tagList())
}

type slInvRes struct {
	vs    []slViolation
	panic string
	where string
}

func slTryInv(net *acmelib.Network, names []string) (res slInvRes) {
	r := slTry(func() (*acmelib.Network, error) {
		res.vs = slInvariants(net, true, names...)
		return nil, nil
	})
	res.panic, res.where = r.panic, r.where
	return res
}

// ---------------------------------------------------------------------------------------
// bytes

var slNumberRe = regexp.MustCompile(`[0-9]+`)

func slDamage(r *rand.Rand, valid []byte, textual bool) ([]byte, string) {
	kinds := 6
	if textual {
		kinds = 9
	}
	cp := append([]byte{}, valid...)
	switch k := r.Intn(kinds + 1); k {
	case 0:
		n := r.Intn(200)
		b := make([]byte, n)
		r.Read(b)
		if r.Intn(6) == 0 {
			b = nil
		}
		return b, sprintf("%d random bytes", len(b))
	case 1:
		at := r.Intn(len(cp) + 1)
		return cp[:at], sprintf("valid save truncated to %d of %d bytes", at, len(cp))
	case 2:
		n := 1 + r.Intn(8)
		var offs []string
		for i := 0; i < n && len(cp) > 0; i++ {
			o := r.Intn(len(cp))
			bit := r.Intn(8)
			cp[o] ^= 1 << bit
			offs = append(offs, sprintf("%d.%d", o, bit))
		}
		return cp, "bits flipped at " + listStr(offs)
	case 3:
		if len(cp) == 0 {
			return cp, "empty"
		}
		o := r.Intn(len(cp))
		n := 1 + r.Intn(8)
		for i := o; i < o+n && i < len(cp); i++ {
			cp[i] = byte(r.Intn(256))
		}
		return cp, sprintf("%d bytes overwritten at %d", n, o)
	case 4:
		if len(cp) < 2 {
			return cp, "short"
		}
		o := r.Intn(len(cp) - 1)
		n := 1 + r.Intn(min(64, len(cp)-o))
		return append(cp[:o], cp[o+n:]...), sprintf("%d bytes deleted at %d", n, o)
	case 5:
		if len(cp) < 2 {
			return cp, "short"
		}
		o := r.Intn(len(cp) - 1)
		n := 1 + r.Intn(min(64, len(cp)-o))
		chunk := append([]byte{}, cp[o:o+n]...)
		at := r.Intn(len(cp))
		res := append(append(append([]byte{}, cp[:at]...), chunk...), cp[at:]...)
		return res, sprintf("%d bytes from %d inserted again at %d", n, o, at)
	case 6:
		return []byte{}, "empty input"
	case 7, 8:
		locs := slNumberRe.FindAllIndex(cp, -1)
		if len(locs) == 0 {
			return cp, "no number"
		}
		l := locs[r.Intn(len(locs))]
		nv := pick(r, "0", "1", "2", "7", "9", "63", "64", "65", "255", "65536", "2147483648", "4294967295", "4294967296", "-1", "99999999999999999999")
		res := append(append(append([]byte{}, cp[:l[0]]...), nv...), cp[l[1]:]...)
		return res, sprintf("number %q at %d replaced by %s", cp[l[0]:l[1]], l[0], nv)
	default:
		lines := strings.Split(string(cp), "\n")
		if len(lines) < 3 {
			return cp, "few lines"
		}
		i := r.Intn(len(lines))
		return []byte(strings.Join(append(append([]string{}, lines[:i]...), lines[i+1:]...), "\n")), sprintf("line %d (%q) deleted", i+1, slClip(lines[i], 60))
	}
}

func (x *slRun) c13bytes(seed int64, enc int, count int) string {
	k := map[int]int{1: 0, 2: 1, 4: 2}[enc]
	if enc != 1 && enc != 2 && enc != 4 {
		return "unsupported"
	}
	x.setStage("build")
	n := slBuild(seed, int(seed%4))
	valid, err := slMarshal(acmelib.VerifSaveProto(n.g.net), k)
	if err != nil {
		return "c13bytes marshal-failed"
	}
	r := rand.New(rand.NewSource(seed*31 + int64(enc)))
	nOK, nErr, nPanic, nExcl := 0, 0, 0, 0
	x.tag(slEncName(enc))
	for i := 0; i < count; i++ {
		data, how := slDamage(r, valid, k != 0)
		// more than one damage sometimes
		if r.Intn(4) == 0 {
			var how2 string
			data, how2 = slDamage(r, data, k != 0)
			how += " + " + how2
		}
		id := sprintf("seed=%d variant=%d encoding=%s input#%d: %s", seed, seed%4, slEncName(enc), i, how)
		if len(data) <= 240 {
			id += " base64=" + base64.StdEncoding.EncodeToString(data)
		}
		x.setStage("pre-parse of " + id)
		pre := slTry(func() (*acmelib.Network, error) {
			p, err := slUnmarshal(data, k)
			if err == nil && !slTreeSafe(p.ProtoReflect()) {
				return nil, errSlExcluded
			}
			return nil, nil
		})
		if pre.err == errSlExcluded {
			nExcl++
			continue
		}
		x.setStage("LoadNetwork of " + id)
		res := slLoadBytes(data, slEncs[k])
		switch {
		case res.panic != "":
			nPanic++
			x.report("c13bytes-panic", sprintf("%s: LoadNetwork panicked: %s", id, res.where))
		case res.err != nil:
			nErr++
		case res.net == nil:
			x.report("c13-invalid-network:nil-without-error", sprintf("%s: LoadNetwork returned neither a network nor an error", id))
		default:
			nOK++
			x.setStage("invariants after " + id)
			var names []string
			if p, err := slUnmarshal(data, k); err == nil {
				names = slCollectSites(p).names
			}
			inv := slTryInv(res.net, names)
			if inv.panic != "" {
				x.report("c13-panic-in-walk:"+inv.panic, sprintf("%s: loaded, then a public getter panicked during the invariant walk: %s", id, inv.where))
			}
			for _, vi := range inv.vs {
				x.report("c13-invalid-network:"+vi.which, sprintf("%s: loaded but: %s", id, vi.detail))
			}
		}
	}
	if nPanic > 0 {
		x.tag("outcome:panic")
	}
	if nOK > 0 {
		x.tag("some-loaded")
	}
	return sprintf("c13bytes seed=%d enc=%s inputs=%d loaded=%d error=%d panic=%d excluded=%d %s", seed, slEncName(enc), count, nOK, nErr, nPanic, nExcl, x.tagList())
}

type slExcludedErr struct{}

func (slExcludedErr) Error() string { return "excluded: eager allocation" }

var errSlExcluded error = slExcludedErr{}
