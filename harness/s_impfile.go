package main

import (
	"bytes"
	"encoding/json"
	"errors"
	"math/rand"
	"regexp"
	"sort"
	"strconv"
	"strings"

	"github.com/squadracorsepolito/acmelib"
	"github.com/squadracorsepolito/acmelib/dbc"
)

// stream impfile — C10 for WHOLE documents: the composed model Acme.ImportFile.importDoc (bus level
// + message level + attributes over one document, in the pass order of importFile) against
// ImportDBCFile on the text the real writer produces.
//
//	if import <doc-json> [<planted faults>]
//
// The document is written with dbc.Write, imported with ImportDBCFile and read back through the
// public API into the projection described in lean/Acme/Driver/ImportFile.lean (nodes, per
// message the bus-level fields, the standard / enum signals at every depth with their shared
// objects, the multiplexor comments, the placement tree, and the attributes of every entity).
// A refusal is reported as `err <pass> <cause>`: the pass is derived from the LOCATION the real
// error carries (the line of the text names the section and, inside BO_, the message), the cause
// from the error type; the model has to name the same pass and cause.
//
// Generation: documents of stream impbus (ibGenFile) in which about half of the messages get the
// structure of a message of stream imp (impGenGood / impMutate: byte order, multiplexors, nested
// multiplexors, extended multiplexing), value encodings on multiplexed signals, and the attribute
// sections of stream attr (atGenDbc) aimed at the entities of the document; then ZERO, ONE or TWO
// planted faults in different passes.  Every generated document is written, parsed and read back
// once: the line carries the document the parser sees (one source of truth for code and model).

type impfileStream struct{ baseStream }

func init() { register(impfileStream{}) }

func (impfileStream) Name() string    { return "impfile" }
func (impfileStream) Props() []string { return []string{"C10"} }
func (impfileStream) Parallel() bool  { return true }

// ---- JSON -------------------------------------------------------------------------------------

type ifSig struct {
	ibSig
	BE int    `json:"be"`
	Mr int    `json:"mr"`
	Md int    `json:"md"`
	K  uint32 `json:"k"`
}

type ifMsg struct {
	ID   uint32  `json:"id"`
	N    string  `json:"n"`
	Z    uint32  `json:"z"`
	Tx   string  `json:"tx"`
	Sigs []ifSig `json:"sigs"`
}

type ifExt struct {
	M uint32      `json:"m"`
	X string      `json:"x"`
	D string      `json:"d"`
	R [][2]uint32 `json:"r"`
}

type ifDoc struct {
	Nodes []string    `json:"nodes"`
	VT    []ibTable   `json:"vt"`
	VE    []ibEnc     `json:"ve"`
	CM    []ibComment `json:"cm"`
	Msgs  []ifMsg     `json:"msgs"`
	Ext   []ifExt     `json:"ext"`
	Defs  []atJDDef   `json:"defs"`
	Dflt  []atJDflt   `json:"dflt"`
	Vals  []atJDValue `json:"vals"`
}

// ---- document <-> AST ---------------------------------------------------------------------------

func ifFileOf(d *ifDoc) *dbc.File {
	j := &ibFile{Nodes: d.Nodes, VT: d.VT, VE: d.VE, CM: d.CM}
	for _, m := range d.Msgs {
		bm := ibMsg{ID: m.ID, N: m.N, Z: m.Z, Tx: m.Tx}
		for _, s := range m.Sigs {
			bm.Sigs = append(bm.Sigs, s.ibSig)
		}
		j.Msgs = append(j.Msgs, bm)
	}
	f := ibFileOf(j)
	for mi, m := range d.Msgs {
		for si, s := range m.Sigs {
			ds := f.Messages[mi].Signals[si]
			if s.BE != 0 {
				ds.ByteOrder = dbc.SignalBigEndian
			}
			ds.IsMultiplexor, ds.IsMultiplexed, ds.MuxSwitchValue = s.Mr != 0, s.Md != 0, s.K
		}
	}
	for _, e := range d.Ext {
		de := &dbc.ExtendedMux{MessageID: e.M, MultiplexorName: e.X, MultiplexedName: e.D}
		for _, r := range e.R {
			de.Ranges = append(de.Ranges, &dbc.ExtendedMuxRange{From: r[0], To: r[1]})
		}
		f.ExtendedMuxes = append(f.ExtendedMuxes, de)
	}
	if af := atFileOf(&atJDbc{Defs: d.Defs, Dflt: d.Dflt, Vals: d.Vals}); af != nil {
		f.Attributes, f.AttributeDefaults, f.AttributeValues = af.Attributes, af.AttributeDefaults, af.AttributeValues
	}
	return f
}

func ifText(d *ifDoc) string {
	var b bytes.Buffer
	dbc.Write(&b, ifFileOf(d), false)
	return b.String()
}

func ifValsOf(vs []*dbc.ValueDescription) []ibVal {
	res := []ibVal{}
	for _, v := range vs {
		res = append(res, ibVal{v.ID, v.Name})
	}
	return res
}

// ifDocOf reads a parsed document (nil: a number that is not finite, or a section the model does not have)
func ifDocOf(f *dbc.File) *ifDoc {
	d := &ifDoc{Nodes: []string{}, VT: []ibTable{}, VE: []ibEnc{}, CM: []ibComment{}, Msgs: []ifMsg{}, Ext: []ifExt{}}
	if f.Nodes != nil {
		d.Nodes = append(d.Nodes, f.Nodes.Names...)
	}
	for _, t := range f.ValueTables {
		d.VT = append(d.VT, ibTable{N: t.Name, V: ifValsOf(t.Values)})
	}
	for _, e := range f.ValueEncodings {
		if e.Kind != dbc.ValueEncodingSignal {
			return nil
		}
		d.VE = append(d.VE, ibEnc{M: e.MessageID, S: e.SignalName, V: ifValsOf(e.Values)})
	}
	for _, c := range f.Comments {
		switch c.Kind {
		case dbc.CommentGeneral:
			d.CM = append(d.CM, ibComment{K: "g", T: c.Text})
		case dbc.CommentNode:
			d.CM = append(d.CM, ibComment{K: "n", T: c.Text, N: c.NodeName})
		case dbc.CommentMessage:
			d.CM = append(d.CM, ibComment{K: "m", T: c.Text, M: c.MessageID})
		case dbc.CommentSignal:
			d.CM = append(d.CM, ibComment{K: "s", T: c.Text, M: c.MessageID, S: c.SignalName})
		default:
			return nil
		}
	}
	bad := false
	rat := func(x float64) string {
		s := atRat(x)
		if s == "nan" {
			bad = true
		}
		return s
	}
	for _, m := range f.Messages {
		jm := ifMsg{ID: m.ID, N: m.Name, Z: m.Size, Tx: m.Transmitter, Sigs: []ifSig{}}
		for _, s := range m.Signals {
			js := ifSig{ibSig: ibSig{N: s.Name, S: s.StartBit, Z: s.Size, F: rat(s.Factor), O: rat(s.Offset),
				Mn: rat(s.Min), Mx: rat(s.Max), U: s.Unit, R: append([]string{}, s.Receivers...)}, K: s.MuxSwitchValue}
			if s.ValueType == dbc.SignalSigned {
				js.Sg = 1
			}
			if s.ByteOrder == dbc.SignalBigEndian {
				js.BE = 1
			}
			if s.IsMultiplexor {
				js.Mr = 1
			}
			if s.IsMultiplexed {
				js.Md = 1
			}
			jm.Sigs = append(jm.Sigs, js)
		}
		d.Msgs = append(d.Msgs, jm)
	}
	for _, e := range f.ExtendedMuxes {
		je := ifExt{M: e.MessageID, X: e.MultiplexorName, D: e.MultiplexedName, R: [][2]uint32{}}
		for _, r := range e.Ranges {
			je.R = append(je.R, [2]uint32{r.From, r.To})
		}
		d.Ext = append(d.Ext, je)
	}
	ad := atDbcOf(f)
	if ad == nil || bad {
		return nil
	}
	d.Defs, d.Dflt, d.Vals = ad.Defs, ad.Dflt, ad.Vals
	return d
}

// ifCanon: the document the parser sees in the text of d (nil when the text does not parse or is
// not a fixpoint of write → parse → read)
func ifCanon(d *ifDoc) *ifDoc {
	pf, err := dbc.Parse("impfile", strings.NewReader(ifText(d)), false)
	if err != nil {
		return nil
	}
	d1 := ifDocOf(pf)
	if d1 == nil {
		return nil
	}
	pf2, err := dbc.Parse("impfile", strings.NewReader(ifText(d1)), false)
	if err != nil {
		return nil
	}
	d2 := ifDocOf(pf2)
	if d2 == nil || encJSON(d1) != encJSON(d2) {
		return nil
	}
	return d1
}

// ---- refusals: pass and cause ------------------------------------------------------------------

var ifLocRe = regexp.MustCompile(`^impfile:(\d+):(\d+) : `)

// ifPass names the pass of importFile an error comes from, by the location it carries
func ifPass(text string, err error) string {
	mt := ifLocRe.FindStringSubmatch(err.Error())
	if mt == nil {
		return "nopos"
	}
	line, _ := strconv.Atoi(mt[1])
	col, _ := strconv.Atoi(mt[2])
	pf, perr := dbc.Parse("impfile", strings.NewReader(text), false)
	if perr != nil {
		return "noparse"
	}
	at := func(l *dbc.Location) bool { return l != nil && l.Line == line }
	for _, t := range pf.ValueTables {
		if at(t.Location()) {
			return "tables"
		}
	}
	for _, e := range pf.ValueEncodings {
		if at(e.Location()) {
			return "encs"
		}
	}
	for i, m := range pf.Messages {
		if at(m.Location()) {
			return sprintf("msg%d", i)
		}
		for _, s := range m.Signals {
			if at(s.Location()) {
				return sprintf("msg%d", i)
			}
		}
	}
	for _, e := range pf.ExtendedMuxes {
		if at(e.Location()) {
			for i, m := range pf.Messages {
				if m.ID == e.MessageID {
					return sprintf("msg%d", i)
				}
			}
			return "ext"
		}
	}
	for _, a := range pf.Attributes {
		if at(a.Location()) {
			return "attrs"
		}
	}
	for _, a := range pf.AttributeDefaults {
		if at(a.Location()) {
			return "attrs"
		}
	}
	for _, a := range pf.AttributeValues {
		if at(a.Location()) {
			return "attrs"
		}
	}
	if l := pf.Location(); l != nil && l.Line == line && l.Col == col {
		return "nodes"
	}
	return sprintf("line%d", line)
}

// ifCause: the cause names of the three models (Driver/ImportBus, Driver/Import, Driver/Attr)
func ifCause(pass string, err error) string {
	switch {
	case pass == "attrs":
		return atCause(err)
	case !strings.HasPrefix(pass, "msg"):
		return ibCause(err)
	}
	dup := errors.Is(err, acmelib.ErrIsDuplicated)
	var ci *acmelib.CANIDError
	var ss *acmelib.SignalSizeError
	var ne *acmelib.NameError
	var add *acmelib.AddEntityError
	var get *acmelib.GetEntityError
	switch {
	case errors.Is(err, acmelib.ErrReceiverIsSender):
		return "receiverIsSender"
	case errors.As(err, &ci) && dup:
		return "canIdDuplicated"
	case errors.As(err, &ss) && errors.Is(err, acmelib.ErrTooSmall):
		return "sizeTooSmall"
	case errors.As(err, &ne) && errors.Is(err, acmelib.ErrNotFound) && errors.As(err, &get):
		return "nodeNotFound"
	case errors.As(err, &ne) && dup && errors.As(err, &add):
		return "msgNameDuplicated"
	}
	return impCause(err)
}

// ---- reading the bus back -------------------------------------------------------------------------

// every signal of a message: the standard / enum signals at every depth, and the multiplexors
func ifWalk(sigs []acmelib.Signal, leaves *[]acmelib.Signal, muxes *[]*acmelib.MultiplexerSignal) {
	for _, s := range sigs {
		if s.Kind() != acmelib.SignalKindMultiplexer {
			*leaves = append(*leaves, s)
			continue
		}
		mux, err := s.ToMultiplexer()
		if err != nil {
			continue
		}
		*muxes = append(*muxes, mux)
		var kids []acmelib.Signal
		it := mxSetMap(mux, "signals").MapRange()
		for it.Next() {
			kids = append(kids, it.Value().Interface().(acmelib.Signal))
		}
		ifWalk(kids, leaves, muxes)
	}
}

func ifRender(d *ifDoc, bus *acmelib.Bus) string {
	var nodes []string
	for _, ni := range bus.NodeInterfaces() {
		n := ni.Node()
		nodes = append(nodes, sprintf("%s#%d:%s", n.Name(), uint32(n.ID()), ibQ(n.Desc())))
	}
	types := map[*acmelib.SignalType]int{}
	units := map[*acmelib.SignalUnit]int{}
	enums := map[*acmelib.SignalEnum]int{}
	var msgs []string
	for _, m := range ibMessages(bus) {
		var rx []string
		for _, r := range m.Receivers() {
			rx = append(rx, r.Node().Name())
		}
		var leaves []acmelib.Signal
		var muxes []*acmelib.MultiplexerSignal
		ifWalk(m.Signals(), &leaves, &muxes)
		sort.SliceStable(leaves, func(a, b int) bool { return leaves[a].Name() < leaves[b].Name() })
		sort.SliceStable(muxes, func(a, b int) bool { return muxes[a].Name() < muxes[b].Name() })
		var sigs, mx []string
		for _, s := range leaves {
			switch s.Kind() {
			case acmelib.SignalKindStandard:
				ss, _ := s.ToStandard()
				t := ss.Type()
				if _, ok := types[t]; !ok {
					types[t] = len(types)
				}
				us := "u-"
				if u := ss.Unit(); u != nil {
					if _, ok := units[u]; !ok {
						units[u] = len(units)
					}
					us = sprintf("u%d:%s", units[u], ibQ(u.Symbol()))
				}
				sigs = append(sigs, sprintf("S:%s@0+%d(t%d:%s;%s;d=%s)", s.Name(), s.GetSize(), types[t], ibShowType(t), us, ibQ(s.Desc())))
			case acmelib.SignalKindEnum:
				es, _ := s.ToEnum()
				e := es.Enum()
				if _, ok := enums[e]; !ok {
					enums[e] = len(enums)
				}
				var vals []string
				for _, v := range e.Values() {
					vals = append(vals, sprintf("%d=%s", v.Index(), ibQ(v.Name())))
				}
				sigs = append(sigs, sprintf("E:%s@0+%d(e%d:%s,min=%d,vals=%s;d=%s)", s.Name(), s.GetSize(),
					enums[e], ibQ(e.Name()), e.MinSize(), listStr(vals), ibQ(s.Desc())))
			}
		}
		for _, x := range muxes {
			mx = append(mx, x.Name()+":"+ibQ(x.Desc()))
		}
		tx := "?"
		if sn := m.SenderNodeInterface(); sn != nil {
			tx = sn.Node().Name()
		}
		msgs = append(msgs, sprintf("{id=%d,n=%s,z=%d,tx=%s,rx=%s,d=%s,sigs=%s,mux=%s,tree=(%s)}", uint32(m.ID()), m.Name(), m.SizeByte(),
			tx, listStr(rx), ibQ(m.Desc()), listStr(sigs), listStr(mx), impRenderMsg(m)))
	}
	return sprintf("desc=%s nodes=%s msgs=%s attrs=(%s)", ibQ(bus.Desc()), listStr(nodes), listStr(msgs), ifAttrs(d, bus))
}

// the attributes of every entity of the document: nodes, then every message followed by its signals
func ifAttrs(d *ifDoc, bus *acmelib.Bus) string {
	m := &atJModel{Bus: atAsgsOf(bus)}
	one := func(k atJKey) bool {
		x := atReadBack(bus, []atJKey{k})
		if x == nil {
			return false
		}
		m.Ents = append(m.Ents, x.Ents...)
		return true
	}
	for _, n := range d.Nodes {
		if n != dbc.DummyNode && !one(atJKey{K: "n", N: n}) {
			return "entity-missing:node:" + n
		}
	}
	for _, jm := range d.Msgs {
		if !one(atJKey{K: "m", ID: jm.ID}) {
			return sprintf("entity-missing:msg:%d", jm.ID)
		}
		msg := atFindMsg(bus, jm.ID)
		var leaves []acmelib.Signal
		var muxes []*acmelib.MultiplexerSignal
		ifWalk(msg.Signals(), &leaves, &muxes)
		for _, mx := range muxes {
			leaves = append(leaves, mx)
		}
		for _, js := range jm.Sigs {
			var sig acmelib.Signal
			for _, s := range leaves {
				if s.Name() == js.N {
					sig = s
				}
			}
			if sig == nil {
				return sprintf("entity-missing:sig:%d:%s", jm.ID, js.N)
			}
			m.Ents = append(m.Ents, atJEnt{K: "s", ID: jm.ID, N: js.N, SV: atRat(sig.StartValue()),
				ST: atSendIdx(atSigSend, sig.SendType()), A: atAsgsOf(sig)})
		}
	}
	return atShowModel(m)
}

// ---- Exec ---------------------------------------------------------------------------------------------

type impfileExec struct{ fs []Finding }

func (impfileStream) NewExec() Exec        { return &impfileExec{} }
func (e *impfileExec) Findings() []Finding { return e.fs }

func ifImport(d *ifDoc) string {
	text := ifText(d)
	bus, err := acmelib.ImportDBCFile("impfile", strings.NewReader(text))
	if err != nil {
		pass := ifPass(text, err)
		return "err " + pass + " " + ifCause(pass, err)
	}
	return "ok " + ifRender(d, bus)
}

func (e *impfileExec) Do(line string) string {
	f := fields(line)
	if len(f) < 3 || f[0] != "if" || f[1] != "import" {
		return "bad-op"
	}
	d := &ifDoc{}
	if err := json.Unmarshal([]byte(f[2]), d); err != nil {
		return "bad-op json"
	}
	return ifImport(d)
}

// ---- generator ------------------------------------------------------------------------------------------

func ifKeys(d *ifDoc) []atJKey {
	var ks []atJKey
	for _, n := range d.Nodes {
		if n != dbc.DummyNode {
			ks = append(ks, atJKey{K: "n", N: n})
		}
	}
	for _, m := range d.Msgs {
		ks = append(ks, atJKey{K: "m", ID: m.ID})
		for _, s := range m.Sigs {
			ks = append(ks, atJKey{K: "s", ID: m.ID, N: s.N})
		}
	}
	return ks
}

func ifRealNodes(d *ifDoc) []string {
	var res []string
	for _, n := range d.Nodes {
		if n != dbc.DummyNode {
			res = append(res, n)
		}
	}
	return res
}

// the bus-level fields of a signal of `size` bits
func ifBusSig(r *rand.Rand, d *ifDoc, name string, size uint32, tx string) ibSig {
	sh := ibRndShape(r)
	if r.Intn(3) == 0 {
		sh = ibShape{0, 1, 0, 0, 255, size} // a shape many signals of the file share
	}
	s := ibSig{N: name, Z: size, Sg: sh.sg, F: atRat(sh.f), O: atRat(sh.o), Mn: atRat(sh.mn), Mx: atRat(sh.mx), U: pick(r, ibUnits...)}
	nodes := ifRealNodes(d)
	for k, nr := 0, r.Intn(3); k < nr; k++ {
		if len(nodes) > 0 && r.Intn(4) != 0 {
			if rec := nodes[r.Intn(len(nodes))]; rec != tx {
				s.R = append(s.R, rec)
			}
		} else {
			s.R = append(s.R, dbc.DummyNode)
		}
	}
	if len(s.R) == 0 {
		s.R = []string{dbc.DummyNode}
	}
	return s
}

// ifStructure gives message mi the structure of a message of stream imp
func ifStructure(r *rand.Rand, d *ifDoc, mi int, mutate bool) {
	var gm *jDMsg
	for try := 0; try < 10; try++ {
		gm = impGenGood(r)
		if mutate {
			impMutate(r, gm)
		}
		if !impTooWide(gm) {
			break
		}
		gm = nil
	}
	if gm == nil {
		return
	}
	m := &d.Msgs[mi]
	// the value encodings of the signals that go away
	var ve []ibEnc
	for _, e := range d.VE {
		if e.M != m.ID {
			ve = append(ve, e)
		}
	}
	d.VE = ve
	m.Z = gm.Size
	m.Sigs = nil
	for _, gs := range gm.Sigs {
		s := ifSig{ibSig: ifBusSig(r, d, gs.N, gs.Z, m.Tx), BE: gs.BE, Mr: gs.Mr, Md: gs.Md, K: gs.K}
		s.S = gs.S
		m.Sigs = append(m.Sigs, s)
		if gs.Mr == 0 && r.Intn(4) == 0 {
			// an enum signal: a table of the file, or values of its own
			var vals []ibVal
			if len(d.VT) > 0 && r.Intn(2) == 0 {
				vals = ibShuffle(r, d.VT[r.Intn(len(d.VT))].V)
			} else {
				lim := uint32(1)<<gs.Z - 1
				if gs.Z >= 32 {
					lim = 4294967295
				}
				if r.Intn(12) == 0 {
					lim = lim*2 + 1
				}
				vals = ibRndVals(r, 1+r.Intn(3), lim)
			}
			d.VE = append(d.VE, ibEnc{M: m.ID, S: gs.N, V: vals})
		}
		if r.Intn(8) == 0 {
			d.CM = append(d.CM, ibComment{K: "s", M: m.ID, S: gs.N, T: pick(r, ibTexts...)})
		}
	}
	for _, e := range gm.Ext {
		d.Ext = append(d.Ext, ifExt{M: m.ID, X: e.X, D: e.D, R: e.R})
	}
}

// the attribute sections of stream attr, aimed at the entities of the document
func ifAttrSections(r *rand.Rand, d *ifDoc) {
	ad := atGenDbc(r)
	keys := ifKeys(d)
	for i := range ad.Vals {
		v := &ad.Vals[i]
		v.O = atGenTarget(r, keys)
		if atReserved[v.N] && r.Intn(4) != 0 {
			want := "m"
			if v.N == dbc.SigStartValueName || v.N == dbc.SigSendTypeName {
				want = "s"
			}
			for _, k := range keys {
				if k.K == want && r.Intn(2) == 0 {
					v.O = atJObj{K: k.K, N: k.N, ID: k.ID}
				}
			}
		}
	}
	d.Defs, d.Dflt, d.Vals = ad.Defs, ad.Dflt, ad.Vals
}

var ifFaultKinds = []string{"tables", "encs", "nodes", "first", "header", "signal", "layout", "attrs"}

func ifFaultPass(kind string) string {
	switch kind {
	case "first", "header", "signal", "layout":
		return "msg"
	}
	return kind
}

// ifPlant damages the document in the pass `kind`; reports whether it did
func ifPlant(r *rand.Rand, d *ifDoc, kind string) bool {
	twoDup := []ibVal{{1, "a"}, {2, "a"}, {1, "b"}}
	if r.Intn(2) == 0 {
		twoDup = []ibVal{{1, "a"}, {1, "b"}}
	}
	var mi int
	var m *ifMsg
	if len(d.Msgs) > 0 {
		mi = r.Intn(len(d.Msgs))
		m = &d.Msgs[mi]
	}
	switch kind {
	case "tables":
		d.VT = append(d.VT, ibTable{N: "Bad", V: twoDup})
	case "encs":
		id, name := uint32(77), "zz"
		if m != nil && len(m.Sigs) > 0 && r.Intn(2) == 0 {
			id, name = m.ID, m.Sigs[r.Intn(len(m.Sigs))].N
		}
		d.VE = append(d.VE, ibEnc{M: id, S: name, V: twoDup})
	case "nodes":
		if len(d.Nodes) == 0 {
			d.Nodes = []string{"N0"}
		}
		d.Nodes = append(d.Nodes, d.Nodes[r.Intn(len(d.Nodes))])
		if d.Nodes[len(d.Nodes)-1] == dbc.DummyNode {
			return false
		}
	case "first":
		if m == nil || len(m.Sigs) == 0 {
			return false
		}
		s := &m.Sigs[r.Intn(len(m.Sigs))]
		switch r.Intn(3) {
		case 0:
			if len(m.Sigs) < 2 {
				return false
			}
			o := m.Sigs[r.Intn(len(m.Sigs))].N
			if o == s.N {
				return false
			}
			s.N = o
		case 1:
			s.S = m.Z*8 + uint32(r.Intn(3))
		default:
			if len(m.Sigs) < 2 {
				return false
			}
			s.BE = 1 - s.BE
		}
	case "header":
		if m == nil {
			return false
		}
		switch r.Intn(6) {
		case 0:
			m.Tx = "Nobody"
		case 1:
			if len(m.Sigs) == 0 {
				return false
			}
			s := &m.Sigs[r.Intn(len(m.Sigs))]
			s.R = append(s.R, "Nobody")
		case 2:
			if len(m.Sigs) == 0 || m.Tx == dbc.DummyNode {
				return false
			}
			s := &m.Sigs[r.Intn(len(m.Sigs))]
			s.R = append(s.R, m.Tx)
		case 3:
			if len(d.Msgs) < 2 {
				return false
			}
			o := d.Msgs[r.Intn(len(d.Msgs))]
			if o.ID == m.ID {
				return false
			}
			m.N, m.Tx = o.N, o.Tx
		case 4:
			m.Z = 9
		default:
			if len(d.Msgs) < 2 {
				return false
			}
			o := d.Msgs[r.Intn(len(d.Msgs))]
			if o.N == m.N {
				return false
			}
			m.ID = o.ID
		}
	case "signal":
		if m == nil || len(m.Sigs) == 0 {
			return false
		}
		s := &m.Sigs[r.Intn(len(m.Sigs))]
		if s.Mr != 0 {
			return false
		}
		if r.Intn(3) == 0 {
			s.Z = 0
		} else {
			// a value that does not fit the signal
			d.VE = append(d.VE, ibEnc{M: m.ID, S: s.N, V: []ibVal{{0, "lo"}, {uint32(1) << (s.Z % 32), "hi"}}})
		}
	case "layout":
		if m == nil || len(m.Sigs) == 0 {
			return false
		}
		switch r.Intn(4) {
		case 0:
			if len(m.Sigs) < 2 {
				return false
			}
			a, b := r.Intn(len(m.Sigs)), r.Intn(len(m.Sigs))
			if a == b || m.Sigs[a].Mr != 0 || m.Sigs[b].Mr != 0 {
				return false
			}
			m.Sigs[a].S, m.Sigs[a].Md, m.Sigs[a].K = m.Sigs[b].S, m.Sigs[b].Md, m.Sigs[b].K // two signals at one place
		case 1:
			k := -1
			for i, e := range d.Ext {
				if e.M == m.ID {
					k = i
				}
			}
			if k < 0 {
				return false
			}
			if r.Intn(2) == 0 {
				d.Ext = append(d.Ext[:k:k], d.Ext[k+1:]...)
			} else {
				d.Ext[k].X = "nope"
			}
		case 2:
			for i := range m.Sigs {
				if m.Sigs[i].Mr != 0 {
					m.Sigs[i].Z = 0
					return true
				}
			}
			return false
		default:
			s := &m.Sigs[r.Intn(len(m.Sigs))]
			s.Md = 1 - s.Md
		}
	case "attrs":
		name := sprintf("Pl%d", r.Intn(3))
		switch r.Intn(4) {
		case 0: // no default
			d.Defs = append(d.Defs, atJDDef{K: 0, N: name, T: "int", Min: 0, Max: 5, FMin: "0/1", FMax: "0/1"})
		case 1: // minimum above maximum
			d.Defs = append(d.Defs, atJDDef{K: 0, N: name, T: "int", Min: 7, Max: 5, FMin: "0/1", FMax: "0/1"})
			d.Dflt = append(d.Dflt, atJDflt{N: name, V: atJDVal{T: "i", I: 5}})
		case 2: // a value outside the bounds
			d.Defs = append(d.Defs, atJDDef{K: 0, N: name, T: "int", Min: 0, Max: 5, FMin: "0/1", FMax: "0/1"})
			d.Dflt = append(d.Dflt, atJDflt{N: name, V: atJDVal{T: "i", I: 1}})
			d.Vals = append(d.Vals, atJDValue{N: name, O: atJObj{K: "g"}, V: atJDVal{T: "i", I: 9}})
		default: // a text for a number
			d.Defs = append(d.Defs, atJDDef{K: 0, N: name, T: "int", Min: 0, Max: 5, FMin: "0/1", FMax: "0/1"})
			d.Dflt = append(d.Dflt, atJDflt{N: name, V: atJDVal{T: "i", I: 1}})
			d.Vals = append(d.Vals, atJDValue{N: name, O: atJObj{K: "g"}, V: atJDVal{T: "s", S: "x"}})
		}
	}
	return true
}

func ifFromBus(j *ibFile) *ifDoc {
	d := &ifDoc{Nodes: j.Nodes, VT: j.VT, VE: j.VE, CM: j.CM}
	for _, m := range j.Msgs {
		jm := ifMsg{ID: m.ID, N: m.N, Z: m.Z, Tx: m.Tx}
		for _, s := range m.Sigs {
			jm.Sigs = append(jm.Sigs, ifSig{ibSig: s})
		}
		d.Msgs = append(d.Msgs, jm)
	}
	return d
}

func ifAccepted(d *ifDoc) bool {
	_, err := acmelib.ImportDBCFile("impfile", strings.NewReader(ifText(d)))
	return err == nil
}

// ifGenDoc: a document and the faults planted into it.  Most documents are valid before the
// planting (rejection sampling on the real importer, first without then with the attribute
// sections); the others keep whatever the three generators put into them.
func ifGenDoc(r *rand.Rand) (*ifDoc, string) {
	for try := 0; ; try++ {
		wantValid := r.Intn(100) < 85
		var d *ifDoc
		for k := 0; k < 10; k++ {
			j := ibGenFile(r, "quick")
			if len(j.Msgs) == 0 && r.Intn(5) != 0 {
				continue
			}
			for i := range j.Msgs {
				if j.Msgs[i].Tx == "" {
					j.Msgs[i].Tx = dbc.DummyNode // the text cannot say "no transmitter"
				}
			}
			d = ifFromBus(j)
			for mi := range d.Msgs {
				if r.Intn(2) == 0 {
					ifStructure(r, d, mi, !wantValid && r.Intn(4) == 0)
				}
			}
			if !wantValid || ifAccepted(d) {
				break
			}
		}
		if d == nil {
			continue
		}
		if r.Intn(5) != 0 {
			ok := false
			for k := 0; k < 10 && !ok; k++ {
				ifAttrSections(r, d)
				ok = !wantValid || ifAccepted(d)
			}
			if !ok {
				d.Defs, d.Dflt, d.Vals = nil, nil, nil
			}
		}
		var planted []string
		want := 0
		switch x := r.Intn(100); {
		case x < 55:
		case x < 80:
			want = 1
		default:
			want = 2
		}
		used := map[string]bool{}
		for k := 0; k < 12 && len(planted) < want; k++ {
			kind := pick(r, ifFaultKinds...)
			if used[ifFaultPass(kind)] && r.Intn(6) != 0 {
				continue
			}
			if ifPlant(r, d, kind) {
				planted = append(planted, kind)
				used[ifFaultPass(kind)] = true
			}
		}
		if c := ifCanon(d); c != nil {
			tag := "none"
			if len(planted) > 0 {
				tag = strings.Join(planted, "+")
			}
			return c, tag
		}
		if try > 20 {
			return &ifDoc{}, "none"
		}
	}
}

func (impfileStream) Gen(r *rand.Rand, tier string, idx int) []string {
	n := 4
	if tier == "thorough" {
		n = 10
	}
	var lines []string
	for i := 0; i < n; i++ {
		d, tag := ifGenDoc(r)
		lines = append(lines, "if import "+encJSON(d)+" "+tag)
	}
	return lines
}

// crafted documents: the order of the refusals across the passes
func (impfileStream) Exhaustive(tier string) [][]string {
	var res [][]string
	sig := func(name string, start, size uint32, mr, md int, k uint32) ifSig {
		return ifSig{ibSig: ibSig{N: name, S: start, Z: size, F: "1/1", O: "0/1", Mn: "0/1", Mx: "255/1", R: []string{dbc.DummyNode}}, Mr: mr, Md: md, K: k}
	}
	base := func() *ifDoc {
		return &ifDoc{Nodes: []string{"A", "B"},
			VT: []ibTable{{N: "Tab", V: []ibVal{{0, "off"}, {1, "on"}}}},
			VE: []ibEnc{{M: 2, S: "e", V: []ibVal{{1, "on"}, {0, "off"}}}},
			CM: []ibComment{{K: "s", M: 2, S: "mx", T: "selector"}},
			Msgs: []ifMsg{
				{ID: 1, N: "msgA", Z: 8, Tx: "A", Sigs: []ifSig{sig("s0", 0, 8, 0, 0, 0), sig("s1", 8, 8, 0, 0, 0)}},
				{ID: 2, N: "msgB", Z: 8, Tx: "B", Sigs: []ifSig{sig("mx", 0, 2, 1, 0, 0), sig("e", 2, 1, 0, 1, 1), sig("t", 2, 8, 0, 1, 2)}}},
			Defs: []atJDDef{{K: 3, N: "Att", T: "int", Min: 0, Max: 10, FMin: "0/1", FMax: "0/1"}},
			Dflt: []atJDflt{{N: "Att", V: atJDVal{T: "i", I: 1}}},
			Vals: []atJDValue{{N: "Att", O: atJObj{K: "s", ID: 2, N: "t"}, V: atJDVal{T: "i", I: 5}}}}
	}
	one := func(tag string, edit func(d *ifDoc)) {
		d := base()
		edit(d)
		if c := ifCanon(d); c != nil {
			res = append(res, []string{"if import " + encJSON(c) + " " + tag})
		}
	}
	twoDup := []ibVal{{1, "a"}, {1, "b"}}
	badTable := func(d *ifDoc) { d.VT = append(d.VT, ibTable{N: "Bad", V: twoDup}) }
	badEnc := func(d *ifDoc) { d.VE = append(d.VE, ibEnc{M: 9, S: "zz", V: twoDup}) }
	badNodes := func(d *ifDoc) { d.Nodes = append(d.Nodes, "A") }
	badFirst := func(mi int) func(d *ifDoc) { return func(d *ifDoc) { d.Msgs[mi].Sigs[1].S = 70 } }
	badHeader := func(mi int) func(d *ifDoc) { return func(d *ifDoc) { d.Msgs[mi].Tx = "Nobody" } }
	badSignal := func(d *ifDoc) {
		d.VE = append(d.VE, ibEnc{M: 2, S: "t", V: []ibVal{{0, "lo"}, {300, "hi"}}})
	}
	badLayout0 := func(d *ifDoc) { d.Msgs[0].Sigs[1].S = 4 }
	badLayout1 := func(d *ifDoc) { d.Msgs[1].Sigs[2].K = 9 }
	badAttr := func(d *ifDoc) { d.Dflt = nil }
	all := []struct {
		tag string
		f   func(d *ifDoc)
	}{{"none", func(d *ifDoc) {}}, {"tables", badTable}, {"encs", badEnc}, {"nodes", badNodes}, {"first", badFirst(0)}, {"first", badFirst(1)},
		{"header", badHeader(0)}, {"header", badHeader(1)}, {"signal", badSignal}, {"layout", badLayout0}, {"layout", badLayout1}, {"attrs", badAttr}}
	for i, a := range all {
		one(a.tag, a.f)
		for _, b := range all[i+1:] {
			if a.tag == "none" {
				continue
			}
			one(a.tag+"+"+b.tag, func(d *ifDoc) { a.f(d); b.f(d) })
		}
	}
	// the order of the checks of AddSentMessage: name, size, CAN-ID
	one("header+header", func(d *ifDoc) { d.Msgs[1].ID, d.Msgs[1].Z = 1, 9 })                                 // size, then CAN-ID
	one("header+header", func(d *ifDoc) { d.Msgs[1].N, d.Msgs[1].Tx, d.Msgs[1].Z = "msgA", "A", 9 })          // name, then size
	one("header+header", func(d *ifDoc) { d.Msgs[1].N, d.Msgs[1].Tx, d.Msgs[1].ID = "msgA", "A", 1 })         // name, then CAN-ID
	one("header+header", func(d *ifDoc) { d.Msgs[1].Tx, d.Msgs[1].Sigs[0].R = "Nobody", []string{"Nobody"} }) // unknown receiver, unknown sender
	one("header+header", func(d *ifDoc) { d.Msgs[1].Sigs[1].R, d.Msgs[1].Z = []string{"B"}, 9 })              // receiver is sender, then size
	// inside one message: a value that does not fit (bus level) against placement refusals before
	// and after it in the order of creation
	one("signal+layout", func(d *ifDoc) { // plain message: overlap of s1 (earlier), s2 does not fit
		d.Msgs[0].Sigs = append(d.Msgs[0].Sigs, sig("s2", 16, 2, 0, 0, 0))
		d.Msgs[0].Sigs[1].S = 4
		d.VE = append(d.VE, ibEnc{M: 1, S: "s2", V: []ibVal{{9, "x"}}})
	})
	one("signal+layout", func(d *ifDoc) { // plain message: s1 does not fit, overlap of s2 (later)
		d.Msgs[0].Sigs = append(d.Msgs[0].Sigs, sig("s2", 12, 2, 0, 0, 0))
		d.VE = append(d.VE, ibEnc{M: 1, S: "s1", V: []ibVal{{999, "x"}}})
	})
	one("signal+layout", func(d *ifDoc) { // one multiplexor: every signal is created before anything is placed
		d.Msgs[1].Sigs[1].K = 9
		badSignal(d)
	})
	return res
}

func (impfileStream) Same(a, b string) bool { return a == b }

func (impfileStream) Tag(lines, outs []string) (bool, []string) {
	var tags []string
	nontrivial := false
	for li, o := range outs {
		f := fields(lines[li])
		if len(f) < 3 {
			continue
		}
		planted := "none"
		if len(f) > 3 {
			planted = f[3]
		}
		tags = append(tags, "planted:"+planted)
		d := &ifDoc{}
		if json.Unmarshal([]byte(f[2]), d) == nil {
			nsig, nmux, nbe, nenum := 0, 0, 0, len(d.VE)
			for _, m := range d.Msgs {
				nsig += len(m.Sigs)
				mux, be := false, false
				for _, s := range m.Sigs {
					mux = mux || s.Mr != 0
					be = be || s.BE != 0
				}
				if mux {
					nmux++
				}
				if be {
					nbe++
				}
			}
			bucket := func(n int) string {
				switch {
				case n == 0:
					return "0"
				case n <= 2:
					return "1-2"
				case n <= 8:
					return "3-8"
				}
				return "9+"
			}
			tags = append(tags, sprintf("doc:msgs=%d", len(d.Msgs)), "doc:sigs="+bucket(nsig), sprintf("doc:muxed-msgs=%d", nmux),
				sprintf("doc:big-endian-msgs=%d", nbe), "doc:val-encodings="+bucket(nenum), "doc:ext="+bucket(len(d.Ext)),
				"doc:attr-values="+bucket(len(d.Vals)))
			switch {
			case strings.HasPrefix(o, "ok "):
				tags = append(tags, "ok")
				if len(d.Msgs) >= 2 && nsig >= 3 {
					nontrivial = true
				}
				if nmux > 0 {
					tags = append(tags, "ok:muxed")
				}
				if nmux > 0 && len(d.Vals) > 0 && nenum > 0 {
					tags = append(tags, "ok:muxed+enum+attrs")
				}
				if strings.Contains(o, "{w=") {
					tags = append(tags, "ok:nested")
				}
			case strings.HasPrefix(o, "err "):
				g := fields(o)
				if len(g) >= 3 {
					pass := g[1]
					if strings.HasPrefix(pass, "msg") {
						pass = "msg"
					}
					tags = append(tags, "err:"+pass, "err:"+pass+":"+eiFirst(g[2], 30))
					if planted != "none" {
						tags = append(tags, "planted:"+planted+"->"+pass)
					}
				}
			default:
				tags = append(tags, "other:"+eiFirst(o, 20))
			}
		}
	}
	return nontrivial, tags
}
