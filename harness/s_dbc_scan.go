package main

// stream dbc, lines `dbc scan x<hex-bytes>` — C09: the real scanner (dbc.VerifScan) against the
// byte-level model Acme.Core.DbcScan (Lean).
//
//	Go:    dbc.VerifScan over the bytes  → kind:<hex value>@line:col joined by ","
//	model: Scan.scanAll bytes            → the same rendering
//
// VerifScan returns every token but the spaces, up to and including the first eof / error token.
// Go-side oracle (independent of the model): every token's (line, col) is the position of its
// first rune — positions recomputed here from the text — the tokens appear in the text in
// order and only blanks lie between them.  The final eof token (no rune of its own) must be
// located just behind the last rune: (current line, current column + 1) after reading the whole
// text — (1,1) for an empty text, (line+1, 1) behind a trailing new line (signature
// c09-eof-position; /repo since commit 6914cb1).

import (
	"bytes"
	"encoding/hex"
	"math/rand"
	"os"
	"path/filepath"
	"sort"
	"strconv"
	"strings"
	"time"
	"unicode/utf8"

	"github.com/squadracorsepolito/acmelib/dbc"
)

const dbcScanMaxChunk = 6000 // bytes of input per line (hex doubles it; lines stay < 60 kB)

func dbcScanLine(b []byte) string { return "dbc scan x" + hex.EncodeToString(b) }

// dbcScanLines cuts a text into lines of at most dbcScanMaxChunk bytes (cut anywhere: cutting
// inside a token or a rune is a test of its own).
func dbcScanLines(b []byte) []string {
	var res []string
	for len(b) > dbcScanMaxChunk {
		res = append(res, dbcScanLine(b[:dbcScanMaxChunk]))
		b = b[dbcScanMaxChunk:]
	}
	return append(res, dbcScanLine(b))
}

func dbcRenderScan(toks []dbc.VerifToken) string {
	var sb strings.Builder
	for i, t := range toks {
		if i > 0 {
			sb.WriteByte(',')
		}
		sb.WriteString(t.Kind)
		sb.WriteByte(':')
		sb.WriteString(hex.EncodeToString([]byte(t.Value)))
		sb.WriteByte('@')
		sb.WriteString(strconv.Itoa(t.Line))
		sb.WriteByte(':')
		sb.WriteString(strconv.Itoa(t.Col))
	}
	return sb.String()
}

// dbcVerifScanTimed runs VerifScan with a watchdog (C09: never a hang).
func dbcVerifScanTimed(b []byte) ([]dbc.VerifToken, string) {
	type res struct {
		toks []dbc.VerifToken
		pan  bool
	}
	ch := make(chan res, 1)
	go func() {
		defer func() {
			if r := recover(); r != nil {
				ch <- res{nil, true}
			}
		}()
		ch <- res{dbc.VerifScan(bytes.NewReader(b)), false}
	}()
	select {
	case r := <-ch:
		if r.pan {
			return nil, "panic"
		}
		return r.toks, ""
	case <-time.After(20 * time.Second):
		return nil, "hang"
	}
}

// dbcScanOracle checks the positions of the tokens against the text.  The text is read the way
// bufio.Reader.ReadRune reads it (an invalid byte is one U+FFFD).
func dbcScanOracle(b []byte, toks []dbc.VerifToken) (sig, detail string) {
	type cell struct {
		text      string // the rune as the scanner's value shows it
		line, col int    // position as scanner.read counts it (after reading the rune)
	}
	var cells []cell
	l, c := 1, 0
	for i := 0; i < len(b); {
		r, n := utf8.DecodeRune(b[i:])
		i += n
		c++
		if r == '\t' {
			c += 4
		}
		if r == '\n' {
			l++
			c = 0
		}
		cells = append(cells, cell{string(r), l, c})
	}
	at := 0 // index of the first cell not yet covered
	for k, t := range toks {
		if t.Kind == "eof" && t.Value == "" {
			// the real end: everything left must be blank
			for ; at < len(cells); at++ {
				if !strings.Contains(" \t\n\r", cells[at].text) {
					return "scan-gap", "non-blank text before eof at cell " + strconv.Itoa(at)
				}
			}
			// l, c = the scanner's position after the whole text
			if t.Line != l || t.Col != c+1 {
				return "c09-eof-position", "eof token reported at " + strconv.Itoa(t.Line) + ":" + strconv.Itoa(t.Col) +
					", the end of the text is at " + strconv.Itoa(l) + ":" + strconv.Itoa(c+1)
			}
			continue
		}
		// skip blanks
		for at < len(cells) && strings.Contains(" \t\n\r", cells[at].text) {
			at++
		}
		if at >= len(cells) {
			return "scan-gap", "token " + strconv.Itoa(k) + " lies behind the end of the text"
		}
		if cells[at].line != t.Line || cells[at].col != t.Col {
			return "scan-position-wrong", "token " + strconv.Itoa(k) + " " + t.Kind + " " + strconv.Quote(t.Value) + " reported at " +
				strconv.Itoa(t.Line) + ":" + strconv.Itoa(t.Col) + ", next non-blank rune is at " + strconv.Itoa(cells[at].line) + ":" + strconv.Itoa(cells[at].col)
		}
		// the token text must follow
		want := t.Value
		switch t.Kind {
		case "string":
			want = "\"" + want + "\""
		case "error":
			want = want[strings.Index(want, " : ")+3:]
		}
		got := ""
		j := at
		for j < len(cells) && len(got) < len(want) {
			got += cells[j].text
			j++
		}
		if t.Kind == "error" {
			if len(got) > len(want) {
				got = got[:len(want)] // an error value is cut at byte 20, possibly inside a rune
			}
			if got != want {
				return "scan-text-wrong", "error token " + strconv.Itoa(k) + " shows " + strconv.Quote(want) + ", the text has " + strconv.Quote(got)
			}
			return "", "" // how much an error token consumed is not visible here; it is the last token
		}
		if got != want {
			return "scan-text-wrong", "token " + strconv.Itoa(k) + " " + t.Kind + " " + strconv.Quote(want) + ", the text has " + strconv.Quote(got)
		}
		at = j
	}
	return "", ""
}

// ---------------------------------------------------------------------------------------
// dbc chainok x<hex> [w] — the text cut into tokens and separators by the real scanner; answer
// "ok <n>" when no two adjacent tokens could merge (the model's chainOK, re-implemented here on
// the real tokens), "bad <i>" with the index of the first offending pair, "error" when the scan
// ends with an error token.  With the flag w the text is the real writer's output for a
// well-formed file: anything but ok is the finding C08/c08-writer-adjacent-tokens (the text-level
// round trip theorem C08_text_roundtrip_any covers exactly the layouts that satisfy chainOK).

func dbcChainOKLine(b []byte, writer bool) string {
	l := "dbc chainok x" + hex.EncodeToString(b)
	if writer {
		l += " w"
	}
	return l
}

func dbcNoMerge(t1, t2 dbc.VerifToken) bool {
	if t1.Kind == "string" || (t1.Kind == "punct" && t1.Value != "+" && t1.Value != "-") {
		return true
	}
	c := byte('"')
	if t2.Kind != "string" {
		c = t2.Value[0]
	}
	if c == '"' || strings.IndexByte(":,()[]|;@+", c) >= 0 {
		return true
	}
	return (t1.Kind == "number" || t1.Kind == "number_range") && t2.Kind == "punct" && t2.Value == "-"
}

func dbcChainOKDo(e *dbcExec, payload string, writer bool) string {
	if !strings.HasPrefix(payload, "x") {
		return "bad-op hex"
	}
	b, err := hex.DecodeString(payload[1:])
	if err != nil {
		return "bad-op hex"
	}
	toks, bad := dbcVerifScanTimed(b)
	if bad != "" {
		return bad
	}
	res := "error"
	if toks[len(toks)-1].Kind != "error" {
		toks = toks[:len(toks)-1] // without the eof
		// the runes as the scanner shows them
		var cells []string
		for i := 0; i < len(b); {
			r, n := utf8.DecodeRune(b[i:])
			i += n
			cells = append(cells, string(r))
		}
		at := 0
		glued := make([]bool, len(toks)) // no blank in front of token k
		for k, t := range toks {
			skipped := 0
			for at < len(cells) && strings.Contains(" \t\n\r", cells[at]) {
				at++
				skipped++
			}
			glued[k] = skipped == 0
			want := len(t.Value)
			if t.Kind == "string" {
				want += 2
			}
			for got := 0; got < want && at < len(cells); at++ {
				got += len(cells[at])
			}
		}
		res = "ok " + strconv.Itoa(len(toks))
		for k := 0; k+1 < len(toks); k++ {
			if glued[k+1] && !dbcNoMerge(toks[k], toks[k+1]) {
				res = "bad " + strconv.Itoa(k)
				break
			}
		}
	}
	if writer && !strings.HasPrefix(res, "ok ") {
		d := res + " | x" + payload[1:]
		if len(d) > 400 {
			d = d[:400]
		}
		e.fs = append(e.fs, Finding{Prop: "C08", Sig: "c08-writer-adjacent-tokens", Detail: d})
	}
	return res
}

func dbcScanDo(e *dbcExec, payload string) string {
	if !strings.HasPrefix(payload, "x") {
		return "bad-op hex"
	}
	b, err := hex.DecodeString(payload[1:])
	if err != nil {
		return "bad-op hex"
	}
	toks, bad := dbcVerifScanTimed(b)
	if bad != "" {
		e.fs = append(e.fs, Finding{Prop: "C09", Sig: "scan-" + bad, Detail: "VerifScan " + bad + " on x" + payload[1:]})
		return bad
	}
	if n := len(toks); n == 0 || (toks[n-1].Kind != "eof" && toks[n-1].Kind != "error") {
		e.fs = append(e.fs, Finding{Prop: "C09", Sig: "scan-no-final-token", Detail: "x" + payload[1:]})
	}
	if sig, det := dbcScanOracle(b, toks); sig != "" {
		d := det + " | x" + payload[1:]
		if len(d) > 400 {
			d = d[:400]
		}
		e.fs = append(e.fs, Finding{Prop: "C09", Sig: sig, Detail: d})
	}
	return dbcRenderScan(toks)
}

// ---------------------------------------------------------------------------------------
// generators

var dbcFixtureCache [][]byte

func dbcFixtures() [][]byte {
	if dbcFixtureCache != nil {
		return dbcFixtureCache
	}
	files, _ := filepath.Glob("/repo/testdata/*.dbc")
	sort.Strings(files)
	for _, f := range files {
		if b, err := os.ReadFile(f); err == nil && len(b) > 0 {
			dbcFixtureCache = append(dbcFixtureCache, b)
		}
	}
	if len(dbcFixtureCache) == 0 {
		dbcFixtureCache = [][]byte{[]byte(dbcTruncText)}
	}
	return dbcFixtureCache
}

// structural characters, digits, letters, blanks, non-ASCII runes (2, 3, 4 bytes; Unicode digits
// of 2, 3 and 4 bytes; U+FFFD itself), NUL and byte sequences that are not UTF-8 (lone
// continuation byte, lone lead bytes, overlong forms, a surrogate, a value above U+10FFFF, 0xFF)
var dbcScanInserts = []string{
	"\"", ":", ";", ",", "(", ")", "[", "]", "|", "@", "+", "-", ".", "_", "0", "1", "7", "9", "e", "E", "x", "X", "a", "f", "F",
	"m", "M", "Z", "g", " ", "\n", "\r", "\t", "\r\n", "$", "#", "/", "\\", "'", "%",
	"°", "µ", "é", "€", "日", "😀", "٣", "३", "\U0001D7CF", "５", "�", "\x00",
	"\x80", "\xbf", "\xc2", "\xe2", "\xe2\x82", "\xf0", "\xf0\x9f", "\xf0\x9f\x98", "\xc0\x80", "\xc1\xbf", "\xe0\x80\x80",
	"\xed\xa0\x80", "\xf4\x90\x80\x80", "\xf8", "\xff", "\xfe",
}

// dbcScanMutate applies k byte-level edits (delete / insert / replace).
func dbcScanMutate(r *rand.Rand, b []byte, k int) []byte {
	res := append([]byte{}, b...)
	for ; k > 0; k-- {
		ins := []byte(dbcScanInserts[r.Intn(len(dbcScanInserts))])
		if len(res) == 0 {
			res = ins
			continue
		}
		i := r.Intn(len(res))
		switch r.Intn(3) {
		case 0: // delete 1..3 bytes
			j := i + 1 + r.Intn(3)
			if j > len(res) {
				j = len(res)
			}
			res = append(res[:i:i], res[j:]...)
		case 1: // insert
			res = append(res[:i:i], append(ins, res[i:]...)...)
		case 2: // replace one byte
			res = append(res[:i:i], append(ins, res[i+1:]...)...)
		}
	}
	return res
}

// dbcScanWindow takes a random window of a text (so that mutants stay short and numerous).
func dbcScanWindow(r *rand.Rand, b []byte, max int) []byte {
	if len(b) <= max {
		return b
	}
	n := 1 + r.Intn(max)
	i := r.Intn(len(b) - n + 1)
	return b[i : i+n]
}

var dbcScanAlphabets = []string{
	"01-+.eExXfA ",
	"aMm1_- :;\"\n",
	"\"a \x00\n;",
	"09.-+e \t\n\r",
	"BO_SG 1:|@+-()[],\"",
	"m1M2 x",
	"0x1Ff-9 ",
}

func dbcScanRandom(r *rand.Rand) []byte {
	al := []byte(dbcScanAlphabets[r.Intn(len(dbcScanAlphabets))])
	n := r.Intn(40)
	b := make([]byte, n)
	for i := range b {
		b[i] = al[r.Intn(len(al))]
	}
	if r.Intn(4) == 0 { // any bytes
		for i := range b {
			if r.Intn(5) == 0 {
				b[i] = byte(r.Intn(256))
			}
		}
	}
	return b
}

var dbcScanNumberShapes = []string{
	"1e5", "-3.", ".5", "0x1F", "1-2", "1--2", "+7", "1e", "1e+", "1e-", "1e+5", "1e-5", "1E5", "1e5e5", "1.5e3", "1.e3", "-.5", "+.5", "-", "+",
	"--", "-+1", "+-1", "-1-2", "1-2-3", "1-", "1-a", "1-2e5", "0-3x1", "0x", "0X", "0xg", "0x1g", "0x123456789", "0x1234567890", "0x123456789a",
	"01x5", "00x5", "0.x5", "0ex5", "1x5", "0x-1", "1..2", "1.2.3", "...", "1e5.5", "1e+5-3", "1-2.5", "1.5-2", "1 -2", "1- 2", "-1e5", "+1e+5", "-e5", "+e",
	"-0x5", "0e", "0e0x5", "0e+x", "1e+ 5", "1e\n5", "1e+\n", "12345678901234567890123e", "12345678901234567890e+", "1234567890123456789e+x",
	"0000000000000000000000000x", "0000000000000000000000000xg", "1٣5", "٣", "٣1", "1-٣", "1e٣", "1e+٣", "0x٣", "\U0001D7CF", "\U0001D7CF5",
	"1\U0001D7CF", "1e\U0001D7CF", "1-\U0001D7CF", "0x\U0001D7CF", "５５", "1\xff", "1e\xff", "1-\xff", "0x\xff", "1\x00", "1e\x00", "1e+\x00", "-\x00", "0x\x00",
	"m٣", "m٣M", "m1５", "a\U0001D7CF", "m\U0001D7CF", "M", "Mm", "m", "m1", "m1M", "m1M1", "mM", "m1MM", "m-1", "m1-", "m_1",
}

var dbcScanLongShapes = func() []string {
	var res []string
	long := strings.Repeat("abcdefghij", 4)
	res = append(res, "\""+long, "\""+long+"\x00"+long, "\""+long+"\"", "\"", "\"\x00", "\"\"", "\"\n\n\t", "\"a\nb\"\n\"c", "x \"",
		"\"\xff\xff\xff\xff\xff\xff\xff", "\"\xff\xff\xff\xff\xff\xff\xff\xff", "\"123456789012345678°", "\"12345678901234567°", "\"1234567890123456°", "\"1234567890123456😀", "\"12345678901234567😀",
		"\"123456789012345678😀", "\"1234567890123456€€", "\"12345678901234567€", "\"123456789012345678€", "\"1234567890123456789€",
		strings.Repeat("1", 30)+"e", strings.Repeat("1", 19)+"e", strings.Repeat("1", 18)+"e+", strings.Repeat("1", 20)+"e+", strings.Repeat("0", 30)+"x",
		strings.Repeat("0", 20)+"x", strings.Repeat("0", 19)+"x", "$", "\xff", "😀", "�", "°", "\t$", "\n\n  \t$", "\r$", "a\r\n\tb $",
		strings.Repeat(" ", 5000)+"$", strings.Repeat("\n", 3000)+"\t\t$", strings.Repeat("a", 5000)+" $", "\""+strings.Repeat("é", 2500)+"\" $",
		strings.Repeat("(", 2000))
	return res
}()

// dbcScanGen: the scan lines of one generated case.  text = the writer's output for the
// generated AST, mutants = the texts the parse lines of the case use.
func dbcScanGen(r *rand.Rand, tier string, text string, wellFormed bool, mutants []string) []string {
	var sc []string
	sc = append(sc, dbcScanLines([]byte(text))...)
	if len(text) <= 25000 {
		sc = append(sc, dbcChainOKLine([]byte(text), wellFormed))
	}
	for _, m := range mutants {
		if len(m) <= dbcScanMaxChunk {
			sc = append(sc, dbcScanLine([]byte(m)), dbcChainOKLine([]byte(m), false))
		}
	}
	n := 6
	if tier == "thorough" {
		n = 16
	}
	fx := dbcFixtures()
	for k := 0; k < n; k++ {
		src := []byte(text)
		if r.Intn(2) == 0 {
			src = fx[r.Intn(len(fx))]
		}
		switch r.Intn(6) {
		case 0, 1, 2: // mutants of a window of writer output / of a fixture
			w := dbcScanWindow(r, src, pick(r, 40, 200, 1000))
			sc = append(sc, dbcScanLine(dbcScanMutate(r, w, pick(r, 1, 1, 2, 3, 6))))
		case 3: // random strings over a small alphabet
			sc = append(sc, dbcScanLine(dbcScanRandom(r)))
		case 4: // number shapes in context
			s := pick(r, dbcScanNumberShapes...)
			pre := pick(r, "", "", " ", "a ", "\n\t", "(", "1 ", "\"s\"")
			post := pick(r, "", "", " ", ";", "\n", "a", ",1", "\"", "-", "e", ".", "x")
			sc = append(sc, dbcScanLine([]byte(pre+s+post)))
		case 5: // unterminated strings, long error tokens, prefixes
			s := pick(r, dbcScanLongShapes...)
			if len(s) < 200 && r.Intn(2) == 0 {
				s = string(dbcScanMutate(r, []byte(s), 1))
			}
			sc = append(sc, dbcScanLine([]byte(pick(r, "", "", "ab \n\t", "°\n")+s)))
		}
	}
	return sc
}

// dbcScanExhaustive: fixtures (whole, and cut at every multiple of several sizes), the shape
// tables, and every string over a 9-letter number alphabet up to length 4 (thorough: 5).
func dbcScanExhaustive(tier string) [][]string {
	var res [][]string
	var sc []string
	flush := func(force bool) {
		if len(sc) >= 200 || (force && len(sc) > 0) {
			res = append(res, sc)
			sc = nil
		}
	}
	for _, b := range dbcFixtures() {
		sc = append(sc, dbcScanLines(b)...)
		for _, size := range []int{97, 256, 1000} {
			for i := 0; i < len(b); i += size {
				j := i + size
				if j > len(b) {
					j = len(b)
				}
				sc = append(sc, dbcScanLine(b[i:j]))
				flush(false)
			}
		}
		if tier == "thorough" { // every prefix
			for i := 0; i <= len(b); i++ {
				sc = append(sc, dbcScanLine(b[:i]))
				flush(false)
			}
		}
	}
	flush(true)
	for _, b := range dbcFixtures() {
		sc = append(sc, dbcChainOKLine(b, false))
	}
	for _, s := range dbcSnippets {
		sc = append(sc, dbcScanLine([]byte(s)), dbcChainOKLine([]byte(s), false))
		flush(false)
	}
	flush(true)
	for _, s := range append(append([]string{}, dbcScanNumberShapes...), dbcScanLongShapes...) {
		sc = append(sc, dbcScanLine([]byte(s)), dbcScanLine([]byte(" "+s+" ")), dbcScanLine([]byte("a\n\t"+s+";")))
		if len(s) < 200 {
			sc = append(sc, dbcChainOKLine([]byte(s), false), dbcChainOKLine([]byte("a\n\t"+s+";"), false))
		}
		flush(false)
	}
	for _, s := range dbcScanInserts {
		sc = append(sc, dbcScanLine([]byte(s)), dbcScanLine([]byte("a"+s)), dbcScanLine([]byte("1"+s)), dbcScanLine([]byte("\""+s+"\"")),
			dbcScanLine([]byte("1e"+s)), dbcScanLine([]byte("1-"+s)), dbcScanLine([]byte("0x"+s)), dbcScanLine([]byte(s+"1")), dbcScanLine([]byte(" "+s+"a")))
		flush(false)
	}
	flush(true)
	al := []string{"0", "7", "-", "+", ".", "e", "X", "f", " "}
	max := 4
	if tier == "thorough" {
		max = 5
	}
	var rec func(prefix string, depth int)
	rec = func(prefix string, depth int) {
		if depth > 0 {
			sc = append(sc, dbcScanLine([]byte(prefix)))
			if depth <= 4 {
				sc = append(sc, dbcChainOKLine([]byte(prefix), false))
			}
			flush(false)
		}
		if depth == max {
			return
		}
		for _, a := range al {
			rec(prefix+a, depth+1)
		}
	}
	rec("", 0)
	flush(true)
	return res
}
