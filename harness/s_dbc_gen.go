package main

// Generators of the stream "dbc": files over every section, token- and character-level
// mutations of writer output, hand-written snippets and truncations.

import (
	"math"
	"math/rand"
	"strings"

	"github.com/squadracorsepolito/acmelib/dbc"
)

// identifiers that scan as one ident token
var dbcGoodNames = []string{"a", "B", "x1", "Node_A", "ECU-1", "sig_", "Vector__XXX", "Z", "n", "Mm", "m", "mx", "m1x",
	"M1", "mM", "INT_", "BO", "VERSION_", "e", "E", "e5", "x", "DUMMY_NODE_VECTOR0", "NaN", "Inf", "NS_DESC_", "FILTER",
	"Engine_Speed", "a-b-c", "q__", "m-1", "M_", "mm1", "x0x1"}

// words that are keywords or mux indicators (in the scope of writeToks, not well-formed)
var dbcTrickyWords = []string{"m1", "M", "m12M", "m0", "m1M2", "m1MM", "m007", "BO_", "INT", "SG_", "VERSION", "BS_", "BU_", "NS_",
	"CM_", "VAL_", "HEX", "STRING", "ENUM", "FLOAT", "EV_", "BA_", "SIG_GROUP_", "BA_DEF_", "SGTYPE_", "VAL_TABLE_"}

// texts that are not words at all (outside the scope of writeToks; parse lines only)
var dbcNonWords = []string{"", "a b", "1abc", "a.b", "a\"b", "é", "_x", "-a", "a;b", "a,b", "5", "a:b"}

var dbcGoodStrings = []string{"", "a", "unit", "km/h", "a b", "line1\nline2", "tab\there", "ünï", "x;y", "BO_ 1 m: 8 n", "%s",
	"0x1F", "😀", "\\", "'", "  ", "\r\n", "m1", "-", "1e5"}

var dbcBadStrings = []string{"a\"b", "\"", "x\" ; BU_: y \""}

var dbcGoodAttNames = []string{"GenMsgCycleTime", "a", "A_b", "x-y", "", "é", "BO_", "1", "a.b"}

var dbcBadAttNames = []string{"a b", "a\tb", "a\nb", " "}

type dbcGen struct {
	r  *rand.Rand
	wf bool // produce a well-formed file
	// ill-formed flavours
	words bool // tricky words allowed as names
	wild  bool // non-words, quotes in strings (not writable by the model)
}

func (g *dbcGen) name() string {
	if !g.wf {
		if g.wild && g.r.Intn(12) == 0 {
			return pick(g.r, dbcNonWords...)
		}
		if g.words && g.r.Intn(5) == 0 {
			return pick(g.r, dbcTrickyWords...)
		}
	}
	return pick(g.r, dbcGoodNames...)
}

func (g *dbcGen) names(min int) []string {
	n := min + pick(g.r, 0, 0, 1, 1, 2, 3)
	if !g.wf && g.r.Intn(6) == 0 {
		n = 0
	}
	var res []string
	for i := 0; i < n; i++ {
		res = append(res, g.name())
	}
	return res
}

func (g *dbcGen) str() string {
	if g.wild && g.r.Intn(10) == 0 {
		return pick(g.r, dbcBadStrings...)
	}
	return pick(g.r, dbcGoodStrings...)
}

func (g *dbcGen) attName() string {
	if !g.wf && g.r.Intn(6) == 0 {
		return pick(g.r, dbcBadAttNames...)
	}
	if g.wild && g.r.Intn(12) == 0 {
		return pick(g.r, dbcBadStrings...)
	}
	return pick(g.r, dbcGoodAttNames...)
}

func (g *dbcGen) u32() uint32 { return rnd32(g.r) }

func (g *dbcGen) i64() int {
	switch g.r.Intn(4) {
	case 0:
		return int(pick(g.r, int64(0), 1, -1, math.MaxInt64, math.MinInt64, math.MaxInt64-1, math.MinInt64+1, 1<<31, -(1 << 31),
			1<<32, -(1 << 32), 1<<53, -(1<<53)-1, 1<<62, 3600000, 255))
	case 1:
		return g.r.Intn(2001) - 1000
	}
	return int(g.r.Uint64())
}

func (g *dbcGen) f64() float64 {
	if !g.wf && g.r.Intn(8) == 0 {
		return pick(g.r, math.NaN(), math.Inf(1), math.Inf(-1))
	}
	switch g.r.Intn(5) {
	case 0:
		return pick(g.r, 0, math.Copysign(0, -1), 1, -1, 0.5, 0.1, 1e-7, 5e-324, math.MaxFloat64, -math.MaxFloat64, 9223372036854775808,
			-9223372036854775808, 9223372036854775807, 18446744073709551616, 1e21, 1e22, 1e300, -1e300, 123456789.125, 1<<53,
			4294967295, 4294967296, 2.2250738585072014e-308, 1e-320, 0.30000000000000004, 255, 65535)
	case 1:
		return float64(g.r.Intn(2001) - 1000)
	case 2:
		return float64(g.r.Intn(200001)-100000) / 1000
	case 3:
		return g.r.NormFloat64() * math.Pow(10, float64(g.r.Intn(40)-20))
	}
	x := math.Float64frombits(g.r.Uint64())
	if math.IsNaN(x) || math.IsInf(x, 0) {
		return 1
	}
	return x
}

// count of entries of a section
func (g *dbcGen) count(small bool) int {
	if small {
		return pick(g.r, 0, 0, 0, 1, 1, 2)
	}
	return pick(g.r, 0, 1, 1, 2, 2, 3, 4)
}

func (g *dbcGen) vds() []*dbc.ValueDescription {
	var res []*dbc.ValueDescription
	for i := pick(g.r, 0, 1, 2, 3); i > 0; i-- {
		res = append(res, &dbc.ValueDescription{ID: g.u32(), Name: g.str()})
	}
	return res
}

// junk returns x for ill-formed files (a field the writer ignores), the zero value otherwise.
func junkS(g *dbcGen) string {
	if !g.wf && g.r.Intn(3) == 0 {
		return pick(g.r, dbcGoodNames...)
	}
	return ""
}

func junkU(g *dbcGen) uint32 {
	if !g.wf && g.r.Intn(3) == 0 {
		return g.u32()
	}
	return 0
}

func (g *dbcGen) signal() *dbc.Signal {
	s := &dbc.Signal{Name: g.name(), IsMultiplexor: g.r.Intn(4) == 0, IsMultiplexed: g.r.Intn(3) == 0, Size: g.u32(), StartBit: g.u32(),
		ByteOrder: dbc.SignalByteOrder(g.r.Intn(2)), ValueType: dbc.SignalValueType(g.r.Intn(2)), Factor: g.f64(), Offset: g.f64(),
		Min: g.f64(), Max: g.f64(), Unit: g.str(), Receivers: g.names(1)}
	if s.IsMultiplexed {
		s.MuxSwitchValue = g.u32()
	} else {
		s.MuxSwitchValue = junkU(g)
	}
	return s
}

func (g *dbcGen) file(small bool) *dbc.File {
	r := g.r
	f := &dbc.File{Version: pick(r, "", "", "1.0", "a b", "x", "_")}
	if g.wild && r.Intn(8) == 0 {
		f.Version = g.str()
	}
	switch r.Intn(4) {
	case 0:
		f.NewSymbols = &dbc.NewSymbols{}
	case 1:
		ns := &dbc.NewSymbols{}
		for _, s := range []string{"CM_", "BA_DEF_", "NS_DESC_", "FILTER", "SG_MUL_VAL_", "VAL_", "BA_", "BU_BO_REL_"} {
			if r.Intn(2) == 0 {
				ns.Symbols = append(ns.Symbols, s)
			}
		}
		if !g.wf && r.Intn(2) == 0 {
			ns.Symbols = append(ns.Symbols, pick(r, "FOO", "M", "m1", "BS_", "BU_", "INT"))
			if r.Intn(2) == 0 {
				ns.Symbols = append(ns.Symbols, "CM_")
			}
		}
		f.NewSymbols = ns
	}
	switch r.Intn(5) {
	case 0:
		f.BitTiming = &dbc.BitTiming{}
	case 1, 2:
		f.BitTiming = &dbc.BitTiming{Baudrate: g.u32(), BitTimingReg1: g.u32(), BitTimingReg2: g.u32()}
	case 3:
		if r.Intn(6) == 0 {
			f.BitTiming = &dbc.BitTiming{Baudrate: 0, BitTimingReg1: g.u32(), BitTimingReg2: g.u32()}
		}
	}
	if g.wf || r.Intn(4) != 0 {
		f.Nodes = &dbc.Nodes{Names: g.names(0)}
	}
	sec := func() int { return g.count(small) }
	for i := sec(); i > 0; i-- {
		f.ValueTables = append(f.ValueTables, &dbc.ValueTable{Name: g.name(), Values: g.vds()})
	}
	for i := sec(); i > 0; i-- {
		m := &dbc.Message{ID: g.u32(), Name: g.name(), Size: g.u32(), Transmitter: g.name()}
		for k := pick(r, 0, 1, 1, 2, 3, 4); k > 0; k-- {
			m.Signals = append(m.Signals, g.signal())
		}
		f.Messages = append(f.Messages, m)
	}
	for i := sec(); i > 0; i-- {
		f.MessageTransmitters = append(f.MessageTransmitters, &dbc.MessageTransmitter{MessageID: g.u32(), Transmitters: g.names(0)})
	}
	for i := sec(); i > 0; i-- {
		f.EnvVars = append(f.EnvVars, &dbc.EnvVar{Name: g.name(), Type: dbc.EnvVarType(r.Intn(3)), Min: g.f64(), Max: g.f64(), Unit: g.str(),
			InitialValue: g.f64(), ID: g.u32(), AccessType: dbc.EnvVarAccessType(r.Intn(8)), AccessNodes: g.names(1)})
	}
	for i := sec(); i > 0; i-- {
		f.EnvVarDatas = append(f.EnvVarDatas, &dbc.EnvVarData{EnvVarName: g.name(), DataSize: g.u32()})
	}
	for i := sec(); i > 0; i-- {
		f.SignalTypes = append(f.SignalTypes, &dbc.SignalType{TypeName: g.name(), Size: g.u32(), ByteOrder: dbc.SignalByteOrder(r.Intn(2)),
			ValueType: dbc.SignalValueType(r.Intn(2)), Factor: g.f64(), Offset: g.f64(), Min: g.f64(), Max: g.f64(), Unit: g.str(),
			DefaultValue: g.f64(), ValueTableName: g.name()})
	}
	for i := sec(); i > 0; i-- {
		c := &dbc.Comment{Kind: dbc.CommentKind(r.Intn(5)), Text: g.str(), NodeName: junkS(g), SignalName: junkS(g), EnvVarName: junkS(g), MessageID: junkU(g)}
		switch c.Kind {
		case dbc.CommentNode:
			c.NodeName = g.name()
		case dbc.CommentMessage:
			c.MessageID = g.u32()
		case dbc.CommentSignal:
			c.MessageID, c.SignalName = g.u32(), g.name()
		case dbc.CommentEnvVar:
			c.EnvVarName = g.name()
		}
		f.Comments = append(f.Comments, c)
	}
	for i := sec(); i > 0; i-- {
		a := &dbc.Attribute{Kind: dbc.AttributeKind(r.Intn(5)), Type: dbc.AttributeType(r.Intn(5)), Name: g.attName()}
		junk := !g.wf && r.Intn(3) == 0
		if a.Type == dbc.AttributeInt || junk {
			a.MinInt, a.MaxInt = g.i64(), g.i64()
		}
		if a.Type == dbc.AttributeHex || junk {
			a.MinHex, a.MaxHex = g.u32(), g.u32()
		}
		if a.Type == dbc.AttributeFloat || junk {
			a.MinFloat, a.MaxFloat = g.f64(), g.f64()
		}
		if a.Type == dbc.AttributeEnum || junk {
			n := pick(r, 1, 1, 2, 3, 4)
			if r.Intn(12) == 0 {
				n = 0
			}
			for ; n > 0; n-- {
				a.EnumValues = append(a.EnumValues, g.str())
			}
		}
		f.Attributes = append(f.Attributes, a)
	}
	// typed value of attribute defaults and values
	val := func() (typ uint, s string, i int, h uint32, fl float64) {
		typ = uint(r.Intn(4))
		junk := !g.wf && r.Intn(3) == 0
		if typ == 1 || junk {
			s = g.str()
		}
		if typ == 0 || junk {
			i = g.i64()
		}
		if typ == 3 || junk {
			h = g.u32()
		}
		if typ == 2 || junk {
			fl = g.f64()
		}
		return
	}
	for k := sec(); k > 0; k-- {
		typ, s, i, h, fl := val()
		f.AttributeDefaults = append(f.AttributeDefaults, &dbc.AttributeDefault{Type: dbc.AttributeDefaultType(typ), AttributeName: g.attName(),
			ValueString: s, ValueInt: i, ValueHex: h, ValueFloat: fl})
	}
	for k := sec(); k > 0; k-- {
		typ, s, i, h, fl := val()
		a := &dbc.AttributeValue{AttributeKind: dbc.AttributeKind(r.Intn(5)), Type: dbc.AttributeValueType(typ), AttributeName: g.attName(),
			ValueString: s, ValueInt: i, ValueHex: h, ValueFloat: fl, NodeName: junkS(g), SignalName: junkS(g), EnvVarName: junkS(g), MessageID: junkU(g)}
		switch a.AttributeKind {
		case dbc.AttributeNode:
			a.NodeName = g.name()
		case dbc.AttributeMessage:
			a.MessageID = g.u32()
		case dbc.AttributeSignal:
			a.MessageID, a.SignalName = g.u32(), g.name()
		case dbc.AttributeEnvVar:
			a.EnvVarName = g.name()
		}
		f.AttributeValues = append(f.AttributeValues, a)
	}
	for i := sec(); i > 0; i-- {
		v := &dbc.ValueEncoding{Kind: dbc.ValueEncodingKind(r.Intn(2)), Values: g.vds()}
		if v.Kind == dbc.ValueEncodingSignal {
			v.MessageID, v.SignalName, v.EnvVarName = g.u32(), g.name(), junkS(g)
		} else {
			v.EnvVarName, v.SignalName, v.MessageID = g.name(), junkS(g), junkU(g)
		}
		f.ValueEncodings = append(f.ValueEncodings, v)
	}
	for i := sec(); i > 0; i-- {
		f.SignalTypeRefs = append(f.SignalTypeRefs, &dbc.SignalTypeRef{TypeName: g.name(), MessageID: g.u32(), SignalName: g.name()})
	}
	for i := sec(); i > 0; i-- {
		f.SignalGroups = append(f.SignalGroups, &dbc.SignalGroup{MessageID: g.u32(), GroupName: g.name(), Repetitions: g.u32(), SignalNames: g.names(0)})
	}
	for i := sec(); i > 0; i-- {
		f.SignalExtValueTypes = append(f.SignalExtValueTypes, &dbc.SignalExtValueType{MessageID: g.u32(), SignalName: g.name(),
			ExtValueType: dbc.SignalExtValueTypeType(r.Intn(3))})
	}
	for i := sec(); i > 0; i-- {
		m := &dbc.ExtendedMux{MessageID: g.u32(), MultiplexorName: g.name(), MultiplexedName: g.name()}
		n := pick(r, 1, 1, 2, 3)
		if !g.wf && r.Intn(5) == 0 {
			n = 0
		}
		for ; n > 0; n-- {
			m.Ranges = append(m.Ranges, &dbc.ExtendedMuxRange{From: g.u32(), To: g.u32()})
		}
		f.ExtendedMuxes = append(f.ExtendedMuxes, m)
	}
	return f
}

// ---------------------------------------------------------------------------------------
// mutations

var dbcMutTokens = []jTok{
	{"ident", "a"}, {"ident", "Vector__XXX"}, {"ident", "DUMMY_NODE_VECTOR3"}, {"ident", "DUMMY_NODE_VECTOR9"}, {"ident", "CM_X"},
	{"number", "0"}, {"number", "1"}, {"number", "2"}, {"number", "3"}, {"number", "4294967295"}, {"number", "4294967296"},
	{"number", "-1"}, {"number", "1.5"}, {"number", "1e5"}, {"number", "1E-5"}, {"number", "0x1F"}, {"number", "0X1f"}, {"number", "007"},
	{"number", "+5"}, {"number", "5."}, {"number", "1..2"}, {"number", "-0"}, {"number", "9223372036854775808"},
	{"number", "-9223372036854775808"}, {"number", "1e400"}, {"number", "0xfffffffff"}, {"number", "012x5"}, {"number", "1.7976931348623159e308"},
	{"keyword", "VERSION"}, {"keyword", "NS_"}, {"keyword", "BS_"}, {"keyword", "BU_"}, {"keyword", "BO_"}, {"keyword", "SG_"},
	{"keyword", "CM_"}, {"keyword", "EV_"}, {"keyword", "INT"}, {"keyword", "HEX"}, {"keyword", "FLOAT"}, {"keyword", "STRING"},
	{"keyword", "ENUM"}, {"keyword", "VAL_"}, {"keyword", "BA_"}, {"keyword", "BA_DEF_"}, {"keyword", "SGTYPE_"}, {"keyword", "VAL_TABLE_"},
	{"punct", ":"}, {"punct", ","}, {"punct", ";"}, {"punct", "|"}, {"punct", "@"}, {"punct", "("}, {"punct", ")"}, {"punct", "["},
	{"punct", "]"}, {"punct", "+"}, {"punct", "-"},
	{"string", ""}, {"string", "s"}, {"string", "a b"},
	{"mux_indicator", "M"}, {"mux_indicator", "m5"}, {"mux_indicator", "m5M"}, {"mux_indicator", "m4294967296"}, {"mux_indicator", "m1M2"},
	{"number_range", "1-2"}, {"number_range", "0-4294967296"},
	{"raw", "$"}, {"raw", "0x"}, {"raw", "1e"}, {"raw", "1e+"}, {"raw", "\"open"}, {"raw", "\x00"}, {"raw", "."}, {"raw", "#"},
}

// dbcRender writes a token list as a text (re-scanned afterwards: the result need not
// tokenise to the same list).
func dbcRender(toks []jTok, r *rand.Rand) string {
	var b strings.Builder
	for i, t := range toks {
		if i > 0 && (r == nil || r.Intn(12) != 0) {
			b.WriteString(pick2(r, " ", "\n", "\t", "  "))
		}
		switch t[0] {
		case "string":
			b.WriteString("\"" + t[1] + "\"")
		case "eof", "error":
		default:
			b.WriteString(t[1])
		}
	}
	return b.String()
}

func pick2(r *rand.Rand, xs ...string) string {
	if r == nil || r.Intn(4) != 0 {
		return xs[0]
	}
	return xs[r.Intn(len(xs))]
}

func dbcMutateTokens(r *rand.Rand, toks []jTok) []jTok {
	res := append([]jTok{}, toks...)
	for k := pick(r, 1, 1, 1, 2, 3); k > 0 && len(res) > 1; k-- {
		i := r.Intn(len(res))
		switch r.Intn(5) {
		case 0: // delete
			res = append(res[:i], res[i+1:]...)
		case 1: // duplicate
			res = append(res[:i+1], res[i:]...)
		case 2: // swap
			if i+1 < len(res) {
				res[i], res[i+1] = res[i+1], res[i]
			}
		case 3: // replace
			res[i] = dbcMutTokens[r.Intn(len(dbcMutTokens))]
		case 4: // insert
			res = append(res[:i], append([]jTok{dbcMutTokens[r.Intn(len(dbcMutTokens))]}, res[i:]...)...)
		}
	}
	return res
}

const dbcMutChars = " \t\n\";:,|@()[]+-._0123456789eExXmMaZ$"

func dbcMutateChars(r *rand.Rand, text string) string {
	rs := []rune(text)
	for k := pick(r, 1, 1, 2, 3); k > 0 && len(rs) > 0; k-- {
		i := r.Intn(len(rs))
		c := rune(dbcMutChars[r.Intn(len(dbcMutChars))])
		switch r.Intn(3) {
		case 0:
			rs = append(rs[:i], rs[i+1:]...)
		case 1:
			rs[i] = c
		case 2:
			rs = append(rs[:i], append([]rune{c}, rs[i:]...)...)
		}
	}
	return string(rs)
}

// ---------------------------------------------------------------------------------------
// Gen

func (dbcStream) Gen(r *rand.Rand, tier string, idx int) []string {
	g := &dbcGen{r: r, wf: r.Intn(4) != 0}
	if !g.wf {
		g.words = r.Intn(3) != 0
		g.wild = r.Intn(3) == 0
	}
	small := idx%4 != 0
	f := g.file(small)
	hex := r.Intn(2) == 0
	var sc []string
	j := toJ(f)
	if dbcModelWritable(j) {
		sc = append(sc, dbcWriteLine(f, hex))
		if r.Intn(3) == 0 {
			sc = append(sc, dbcWriteLine(f, !hex))
		}
	}
	text := dbcWriteText(f, hex)
	sc = append(sc, dbcParseLine(text, hex))
	if r.Intn(2) == 0 {
		sc = append(sc, dbcParseLine(text, !hex))
	}
	toks := dbcScanAll(text)
	nmut := 3
	if small {
		nmut = 8
	}
	if tier == "thorough" {
		nmut *= 2
	}
	var mutants []string
	for k := 0; k < nmut; k++ {
		var t string
		if r.Intn(3) == 0 {
			t = dbcMutateChars(r, text)
		} else {
			t = dbcRender(dbcMutateTokens(r, toks), r)
		}
		mutants = append(mutants, t)
		sc = append(sc, dbcParseLine(t, pick(r, hex, hex, !hex)))
	}
	// byte-level scanner model (dbc scan lines; generated last: the lines above keep their PRNG draws)
	sc = append(sc, dbcScanGen(r, tier, text, dbcWellFormed(j), mutants)...)
	return sc
}
