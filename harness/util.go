package main

import (
	"fmt"
	"math/rand"
	"strconv"
	"strings"
)

func atoi(s string) int {
	v, err := strconv.ParseInt(s, 10, 64)
	if err != nil {
		panic("bad int " + s)
	}
	return int(v)
}

func fields(l string) []string { return strings.Fields(l) }

func pick[T any](r *rand.Rand, xs ...T) T { return xs[r.Intn(len(xs))] }

func boolStr(b bool) string {
	if b {
		return "true"
	}
	return "false"
}

func listStr(xs []string) string { return "[" + strings.Join(xs, ",") + "]" }

func sprintf(f string, a ...any) string { return fmt.Sprintf(f, a...) }

// baseStream gives default implementations.
type baseStream struct{}

func (baseStream) Exhaustive(string) [][]string { return nil }
func (baseStream) Same(a, b string) bool         { return a == b }

func sscan(s string, a ...any) (int, error) { return fmt.Sscan(s, a...) }
