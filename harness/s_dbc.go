package main

// stream dbc — C08/C09: the DBC writer and parser against the token-level model
// Acme.Core.Dbc{,Write,Parse} (Lean).  Stateless lines:
//
//	dbc write <hex 0|1> <file-json>
//	    Go:    dbc.Write into a buffer, dbc.VerifScan over the text → tokens-json
//	    model: writeToks hex file → tokens-json
//	dbc parse <hex 0|1> <tokens-json> <text-json>
//	    Go:    dbc.Parse("f", text, hex) → "ok <file-json>" | "err"   (text-json is a JSON string)
//	    model: parseToks hex tokens (the 4th field is ignored) → "ok <file-json>" | "err"
//	    The tokens are those VerifScan yields for the text (checked again by the Go side).
//
// file-json / tokens-json: see s_dbc_json.go and lean/Acme/Driver/Dbc.lean.  No payload contains
// a blank.  Go-side oracles (independent of the model) for C08: Parse(Write(f)) = f for
// well-formed f, and Parse(Write(Parse(t))) = Parse(t) for every accepted text t.

import (
	"bytes"
	"encoding/json"
	"reflect"
	"strconv"
	"strings"
	"unicode/utf8"

	"github.com/squadracorsepolito/acmelib/dbc"
)

type dbcStream struct{ baseStream }

func init() { register(dbcStream{}) }

func (dbcStream) Name() string    { return "dbc" }
func (dbcStream) Props() []string { return []string{"C08", "C09"} }

// ---------------------------------------------------------------------------------------
// scanning a whole text with the real scanner

type jTok [2]string

// dbcScanAll returns every non-space token the real scanner yields for text.  VerifScan stops
// at the first error token and at an eof token; the real scanner goes on after an error token
// and after the eof token it emits for a NUL character, so scanning is resumed behind them.
func dbcScanAll(text string) []jTok {
	res := []jTok{}
	rest := text
	for {
		toks := dbc.VerifScan(strings.NewReader(rest))
		for _, t := range toks {
			res = append(res, jTok{t.Kind, t.Value})
		}
		last := toks[len(toks)-1]
		if last.Kind == "eof" && last.Value == "" {
			return res // the real end of the input
		}
		off := dbcOffsetOf(rest, last.Line, last.Col)
		rest = rest[off+dbcConsumed(rest[off:], last):]
	}
}

// dbcOffsetOf replays scanner.read's line/column bookkeeping.
func dbcOffsetOf(s string, line, col int) int {
	l, c := 1, 0
	for i, ch := range s {
		c++
		if ch == '\t' {
			c += 4
		}
		if ch == '\n' {
			l++
			c = 0
		}
		if l == line && c == col {
			return i
		}
	}
	panic("dbcScanAll: token position not found")
}

// dbcConsumed is the number of bytes the scanner had read for the (error or NUL-eof) token
// that starts at the beginning of s.
func dbcConsumed(s string, t dbc.VerifToken) int {
	n := 0
	switch {
	case t.Kind == "eof":
		n = 1 // the NUL character
	case strings.HasPrefix(t.Value, "unrecognized symbol"):
		_, n = utf8.DecodeRuneInString(s)
	case strings.HasPrefix(t.Value, "invalid hex number"):
		n = strings.IndexAny(s, "xX") // everything before the x
	case strings.HasPrefix(t.Value, "invalid exponential number"):
		n = strings.IndexAny(s, "eE") + 1
		if n < len(s) && (s[n] == '-' || s[n] == '+') {
			n++
		}
	case strings.HasPrefix(t.Value, "unclosed string"):
		if i := strings.IndexByte(s, 0); i >= 0 {
			n = i + 1
		} else {
			n = len(s)
		}
	default:
		panic("dbcScanAll: unknown error token " + t.Value)
	}
	if t.Kind == "error" { // self-check against the reported (truncated) text
		shown := t.Value[strings.Index(t.Value, " : ")+3:]
		got := s[:n]
		if len(got) > 20 {
			got = got[:20]
		}
		if shown != got {
			panic("dbcScanAll: resume position mismatch: " + strconv.Quote(shown) + " vs " + strconv.Quote(got))
		}
	}
	return n
}

func dbcWriteText(f *dbc.File, hex bool) string {
	var b bytes.Buffer
	dbc.Write(&b, f, hex)
	return b.String()
}

func hexArg(h bool) string {
	if h {
		return "1"
	}
	return "0"
}

func dbcWriteLine(f *dbc.File, hex bool) string {
	return "dbc write " + hexArg(hex) + " " + encJSON(toJ(f))
}

func dbcParseLine(text string, hex bool) string {
	return "dbc parse " + hexArg(hex) + " " + encJSON(dbcScanAll(text)) + " " + encJSON(text)
}

// ---------------------------------------------------------------------------------------
// well-formedness

// dbcIsIdent: the text scans as exactly one ident token.
func dbcIsIdent(s string) bool {
	if s == "" || strings.ContainsRune(s, 0) {
		return false
	}
	for _, c := range s {
		if !(c >= 'a' && c <= 'z' || c >= 'A' && c <= 'Z' || c >= '0' && c <= '9' || c == '_' || c == '-') {
			return false
		}
	}
	t := dbc.VerifScan(strings.NewReader(s))
	return len(t) == 2 && t[0].Kind == "ident" && t[0].Value == s
}

// dbcIsWord: [A-Za-z][A-Za-z0-9_-]* (an ident, a keyword or a mux indicator): the scope of the
// model's writeToks for names.
func dbcIsWord(s string) bool {
	if s == "" {
		return false
	}
	for i, c := range s {
		letter := c >= 'a' && c <= 'z' || c >= 'A' && c <= 'Z'
		if i == 0 && !letter {
			return false
		}
		if !(letter || c >= '0' && c <= '9' || c == '_' || c == '-') {
			return false
		}
	}
	return true
}

func dbcIsStr(s string) bool {
	return utf8.ValidString(s) && !strings.ContainsAny(s, "\"\x00")
}

func dbcIsAttName(s string) bool { return dbcIsStr(s) && !strings.ContainsAny(s, " \t\n") }

func isFinite(xs ...string) bool {
	for _, x := range xs {
		if x == "NaN" || x == "+Inf" || x == "-Inf" {
			return false
		}
	}
	return true
}

func allOf(p func(string) bool, xs ...string) bool {
	for _, x := range xs {
		if !p(x) {
			return false
		}
	}
	return true
}

var dbcAllowedSymbols = map[string]bool{}

func init() {
	for _, s := range []string{"NS_DESC_", "CM_", "BA_DEF_", "BA_", "VAL_", "VAL_TABLE_", "CAT_DEF_", "CAT_", "FILTER",
		"BA_DEF_DEF_", "EV_DATA_", "ENVVAR_DATA_", "SIG_GROUP_", "SGTYPE_", "SGTYPE_VAL_", "BA_DEF_SGTYPE_", "BA_SGTYPE_",
		"SIG_TYPE_REF_", "SIG_VALTYPE_", "SIGTYPE_VALTYPE_", "BO_TX_BU_", "BA_DEF_REL_", "BA_REL_", "BA_DEF_DEF_REL_",
		"BU_SG_REL_", "BU_EV_REL_", "BU_BO_REL_", "SG_MUL_VAL_"} {
		dbcAllowedSymbols[s] = true
	}
}

// dbcCheck walks a file; name/str/att are the predicates for the three kinds of text, strict
// adds the structural conditions of well-formedness.
func dbcCheck(j *jFile, name, str, att func(string) bool, strict bool) bool {
	ok := str(j.Version)
	if j.NewSymbols != nil {
		for _, s := range *j.NewSymbols {
			ok = ok && name(s)
			if strict {
				ok = ok && dbcAllowedSymbols[s]
			}
		}
	}
	if strict && j.Nodes == nil {
		return false
	}
	if j.Nodes != nil {
		ok = ok && allOf(name, *j.Nodes...)
	}
	vds := func(xs []jValueDescription) {
		for _, v := range xs {
			ok = ok && str(v.Name)
		}
	}
	for _, v := range j.ValueTables {
		ok = ok && name(v.Name)
		vds(v.Values)
	}
	for _, m := range j.Messages {
		ok = ok && name(m.Name) && name(m.Transmitter)
		for _, s := range m.Signals {
			ok = ok && name(s.Name) && str(s.Unit) && allOf(name, s.Receivers...) && s.ByteOrder < 2 && s.ValueType < 2
			if strict {
				ok = ok && len(s.Receivers) >= 1 && isFinite(s.Factor, s.Offset, s.Min, s.Max) && (s.IsMultiplexed || s.MuxSwitchValue == 0)
			}
		}
	}
	for _, m := range j.MessageTransmitters {
		ok = ok && allOf(name, m.Transmitters...)
	}
	for _, e := range j.EnvVars {
		ok = ok && name(e.Name) && str(e.Unit) && allOf(name, e.AccessNodes...) && e.Type < 3 && e.AccessType < 8
		if strict {
			ok = ok && len(e.AccessNodes) >= 1 && isFinite(e.Min, e.Max, e.InitialValue)
		}
	}
	for _, e := range j.EnvVarDatas {
		ok = ok && name(e.EnvVarName)
	}
	for _, s := range j.SignalTypes {
		ok = ok && name(s.TypeName) && name(s.ValueTableName) && str(s.Unit) && s.ByteOrder < 2 && s.ValueType < 2
		if strict {
			ok = ok && isFinite(s.Factor, s.Offset, s.Min, s.Max, s.DefaultValue)
		}
	}
	// object reference of comments / attribute values: only the fields of the kind are used
	obj := func(kind uint, node string, sig string, ev string, msgID uint32) {
		ok = ok && kind < 5
		switch kind {
		case 1:
			ok = ok && name(node)
		case 3:
			ok = ok && name(sig)
		case 4:
			ok = ok && name(ev)
		}
		if strict {
			ok = ok && (kind == 1 || node == "") && (kind == 3 || sig == "") && (kind == 4 || ev == "") && (kind == 2 || kind == 3 || msgID == 0)
		}
	}
	val := func(typ uint, s string, i int64, h uint32, f string) {
		ok = ok && typ < 4
		if typ == 1 {
			ok = ok && str(s)
		}
		if strict {
			ok = ok && isFinite(f) && (typ == 1 || s == "") && (typ == 0 || i == 0) && (typ == 3 || h == 0) && (typ == 2 || f == "0")
		}
	}
	for _, c := range j.Comments {
		ok = ok && str(c.Text)
		obj(c.Kind, c.NodeName, c.SignalName, c.EnvVarName, c.MessageID)
	}
	for _, a := range j.Attributes {
		ok = ok && att(a.Name) && a.Kind < 5 && a.Type < 5
		if a.Type == 3 {
			ok = ok && allOf(str, a.EnumValues...)
		}
		if strict {
			ok = ok && isFinite(a.MinFloat, a.MaxFloat) &&
				(a.Type == 0 || a.MinInt == 0 && a.MaxInt == 0) && (a.Type == 4 || a.MinHex == 0 && a.MaxHex == 0) &&
				(a.Type == 1 || a.MinFloat == "0" && a.MaxFloat == "0") && (a.Type == 3 || len(a.EnumValues) == 0)
		}
	}
	for _, a := range j.AttributeDefaults {
		ok = ok && att(a.AttributeName)
		val(a.Type, a.ValueString, a.ValueInt, a.ValueHex, a.ValueFloat)
	}
	for _, a := range j.AttributeValues {
		ok = ok && att(a.AttributeName)
		obj(a.AttributeKind, a.NodeName, a.SignalName, a.EnvVarName, a.MessageID)
		val(a.Type, a.ValueString, a.ValueInt, a.ValueHex, a.ValueFloat)
	}
	for _, v := range j.ValueEncodings {
		ok = ok && v.Kind < 2
		if v.Kind == 0 {
			ok = ok && name(v.SignalName)
		} else {
			ok = ok && name(v.EnvVarName)
		}
		if strict {
			ok = ok && (v.Kind == 0 || v.SignalName == "" && v.MessageID == 0) && (v.Kind == 1 || v.EnvVarName == "")
		}
		vds(v.Values)
	}
	for _, s := range j.SignalTypeRefs {
		ok = ok && name(s.TypeName) && name(s.SignalName)
	}
	for _, s := range j.SignalGroups {
		ok = ok && name(s.GroupName) && allOf(name, s.SignalNames...)
	}
	for _, s := range j.SignalExtValueTypes {
		ok = ok && name(s.SignalName) && s.ExtValueType < 3
	}
	for _, m := range j.ExtendedMuxes {
		ok = ok && name(m.MultiplexedName) && name(m.MultiplexorName)
		if strict {
			ok = ok && len(m.Ranges) >= 1
		}
	}
	return ok
}

// dbcWellFormed: the class of files for which C08 promises Parse(Write(f)) = f.
func dbcWellFormed(j *jFile) bool { return dbcCheck(j, dbcIsIdent, dbcIsStr, dbcIsAttName, true) }

// dbcModelWritable: the scope of the model's writeToks (names are words, strings have no quote).
func dbcModelWritable(j *jFile) bool { return dbcCheck(j, dbcIsWord, dbcIsStr, dbcIsStr, false) }

// ---------------------------------------------------------------------------------------
// the C08 oracle

// dbcNorm is the normal form up to which the round trip is promised (Version is handled by
// the caller): nil NewSymbols = default list, nil BitTiming = zero, numeric attribute values
// compared by value across Int/Float/Hex.
func dbcNorm(f *dbc.File) *jFile {
	j := toJ(f)
	if j.NewSymbols == nil {
		s := []string{}
		for _, x := range []string{"NS_DESC_", "CM_", "BA_DEF_", "BA_", "VAL_", "VAL_TABLE_", "CAT_DEF_", "CAT_", "FILTER",
			"BA_DEF_DEF_", "EV_DATA_", "ENVVAR_DATA_", "SIG_GROUP_", "SGTYPE_", "SGTYPE_VAL_", "BA_DEF_SGTYPE_", "BA_SGTYPE_",
			"SIG_TYPE_REF_", "SIG_VALTYPE_", "SIGTYPE_VALTYPE_", "BO_TX_BU_", "BA_DEF_REL_", "BA_REL_", "BA_DEF_DEF_REL_",
			"BU_SG_REL_", "BU_EV_REL_", "BU_BO_REL_", "SG_MUL_VAL_"} {
			s = append(s, x)
		}
		j.NewSymbols = &s
	}
	if j.BitTiming == nil {
		j.BitTiming = &jBitTiming{}
	}
	num := func(typ *uint, i *int64, h *uint32, f *string) {
		if *typ == 1 {
			return
		}
		t := *f
		switch *typ {
		case 0:
			t = strconv.FormatInt(*i, 10)
		case 3:
			t = strconv.FormatUint(uint64(*h), 10)
		}
		if t == "-0" {
			t = "0"
		}
		*typ, *i, *h, *f = 0, 0, 0, t
	}
	for k := range j.AttributeDefaults {
		a := &j.AttributeDefaults[k]
		num(&a.Type, &a.ValueInt, &a.ValueHex, &a.ValueFloat)
	}
	for k := range j.AttributeValues {
		a := &j.AttributeValues[k]
		num(&a.Type, &a.ValueInt, &a.ValueHex, &a.ValueFloat)
	}
	return j
}

// dbcDiff lists the sections in which two normal forms differ.
func dbcDiff(a, b *jFile) []string {
	var res []string
	va, vb := reflect.ValueOf(a).Elem(), reflect.ValueOf(b).Elem()
	for _, s := range dbcSections {
		if !reflect.DeepEqual(va.FieldByName(s).Interface(), vb.FieldByName(s).Interface()) {
			res = append(res, s)
		}
	}
	return res
}

// dbcRejectSig extracts the message of a parser error as a signature suffix.
func dbcRejectSig(err error) string {
	m := err.Error()
	if i := strings.Index(m, "; "); i >= 0 {
		m = m[i+2:]
	}
	if i := strings.Index(m, ": "); i >= 0 {
		m = m[:i]
	}
	return strings.ReplaceAll(m, " ", "-")
}

// dbcRoundTrip checks Parse(Write(f)) = f (up to dbcNorm) and returns the finding signature
// ("" = holds).
func dbcRoundTrip(f *dbc.File, hex bool, prefix string) (sig, detail string) {
	// prefix "write-parse-" gives write-parse-rejected:<msg> / write-parse-differs:<section>;
	// prefix "parse-write-parse:" gives parse-write-parse:rejected:<msg> / parse-write-parse:differs:<section>
	text := dbcWriteText(f, hex)
	g, err := dbc.Parse("f", strings.NewReader(text), hex)
	if err != nil {
		return prefix + "rejected:" + dbcRejectSig(err), err.Error()
	}
	diffs := dbcDiff(dbcNorm(f), dbcNorm(g))
	under := f.Version == "" && g.Version == "_"
	if len(diffs) == 1 && diffs[0] == "Version" && under {
		return "version-underscore", "Version \"\" is written as \"_\""
	}
	for _, d := range diffs {
		if d == "Version" && under {
			continue
		}
		return prefix + "differs:" + d, "section " + d + " of the re-parsed file differs"
	}
	return "", ""
}

// ---------------------------------------------------------------------------------------
// Exec

type dbcExec struct{ fs []Finding }

func (dbcStream) NewExec() Exec        { return &dbcExec{} }
func (e *dbcExec) Findings() []Finding { return e.fs }

func (e *dbcExec) finding(sig, detail string) {
	if len(detail) > 300 {
		detail = detail[:300]
	}
	e.fs = append(e.fs, Finding{Prop: "C08", Sig: sig, Detail: detail})
}

func (e *dbcExec) Do(line string) string {
	f := fields(line)
	if len(f) == 3 && f[1] == "scan" {
		return dbcScanDo(e, f[2])
	}
	if len(f) >= 3 && f[1] == "chainok" {
		return dbcChainOKDo(e, f[2], len(f) == 4 && f[3] == "w")
	}
	if len(f) < 4 || (f[2] != "0" && f[2] != "1") {
		return "bad-op"
	}
	hex := f[2] == "1"
	switch f[1] {
	case "write":
		j, err := decodeJFile(f[3])
		if err != nil {
			return "bad-op"
		}
		ast := fromJ(j)
		text := dbcWriteText(ast, hex)
		if dbcWellFormed(j) {
			if sig, det := dbcRoundTrip(ast, hex, "write-parse-"); sig != "" {
				e.finding(sig, det+" | hex="+f[2]+" file="+f[3])
			}
		}
		return encJSON(dbcScanAll(text))
	case "parse":
		if len(f) < 5 {
			return "bad-op"
		}
		var text string
		if err := json.Unmarshal([]byte(f[4]), &text); err != nil {
			return "bad-op"
		}
		if encJSON(dbcScanAll(text)) != f[3] {
			return "bad-line tokens do not belong to the text"
		}
		ast, err := dbc.Parse("f", strings.NewReader(text), hex)
		if err != nil {
			return "err"
		}
		if sig, det := dbcRoundTrip(ast, hex, "parse-write-parse:"); sig != "" {
			e.finding(sig, det+" | hex="+f[2]+" text="+f[4])
		}
		return "ok " + encJSON(toJ(ast))
	}
	return "bad-op"
}

// Same: equal lines, or equal files after canonicalisation (float texts through
// ParseFloat/FormatFloat, nil = empty slice), or equal token lists.
func (dbcStream) Same(a, b string) bool {
	if a == b {
		return true
	}
	if strings.HasPrefix(a, "ok ") && strings.HasPrefix(b, "ok ") {
		ja, ea := decodeJFile(a[3:])
		jb, eb := decodeJFile(b[3:])
		if ea != nil || eb != nil {
			return false
		}
		canonJ(ja)
		canonJ(jb)
		return reflect.DeepEqual(ja, jb)
	}
	if strings.HasPrefix(a, "[") && strings.HasPrefix(b, "[") {
		var ta, tb []jTok
		if json.Unmarshal([]byte(a), &ta) != nil || json.Unmarshal([]byte(b), &tb) != nil {
			return false
		}
		return reflect.DeepEqual(ta, tb)
	}
	return false
}

func (dbcStream) Tag(lines, outs []string) (bool, []string) {
	nt := false
	tags := []string{}
	for i, l := range lines {
		f := fields(l)
		if len(f) >= 3 && f[1] == "chainok" {
			tags = append(tags, "chainok", "chainok:"+strings.SplitN(outs[i], " ", 2)[0])
			if len(f) == 4 {
				tags = append(tags, "chainok:writer:"+strings.SplitN(outs[i], " ", 2)[0])
			}
			nt = true
			continue
		}
		if len(f) == 3 && f[1] == "scan" {
			tags = append(tags, "scan", "scan:last-"+outs[i][strings.LastIndex(outs[i], ",")+1:][:3])
			nt = true
			continue
		}
		if len(f) < 4 {
			continue
		}
		switch f[1] {
		case "write":
			tags = append(tags, "write")
			if j, err := decodeJFile(f[3]); err == nil {
				if dbcWellFormed(j) {
					tags = append(tags, "write:well-formed")
				} else {
					tags = append(tags, "write:ill-formed")
				}
				v := reflect.ValueOf(j).Elem()
				for _, s := range dbcSections[1:] {
					fv := v.FieldByName(s)
					if (fv.Kind() == reflect.Ptr && !fv.IsNil()) || (fv.Kind() == reflect.Slice && fv.Len() > 0) {
						tags = append(tags, "sec:"+s)
					}
				}
			}
			nt = true
		case "parse":
			switch {
			case strings.HasPrefix(outs[i], "ok "):
				tags = append(tags, "parse:accept")
				nt = true
			case outs[i] == "err":
				tags = append(tags, "parse:reject")
			default:
				tags = append(tags, "parse:"+strings.SplitN(outs[i], " ", 2)[0])
			}
		}
	}
	return nt, tags
}
