package main

// Stream `svs` — the SCALAR fields of saver.go / loader.go against the Lean model
// Acme.SaveScalar (lean/Acme/Core/SaveScalar.lean, driver lean/Acme/Driver/SaveScalar.lean,
// theorems lean/Acme/Props/C12Scalar.lean, property C12).
//
//   svs rt <Msg> <Field> <value> → wire=<w> back=<v> | api-refused
//        Go: build the fixture network through the PUBLIC API with <value> in the field (a
//        refusal by the API is printed as `api-refused`), VerifSaveProto, read the schema field
//        from the tree (wire), VerifLoadProto, read the field back through the public getters
//        (back; `err` when the loader refuses the tree).  Model: saveScalar / loadScalar with
//        the conversion the REGENERATED field table gives the field.
//   svs ld <Msg> <Field> <wire>  → back=<v>
//        Go: save the default fixture, overwrite the schema field in the tree, VerifLoadProto,
//        read the field back.  Model: loadScalar.
//
// tokens: values i<int> f<float64 bits> s<text> b0|b1 t<Go constant>; wire u<uint32> j<int32>
// f<bits> s<text> b0|b1 e<schema constant>.
//
// Go-side oracle (C12 itself): a value the API accepted and that comes back different (or whose
// save is refused) is a finding; narrowing through a uint32 / int32 field of a value outside its
// range is reported with the signatures of the known findings D58 / D57, anything else as
// `c12-scalar:<Msg>.<Field>`.
//
// Values that would make the library allocate in proportion to the number (interface count,
// group count: one object each; D78) are not generated.

import (
	"fmt"
	"math"
	"math/rand"
	"strconv"
	"strings"

	"github.com/squadracorsepolito/acmelib"
	acmelibv1 "github.com/squadracorsepolito/acmelib/proto/gen/go/acmelib/v1"
)

type svsStream struct{ baseStream }

func init() { register(svsStream{}) }

func (svsStream) Name() string    { return "svs" }
func (svsStream) Props() []string { return []string{"C12"} }
func (svsStream) NewExec() Exec   { return &svsExec{} }
func (svsStream) Parallel() bool  { return true }

// ---------------------------------------------------------------------------------------------
// values

type svsVal struct {
	k byte // i f s b t
	i int
	f float64
	s string
	b bool
}

func svsParse(t string) (svsVal, bool) {
	if t == "" {
		return svsVal{}, false
	}
	switch t[0] {
	case 'i':
		v, err := strconv.ParseInt(t[1:], 10, 64)
		return svsVal{k: 'i', i: int(v)}, err == nil
	case 'f':
		v, err := strconv.ParseUint(t[1:], 10, 64)
		return svsVal{k: 'f', f: math.Float64frombits(v)}, err == nil
	case 's':
		return svsVal{k: 's', s: t[1:]}, true
	case 'b':
		return svsVal{k: 'b', b: t == "b1"}, t == "b0" || t == "b1"
	case 't':
		return svsVal{k: 't', s: t[1:]}, true
	}
	return svsVal{}, false
}

func svsI(v int) string     { return "i" + strconv.Itoa(v) }
func svsF(v float64) string { return "f" + strconv.FormatUint(math.Float64bits(v), 10) }
func svsS(v string) string  { return "s" + v }
func svsB(v bool) string {
	if v {
		return "b1"
	}
	return "b0"
}

// Go constant names (the model's tables are regenerated from the source text)
var svsPriority = []string{"MessagePriorityVeryHigh", "MessagePriorityHigh", "MessagePriorityMedium", "MessagePriorityLow"}
var svsMsgSend = []string{"MessageSendTypeUnset", "MessageSendTypeCyclic", "MessageSendTypeCyclicIfActive", "MessageSendTypeCyclicAndTriggered", "MessageSendTypeCyclicIfActiveAndTriggered"}
var svsByteOrder = []string{"MessageByteOrderLittleEndian", "MessageByteOrderBigEndian"}
var svsSigSend = []string{"SignalSendTypeUnset", "SignalSendTypeCyclic", "SignalSendTypeOnWrite", "SignalSendTypeOnWriteWithRepetition", "SignalSendTypeOnChange", "SignalSendTypeOnChangeWithRepetition", "SignalSendTypeIfActive", "SignalSendTypeIfActiveWithRepetition"}
var svsUnitKind = []string{"SignalUnitKindCustom", "SignalUnitKindTemperature", "SignalUnitKindElectrical", "SignalUnitKindPower"}

func svsIdx(names []string, n string) int {
	for i, x := range names {
		if x == n {
			return i
		}
	}
	return -1
}

func svsName(names []string, i int) string {
	if i >= 0 && i < len(names) {
		return "t" + names[i]
	}
	return "t?" + strconv.Itoa(i)
}

func svsE(prefix string, v fmt.Stringer) string { return "eacmelibv1." + prefix + "_" + v.String() }

// ---------------------------------------------------------------------------------------------
// the fields

type svsFieldInfo struct {
	kind byte   // i int · u uint32-typed id · f float · s string · b bool · t enum
	conv string // u32 | i32 | "" : the narrowing class (for the oracle's signature)
	// resource: the library allocates in proportion to the value → only small values
	resource bool
	names    []string
}

var svsFields = map[string]svsFieldInfo{
	"Bus.Baudrate":                                {kind: 'i', conv: "u32"},
	"CANIDBuilderOp.From":                         {kind: 'i', conv: "u32"},
	"CANIDBuilderOp.Len":                          {kind: 'i', conv: "u32"},
	"Message.CycleTime":                           {kind: 'i', conv: "u32"},
	"Message.DelayTime":                           {kind: 'i', conv: "u32"},
	"Message.StartDelayTime":                      {kind: 'i', conv: "u32"},
	"Message.SizeByte":                            {kind: 'i', conv: "u32"},
	"Message.MessageId":                           {kind: 'u'},
	"Message.StaticCanId":                         {kind: 'u'},
	"Node.NodeId":                                 {kind: 'u'},
	"Node.InterfaceCount":                         {kind: 'i', conv: "u32", resource: true},
	"MultiplexerSignal.GroupCount":                {kind: 'i', conv: "u32", resource: true},
	"MultiplexerSignal.GroupSize":                 {kind: 'i', conv: "u32"},
	"SignalEnum.MinSize":                          {kind: 'i', conv: "u32"},
	"SignalEnumValue.Index":                       {kind: 'i', conv: "u32"},
	"SignalPayloadRef.RelStartBit":                {kind: 'i', conv: "u32"},
	"SignalType.Size":                             {kind: 'i', conv: "u32"},
	"IntegerAttribute.DefValue":                   {kind: 'i', conv: "i32"},
	"IntegerAttribute.Min":                        {kind: 'i', conv: "i32"},
	"IntegerAttribute.Max":                        {kind: 'i', conv: "i32"},
	"AttributeAssignment_ValueInt.ValueInt":       {kind: 'i', conv: "i32"},
	"NodeInterface.Number":                        {kind: 'i', conv: "i32"},
	"MessageReceiver.NodeInterfaceNumber":         {kind: 'i', conv: "u32"},
	"SignalType.Min":                              {kind: 'f'},
	"SignalType.Max":                              {kind: 'f'},
	"SignalType.Scale":                            {kind: 'f'},
	"SignalType.Offset":                           {kind: 'f'},
	"Signal.StartValue":                           {kind: 'f'},
	"FloatAttribute.DefValue":                     {kind: 'f'},
	"AttributeAssignment_ValueDouble.ValueDouble": {kind: 'f'},
	"Entity.Name":                                 {kind: 's'},
	"Entity.Desc":                                 {kind: 's'},
	"SignalUnit.Symbol":                           {kind: 's'},
	"StringAttribute.DefValue":                    {kind: 's'},
	"AttributeAssignment_ValueString.ValueString": {kind: 's'},
	"SignalType.Signed":                           {kind: 'b'},
	"IntegerAttribute.IsHexFormat":                {kind: 'b'},
	"Message.HasStaticCanId":                      {kind: 'b'},
	"Message.Priority":                            {kind: 't', names: svsPriority},
	"Message.SendType":                            {kind: 't', names: svsMsgSend},
	"Message.ByteOrder":                           {kind: 't', names: svsByteOrder},
	"Signal.SendType":                             {kind: 't', names: svsSigSend},
	"SignalUnit.Kind":                             {kind: 't', names: svsUnitKind},
}

// fields the public API gives no way to set freely: load side only
var svsLoadOnly = map[string]bool{"NodeInterface.Number": true, "MessageReceiver.NodeInterfaceNumber": true}

var svsKeys = func() []string {
	var ks []string
	for k := range svsFields {
		ks = append(ks, k)
	}
	for i := 1; i < len(ks); i++ {
		for j := i; j > 0 && ks[j] < ks[j-1]; j-- {
			ks[j], ks[j-1] = ks[j-1], ks[j]
		}
	}
	return ks
}()

// ---------------------------------------------------------------------------------------------
// the fixture

type svsOv map[string]svsVal

func (o svsOv) has(k string) bool { _, ok := o[k]; return ok }
func (o svsOv) i(k string, d int) int {
	if v, ok := o[k]; ok {
		return v.i
	}
	return d
}
func (o svsOv) f(k string, d float64) float64 {
	if v, ok := o[k]; ok {
		return v.f
	}
	return d
}
func (o svsOv) s(k string, d string) string {
	if v, ok := o[k]; ok {
		return v.s
	}
	return d
}
func (o svsOv) b(k string, d bool) bool {
	if v, ok := o[k]; ok {
		return v.b
	}
	return d
}
func (o svsOv) t(k string, names []string, d int) int {
	if v, ok := o[k]; ok {
		return svsIdx(names, v.s)
	}
	return d
}

// svsBuild builds the fixture through the public API; an error is a refusal by the API.
func svsBuild(o svsOv) (net *acmelib.Network, err error) {
	net = acmelib.NewNetwork("net")
	bus := acmelib.NewBus("bus")
	bus.SetBaudrate(o.i("Bus.Baudrate", 500000))
	cb := acmelib.NewCANIDBuilder("cb")
	cb.UseMessageID(o.i("CANIDBuilderOp.From", 0), o.i("CANIDBuilderOp.Len", 11))
	bus.SetCANIDBuilder(cb)
	if err = net.AddBus(bus); err != nil {
		return
	}
	nd := acmelib.NewNode("nd", acmelib.NodeID(uint32(o.i("Node.NodeId", 1))), o.i("Node.InterfaceCount", 1))
	rx := acmelib.NewNode("rx", 1000, 1)
	ni, err := nd.GetInterface(0)
	if err != nil {
		return
	}
	rxi, err := rx.GetInterface(0)
	if err != nil {
		return
	}

	typ, err := acmelib.NewCustomSignalType("ty", o.i("SignalType.Size", 8), o.b("SignalType.Signed", false),
		o.f("SignalType.Min", 0), o.f("SignalType.Max", 255), o.f("SignalType.Scale", 1), o.f("SignalType.Offset", 0))
	if err != nil {
		return
	}
	unit := acmelib.NewSignalUnit("un", acmelib.SignalUnitKind(o.t("SignalUnit.Kind", svsUnitKind, 2)), o.s("SignalUnit.Symbol", "V"))
	enum := acmelib.NewSignalEnum("en")
	if o.has("SignalEnum.MinSize") {
		if err = enum.SetMinSize(o.i("SignalEnum.MinSize", 0)); err != nil {
			return
		}
	}
	if err = enum.AddValue(acmelib.NewSignalEnumValue("v0", o.i("SignalEnumValue.Index", 1))); err != nil {
		return
	}

	msg := acmelib.NewMessage(o.s("Entity.Name", "msg"), acmelib.MessageID(uint32(o.i("Message.MessageId", 16))), o.i("Message.SizeByte", 8))
	msg.SetDesc(o.s("Entity.Desc", "d"))
	if o.has("Message.CycleTime") {
		msg.SetCycleTime(o.i("Message.CycleTime", 0))
	}
	if o.has("Message.DelayTime") {
		msg.SetDelayTime(o.i("Message.DelayTime", 0))
	}
	if o.has("Message.StartDelayTime") {
		msg.SetStartDelayTime(o.i("Message.StartDelayTime", 0))
	}
	if o.has("Message.Priority") {
		msg.SetPriority(acmelib.MessagePriority(o.t("Message.Priority", svsPriority, 0)))
	}
	if o.has("Message.SendType") {
		msg.SetSendType(acmelib.MessageSendType(o.t("Message.SendType", svsMsgSend, 0)))
	}
	if o.has("Message.ByteOrder") {
		msg.SetByteOrder(acmelib.MessageByteOrder(o.t("Message.ByteOrder", svsByteOrder, 0)))
	}
	// a message whose size is under test carries no signal (the layout would refuse them)
	if !o.has("Message.SizeByte") {
		s0, e := acmelib.NewStandardSignal("s0", typ)
		if e != nil {
			return net, e
		}
		s0.SetUnit(unit)
		s0.SetStartValue(o.f("Signal.StartValue", 0))
		if o.has("Signal.SendType") {
			s0.SetSendType(acmelib.SignalSendType(o.t("Signal.SendType", svsSigSend, 0)))
		}
		if err = msg.InsertSignal(s0, 0); err != nil {
			return
		}
		s1, e := acmelib.NewEnumSignal("s1", enum)
		if e != nil {
			return net, e
		}
		if err = msg.InsertSignal(s1, o.i("SignalPayloadRef.RelStartBit", 9)); err != nil {
			return
		}
		mx, e := acmelib.NewMultiplexerSignal("mx", o.i("MultiplexerSignal.GroupCount", 2), o.i("MultiplexerSignal.GroupSize", 4))
		if e != nil {
			return net, e
		}
		c0, e := acmelib.NewStandardSignal("c0", acmelib.NewFlagSignalType("fl"))
		if e != nil {
			return net, e
		}
		if err = mx.InsertSignal(c0, 0, 0); err != nil {
			return
		}
		if err = msg.InsertSignal(mx, 48); err != nil {
			return
		}
	}
	if err = ni.AddSentMessage(msg); err != nil {
		return
	}
	if err = bus.AddNodeInterface(ni); err != nil {
		return
	}
	if err = bus.AddNodeInterface(rxi); err != nil {
		return
	}
	if err = msg.AddReceiver(rxi); err != nil {
		return
	}
	if o.has("Message.StaticCanId") || o.b("Message.HasStaticCanId", false) {
		if err = msg.SetStaticCANID(acmelib.CANID(uint32(o.i("Message.StaticCanId", 77)))); err != nil {
			return
		}
	}

	// attributes (saved only when assigned)
	def, mn, mx := o.i("IntegerAttribute.DefValue", 0), o.i("IntegerAttribute.Min", -10), o.i("IntegerAttribute.Max", 10)
	asg := o.i("AttributeAssignment_ValueInt.ValueInt", def)
	switch {
	case o.has("IntegerAttribute.Min"):
		if mx < mn {
			mx = mn
		}
		if def < mn {
			def, asg = mn, mn
		}
	case o.has("IntegerAttribute.Max"):
		if mn > mx {
			mn = mx
		}
		if def > mx {
			def, asg = mx, mx
		}
	case o.has("IntegerAttribute.DefValue"):
		if def < mn {
			mn = def
		}
		if def > mx {
			mx = def
		}
	case o.has("AttributeAssignment_ValueInt.ValueInt"):
		if asg < mn {
			mn = asg
		}
		if asg > mx {
			mx = asg
		}
	}
	ia, err := acmelib.NewIntegerAttribute("ia", def, mn, mx)
	if err != nil {
		return
	}
	if o.b("IntegerAttribute.IsHexFormat", false) {
		ia.SetFormatHex()
	}
	if err = msg.AssignAttribute(ia, asg); err != nil {
		return
	}
	fd := o.f("FloatAttribute.DefValue", 0.5)
	fmn, fmx := math.Inf(-1), math.Inf(1)
	fa, err := acmelib.NewFloatAttribute("fa", fd, fmn, fmx)
	if err != nil {
		return
	}
	if err = bus.AssignAttribute(fa, o.f("AttributeAssignment_ValueDouble.ValueDouble", 1.5)); err != nil {
		return
	}
	sa := acmelib.NewStringAttribute("sa", o.s("StringAttribute.DefValue", "x"))
	if err = nd.AssignAttribute(sa, o.s("AttributeAssignment_ValueString.ValueString", "y")); err != nil {
		return
	}
	return net, nil
}

// ---- locating the entities of the fixture in a saved tree ----

type svsP struct {
	bus  *acmelibv1.Bus
	op   *acmelibv1.CANIDBuilderOp
	nd   *acmelibv1.Node
	ni   *acmelibv1.NodeInterface
	msg  *acmelibv1.Message
	rec  *acmelibv1.MessageReceiver
	s0   *acmelibv1.Signal
	ref1 *acmelibv1.SignalPayloadRef
	mux  *acmelibv1.MultiplexerSignal
	typ  *acmelibv1.SignalType
	unit *acmelibv1.SignalUnit
	enum *acmelibv1.SignalEnum
	ia   *acmelibv1.IntegerAttribute
	fa   *acmelibv1.FloatAttribute
	sa   *acmelibv1.StringAttribute
	asgI *acmelibv1.AttributeAssignment_ValueInt
	asgF *acmelibv1.AttributeAssignment_ValueDouble
	asgS *acmelibv1.AttributeAssignment_ValueString
}

func svsLocate(p *acmelibv1.Network) (x svsP, ok bool) {
	defer func() {
		if recover() != nil {
			ok = false
		}
	}()
	x.bus = p.GetBuses()[0]
	x.op = p.GetCanidBuilders()[0].GetOperations()[0]
	for _, n := range p.GetNodes() {
		if n.GetEntity().GetName() == "nd" {
			x.nd = n
		}
	}
	for _, i := range x.bus.GetNodeInterfaces() {
		if i.GetNodeEntityId() == x.nd.GetEntity().GetEntityId() {
			x.ni = i
		}
	}
	x.msg = x.ni.GetMessages()[0]
	x.rec = x.msg.GetReceivers()[0]
	for _, s := range x.msg.GetSignals() {
		switch s.GetEntity().GetName() {
		case "s0":
			x.s0 = s
		case "s1":
			for _, r := range x.msg.GetPayload().GetRefs() {
				if r.GetSignalEntityId() == s.GetEntity().GetEntityId() {
					x.ref1 = r
				}
			}
		case "mx":
			x.mux = s.GetMultiplexer()
		}
	}
	for _, t := range p.GetSignalTypes() {
		if t.GetEntity().GetName() == "ty" {
			x.typ = t
		}
	}
	if len(p.GetSignalUnits()) > 0 {
		x.unit = p.GetSignalUnits()[0]
	}
	if len(p.GetSignalEnums()) > 0 {
		x.enum = p.GetSignalEnums()[0]
	}
	for _, a := range p.GetAttributes() {
		switch a.GetEntity().GetName() {
		case "ia":
			x.ia = a.GetIntegerAttribute()
		case "fa":
			x.fa = a.GetFloatAttribute()
		case "sa":
			x.sa = a.GetStringAttribute()
		}
	}
	x.asgI, _ = x.msg.GetAttributeAssignments()[0].GetValue().(*acmelibv1.AttributeAssignment_ValueInt)
	x.asgF, _ = x.bus.GetAttributeAssignments()[0].GetValue().(*acmelibv1.AttributeAssignment_ValueDouble)
	x.asgS, _ = x.nd.GetAttributeAssignments()[0].GetValue().(*acmelibv1.AttributeAssignment_ValueString)
	return x, true
}

func svsU(v uint32) string { return "u" + strconv.FormatUint(uint64(v), 10) }
func svsJ(v int32) string  { return "j" + strconv.FormatInt(int64(v), 10) }

// svsWire reads (w == nil) or overwrites the schema field `key` of the tree.
func svsWire(p *acmelibv1.Network, key string, w *string) (out string) {
	defer func() {
		if recover() != nil {
			out = "absent"
		}
	}()
	x, _ := svsLocate(p)
	u32 := func(f *uint32) string {
		if w != nil {
			v, _ := strconv.ParseUint((*w)[1:], 10, 32)
			*f = uint32(v)
		}
		return svsU(*f)
	}
	i32 := func(f *int32) string {
		if w != nil {
			v, _ := strconv.ParseInt((*w)[1:], 10, 32)
			*f = int32(v)
		}
		return svsJ(*f)
	}
	f64 := func(f *float64) string {
		if w != nil {
			v, _ := strconv.ParseUint((*w)[1:], 10, 64)
			*f = math.Float64frombits(v)
		}
		return svsF(*f)
	}
	str := func(f *string) string {
		if w != nil {
			*f = (*w)[1:]
		}
		return svsS(*f)
	}
	bl := func(f *bool) string {
		if w != nil {
			*f = *w == "b1"
		}
		return svsB(*f)
	}
	switch key {
	case "Bus.Baudrate":
		return u32(&x.bus.Baudrate)
	case "CANIDBuilderOp.From":
		return u32(&x.op.From)
	case "CANIDBuilderOp.Len":
		return u32(&x.op.Len)
	case "Message.CycleTime":
		return u32(&x.msg.CycleTime)
	case "Message.DelayTime":
		return u32(&x.msg.DelayTime)
	case "Message.StartDelayTime":
		return u32(&x.msg.StartDelayTime)
	case "Message.SizeByte":
		return u32(&x.msg.SizeByte)
	case "Message.MessageId":
		return u32(&x.msg.MessageId)
	case "Message.StaticCanId":
		if w != nil {
			x.msg.HasStaticCanId = true // the loader reads the number only when the flag is set
		}
		return u32(&x.msg.StaticCanId)
	case "Message.HasStaticCanId":
		return bl(&x.msg.HasStaticCanId)
	case "Node.NodeId":
		return u32(&x.nd.NodeId)
	case "Node.InterfaceCount":
		return u32(&x.nd.InterfaceCount)
	case "NodeInterface.Number":
		return i32(&x.ni.Number)
	case "MessageReceiver.NodeInterfaceNumber":
		return u32(&x.rec.NodeInterfaceNumber)
	case "MultiplexerSignal.GroupCount":
		return u32(&x.mux.GroupCount)
	case "MultiplexerSignal.GroupSize":
		return u32(&x.mux.GroupSize)
	case "SignalEnum.MinSize":
		return u32(&x.enum.MinSize)
	case "SignalEnumValue.Index":
		return u32(&x.enum.Values[0].Index)
	case "SignalPayloadRef.RelStartBit":
		return u32(&x.ref1.RelStartBit)
	case "SignalType.Size":
		return u32(&x.typ.Size)
	case "SignalType.Signed":
		return bl(&x.typ.Signed)
	case "SignalType.Min":
		return f64(&x.typ.Min)
	case "SignalType.Max":
		return f64(&x.typ.Max)
	case "SignalType.Scale":
		return f64(&x.typ.Scale)
	case "SignalType.Offset":
		return f64(&x.typ.Offset)
	case "Signal.StartValue":
		return f64(&x.s0.StartValue)
	case "IntegerAttribute.DefValue":
		return i32(&x.ia.DefValue)
	case "IntegerAttribute.Min":
		return i32(&x.ia.Min)
	case "IntegerAttribute.Max":
		return i32(&x.ia.Max)
	case "IntegerAttribute.IsHexFormat":
		return bl(&x.ia.IsHexFormat)
	case "AttributeAssignment_ValueInt.ValueInt":
		return i32(&x.asgI.ValueInt)
	case "FloatAttribute.DefValue":
		return f64(&x.fa.DefValue)
	case "AttributeAssignment_ValueDouble.ValueDouble":
		return f64(&x.asgF.ValueDouble)
	case "StringAttribute.DefValue":
		return str(&x.sa.DefValue)
	case "AttributeAssignment_ValueString.ValueString":
		return str(&x.asgS.ValueString)
	case "Entity.Name":
		return str(&x.msg.Entity.Name)
	case "Entity.Desc":
		return str(&x.msg.Entity.Desc)
	case "SignalUnit.Symbol":
		return str(&x.unit.Symbol)
	case "Message.Priority":
		return svsE("MessagePriority", x.msg.Priority)
	case "Message.SendType":
		return svsE("MessageSendType", x.msg.SendType)
	case "Message.ByteOrder":
		return svsE("MessageByteOrder", x.msg.ByteOrder)
	case "Signal.SendType":
		return svsE("SignalSendType", x.s0.SendType)
	case "SignalUnit.Kind":
		return svsE("SignalUnitKind", x.unit.Kind)
	}
	return "no-such-field"
}

// svsGet reads the model field back through the public getters.
func svsGet(net *acmelib.Network, key string) (out string) {
	defer func() {
		if r := recover(); r != nil {
			out = "absent"
		}
	}()
	bus := net.Buses()[0]
	var nd *acmelib.Node
	var ni *acmelib.NodeInterface
	for _, i := range bus.NodeInterfaces() {
		if i.Node().Name() == "nd" {
			nd, ni = i.Node(), i
		}
	}
	msg := ni.SentMessages()[0]
	sig := func(name string) acmelib.Signal {
		for _, s := range msg.Signals() {
			if s.Name() == name {
				return s
			}
		}
		return nil
	}
	std := func() *acmelib.StandardSignal { s, _ := sig("s0").ToStandard(); return s }
	enum := func() *acmelib.SignalEnum { s, _ := sig("s1").ToEnum(); return s.Enum() }
	mux := func() *acmelib.MultiplexerSignal { s, _ := sig("mx").ToMultiplexer(); return s }
	ia := func() *acmelib.IntegerAttribute {
		a, _ := msg.AttributeAssignments()[0].Attribute().ToInteger()
		return a
	}
	fa := func() *acmelib.FloatAttribute { a, _ := bus.AttributeAssignments()[0].Attribute().ToFloat(); return a }
	sa := func() *acmelib.StringAttribute { a, _ := nd.AttributeAssignments()[0].Attribute().ToString(); return a }
	switch key {
	case "Bus.Baudrate":
		return svsI(bus.Baudrate())
	case "CANIDBuilderOp.From":
		return svsI(bus.CANIDBuilder().Operations()[0].From())
	case "CANIDBuilderOp.Len":
		return svsI(bus.CANIDBuilder().Operations()[0].Len())
	case "Message.CycleTime":
		return svsI(msg.CycleTime())
	case "Message.DelayTime":
		return svsI(msg.DelayTime())
	case "Message.StartDelayTime":
		return svsI(msg.StartDelayTime())
	case "Message.SizeByte":
		return svsI(msg.SizeByte())
	case "Message.MessageId":
		return svsI(int(msg.ID()))
	case "Message.StaticCanId":
		return svsI(int(msg.GetCANID()))
	case "Message.HasStaticCanId":
		return svsB(msg.HasStaticCANID())
	case "Node.NodeId":
		return svsI(int(nd.ID()))
	case "Node.InterfaceCount":
		return svsI(len(nd.Interfaces()))
	case "NodeInterface.Number":
		return svsI(ni.Number())
	case "MessageReceiver.NodeInterfaceNumber":
		return svsI(msg.Receivers()[0].Number())
	case "MultiplexerSignal.GroupCount":
		return svsI(mux().GroupCount())
	case "MultiplexerSignal.GroupSize":
		return svsI(mux().GroupSize())
	case "SignalEnum.MinSize":
		return svsI(enum().MinSize())
	case "SignalEnumValue.Index":
		return svsI(enum().Values()[0].Index())
	case "SignalPayloadRef.RelStartBit":
		return svsI(sig("s1").GetRelativeStartPos())
	case "SignalType.Size":
		return svsI(std().Type().Size())
	case "SignalType.Signed":
		return svsB(std().Type().Signed())
	case "SignalType.Min":
		return svsF(std().Type().Min())
	case "SignalType.Max":
		return svsF(std().Type().Max())
	case "SignalType.Scale":
		return svsF(std().Type().Scale())
	case "SignalType.Offset":
		return svsF(std().Type().Offset())
	case "Signal.StartValue":
		return svsF(sig("s0").StartValue())
	case "IntegerAttribute.DefValue":
		return svsI(ia().DefValue())
	case "IntegerAttribute.Min":
		return svsI(ia().Min())
	case "IntegerAttribute.Max":
		return svsI(ia().Max())
	case "IntegerAttribute.IsHexFormat":
		return svsB(ia().IsHexFormat())
	case "AttributeAssignment_ValueInt.ValueInt":
		return svsI(msg.AttributeAssignments()[0].Value().(int))
	case "FloatAttribute.DefValue":
		return svsF(fa().DefValue())
	case "AttributeAssignment_ValueDouble.ValueDouble":
		return svsF(bus.AttributeAssignments()[0].Value().(float64))
	case "StringAttribute.DefValue":
		return svsS(sa().DefValue())
	case "AttributeAssignment_ValueString.ValueString":
		return svsS(nd.AttributeAssignments()[0].Value().(string))
	case "Entity.Name":
		return svsS(msg.Name())
	case "Entity.Desc":
		return svsS(msg.Desc())
	case "SignalUnit.Symbol":
		return svsS(std().Unit().Symbol())
	case "Message.Priority":
		return svsName(svsPriority, int(msg.Priority()))
	case "Message.SendType":
		return svsName(svsMsgSend, int(msg.SendType()))
	case "Message.ByteOrder":
		return svsName(svsByteOrder, int(msg.ByteOrder()))
	case "Signal.SendType":
		return svsName(svsSigSend, int(sig("s0").SendType()))
	case "SignalUnit.Kind":
		return svsName(svsUnitKind, int(std().Unit().Kind()))
	}
	return "no-such-field"
}

// ---------------------------------------------------------------------------------------------
// execution

type svsExec struct {
	fs []Finding
	ln int
}

func (e *svsExec) Findings() []Finding { return e.fs }

func (e *svsExec) finding(key, tok, detail string) {
	info := svsFields[key]
	sig := "c12-scalar:" + key
	if v, ok := svsParse(tok); ok && v.k == 'i' {
		switch {
		case info.conv == "u32" && (v.i < 0 || v.i > math.MaxUint32):
			sig = "c12-uint32-narrowing"
		case info.conv == "i32" && (v.i < math.MinInt32 || v.i > math.MaxInt32):
			sig = "c12-int32-narrowing"
		}
	}
	e.fs = append(e.fs, Finding{Prop: "C12", Sig: sig, Line: e.ln,
		Detail: sprintf("c12-scalar:%s: %s; out-of-range inputs: [%s=%s]", key, detail, key, tok)})
}

func svsLoad(p *acmelibv1.Network) (net *acmelib.Network, err error) {
	defer func() {
		if r := recover(); r != nil {
			net, err = nil, fmt.Errorf("panic: %v", r)
		}
	}()
	return acmelib.VerifLoadProto(p)
}

func (e *svsExec) Do(line string) string {
	defer func() { e.ln++ }()
	f := fields(line)
	if len(f) != 5 || f[0] != "svs" {
		return "bad-op"
	}
	key := f[2] + "." + f[3]
	info, ok := svsFields[key]
	if !ok {
		return "no-such-field"
	}
	switch f[1] {
	case "rt":
		v, ok := svsParse(f[4])
		if !ok {
			return "bad-value"
		}
		net, err := svsBuild(svsOv{key: v})
		if err != nil {
			return "api-refused"
		}
		// the value the API holds (it may normalise: a negative interface count is zero)
		held := svsGet(net, key)
		if held != f[4] && !(info.kind == 't') {
			return "api-normalised " + held
		}
		p := acmelib.VerifSaveProto(net)
		w := svsWire(p, key, nil)
		net2, err := svsLoad(p)
		if err != nil {
			e.finding(key, f[4], sprintf("the public API accepts the value, the loader refuses the save: %v", err))
			return sprintf("wire=%s back=err", w)
		}
		back := svsGet(net2, key)
		if back != f[4] && !(key == "SignalEnum.MinSize" && f[4] == "i0" && back == "i1") {
			// (minimum size 0 of a signal enum comes back as 1 — the constructor's value, the
			// loader assigns only `if MinSize != 0`: modelled as `u32z 1`, theorem
			// C12_scalar_minSize_zero; reported, not a finding: the size of the enum is the same)
			e.finding(key, f[4], sprintf("saved as %s, loaded as %s", w, back))
		}
		if info.kind == 't' && strings.HasSuffix(w, "_UNSPECIFIED") {
			if back == f[4] {
				return sprintf("wire=%s back=keep", w)
			}
			return sprintf("wire=%s back=keep-differs(%s)", w, back)
		}
		return sprintf("wire=%s back=%s", w, back)
	case "ld":
		net, err := svsBuild(svsOv{})
		if err != nil {
			return "fixture-refused " + err.Error()
		}
		p := acmelib.VerifSaveProto(net)
		w := f[4]
		if got := svsWire(p, key, &w); got != f[4] {
			return "edit-failed " + got
		}
		net2, err := svsLoad(p)
		if err != nil {
			return "back=err"
		}
		return "back=" + svsGet(net2, key)
	}
	return "bad-op"
}

// Same: the model prints `fits=`; a refusal by the loader (`back=err`) is the loader's validation
// of a value (semantic validity is outside the scalar model) and is accepted where the model says
// the value does not fit, or on the load side where the edited value is semantically invalid.
func (svsStream) Same(goOut, modelOut string) bool {
	m := modelOut
	fits := ""
	if i := strings.Index(m, " fits="); i >= 0 {
		m, fits = m[:i], m[i+6:]
	}
	if goOut == m {
		return true
	}
	if goOut == "api-refused" || strings.HasPrefix(goOut, "api-normalised ") {
		return strings.HasPrefix(m, "wire=") || strings.HasPrefix(m, "ill-typed")
	}
	if g, ok := strings.CutSuffix(goOut, " back=err"); ok {
		// same wire value; the loader refused the tree
		if mw, _, ok2 := strings.Cut(m, " back="); ok2 && mw == g {
			return true
		}
	}
	if goOut == "back=err" && strings.HasPrefix(m, "back=") {
		return true
	}
	_ = fits
	return false
}

func (svsStream) Tag(lines, outs []string) (bool, []string) {
	var tags []string
	nt := false
	for i, l := range lines {
		f := fields(l)
		if len(f) != 5 {
			continue
		}
		o := ""
		if i < len(outs) {
			o = outs[i]
		}
		key := f[2] + "." + f[3]
		switch {
		case o == "api-refused":
			tags = append(tags, "api-refused:"+key)
		case strings.HasPrefix(o, "api-normalised"):
			tags = append(tags, "api-normalised:"+key)
		case strings.HasSuffix(o, "back=err"):
			tags = append(tags, f[1]+"-err:"+key)
			nt = true
		case f[1] == "rt" && !strings.HasSuffix(o, "back="+f[4]) && !strings.HasSuffix(o, "back=keep"):
			tags = append(tags, "rt-changed:"+key)
			nt = true
		default:
			tags = append(tags, f[1]+"-ok")
		}
	}
	return nt, tags
}

// ---------------------------------------------------------------------------------------------
// generation

var svsIntBoundaries = []int{0, 1, 2, 7, 8, 63, 64, 255, 1<<31 - 1, 1 << 31, 1<<32 - 1, 1 << 32, 1<<32 + 1, -1, -2, -(1 << 31), -(1 << 31) - 1,
	1 << 53, -(1 << 53), 1 << 62, -(1 << 62), math.MaxInt64, math.MinInt64}

var svsFloats = []float64{0, math.Copysign(0, -1), 1, -1, 0.1, math.Pi, math.MaxFloat64, -math.MaxFloat64, math.SmallestNonzeroFloat64,
	math.Inf(1), math.Inf(-1), 1 << 53, 1<<53 + 2, 4294967296, -2147483649}

var svsStrings = []string{"", "a", "x_y", "é", "日本", "\"q\"", "a|b", "name-with-a-long-tail-0123456789", "\\n", "%d", "𝄞"}

func svsSafe(key string, v int) bool {
	if svsFields[key].resource {
		return v <= 64
	}
	return true
}

func svsLines(key string, r *rand.Rand, n int) []string {
	info := svsFields[key]
	mf := strings.SplitN(key, ".", 2)
	pre := "svs rt " + mf[0] + " " + mf[1] + " "
	prl := "svs ld " + mf[0] + " " + mf[1] + " "
	var out []string
	switch info.kind {
	case 'i':
		var vals []int
		if r == nil {
			vals = svsIntBoundaries
		} else {
			for i := 0; i < n; i++ {
				switch r.Intn(4) {
				case 0:
					vals = append(vals, int(r.Uint64()))
				case 1:
					vals = append(vals, pick(r, svsIntBoundaries...)+r.Intn(5)-2)
				case 2:
					vals = append(vals, r.Intn(1<<16)-(1<<8))
				default:
					vals = append(vals, int(int32(r.Uint32()))*(1+r.Intn(3)))
				}
			}
		}
		for _, v := range vals {
			if !svsLoadOnly[key] && svsSafe(key, v) {
				out = append(out, pre+svsI(v))
			}
			// the load side: the wire value with the same low 32 bits
			if info.conv == "i32" {
				out = append(out, prl+svsJ(int32(v)))
			} else if !info.resource || uint32(v) <= 64 {
				out = append(out, prl+svsU(uint32(v)))
			}
		}
	case 'u':
		vals := []uint32{0, 1, 2, 255, 1<<11 - 1, 1 << 11, 1<<29 - 1, 1 << 29, 1<<31 - 1, 1 << 31, 1<<32 - 1}
		if r != nil {
			vals = nil
			for i := 0; i < n; i++ {
				vals = append(vals, r.Uint32()>>uint(r.Intn(32)))
			}
		}
		for _, v := range vals {
			out = append(out, pre+svsI(int(v)), prl+svsU(v))
		}
	case 'f':
		vals := svsFloats
		if r != nil {
			vals = nil
			for i := 0; i < n; i++ {
				vals = append(vals, math.Float64frombits(r.Uint64()))
			}
		}
		for _, v := range vals {
			if v != v {
				continue // NaN: the constructors compare, nothing to learn about the transfer
			}
			out = append(out, pre+svsF(v), prl+svsF(v))
		}
	case 's':
		for _, v := range svsStrings {
			if r != nil {
				v = v + strconv.Itoa(r.Intn(1000))
			}
			out = append(out, pre+svsS(v), prl+svsS(v))
		}
	case 'b':
		out = append(out, pre+"b0", pre+"b1", prl+"b0", prl+"b1")
	case 't':
		for _, nm := range info.names {
			out = append(out, pre+"t"+nm)
		}
	}
	return out
}

// Exhaustive: every covered field with every boundary value (one script per field).
func (svsStream) Exhaustive(tier string) [][]string {
	var res [][]string
	for _, k := range svsKeys {
		res = append(res, svsLines(k, nil, 0))
	}
	return res
}

func (svsStream) Gen(r *rand.Rand, tier string, idx int) []string {
	k := svsKeys[idx%len(svsKeys)]
	n := 6
	if tier == "thorough" {
		n = 12
	}
	return svsLines(k, r, n)
}
