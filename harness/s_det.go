package main

import (
	"bytes"
	"math/rand"
	"os"
	"path/filepath"
	"runtime"
	"sort"
	"strings"

	"github.com/squadracorsepolito/acmelib"
)

// stream det — C15, oracle lines only (no model side): exports are functions of the model.
//
//	oracle det <seed> <variant>
//
// builds the network of (seed, variant) — with several enums / types / units / attributes /
// CAN-ID builders of EQUAL names and sizes and a static and a generated message id that coincide
// within one interface, so that every sort of the export paths meets ties on its primary key —
// and checks on the real code that
//   - 12 exports of every bus to DBC, of the network to Markdown and to the wire encoding are
//     byte-identical, also under GOMAXPROCS 1, 2 and NumCPU              (c15-nondeterministic:<dbc|md|wire>)
//   - the network loaded back from the saved wire bytes (the same entities, constructed in the
//     loader's order instead of the generator's) exports the same bytes   (c15-build-order:<dbc|md|wire>)
//   - ExportNetwork writes the same files twice, equal to ExportBus       (c15-nondeterministic:files, c15-files-differ)

type detStream struct{ baseStream }

func init() { register(detStream{}) }

func (detStream) Name() string    { return "det" }
func (detStream) Props() []string { return []string{"C15"} }

const detVariants = 5

func detOpts(variant int) genOpts {
	switch variant {
	case 0:
		return genOpts{dbcSafe: true, maxNest: 1}
	case 1:
		return genOpts{dbcSafe: true, maxNest: 1, manyEqual: true}
	case 2:
		return genOpts{maxNest: 2, manyEqual: true}
	case 3:
		return genOpts{maxNest: 2, manyEqual: true, bigNames: true}
	}
	return genOpts{maxNest: 3, manyEqual: true}
}

func detBuild(seed int64, variant int) *genNet {
	o := detOpts(variant)
	g, r := safeBuildNetwork(seed, o)
	if variant >= 1 {
		mdExtras(g, r, o, 3) // definitions that tie on (size, name) / name, referenced in every order
		detExtras(g, r, o)
	}
	return g
}

func detExtras(g *genNet, r *rand.Rand, o genOpts) {
	if len(g.buses) == 0 {
		return
	}
	// attributes of equal names (and of different types), assigned to entities of every kind
	a1 := acmelib.NewStringAttribute("tie_attr", "x")
	a2 := acmelib.NewStringAttribute("tie_attr", "y")
	a3, err := acmelib.NewIntegerAttribute("tie_attr", 1, 0, 10)
	must(err)
	ties := []acmelib.Attribute{a1, a2, a3}
	g.attrs = append(g.attrs, ties...)
	assignTies := func(x interface {
		AssignAttribute(acmelib.Attribute, any) error
	}) {
		for _, k := range r.Perm(len(ties)) {
			if r.Intn(4) == 0 {
				continue
			}
			if ties[k].Type() == acmelib.AttributeTypeInteger {
				must(x.AssignAttribute(ties[k], r.Intn(10)))
			} else {
				must(x.AssignAttribute(ties[k], pick(r, "p", "q")))
			}
		}
	}
	for _, b := range g.buses {
		assignTies(b)
		// CAN-ID builders of equal names on different buses
		if r.Intn(2) == 0 {
			cb := acmelib.NewCANIDBuilder("tie_builder")
			cb.UseMessagePriority(9).UseMessageID(4, 5).UseNodeID(0, 4)
			b.SetCANIDBuilder(cb)
			g.builders = append(g.builders, cb)
		}
	}
	for _, n := range g.nodes {
		if r.Intn(2) == 0 {
			assignTies(n)
		}
	}
	for _, m := range g.msgs {
		if r.Intn(3) == 0 {
			assignTies(m)
		}
	}
	for _, s := range g.sigs {
		if r.Intn(6) == 0 {
			assignTies(s)
		}
	}

	// a static and a generated message id that coincide within one interface
	bus := g.buses[r.Intn(len(g.buses))]
	node := acmelib.NewNode(g.name(r, "dnode", o), acmelib.NodeID(230+r.Intn(10)), 1)
	g.nodes = append(g.nodes, node)
	ni := node.Interfaces()[0]
	must(bus.AddNodeInterface(ni))
	id := 40 + r.Intn(40)
	mGen := acmelib.NewMessage(g.name(r, "tie_gen", o), acmelib.MessageID(id), 8)
	mStat := acmelib.NewMessage(g.name(r, "tie_stat", o), acmelib.MessageID(2000), 8)
	must(mStat.SetStaticCANID(acmelib.CANID(id)))
	both := []*acmelib.Message{mGen, mStat}
	for _, k := range r.Perm(2) {
		must(ni.AddSentMessage(both[k]))
		g.msgs = append(g.msgs, both[k])
	}
	if t := g.types[5]; true { // 8 bits
		for _, m := range both {
			s, err := acmelib.NewStandardSignal(g.name(r, "ds", o), t)
			must(err)
			must(m.AppendSignal(s))
			g.sigs = append(g.sigs, s)
		}
	}
	// receivers of equal node ids cannot exist on one bus; receivers in both insertion orders
	for _, other := range bus.NodeInterfaces() {
		if other.Node() != node && r.Intn(2) == 0 {
			must(mGen.AddReceiver(other))
		}
	}

	// node ids (and names) are unique within ONE bus only: a further bus whose own nodes repeat
	// the ids and names of nodes of the other buses (every bus has its own "gateway 1")
	twin := acmelib.NewBus(g.name(r, "twin_bus", o))
	must(g.net.AddBus(twin))
	g.buses = append(g.buses, twin)
	seenID := map[acmelib.NodeID]bool{}
	for _, n := range append([]*acmelib.Node{}, g.nodes...) {
		if seenID[n.ID()] || r.Intn(3) == 0 {
			continue
		}
		seenID[n.ID()] = true
		tn := acmelib.NewNode(n.Name(), n.ID(), 1)
		if twin.AddNodeInterface(tn.Interfaces()[0]) != nil {
			continue
		}
		g.nodes = append(g.nodes, tn)
		if r.Intn(2) == 0 {
			m := acmelib.NewMessage(g.name(r, "twin_msg", o), acmelib.MessageID(300+len(g.msgs)), 1+r.Intn(8))
			if tn.Interfaces()[0].AddSentMessage(m) == nil {
				g.msgs = append(g.msgs, m)
			}
		}
	}
}

func (detStream) Gen(r *rand.Rand, tier string, idx int) []string {
	return []string{sprintf("oracle det %d %d", r.Int63n(1<<40), idx%detVariants)}
}

func (detStream) Tag(lines, outs []string) (bool, []string) {
	tags := []string{}
	for i, l := range lines {
		f := fields(l)
		if len(f) == 4 {
			tags = append(tags, "det:v"+f[3], "det:"+fields(outs[i] + " ?")[0])
		}
	}
	return true, tags
}

type detExec struct{ fs []Finding }

func (detStream) NewExec() Exec        { return &detExec{} }
func (e *detExec) Findings() []Finding { return e.fs }

func (e *detExec) add(sig, detail string) {
	if len(detail) > 700 {
		detail = detail[:700] + "…"
	}
	e.fs = append(e.fs, Finding{Prop: "C15", Sig: sig, Detail: detail})
}

// detOut is one export of everything.
type detOut struct {
	dbc  [][]byte // per bus, in Buses() order
	md   []byte
	wire []byte
	err  string
}

func detExport(net *acmelib.Network) (out detOut) {
	defer func() {
		if p := recover(); p != nil {
			out.err = sprintf("panic: %v", p)
		}
	}()
	for _, b := range net.Buses() {
		var buf bytes.Buffer
		acmelib.ExportBus(&buf, b)
		out.dbc = append(out.dbc, buf.Bytes())
	}
	var md bytes.Buffer
	if err := acmelib.ExportToMarkdown(net, &md); err != nil {
		out.err = "markdown: " + err.Error()
	}
	out.md = md.Bytes()
	var wire bytes.Buffer
	if err := acmelib.SaveNetwork(net, acmelib.SaveEncodingWire, &wire, nil, nil); err != nil {
		out.err = "save: " + err.Error()
	}
	out.wire = wire.Bytes()
	return out
}

// detDiff describes the first difference of two outputs (line numbers for text, offset for wire).
func detDiff(a, b []byte, text bool) string {
	if bytes.Equal(a, b) {
		return ""
	}
	if !text {
		n := min(len(a), len(b))
		i := 0
		for i < n && a[i] == b[i] {
			i++
		}
		return sprintf("lengths %d / %d, first difference at byte %d", len(a), len(b), i)
	}
	la, lb := strings.Split(string(a), "\n"), strings.Split(string(b), "\n")
	var diffs []int
	for i := 0; i < max(len(la), len(lb)) && len(diffs) < 2; i++ {
		x, y := "<none>", "<none>"
		if i < len(la) {
			x = la[i]
		}
		if i < len(lb) {
			y = lb[i]
		}
		if x != y {
			diffs = append(diffs, i+1)
		}
	}
	i := diffs[0] - 1
	x, y := "<none>", "<none>"
	if i < len(la) {
		x = la[i]
	}
	if i < len(lb) {
		y = lb[i]
	}
	return sprintf("lines %v differ; line %d: %q / %q", diffs, i+1, x, y)
}

// compare reports the differences of an export against the reference one.
func (e *detExec) compare(sigPrefix, ctx string, ref, got detOut, seen map[string]bool) {
	report := func(kind, d string) {
		if d != "" && !seen[sigPrefix+kind] {
			seen[sigPrefix+kind] = true
			e.add(sigPrefix+kind, ctx+": "+d)
		}
	}
	if got.err != ref.err {
		report("error", sprintf("%q / %q", ref.err, got.err))
	}
	if len(got.dbc) != len(ref.dbc) {
		report("dbc", sprintf("%d / %d buses", len(ref.dbc), len(got.dbc)))
	} else {
		for i := range ref.dbc {
			report("dbc", detDiff(ref.dbc[i], got.dbc[i], true))
		}
	}
	report("md", detDiff(ref.md, got.md, true))
	report("wire", detDiff(ref.wire, got.wire, false))
}

func (e *detExec) Do(line string) string {
	f := fields(line)
	if len(f) != 4 || f[0] != "oracle" || f[1] != "det" {
		return "bad-op"
	}
	seed, variant := int64(atoi(f[2])), atoi(f[3])
	g := detBuild(seed, variant)
	ctx := sprintf("seed=%d variant=%d", seed, variant)
	seen := map[string]bool{}

	ref := detExport(g.net)
	if ref.err != "" {
		e.add("c15-export-error", ctx+": "+ref.err)
	}
	// 1. repetitions
	for i := 1; i < 12; i++ {
		e.compare("c15-nondeterministic:", sprintf("%s run %d vs run 0", ctx, i), ref, detExport(g.net), seen)
	}
	// 2. number of CPUs
	func() {
		prev := runtime.GOMAXPROCS(0)
		defer runtime.GOMAXPROCS(prev)
		for _, p := range []int{1, 2, runtime.NumCPU()} {
			runtime.GOMAXPROCS(p)
			for i := 0; i < 4; i++ {
				e.compare("c15-nondeterministic:", sprintf("%s GOMAXPROCS=%d run %d vs run 0", ctx, p, i), ref, detExport(g.net), seen)
			}
		}
	}()
	// 3. the equal model constructed in another order
	func() {
		defer func() {
			if p := recover(); p != nil {
				e.add("c15-build-order:load-panic", sprintf("%s: %v", ctx, p))
			}
		}()
		loaded, err := acmelib.LoadNetwork(bytes.NewReader(ref.wire), acmelib.SaveEncodingWire)
		if err != nil {
			e.add("c15-build-order:load-error", ctx+": "+err.Error())
			return
		}
		for i := 0; i < 3; i++ {
			e.compare("c15-build-order:", sprintf("%s loaded network (export %d) vs original", ctx, i), ref, detExport(loaded), seen)
		}
	}()
	// 4. ExportNetwork: one file per bus, written concurrently
	e.files(g, ctx, ref, seen)

	// 5. the exports are functions of the CURRENT model, not of what was exported before: every
	//    node gets a new name (reversing the name order) and, where the bus allows it, a new id
	//    (reversing the id order); the edited network must export exactly like the equal network
	//    built from scratch (loaded from its own save)
	func() {
		defer func() {
			if p := recover(); p != nil {
				e.add("c15-stale-after-edit:panic", sprintf("%s: %v", ctx, p))
			}
		}()
		nodes := append([]*acmelib.Node{}, g.nodes...)
		sort.Slice(nodes, func(i, j int) bool {
			if nodes[i].Name() != nodes[j].Name() {
				return nodes[i].Name() < nodes[j].Name()
			}
			return nodes[i].EntityID() < nodes[j].EntityID()
		})
		edits := 0
		for i, n := range nodes {
			if n.UpdateName(sprintf("r%03d_%s", len(nodes)-i, n.Name())) == nil {
				edits++
			}
			if n.UpdateID(acmelib.NodeID(900-i)) == nil {
				edits++
			}
		}
		// every other sort key that has an updater: message ids (the order of an interface's sent
		// messages) and message names, bus names, signal names, enum names and value names, builder
		// names — each in an order-reversing way, AFTER the listings above have been asked for
		msgs := append([]*acmelib.Message{}, g.msgs...)
		sort.Slice(msgs, func(i, j int) bool {
			if msgs[i].ID() != msgs[j].ID() {
				return msgs[i].ID() < msgs[j].ID()
			}
			return msgs[i].EntityID() < msgs[j].EntityID()
		})
		for i, m := range msgs {
			if variant%2 == 0 && m.UpdateID(acmelib.MessageID(1900-i)) == nil {
				edits++
			}
			if m.UpdateName(sprintf("r%03d_%s", len(msgs)-i, m.Name())) == nil {
				edits++
			}
		}
		for i, b := range g.buses {
			if b.UpdateName(sprintf("r%03d_%s", len(g.buses)-i, b.Name())) == nil {
				edits++
			}
		}
		for i, sg := range g.sigs {
			if seed%2 == 0 && sg.UpdateName(sprintf("r%03d_%s", len(g.sigs)-i, sg.Name())) == nil {
				edits++
			}
		}
		for i, en := range g.enums {
			en.UpdateName(sprintf("r%03d_%s", len(g.enums)-i, en.Name()))
			edits++
			vals := en.Values()
			for k, v := range vals {
				if v.UpdateName(sprintf("r%03d_%s", len(vals)-k, v.Name())) == nil {
					edits++
				}
			}
		}
		for i, cb := range g.builders {
			if cb.UpdateName(sprintf("r%03d_%s", len(g.builders)-i, cb.Name())) == nil {
				edits++
			}
		}
		if edits == 0 {
			return
		}
		ref2 := detExport(g.net)
		if ref2.err != "" {
			return
		}
		loaded2, err := acmelib.LoadNetwork(bytes.NewReader(ref2.wire), acmelib.SaveEncodingWire)
		if err != nil {
			e.add("c15-stale-after-edit:load-error", ctx+": "+err.Error())
			return
		}
		e.compare("c15-stale-after-edit:", sprintf("%s after renaming / renumbering %d nodes and the messages, buses, signals, enums, values, builders: edited network vs the equal network loaded from its save", ctx, len(nodes)), ref2, detExport(loaded2), seen)
	}()

	// 6. the sorts of the exports lean on unique keys (node ids and names per bus): an edit that
	//    a bus REFUSES must leave every key where it was.  A node on several buses is given the id
	//    (then the name) of a node it shares one of them with; after the refusal no bus of the node
	//    may accept a newcomer with the node's id / name — where one does, two entries tie in a
	//    sort and the repeated exports of the (now unchanged) model are compared
	func() {
		defer func() {
			if p := recover(); p != nil {
				e.add("c15-unique-key-lost:panic", sprintf("%s: %v", ctx, p))
			}
		}()
		probes := 0
		for _, a := range g.nodes {
			var buses []*acmelib.Bus
			for _, ni := range a.Interfaces() {
				if b := ni.ParentBus(); b != nil {
					buses = append(buses, b)
				}
			}
			if len(buses) < 2 {
				continue
			}
			oldID, oldName := a.ID(), a.Name()
			for _, bus := range buses {
				for _, oi := range bus.NodeInterfaces() {
					o := oi.Node()
					if o == a {
						continue
					}
					idRefused := a.UpdateID(o.ID()) != nil
					nameRefused := a.UpdateName(o.Name()) != nil
					if !idRefused {
						_ = a.UpdateID(oldID)
					}
					if !nameRefused {
						_ = a.UpdateName(oldName)
					}
					for _, b2 := range buses {
						probes++
						var lost []string
						if idRefused {
							pn := acmelib.NewNode(sprintf("zz_probe_%d", probes), oldID, 1)
							if b2.AddNodeInterface(pn.Interfaces()[0]) == nil {
								lost = append(lost, sprintf("id %d", oldID))
							}
						}
						if nameRefused {
							pn := acmelib.NewNode(oldName, acmelib.NodeID(3000+probes), 1)
							if b2.AddNodeInterface(pn.Interfaces()[0]) == nil {
								lost = append(lost, sprintf("name %q", oldName))
							}
						}
						if len(lost) > 0 {
							e.add("c15-unique-key-lost", sprintf("%s: node %q: an UpdateID / UpdateName refused by bus %q left %v free on bus %q: a second node took it", ctx, oldName, bus.Name(), lost, b2.Name()))
							ref3 := detExport(g.net)
							for i := 1; i < 12; i++ {
								e.compare("c15-nondeterministic:", sprintf("%s with two nodes sharing %v, run %d vs run 0", ctx, lost, i), ref3, detExport(g.net), seen)
							}
							return
						}
					}
					break
				}
			}
		}
	}()

	// 7. the value tables are sorted by index alone, which leans on unique indexes: a value that moved
	//    to another index keeps that index taken — a newcomer with the same index must be refused;
	//    where it is not, two values tie and the repeated exports are compared
	func() {
		defer func() {
			if p := recover(); p != nil {
				e.add("c15-unique-key-lost:panic", sprintf("%s: %v", ctx, p))
			}
		}()
		for ei, en := range g.enums {
			vals := en.Values()
			if len(vals) < 2 {
				continue
			}
			taken := map[int]bool{}
			for _, v := range vals {
				taken[v.Index()] = true
			}
			mover := vals[0] // not the highest one: the width of the enum stays what it is
			target := -1
			for k := 0; k < vals[len(vals)-1].Index(); k++ {
				if !taken[k] {
					target = k
					break
				}
			}
			if target < 0 || mover.UpdateIndex(target) != nil {
				continue
			}
			nv := acmelib.NewSignalEnumValue(sprintf("zz_dup_%d", ei), target)
			if en.AddValue(nv) == nil {
				e.add("c15-unique-key-lost", sprintf("%s: enum %q: value %q was moved to index %d, and a new value with index %d was accepted as well", ctx, en.Name(), mover.Name(), target, target))
				ref4 := detExport(g.net)
				for i := 1; i < 12; i++ {
					e.compare("c15-nondeterministic:", sprintf("%s with two values of enum %q at index %d, run %d vs run 0", ctx, en.Name(), target, i), ref4, detExport(g.net), seen)
				}
				return
			}
		}
	}()

	if len(seen) > 0 || ref.err != "" {
		keys := make([]string, 0, len(seen))
		for k := range seen {
			keys = append(keys, k)
		}
		sort.Strings(keys)
		return "diff " + strings.Join(keys, ",")
	}
	return "ok"
}

// exportNetworkFiles runs ExportNetwork into a fresh directory under /verif/build and returns the
// files (name → content); the directory is removed afterwards.
func exportNetworkFiles(net *acmelib.Network) (files map[string][]byte, err error) {
	if err := os.MkdirAll("/verif/build", 0o755); err != nil {
		return nil, err
	}
	dir, err := os.MkdirTemp("/verif/build", "exportnet-")
	if err != nil {
		return nil, err
	}
	defer func() {
		// the network directory is created with mode 0666: make it searchable before removing
		filepath.Walk(dir, func(p string, info os.FileInfo, err error) error {
			if err == nil && info.IsDir() {
				os.Chmod(p, 0o755)
			}
			return nil
		})
		os.RemoveAll(dir)
	}()
	if err := acmelib.ExportNetwork(net, dir); err != nil {
		return nil, err
	}
	files = map[string][]byte{}
	err = filepath.Walk(dir, func(p string, info os.FileInfo, werr error) error {
		if werr != nil {
			return werr
		}
		if info.IsDir() {
			return nil
		}
		b, rerr := os.ReadFile(p)
		if rerr != nil {
			return rerr
		}
		rel, _ := filepath.Rel(dir, p)
		files[rel] = b
		return nil
	})
	return files, err
}

func (e *detExec) files(g *genNet, ctx string, ref detOut, seen map[string]bool) {
	defer func() {
		if p := recover(); p != nil {
			seen["c15-files-panic"] = true
			e.add("c15-files-panic", sprintf("%s: %v", ctx, p))
		}
	}()
	// the per-bus workers of ExportNetwork under several CPU counts (fewer CPUs than buses,
	// a bus count that is not a multiple of the CPU count, one CPU): every file must be the
	// ExportBus output of its bus
	prevProcs := runtime.GOMAXPROCS(0)
	for _, procs := range []int{1, 2, 3} {
		runtime.GOMAXPROCS(procs)
		fp, err := exportNetworkFiles(g.net)
		runtime.GOMAXPROCS(prevProcs)
		if err != nil {
			if !seen["c15-files-error"] {
				seen["c15-files-error"] = true
				e.add("c15-files-error", sprintf("%s: ExportNetwork under GOMAXPROCS=%d: %v", ctx, procs, err))
			}
			continue
		}
		for i, b := range g.net.Buses() {
			if i >= len(ref.dbc) {
				break
			}
			found := false
			for _, content := range fp {
				found = found || bytes.Equal(content, ref.dbc[i])
			}
			if !found && !seen["c15-files-differ"] {
				seen["c15-files-differ"] = true
				e.add("c15-files-differ", sprintf("%s: GOMAXPROCS=%d, %d buses: no file holds the ExportBus output of bus %q", ctx, procs, len(g.net.Buses()), b.Name()))
			}
		}
	}
	f1, err := exportNetworkFiles(g.net)
	if err != nil {
		seen["c15-files-error"] = true
		e.add("c15-files-error", ctx+": ExportNetwork: "+err.Error())
		return
	}
	f2, err := exportNetworkFiles(g.net)
	if err != nil {
		seen["c15-files-error"] = true
		e.add("c15-files-error", ctx+": ExportNetwork (second): "+err.Error())
		return
	}
	if len(f1) != len(f2) {
		seen["c15-nondeterministic:files"] = true
		e.add("c15-nondeterministic:files", sprintf("%s: %d / %d files", ctx, len(f1), len(f2)))
	}
	for name, a := range f1 {
		if d := detDiff(a, f2[name], true); d != "" && !seen["c15-nondeterministic:files"] {
			seen["c15-nondeterministic:files"] = true
			e.add("c15-nondeterministic:files", sprintf("%s: %s: %s", ctx, name, d))
		}
	}
	// every file is what ExportBus writes for its bus
	buses := g.net.Buses()
	if len(f1) != len(buses) && !seen["c15-files-differ"] {
		seen["c15-files-differ"] = true
		var names []string
		for n := range f1 {
			names = append(names, n)
		}
		sort.Strings(names)
		e.add("c15-files-differ", sprintf("%s: %d buses but files %v", ctx, len(buses), names))
	}
	for i, b := range buses {
		if i >= len(ref.dbc) {
			break
		}
		found := false
		for _, content := range f1 {
			if bytes.Equal(content, ref.dbc[i]) {
				found = true
			}
		}
		if !found && !seen["c15-files-differ"] {
			seen["c15-files-differ"] = true
			e.add("c15-files-differ", sprintf("%s: no file holds the ExportBus output of bus %q", ctx, b.Name()))
		}
	}
}
