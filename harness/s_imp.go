package main

import (
	"bytes"
	"encoding/json"
	"errors"
	"math/rand"
	"os"
	"sort"
	"strings"

	"github.com/squadracorsepolito/acmelib"
	"github.com/squadracorsepolito/acmelib/dbc"
)

// stream imp — C10 / C11 at MESSAGE level: the model Acme.Import (importMessage /
// importMuxSignal and exportMessage / exportSignal / exportMultiplexerSignal as wholes, for
// the structure of one message) against the real importer and exporter.
//
//	imp import <dmsg-json>   the message is written as DBC text by the real writer (one bus, one
//	                         node, one message, its SG_MUL_VAL_ entries), read by ImportDBCFile and
//	                         the imported message is walked through its getters (the registry of
//	                         a multiplexer — fixed signals, group ids — by read-only reflection)
//	imp export <itree-json>  the message is built through the public API (NewMessage,
//	                         NewStandardSignal, NewMultiplexerSignal, InsertSignal …), written by
//	                         ExportBus, parsed back by dbc.Parse and the message is rendered
//
// JSON and renderings: see lean/Acme/Driver/Import.lean.  Every line is stateless.
//
// Nested multiplexors (a multiplexor with an extended entry of its own) are part of the model:
// a child that is a multiplexer is rendered with its own body in braces, at any depth; trees for
// `imp export` may carry `"sub":{gc,gs,ch}` children.  The messages of the fixture
// /repo/testdata/expected.dbc (which holds a nested multiplexor) are corpus cases (Exhaustive).
// Lines that import the output of a real export are only generated up to 12 signals: the Go sort
// of the signals is stable only up to 12 elements, the model sorts stably.
//
// Oracle findings (Go side only, property C11): after `imp export`, the exported text is
// imported again and the structure is compared with the built one —
// "c11-msg:<class>" where class names what changed: reimport-refused:<cause> (D54, D76; for nested
// multiplexers `precede` when the nested multiplexor's written start bit is smaller than its
// parent's — big endian only — and `groupSizeZero` when it is then the parent's only child),
// group-size (the multiplexer's SIZE changes when no child ends at the last bit of the group),
// top, children.  Two further classes are NOT violations of C11 (which speaks of the selector
// WIDTH and of group MEMBERSHIP): group-count (a group count that is not a power of two comes back
// rounded up) and fixed (a child listed for every group comes back as fixed); they are appended
// to the Go answer as ` ##c11:<class>` (ignored by the comparison, `Same`) and counted as tags
// `export:c11:<class>` in the histogram.  Property C10: "c10-msg:<class>" when an accepted import
// does not contain every signal of the file exactly once at the position the file states
// (dropped:<why>, position, zero-selector) — since /repo 6b610c4 these must never fire.

type impStream struct{ baseStream }

func init() { register(impStream{}) }

func (impStream) Name() string    { return "imp" }
func (impStream) Props() []string { return []string{"C10", "C11"} }
func (impStream) Parallel() bool  { return true }

// the Go answer may carry an annotation ` ##…` that has no model side
func impStripNote(a string) string {
	if i := strings.Index(a, " ##"); i >= 0 {
		return a[:i]
	}
	return a
}

func (impStream) Same(a, b string) bool { return impStripNote(a) == impStripNote(b) }

// ---- JSON ----------------------------------------------------------------------------

type jDSig struct {
	N  string `json:"n"`
	S  uint32 `json:"s"`
	Z  uint32 `json:"z"`
	BE int    `json:"be"`
	Mr int    `json:"mr"`
	Md int    `json:"md"`
	K  uint32 `json:"k"`
}

type jDExt struct {
	X string      `json:"x"`
	D string      `json:"d"`
	R [][2]uint32 `json:"r"`
}

type jDMsg struct {
	ID   uint32  `json:"id"`
	Size uint32  `json:"size"`
	Sigs []jDSig `json:"sigs"`
	Ext  []jDExt `json:"ext"`
}

type jChild struct {
	N   string `json:"n"`
	R   int    `json:"r"`
	Z   int    `json:"z"`
	G   []int  `json:"g"`
	Sub *jSub  `json:"sub,omitempty"` // the child is a multiplexer
}

type jSub struct {
	GC int      `json:"gc"`
	GS int      `json:"gs"`
	Ch []jChild `json:"ch"`
}

type jItem struct {
	T  string   `json:"t"`
	N  string   `json:"n"`
	S  int      `json:"s"`
	Z  int      `json:"z,omitempty"`
	GC int      `json:"gc,omitempty"`
	GS int      `json:"gs,omitempty"`
	Ch []jChild `json:"ch,omitempty"`
}

type jTree struct {
	ID   uint32  `json:"id"`
	Size int     `json:"size"`
	BE   int     `json:"be"`
	Top  []jItem `json:"top"`
}

func impCanonMsg(m *jDMsg) {
	if m.Sigs == nil {
		m.Sigs = []jDSig{}
	}
	if m.Ext == nil {
		m.Ext = []jDExt{}
	}
	for i := range m.Ext {
		if m.Ext[i].R == nil {
			m.Ext[i].R = [][2]uint32{}
		}
	}
}

func impCanonKids(ch []jChild) []jChild {
	if ch == nil {
		ch = []jChild{}
	}
	for k := range ch {
		if ch[k].G == nil {
			ch[k].G = []int{}
		}
		if ch[k].Sub != nil {
			ch[k].Sub.Ch = impCanonKids(ch[k].Sub.Ch)
		}
	}
	return ch
}

func impCanonTree(t *jTree) {
	if t.Top == nil {
		t.Top = []jItem{}
	}
	for i := range t.Top {
		if t.Top[i].T == "m" {
			t.Top[i].Ch = impCanonKids(t.Top[i].Ch)
		}
	}
}

func impEncKids(chs []jChild) string {
	var ch []string
	for _, c := range chs {
		if c.Sub != nil {
			ch = append(ch, sprintf(`{"n":%q,"r":%d,"g":%s,"sub":{"gc":%d,"gs":%d,"ch":%s}}`, c.N, c.R, mxInts(c.G), c.Sub.GC, c.Sub.GS, impEncKids(c.Sub.Ch)))
			continue
		}
		ch = append(ch, sprintf(`{"n":%q,"r":%d,"z":%d,"g":%s}`, c.N, c.R, c.Z, mxInts(c.G)))
	}
	return listStr(ch)
}

// the Lean side reads every key: no omitempty on the wire
func impEncTree(t *jTree) string {
	impCanonTree(t)
	var items []string
	for _, it := range t.Top {
		if it.T == "s" {
			items = append(items, sprintf(`{"t":"s","n":%q,"s":%d,"z":%d}`, it.N, it.S, it.Z))
			continue
		}
		items = append(items, sprintf(`{"t":"m","n":%q,"s":%d,"gc":%d,"gs":%d,"ch":%s}`, it.N, it.S, it.GC, it.GS, impEncKids(it.Ch)))
	}
	return sprintf(`{"id":%d,"size":%d,"be":%d,"top":%s}`, t.ID, t.Size, t.BE, listStr(items))
}

func impEncMsg(m *jDMsg) string {
	impCanonMsg(m)
	return encJSON(m)
}

// ---- the real code: import --------------------------------------------------------------

func impConv(s int) int { return s + 7 - 2*(s%8) }

func impPos(s jDSig) int {
	if s.BE != 0 {
		return impConv(int(s.S))
	}
	return int(s.S)
}

func impFile(m *jDMsg) *dbc.File {
	f := &dbc.File{Nodes: &dbc.Nodes{Names: []string{"n"}}}
	dm := &dbc.Message{ID: m.ID, Name: "m", Size: m.Size, Transmitter: "n"}
	for _, s := range m.Sigs {
		ds := &dbc.Signal{
			Name: s.N, IsMultiplexor: s.Mr != 0, IsMultiplexed: s.Md != 0, MuxSwitchValue: s.K,
			Size: s.Z, StartBit: s.S, ByteOrder: dbc.SignalLittleEndian, ValueType: dbc.SignalUnsigned,
			Factor: 1, Offset: 0, Min: 0, Max: 0, Receivers: []string{dbc.DummyNode},
		}
		if s.BE != 0 {
			ds.ByteOrder = dbc.SignalBigEndian
		}
		dm.Signals = append(dm.Signals, ds)
	}
	f.Messages = append(f.Messages, dm)
	for _, e := range m.Ext {
		de := &dbc.ExtendedMux{MessageID: m.ID, MultiplexorName: e.X, MultiplexedName: e.D}
		for _, r := range e.R {
			de.Ranges = append(de.Ranges, &dbc.ExtendedMuxRange{From: r[0], To: r[1]})
		}
		f.ExtendedMuxes = append(f.ExtendedMuxes, de)
	}
	return f
}

func impText(m *jDMsg) string {
	var b bytes.Buffer
	dbc.Write(&b, impFile(m), false)
	return b.String()
}

// impCause maps an error of the real code to the causes of Acme.Import.ImpErr.
func impCause(err error) string {
	msg := err.Error()
	var req *acmelib.ErrIsRequired
	if errors.As(err, &req) {
		return "extMuxRequired"
	}
	if strings.Contains(msg, "byte_order: should be the same") {
		return "byteOrder"
	}
	if strings.Contains(msg, "should precede the multiplexor") {
		return "precede"
	}
	sentinel := func() string {
		switch {
		case errors.Is(err, acmelib.ErrOutOfBounds):
			return "OutOfBounds"
		case errors.Is(err, acmelib.ErrIsNegative):
			return "Negative"
		case errors.Is(err, acmelib.ErrIsZero):
			return "Zero"
		case errors.Is(err, acmelib.ErrIsDuplicated):
			return "Duplicated"
		case errors.Is(err, acmelib.ErrNotFound):
			return "NotFound"
		case errors.Is(err, acmelib.ErrNoSpaceLeft):
			return "noSpaceLeft"
		case errors.Is(err, acmelib.ErrIntersect):
			return "intersect"
		case errors.Is(err, acmelib.ErrTooBig):
			return "TooBig"
		}
		return "?"
	}()
	var sb *acmelib.StartBitError
	var ss *acmelib.SignalSizeError
	var gi *acmelib.GroupIDError
	var ne *acmelib.NameError
	var ae *acmelib.ArgumentError
	var ms *acmelib.MessageSizeError
	switch {
	case errors.As(err, &sb):
		if sentinel == "intersect" {
			return "intersect"
		}
		return "start" + sentinel
	case errors.As(err, &ss):
		if sentinel == "noSpaceLeft" {
			return "noSpaceLeft"
		}
		return "size" + sentinel
	case errors.As(err, &gi):
		return "groupId" + sentinel
	case errors.As(err, &ne):
		return "name" + sentinel
	case errors.As(err, &ae):
		return ae.Name + sentinel
	case errors.As(err, &ms):
		return "msg" + sentinel
	}
	return "other:" + eiFirst(msg, 60)
}

func impSortedSigs(m *jDMsg) []jDSig {
	s := append([]jDSig{}, m.Sigs...)
	sort.SliceStable(s, func(a, b int) bool { return s[a].S < s[b].S })
	return s
}

func impFindExt(m *jDMsg, name string) *jDExt {
	var res *jDExt
	for i := range m.Ext {
		if m.Ext[i].D == name {
			res = &m.Ext[i]
		}
	}
	return res
}

type impChildV struct {
	name      string
	rel, abs  int
	size      int
	fixed     bool
	ids       []int
	hasIDs    bool
	inGroups  []int
	nestedMux bool
	sub       *acmelib.MultiplexerSignal
}

func impChildren(mux *acmelib.MultiplexerSignal) []impChildV {
	sigs := mxSetMap(mux, "signals")
	fixed := mxSetMap(mux, "fixedSignals")
	gids := mxSetMap(mux, "signalGroupIDs")
	var res []impChildV
	it := sigs.MapRange()
	for it.Next() {
		sig := it.Value().Interface().(acmelib.Signal)
		c := impChildV{name: sig.Name(), rel: sig.GetRelativeStartPos(), abs: sig.GetStartBit(), size: sig.GetSize(),
			nestedMux: sig.Kind() == acmelib.SignalKindMultiplexer}
		if c.nestedMux {
			c.sub, _ = sig.ToMultiplexer()
		}
		if fixed.MapIndex(it.Key()).IsValid() {
			c.fixed = true
		}
		if v := gids.MapIndex(it.Key()); v.IsValid() {
			c.hasIDs = true
			c.ids = append([]int{}, v.Interface().([]int)...)
		}
		for id, g := range mux.GetSignalGroups() {
			for _, x := range g {
				if x.EntityID() == sig.EntityID() {
					c.inGroups = append(c.inGroups, id)
				}
			}
		}
		res = append(res, c)
	}
	sort.Slice(res, func(a, b int) bool {
		if res[a].rel != res[b].rel {
			return res[a].rel < res[b].rel
		}
		return res[a].name < res[b].name
	})
	return res
}

func impIdsStr(c impChildV) string {
	switch {
	case c.fixed && !c.hasIDs:
		return "F"
	case !c.fixed && c.hasIDs && len(c.ids) > 0:
		ss := make([]string, len(c.ids))
		for i, x := range c.ids {
			ss[i] = sprintf("%d", x)
		}
		return strings.Join(ss, ".")
	}
	return "?"
}

// impBody renders a multiplexer: w, gc, gs, the registry of its children (a child that is a
// multiplexer carries its own body in braces) and the groups
func impBody(mux *acmelib.MultiplexerSignal) string {
	var ch []string
	for _, c := range impChildren(mux) {
		line := sprintf("%s@%d/%d+%d:%s", c.name, c.rel, c.abs, c.size, impIdsStr(c))
		if c.nestedMux {
			line += "{" + impBody(c.sub) + "}"
		}
		ch = append(ch, line)
	}
	var gs []string
	for _, g := range mux.GetSignalGroups() {
		var ns []string
		for _, x := range g {
			ns = append(ns, x.Name())
		}
		gs = append(gs, listStr(ns))
	}
	return sprintf("w=%d,gc=%d,gs=%d,ch=%s,g=%s", mux.GetGroupCountSize(), mux.GroupCount(), mux.GroupSize(), listStr(ch), listStr(gs))
}

func impRenderMsg(msg *acmelib.Message) string {
	var items []string
	for _, sig := range msg.Signals() {
		if sig.Kind() != acmelib.SignalKindMultiplexer {
			items = append(items, sprintf("s:%s@%d+%d", sig.Name(), sig.GetStartBit(), sig.GetSize()))
			continue
		}
		mux, err := sig.ToMultiplexer()
		if err != nil {
			return "err tomux"
		}
		items = append(items, sprintf("M:%s@%d+%d(%s)", mux.Name(), mux.GetStartBit(), mux.GetSize(), impBody(mux)))
	}
	be := 0
	if msg.ByteOrder() == acmelib.MessageByteOrderBigEndian {
		be = 1
	}
	return sprintf("id=%d size=%d be=%d top=%s", uint32(msg.ID()), msg.SizeByte(), be, listStr(items))
}

func impTheMsg(bus *acmelib.Bus) *acmelib.Message {
	for _, ni := range bus.NodeInterfaces() {
		for _, m := range ni.SentMessages() {
			return m
		}
	}
	return nil
}

// impImport runs the real importer; out is the line answer
func impImport(m *jDMsg) (out string, msg *acmelib.Message) {
	bus, err := acmelib.ImportDBCFile("imp", strings.NewReader(impText(m)))
	if err != nil {
		return "err " + impCause(err), nil
	}
	msg = impTheMsg(bus)
	if msg == nil {
		return "err nomsg", nil
	}
	return "ok " + impRenderMsg(msg), msg
}

// ---- the real code: export --------------------------------------------------------------

func impLeaf(name string, size int) (acmelib.Signal, error) {
	typ, err := acmelib.NewIntegerSignalType(sprintf("t%d", size), size, false)
	if err != nil {
		return nil, err
	}
	return acmelib.NewStandardSignal(name, typ)
}

// impBuild builds the message through the public API; cause != "" when a call is refused
func impBuild(t *jTree) (bus *acmelib.Bus, msg *acmelib.Message, cause string) {
	bus = acmelib.NewBus("bus")
	node := acmelib.NewNode("n", 1, 1)
	ni := node.Interfaces()[0]
	if err := bus.AddNodeInterface(ni); err != nil {
		return nil, nil, impCause(err)
	}
	msg = acmelib.NewMessage("m", acmelib.MessageID(t.ID), t.Size)
	if err := msg.SetStaticCANID(acmelib.CANID(t.ID)); err != nil {
		return nil, nil, impCause(err)
	}
	if err := ni.AddSentMessage(msg); err != nil {
		return nil, nil, impCause(err)
	}
	if t.BE != 0 {
		msg.SetByteOrder(acmelib.MessageByteOrderBigEndian)
	}
	for _, it := range t.Top {
		if it.T == "s" {
			if it.Z <= 0 {
				return nil, nil, "sizeZero"
			}
			sig, err := impLeaf(it.N, it.Z)
			if err != nil {
				return nil, nil, impCause(err)
			}
			if err := msg.InsertSignal(sig, it.S); err != nil {
				return nil, nil, impCause(err)
			}
			continue
		}
		mux, cause := impBuildMux(it.N, it.GC, it.GS, it.Ch)
		if cause != "" {
			return nil, nil, cause
		}
		if err := msg.InsertSignal(mux, it.S); err != nil {
			return nil, nil, impCause(err)
		}
	}
	return bus, msg, ""
}

// impBuildMux: NewMultiplexerSignal, then the children in call order; a child that is a
// multiplexer is completed before it is inserted
func impBuildMux(name string, gc, gs int, chs []jChild) (*acmelib.MultiplexerSignal, string) {
	mux, err := acmelib.NewMultiplexerSignal(name, gc, gs)
	if err != nil {
		return nil, impCause(err)
	}
	var built []acmelib.Signal
	for _, c := range chs {
		var sig acmelib.Signal
		if c.Sub != nil {
			sub, cause := impBuildMux(c.N, c.Sub.GC, c.Sub.GS, c.Sub.Ch)
			if cause != "" {
				return nil, cause
			}
			sig = sub
		} else {
			if c.Z <= 0 {
				return nil, "sizeZero"
			}
			leaf, err := impLeaf(c.N, c.Z)
			if err != nil {
				return nil, impCause(err)
			}
			sig = leaf
		}
		if err := mux.InsertSignal(sig, c.R, c.G...); err != nil {
			return nil, impCause(err)
		}
		built = append(built, sig)
	}
	// a refused operation leaves nothing behind: a listed leaf is offered, at ANOTHER position, to
	// two further groups of which the lower one has room there and the higher one has not; the call
	// must be refused and the tree — the leaf's own position included — stays what the model builds
	occ := func(g, from, to int, skip int, sure bool) bool { // is [from,to) taken in group g by a child other than skip
		for k, d := range chs {
			if k == skip || (sure && d.Sub != nil) {
				continue
			}
			in := len(d.G) == 0
			for _, x := range d.G {
				in = in || x == g
			}
			if !in {
				continue
			}
			dz := d.Z
			if d.Sub != nil {
				dz = gs // a nested multiplexer: treated as reaching the end of the group
			}
			if d.R < to && from < d.R+dz {
				return true
			}
		}
		return false
	}
	probes := 0
	for i, c := range chs {
		if c.Sub != nil || len(c.G) == 0 || probes >= 2 || gc > 64 {
			continue
		}
		member := map[int]bool{}
		for _, x := range c.G {
			member[x] = true
		}
	search:
		for gHigh := gc - 1; gHigh >= 1; gHigh-- {
			if member[gHigh] {
				continue
			}
			for gLow := 0; gLow < gHigh; gLow++ {
				if member[gLow] {
					continue
				}
				for _, d := range chs {
					pos := d.R
					if pos == c.R || pos < 0 || pos+c.Z > gs || !occ(gHigh, pos, pos+c.Z, i, true) || occ(gLow, pos, pos+c.Z, i, false) {
						continue
					}
					probes++
					if err := mux.InsertSignal(built[i], pos, gLow, gHigh); err == nil {
						return nil, "refused-insert-probe-accepted"
					}
					break search
				}
			}
		}
	}
	return mux, ""
}

func impRenderDMsg(m *jDMsg) string {
	var sigs []string
	for _, s := range m.Sigs {
		ind := "-"
		switch {
		case s.Md != 0 && s.Mr != 0:
			ind = sprintf("m%dM", s.K)
		case s.Md != 0:
			ind = sprintf("m%d", s.K)
		case s.Mr != 0:
			ind = "M"
		}
		bo := "L"
		if s.BE != 0 {
			bo = "B"
		}
		sigs = append(sigs, sprintf("%s:%s:%d|%d@%s", s.N, ind, s.S, s.Z, bo))
	}
	var exts []string
	for _, e := range m.Ext {
		var rs []string
		for _, r := range e.R {
			rs = append(rs, sprintf("%d-%d", r[0], r[1]))
		}
		exts = append(exts, sprintf("%s/%s:%s", e.D, e.X, strings.Join(rs, ".")))
	}
	return sprintf("id=%d size=%d sigs=%s ext=%s", m.ID, m.Size, listStr(sigs), listStr(exts))
}

// impDMsgOf reads the message with the given id off a parsed document
func impDMsgOf(f *dbc.File, id uint32) *jDMsg {
	res := &jDMsg{ID: id}
	for _, dm := range f.Messages {
		if dm.ID != id {
			continue
		}
		res.Size = dm.Size
		for _, s := range dm.Signals {
			js := jDSig{N: s.Name, S: s.StartBit, Z: s.Size, K: s.MuxSwitchValue}
			if s.ByteOrder == dbc.SignalBigEndian {
				js.BE = 1
			}
			if s.IsMultiplexor {
				js.Mr = 1
			}
			if s.IsMultiplexed {
				js.Md = 1
			}
			res.Sigs = append(res.Sigs, js)
		}
	}
	for _, e := range f.ExtendedMuxes {
		if e.MessageID != id {
			continue
		}
		je := jDExt{X: e.MultiplexorName, D: e.MultiplexedName}
		for _, r := range e.Ranges {
			je.R = append(je.R, [2]uint32{r.From, r.To})
		}
		res.Ext = append(res.Ext, je)
	}
	impCanonMsg(res)
	return res
}

// impExport: build, ExportBus, parse back
func impExport(t *jTree) (out string, msg *acmelib.Message, dm *jDMsg, text string) {
	bus, msg, cause := impBuild(t)
	if cause != "" {
		return "err " + cause, nil, nil, ""
	}
	var b bytes.Buffer
	acmelib.ExportBus(&b, bus)
	text = b.String()
	f, err := dbc.Parse("exp", strings.NewReader(text), false)
	if err != nil {
		return "err reparse", msg, nil, text
	}
	dm = impDMsgOf(f, t.ID)
	return "ok " + impRenderDMsg(dm), msg, dm, text
}

// ---- exec ----------------------------------------------------------------------------------

type impExec struct{ fs []Finding }

func (impStream) NewExec() Exec        { return &impExec{} }
func (e *impExec) Findings() []Finding { return e.fs }
func (e *impExec) find(prop, sig, detail string) {
	if len(e.fs) < 8 {
		e.fs = append(e.fs, Finding{Prop: prop, Sig: sig, Detail: detail})
	}
}

func (e *impExec) Do(line string) string {
	f := fields(line)
	if len(f) < 3 || f[0] != "imp" {
		return "bad-op"
	}
	switch f[1] {
	case "import":
		m := &jDMsg{}
		if err := json.Unmarshal([]byte(f[2]), m); err != nil {
			return "bad-op json"
		}
		out, msg := impImport(m)
		if msg != nil {
			e.oracleC10(line, m, msg)
		}
		return out
	case "export":
		t := &jTree{}
		if err := json.Unmarshal([]byte(f[2]), t); err != nil {
			return "bad-op json"
		}
		out, msg, _, text := impExport(t)
		if msg != nil && strings.HasPrefix(out, "ok ") {
			if note := e.oracleC11(line, msg, text); note != "" {
				out += " ##c11:" + note
			}
		}
		return out
	}
	return "bad-op"
}

// oracleC10: every signal of the file exactly once, with its size, at the position the file states
func (e *impExec) oracleC10(line string, m *jDMsg, msg *acmelib.Message) {
	count := map[string]int{}
	for _, s := range m.Sigs {
		count[s.N]++
	}
	type seen struct{ abs, size, n int }
	got := map[string]*seen{}
	add := func(name string, abs, size int) {
		if got[name] == nil {
			got[name] = &seen{}
		}
		got[name].abs, got[name].size = abs, size
		got[name].n++
	}
	for _, sig := range msg.Signals() {
		if sig.Kind() == acmelib.SignalKindMultiplexer {
			mux, _ := sig.ToMultiplexer()
			add(sig.Name(), sig.GetStartBit(), mux.GetGroupCountSize())
			var walk func(m *acmelib.MultiplexerSignal)
			walk = func(m *acmelib.MultiplexerSignal) {
				for _, c := range impChildren(m) {
					if c.nestedMux {
						add(c.name, c.abs, c.sub.GetGroupCountSize())
						walk(c.sub)
					} else {
						add(c.name, c.abs, c.size)
					}
				}
			}
			walk(mux)
			continue
		}
		add(sig.Name(), sig.GetStartBit(), sig.GetSize())
	}
	for _, s := range m.Sigs {
		g := got[s.N]
		switch {
		case count[s.N] > 1 && (g == nil || g.n < count[s.N]):
			e.find("C10", "c10-msg:dropped:same-name-as-multiplexor", line)
		case g == nil:
			e.find("C10", "c10-msg:dropped:other", line+" "+s.N)
		case count[s.N] == 1 && (g.abs != impPos(s) || g.size != int(s.Z)):
			if s.Mr != 0 && s.Z == 0 || impHasZeroSelector(m) {
				e.find("C10", "c10-msg:zero-selector", line)
			} else {
				e.find("C10", "c10-msg:position", sprintf("%s: %s at %d+%d, file says %d+%d", line, s.N, g.abs, g.size, impPos(s), s.Z))
			}
		}
	}
	for name := range got {
		if count[name] == 0 {
			e.find("C10", "c10-msg:invented", line+" "+name)
		}
	}
}

func impHasZeroSelector(m *jDMsg) bool {
	for _, s := range m.Sigs {
		if s.Mr != 0 && s.Z == 0 {
			return true
		}
	}
	return false
}

// oracleC11: the exported text imports again to the same structure.  The result is a note
// for the two differences that are not violations of C11 (group-count, fixed), "" otherwise.
func (e *impExec) oracleC11(line string, msg *acmelib.Message, text string) string {
	bus2, err := acmelib.ImportDBCFile("imp", strings.NewReader(text))
	if err != nil {
		e.find("C11", "c11-msg:reimport-refused:"+impCause(err), line)
		return ""
	}
	msg2 := impTheMsg(bus2)
	if msg2 == nil {
		e.find("C11", "c11-msg:reimport-refused:nomsg", line)
		return ""
	}
	a, b := impRenderMsg(msg), impRenderMsg(msg2)
	if a == b {
		return ""
	}
	// classify (at every depth)
	classes := map[string]bool{}
	s1, s2 := msg.Signals(), msg2.Signals()
	if len(s1) != len(s2) {
		classes["top"] = true
	} else {
		for i := range s1 {
			if s1[i].Kind() != s2[i].Kind() || s1[i].Name() != s2[i].Name() || s1[i].GetStartBit() != s2[i].GetStartBit() {
				classes["top"] = true
				continue
			}
			if s1[i].Kind() == acmelib.SignalKindMultiplexer {
				m1, _ := s1[i].ToMultiplexer()
				m2, _ := s2[i].ToMultiplexer()
				impMuxDiff(m1, m2, classes)
			} else if s1[i].GetSize() != s2[i].GetSize() {
				classes["top"] = true
			}
		}
	}
	for _, c := range []string{"top", "children", "group-size"} {
		if classes[c] {
			e.find("C11", "c11-msg:"+c, line+" :: "+a+" :: "+b)
		}
	}
	var notes []string
	for _, c := range []string{"group-count", "fixed"} {
		if classes[c] {
			notes = append(notes, c)
		}
	}
	if len(classes) == 0 {
		e.find("C11", "c11-msg:children", line+" :: "+a+" :: "+b)
	}
	return strings.Join(notes, "+")
}

// impMuxDiff names what differs between a multiplexer and its re-imported image, at every depth:
// group-count, group-size, fixed (listed for every group ↔ fixed), children (anything else)
func impMuxDiff(m1, m2 *acmelib.MultiplexerSignal, classes map[string]bool) {
	if m1.GroupCount() != m2.GroupCount() {
		classes["group-count"] = true
	}
	if m1.GroupSize() != m2.GroupSize() {
		classes["group-size"] = true
	}
	c1, c2 := impChildren(m1), impChildren(m2)
	if len(c1) != len(c2) {
		classes["children"] = true
		return
	}
	for k := range c1 {
		x, y := c1[k], c2[k]
		switch {
		case x.name != y.name || x.rel != y.rel || x.nestedMux != y.nestedMux || !sameInts(x.inGroups, y.inGroups):
			classes["children"] = true
		case x.nestedMux:
			impMuxDiff(x.sub, y.sub, classes)
			if x.fixed != y.fixed {
				classes["fixed"] = true
			}
		case x.size != y.size:
			classes["children"] = true
		case x.fixed != y.fixed || !sameInts(x.ids, y.ids):
			classes["fixed"] = true
		}
	}
}

// ---- generation ------------------------------------------------------------------------------

var impSizes = []int{1, 1, 2, 3, 4, 4, 5, 7, 8, 8, 9, 12, 16, 17, 24, 32}

type impGenSig struct {
	name      string
	pos, size int
	mr, md    bool
	k         int
	ext       [][2]uint32 // nil = no entry
	extMuxor  string
}

func impFileStart(pos int, be bool) uint32 {
	if be {
		return uint32(impConv(pos))
	}
	return uint32(pos)
}

// subsets of 0..gc-1 as ranges
func impRangesOf(ids []int) [][2]uint32 {
	var rs [][2]uint32
	for i := 0; i < len(ids); {
		j := i
		for j+1 < len(ids) && ids[j+1] == ids[j]+1 {
			j++
		}
		rs = append(rs, [2]uint32{uint32(ids[i]), uint32(ids[j])})
		i = j + 1
	}
	return rs
}

// impGenMuxRegion fills [from, from+w+gs) with a selector and children; returns the signals
func impGenMuxRegion(r *rand.Rand, name string, from, w, gs int, needExt bool, seq *int) []impGenSig {
	return impGenMuxTree(r, name, from, w, gs, needExt, seq, "", nil, 0, 0)
}

// impGenMuxTree: as impGenMuxRegion; the multiplexor is itself multiplexed by `parent` (for the
// groups `parentRanges`) when parent != "", and may hold nested multiplexors down to `depth`
func impGenMuxTree(r *rand.Rand, name string, from, w, gs int, needExt bool, seq *int, parent string, parentRanges [][2]uint32, parentK, depth int) []impGenSig {
	gc := 1 << w
	head := impGenSig{name: name, pos: from, size: w, mr: true}
	if parent != "" {
		head.md = true
		head.k = parentK
		head.ext = parentRanges
		head.extMuxor = parent
	}
	res := []impGenSig{head}
	nestedPlaced := false
	base := from + w
	col := 0
	lastEnd := 0
	for col < gs {
		cw := pick(r, impSizes...)
		if cw > gs-col {
			cw = gs - col
		}
		kind := r.Intn(6)
		switch {
		case depth > 0 && !nestedPlaced && cw >= 3 && r.Intn(2) == 0: // a nested multiplexor in some groups
			nestedPlaced = true
			perm := r.Perm(gc)
			n := 1 + r.Intn(gc)
			if r.Intn(2) == 0 {
				n = 1
			}
			ids := append([]int{}, perm[:n]...)
			sort.Ints(ids)
			w1 := 1
			if cw >= 6 && r.Intn(2) == 0 {
				w1 = 2
			}
			*seq++
			res = append(res, impGenMuxTree(r, sprintf("n%d", *seq), base+col, w1, cw-w1, true, seq, name, impRangesOf(ids), ids[r.Intn(len(ids))], depth-1)...)
		case kind == 0: // a gap
		case kind == 1: // fixed child
			*seq++
			s := impGenSig{name: sprintf("f%d", *seq), pos: base + col, size: cw, md: true, k: r.Intn(gc)}
			s.ext = [][2]uint32{{0, uint32(gc - 1)}}
			if gc >= 4 && r.Intn(3) == 0 { // every group through two ranges (possibly overlapping)
				mid := 1 + r.Intn(gc-2)
				s.ext = [][2]uint32{{0, uint32(mid)}, {uint32(mid - r.Intn(2)), uint32(gc - 1)}}
			}
			s.extMuxor = name
			res = append(res, s)
			lastEnd = col + cw
		default: // the groups share the column
			perm := r.Perm(gc)
			i := 0
			for i < gc {
				n := 1
				if r.Intn(3) == 0 {
					n = 1 + r.Intn(gc-i)
				}
				ids := append([]int{}, perm[i:i+n]...)
				sort.Ints(ids)
				i += n
				if r.Intn(4) == 0 {
					continue // these groups leave the column empty
				}
				*seq++
				sz := cw
				off := 0
				if cw > 1 && r.Intn(3) == 0 {
					sz = 1 + r.Intn(cw)
					off = r.Intn(cw - sz + 1)
				}
				s := impGenSig{name: sprintf("c%d", *seq), pos: base + col + off, size: sz, md: true, k: ids[0]}
				if len(ids) > 1 || needExt || r.Intn(6) == 0 {
					s.ext = impRangesOf(ids)
					s.extMuxor = name
					if len(ids) > 1 && r.Intn(4) == 0 {
						s.k = ids[r.Intn(len(ids))]
					}
				}
				res = append(res, s)
				if col+off+sz > lastEnd {
					lastEnd = col + off + sz
				}
			}
		}
		col += cw
	}
	_ = lastEnd
	return res
}

// impGenGood: a message that is mostly acceptable
func impGenGood(r *rand.Rand) *jDMsg {
	size := pick(r, 8, 8, 8, 8, 4, 2, 1, 3, 6)
	bits := size * 8
	be := r.Intn(2) == 0
	mode := pick(r, 0, 0, 1, 1, 1, 1, 1, 2, 2, 3, 3)
	var sigs []impGenSig
	seq := 0
	plain := func(from, to int) {
		p := from
		for p < to && len(sigs) < 11 {
			if r.Intn(3) == 0 {
				p += r.Intn(4)
			}
			sz := pick(r, impSizes...)
			if p+sz > to {
				sz = to - p
			}
			if sz <= 0 {
				break
			}
			seq++
			sigs = append(sigs, impGenSig{name: sprintf("p%d", seq), pos: p, size: sz})
			p += sz
			if r.Intn(4) == 0 {
				break
			}
		}
	}
	switch mode {
	case 0:
		plain(0, bits)
	case 1:
		w := pick(r, 1, 1, 2, 2, 3)
		if bits < 8 {
			w = 1
		}
		pre := 0
		if r.Intn(2) == 0 {
			pre = r.Intn(bits / 2)
		}
		plain(0, pre)
		room := bits - pre - w
		if room < 1 {
			plain(pre, bits)
			break
		}
		gs := 1 + r.Intn(room)
		if r.Intn(2) == 0 {
			gs = room - r.Intn(1+room/4)
		}
		sigs = append(sigs, impGenMuxRegion(r, "mx", pre, w, gs, false, &seq)...)
		// D75: sometimes a plain signal inside the region (it becomes a fixed child)
		if r.Intn(4) == 0 && gs >= 4 {
			seq++
			p := pre + w + r.Intn(gs-1)
			sigs = append(sigs, impGenSig{name: sprintf("d%d", seq), pos: p, size: 1 + r.Intn(2)})
		}
		plain(pre+w+gs, bits)
	case 3: // nested multiplexors (depth 2, sometimes 3)
		w := pick(r, 1, 1, 2)
		pre := 0
		if r.Intn(3) == 0 {
			pre = r.Intn(8)
		}
		plain(0, pre)
		room := bits - pre - w
		if room < 4 {
			plain(pre, bits)
			break
		}
		gs := room - r.Intn(1+room/3)
		sigs = append(sigs, impGenMuxTree(r, "mx", pre, w, gs, true, &seq, "", nil, 0, pick(r, 1, 1, 2))...)
		plain(pre+w+gs, bits)
	case 2:
		n := 2 + r.Intn(2)
		p := 0
		for i := 0; i < n; i++ {
			w := pick(r, 1, 1, 2)
			room := (bits-p)/(n-i) - w
			if room < 1 {
				break
			}
			gs := 1 + r.Intn(room)
			sigs = append(sigs, impGenMuxRegion(r, sprintf("mx%d", i), p, w, gs, true, &seq)...)
			p += w + gs
			if r.Intn(3) == 0 && p < bits {
				seq++
				sigs = append(sigs, impGenSig{name: sprintf("p%d", seq), pos: p, size: 1})
				p++
			}
		}
	}
	if len(sigs) > 12 {
		// the Go sort is stable only up to 12 elements: keep the multiplexors and the first others
		var keep []impGenSig
		for _, s := range sigs {
			if s.mr || len(keep) < 12 {
				keep = append(keep, s)
			}
		}
		if len(keep) > 12 {
			keep = keep[:12]
		}
		sigs = keep
	}
	r.Shuffle(len(sigs), func(a, b int) { sigs[a], sigs[b] = sigs[b], sigs[a] })
	m := &jDMsg{ID: uint32(1 + r.Intn(100)), Size: uint32(size)}
	for _, s := range sigs {
		js := jDSig{N: s.name, S: impFileStart(s.pos, be), Z: uint32(s.size), K: uint32(s.k)}
		if be {
			js.BE = 1
		}
		if s.mr {
			js.Mr = 1
		}
		if s.md {
			js.Md = 1
		}
		m.Sigs = append(m.Sigs, js)
		if s.ext != nil {
			m.Ext = append(m.Ext, jDExt{X: s.extMuxor, D: s.name, R: s.ext})
		}
	}
	r.Shuffle(len(m.Ext), func(a, b int) { m.Ext[a], m.Ext[b] = m.Ext[b], m.Ext[a] })
	impCanonMsg(m)
	return m
}

// impMutate damages a message in one place
func impMutate(r *rand.Rand, m *jDMsg) {
	if len(m.Sigs) == 0 {
		m.Size = pick(r, uint32(0), 9, 64)
		return
	}
	i := r.Intn(len(m.Sigs))
	s := &m.Sigs[i]
	muxName := ""
	for _, x := range m.Sigs {
		if x.Mr != 0 {
			muxName = x.N
		}
	}
	switch r.Intn(20) {
	case 0:
		s.S = uint32(r.Intn(int(m.Size)*8 + 4))
	case 1:
		s.S += uint32(pick(r, 1, 2, 7, 8))
	case 2:
		s.Z = pick(r, uint32(0), 65, 64, 33, s.Z+1, s.Z+8)
	case 3:
		s.BE = 1 - s.BE
	case 4:
		if len(m.Ext) > 0 {
			k := r.Intn(len(m.Ext))
			m.Ext = append(m.Ext[:k], m.Ext[k+1:]...)
		} else {
			s.Md = 1 - s.Md
		}
	case 5: // ranges beyond the groups / descending
		if len(m.Ext) > 0 {
			k := r.Intn(len(m.Ext))
			m.Ext[k].R = append(m.Ext[k].R, pick(r, [2]uint32{3, 1}, [2]uint32{0, 8}, [2]uint32{7, 9}, [2]uint32{1, 1}, [2]uint32{0, 1}))
		} else if muxName != "" {
			m.Ext = append(m.Ext, jDExt{X: muxName, D: s.N, R: [][2]uint32{{0, uint32(r.Intn(5))}}})
		}
	case 6: // self-referential entry
		if muxName != "" {
			m.Ext = append(m.Ext, jDExt{X: muxName, D: muxName, R: [][2]uint32{{0, 0}}})
		}
	case 7: // duplicated name
		j := r.Intn(len(m.Sigs))
		if j != i {
			s.N = m.Sigs[j].N
		}
	case 8:
		s.Md = 1 - s.Md
	case 9:
		s.Mr = 1 - s.Mr
	case 10:
		s.K = uint32(r.Intn(10))
	case 11:
		m.Size = pick(r, uint32(9), 16, 0, 1, m.Size-1)
	case 12: // selector width: 0, or so wide that the group count is not positive
		for k := range m.Sigs {
			if m.Sigs[k].Mr != 0 {
				m.Sigs[k].Z = pick(r, uint32(0), 0, 63, 64, 4, 5)
				if m.Sigs[k].Z >= 63 {
					m.Sigs[k].S = 0
					m.Sigs[k].BE = 0
					for q := range m.Sigs {
						m.Sigs[q].BE = 0
					}
				}
				break
			}
		}
	case 13: // entry naming an unknown multiplexor
		if len(m.Ext) > 0 {
			m.Ext[r.Intn(len(m.Ext))].X = pick(r, "nope", s.N)
		}
	case 14: // entry for a multiplexor (nesting / precede / self)
		var muxes []string
		for _, x := range m.Sigs {
			if x.Mr != 0 {
				muxes = append(muxes, x.N)
			}
		}
		if len(muxes) > 0 {
			m.Ext = append(m.Ext, jDExt{X: pick(r, append(muxes, "nope")...), D: pick(r, muxes...), R: [][2]uint32{{0, 0}}})
		}
	case 15: // duplicate entry for one signal: the last one counts
		if len(m.Ext) > 0 {
			k := r.Intn(len(m.Ext))
			d := m.Ext[k]
			d.R = [][2]uint32{{uint32(r.Intn(2)), uint32(1 + r.Intn(3))}}
			if r.Intn(2) == 0 {
				m.Ext = append(m.Ext, d)
			} else {
				m.Ext = append([]jDExt{d}, m.Ext...)
			}
		}
	case 16: // a plain signal right behind the multiplexor or among the multiplexed ones
		for _, x := range m.Sigs {
			if x.Mr != 0 {
				p := impPos(x) + int(x.Z) + r.Intn(6)
				be := x.BE != 0
				m.Sigs = append(m.Sigs, jDSig{N: "dd", S: impFileStart(p, be), Z: uint32(1 + r.Intn(3)), BE: x.BE})
				break
			}
		}
	case 17: // the name of the multiplexor
		if muxName != "" && s.Mr == 0 {
			s.N = muxName
		}
	case 18: // empty entry
		if len(m.Ext) > 0 {
			k := r.Intn(len(m.Ext))
			m.Ext[k].R = [][2]uint32{{uint32(r.Intn(3)), uint32(r.Intn(3))}}
		}
	case 19: // all multiplexed signals removed (D76)
		var keep []jDSig
		for _, x := range m.Sigs {
			if x.Md == 0 || x.Mr != 0 {
				keep = append(keep, x)
			}
		}
		m.Sigs = keep
	}
	if len(m.Sigs) > 12 {
		m.Sigs = m.Sigs[:12]
	}
}

// selector widths that would make the real code allocate 2^w groups
func impTooWide(m *jDMsg) bool {
	for _, s := range m.Sigs {
		if s.Mr != 0 && s.Z > 8 && s.Z < 63 {
			return true
		}
	}
	return false
}

func impGenDMsg(r *rand.Rand) *jDMsg {
	wantOK := r.Float64() < 0.7
	var m *jDMsg
	for try := 0; try < 25; try++ {
		m = impGenGood(r)
		if !wantOK || r.Intn(8) == 0 {
			for k := 0; k < 1+r.Intn(2); k++ {
				impMutate(r, m)
			}
		}
		if impTooWide(m) {
			continue
		}
		out, _ := impImport(m)
		if strings.HasPrefix(out, "ok ") == wantOK {
			return m
		}
	}
	if impTooWide(m) {
		return impGenGood(r)
	}
	return m
}

// impNestify turns a leaf child of z bits into a multiplexer of the same total size
func impNestify(r *rand.Rand, c *jChild, depth int, seq *int) {
	w, gc := 1, 2
	if c.Z >= 5 && r.Intn(2) == 0 {
		w, gc = 2, pick(r, 3, 4)
	}
	gs := c.Z - w
	sub := &jSub{GC: gc, GS: gs}
	col := 0
	for col < gs && len(sub.Ch) < 4 {
		cw := 1 + r.Intn(gs-col)
		if r.Intn(4) != 0 {
			*seq++
			g := []int{}
			if r.Intn(3) != 0 {
				g = []int{r.Intn(gc)}
			}
			k := jChild{N: sprintf("k%d", *seq), R: col, Z: cw, G: g}
			if depth > 1 && cw >= 3 && r.Intn(2) == 0 {
				impNestify(r, &k, depth-1, seq)
			}
			sub.Ch = append(sub.Ch, k)
		}
		col += cw
	}
	c.Sub = sub
}

// impGenTree: a message to be built through the API
func impGenTree(r *rand.Rand) *jTree {
	size := pick(r, 8, 8, 8, 4, 2, 6)
	bits := size * 8
	t := &jTree{ID: uint32(1 + r.Intn(100)), Size: size, BE: r.Intn(2)}
	seq := 0
	p := 0
	nmux := pick(r, 0, 1, 1, 1, 1, 2)
	expressible := r.Intn(3) != 0 // powers of two, tight groups, no signal listed for every group
	for p < bits && len(t.Top) < 8 {
		if r.Intn(3) == 0 {
			p += r.Intn(5)
		}
		if p >= bits {
			break
		}
		if nmux > 0 && r.Intn(2) == 0 && bits-p >= 3 {
			nmux--
			gc := pick(r, 2, 2, 4, 4, 8, 3, 1, 5, 6)
			if expressible {
				gc = pick(r, 2, 2, 4, 4, 8)
			}
			w := acmelib.VerifCalcSizeFromValue(gc - 1)
			room := bits - p - w
			if room < 1 {
				break
			}
			gs := 1 + r.Intn(room)
			it := jItem{T: "m", N: sprintf("mx%d", len(t.Top)), S: p, GC: gc, GS: gs}
			col := 0
			maxEnd := 0
			for col < gs && len(it.Ch) < 9 {
				cw := pick(r, impSizes...)
				if cw > gs-col {
					cw = gs - col
				}
				switch r.Intn(5) {
				case 0:
					if expressible && col+cw >= gs {
						seq++
						it.Ch = append(it.Ch, jChild{N: sprintf("f%d", seq), R: col, Z: cw, G: []int{}})
						maxEnd = col + cw
					}
				case 1:
					seq++
					it.Ch = append(it.Ch, jChild{N: sprintf("f%d", seq), R: col, Z: cw, G: []int{}})
					maxEnd = col + cw
				default:
					perm := r.Perm(gc)
					i := 0
					for i < gc && len(it.Ch) < 9 {
						n := 1
						if r.Intn(3) == 0 {
							n = 1 + r.Intn(gc-i)
						}
						if expressible && n == gc && gc > 1 {
							n = gc - 1
						}
						ids := append([]int{}, perm[i:i+n]...)
						i += n
						if r.Intn(4) == 0 {
							continue
						}
						if r.Intn(5) == 0 && len(ids) > 1 { // a repeated id: InsertSignal compacts
							ids = append(ids, ids[0])
						}
						seq++
						sz, off := cw, 0
						if cw > 1 && r.Intn(3) == 0 {
							sz = 1 + r.Intn(cw)
							off = r.Intn(cw - sz + 1)
						}
						it.Ch = append(it.Ch, jChild{N: sprintf("c%d", seq), R: col + off, Z: sz, G: ids})
						if col+off+sz > maxEnd {
							maxEnd = col + off + sz
						}
					}
				}
				col += cw
			}
			if expressible && maxEnd > 0 {
				it.GS = maxEnd
				gs = maxEnd
			}
			if r.Intn(4) == 0 { // some children become multiplexers themselves
				for k := range it.Ch {
					if it.Ch[k].Z >= 3 && r.Intn(2) == 0 {
						impNestify(r, &it.Ch[k], 1+r.Intn(2), &seq)
					}
				}
			}
			r.Shuffle(len(it.Ch), func(a, b int) { it.Ch[a], it.Ch[b] = it.Ch[b], it.Ch[a] })
			t.Top = append(t.Top, it)
			p += w + gs
			continue
		}
		sz := pick(r, impSizes...)
		if p+sz > bits {
			sz = bits - p
		}
		seq++
		t.Top = append(t.Top, jItem{T: "s", N: sprintf("p%d", seq), S: p, Z: sz})
		p += sz
		if r.Intn(5) == 0 {
			break
		}
	}
	r.Shuffle(len(t.Top), func(a, b int) { t.Top[a], t.Top[b] = t.Top[b], t.Top[a] })
	if r.Intn(8) == 0 && len(t.Top) > 0 { // damage: the API refuses
		i := r.Intn(len(t.Top))
		it := &t.Top[i]
		switch r.Intn(8) {
		case 0:
			it.S += pick(r, -1, 1, 4, 60)
		case 1:
			if it.T == "s" {
				it.Z = pick(r, 0, 65, it.Z+3)
			} else {
				it.GS = pick(r, 0, -1, it.GS+8, 64)
			}
		case 2:
			if len(t.Top) > 1 {
				it.N = t.Top[(i+1)%len(t.Top)].N
			}
		case 3:
			if it.T == "m" {
				it.GC = pick(r, 0, -1, 1)
			}
		case 4, 5, 6:
			if it.T == "m" && len(it.Ch) > 0 {
				c := &it.Ch[r.Intn(len(it.Ch))]
				switch r.Intn(6) {
				case 0:
					c.R += pick(r, -1, 1, 3, -c.R-1)
				case 1:
					c.Z += pick(r, 1, 4, 8)
				case 2:
					c.G = append(c.G, pick(r, it.GC, -1, it.GC+3))
				case 3:
					c.N = pick(r, it.N, it.Ch[0].N, t.Top[0].N)
				case 4:
					c.G = []int{}
				case 5:
					c.Z = 0
				}
			}
		case 7:
			t.Size = pick(r, 9, 1, 0)
		}
	}
	impCanonTree(t)
	return t
}

func (impStream) Gen(r *rand.Rand, tier string, idx int) []string {
	n := 8
	if tier == "thorough" {
		n = 16
	}
	var sc []string
	for len(sc) < n {
		if r.Intn(3) == 0 {
			t := impGenTree(r)
			sc = append(sc, "imp export "+impEncTree(t))
			// the exported message read again: the model of the importer on the output of the real exporter
			if _, _, dm, _ := impExport(t); dm != nil && !impTooWide(dm) && len(dm.Sigs) <= 12 {
				sc = append(sc, "imp import "+impEncMsg(dm))
			}
			continue
		}
		m := impGenDMsg(r)
		sc = append(sc, "imp import "+impEncMsg(m))
		// an accepted import exported again: the model of the exporter on the output of the real importer
		if out, msg := impImport(m); msg != nil && strings.HasPrefix(out, "ok ") && r.Intn(2) == 0 {
			if t := impTreeOf(msg); t != nil {
				sc = append(sc, "imp export "+impEncTree(t))
			}
		}
	}
	return sc
}

func impKidsOf(mux *acmelib.MultiplexerSignal) []jChild {
	var res []jChild
	for _, c := range impChildren(mux) {
		jc := jChild{N: c.name, R: c.rel, Z: c.size, G: append([]int{}, c.ids...)}
		if c.nestedMux {
			jc.Sub = &jSub{GC: c.sub.GroupCount(), GS: c.sub.GroupSize(), Ch: impKidsOf(c.sub)}
		}
		res = append(res, jc)
	}
	return res
}

// impTreeOf reads an imported message back into the API-call form
func impTreeOf(msg *acmelib.Message) *jTree {
	t := &jTree{ID: uint32(msg.ID()), Size: msg.SizeByte()}
	if msg.ByteOrder() == acmelib.MessageByteOrderBigEndian {
		t.BE = 1
	}
	for _, sig := range msg.Signals() {
		if sig.Kind() != acmelib.SignalKindMultiplexer {
			t.Top = append(t.Top, jItem{T: "s", N: sig.Name(), S: sig.GetStartBit(), Z: sig.GetSize()})
			continue
		}
		mux, err := sig.ToMultiplexer()
		if err != nil {
			return nil
		}
		it := jItem{T: "m", N: mux.Name(), S: mux.GetStartBit(), GC: mux.GroupCount(), GS: mux.GroupSize(), Ch: impKidsOf(mux)}
		t.Top = append(t.Top, it)
	}
	impCanonTree(t)
	return t
}

// the messages of the fixture /repo/testdata/expected.dbc (it holds nested multiplexors)
func impFixtureLines() []string {
	b, err := os.ReadFile("/repo/testdata/expected.dbc")
	if err != nil {
		return nil
	}
	f, err := dbc.Parse("expected.dbc", bytes.NewReader(b), false)
	if err != nil {
		return nil
	}
	var sc []string
	for _, dm := range f.Messages {
		m := impDMsgOf(f, dm.ID)
		if impTooWide(m) {
			continue
		}
		sc = append(sc, "imp import "+impEncMsg(m))
	}
	return sc
}

func (impStream) Exhaustive(tier string) [][]string {
	var res [][]string
	if sc := impFixtureLines(); len(sc) > 0 {
		res = append(res, sc)
	}
	// one multiplexor of 1 bit at 0, one multiplexed signal of 2 bits and one plain signal of 2 bits
	// at every pair of positions of a 2-byte message, both byte orders
	for be := 0; be < 2; be++ {
		var sc []string
		for a := 0; a < 16; a++ {
			for b := 0; b < 16; b++ {
				m := &jDMsg{ID: 1, Size: 2, Sigs: []jDSig{
					{N: "mx", S: impFileStart(0, be != 0), Z: 1, BE: be, Mr: 1},
					{N: "a", S: uint32(a), Z: 2, BE: be, Md: 1, K: uint32(a % 2)},
					{N: "b", S: uint32(b), Z: 2, BE: be},
					{N: "z", S: impFileStart(14, be != 0), Z: 2, BE: be, Md: 1, K: 1},
				}}
				sc = append(sc, "imp import "+impEncMsg(m))
			}
		}
		res = append(res, sc)
	}
	// every subset of the groups of a 2-bit selector, as one entry
	var sc []string
	for mask := 1; mask < 16; mask++ {
		var ids []int
		for k := 0; k < 4; k++ {
			if mask&(1<<k) != 0 {
				ids = append(ids, k)
			}
		}
		m := &jDMsg{ID: 2, Size: 2, Sigs: []jDSig{
			{N: "mx", S: 0, Z: 2, Mr: 1},
			{N: "a", S: 2, Z: 4, Md: 1, K: uint32(ids[0])},
			{N: "b", S: 6, Z: 4, Md: 1, K: 3},
		}, Ext: []jDExt{{X: "mx", D: "a", R: impRangesOf(ids)}}}
		sc = append(sc, "imp import "+impEncMsg(m))
		t := &jTree{ID: 2, Size: 2, Top: []jItem{{T: "m", N: "mx", S: 0, GC: 4, GS: 8, Ch: []jChild{
			{N: "a", R: 0, Z: 4, G: ids}, {N: "b", R: 4, Z: 4, G: []int{3}}}}}}
		sc = append(sc, "imp export "+impEncTree(t))
	}
	res = append(res, sc)
	return res
}

// nesting depth of a rendering (1 = a multiplexer without nested multiplexers)
func impDepth(o string) int {
	d, max := 0, 0
	for _, c := range o {
		switch c {
		case '(', '{':
			d++
			if d > max {
				max = d
			}
		case ')', '}':
			d--
		}
	}
	return max
}

func (impStream) Tag(lines, outs []string) (bool, []string) {
	var tags []string
	for i, l := range lines {
		f := fields(l)
		if len(f) < 3 {
			continue
		}
		o := outs[i]
		switch {
		case strings.HasPrefix(o, "ok "):
			tags = append(tags, f[1]+":ok")
			if f[1] == "import" {
				switch strings.Count(o, "M:") {
				case 0:
					tags = append(tags, "import:ok:nomux")
				case 1:
					tags = append(tags, "import:ok:onemux")
				default:
					tags = append(tags, "import:ok:manymux")
				}
				if strings.Contains(o, ":F") {
					tags = append(tags, "import:ok:fixed")
				}
				if d := impDepth(o); d >= 2 {
					tags = append(tags, sprintf("import:ok:nested-depth-%d", d))
				}
				if strings.Contains(o, " be=1 ") {
					tags = append(tags, "import:ok:be")
				}
			} else {
				if strings.Contains(l, `"sub":`) {
					tags = append(tags, "export:ok:nested")
				}
				if strings.Contains(o, "ext=[]") {
					tags = append(tags, "export:ok:noext")
				} else {
					tags = append(tags, "export:ok:ext")
				}
				if i := strings.Index(o, " ##c11:"); i >= 0 {
					for _, c := range strings.Split(o[i+len(" ##c11:"):], "+") {
						tags = append(tags, "export:c11:"+c)
					}
				}
			}
		case strings.HasPrefix(o, "err "):
			tags = append(tags, f[1]+":"+strings.Replace(o, " ", ":", 1))
		default:
			tags = append(tags, f[1]+":"+eiFirst(o, 12))
		}
	}
	return true, tags
}
