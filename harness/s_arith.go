package main

import (
	"encoding/binary"
	"math"
	"math/big"
	"math/rand"
	"strings"

	"github.com/squadracorsepolito/acmelib"
)

// stream arith — C03: decoded values, type ranges, enum / selector widths
// against Acme.Core.Arith, through the public API only.
//
//	arith dec kind size signed scaleNum scaleLog2Den offNum offLog2Den raw
//	arith range size signed            (integer and decimal types)
//	arith csize v                      (enum with one value of index v)
//	arith enumsize min n idx...
//	arith enumdec n idx... raw
//	arith muxw groupCount

type arithStream struct{ baseStream }

func init() { register(arithStream{}) }

func (arithStream) Name() string    { return "arith" }
func (arithStream) Parallel() bool  { return true } // no shared state: cases run on all cores
func (arithStream) Props() []string { return []string{"C03"} }

func rawFor(r *rand.Rand, size int) uint64 {
	var mask uint64 = math.MaxUint64
	if size < 64 {
		mask = (uint64(1) << uint(size)) - 1
	}
	switch r.Intn(6) {
	case 0:
		return 0
	case 1:
		return mask
	case 2:
		return (uint64(1) << uint(size-1)) & mask // sign bit only
	case 3:
		return ((uint64(1) << uint(size-1)) - 1) & mask // largest positive
	case 4:
		return 1 & mask
	}
	return r.Uint64() & mask
}

func (arithStream) Gen(r *rand.Rand, tier string, idx int) []string {
	var sc []string
	for i := 0; i < 10; i++ {
		switch r.Intn(8) {
		case 0, 1, 2:
			kind := pick(r, 0, 2, 2, 3, 1)
			size := pick(r, 1, 2, 7, 8, 9, 12, 16, 31, 32, 33, 63, 64, 1+r.Intn(64))
			signed := r.Intn(2)
			if kind == 1 {
				size, signed = 1, 0
			}
			raw := rawFor(r, size)
			sn, sd, on, od := 1, 0, 0, 0
			if kind == 2 {
				// integral scale/offset with a representable result (the property's quantifier)
				sn = pick(r, 1, 1, 2, 3, 10, -1, -2, 100)
				on = pick(r, 0, 0, 1, -1, 40, -40, 1000)
				if signed == 0 {
					if sn < 0 {
						sn = -sn
					}
					if on < 0 {
						on = -on
					}
				}
				if size > 40 { // keep raw*scale+offset inside 64 bits
					sn, on = pick(r, 1, -1), pick(r, 0, 1, -1)
					if signed == 0 {
						sn, on = 1, pick(r, 0, 0)
					}
				}
			} else if kind != 1 {
				sn, sd = pick(r, 1, 3, -5, 1, 25), pick(r, 0, 1, 2, 4, 10)
				on, od = pick(r, 0, 1, -3, 7, -1000), pick(r, 0, 1, 3)
			}
			sc = append(sc, sprintf("arith dec %d %d %d %d %d %d %d %d", kind, size, signed, sn, sd, on, od, raw))
		case 3:
			sc = append(sc, sprintf("arith range %d %d", 1+r.Intn(64), r.Intn(2)))
		case 4:
			k := r.Intn(63)
			v := (uint64(1) << uint(k)) + uint64(pick(r, -1, 0, 1))
			sc = append(sc, sprintf("arith csize %d", v))
		case 5:
			n := r.Intn(5)
			var b strings.Builder
			b.WriteString(sprintf("arith enumsize %d %d", pick(r, 1, 1, 2, 4, 8, 16), n))
			seen := map[int]bool{}
			for j := 0; j < n; j++ {
				v := r.Intn(1 << uint(r.Intn(20)))
				for seen[v] {
					v++
				}
				seen[v] = true
				b.WriteString(sprintf(" %d", v))
			}
			sc = append(sc, b.String())
		case 6:
			n := r.Intn(6)
			var b strings.Builder
			b.WriteString(sprintf("arith enumdec %d", n))
			seen := map[int]bool{}
			var idxs []int
			for j := 0; j < n; j++ {
				v := r.Intn(64)
				for seen[v] {
					v++
				}
				seen[v] = true
				idxs = append(idxs, v)
				b.WriteString(sprintf(" %d", v))
			}
			raw := r.Intn(80)
			if n > 0 && r.Intn(2) == 0 {
				raw = idxs[r.Intn(n)]
			}
			b.WriteString(sprintf(" %d", raw))
			sc = append(sc, b.String())
		case 7:
			sc = append(sc, sprintf("arith muxw %d", pick(r, 1, 2, 3, 4, 5, 8, 9, 16, 17, 255, 256, 257, 1+r.Intn(5000))))
		}
	}
	return sc
}

// Exhaustive: every raw value for sizes ≤ 8 (quick) / ≤ 12 (thorough), both signednesses,
// integer and decimal kinds; all 64x2 ranges; calcSize on 2^k-1, 2^k, 2^k+1.
func (arithStream) Exhaustive(tier string) [][]string {
	maxBits := 8
	if tier == "thorough" {
		maxBits = 12
	}
	var res [][]string
	for size := 1; size <= maxBits; size++ {
		var sc []string
		for signed := 0; signed < 2; signed++ {
			for raw := 0; raw < 1<<uint(size); raw++ {
				sc = append(sc, sprintf("arith dec 2 %d %d 1 0 0 0 %d", size, signed, raw))
				sc = append(sc, sprintf("arith dec 3 %d %d 1 1 1 0 %d", size, signed, raw))
			}
		}
		res = append(res, sc)
	}
	var sc []string
	for size := 1; size <= 64; size++ {
		sc = append(sc, sprintf("arith range %d 0", size), sprintf("arith range %d 1", size))
	}
	for k := 0; k < 63; k++ {
		for _, d := range []int{-1, 0, 1} {
			v := int64(1)<<uint(k) + int64(d)
			sc = append(sc, sprintf("arith csize %d", v))
		}
	}
	sc = append(sc, sprintf("arith csize %d", int64(math.MaxInt64)))
	for gc := 1; gc <= 300; gc++ {
		sc = append(sc, sprintf("arith muxw %d", gc))
	}
	res = append(res, sc)
	return res
}

func (arithStream) Same(g, m string) bool {
	if g == m {
		return true
	}
	fg, fm := fields(g), fields(m)
	if len(fg) != len(fm) || len(fg) == 0 || fg[0] != fm[0] {
		return false
	}
	switch fg[0] {
	case "float":
		a, ok1 := parseNum(fg[1])
		b, ok2 := parseNum(fm[1])
		return ok1 && ok2 && close9(a, b)
	case "range":
		// Go reports float64(min), float64(max); the model exact integers
		for i := 1; i <= 2; i++ {
			a, ok1 := parseNum(fg[i])
			bi, ok2 := new(big.Int).SetString(fm[i], 10)
			if !ok1 || !ok2 {
				return false
			}
			b, _ := new(big.Float).SetInt(bi).Float64()
			if a != b {
				return false
			}
		}
		return true
	}
	return false
}

func (arithStream) Tag(lines, outs []string) (bool, []string) {
	var tags []string
	nt := false
	for i, l := range lines {
		f := fields(l)
		tags = append(tags, f[1])
		if f[1] == "dec" && (strings.HasPrefix(outs[i], "int -") || strings.HasPrefix(outs[i], "float -")) {
			nt = true
			tags = append(tags, "dec:negative")
		}
	}
	return nt, tags
}

type arithExec struct{ fs []Finding }

func (arithStream) NewExec() Exec        { return &arithExec{} }
func (e *arithExec) Findings() []Finding { return e.fs }
func (e *arithExec) fail(sig, d string) {
	if len(e.fs) < 5 {
		e.fs = append(e.fs, Finding{Prop: "C03", Sig: sig, Detail: d})
	}
}

func twosBig(raw uint64, size int, signed bool) *big.Int {
	v := new(big.Int).SetUint64(raw)
	if signed && raw&(uint64(1)<<uint(size-1)) != 0 {
		v.Sub(v, new(big.Int).Lsh(big.NewInt(1), uint(size)))
	}
	return v
}

func (e *arithExec) Do(line string) string {
	f := fields(line)
	switch f[1] {
	case "dec":
		kind, size, signed := atoi(f[2]), atoi(f[3]), atoi(f[4]) == 1
		sn, sd, on, od := atoi(f[5]), atoi(f[6]), atoi(f[7]), atoi(f[8])
		var raw uint64
		if _, err := sscan(f[9], &raw); err != nil {
			return "bad-op"
		}
		scale := float64(sn) / float64(uint64(1)<<uint(sd))
		off := float64(on) / float64(uint64(1)<<uint(od))
		var typ *acmelib.SignalType
		var err error
		// every other line reaches the type's parameters through a HISTORY: the type is created
		// with the other signedness, scale and offset, shared by a second signal in a second
		// message, decoded once there, and only then updated (UpdateSigned, SetScale, SetOffset);
		// the decoded value must be the one of the final parameters
		history := kind != 1 && (raw^uint64(size))%2 == 1
		signed0, scale0, off0 := signed, scale, off
		variant := (raw >> 1) % 3
		if history {
			switch variant {
			case 0: // only the signedness changes afterwards
				signed0 = !signed
			case 1: // only scale and offset change afterwards
				scale0, off0 = scale*2+1, off+3
			default:
				signed0, scale0, off0 = !signed, scale*2+1, off+3
			}
		}
		switch kind {
		case 0:
			typ, err = acmelib.NewCustomSignalType("t", size, signed0, 0, 0, scale0, off0)
		case 1:
			typ = acmelib.NewFlagSignalType("t")
		case 2:
			typ, err = acmelib.NewIntegerSignalType("t", size, signed0)
		case 3:
			typ, err = acmelib.NewDecimalSignalType("t", size, signed0)
		}
		if err != nil {
			return "err"
		}
		if kind == 2 || kind == 3 {
			typ.SetScale(scale0)
			typ.SetOffset(off0)
		}
		sig, err := acmelib.NewStandardSignal("s", typ)
		if err != nil {
			return "err"
		}
		msg := acmelib.NewMessage("m", 1, 8)
		if err := msg.InsertSignal(sig, 0); err != nil {
			return "err"
		}
		data := make([]byte, 8)
		binary.LittleEndian.PutUint64(data, raw)
		if history {
			other, err := acmelib.NewStandardSignal("o", typ)
			if err != nil {
				return "err"
			}
			msg2 := acmelib.NewMessage("m2", 2, 8)
			if err := msg2.InsertSignal(other, 0); err != nil {
				return "err"
			}
			msg2.SignalLayout().Decode(data)
			msg.SignalLayout().Decode(data)
			// each update is followed by a decode, so that no later update hides an earlier one
			if variant != 0 {
				typ.SetScale(scale)
				msg2.SignalLayout().Decode(data)
				typ.SetOffset(off)
				msg2.SignalLayout().Decode(data)
			}
			if variant != 1 {
				typ.UpdateSigned(signed)
			}
		}
		decs := msg.SignalLayout().Decode(data)
		if len(decs) != 1 {
			return sprintf("err decodings=%d", len(decs))
		}
		d := decs[0]
		tw := twosBig(raw, size, signed)
		switch d.ValueType {
		case acmelib.SignalValueTypeFlag:
			if d.ValueAsFlag() != (raw != 0) {
				e.fail("flag-vs-raw", line)
			}
			return "flag " + boolStr(d.ValueAsFlag())
		case acmelib.SignalValueTypeInt:
			want := new(big.Int).Mul(tw, big.NewInt(int64(sn)))
			want.Add(want, big.NewInt(int64(on)))
			if want.IsInt64() && want.Int64() != d.ValueAsInt() {
				e.fail("int-physical-value", sprintf("%s: got %d want %s", line, d.ValueAsInt(), want))
			}
			return sprintf("int %d", d.ValueAsInt())
		case acmelib.SignalValueTypeUint:
			want := new(big.Int).Mul(new(big.Int).SetUint64(raw), big.NewInt(int64(sn)))
			want.Add(want, big.NewInt(int64(on)))
			if want.IsUint64() && want.Uint64() != d.ValueAsUint() {
				e.fail("uint-physical-value", sprintf("%s: got %d want %s", line, d.ValueAsUint(), want))
			}
			return sprintf("uint %d", d.ValueAsUint())
		case acmelib.SignalValueTypeFloat:
			twf, _ := new(big.Float).SetInt(tw).Float64()
			want := twf*scale + off
			if !close9(want, d.ValueAsFloat()) {
				e.fail("float-physical-value", sprintf("%s: got %g want %g", line, d.ValueAsFloat(), want))
			}
			return sprintf("float %v", d.ValueAsFloat())
		}
		return "err valuetype"
	case "range":
		size, signed := atoi(f[2]), atoi(f[3]) == 1
		ti, err1 := acmelib.NewIntegerSignalType("t", size, signed)
		td, err2 := acmelib.NewDecimalSignalType("t", size, signed)
		if err1 != nil || err2 != nil {
			return "err"
		}
		lo, hi := new(big.Int), new(big.Int)
		if signed {
			lo.Neg(new(big.Int).Lsh(big.NewInt(1), uint(size-1)))
			hi.Sub(new(big.Int).Lsh(big.NewInt(1), uint(size-1)), big.NewInt(1))
		} else {
			hi.Sub(new(big.Int).Lsh(big.NewInt(1), uint(size)), big.NewInt(1))
		}
		flo, _ := new(big.Float).SetInt(lo).Float64()
		fhi, _ := new(big.Float).SetInt(hi).Float64()
		if ti.Min() != flo || ti.Max() != fhi {
			e.fail("integer-type-range", sprintf("%s: got %v..%v want %v..%v", line, ti.Min(), ti.Max(), flo, fhi))
		}
		if td.Min() != flo || td.Max() != fhi {
			e.fail("decimal-type-range", sprintf("%s: got %v..%v want %v..%v", line, td.Min(), td.Max(), flo, fhi))
		}
		if ti.Min() != td.Min() || ti.Max() != td.Max() {
			return sprintf("range-mismatch int %v %v dec %v %v", ti.Min(), ti.Max(), td.Min(), td.Max())
		}
		return sprintf("range %v %v", ti.Min(), ti.Max())
	case "csize":
		v := atoi(f[2])
		en := acmelib.NewSignalEnum("e")
		if err := en.AddValue(acmelib.NewSignalEnumValue("v", v)); err != nil {
			return "err"
		}
		got := en.GetSize()
		if v >= 0 && !isBitLen(v, got) {
			e.fail("enum-width-not-minimal", sprintf("%s: got %d", line, got))
		}
		return sprintf("size %d", got)
	case "enumsize":
		mn, n := atoi(f[2]), atoi(f[3])
		en := acmelib.NewSignalEnum("e")
		en.SetMinSize(mn)
		mx := 0
		for j := 0; j < n; j++ {
			v := atoi(f[4+j])
			if err := en.AddValue(acmelib.NewSignalEnumValue(sprintf("v%d", v), v)); err != nil {
				return "err"
			}
			if v > mx {
				mx = v
			}
		}
		got := en.GetSize()
		want := mn
		for !isBitLenAtLeast(mx, want) {
			want++
		}
		if got != want {
			e.fail("enum-width", sprintf("%s: got %d want %d", line, got, want))
		}
		return sprintf("size %d", got)
	case "enumdec":
		n := atoi(f[2])
		en := acmelib.NewSignalEnum("e")
		want := "-"
		raw := atoi(f[3+n])
		for j := 0; j < n; j++ {
			v := atoi(f[3+j])
			if err := en.AddValue(acmelib.NewSignalEnumValue(sprintf("v%d", v), v)); err != nil {
				return "err"
			}
			if v == raw {
				want = sprintf("v%d", v)
			}
		}
		en.SetMinSize(8)
		sig, err := acmelib.NewEnumSignal("s", en)
		if err != nil {
			return "err"
		}
		msg := acmelib.NewMessage("m", 1, 8)
		if err := msg.InsertSignal(sig, 0); err != nil {
			return "err"
		}
		data := make([]byte, 8)
		binary.LittleEndian.PutUint64(data, uint64(raw))
		decs := msg.SignalLayout().Decode(data)
		if len(decs) != 1 {
			return "err"
		}
		got := decs[0].ValueAsEnum()
		if got == "" {
			got = "-"
		}
		if raw < 256 && got != want {
			e.fail("enum-decode", sprintf("%s: got %s want %s", line, got, want))
		}
		return "enum " + got
	case "muxw":
		gc := atoi(f[2])
		mux, err := acmelib.NewMultiplexerSignal("m", gc, 1)
		if err != nil {
			return "err"
		}
		got := mux.GetGroupCountSize()
		if !isBitLen(gc-1, got) {
			e.fail("selector-width-not-minimal", sprintf("%s: got %d", line, got))
		}
		if mux.GetSize() != 1+got {
			e.fail("mux-size", line)
		}
		return sprintf("w %d", got)
	}
	return "bad-op"
}

// isBitLen: w is the smallest width >= 1 with v < 2^w.
func isBitLen(v, w int) bool {
	if w < 1 || w > 63 {
		return false
	}
	if w < 63 && v >= 1<<uint(w) {
		return false
	}
	return w == 1 || v >= 1<<uint(w-1)
}

func isBitLenAtLeast(v, w int) bool { return w >= 63 || v < 1<<uint(w) }
