package main

import (
	"encoding/json"
	"errors"
	"math/rand"
	"regexp"
	"sort"
	"strings"

	"github.com/squadracorsepolito/acmelib"
	"github.com/squadracorsepolito/acmelib/dbc"
)

// stream impbus — C10 at the BUS level of the DBC importer: the model Acme.ImportBus (importBus)
// against importFile for everything except positions / multiplexing (stream imp) and attributes
// (stream attr): nodes, senders, receivers, comments, signal types (kind selection, sharing),
// units, global value tables and per-signal value encodings (enum objects, sized copies).
//
//	ib import <dfile-json>   the document is built at AST level and handed to VerifImportAST; the
//	                         bus is read through the public getters and rendered
//
// The export direction and the round trip (`ib export`, `ib rt`, property C11) are in
// s_impbus_exp.go; every case interleaves them: the bus of every accepted import is exported
// (model and code), every real export is imported by the model.
//
// JSON and rendering: see lean/Acme/Driver/ImportBus.lean.  A float travels as the exact rational
// "num/den" of the binary64 number.  Every line is stateless.
//
// Oracle (Go side only, property C10, independent of the model): after an accepted import the bus
// is compared with the document: nodes, per message id / name / size / sender / receiver set,
// per signal name / size / comment / kind, the values of an enum signal, the type fields and the
// unit symbol of a standard signal, and the soundness of every object sharing.
// "c10-bus:<class>" names the first clause that fails.

type impbusStream struct{ baseStream }

func init() { register(impbusStream{}) }

func (impbusStream) Name() string    { return "impbus" }
func (impbusStream) Props() []string { return []string{"C10", "C11"} }
func (impbusStream) Parallel() bool  { return true }

// ---- JSON ---------------------------------------------------------------------------------

type ibVal struct {
	ID   uint32
	Name string
}

func (v ibVal) MarshalJSON() ([]byte, error) { return json.Marshal([]any{v.ID, v.Name}) }
func (v *ibVal) UnmarshalJSON(b []byte) error {
	var raw []json.RawMessage
	if err := json.Unmarshal(b, &raw); err != nil || len(raw) != 2 {
		return errors.New("value")
	}
	if err := json.Unmarshal(raw[0], &v.ID); err != nil {
		return err
	}
	return json.Unmarshal(raw[1], &v.Name)
}

type ibTable struct {
	N string  `json:"n"`
	V []ibVal `json:"v"`
}

type ibEnc struct {
	M uint32  `json:"m"`
	S string  `json:"s"`
	V []ibVal `json:"v"`
}

type ibComment struct {
	K string `json:"k"`
	T string `json:"t"`
	N string `json:"n,omitempty"`
	M uint32 `json:"m,omitempty"`
	S string `json:"s,omitempty"`
}

type ibSig struct {
	N  string   `json:"n"`
	S  uint32   `json:"s"`
	Z  uint32   `json:"z"`
	Sg int      `json:"sg"`
	F  string   `json:"f"`
	O  string   `json:"o"`
	Mn string   `json:"mn"`
	Mx string   `json:"mx"`
	U  string   `json:"u"`
	R  []string `json:"r"`
}

type ibMsg struct {
	ID   uint32  `json:"id"`
	N    string  `json:"n"`
	Z    uint32  `json:"z"`
	Tx   string  `json:"tx"`
	Sigs []ibSig `json:"sigs"`
}

type ibFile struct {
	Nodes []string    `json:"nodes"`
	VT    []ibTable   `json:"vt"`
	VE    []ibEnc     `json:"ve"`
	CM    []ibComment `json:"cm"`
	Msgs  []ibMsg     `json:"msgs"`
}

// ---- the document ---------------------------------------------------------------------------

func ibVals(vs []ibVal) []*dbc.ValueDescription {
	var res []*dbc.ValueDescription
	for _, v := range vs {
		res = append(res, &dbc.ValueDescription{ID: v.ID, Name: v.Name})
	}
	return res
}

func ibFileOf(j *ibFile) *dbc.File {
	f := atBaseFile()
	f.Nodes = &dbc.Nodes{Names: append([]string{}, j.Nodes...)}
	for _, t := range j.VT {
		f.ValueTables = append(f.ValueTables, &dbc.ValueTable{Name: t.N, Values: ibVals(t.V)})
	}
	for _, e := range j.VE {
		f.ValueEncodings = append(f.ValueEncodings, &dbc.ValueEncoding{Kind: dbc.ValueEncodingSignal,
			MessageID: e.M, SignalName: e.S, Values: ibVals(e.V)})
	}
	for _, c := range j.CM {
		dc := &dbc.Comment{Text: c.T, NodeName: c.N, MessageID: c.M, SignalName: c.S}
		switch c.K {
		case "g":
			dc.Kind = dbc.CommentGeneral
		case "n":
			dc.Kind = dbc.CommentNode
		case "m":
			dc.Kind = dbc.CommentMessage
		default:
			dc.Kind = dbc.CommentSignal
		}
		f.Comments = append(f.Comments, dc)
	}
	for _, m := range j.Msgs {
		dm := &dbc.Message{ID: m.ID, Name: m.N, Size: m.Z, Transmitter: m.Tx}
		for _, s := range m.Sigs {
			vt := dbc.SignalUnsigned
			if s.Sg != 0 {
				vt = dbc.SignalSigned
			}
			dm.Signals = append(dm.Signals, &dbc.Signal{Name: s.N, Size: s.Z, StartBit: s.S,
				ByteOrder: dbc.SignalLittleEndian, ValueType: vt, Factor: atF(s.F), Offset: atF(s.O),
				Min: atF(s.Mn), Max: atF(s.Mx), Unit: s.U, Receivers: append([]string{}, s.R...)})
		}
		f.Messages = append(f.Messages, dm)
	}
	return f
}

// ---- causes -------------------------------------------------------------------------------------

func ibCause(err error) string {
	dup := errors.Is(err, acmelib.ErrIsDuplicated)
	var vi *acmelib.ValueIndexError
	var ni *acmelib.NodeIDError
	var ci *acmelib.CANIDError
	var ms *acmelib.MessageSizeError
	var ss *acmelib.SignalSizeError
	var sb *acmelib.StartBitError
	var ae *acmelib.ArgumentError
	var ne *acmelib.NameError
	var add *acmelib.AddEntityError
	var ent *acmelib.EntityError
	switch {
	case errors.Is(err, acmelib.ErrReceiverIsSender):
		return "receiverIsSender"
	case errors.As(err, &vi) && dup:
		return "valueIndexDuplicated"
	case errors.As(err, &ni) && dup:
		return "nodeIdDuplicated"
	case errors.As(err, &ci) && dup:
		return "canIdDuplicated"
	case errors.As(err, &ms) && errors.Is(err, acmelib.ErrTooBig):
		return "msgTooBig"
	case errors.As(err, &ss) && errors.Is(err, acmelib.ErrOutOfBounds):
		return "sizeOutOfBounds"
	case errors.As(err, &ss) && errors.Is(err, acmelib.ErrTooSmall):
		return "sizeTooSmall"
	case errors.As(err, &sb) && errors.Is(err, acmelib.ErrOutOfBounds):
		return "startOutOfBounds"
	case errors.As(err, &sb) && errors.Is(err, acmelib.ErrIntersect):
		return "intersect"
	case errors.As(err, &ae) && ae.Name == "size" && errors.Is(err, acmelib.ErrIsZero):
		return "sizeZero"
	case errors.As(err, &ne) && errors.Is(err, acmelib.ErrNotFound):
		return "nodeNotFound"
	case errors.As(err, &ne) && dup:
		hasEnt := errors.As(err, &ent)
		switch {
		case errors.As(err, &add) && hasEnt && ent.Kind == acmelib.EntityKindSignalEnum:
			return "valueNameDuplicated"
		case errors.As(err, &add):
			return "msgNameDuplicated"
		case hasEnt:
			return "nodeNameDuplicated"
		}
		return "sigNameDuplicated"
	}
	return "other:" + eiFirst(err.Error(), 80)
}

// ---- rendering ------------------------------------------------------------------------------------

func ibQ(s string) string { return "\"" + s + "\"" }

func ibMessages(bus *acmelib.Bus) []*acmelib.Message {
	var msgs []*acmelib.Message
	for _, ni := range bus.NodeInterfaces() {
		msgs = append(msgs, ni.SentMessages()...)
	}
	sort.SliceStable(msgs, func(a, b int) bool { return msgs[a].ID() < msgs[b].ID() })
	return msgs
}

func ibShowType(t *acmelib.SignalType) string {
	sg := "u"
	if t.Signed() {
		sg = "s"
	}
	return sprintf("%s,%d,%s,%s,%s,%s,%s", t.Kind(), t.Size(), sg, atRat(t.Min()), atRat(t.Max()), atRat(t.Scale()), atRat(t.Offset()))
}

func ibRender(bus *acmelib.Bus) string {
	var nodes []string
	for _, ni := range bus.NodeInterfaces() {
		n := ni.Node()
		nodes = append(nodes, sprintf("%s#%d:%s", n.Name(), uint32(n.ID()), ibQ(n.Desc())))
	}
	types := map[*acmelib.SignalType]int{}
	units := map[*acmelib.SignalUnit]int{}
	enums := map[*acmelib.SignalEnum]int{}
	var msgs []string
	for _, m := range ibMessages(bus) {
		var rx []string
		for _, r := range m.Receivers() {
			rx = append(rx, r.Node().Name())
		}
		var sigs []string
		for _, s := range m.Signals() {
			switch s.Kind() {
			case acmelib.SignalKindStandard:
				ss, _ := s.ToStandard()
				t := ss.Type()
				if _, ok := types[t]; !ok {
					types[t] = len(types)
				}
				us := "u-"
				if u := ss.Unit(); u != nil {
					if _, ok := units[u]; !ok {
						units[u] = len(units)
					}
					us = sprintf("u%d:%s", units[u], ibQ(u.Symbol()))
				}
				sigs = append(sigs, sprintf("S:%s@%d+%d(t%d:%s;%s;d=%s)", s.Name(), s.GetStartBit(), s.GetSize(),
					types[t], ibShowType(t), us, ibQ(s.Desc())))
			case acmelib.SignalKindEnum:
				es, _ := s.ToEnum()
				e := es.Enum()
				if _, ok := enums[e]; !ok {
					enums[e] = len(enums)
				}
				var vals []string
				for _, v := range e.Values() {
					vals = append(vals, sprintf("%d=%s", v.Index(), ibQ(v.Name())))
				}
				sigs = append(sigs, sprintf("E:%s@%d+%d(e%d:%s,min=%d,vals=%s;d=%s)", s.Name(), s.GetStartBit(), s.GetSize(),
					enums[e], ibQ(e.Name()), e.MinSize(), listStr(vals), ibQ(s.Desc())))
			default:
				sigs = append(sigs, "M:"+s.Name())
			}
		}
		tx := "?"
		if sn := m.SenderNodeInterface(); sn != nil {
			tx = sn.Node().Name()
		}
		msgs = append(msgs, sprintf("{id=%d,n=%s,z=%d,tx=%s,rx=%s,d=%s,sigs=%s}", uint32(m.ID()), m.Name(), m.SizeByte(),
			tx, listStr(rx), ibQ(m.Desc()), listStr(sigs)))
	}
	return sprintf("desc=%s nodes=%s msgs=%s", ibQ(bus.Desc()), listStr(nodes), listStr(msgs))
}

// ---- Exec -------------------------------------------------------------------------------------------

type impbusExec struct{ fs []Finding }

func (impbusStream) NewExec() Exec        { return &impbusExec{} }
func (e *impbusExec) Findings() []Finding { return e.fs }
func (e *impbusExec) find(sig, detail string) {
	if len(e.fs) < 8 {
		prop := "C10"
		if strings.HasPrefix(sig, "c11-") {
			prop = "C11"
		}
		e.fs = append(e.fs, Finding{Prop: prop, Sig: sig, Detail: detail})
	}
}

func (e *impbusExec) Do(line string) string {
	f := fields(line)
	if len(f) < 3 || f[0] != "ib" {
		return "bad-op"
	}
	switch f[1] {
	case "export":
		return e.doExport(f[2], false)
	case "rt":
		return e.doExport(f[2], true)
	case "import":
	default:
		return "bad-op"
	}
	j := &ibFile{}
	if err := json.Unmarshal([]byte(f[2]), j); err != nil {
		return "bad-op json"
	}
	bus, err := acmelib.VerifImportAST(ibFileOf(j))
	if err != nil {
		return "err " + ibCause(err)
	}
	if cls := ibOracle(j, bus); cls != "" {
		e.find("c10-bus:"+cls, f[2])
	}
	return "ok " + ibRender(bus)
}

// ---- oracle C10 (independent of the model) ---------------------------------------------------------

func ibSameSet(a, b []string) bool {
	sa := map[string]bool{}
	for _, x := range a {
		sa[x] = true
	}
	sb := map[string]bool{}
	for _, x := range b {
		sb[x] = true
	}
	if len(sa) != len(sb) || len(a) != len(sa) {
		return false
	}
	for x := range sa {
		if !sb[x] {
			return false
		}
	}
	return true
}

func ibLastComment(j *ibFile, match func(c *ibComment) bool) string {
	res := ""
	for i := range j.CM {
		if match(&j.CM[i]) {
			res = j.CM[i].T
		}
	}
	return res
}

// the clause of C10 the imported bus violates ("" when none)
func ibOracle(j *ibFile, bus *acmelib.Bus) string {
	// nodes: exactly the nodes of the file, plus the placeholder iff a message names it
	want := map[string]bool{}
	for _, n := range j.Nodes {
		if n != dbc.DummyNode {
			want[n] = true
		}
	}
	usesDummy := false
	for _, m := range j.Msgs {
		if m.Tx == dbc.DummyNode {
			usesDummy = true
		}
	}
	if usesDummy {
		want[dbc.DummyNode] = true
	}
	got := bus.NodeInterfaces()
	if len(got) != len(want) {
		return "nodes"
	}
	for _, ni := range got {
		n := ni.Node()
		if !want[n.Name()] {
			return "nodes"
		}
		if n.Name() != dbc.DummyNode && n.Desc() != ibLastComment(j, func(c *ibComment) bool { return c.K == "n" && c.N == n.Name() }) {
			return "node-comment"
		}
	}
	msgs := ibMessages(bus)
	if len(msgs) != len(j.Msgs) {
		return "messages"
	}
	byID := map[uint32]*acmelib.Message{}
	for _, m := range msgs {
		byID[uint32(m.ID())] = m
	}
	type obj struct {
		typ  map[*acmelib.SignalType]string
		unit map[*acmelib.SignalUnit]string
		enum map[*acmelib.SignalEnum]string
	}
	seen := obj{map[*acmelib.SignalType]string{}, map[*acmelib.SignalUnit]string{}, map[*acmelib.SignalEnum]string{}}
	for _, jm := range j.Msgs {
		m := byID[jm.ID]
		if m == nil || uint32(m.GetCANID()) != jm.ID || m.Name() != jm.N || m.SizeByte() != int(jm.Z) {
			return "message"
		}
		if m.SenderNodeInterface() == nil || m.SenderNodeInterface().Node().Name() != jm.Tx {
			return "sender"
		}
		if m.Desc() != ibLastComment(j, func(c *ibComment) bool { return c.K == "m" && c.M == jm.ID }) {
			return "message-comment"
		}
		var rxWant, rxGot []string
		rs := map[string]bool{}
		for _, s := range jm.Sigs {
			for _, r := range s.R {
				if r != dbc.DummyNode && !rs[r] {
					rs[r] = true
					rxWant = append(rxWant, r)
				}
			}
		}
		for _, r := range m.Receivers() {
			rxGot = append(rxGot, r.Node().Name())
			if r.ParentBus() != bus {
				return "receivers"
			}
		}
		if !ibSameSet(rxGot, rxWant) {
			return "receivers"
		}
		if len(m.Signals()) != len(jm.Sigs) {
			return "signals"
		}
		for i := range jm.Sigs {
			js := &jm.Sigs[i]
			s, err := m.GetSignalByName(js.N)
			if err != nil {
				return "signals"
			}
			if s.GetSize() != int(js.Z) || s.GetStartBit() != int(js.S) {
				return "signal-size"
			}
			if s.Desc() != ibLastComment(j, func(c *ibComment) bool { return c.K == "s" && c.M == jm.ID && c.S == js.N }) {
				return "signal-comment"
			}
			var enc *ibEnc
			for k := range j.VE {
				if j.VE[k].M == jm.ID && j.VE[k].S == js.N {
					enc = &j.VE[k]
				}
			}
			if enc != nil {
				es, err := s.ToEnum()
				if err != nil {
					return "enum-kind"
				}
				vals := map[uint32]string{}
				for _, v := range enc.V {
					vals[v.ID] = v.Name
				}
				gv := es.Enum().Values()
				if len(gv) != len(vals) || len(vals) != len(enc.V) {
					return "enum-values"
				}
				var txt []string
				for _, v := range gv {
					if n, ok := vals[uint32(v.Index())]; !ok || n != v.Name() {
						return "enum-values"
					}
					txt = append(txt, sprintf("%d=%s", v.Index(), v.Name()))
				}
				key := sprintf("%d|%s", js.Z, strings.Join(txt, ","))
				if old, ok := seen.enum[es.Enum()]; ok && old != key {
					return "enum-sharing"
				}
				seen.enum[es.Enum()] = key
				continue
			}
			ss, err := s.ToStandard()
			if err != nil {
				return "standard-kind"
			}
			t := ss.Type()
			if t.Size() != int(js.Z) || t.Signed() != (js.Sg != 0) || t.Min() != atF(js.Mn) || t.Max() != atF(js.Mx) ||
				t.Scale() != atF(js.F) || t.Offset() != atF(js.O) {
				return "type-fields"
			}
			key := sprintf("%d|%d|%s|%s|%s|%s", js.Z, js.Sg, js.Mn, js.Mx, js.F, js.O)
			if old, ok := seen.typ[t]; ok && old != key {
				return "type-sharing"
			}
			seen.typ[t] = key
			switch u := ss.Unit(); {
			case u == nil && js.U != "":
				return "unit"
			case u != nil && u.Symbol() != js.U:
				return "unit"
			case u != nil:
				if old, ok := seen.unit[u]; ok && old != js.U {
					return "unit-sharing"
				}
				seen.unit[u] = js.U
			}
		}
	}
	return ""
}

// ---- generators ---------------------------------------------------------------------------------------

var ibNodePool = []string{"N0", "N1", "N2", "N3", "ECU", "Gw"}
var ibValNames = []string{"a", "b", "c", "d", "On", "Off", "Err", "not available"}
var ibValIDs = []uint32{0, 1, 2, 3, 4, 5, 7, 8, 15, 16, 31, 255, 256, 65535, 4294967295}
var ibUnits = []string{"", "", "", "rpm", "V", "km/h", "deg C", "%"}
var ibTexts = []string{"", "x", "hello world", "speed, in km/h", "second line", "ECU of the gateway"}
var ibMsgIDs = []uint32{1, 2, 3, 16, 100, 2047, 2147483649, 4294967295}
var ibMsgNames = []string{"msgA", "msgB", "msgC", "Status", "Cmd"}
var ibSigNames = []string{"s0", "s1", "s2", "s3", "speed", "mode", "flag", "temp"}
var ibSizes = []uint32{1, 1, 2, 3, 4, 8, 8, 12, 16}
var ibFactors = []float64{1, 1, 1, 2, 0.5, 0.1, 0.001, 3, -1, 1e-9, 100}
var ibOffsets = []float64{0, 0, 0, 1, -40, 0.5, 1e10, -273.15}
var ibMins = []float64{0, 0, -1, 0.5, -128, -32768, -1e300}
var ibMaxs = []float64{1, 255, 0, 100.5, 65535, 127, 1e300, 4294967295, 18446744073709551615}

var ibEnumRe = regexp.MustCompile(`\(e(\d+):"([^"]*)"`)
var ibMinRe = regexp.MustCompile(`,min=([2-9]|\d\d)`)

type ibShape struct {
	sg           int
	f, o, mn, mx float64
	z            uint32
}

func ibRndShape(r *rand.Rand) ibShape {
	if r.Intn(6) == 0 {
		// the shape of a flag (with one field off now and then)
		s := ibShape{0, 1, 0, 0, 1, 1}
		switch r.Intn(9) {
		case 5:
			s.z = 2
		case 0:
			s.sg = 1
		case 1:
			s.mx = 2
		case 2:
			s.mn = -1
		case 3:
			s.o = 1
		case 4:
			s.f = 2
		}
		return s
	}
	return ibShape{r.Intn(3) / 2, pick(r, ibFactors...), pick(r, ibOffsets...), pick(r, ibMins...), pick(r, ibMaxs...), pick(r, ibSizes...)}
}

// one field of the shape is changed
func ibNear(r *rand.Rand, s ibShape) ibShape {
	switch r.Intn(6) {
	case 5:
		s.z = pick(r, ibSizes...)
	case 0:
		s.sg = 1 - s.sg
	case 1:
		s.f = pick(r, ibFactors...)
	case 2:
		s.o = pick(r, ibOffsets...)
	case 3:
		s.mn = pick(r, ibMins...)
	default:
		s.mx = pick(r, ibMaxs...)
	}
	return s
}

// ibTwins returns shapes that carry the numbers of s in other fields: (factor 1, offset k) and
// (factor k, offset 0); minimum / maximum exchanged with offset / factor; defaults on one side.
func ibTwins(r *rand.Rand, s ibShape) []ibShape {
	k := pick(r, 2, 3, 100, 0.5, -1, 255)
	a, b := s, s
	switch r.Intn(4) {
	case 0:
		a.f, a.o = 1, k
		b.f, b.o = k, 0
	case 1:
		a.f, a.o = k, 1
		b.f, b.o = 1, k
	case 2:
		a.mx, a.f = k, 1
		b.mx, b.f = 1, k
	default:
		a.mn, a.mx, a.f, a.o = 0, k, 1, 0
		b.mn, b.mx, b.f, b.o = 0, 0, k, 0
	}
	return []ibShape{a, b}
}

func ibRndVals(r *rand.Rand, n int, maxID uint32) []ibVal {
	var vs []ibVal
	usedI := map[uint32]bool{}
	usedN := map[string]bool{}
	for len(vs) < n {
		id := pick(r, ibValIDs...)
		if r.Intn(2) == 0 {
			id = uint32(r.Intn(9))
		}
		if id > maxID {
			id = uint32(r.Int63n(int64(maxID) + 1))
		}
		name := pick(r, ibValNames...)
		if r.Intn(3) == 0 {
			name = sprintf("v%d", r.Intn(40))
		}
		// duplicates are rare
		if (usedI[id] || usedN[name]) && r.Intn(80) != 0 {
			if len(usedI) > int(maxID) {
				break
			}
			continue
		}
		usedI[id], usedN[name] = true, true
		vs = append(vs, ibVal{id, name})
	}
	return vs
}

func ibNatSize(vs []ibVal) uint32 {
	var mx uint32
	for _, v := range vs {
		if v.ID > mx {
			mx = v.ID
		}
	}
	return uint32(acmelib.VerifCalcSizeFromValue(int(mx)))
}

func ibShuffle(r *rand.Rand, vs []ibVal) []ibVal {
	res := append([]ibVal{}, vs...)
	r.Shuffle(len(res), func(a, b int) { res[a], res[b] = res[b], res[a] })
	return res
}

type ibPlanSig struct {
	sig ibSig
	enc []ibVal // nil = no VAL_
	has bool
}

func ibGenFile(r *rand.Rand, tier string) *ibFile {
	j := &ibFile{}
	// nodes
	nn := r.Intn(5)
	perm := r.Perm(len(ibNodePool))
	for i := 0; i < nn; i++ {
		j.Nodes = append(j.Nodes, ibNodePool[perm[i]])
	}
	if nn > 0 && r.Intn(30) == 0 {
		j.Nodes = append(j.Nodes, j.Nodes[r.Intn(nn)]) // the same node twice
	}
	if r.Intn(12) == 0 {
		k := r.Intn(len(j.Nodes) + 1)
		j.Nodes = append(j.Nodes[:k:k], append([]string{dbc.DummyNode}, j.Nodes[k:]...)...) // the placeholder listed in BU_
	}
	if tier == "thorough" && r.Intn(150) == 0 {
		// more than 1024 nodes: the id of the placeholder is in the middle, or taken
		for i := 0; i < 1020+r.Intn(3); i++ {
			j.Nodes = append(j.Nodes, sprintf("X%d", i))
		}
		if r.Intn(2) == 0 {
			j.Nodes = append(j.Nodes, dbc.DummyNode)
		}
		j.Nodes = append(j.Nodes, "Y0", "Y1", "Y2")
	}
	realNodes := []string{}
	for _, n := range j.Nodes {
		if n != dbc.DummyNode {
			realNodes = append(realNodes, n)
		}
	}
	// global value tables
	for i, nt := 0, r.Intn(4); i < nt; i++ {
		t := ibTable{N: sprintf("Tab%d", i), V: ibRndVals(r, r.Intn(6), 4294967295)}
		if i > 0 && r.Intn(8) == 0 {
			t.V = ibShuffle(r, j.VT[i-1].V) // two tables with the same values
		}
		j.VT = append(j.VT, t)
	}
	// type shapes of the file
	shapes := []ibShape{ibRndShape(r), ibRndShape(r), ibRndShape(r)}
	if r.Intn(3) == 0 {
		// twins: the same numbers, moved between neighbouring fields of the type key (a key that
		// leaves out defaults, or glues fields without a separator, confuses exactly these)
		shapes = append(shapes, ibTwins(r, shapes[0])...)
	}
	// messages
	nm := r.Intn(5)
	idPerm := r.Perm(len(ibMsgIDs))
	for mi := 0; mi < nm; mi++ {
		m := ibMsg{ID: ibMsgIDs[idPerm[mi]], N: sprintf("msg%c", 'A'+mi), Z: 8}
		if r.Intn(40) == 0 && mi > 0 {
			m.ID = j.Msgs[r.Intn(mi)].ID
		}
		if r.Intn(6) == 0 {
			m.N = pick(r, ibMsgNames...)
		}
		switch r.Intn(20) {
		case 0:
			m.Z = uint32(r.Intn(8))
		case 1:
			if r.Intn(3) == 0 {
				m.Z = 9 + uint32(r.Intn(3))
			}
		}
		switch x := r.Intn(100); {
		case x < 70 && len(realNodes) > 0:
			m.Tx = realNodes[r.Intn(len(realNodes))]
		case x < 96:
			m.Tx = dbc.DummyNode
		case x < 98:
			m.Tx = "Nobody"
		default:
			m.Tx = ""
		}
		// the signals: what they are, then where they are
		var plan []ibPlanSig
		ns := r.Intn(7)
		namePerm := r.Perm(len(ibSigNames))
		for si := 0; si < ns; si++ {
			sh := shapes[r.Intn(len(shapes))]
			if r.Intn(5) == 0 {
				sh = ibNear(r, sh)
			}
			if r.Intn(8) == 0 {
				sh = ibRndShape(r)
			}
			s := ibSig{N: ibSigNames[namePerm[si]], Z: sh.z, Sg: sh.sg,
				F: atRat(sh.f), O: atRat(sh.o), Mn: atRat(sh.mn), Mx: atRat(sh.mx), U: pick(r, ibUnits...)}
			if si > 0 && r.Intn(120) == 0 {
				s.N = plan[r.Intn(si)].sig.N
			}
			if r.Intn(60) == 0 {
				s.Z = 0
			}
			// receivers
			for k, nr := 0, r.Intn(4); k < nr; k++ {
				switch x := r.Intn(100); {
				case x < 70 && len(realNodes) > 0:
					rec := realNodes[r.Intn(len(realNodes))]
					if rec == m.Tx && r.Intn(40) != 0 {
						continue
					}
					s.R = append(s.R, rec)
				case x < 99 || r.Intn(3) != 0:
					s.R = append(s.R, dbc.DummyNode)
				default:
					s.R = append(s.R, "Nobody")
				}
			}
			if len(s.R) == 0 && r.Intn(4) != 0 {
				s.R = []string{dbc.DummyNode}
			}
			p := ibPlanSig{sig: s}
			if r.Intn(3) == 0 {
				p.has = true
				switch x := r.Intn(10); {
				case x < 4 && len(j.VT) > 0:
					t := j.VT[r.Intn(len(j.VT))]
					p.enc = ibShuffle(r, t.V)
					switch r.Intn(8) {
					case 0:
						if len(p.enc) > 0 {
							p.enc = p.enc[:len(p.enc)-1] // a prefix of the table
						}
					case 1:
						p.enc = append(p.enc, ibVal{uint32(20 + r.Intn(5)), "extra"})
					case 2:
						if len(p.enc) > 0 {
							p.enc[0].Name = "renamed"
						}
					}
				case x == 9:
					p.enc = []ibVal{} // VAL_ without values
				default:
					p.enc = ibRndVals(r, 1+r.Intn(5), (uint32(1)<<pick(r, uint32(1), 2, 3, 4, 8))-1)
				}
				nat := ibNatSize(p.enc)
				switch r.Intn(10) {
				case 0, 1, 2, 3:
					p.sig.Z = nat
				case 4, 5, 6:
					p.sig.Z = nat + uint32(1+r.Intn(3))
				case 7:
					if p.sig.Z < nat {
						p.sig.Z = nat
					}
				case 8:
					if r.Intn(3) == 0 && nat > 1 {
						p.sig.Z = nat - 1
					} else {
						p.sig.Z = nat
					}
				}
			}
			plan = append(plan, p)
		}
		// places: disjoint, in a random order of the list
		cursor := uint32(0)
		for k := 0; k < len(plan); k++ {
			s := &plan[k].sig
			if cursor+s.Z > 8*m.Z && r.Intn(15) != 0 {
				// no room left: the signal is dropped
				plan = append(plan[:k], plan[k+1:]...)
				k--
				continue
			}
			if r.Intn(3) == 0 {
				cursor += uint32(r.Intn(4))
			}
			s.S = cursor
			if k > 0 && r.Intn(50) == 0 {
				s.S = plan[k-1].sig.S + uint32(r.Intn(2)) // overlapping
			}
			cursor = s.S + s.Z
		}
		order := r.Perm(len(plan))
		for _, k := range order {
			m.Sigs = append(m.Sigs, plan[k].sig)
		}
		for _, k := range r.Perm(len(plan)) {
			if plan[k].has {
				j.VE = append(j.VE, ibEnc{M: m.ID, S: plan[k].sig.N, V: plan[k].enc})
				if r.Intn(25) == 0 {
					j.VE = append(j.VE, ibEnc{M: m.ID, S: plan[k].sig.N, V: ibRndVals(r, 1+r.Intn(3), 3)}) // a second VAL_ of the signal
				}
			}
		}
		j.Msgs = append(j.Msgs, m)
	}
	// families: several signals (with or without a message of their own size) on one table
	if len(j.VT) > 0 && len(j.Msgs) > 0 && r.Intn(2) == 0 {
		t := j.VT[r.Intn(len(j.VT))]
		if len(t.V) > 0 {
			nat := ibNatSize(t.V)
			for k, n := 0, 2+r.Intn(3); k < n; k++ {
				mi := r.Intn(len(j.Msgs))
				m := &j.Msgs[mi]
				end := uint32(0)
				for _, s := range m.Sigs {
					if s.S+s.Z > end {
						end = s.S + s.Z
					}
				}
				z := nat + pick(r, uint32(0), 0, 1, 1, 2, 5)
				if r.Intn(12) == 0 && nat > 1 {
					z = nat - 1
				}
				name := sprintf("fam%d", k)
				m.Sigs = append(m.Sigs, ibSig{N: name, S: end, Z: z, F: "1/1", O: "0/1", Mn: "0/1", Mx: "0/1", R: []string{dbc.DummyNode}})
				j.VE = append(j.VE, ibEnc{M: m.ID, S: name, V: ibShuffle(r, t.V)})
			}
		}
	}
	// VAL_ of signals / messages that do not exist
	if r.Intn(10) == 0 {
		j.VE = append(j.VE, ibEnc{M: pick(r, ibMsgIDs...), S: pick(r, ibSigNames...), V: ibRndVals(r, r.Intn(4), 255)})
	}
	r.Shuffle(len(j.VE), func(a, b int) { j.VE[a], j.VE[b] = j.VE[b], j.VE[a] })
	// comments
	for k, nc := 0, r.Intn(6); k < nc; k++ {
		c := ibComment{T: pick(r, ibTexts...)}
		switch r.Intn(4) {
		case 0:
			c.K = "g"
		case 1:
			c.K = "n"
			c.N = pick(r, append([]string{dbc.DummyNode, "Nobody"}, ibNodePool...)...)
			if len(realNodes) > 0 && r.Intn(2) == 0 {
				c.N = realNodes[r.Intn(len(realNodes))]
			}
		case 2:
			c.K = "m"
			c.M = pick(r, ibMsgIDs...)
			if len(j.Msgs) > 0 {
				c.M = j.Msgs[r.Intn(len(j.Msgs))].ID
			}
		default:
			c.K = "s"
			c.M = pick(r, ibMsgIDs...)
			c.S = pick(r, ibSigNames...)
			if len(j.Msgs) > 0 {
				m := j.Msgs[r.Intn(len(j.Msgs))]
				c.M = m.ID
				if len(m.Sigs) > 0 {
					c.S = m.Sigs[r.Intn(len(m.Sigs))].N
				}
			}
		}
		j.CM = append(j.CM, c)
	}
	return j
}

// crafted documents: more than 1024 nodes (the placeholder's id in the middle of the ids, or taken),
// and the enum objects of several signals of different sizes on one table, in every order
func (impbusStream) Exhaustive(tier string) [][]string {
	var res [][]string
	plain := func(name string, start, size uint32) ibSig {
		return ibSig{N: name, S: start, Z: size, F: "1/1", O: "0/1", Mn: "0/1", Mx: "0/1", R: []string{dbc.DummyNode}}
	}
	for variant := 0; variant < 4; variant++ {
		j := &ibFile{}
		for i := 0; i < 1024; i++ {
			j.Nodes = append(j.Nodes, sprintf("X%d", i))
		}
		if variant != 3 {
			j.Nodes = append(j.Nodes, dbc.DummyNode)
		}
		j.Nodes = append(j.Nodes, "Y0", "Y1")
		j.Msgs = append(j.Msgs, ibMsg{ID: 1, N: "msgA", Z: 8, Tx: "Y1", Sigs: []ibSig{plain("s0", 0, 8)}})
		if variant >= 1 {
			j.Msgs = append(j.Msgs, ibMsg{ID: 2, N: "msgB", Z: 8, Tx: dbc.DummyNode, Sigs: []ibSig{{N: "s0", S: 0, Z: 8, F: "1/1", O: "0/1", Mn: "0/1", Mx: "0/1", R: []string{"Y0", "X3"}}}})
		}
		if variant == 2 {
			j.CM = append(j.CM, ibComment{K: "n", N: "Y0", T: "late node"}, ibComment{K: "n", N: dbc.DummyNode, T: "nobody"})
		}
		res = append(res, []string{"ib import " + encJSON(j)})
	}
	table := []ibVal{{0, "a"}, {1, "b"}, {2, "c"}}
	for _, sizes := range [][]uint32{{2, 2}, {4, 2}, {2, 4}, {4, 4}, {4, 4, 2}, {2, 4, 4, 5}, {4, 2, 4, 2}, {5, 4, 2, 2, 5}, {1, 2}, {4, 1}, {2, 4, 1}} {
		for _, global := range []bool{true, false} {
			for _, oneMsg := range []bool{true, false} {
				j := &ibFile{}
				if global {
					j.VT = []ibTable{{N: "Tab", V: table}}
				}
				if oneMsg {
					j.Msgs = []ibMsg{{ID: 1, N: "msgA", Z: 8, Tx: dbc.DummyNode}}
				}
				cursor := uint32(0)
				for k, z := range sizes {
					name := sprintf("e%d", k)
					if oneMsg {
						j.Msgs[0].Sigs = append(j.Msgs[0].Sigs, plain(name, cursor, z))
						cursor += z
						j.VE = append(j.VE, ibEnc{M: 1, S: name, V: table})
					} else {
						j.Msgs = append(j.Msgs, ibMsg{ID: uint32(k + 1), N: sprintf("msg%c", 'A'+k), Z: 8, Tx: dbc.DummyNode, Sigs: []ibSig{plain(name, 0, z)}})
						j.VE = append(j.VE, ibEnc{M: uint32(k + 1), S: name, V: table})
					}
				}
				res = append(res, []string{"ib import " + encJSON(j)})
			}
		}
	}
	// export + import of a bus with more than 1024 nodes: refused (the id of the placeholder is
	// taken by the node in position 1024) unless that node is named like the placeholder
	for variant := 0; variant < 2; variant++ {
		jb := &ibJBus{Nodes: []ibJNode{}, Types: []ibJType{}, Units: []string{}, Enums: []ibJEnum{}, Msgs: []ibJMMsg{}}
		for i := 0; i < 1026; i++ {
			n := ibJNode{N: sprintf("X%d", i), ID: uint32(2 * i)}
			if variant == 1 && i == 1024 {
				n.N = dbc.DummyNode
			}
			jb.Nodes = append(jb.Nodes, n)
		}
		jb.Msgs = append(jb.Msgs, ibJMMsg{ID: 1, N: "msgA", Z: 8, Tx: "X1025", Rx: []string{"X0"}, Sigs: []ibJMSig{}})
		res = append(res, []string{"ib rt " + encJSON(jb)})
	}
	// the order of the checks: documents with two defects
	one := func(j *ibFile) { res = append(res, []string{"ib import " + encJSON(j)}) }
	twoDup := []ibVal{{1, "a"}, {2, "a"}, {1, "b"}}
	one(&ibFile{VE: []ibEnc{{M: 1, S: "e", V: twoDup}}})
	one(&ibFile{VT: []ibTable{{N: "Tab", V: twoDup}}})
	one(&ibFile{VT: []ibTable{{N: "Tab", V: []ibVal{{2, "a"}, {1, "a"}, {1, "b"}}}}})
	one(&ibFile{VT: []ibTable{{N: "Tab", V: twoDup}}, Nodes: []string{"A", "A"}})
	msg := func(id uint32, name string, z uint32, tx string, sigs ...ibSig) ibMsg {
		return ibMsg{ID: id, N: name, Z: z, Tx: tx, Sigs: sigs}
	}
	rx := func(s ibSig, r ...string) ibSig { s.R = r; return s }
	nodes := []string{"A", "B"}
	one(&ibFile{Nodes: nodes, Msgs: []ibMsg{msg(1, "msgA", 8, "A"), msg(2, "msgA", 9, "A")}})                                // name, then size
	one(&ibFile{Nodes: nodes, Msgs: []ibMsg{msg(1, "msgA", 8, "A"), msg(1, "msgB", 9, "A")}})                                // size, then CAN-ID
	one(&ibFile{Nodes: nodes, Msgs: []ibMsg{msg(1, "msgA", 8, "A"), msg(1, "msgA", 8, "A")}})                                // name, then CAN-ID
	one(&ibFile{Nodes: nodes, Msgs: []ibMsg{msg(1, "msgA", 8, "A"), msg(1, "msgA", 8, "B")}})                                // another sender: CAN-ID
	one(&ibFile{Nodes: nodes, Msgs: []ibMsg{msg(1, "msgA", 8, "A"), msg(2, "msgA", 9, "A", rx(plain("s", 0, 8), "A"))}})     // receiver is sender, then name
	one(&ibFile{Nodes: nodes, Msgs: []ibMsg{msg(1, "msgA", 8, "Z", rx(plain("s", 0, 8), "Y"))}})                             // unknown receiver, unknown sender
	one(&ibFile{Nodes: nodes, Msgs: []ibMsg{msg(1, "msgA", 9, "Z", plain("s", 70, 8))}})                                     // bounds, then sender
	one(&ibFile{Nodes: nodes, Msgs: []ibMsg{msg(1, "msgA", 8, "Z", plain("s", 0, 8), plain("s", 8, 8))}})                    // signal name, then sender
	one(&ibFile{Nodes: nodes, Msgs: []ibMsg{msg(1, "msgA", 8, "A", plain("s", 60, 8), plain("t", 0, 8), plain("t", 8, 8))}}) // name (later in the order), bounds
	one(&ibFile{Nodes: nodes, Msgs: []ibMsg{msg(1, "msgA", 8, "A", plain("s", 0, 8), plain("t", 4, 0))}})                    // size zero, then overlap
	one(&ibFile{Nodes: nodes, VE: []ibEnc{{M: 1, S: "t", V: []ibVal{{9, "x"}}}},
		Msgs: []ibMsg{msg(1, "msgA", 8, "A", plain("s", 0, 8), plain("t", 4, 2))}}) // value does not fit, then overlap
	one(&ibFile{Nodes: nodes, VE: []ibEnc{{M: 1, S: "t", V: []ibVal{{9, "x"}}}},
		Msgs: []ibMsg{msg(1, "msgA", 8, "A", plain("s", 0, 8), plain("t", 4, 4))}}) // overlap of an enum signal
	one(&ibFile{Nodes: nodes, Msgs: []ibMsg{msg(1, "msgA", 8, "A", plain("s", 0, 8), plain("t", 4, 4)), msg(2, "msgB", 8, "Z")}}) // overlap in the first message
	one(&ibFile{Nodes: []string{"A", "A"}, Msgs: []ibMsg{msg(1, "msgA", 8, "Z")}})                                                // nodes before messages
	one(&ibFile{Nodes: []string{"A", "A"}, VE: []ibEnc{{M: 1, S: "e", V: twoDup}}})                                               // value encodings before nodes
	return res
}

func (impbusStream) Gen(r *rand.Rand, tier string, idx int) []string {
	n := 6
	if tier == "thorough" {
		n = 14
	}
	var lines []string
	for i := 0; i < n; i++ {
		if i%3 == 2 {
			// a generated bus: export, round trip, the importer model on the real export
			lines = append(lines, ibExportLines(ibGenBus(r, tier))...)
			continue
		}
		file := ibGenFile(r, tier)
		lines = append(lines, "ib import "+encJSON(file))
		// the bus of an accepted real import goes through the exporter (model and code) as well
		if bus, err := acmelib.VerifImportAST(ibFileOf(file)); err == nil && len(file.Nodes) < 100 {
			lines = append(lines, ibExportLines(ibBusOf(bus))...)
		}
	}
	return lines
}

// the annotation ` ##…` of an answer is for the histogram only
func (impbusStream) Same(a, b string) bool {
	cut := func(s string) string {
		if i := strings.Index(s, " ##"); i >= 0 {
			return s[:i]
		}
		return s
	}
	return cut(a) == cut(b)
}

func (impbusStream) Tag(lines, outs []string) (bool, []string) {
	var tags []string
	for li, o := range outs {
		if f := fields(lines[li]); len(f) > 1 && f[1] != "import" {
			// export / round trip
			head := o
			if i := strings.Index(o, " "); i >= 0 {
				head = o[:i]
			}
			tags = append(tags, f[1]+":"+eiFirst(head, 30))
			if i := strings.Index(o, " ##"); i >= 0 {
				for _, t := range strings.Split(o[i+3:], ",") {
					tags = append(tags, f[1]+":"+t)
				}
			}
			if f[1] == "export" && strings.HasPrefix(o, "ok ") {
				for _, w := range []string{`"vt":[{`, `"cm":[{`, `"r":["Vector__XXX"]`, `"sigs":[]`} {
					if strings.Contains(o, w) {
						tags = append(tags, "export:has:"+w)
					}
				}
			}
			continue
		}
		switch {
		case strings.HasPrefix(o, "ok "):
			tags = append(tags, "ok")
			for _, w := range []string{":flag,", ":integer,", ":decimal,", "E:", "tx=" + dbc.DummyNode, "t1:", "t2:", "e1:", "u1:", "rx=[]"} {
				if strings.Contains(o, w) {
					tags = append(tags, "ok:"+strings.Trim(w, ":,"))
				}
			}
			names := map[string]string{}
			clone, shared := false, false
			for _, mt := range ibEnumRe.FindAllStringSubmatch(o, -1) {
				if c, ok := names[mt[2]]; ok && c != mt[1] {
					clone = true
				} else if ok {
					shared = true
				}
				names[mt[2]] = mt[1]
			}
			if clone {
				tags = append(tags, "ok:enum:two-objects-one-name")
			}
			if shared {
				tags = append(tags, "ok:enum:shared")
			}
			if ibMinRe.MatchString(o) {
				tags = append(tags, "ok:enum:min>1")
			}
			for _, cls := range []string{"t0:", "e0:", "u0:"} {
				if strings.Count(o, "("+cls)+strings.Count(o, ";"+cls) > 1 {
					tags = append(tags, "ok:shared:"+strings.Trim(cls, ":"))
				}
			}
		case strings.HasPrefix(o, "err "):
			tags = append(tags, strings.Replace(o, " ", ":", 1))
		default:
			tags = append(tags, eiFirst(o, 12))
		}
	}
	return true, tags
}
