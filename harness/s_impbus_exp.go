package main

import (
	"encoding/json"
	"math/rand"
	"sort"
	"strings"

	"github.com/squadracorsepolito/acmelib"
	"github.com/squadracorsepolito/acmelib/dbc"
)

// stream impbus, EXPORT direction and round trip (property C11 at the bus level): the model
// Acme.ExportBus (exportBus) against exporter.exportBus, and importBus ∘ exportBus against
// VerifImportAST ∘ VerifExportAST.
//
//	ib export <mbus-json>   the bus is built through the PUBLIC API (NewNode, AddNodeInterface,
//	                        New…SignalType + SetMin …, NewSignalUnit, NewSignalEnum + AddValue +
//	                        SetMinSize, NewStandardSignal / NewEnumSignal, InsertSignal,
//	                        SetStaticCANID, AddSentMessage, AddReceiver, SetDesc), VerifExportAST builds
//	                        the document, whose bus-level part is printed as the canonical
//	                        dfile-json (the input format of `ib import`)
//	ib rt <mbus-json>       the same bus is exported and the document imported again (real code:
//	                        VerifImportAST on the exported AST; model: importBus (exportBus b)); the
//	                        resulting bus is rendered like the answer of `ib import`
//
// Generators: (a) buses made from a description (nodes with ids out of order, messages with and
// without receivers / signals, descriptions, shared types / units / enums, enums wider than
// needed, flag / integer / decimal / custom types, equal names where the API allows), (b) the bus
// read back from every accepted real import; every real export is handed to the importer model
// (`ib import <exported>`).
//
// Oracle (Go side only, property C11, independent of the model): after `ib rt` on a bus of the
// class of theorem Acme.Props.C11Bus.bus_roundtrip (what the public API guarantees, and at most
// 1024 nodes) the re-imported bus is compared with the normal form of the original (`normB`): "c11-bus:<class>".  The information that is lost
// by design is reported as histogram tags `loss:<item>` (annotation ` ##…` on the answer, which
// the comparison ignores).

// ---- JSON of a bus ------------------------------------------------------------------------------

type ibJNode struct {
	N  string `json:"n"`
	ID uint32 `json:"id"`
	D  string `json:"d"`
}

type ibJType struct {
	K  string `json:"k"`
	Z  int    `json:"z"`
	Sg int    `json:"sg"`
	Mn string `json:"mn"`
	Mx string `json:"mx"`
	Sc string `json:"sc"`
	Of string `json:"of"`
}

type ibJEnum struct {
	N   string  `json:"n"`
	Min int     `json:"min"`
	V   []ibVal `json:"v"`
}

type ibJMSig struct {
	N string `json:"n"`
	S int    `json:"s"`
	D string `json:"d"`
	T *int   `json:"t,omitempty"`
	U *int   `json:"u,omitempty"`
	E *int   `json:"e,omitempty"`
}

type ibJMMsg struct {
	ID   uint32    `json:"id"`
	N    string    `json:"n"`
	Z    int       `json:"z"`
	Tx   string    `json:"tx"`
	Rx   []string  `json:"rx"`
	D    string    `json:"d"`
	Sigs []ibJMSig `json:"sigs"`
}

type ibJBus struct {
	Desc  string    `json:"desc"`
	Nodes []ibJNode `json:"nodes"`
	Types []ibJType `json:"types"`
	Units []string  `json:"units"`
	Enums []ibJEnum `json:"enums"`
	Msgs  []ibJMMsg `json:"msgs"`
}

func ibP(i int) *int { return &i }

// ---- building the bus through the public API ---------------------------------------------------

func ibBuild(j *ibJBus) (bus *acmelib.Bus, bad string) {
	defer func() {
		if r := recover(); r != nil {
			bus, bad = nil, "invalid:panic"
		}
	}()
	bus = acmelib.NewBus("bus")
	bus.SetDesc(j.Desc)
	nodes := map[string]*acmelib.NodeInterface{}
	for _, n := range j.Nodes {
		node := acmelib.NewNode(n.N, acmelib.NodeID(n.ID), 1)
		node.SetDesc(n.D)
		ni := node.Interfaces()[0]
		if err := bus.AddNodeInterface(ni); err != nil {
			return nil, "invalid:node:" + ibCause(err)
		}
		nodes[n.N] = ni
	}
	var types []*acmelib.SignalType
	for i, t := range j.Types {
		name := sprintf("type%d", i)
		var st *acmelib.SignalType
		var err error
		switch t.K {
		case "flag":
			st = acmelib.NewFlagSignalType(name)
		case "integer":
			st, err = acmelib.NewIntegerSignalType(name, t.Z, t.Sg != 0)
		case "decimal":
			st, err = acmelib.NewDecimalSignalType(name, t.Z, t.Sg != 0)
		default:
			st, err = acmelib.NewCustomSignalType(name, t.Z, t.Sg != 0, atF(t.Mn), atF(t.Mx), atF(t.Sc), atF(t.Of))
		}
		if err != nil {
			return nil, "invalid:type:" + ibCause(err)
		}
		if t.K == "integer" || t.K == "decimal" {
			st.SetMin(atF(t.Mn))
			st.SetMax(atF(t.Mx))
			st.SetScale(atF(t.Sc))
			st.SetOffset(atF(t.Of))
		}
		types = append(types, st)
	}
	var units []*acmelib.SignalUnit
	for i, u := range j.Units {
		units = append(units, acmelib.NewSignalUnit(sprintf("unit%d", i), acmelib.SignalUnitKindCustom, u))
	}
	var enums []*acmelib.SignalEnum
	for _, e := range j.Enums {
		se := acmelib.NewSignalEnum(e.N)
		for _, v := range e.V {
			if err := se.AddValue(acmelib.NewSignalEnumValue(v.Name, int(v.ID))); err != nil {
				return nil, "invalid:enum:" + ibCause(err)
			}
		}
		if err := se.SetMinSize(e.Min); err != nil {
			return nil, "invalid:enum:" + ibCause(err)
		}
		enums = append(enums, se)
	}
	for _, m := range j.Msgs {
		msg := acmelib.NewMessage(m.N, acmelib.MessageID(m.ID), m.Z)
		if err := msg.SetStaticCANID(acmelib.CANID(m.ID)); err != nil {
			return nil, "invalid:canid:" + ibCause(err)
		}
		msg.SetDesc(m.D)
		for _, s := range m.Sigs {
			var sig acmelib.Signal
			if s.E != nil {
				if *s.E >= len(enums) {
					return nil, "invalid:index"
				}
				es, err := acmelib.NewEnumSignal(s.N, enums[*s.E])
				if err != nil {
					return nil, "invalid:signal:" + ibCause(err)
				}
				sig = es
			} else {
				if s.T == nil || *s.T >= len(types) || (s.U != nil && *s.U >= len(units)) {
					return nil, "invalid:index"
				}
				ss, err := acmelib.NewStandardSignal(s.N, types[*s.T])
				if err != nil {
					return nil, "invalid:signal:" + ibCause(err)
				}
				if s.U != nil && *s.U >= 0 {
					ss.SetUnit(units[*s.U])
				}
				sig = ss
			}
			sig.SetDesc(s.D)
			if err := msg.InsertSignal(sig, s.S); err != nil {
				return nil, "invalid:insert:" + ibCause(err)
			}
		}
		tx := nodes[m.Tx]
		if tx == nil {
			return nil, "invalid:sender"
		}
		if err := tx.AddSentMessage(msg); err != nil {
			return nil, "invalid:message:" + ibCause(err)
		}
		for _, r := range m.Rx {
			rn := nodes[r]
			if rn == nil {
				return nil, "invalid:receiver"
			}
			if err := msg.AddReceiver(rn); err != nil {
				return nil, "invalid:receiver:" + ibCause(err)
			}
		}
	}
	return bus, ""
}

// ---- the bus read back into its JSON ---------------------------------------------------------------

func ibKindName(k acmelib.SignalTypeKind) string { return k.String() }

func ibBusOf(bus *acmelib.Bus) *ibJBus {
	j := &ibJBus{Desc: bus.Desc(), Nodes: []ibJNode{}, Types: []ibJType{}, Units: []string{}, Enums: []ibJEnum{}, Msgs: []ibJMMsg{}}
	for _, ni := range bus.NodeInterfaces() {
		n := ni.Node()
		j.Nodes = append(j.Nodes, ibJNode{N: n.Name(), ID: uint32(n.ID()), D: n.Desc()})
	}
	types := map[*acmelib.SignalType]int{}
	units := map[*acmelib.SignalUnit]int{}
	enums := map[*acmelib.SignalEnum]int{}
	for _, m := range ibMessages(bus) {
		jm := ibJMMsg{ID: uint32(m.ID()), N: m.Name(), Z: m.SizeByte(), Tx: m.SenderNodeInterface().Node().Name(), Rx: []string{}, D: m.Desc(), Sigs: []ibJMSig{}}
		for _, r := range m.Receivers() {
			jm.Rx = append(jm.Rx, r.Node().Name())
		}
		for _, s := range m.Signals() {
			js := ibJMSig{N: s.Name(), S: s.GetStartBit(), D: s.Desc()}
			switch s.Kind() {
			case acmelib.SignalKindStandard:
				ss, _ := s.ToStandard()
				t := ss.Type()
				if _, ok := types[t]; !ok {
					types[t] = len(types)
					sg := 0
					if t.Signed() {
						sg = 1
					}
					j.Types = append(j.Types, ibJType{K: ibKindName(t.Kind()), Z: t.Size(), Sg: sg, Mn: atRat(t.Min()), Mx: atRat(t.Max()), Sc: atRat(t.Scale()), Of: atRat(t.Offset())})
				}
				js.T = ibP(types[t])
				js.U = ibP(-1)
				if u := ss.Unit(); u != nil {
					if _, ok := units[u]; !ok {
						units[u] = len(units)
						j.Units = append(j.Units, u.Symbol())
					}
					js.U = ibP(units[u])
				}
			case acmelib.SignalKindEnum:
				es, _ := s.ToEnum()
				e := es.Enum()
				if _, ok := enums[e]; !ok {
					enums[e] = len(enums)
					je := ibJEnum{N: e.Name(), Min: e.MinSize(), V: []ibVal{}}
					for _, v := range e.Values() {
						je.V = append(je.V, ibVal{uint32(v.Index()), v.Name()})
					}
					j.Enums = append(j.Enums, je)
				}
				js.E = ibP(enums[e])
			default:
				continue
			}
			jm.Sigs = append(jm.Sigs, js)
		}
		j.Msgs = append(j.Msgs, jm)
	}
	return j
}

// ---- the exported document as canonical dfile-json ----------------------------------------------------

func ibJStr(s string) string {
	var b strings.Builder
	b.WriteByte('"')
	for _, c := range s {
		switch c {
		case ' ':
			b.WriteString("\\u0020")
		case '"':
			b.WriteString("\\\"")
		case '\\':
			b.WriteString("\\\\")
		default:
			b.WriteRune(c)
		}
	}
	b.WriteByte('"')
	return b.String()
}

func ibJVals(vs []*dbc.ValueDescription) string {
	var o []string
	for _, v := range vs {
		o = append(o, sprintf("[%d,%s]", v.ID, ibJStr(v.Name)))
	}
	return listStr(o)
}

func ibJStrs(l []string) string {
	var o []string
	for _, s := range l {
		o = append(o, ibJStr(s))
	}
	return listStr(o)
}

func ibShowFile(f *dbc.File) string {
	var names []string
	if f.Nodes != nil {
		names = f.Nodes.Names
	}
	tabs := append([]*dbc.ValueTable{}, f.ValueTables...)
	// tables of one name are ordered by the entity id of the enum in the code: compared as a set
	sort.SliceStable(tabs, func(a, b int) bool {
		if tabs[a].Name != tabs[b].Name {
			return tabs[a].Name < tabs[b].Name
		}
		return ibJVals(tabs[a].Values) < ibJVals(tabs[b].Values)
	})
	var vt, ve, cm, msgs []string
	for _, t := range tabs {
		vt = append(vt, sprintf("{\"n\":%s,\"v\":%s}", ibJStr(t.Name), ibJVals(t.Values)))
	}
	for _, e := range f.ValueEncodings {
		if e.Kind != dbc.ValueEncodingSignal {
			continue
		}
		ve = append(ve, sprintf("{\"m\":%d,\"s\":%s,\"v\":%s}", e.MessageID, ibJStr(e.SignalName), ibJVals(e.Values)))
	}
	for _, c := range f.Comments {
		switch c.Kind {
		case dbc.CommentGeneral:
			cm = append(cm, sprintf("{\"k\":\"g\",\"t\":%s}", ibJStr(c.Text)))
		case dbc.CommentNode:
			cm = append(cm, sprintf("{\"k\":\"n\",\"n\":%s,\"t\":%s}", ibJStr(c.NodeName), ibJStr(c.Text)))
		case dbc.CommentMessage:
			cm = append(cm, sprintf("{\"k\":\"m\",\"m\":%d,\"t\":%s}", c.MessageID, ibJStr(c.Text)))
		case dbc.CommentSignal:
			cm = append(cm, sprintf("{\"k\":\"s\",\"m\":%d,\"s\":%s,\"t\":%s}", c.MessageID, ibJStr(c.SignalName), ibJStr(c.Text)))
		}
	}
	for _, m := range f.Messages {
		var sigs []string
		for _, s := range m.Signals {
			sg := 0
			if s.ValueType == dbc.SignalSigned {
				sg = 1
			}
			sigs = append(sigs, sprintf("{\"n\":%s,\"s\":%d,\"z\":%d,\"sg\":%d,\"f\":%s,\"o\":%s,\"mn\":%s,\"mx\":%s,\"u\":%s,\"r\":%s}",
				ibJStr(s.Name), s.StartBit, s.Size, sg, ibJStr(atRat(s.Factor)), ibJStr(atRat(s.Offset)), ibJStr(atRat(s.Min)),
				ibJStr(atRat(s.Max)), ibJStr(s.Unit), ibJStrs(s.Receivers)))
		}
		msgs = append(msgs, sprintf("{\"id\":%d,\"n\":%s,\"z\":%d,\"tx\":%s,\"sigs\":%s}", m.ID, ibJStr(m.Name), m.Size, ibJStr(m.Transmitter), listStr(sigs)))
	}
	return sprintf("{\"nodes\":%s,\"vt\":%s,\"ve\":%s,\"cm\":%s,\"msgs\":%s}", ibJStrs(names), listStr(vt), listStr(ve), listStr(cm), listStr(msgs))
}

// the exported document with a location (importFile reads the file name off it)
func ibLocated(ast *dbc.File) *dbc.File {
	f := atBaseFile()
	f.Nodes = ast.Nodes
	f.ValueTables = ast.ValueTables
	f.Messages = ast.Messages
	f.Comments = ast.Comments
	f.Attributes = ast.Attributes
	f.AttributeDefaults = ast.AttributeDefaults
	f.AttributeValues = ast.AttributeValues
	f.ValueEncodings = ast.ValueEncodings
	f.ExtendedMuxes = ast.ExtendedMuxes
	return f
}

// ---- Exec ----------------------------------------------------------------------------------------------

func (e *impbusExec) doExport(payload string, rt bool) string {
	j := &ibJBus{}
	if err := json.Unmarshal([]byte(payload), j); err != nil {
		return "bad-op json"
	}
	bus, bad := ibBuild(j)
	if bus == nil {
		return bad
	}
	ast := acmelib.VerifExportAST(bus)
	if !rt {
		return "ok " + ibShowFile(ast)
	}
	bus2, err := acmelib.VerifImportAST(ibLocated(ast))
	if err != nil {
		if ibInClass(j) {
			e.find("c11-bus:reimport-refused:"+ibCause(err), payload)
		}
		// outside the class (more than 1024 nodes): observed, reported in the histogram only
		return "err " + ibCause(err) + " ##outside,refused:" + ibCause(err)
	}
	note := ""
	if ibInClass(j) {
		want := ibView(ibNormal(j))
		got := ibView(ibBusOf(bus2))
		if want != got {
			e.find("c11-bus:"+ibFirstDiff(want, got), payload)
		}
		note = " ##wf" + ibLosses(j, ibBusOf(bus2))
		// "receivers" is a clause of C11: the one loss of the normal form that the statement names
		if strings.Contains(note, "receivers-without-signals") {
			e.find("c11-bus:lost:receivers-without-signals", payload)
		}
	} else {
		note = " ##outside"
	}
	return "ok " + ibRender(bus2) + note
}

// ---- oracle C11 (independent of the model) -------------------------------------------------------------

func ibSortedNodes(j *ibJBus) []ibJNode {
	ns := append([]ibJNode{}, j.Nodes...)
	sort.SliceStable(ns, func(a, b int) bool { return ns[a].ID < ns[b].ID })
	return ns
}

// the class of the round-trip theorem, as far as the public API does not guarantee it anyway
func ibInClass(j *ibJBus) bool { return len(j.Nodes) <= 1024 }

// the kind the importer selects for the numbers of a type
func ibReKind(t ibJType) string {
	if t.Z == 1 && t.Sg == 0 && t.Sc == "1/1" && t.Of == "0/1" && t.Mn == "0/1" && t.Mx == "1/1" {
		return "flag"
	}
	for _, s := range []string{t.Sc, t.Mx, t.Mn, t.Of} {
		if !strings.HasSuffix(s, "/1") {
			return "decimal"
		}
	}
	return "integer"
}

// the normal form of a bus: what is expected back from export + import
func ibNormal(j *ibJBus) *ibJBus {
	n := &ibJBus{Desc: j.Desc, Units: j.Units, Enums: j.Enums}
	for i, nd := range ibSortedNodes(j) {
		if nd.N == dbc.DummyNode {
			continue
		}
		nd.ID = uint32(i)
		n.Nodes = append(n.Nodes, nd)
	}
	for _, m := range j.Msgs {
		if m.Tx == dbc.DummyNode {
			// a node named like the placeholder comes back as the placeholder node, if it sends
			n.Nodes = append(n.Nodes, ibJNode{N: dbc.DummyNode, ID: 1024})
			break
		}
	}
	for _, t := range j.Types {
		t.K = ibReKind(t)
		n.Types = append(n.Types, t)
	}
	for _, m := range j.Msgs {
		var rx []string
		for _, r := range m.Rx {
			if r != dbc.DummyNode && len(m.Sigs) > 0 {
				rx = append(rx, r)
			}
		}
		m.Rx = rx
		n.Msgs = append(n.Msgs, m)
	}
	return n
}

// the identity-free view of a bus (the `view` of Acme.Spec.ExportBus): no object identities, no
// enum names / minimum sizes; a nil unit and a unit with the empty symbol are the same
func ibView(j *ibJBus) string {
	var nodes, msgs []string
	for _, n := range ibSortedNodes(j) {
		nodes = append(nodes, sprintf("%s#%d:%s", n.N, n.ID, ibQ(n.D)))
	}
	ms := append([]ibJMMsg{}, j.Msgs...)
	sort.SliceStable(ms, func(a, b int) bool { return ms[a].ID < ms[b].ID })
	for _, m := range ms {
		rx := append([]string{}, m.Rx...)
		sort.Strings(rx)
		var sigs []string
		for _, s := range m.Sigs {
			if s.E != nil {
				e := j.Enums[*s.E]
				var vals []string
				mx := 0
				for _, v := range e.V {
					vals = append(vals, sprintf("%d=%s", v.ID, ibQ(v.Name)))
					if int(v.ID) > mx {
						mx = int(v.ID)
					}
				}
				size := acmelib.VerifCalcSizeFromValue(mx)
				if e.Min > size {
					size = e.Min
				}
				sigs = append(sigs, sprintf("E:%s@%d+%d(%s;d=%s)", s.N, s.S, size, listStr(vals), ibQ(s.D)))
				continue
			}
			t := j.Types[*s.T]
			u := ""
			if s.U != nil && *s.U >= 0 {
				u = j.Units[*s.U]
			}
			sigs = append(sigs, sprintf("S:%s@%d(%s,%d,%d,%s,%s,%s,%s;%s;d=%s)", s.N, s.S, t.K, t.Z, t.Sg, t.Mn, t.Mx, t.Sc, t.Of, ibQ(u), ibQ(s.D)))
		}
		msgs = append(msgs, sprintf("{id=%d,n=%s,z=%d,tx=%s,rx=%s,d=%s,sigs=%s}", m.ID, m.N, m.Z, m.Tx, listStr(rx), ibQ(m.D), listStr(sigs)))
	}
	return sprintf("desc=%s nodes=%s msgs=%s", ibQ(j.Desc), listStr(nodes), listStr(msgs))
}

func ibFirstDiff(a, b string) string {
	fa, fb := strings.Fields(a), strings.Fields(b)
	for i := range fa {
		if i >= len(fb) || fa[i] != fb[i] {
			return eiFirst(strings.SplitN(fa[i], "=", 2)[0], 12)
		}
	}
	return "view"
}

// what the round trip lost BY DESIGN of the format / of the importer (tags, not findings)
func ibLosses(before, after *ibJBus) string {
	var l []string
	add := func(s string) {
		for _, x := range l {
			if x == s {
				return
			}
		}
		l = append(l, s)
	}
	ns := ibSortedNodes(before)
	for i, n := range ns {
		if n.N != dbc.DummyNode && int(n.ID) != i {
			add("node-ids")
		}
		if n.N == dbc.DummyNode && (i != len(ns)-1 || n.D != "" || n.ID != 1024) {
			add("placeholder-named-node")
		}
	}
	for _, t := range before.Types {
		if t.K != ibReKind(t) {
			add("type-kind:" + t.K + "->" + ibReKind(t))
		}
	}
	for _, m := range before.Msgs {
		if len(m.Sigs) == 0 && len(m.Rx) > 0 {
			add("receivers-without-signals")
		}
	}
	for _, u := range before.Units {
		if u == "" {
			add("unit-empty-symbol")
		}
	}
	names := func(j *ibJBus) map[string]string {
		res := map[string]string{}
		for _, m := range j.Msgs {
			for _, s := range m.Sigs {
				if s.E != nil {
					e := j.Enums[*s.E]
					res[sprintf("%d/%s", m.ID, s.N)] = sprintf("%s|%d|%d", e.N, e.Min, *s.E)
				}
			}
		}
		return res
	}
	nb, na := names(before), names(after)
	part := func(m map[string]string, k string, i int) string { return strings.Split(m[k], "|")[i] }
	for k := range nb {
		if _, ok := na[k]; !ok {
			continue
		}
		if part(nb, k, 0) != part(na, k, 0) {
			add("enum-name")
		}
		if part(nb, k, 1) != part(na, k, 1) {
			add("enum-min-size")
		}
		for k2 := range nb {
			if k < k2 && (part(nb, k, 2) == part(nb, k2, 2)) != (part(na, k, 2) == part(na, k2, 2)) {
				add("enum-sharing")
			}
		}
	}
	if len(l) == 0 {
		return ""
	}
	sort.Strings(l)
	return ",loss:" + strings.Join(l, ",loss:")
}

// ---- generator of buses -----------------------------------------------------------------------------------

var ibNodeIDs = []uint32{0, 1, 2, 3, 4, 7, 10, 100, 1023, 1024, 1025, 5000}

func ibGenType(r *rand.Rand) ibJType {
	z := int(pick(r, ibSizes...))
	sg := r.Intn(3) / 2
	rat := func(f float64) string { return atRat(f) }
	switch r.Intn(10) {
	case 0:
		return ibJType{K: "flag", Z: 1, Sg: 0, Mn: "0/1", Mx: "1/1", Sc: "1/1", Of: "0/1"}
	case 1, 2:
		// an integer type with its default range
		t, _ := acmelib.NewIntegerSignalType("t", z, sg != 0)
		return ibJType{K: "integer", Z: z, Sg: sg, Mn: rat(t.Min()), Mx: rat(t.Max()), Sc: "1/1", Of: "0/1"}
	case 3:
		t, _ := acmelib.NewDecimalSignalType("t", z, sg != 0)
		return ibJType{K: "decimal", Z: z, Sg: sg, Mn: rat(t.Min()), Mx: rat(t.Max()), Sc: rat(pick(r, ibFactors...)), Of: rat(pick(r, ibOffsets...))}
	case 4:
		// the numbers of a flag under another kind
		return ibJType{K: pick(r, "integer", "decimal", "custom"), Z: 1, Sg: 0, Mn: "0/1", Mx: "1/1", Sc: "1/1", Of: "0/1"}
	}
	sh := ibRndShape(r)
	return ibJType{K: pick(r, "integer", "decimal", "custom", "custom"), Z: z, Sg: sh.sg, Mn: rat(sh.mn), Mx: rat(sh.mx), Sc: rat(sh.f), Of: rat(sh.o)}
}

func ibGenBus(r *rand.Rand, tier string) *ibJBus {
	j := &ibJBus{Desc: pick(r, ibTexts...), Nodes: []ibJNode{}, Types: []ibJType{}, Units: []string{}, Enums: []ibJEnum{}, Msgs: []ibJMMsg{}}
	nn := r.Intn(5)
	perm := r.Perm(len(ibNodePool))
	idPerm := r.Perm(len(ibNodeIDs))
	for i := 0; i < nn; i++ {
		n := ibJNode{N: ibNodePool[perm[i]], ID: ibNodeIDs[idPerm[i]]}
		if r.Intn(3) == 0 {
			n.D = pick(r, ibTexts...)
		}
		j.Nodes = append(j.Nodes, n)
	}
	if r.Intn(12) == 0 {
		// a node named like the placeholder: as the importer leaves it (last, id 1024), or anywhere
		n := ibJNode{N: dbc.DummyNode, ID: 1024}
		if r.Intn(3) == 0 {
			n.ID = uint32(r.Intn(2000))
			n.D = pick(r, ibTexts...)
		}
		ok := true
		for _, x := range j.Nodes {
			if x.ID == n.ID {
				ok = false
			}
		}
		if ok {
			j.Nodes = append(j.Nodes, n)
		}
	}
	for i, n := 0, 1+r.Intn(4); i < n; i++ {
		t := ibGenType(r)
		if i > 0 && r.Intn(4) == 0 {
			t = j.Types[r.Intn(i)] // two type objects with the same numbers
		}
		j.Types = append(j.Types, t)
	}
	for i, n := 0, r.Intn(4); i < n; i++ {
		j.Units = append(j.Units, pick(r, ibUnits[2:]...))
	}
	for i, n := 0, r.Intn(4); i < n; i++ {
		e := ibJEnum{N: pick(r, "En", "En", "Mode", "State"), Min: 1}
		if r.Intn(3) == 0 {
			e.N = sprintf("E%d", i)
		}
		e.V = ibRndValsClean(r, r.Intn(5), (uint32(1)<<pick(r, uint32(1), 2, 3, 4, 8))-1)
		if i > 0 && r.Intn(3) == 0 {
			e.V = j.Enums[r.Intn(i)].V // the same values in two enum objects
		}
		if r.Intn(2) == 0 {
			e.Min = int(ibNatSize(e.V)) + r.Intn(4) - 1
			if e.Min < 0 {
				e.Min = 0
			}
		}
		j.Enums = append(j.Enums, e)
	}
	if len(j.Nodes) == 0 {
		return j
	}
	ids := r.Perm(len(ibMsgIDs))
	used := map[string]bool{}
	for mi, nm := 0, r.Intn(5); mi < nm; mi++ {
		m := ibJMMsg{ID: ibMsgIDs[ids[mi]], N: pick(r, ibMsgNames...), Z: pick(r, 8, 8, 8, 4, 2, 1, 0), Rx: []string{}, Sigs: []ibJMSig{}}
		m.Tx = j.Nodes[r.Intn(len(j.Nodes))].N
		if used[m.Tx+"/"+m.N] {
			m.N = sprintf("msg%d", mi)
		}
		used[m.Tx+"/"+m.N] = true
		if r.Intn(3) == 0 {
			m.D = pick(r, ibTexts...)
		}
		for _, n := range j.Nodes {
			if n.N != m.Tx && r.Intn(3) == 0 {
				m.Rx = append(m.Rx, n.N)
			}
		}
		r.Shuffle(len(m.Rx), func(a, b int) { m.Rx[a], m.Rx[b] = m.Rx[b], m.Rx[a] })
		cursor := 0
		names := r.Perm(len(ibSigNames))
		for si, ns := 0, r.Intn(6); si < ns; si++ {
			s := ibJMSig{N: ibSigNames[names[si]]}
			if r.Intn(3) == 0 {
				s.D = pick(r, ibTexts...)
			}
			size := 0
			if len(j.Enums) > 0 && r.Intn(3) == 0 {
				k := r.Intn(len(j.Enums))
				s.E = ibP(k)
				size = int(ibNatSize(j.Enums[k].V))
				if j.Enums[k].Min > size {
					size = j.Enums[k].Min
				}
			} else {
				k := r.Intn(len(j.Types))
				s.T = ibP(k)
				s.U = ibP(-1)
				if len(j.Units) > 0 && r.Intn(2) == 0 {
					s.U = ibP(r.Intn(len(j.Units)))
				}
				size = j.Types[k].Z
			}
			if r.Intn(3) == 0 {
				cursor += r.Intn(4)
			}
			if cursor+size > 8*m.Z {
				continue
			}
			s.S = cursor
			cursor += size
			m.Sigs = append(m.Sigs, s)
		}
		j.Msgs = append(j.Msgs, m)
	}
	return j
}

// values with distinct ids and names, sorted by id (what `Values()` of an enum object returns)
func ibRndValsClean(r *rand.Rand, n int, maxID uint32) []ibVal {
	var vs []ibVal
	ui, un := map[uint32]bool{}, map[string]bool{}
	for _, v := range ibRndVals(r, n, maxID) {
		if !ui[v.ID] && !un[v.Name] {
			ui[v.ID], un[v.Name] = true, true
			vs = append(vs, v)
		}
	}
	sort.Slice(vs, func(a, b int) bool { return vs[a].ID < vs[b].ID })
	if vs == nil {
		vs = []ibVal{}
	}
	return vs
}

// the lines that follow a bus: its export, the round trip, and the importer model on the real export
func ibExportLines(j *ibJBus) []string {
	payload := encJSON(j)
	lines := []string{"ib export " + payload, "ib rt " + payload}
	if bus, _ := ibBuild(j); bus != nil {
		lines = append(lines, "ib import "+ibShowFile(acmelib.VerifExportAST(bus)))
	}
	return lines
}
