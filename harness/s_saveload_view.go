package main

// saveload stream, part 2: the deep VIEW of a network (public getters only, plus one
// read-only reflection access for the "fixed" flag of multiplexed signals), the view
// comparison and the invariant walkers used on loaded networks.

import (
	"bytes"
	"math/rand"
	"reflect"
	"sort"
	"strconv"
	"strings"
	"time"

	"github.com/squadracorsepolito/acmelib"
)

// slItem is one observed fact: field = comparison class (signature suffix), path = where.
type slItem struct{ field, path, val string }

type slView struct {
	items  []slItem
	index  map[string]int
	labels map[string]string // path prefix -> "name(id)" of the entity found there
}

func newSlView() *slView {
	return &slView{index: map[string]int{}, labels: map[string]string{}}
}

func (v *slView) put(field, path, val string) {
	for {
		if _, dup := v.index[path]; !dup {
			break
		}
		path += "#again"
	}
	v.index[path] = len(v.items)
	v.items = append(v.items, slItem{field, path, val})
}

func (v *slView) labelOf(path string) string {
	for p := path; p != ""; {
		if l, ok := v.labels[p]; ok {
			return l
		}
		i := strings.LastIndexByte(p, '/')
		if i < 0 {
			break
		}
		p = p[:i]
	}
	return ""
}

type slDiff struct{ field, path, a, b string }

// slCompare lists the facts of a (original) that b (loaded) does not reproduce, and the
// facts b has in excess.
func slCompare(a, b *slView) []slDiff {
	var ds []slDiff
	for _, it := range a.items {
		j, ok := b.index[it.path]
		if !ok {
			ds = append(ds, slDiff{it.field, it.path, it.val, "<missing>"})
			continue
		}
		if b.items[j].val != it.val {
			ds = append(ds, slDiff{it.field, it.path, it.val, b.items[j].val})
		}
	}
	for _, it := range b.items {
		if _, ok := a.index[it.path]; !ok {
			ds = append(ds, slDiff{it.field, it.path, "<missing>", it.val})
		}
	}
	return ds
}

func slF(f float64) string { return strconv.FormatFloat(f, 'g', -1, 64) }
func slI(i int) string     { return strconv.Itoa(i) }

// slTime: creation times are compared at NANOSECOND precision as UTC instants
// (Timestamp keeps seconds+nanos in all three encodings; location and the monotonic
// clock reading are not part of the saved value).
func slTime(t time.Time) string { return strconv.FormatInt(t.UnixNano(), 10) }

type slEntity interface {
	EntityID() acmelib.EntityID
	EntityKind() acmelib.EntityKind
	Name() string
	Desc() string
	CreateTime() time.Time
}

// slDefs collects the definitions of one kind met during the walk.
type slDefs[T comparable] struct {
	byID  map[acmelib.EntityID][]T
	users map[T][]string
	order []acmelib.EntityID
}

func newSlDefs[T comparable]() *slDefs[T] {
	return &slDefs[T]{byID: map[acmelib.EntityID][]T{}, users: map[T][]string{}}
}

func (d *slDefs[T]) use(id acmelib.EntityID, obj T, user string) {
	objs, seen := d.byID[id]
	if !seen {
		d.order = append(d.order, id)
	}
	found := false
	for _, o := range objs {
		if o == obj {
			found = true
		}
	}
	if !found {
		d.byID[id] = append(objs, obj)
	}
	d.users[obj] = append(d.users[obj], user)
}

func (d *slDefs[T]) sortedIDs() []acmelib.EntityID {
	ids := append([]acmelib.EntityID{}, d.order...)
	sort.Slice(ids, func(i, j int) bool { return ids[i] < ids[j] })
	return ids
}

type slWalk struct {
	v        *slView
	custom   map[acmelib.EntityID]bool
	types    *slDefs[*acmelib.SignalType]
	units    *slDefs[*acmelib.SignalUnit]
	enums    *slDefs[*acmelib.SignalEnum]
	attrs    *slDefs[acmelib.Attribute]
	nodes    *slDefs[*acmelib.Node]
	builders []*acmelib.CANIDBuilder
	msgs     []*acmelib.Message
	buses    []*acmelib.Bus
}

func (w *slWalk) entity(p string, e slEntity) {
	w.v.labels[p] = sprintf("%s %q (%s)", e.EntityKind(), e.Name(), e.EntityID())
	w.v.put("entity-id", p+"/id", string(e.EntityID()))
	w.v.put("entity-kind", p+"/ekind", e.EntityKind().String())
	w.v.put("name", p+"/name", e.Name())
	w.v.put("desc", p+"/desc", e.Desc())
	w.v.put("create-time", p+"/ctime", slTime(e.CreateTime()))
}

func slValStr(v any) string { return sprintf("%T:%v", v, v) }

func (w *slWalk) assignments(p string, as []*acmelib.AttributeAssignment, owner acmelib.EntityID) {
	w.v.put("attribute-assignment", p+"/att#count", slI(len(as)))
	for _, aa := range as {
		att := aa.Attribute()
		ap := p + "/att[" + string(att.EntityID()) + "]"
		w.v.put("attribute-assignment", ap, slValStr(aa.Value()))
		w.v.put("attribute-assignment", ap+"/owner", string(aa.EntityID()))
		w.attrs.use(att.EntityID(), att, string(owner))
	}
}

// slFixedIDs reads (read-only, by reflection) which children of a multiplexer are fixed:
// there is no public getter for it.
func slFixedIDs(mux *acmelib.MultiplexerSignal) map[string]bool {
	res := map[string]bool{}
	defer func() { recover() }()
	f := reflect.ValueOf(mux).Elem().FieldByName("fixedSignals")
	if !f.IsValid() || f.IsNil() {
		return res
	}
	m := f.Elem().FieldByName("m")
	for _, k := range m.MapKeys() {
		res[k.String()] = true
	}
	return res
}

func (w *slWalk) signal(p string, s acmelib.Signal) {
	w.entity(p, s)
	w.v.put("sig-tree", p+"/kind", s.Kind().String())
	w.v.put("sig-tree", p+"/rel", slI(s.GetRelativeStartPos()))
	w.v.put("sig-tree", p+"/start", slI(s.GetStartBit()))
	w.v.put("sig-tree", p+"/size", slI(s.GetSize()))
	w.v.put("sig-sendtype", p+"/sendType", s.SendType().String())
	w.v.put("sig-startvalue", p+"/startValue", slF(s.StartValue()))
	w.v.put("msg-byteorder", p+"/endianness", s.Endianness().String())
	w.assignments(p, s.AttributeAssignments(), s.EntityID())
	switch s.Kind() {
	case acmelib.SignalKindStandard:
		ss, err := s.ToStandard()
		if err != nil {
			w.v.put("sig-tree", p+"/conv", "ToStandard failed")
			return
		}
		t := ss.Type()
		if t == nil {
			w.v.put("type", p+"/typeRef", "<nil>")
		} else {
			w.v.put("type", p+"/typeRef", string(t.EntityID()))
			w.types.use(t.EntityID(), t, string(s.EntityID()))
		}
		if u := ss.Unit(); u == nil {
			w.v.put("unit", p+"/unitRef", "<nil>")
		} else {
			w.v.put("unit", p+"/unitRef", string(u.EntityID()))
			w.units.use(u.EntityID(), u, string(s.EntityID()))
		}
	case acmelib.SignalKindEnum:
		es, err := s.ToEnum()
		if err != nil {
			w.v.put("sig-tree", p+"/conv", "ToEnum failed")
			return
		}
		e := es.Enum()
		if e == nil {
			w.v.put("enum", p+"/enumRef", "<nil>")
		} else {
			w.v.put("enum", p+"/enumRef", string(e.EntityID()))
			w.enums.use(e.EntityID(), e, string(s.EntityID()))
		}
	case acmelib.SignalKindMultiplexer:
		mux, err := s.ToMultiplexer()
		if err != nil {
			w.v.put("sig-tree", p+"/conv", "ToMultiplexer failed")
			return
		}
		w.v.put("sig-tree", p+"/groupCount", slI(mux.GroupCount()))
		w.v.put("sig-tree", p+"/groupSize", slI(mux.GroupSize()))
		w.v.put("sig-tree", p+"/selectorBits", slI(mux.GetGroupCountSize()))
		groups := mux.GetSignalGroups()
		w.v.put("sig-tree", p+"/groups#count", slI(len(groups)))
		childIdx := map[acmelib.Signal]int{}
		var children []acmelib.Signal
		memb := map[int][]string{}
		for g, grp := range groups {
			var row []string
			for _, c := range grp {
				k, ok := childIdx[c]
				if !ok {
					k = len(children)
					childIdx[c] = k
					children = append(children, c)
				}
				row = append(row, sprintf("c%d@%d+%d", k, c.GetRelativeStartPos(), c.GetSize()))
				memb[k] = append(memb[k], slI(g))
			}
			w.v.put("sig-tree", sprintf("%s/group[%d]", p, g), listStr(row))
		}
		fixed := slFixedIDs(mux)
		w.v.put("sig-tree", p+"/children#count", slI(len(children)))
		for k, c := range children {
			cp := sprintf("%s/c[%d]", p, k)
			w.v.put("mux-membership", cp+"/groups", listStr(memb[k]))
			w.v.put("mux-membership", cp+"/fixed", boolStr(fixed[string(c.EntityID())]))
			w.signal(cp, c)
		}
	}
}

func (w *slWalk) message(p string, m *acmelib.Message) {
	w.msgs = append(w.msgs, m)
	w.entity(p, m)
	w.v.put("msg-id", p+"/msgID", sprintf("%d", m.ID()))
	w.v.put("msg-static-canid", p+"/hasStatic", boolStr(m.HasStaticCANID()))
	if m.HasStaticCANID() {
		w.v.put("msg-static-canid", p+"/static", sprintf("%d", m.GetCANID()))
	}
	w.v.put("msg-size", p+"/sizeByte", slI(m.SizeByte()))
	w.v.put("msg-priority", p+"/priority", sprintf("%d", m.Priority()))
	w.v.put("msg-byteorder", p+"/byteOrder", m.ByteOrder().String())
	w.v.put("msg-timing", p+"/cycleTime", slI(m.CycleTime()))
	w.v.put("msg-timing", p+"/delayTime", slI(m.DelayTime()))
	w.v.put("msg-timing", p+"/startDelayTime", slI(m.StartDelayTime()))
	w.v.put("msg-sendtype", p+"/sendType", m.SendType().String())
	var recs []string
	for _, rec := range m.Receivers() {
		recs = append(recs, sprintf("%s#%d", rec.Node().EntityID(), rec.Number()))
	}
	sort.Strings(recs)
	w.v.put("msg-receivers", p+"/receivers", listStr(recs))
	w.assignments(p, m.AttributeAssignments(), m.EntityID())
	sigs := m.Signals()
	w.v.put("sig-tree", p+"/signals#count", slI(len(sigs)))
	for k, s := range sigs {
		w.signal(sprintf("%s/sig[%d]", p, k), s)
	}
	w.v.put("sig-tree", p+"/signalNames#count", slI(len(m.SignalNames())))
	w.v.put("derived:canid", p+"/GetCANID", sprintf("%d", m.GetCANID()))
}

func slOpsStr(b *acmelib.CANIDBuilder) string {
	var ops []string
	for _, op := range b.Operations() {
		ops = append(ops, sprintf("%s(%d,%d)", op.Kind(), op.From(), op.Len()))
	}
	return listStr(ops)
}

func (w *slWalk) bus(p string, b *acmelib.Bus) {
	w.buses = append(w.buses, b)
	w.entity(p, b)
	w.v.put("bus-type", p+"/type", b.Type().String())
	w.v.put("baudrate", p+"/baudrate", slI(b.Baudrate()))
	w.assignments(p, b.AttributeAssignments(), b.EntityID())
	cb := b.CANIDBuilder()
	if cb == nil {
		w.v.put("builder-ops", p+"/builder", "<nil>")
	} else {
		w.v.put("builder-ops", p+"/builder/ops", slOpsStr(cb))
		w.v.put("builder-ops", p+"/builder/name", cb.Name())
		k := -1
		for i, x := range w.builders {
			if x == cb {
				k = i
			}
		}
		if k < 0 {
			k = len(w.builders)
			w.builders = append(w.builders, cb)
		}
		w.v.put("builder-identity", p+"/builder/object", sprintf("builder#%d", k))
		isCustom := w.custom[cb.EntityID()]
		w.v.put("builder-identity", p+"/builder/custom", boolStr(isCustom))
		if isCustom {
			w.entity(p+"/builder", cb)
		}
	}
	nis := b.NodeInterfaces()
	w.v.put("interfaces", p+"/ni#count", slI(len(nis)))
	for j, ni := range nis {
		np := sprintf("%s/ni[%d]", p, j)
		n := ni.Node()
		w.v.labels[np] = sprintf("interface %d of node %q (%s)", ni.Number(), n.Name(), n.EntityID())
		w.v.put("interfaces", np+"/node", string(n.EntityID()))
		w.v.put("interfaces", np+"/number", slI(ni.Number()))
		w.nodes.use(n.EntityID(), n, string(b.EntityID()))
		var rec []string
		for _, m := range ni.ReceivedMessages() {
			rec = append(rec, string(m.EntityID()))
		}
		sort.Strings(rec)
		w.v.put("msg-receivers", np+"/received", listStr(rec))
		msgs := ni.SentMessages()
		w.v.put("interfaces", np+"/msg#count", slI(len(msgs)))
		for k, m := range msgs {
			w.message(sprintf("%s/msg[%d]", np, k), m)
		}
	}
}

// slInNetCount formats the references of a definition that come from inside the network.
func slUsers(us []string) string {
	us = append([]string{}, us...)
	sort.Strings(us)
	return sprintf("%d:%s", len(us), listStr(us))
}

func slBuildView(net *acmelib.Network, custom map[acmelib.EntityID]bool) *slView {
	w := &slWalk{v: newSlView(), custom: custom,
		types: newSlDefs[*acmelib.SignalType](), units: newSlDefs[*acmelib.SignalUnit](),
		enums: newSlDefs[*acmelib.SignalEnum](), attrs: newSlDefs[acmelib.Attribute](),
		nodes: newSlDefs[*acmelib.Node]()}
	v := w.v
	w.entity("net", net)
	buses := net.Buses()
	v.put("interfaces", "net/bus#count", slI(len(buses)))
	for i, b := range buses {
		w.bus(sprintf("net/bus[%d]", i), b)
	}
	// builders: sharing
	for k, cb := range w.builders {
		var users []string
		for _, b := range w.buses {
			if b.CANIDBuilder() == cb {
				users = append(users, string(b.EntityID()))
			}
		}
		v.put("builder-identity", sprintf("builder#%d/buses", k), slUsers(users))
		v.put("builder-identity", sprintf("builder#%d/ReferenceCount", k), slI(cb.ReferenceCount()))
	}
	// nodes
	for _, id := range w.nodes.sortedIDs() {
		objs := w.nodes.byID[id]
		p := "node[" + string(id) + "]"
		v.put("node-identity", p+"/objects", slI(len(objs)))
		n := objs[0]
		w.entity(p, n)
		v.put("node-ids", p+"/nodeID", sprintf("%d", n.ID()))
		ifs := n.Interfaces()
		v.put("interfaces", p+"/interfaceCount", slI(len(ifs)))
		for k, ni := range ifs {
			bid := "-"
			if pb := ni.ParentBus(); pb != nil {
				bid = string(pb.EntityID())
			}
			v.put("interfaces", sprintf("%s/if[%d]/bus", p, k), bid)
			v.put("interfaces", sprintf("%s/if[%d]/number", p, k), slI(ni.Number()))
		}
		w.assignments(p, n.AttributeAssignments(), n.EntityID())
	}
	// types
	for _, id := range w.types.sortedIDs() {
		objs := w.types.byID[id]
		p := "type[" + string(id) + "]"
		v.put("shared-definition-identity", p+"/objects", slI(len(objs)))
		t := objs[0]
		w.entity(p, t)
		v.put("type", p+"/kind", t.Kind().String())
		v.put("type", p+"/size", slI(t.Size()))
		v.put("type", p+"/signed", boolStr(t.Signed()))
		v.put("type", p+"/min", slF(t.Min()))
		v.put("type", p+"/max", slF(t.Max()))
		v.put("type", p+"/scale", slF(t.Scale()))
		v.put("type", p+"/offset", slF(t.Offset()))
		v.put("shared-definition-identity", p+"/usersInNetwork", slUsers(w.types.users[t]))
	}
	for _, id := range w.units.sortedIDs() {
		objs := w.units.byID[id]
		p := "unit[" + string(id) + "]"
		v.put("shared-definition-identity", p+"/objects", slI(len(objs)))
		u := objs[0]
		w.entity(p, u)
		v.put("unit", p+"/kind", u.Kind().String())
		v.put("unit", p+"/symbol", u.Symbol())
		v.put("shared-definition-identity", p+"/usersInNetwork", slUsers(w.units.users[u]))
	}
	for _, id := range w.enums.sortedIDs() {
		objs := w.enums.byID[id]
		p := "enum[" + string(id) + "]"
		v.put("shared-definition-identity", p+"/objects", slI(len(objs)))
		e := objs[0]
		w.entity(p, e)
		v.put("enum", p+"/minSize", slI(e.MinSize()))
		v.put("enum", p+"/size", slI(e.GetSize()))
		v.put("enum", p+"/maxIndex", slI(e.MaxIndex()))
		vals := e.Values()
		v.put("enum", p+"/values#count", slI(len(vals)))
		for k, ev := range vals {
			vp := sprintf("%s/value[%d]", p, k)
			w.entity(vp, ev)
			v.put("enum", vp+"/index", slI(ev.Index()))
		}
		v.put("shared-definition-identity", p+"/usersInNetwork", slUsers(w.enums.users[e]))
	}
	for _, id := range w.attrs.sortedIDs() {
		objs := w.attrs.byID[id]
		p := "attribute[" + string(id) + "]"
		v.put("shared-definition-identity", p+"/objects", slI(len(objs)))
		a := objs[0]
		if e, ok := a.(slEntity); ok {
			w.entity(p, e)
		} else {
			v.put("entity-id", p+"/id", string(a.EntityID()))
			v.put("name", p+"/name", a.Name())
			v.put("desc", p+"/desc", a.Desc())
			v.put("create-time", p+"/ctime", slTime(a.CreateTime()))
		}
		v.put("attribute-def", p+"/type", a.Type().String())
		switch a.Type() {
		case acmelib.AttributeTypeString:
			if x, err := a.ToString(); err == nil {
				v.put("attribute-def", p+"/def", x.DefValue())
			}
		case acmelib.AttributeTypeInteger:
			if x, err := a.ToInteger(); err == nil {
				v.put("attribute-def", p+"/def", slI(x.DefValue()))
				v.put("attribute-def", p+"/min", slI(x.Min()))
				v.put("attribute-def", p+"/max", slI(x.Max()))
				v.put("attribute-def", p+"/hex", boolStr(x.IsHexFormat()))
			}
		case acmelib.AttributeTypeFloat:
			if x, err := a.ToFloat(); err == nil {
				v.put("attribute-def", p+"/def", slF(x.DefValue()))
				v.put("attribute-def", p+"/min", slF(x.Min()))
				v.put("attribute-def", p+"/max", slF(x.Max()))
			}
		case acmelib.AttributeTypeEnum:
			if x, err := a.ToEnum(); err == nil {
				v.put("attribute-def", p+"/def", x.DefValue())
				v.put("attribute-def", p+"/values", sprintf("%q", x.Values()))
			}
		}
		v.put("shared-definition-identity", p+"/usersInNetwork", slUsers(w.attrs.users[a]))
	}
	// derived observables
	for i, m := range w.msgs {
		p := sprintf("derived/decode/msg#%d", i)
		v.labels[p] = sprintf("message %q (%s)", m.Name(), m.EntityID())
		r := rand.New(rand.NewSource(int64(7919*(i+1) + m.SizeByte())))
		for k := 0; k < 4; k++ {
			n := m.SizeByte()
			if n < 0 {
				n = 0
			}
			data := make([]byte, n)
			switch k {
			case 0:
				for j := range data {
					data[j] = 0xFF
				}
			default:
				r.Read(data)
			}
			v.put("derived:decode", sprintf("%s/payload[%x]", p, data), slDecodeStr(m, data))
		}
	}
	for i, b := range w.buses {
		p := sprintf("derived/export/bus#%d", i)
		v.labels[p] = sprintf("bus %q (%s)", b.Name(), b.EntityID())
		v.put("derived:export", p, slExportStr(b))
	}
	return v
}

func slDecodeStr(m *acmelib.Message, data []byte) (out string) {
	defer func() {
		if r := recover(); r != nil {
			out = sprintf("PANIC %v", r)
		}
	}()
	var rows []string
	for _, d := range m.SignalLayout().Decode(data) {
		if d == nil {
			rows = append(rows, "<nil>")
			continue
		}
		rows = append(rows, sprintf("%s raw=%d %s %v %q", d.Signal.EntityID(), d.RawValue, d.ValueType, d.Value, d.Unit))
	}
	return strings.Join(rows, "; ")
}

func slExportStr(b *acmelib.Bus) (out string) {
	defer func() {
		if r := recover(); r != nil {
			out = sprintf("PANIC %v", r)
		}
	}()
	var buf bytes.Buffer
	acmelib.ExportBus(&buf, b)
	return buf.String()
}

// slFirstLineDiff shortens two long texts to their first differing line.
func slFirstLineDiff(a, b string) (string, string) {
	la, lb := strings.Split(a, "\n"), strings.Split(b, "\n")
	for i := 0; i < len(la) || i < len(lb); i++ {
		var x, y string
		if i < len(la) {
			x = la[i]
		} else {
			x = "<eof>"
		}
		if i < len(lb) {
			y = lb[i]
		} else {
			y = "<eof>"
		}
		if x != y {
			return sprintf("line %d: %s", i+1, x), sprintf("line %d: %s", i+1, y)
		}
	}
	return "", ""
}

// ---------------------------------------------------------------------------------------
// invariant walkers

type slViolation struct{ which, detail string }

type slInv struct {
	vs        []slViolation
	typeUsers map[*acmelib.SignalType]map[acmelib.EntityID]bool
	unitUsers map[*acmelib.SignalUnit]map[acmelib.EntityID]bool
	enumUsers map[*acmelib.SignalEnum]map[acmelib.EntityID]bool
	attrUsers map[acmelib.Attribute]map[acmelib.EntityID]bool
	cbUsers   map[*acmelib.CANIDBuilder]map[acmelib.EntityID]bool
	nodes     map[*acmelib.Node]bool
	ifaces    map[*acmelib.NodeInterface]bool
	msgs      map[*acmelib.Message]bool
}

func (c *slInv) bad(which, f string, a ...any) {
	if len(c.vs) < 40 {
		c.vs = append(c.vs, slViolation{which, sprintf(f, a...)})
	}
}

func slAddUser[K comparable](m map[K]map[acmelib.EntityID]bool, k K, id acmelib.EntityID) {
	if m[k] == nil {
		m[k] = map[acmelib.EntityID]bool{}
	}
	m[k][id] = true
}

// slCheckLayout: ascending, pairwise disjoint, inside [0,size).
func (c *slInv) layout(where string, sigs []acmelib.Signal, size int) {
	prevEnd := 0
	for i, s := range sigs {
		st, sz := s.GetRelativeStartPos(), s.GetSize()
		if sz <= 0 {
			c.bad("signal-size-positive", "%s: signal %q (%s) has size %d", where, s.Name(), s.EntityID(), sz)
		}
		if st < 0 || st+sz > size {
			c.bad("layout-in-bounds", "%s: signal %q (%s) occupies [%d,%d) outside [0,%d)", where, s.Name(), s.EntityID(), st, st+sz, size)
		}
		if i > 0 && st < prevEnd {
			if st < sigs[i-1].GetRelativeStartPos() {
				c.bad("layout-ascending", "%s: signal %q (%s) at %d listed after %q at %d", where, s.Name(), s.EntityID(), st, sigs[i-1].Name(), sigs[i-1].GetRelativeStartPos())
			} else {
				c.bad("layout-disjoint", "%s: signal %q (%s) at [%d,%d) overlaps %q ending at %d", where, s.Name(), s.EntityID(), st, st+sz, sigs[i-1].Name(), prevEnd)
			}
		}
		if st+sz > prevEnd {
			prevEnd = st + sz
		}
	}
}

func (c *slInv) assignments(where string, owner acmelib.EntityID, as []*acmelib.AttributeAssignment) {
	seen := map[acmelib.EntityID]bool{}
	for _, aa := range as {
		att := aa.Attribute()
		if att == nil {
			c.bad("assignment-attribute", "%s: assignment without attribute", where)
			continue
		}
		if seen[att.EntityID()] {
			c.bad("ids-unique", "%s: two assignments of attribute %s", where, att.EntityID())
		}
		seen[att.EntityID()] = true
		if aa.EntityID() != owner {
			c.bad("parent-links", "%s: assignment of %q names owner %s, held by %s", where, att.Name(), aa.EntityID(), owner)
		}
		slAddUser(c.attrUsers, att, owner)
		ok := true
		switch v := aa.Value().(type) {
		case int:
			x, err := att.ToInteger()
			ok = err == nil && v >= x.Min() && v <= x.Max()
		case float64:
			x, err := att.ToFloat()
			ok = err == nil && !(v < x.Min()) && !(v > x.Max())
		case string:
			switch att.Type() {
			case acmelib.AttributeTypeString:
			case acmelib.AttributeTypeEnum:
				x, err := att.ToEnum()
				ok = err == nil
				if ok {
					ok = false
					for _, s := range x.Values() {
						if s == v {
							ok = true
						}
					}
				}
			default:
				ok = false
			}
		default:
			ok = false
		}
		if !ok {
			c.bad("assignment-value", "%s: value %s does not conform to attribute %q (%s, %s)", where, slValStr(aa.Value()), att.Name(), att.Type(), att.EntityID())
		}
	}
}

func (c *slInv) signal(where string, s acmelib.Signal, msg *acmelib.Message, parent *acmelib.MultiplexerSignal, names map[string]acmelib.EntityID, ids map[acmelib.EntityID]acmelib.Signal) {
	here := sprintf("%s/%q(%s)", where, s.Name(), s.EntityID())
	if s.ParentMessage() != msg {
		c.bad("parent-links", "%s: ParentMessage is not the containing message", here)
	}
	if s.ParentMultiplexerSignal() != parent {
		c.bad("parent-links", "%s: ParentMultiplexerSignal is not the containing multiplexer", here)
	}
	if prev, dup := ids[s.EntityID()]; dup {
		if prev != s {
			c.bad("ids-unique", "%s: two signal objects with this entity id in one message", here)
		}
		return // same object met again (several groups)
	}
	ids[s.EntityID()] = s
	if other, dup := names[s.Name()]; dup && other != s.EntityID() {
		c.bad("names-unique", "%s: name also used by signal %s in the same message", here, other)
	}
	names[s.Name()] = s.EntityID()
	if got, err := msg.GetSignal(s.EntityID()); err != nil || got != s {
		c.bad("registry-complete", "%s: Message.GetSignal does not return the signal (err=%v)", here, err)
	}
	if got, err := msg.GetSignalByName(s.Name()); err != nil || got.EntityID() != s.EntityID() {
		c.bad("registry-complete", "%s: Message.GetSignalByName does not return the signal (err=%v)", here, err)
	}
	if s.Endianness() != msg.ByteOrder() {
		c.bad("endianness", "%s: endianness %s in a %s message", here, s.Endianness(), msg.ByteOrder())
	}
	c.assignments(here, s.EntityID(), s.AttributeAssignments())
	switch s.Kind() {
	case acmelib.SignalKindStandard:
		ss, err := s.ToStandard()
		if err != nil {
			c.bad("kind-consistent", "%s: kind standard but ToStandard fails", here)
			return
		}
		if t := ss.Type(); t == nil {
			c.bad("kind-consistent", "%s: standard signal without type", here)
		} else {
			slAddUser(c.typeUsers, t, s.EntityID())
			if t.Size() != s.GetSize() {
				c.bad("signal-size-positive", "%s: size %d differs from type size %d", here, s.GetSize(), t.Size())
			}
		}
		if u := ss.Unit(); u != nil {
			slAddUser(c.unitUsers, u, s.EntityID())
		}
	case acmelib.SignalKindEnum:
		es, err := s.ToEnum()
		if err != nil {
			c.bad("kind-consistent", "%s: kind enum but ToEnum fails", here)
			return
		}
		if e := es.Enum(); e == nil {
			c.bad("kind-consistent", "%s: enum signal without enum", here)
		} else {
			slAddUser(c.enumUsers, e, s.EntityID())
		}
	case acmelib.SignalKindMultiplexer:
		mux, err := s.ToMultiplexer()
		if err != nil {
			c.bad("kind-consistent", "%s: kind multiplexer but ToMultiplexer fails", here)
			return
		}
		groups := mux.GetSignalGroups()
		if len(groups) != mux.GroupCount() || mux.GroupCount() <= 0 || mux.GroupSize() <= 0 {
			c.bad("mux-shape", "%s: %d group lists, group count %d, group size %d", here, len(groups), mux.GroupCount(), mux.GroupSize())
		}
		if mux.GetSize() != mux.GroupSize()+mux.GetGroupCountSize() {
			c.bad("mux-shape", "%s: size %d != group size %d + selector %d", here, mux.GetSize(), mux.GroupSize(), mux.GetGroupCountSize())
		}
		localNames := map[string]acmelib.EntityID{}
		for g, grp := range groups {
			c.layout(sprintf("%s/group[%d]", here, g), grp, mux.GroupSize())
			inGroup := map[acmelib.EntityID]bool{}
			for _, ch := range grp {
				if inGroup[ch.EntityID()] {
					c.bad("ids-unique", "%s/group[%d]: signal %s listed twice", here, g, ch.EntityID())
				}
				inGroup[ch.EntityID()] = true
				if o, dup := localNames[ch.Name()]; dup && o != ch.EntityID() {
					c.bad("names-unique", "%s: children %s and %s share the name %q", here, o, ch.EntityID(), ch.Name())
				}
				localNames[ch.Name()] = ch.EntityID()
				c.signal(here, ch, msg, mux, names, ids)
			}
		}
	default:
		c.bad("kind-consistent", "%s: unknown kind %d", here, s.Kind())
	}
}

func (c *slInv) message(where string, m *acmelib.Message, ni *acmelib.NodeInterface) {
	here := sprintf("%s/msg %q(%s)", where, m.Name(), m.EntityID())
	if c.msgs[m] {
		c.bad("ids-unique", "%s: message object reachable twice", here)
	}
	c.msgs[m] = true
	if m.SenderNodeInterface() != ni {
		c.bad("parent-links", "%s: SenderNodeInterface is not the interface listing it", here)
	}
	if m.SizeByte() < 0 {
		c.bad("msg-size-bound", "%s: negative size %d", here, m.SizeByte())
	}
	if pb := ni.ParentBus(); pb != nil && pb.Type() == acmelib.BusTypeCAN2A && m.SizeByte() > 8 {
		c.bad("msg-size-bound", "%s: size %d bytes on a CAN 2.0A bus", here, m.SizeByte())
	}
	c.assignments(here, m.EntityID(), m.AttributeAssignments())
	c.layout(here, m.Signals(), m.SizeByte()*8)
	names := map[string]acmelib.EntityID{}
	ids := map[acmelib.EntityID]acmelib.Signal{}
	for _, s := range m.Signals() {
		c.signal(here, s, m, nil, names, ids)
	}
	if n := len(m.SignalNames()); n != len(names) {
		c.bad("registry-complete", "%s: SignalNames has %d entries, the tree has %d distinct names", here, n, len(names))
	}
	seenRec := map[*acmelib.NodeInterface]bool{}
	for _, rec := range m.Receivers() {
		if seenRec[rec] {
			c.bad("receiver-links", "%s: receiver listed twice", here)
		}
		seenRec[rec] = true
		if rec == ni {
			c.bad("receiver-links", "%s: the sender interface is a receiver", here)
		}
		found := false
		for _, rm := range rec.ReceivedMessages() {
			if rm == m {
				found = true
			}
		}
		if !found {
			c.bad("receiver-links", "%s: receiver %q#%d does not list the message as received", here, rec.Node().Name(), rec.Number())
		}
		c.ifaces[rec] = true
	}
}

func slSetStr(m map[acmelib.EntityID]bool) string {
	var xs []string
	for k := range m {
		xs = append(xs, string(k))
	}
	sort.Strings(xs)
	return listStr(xs)
}

// outside: a reference that is not a user found in the network is still legitimate when this
// says so (a saved node that no bus attaches uses its attributes although it is outside the network)
func slRefsCheck[R interface{ EntityID() acmelib.EntityID }](c *slInv, what string, refs []R, refCount int, users map[acmelib.EntityID]bool, exact bool, outside ...func(R) bool) {
	byID := map[acmelib.EntityID]R{}
	for _, r := range refs {
		byID[r.EntityID()] = r
	}
	got := map[acmelib.EntityID]bool{}
	for _, r := range refs {
		got[r.EntityID()] = true
	}
	if refCount != len(refs) {
		c.bad("reference-lists", "%s: ReferenceCount %d but %d references", what, refCount, len(refs))
	}
	for u := range users {
		if !got[u] {
			c.bad("reference-lists", "%s: user %s is not in References %s", what, u, slSetStr(got))
		}
	}
	if exact {
		for g := range got {
			if !users[g] {
				if len(outside) > 0 && outside[0](byID[g]) {
					continue
				}
				c.bad("reference-lists", "%s: References holds %s which does not use it in the network (users %s)", what, g, slSetStr(users))
			}
		}
	}
}

// slInvariants walks a network through public getters and reports the violated model
// invariants.  exactRefs: every reference must come from inside the network (true for
// loaded networks, whose definitions cannot be referenced from anywhere else).
func slInvariants(net *acmelib.Network, exactRefs bool, names ...string) []slViolation {
	c := &slInv{typeUsers: map[*acmelib.SignalType]map[acmelib.EntityID]bool{},
		unitUsers: map[*acmelib.SignalUnit]map[acmelib.EntityID]bool{},
		enumUsers: map[*acmelib.SignalEnum]map[acmelib.EntityID]bool{},
		attrUsers: map[acmelib.Attribute]map[acmelib.EntityID]bool{},
		cbUsers:   map[*acmelib.CANIDBuilder]map[acmelib.EntityID]bool{},
		nodes:     map[*acmelib.Node]bool{}, ifaces: map[*acmelib.NodeInterface]bool{}, msgs: map[*acmelib.Message]bool{}}
	busNames := map[string]bool{}
	busIDs := map[acmelib.EntityID]bool{}
	for _, b := range net.Buses() {
		here := sprintf("bus %q(%s)", b.Name(), b.EntityID())
		if busNames[b.Name()] {
			c.bad("names-unique", "%s: bus name used twice", here)
		}
		busNames[b.Name()] = true
		if busIDs[b.EntityID()] {
			c.bad("ids-unique", "%s: bus entity id used twice", here)
		}
		busIDs[b.EntityID()] = true
		if b.ParentNetwork() != net {
			c.bad("parent-links", "%s: ParentNetwork is not the network", here)
		}
		if cb := b.CANIDBuilder(); cb == nil {
			c.bad("builder-present", "%s: nil CAN-ID builder", here)
		} else {
			slAddUser(c.cbUsers, cb, b.EntityID())
		}
		c.assignments(here, b.EntityID(), b.AttributeAssignments())
		nodeNames := map[string]bool{}
		nodeIDs := map[acmelib.NodeID]bool{}
		nodeEnt := map[acmelib.EntityID]bool{}
		canIDs := map[acmelib.CANID]string{}
		for _, ni := range b.NodeInterfaces() {
			n := ni.Node()
			nh := sprintf("%s/node %q(%s)#%d", here, n.Name(), n.EntityID(), ni.Number())
			if ni.ParentBus() != b {
				c.bad("parent-links", "%s: ParentBus is not the bus listing the interface", nh)
			}
			if nodeNames[n.Name()] {
				c.bad("names-unique", "%s: node name used twice on the bus", nh)
			}
			nodeNames[n.Name()] = true
			if nodeIDs[n.ID()] {
				c.bad("ids-unique", "%s: node id %d used twice on the bus", nh, n.ID())
			}
			nodeIDs[n.ID()] = true
			if nodeEnt[n.EntityID()] {
				c.bad("ids-unique", "%s: node entity id used twice on the bus", nh)
			}
			nodeEnt[n.EntityID()] = true
			ifs := n.Interfaces()
			if ni.Number() < 0 || ni.Number() >= len(ifs) || ifs[ni.Number()] != ni {
				c.bad("parent-links", "%s: Node.Interfaces()[%d] is not this interface (node has %d)", nh, ni.Number(), len(ifs))
			}
			c.nodes[n] = true
			c.ifaces[ni] = true
			msgNames := map[string]bool{}
			msgIDs := map[acmelib.MessageID]bool{}
			msgEnt := map[acmelib.EntityID]bool{}
			for _, m := range ni.SentMessages() {
				if msgNames[m.Name()] {
					c.bad("names-unique", "%s: message name %q used twice", nh, m.Name())
				}
				msgNames[m.Name()] = true
				if msgEnt[m.EntityID()] {
					c.bad("ids-unique", "%s: message entity id %s used twice", nh, m.EntityID())
				}
				msgEnt[m.EntityID()] = true
				if m.HasStaticCANID() {
					if o, dup := canIDs[m.GetCANID()]; dup {
						c.bad("ids-unique", "%s: static CAN-ID %d of %q also used by %s on the bus", nh, m.GetCANID(), m.Name(), o)
					}
					canIDs[m.GetCANID()] = m.Name()
				} else {
					if msgIDs[m.ID()] {
						c.bad("ids-unique", "%s: message id %d used twice", nh, m.ID())
					}
					msgIDs[m.ID()] = true
				}
				c.message(nh, m, ni)
			}
		}
	}
	// nodes and received lists
	for n := range c.nodes {
		ifs := n.Interfaces()
		for k, ni := range ifs {
			if ni.Node() != n || ni.Number() != k {
				c.bad("parent-links", "node %q(%s): interface at %d has number %d / another node", n.Name(), n.EntityID(), k, ni.Number())
			}
		}
		c.assignments(sprintf("node %q(%s)", n.Name(), n.EntityID()), n.EntityID(), n.AttributeAssignments())
	}
	for ni := range c.ifaces {
		for _, m := range ni.ReceivedMessages() {
			found := false
			for _, rec := range m.Receivers() {
				if rec == ni {
					found = true
				}
			}
			if !found {
				c.bad("receiver-links", "interface %q#%d lists message %q(%s) as received but is not among its receivers", ni.Node().Name(), ni.Number(), m.Name(), m.EntityID())
			}
			if exactRefs && !c.msgs[m] {
				c.bad("receiver-links", "interface %q#%d receives message %q(%s) which no interface of the network sends", ni.Node().Name(), ni.Number(), m.Name(), m.EntityID())
			}
		}
	}
	// reference lists
	// a signal of the save that the loader built but never placed (e.g. the first of two
	// signals with one entity id inside a multiplexer) is OUTSIDE the network; it legitimately
	// references its definitions, exactly like a signal made through the API and never attached.
	// The same holds for a signal inside a multiplexer that was built and never placed (a
	// multi-group child that is a multiplexer is saved once per group; the loader builds every
	// occurrence with its whole subtree and keeps the last): the tree it sits in has no message.
	for t, us := range c.typeUsers {
		typ := t
		slRefsCheck(c, sprintf("type %q(%s)", t.Name(), t.EntityID()), t.References(), t.ReferenceCount(), us, exactRefs,
			func(sg *acmelib.StandardSignal) bool {
				return sg != nil && sg.Type() == typ && slDetachedTree(sg)
			})
	}
	for u, us := range c.unitUsers {
		unit := u
		slRefsCheck(c, sprintf("unit %q(%s)", u.Name(), u.EntityID()), u.References(), u.ReferenceCount(), us, exactRefs,
			func(sg *acmelib.StandardSignal) bool {
				return sg != nil && sg.Unit() == unit && slDetachedTree(sg)
			})
	}
	for e, us := range c.enumUsers {
		enum := e
		slRefsCheck(c, sprintf("enum %q(%s)", e.Name(), e.EntityID()), e.References(), e.ReferenceCount(), us, exactRefs,
			func(sg *acmelib.EnumSignal) bool {
				return sg != nil && sg.Enum() == enum && slDetachedTree(sg)
			})
		valNames := map[string]bool{}
		valIdx := map[int]bool{}
		maxIdx := 0
		for _, v := range e.Values() {
			if valNames[v.Name()] {
				c.bad("names-unique", "enum %q(%s): value name %q used twice", e.Name(), e.EntityID(), v.Name())
			}
			valNames[v.Name()] = true
			if valIdx[v.Index()] {
				c.bad("ids-unique", "enum %q(%s): value index %d used twice", e.Name(), e.EntityID(), v.Index())
			}
			valIdx[v.Index()] = true
			if v.ParentEnum() != e {
				c.bad("parent-links", "enum %q(%s): value %q has another parent", e.Name(), e.EntityID(), v.Name())
			}
			if v.Index() > maxIdx {
				maxIdx = v.Index()
			}
			if v.Index() < 0 {
				c.bad("enum-shape", "enum %q(%s): value %q has negative index %d", e.Name(), e.EntityID(), v.Name(), v.Index())
			}
		}
		if e.MaxIndex() != maxIdx {
			c.bad("enum-shape", "enum %q(%s): MaxIndex %d, highest value index %d", e.Name(), e.EntityID(), e.MaxIndex(), maxIdx)
		}
		if need := acmelib.VerifCalcSizeFromValue(maxIdx); e.GetSize() < need || e.GetSize() < e.MinSize() {
			c.bad("enum-shape", "enum %q(%s): size %d, needs %d, min size %d", e.Name(), e.EntityID(), e.GetSize(), need, e.MinSize())
		}
	}
	for a, us := range c.attrUsers {
		att := a
		slRefsCheck(c, sprintf("attribute %q(%s)", a.Name(), a.EntityID()), a.References(), len(a.References()), us, exactRefs,
			func(aa *acmelib.AttributeAssignment) bool {
				// a node of the save that no bus attaches: it does carry the assignment
				if sg, err := aa.ToSignalEntity(); err == nil {
					// a signal the loader built but never placed (see the type / unit / enum checks)
					if sg.ParentMessage() != nil || sg.ParentMultiplexerSignal() != nil {
						return false
					}
					got, err := sg.GetAttributeAssignment(att.EntityID())
					return err == nil && got == aa
				}
				n, err := aa.ToNodeEntity()
				if err != nil || c.nodes[n] {
					return false
				}
				got, err := n.GetAttributeAssignment(att.EntityID())
				return err == nil && got == aa
			})
		what := sprintf("attribute %q(%s)", a.Name(), a.EntityID())
		switch a.Type() {
		case acmelib.AttributeTypeInteger:
			if x, err := a.ToInteger(); err != nil {
				c.bad("kind-consistent", "%s: type integer but ToInteger fails", what)
			} else if x.Min() > x.Max() || x.DefValue() < x.Min() || x.DefValue() > x.Max() {
				c.bad("attribute-shape", "%s: default %d, range [%d,%d]", what, x.DefValue(), x.Min(), x.Max())
			}
		case acmelib.AttributeTypeFloat:
			if x, err := a.ToFloat(); err != nil {
				c.bad("kind-consistent", "%s: type float but ToFloat fails", what)
			} else if x.Min() > x.Max() || x.DefValue() < x.Min() || x.DefValue() > x.Max() {
				c.bad("attribute-shape", "%s: default %v, range [%v,%v]", what, x.DefValue(), x.Min(), x.Max())
			}
		case acmelib.AttributeTypeEnum:
			if x, err := a.ToEnum(); err != nil {
				c.bad("kind-consistent", "%s: type enum but ToEnum fails", what)
			} else {
				vals := x.Values()
				if len(vals) == 0 || vals[0] != x.DefValue() {
					c.bad("attribute-shape", "%s: default %q, values %q", what, x.DefValue(), vals)
				}
			}
		case acmelib.AttributeTypeString:
			if _, err := a.ToString(); err != nil {
				c.bad("kind-consistent", "%s: type string but ToString fails", what)
			}
		default:
			c.bad("kind-consistent", "%s: unknown attribute type %d", what, a.Type())
		}
	}
	for cb, us := range c.cbUsers {
		slRefsCheck(c, sprintf("CAN-ID builder %q(%s)", cb.Name(), cb.EntityID()), cb.References(), cb.ReferenceCount(), us, exactRefs)
	}
	c.lookups(net, names)
	return c.vs
}

// lookups: every by-name getter, asked for every name that occurs in the input, answers
// with an error or with an entity of that name which the container lists (a stale name
// registry would answer with something else, or panic).
func (c *slInv) lookups(net *acmelib.Network, names []string) {
	seen := map[string]bool{}
	var uniq []string
	for _, n := range names {
		if !seen[n] {
			seen[n] = true
			uniq = append(uniq, n)
		}
	}
	try := func(where, name string, f func() (string, bool, error)) {
		defer func() {
			if r := recover(); r != nil {
				c.bad("registry-stale", "%s: lookup of the name %q panicked: %v", where, name, r)
			}
		}()
		got, listed, err := f()
		if err != nil {
			return
		}
		if got != name {
			c.bad("registry-stale", "%s: lookup of the name %q returns an entity named %q", where, name, got)
		} else if !listed {
			c.bad("registry-stale", "%s: lookup of the name %q returns an entity the container does not list", where, name)
		}
	}
	for _, b := range net.Buses() {
		bw := sprintf("bus %q(%s)", b.Name(), b.EntityID())
		nis := b.NodeInterfaces()
		for _, name := range uniq {
			try(bw+".GetNodeInterfaceByNodeName", name, func() (string, bool, error) {
				ni, err := b.GetNodeInterfaceByNodeName(name)
				if err != nil {
					return "", false, err
				}
				listed := false
				for _, x := range nis {
					if x == ni {
						listed = true
					}
				}
				return ni.Node().Name(), listed, nil
			})
		}
		for _, ni := range nis {
			nw := sprintf("%s/node %q#%d", bw, ni.Node().Name(), ni.Number())
			msgs := ni.SentMessages()
			for _, name := range uniq {
				try(nw+".GetSentMessageByName", name, func() (string, bool, error) {
					m, err := ni.GetSentMessageByName(name)
					if err != nil {
						return "", false, err
					}
					listed := false
					for _, x := range msgs {
						if x == m {
							listed = true
						}
					}
					return m.Name(), listed, nil
				})
			}
			for _, m := range msgs {
				mw := sprintf("%s/msg %q", nw, m.Name())
				for _, name := range uniq {
					try(mw+".GetSignalByName", name, func() (string, bool, error) {
						s, err := m.GetSignalByName(name)
						if err != nil {
							return "", false, err
						}
						got, err2 := m.GetSignal(s.EntityID())
						return s.Name(), err2 == nil && got == s && s.ParentMessage() == m, nil
					})
				}
			}
		}
	}
}

// slViewNames lists the names recorded in a view.
func slViewNames(v *slView) []string {
	var ns []string
	for _, it := range v.items {
		if it.field == "name" {
			ns = append(ns, it.val)
		}
	}
	return ns
}


// slDetachedTree: the signal has no parent message and the multiplexer tree it sits in (if any)
// is attached to no message either.
func slDetachedTree(sg acmelib.Signal) bool {
	if sg.ParentMessage() != nil {
		return false
	}
	for depth, mx := 0, sg.ParentMultiplexerSignal(); mx != nil && depth < 64; depth, mx = depth+1, mx.ParentMultiplexerSignal() {
		if mx.ParentMessage() != nil {
			return false
		}
	}
	return true
}
