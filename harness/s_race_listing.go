package main

import (
	"reflect"
	"sort"
	"unsafe"

	"github.com/squadracorsepolito/acmelib"
)

// Listing probe (C18, "internal slices handed out or sorted by getters"): a sequential witness
// of the conflicting write of a data race.  Before the read-only operations run, every exported
// argument-less method of every entity that returns a slice is called once and the WHOLE backing
// array of the result (up to its capacity) is remembered, element by element.  After all
// read-only operations have run (exports, listings, String, CAN-IDs, bus load ...), the backing
// arrays are compared again: a difference means that a read-only operation stored into memory
// that a listing of the model shares — two goroutines doing the same is a data race, and the
// store is the failing access.  Getters that return fresh slices can never show a difference.

type listingSnap struct {
	what  string
	full  reflect.Value // the result re-sliced to its capacity
	elems []any
}

func elemIdent(v reflect.Value) any {
	switch v.Kind() {
	case reflect.Ptr, reflect.Map, reflect.Chan, reflect.Func, reflect.UnsafePointer:
		return v.Pointer()
	case reflect.Interface:
		if v.IsNil() {
			return nil
		}
		return elemIdent(v.Elem())
	case reflect.Slice:
		return [2]any{v.Pointer(), v.Len()}
	case reflect.String:
		return v.String()
	case reflect.Bool:
		return v.Bool()
	case reflect.Int, reflect.Int8, reflect.Int16, reflect.Int32, reflect.Int64:
		return v.Int()
	case reflect.Uint, reflect.Uint8, reflect.Uint16, reflect.Uint32, reflect.Uint64, reflect.Uintptr:
		return v.Uint()
	case reflect.Float32, reflect.Float64:
		return v.Float()
	}
	return nil // structs and arrays by value: not compared
}

func listingEntities(g *genNet) []any {
	var es []any
	es = append(es, g.net)
	for _, b := range g.buses {
		es = append(es, b)
		for _, ni := range b.NodeInterfaces() {
			es = append(es, ni)
		}
	}
	for _, n := range g.nodes {
		es = append(es, n)
	}
	for _, m := range g.msgs {
		es = append(es, m, m.SignalLayout())
	}
	for _, s := range g.sigs {
		es = append(es, s)
		if mx, err := s.ToMultiplexer(); err == nil && mx != nil {
			es = append(es, mx)
		}
	}
	for _, t := range g.types {
		es = append(es, t)
	}
	for _, u := range g.units {
		es = append(es, u)
	}
	for _, en := range g.enums {
		es = append(es, en)
		for _, v := range en.Values() {
			es = append(es, v)
		}
	}
	for _, a := range g.attrs {
		es = append(es, a)
	}
	for _, cb := range g.builders {
		es = append(es, cb)
	}
	return es
}

var _ = acmelib.NewNetwork

func listingSnapshots(g *genNet) (snaps []listingSnap) {
	for _, ent := range listingEntities(g) {
		v := reflect.ValueOf(ent)
		if !v.IsValid() || (v.Kind() == reflect.Ptr && v.IsNil()) {
			continue
		}
		t := v.Type()
		for i := 0; i < t.NumMethod(); i++ {
			m := t.Method(i)
			if m.Type.NumIn() != 1 || m.Type.NumOut() < 1 || m.Type.Out(0).Kind() != reflect.Slice {
				continue
			}
			if mutatorName(m.Name) {
				continue
			}
			func() {
				defer func() { _ = recover() }()
				out := v.Method(i).Call(nil)[0]
				if out.IsNil() || out.Cap() == 0 {
					return
				}
				full := out.Slice3(0, out.Cap(), out.Cap())
				sn := listingSnap{what: t.String() + "." + m.Name, full: full}
				for k := 0; k < full.Len(); k++ {
					sn.elems = append(sn.elems, elemIdent(full.Index(k)))
				}
				snaps = append(snaps, sn)
			}()
		}
	}
	return snaps
}

func mutatorName(n string) bool {
	for _, p := range []string{"Add", "Remove", "Insert", "Append", "Set", "Update", "Assign", "Clear", "Shift", "Compact", "Use", "New", "Import", "Load", "Clone", "Verif"} {
		if len(n) >= len(p) && n[:len(p)] == p {
			return true
		}
	}
	return false
}

// listingChanged returns the listings whose backing array no longer holds what it held.
func listingChanged(snaps []listingSnap) []string {
	seen := map[string]bool{}
	for _, sn := range snaps {
		for k := 0; k < sn.full.Len() && k < len(sn.elems); k++ {
			if !reflect.DeepEqual(elemIdent(sn.full.Index(k)), sn.elems[k]) {
				seen[sprintf("%s[%d of len/cap %d]", sn.what, k, sn.full.Len())] = true
				break
			}
		}
	}
	var out []string
	for k := range seen {
		out = append(out, k)
	}
	sort.Strings(out)
	return out
}

var _ = unsafe.Pointer(nil)
