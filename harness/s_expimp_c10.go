package main

import (
	"bytes"
	"math/rand"
	"os"
	"regexp"
	"sort"
	"strconv"
	"strings"

	"github.com/squadracorsepolito/acmelib"
	"github.com/squadracorsepolito/acmelib/dbc"
)

// C10 / C09 oracles of the expimp stream.  The reference of a text is the AST dbc.Parse
// returns for it; the imported bus is read through public getters only.

const eiFile = "f.dbc"

// EXPIMP_DUMP=1 prints every checked text to stderr (debugging a replayed line).
var eiDump = os.Getenv("EXPIMP_DUMP") != ""

// ---- guarded calls (C09) ----

func (c *eiCtx) safeParse(label, text string) (f *dbc.File, err error, panicked bool) {
	defer func() {
		if r := recover(); r != nil {
			panicked = true
			c.fail("C09", "c09-panic:parse:"+eiFirst(sprintf("%v", r), 50), sprintf("%s: dbc.Parse panics: %v; text %s", label, r, eiQuoteShort(text)))
		}
	}()
	f, err = dbc.Parse(eiFile, strings.NewReader(text), false)
	return f, err, false
}

func (c *eiCtx) safeImport(label, text string) (b *acmelib.Bus, err error, panicked bool) {
	defer func() {
		if r := recover(); r != nil {
			panicked = true
			c.fail("C09", "c09-panic:import:"+eiFirst(eiStable(sprintf("%v", r)), 50), sprintf("%s: ImportDBCFile panics: %v; text %s", label, r, eiQuoteShort(text)))
		}
	}()
	b, err = acmelib.ImportDBCFile(eiFile, strings.NewReader(text))
	return b, err, false
}

func eiFirst(s string, n int) string {
	if len(s) > n {
		return s[:n]
	}
	return s
}

// eiStable removes generated names, ids and numbers from a panic text.
func eiStable(s string) string {
	s = eiReHexID.ReplaceAllString(s, "ID")
	s = eiReNum.ReplaceAllString(s, "N")
	return s
}

func eiQuoteShort(text string) string {
	if len(text) > 400 {
		return strconv.Quote(text[:400]) + "…"
	}
	return strconv.Quote(text)
}

var eiReErrLoc = regexp.MustCompile(regexp.QuoteMeta(eiFile) + `:(\d+):(\d+)`)
var eiReErrTok = regexp.MustCompile(`: "([^"\n]*)"$`)

// eiHostileNames: file names a caller may pass; the error must name them literally.
var eiHostileNames = []string{"my%20network.dbc", "load_100%.dbc", "can%d_%s.dbc", "%v%!.dbc", "dir with space/f.dbc", "é\u00a0ü.dbc", "", "%"}

// checkErrFileName: the same text under another file name gives the same error with that
// name in the place of the first (the name is data, never a format).
func (c *eiCtx) checkErrFileName(label, text string, err error) {
	h := 0
	for i := 0; i < len(text); i++ {
		h = h*31 + int(text[i])
	}
	if h < 0 {
		h = -h
	}
	name := eiHostileNames[h%len(eiHostileNames)]
	var err2 error
	func() {
		defer func() {
			if r := recover(); r != nil {
				c.fail("C09", "c09-panic:parse:"+eiFirst(sprintf("%v", r), 50), sprintf("%s: dbc.Parse panics under file name %q: %v; text %s", label, name, r, eiQuoteShort(text)))
			}
		}()
		_, err2 = dbc.Parse(name, strings.NewReader(text), false)
	}()
	if err2 == nil {
		c.fail("C09", "c09-error-location:file-name", sprintf("%s: rejected under file name %q but accepted under %q; text %s", label, eiFile, name, eiQuoteShort(text)))
		return
	}
	want := strings.Replace(err.Error(), eiFile+":", name+":", 1)
	if err2.Error() != want {
		c.fail("C09", "c09-error-location:file-name", sprintf("%s: under file name %q the error reads %q, expected %q; text %s", label, name, err2.Error(), want, eiQuoteShort(text)))
	}
}

// checkErrLoc: a syntax error carries file:line:col of the offending token.
func (c *eiCtx) checkErrLoc(label, text string, err error) {
	c.checkErrFileName(label, text, err)
	msg := err.Error()
	m := eiReErrLoc.FindStringSubmatch(msg)
	if m == nil {
		c.fail("C09", "c09-error-location", sprintf("%s: the error %q has no %s:line:col; text %s", label, msg, eiFile, eiQuoteShort(text)))
		return
	}
	ln, _ := strconv.Atoi(m[1])
	col, _ := strconv.Atoi(m[2])
	lines := strings.Split(text, "\n")
	if ln < 1 || ln > len(lines) || col < 0 {
		c.fail("C09", "c09-error-location", sprintf("%s: the error %q points outside the text (%d lines); text %s", label, msg, len(lines), eiQuoteShort(text)))
		return
	}
	line := lines[ln-1]
	if strings.ContainsAny(line, "\t") {
		return // a tab counts five columns
	}
	runes := []rune(line)
	if col > len(runes)+1 {
		c.fail("C09", "c09-error-location", sprintf("%s: the error %q points beyond the end of line %d (%d characters); text %s", label, msg, ln, len(runes), eiQuoteShort(text)))
		return
	}
	// the quoted token of the message starts at line:col
	if tm := eiReErrTok.FindStringSubmatch(msg); tm != nil && tm[1] != "" && col >= 1 {
		tok := tm[1]
		rest := string(runes[col-1:])
		if !strings.HasPrefix(rest, tok) && !strings.HasPrefix(rest, `"`+tok) {
			c.fail("C09", "c09-error-location:not-at-token", sprintf("%s: the error %q names token %q but line %d col %d reads %q", label, msg, tok, ln, col, eiFirst(rest, 30)))
		}
	}
}

// eiExcluded: multiplexor selectors wider than 16 bits allocate the group table eagerly
// (excluded by the property); signal sizes beyond 64 are not decodable.
func eiExcluded(f *dbc.File) bool {
	for _, m := range f.Messages {
		for _, s := range m.Signals {
			if s.IsMultiplexor && s.Size > 16 {
				return true
			}
		}
	}
	return false
}

// eiHugeMuxed finds a signal of more than 2^22 bits in a message that has a multiplexor.
func eiHugeMuxed(f *dbc.File) (*dbc.Message, *dbc.Signal) {
	for _, m := range f.Messages {
		hasMux := false
		for _, s := range m.Signals {
			hasMux = hasMux || s.IsMultiplexor
		}
		if !hasMux {
			continue
		}
		for _, s := range m.Signals {
			if s.Size > 1<<22 || s.StartBit > 1<<22 {
				return m, s
			}
		}
	}
	return nil, nil
}

// checkText runs the C09 and C10 checks on one text.  wellFormed: the text was written by the
// exporter / the fixtures / the DBC-level generator, so the import is expected to accept it.
func (c *eiCtx) checkText(label, text string, wellFormed bool, deep bool) {
	c.at(label)
	c.texts++
	if eiDump {
		os.Stderr.WriteString("---- " + label + "\n" + text + "\n")
	}
	ref, perr, pan := c.safeParse(label, text)
	if pan {
		return
	}
	if perr != nil {
		if eiDump {
			os.Stderr.WriteString("PARSE ERROR: " + perr.Error() + "\n")
		}
		c.checkErrLoc(label, text, perr)
		// C10 speaks about the files the importer ACCEPTS: a rejected text, well formed or not,
		// is outside its quantifier (the acceptance rate is in the line's answer and in the tags)
		_ = wellFormed
		return
	}
	if ref == nil {
		c.fail("C09", "c09-parse-nil", sprintf("%s: dbc.Parse returns neither a file nor an error; text %s", label, eiQuoteShort(text)))
		return
	}
	c.parsed++
	if eiExcluded(ref) {
		return
	}
	bus, ierr, pan := c.safeImport(label, text)
	if pan {
		return
	}
	if ierr != nil {
		if eiDump {
			os.Stderr.WriteString("IMPORT ERROR: " + ierr.Error() + "\n")
		}
		return
	}
	if bus == nil {
		c.fail("C09", "c09-import-nil", sprintf("%s: ImportDBCFile returns neither a bus nor an error; text %s", label, eiQuoteShort(text)))
		return
	}
	c.imports++
	if deep {
		c.checkImported(label, text, ref, bus)
	}
}

// eiEnumWidthClass names the known cause of a wrong enum-signal width in a file ("" = none):
// a shared global value table, or a value description that does not fit the signal.
func eiEnumWidthClass(f *dbc.File) string {
	if eiSharedTableWidths(f) {
		return "c10-shared-valtable-widths:"
	}
	sizes := map[string]uint32{}
	for _, m := range f.Messages {
		for _, s := range m.Signals {
			sizes[eiSigKey(m.ID, s.Name)] = s.Size
		}
	}
	for _, ve := range f.ValueEncodings {
		sz, ok := sizes[eiSigKey(ve.MessageID, ve.SignalName)]
		if ve.Kind != dbc.ValueEncodingSignal || !ok || sz >= 32 {
			continue
		}
		for _, v := range ve.Values {
			if v.ID >= 1<<sz {
				return "c10-value-exceeds-width:"
			}
		}
	}
	return ""
}

// eiSharedTableWidths: signals of different widths carry the value descriptions of one global
// value table (the import lets them share one enum, whose width then is the largest).
func eiSharedTableWidths(f *dbc.File) bool {
	canon := func(vs []*dbc.ValueDescription) string {
		var xs []string
		for _, v := range vs {
			xs = append(xs, sprintf("%06d:%s", v.ID, v.Name))
		}
		sort.Strings(xs)
		return strings.Join(xs, ",")
	}
	tables := map[string]bool{}
	for _, t := range f.ValueTables {
		if len(t.Values) > 0 {
			tables[canon(t.Values)] = true
		}
	}
	if len(tables) == 0 {
		return false
	}
	sizes := map[string]uint32{}
	for _, m := range f.Messages {
		for _, s := range m.Signals {
			sizes[eiSigKey(m.ID, s.Name)] = s.Size
		}
	}
	widths := map[string]map[uint32]bool{}
	for _, ve := range f.ValueEncodings {
		k := canon(ve.Values)
		if ve.Kind != dbc.ValueEncodingSignal || !tables[k] {
			continue
		}
		if sz, ok := sizes[eiSigKey(ve.MessageID, ve.SignalName)]; ok {
			if widths[k] == nil {
				widths[k] = map[uint32]bool{}
			}
			widths[k][sz] = true
		}
	}
	for _, w := range widths {
		if len(w) > 1 {
			return true
		}
	}
	return false
}

// ---- C10: the imported bus against the reference AST ----

func eiConv(s *dbc.Signal) int {
	st := int(s.StartBit)
	if s.ByteOrder == dbc.SignalLittleEndian {
		return st
	}
	return st + 7 - 2*(st%8)
}

// eiRawDBC is an independent implementation of the DBC bit-numbering rules.
func eiRawDBC(data []byte, start, size int, bigEndian bool) (uint64, bool) {
	var v uint64
	if !bigEndian {
		for i := 0; i < size; i++ {
			k := start + i
			if k/8 >= len(data) {
				return 0, false
			}
			v |= uint64(data[k/8]>>(k%8)&1) << i
		}
		return v, true
	}
	b := start // the most significant bit
	for i := 0; i < size; i++ {
		if b < 0 || b/8 >= len(data) {
			return 0, false
		}
		v = v<<1 | uint64(data[b/8]>>(b%8)&1)
		if b%8 == 0 {
			b += 15
		} else {
			b--
		}
	}
	return v, true
}

var eiMsgSendTypes = map[string]acmelib.MessageSendType{
	"Cyclic": acmelib.MessageSendTypeCyclic, "CyclicIfActive": acmelib.MessageSendTypeCyclicIfActive,
	"CyclicAndTriggered": acmelib.MessageSendTypeCyclicAndTriggered, "CyclicIfActiveAndTriggered": acmelib.MessageSendTypeCyclicIfActiveAndTriggered,
}

var eiSigSendTypes = map[string]acmelib.SignalSendType{
	"Cyclic": acmelib.SignalSendTypeCyclic, "OnWrite": acmelib.SignalSendTypeOnWrite, "OnWriteWithRepetition": acmelib.SignalSendTypeOnWriteWithRepetition,
	"OnChange": acmelib.SignalSendTypeOnChange, "OnChangeWithRepetition": acmelib.SignalSendTypeOnChangeWithRepetition,
	"IfActive": acmelib.SignalSendTypeIfActive, "IfActiveWithRepetition": acmelib.SignalSendTypeIfActiveWithRepetition,
}

func eiSigKey(id uint32, name string) string { return sprintf("%d/%s", id, name) }

func (c *eiCtx) checkImported(label, text string, ref *dbc.File, bus *acmelib.Bus) {
	shared := eiEnumWidthClass(ref)
	fail := func(sig, detail string) {
		if sig == "c10-sig:size" || sig == "c10-mux-start" || sig == "c10-sig:start" {
			sig = shared + sig
		}
		c.fail("C10", sig, label+": "+detail)
	}
	c.checkInvariants(label, bus, shared)
	got := eiProjectBus(bus)
	raw := map[uint32]*acmelib.Message{}
	for _, ni := range bus.NodeInterfaces() {
		for _, m := range ni.SentMessages() {
			raw[uint32(m.GetCANID())] = m
		}
	}

	// nodes: the file's nodes, plus the placeholder when a message names no sender
	var wantNodes []string
	if ref.Nodes != nil {
		for _, n := range ref.Nodes.Names {
			if n != dbc.DummyNode {
				wantNodes = append(wantNodes, n)
			}
		}
	}
	for _, m := range ref.Messages {
		if m.Transmitter == dbc.DummyNode {
			wantNodes = append(wantNodes, dbc.DummyNode)
			break
		}
	}
	if !eiStrsEq(wantNodes, got.nodes) {
		fail("c10-nodes", sprintf("the file has nodes %v, the bus %v", wantNodes, got.nodes))
	}

	// indexes of the reference
	msgCount := map[uint32]int{}
	for _, m := range ref.Messages {
		msgCount[m.ID]++
	}
	comments := map[string]string{}
	commentN := map[string]int{}
	for _, cm := range ref.Comments {
		if cm.Kind == dbc.CommentSignal {
			k := eiSigKey(cm.MessageID, cm.SignalName)
			comments[k] = cm.Text
			commentN[k]++
		}
	}
	valEnc := map[string]*dbc.ValueEncoding{}
	valEncN := map[string]int{}
	for _, ve := range ref.ValueEncodings {
		if ve.Kind == dbc.ValueEncodingSignal {
			k := eiSigKey(ve.MessageID, ve.SignalName)
			valEnc[k] = ve
			valEncN[k]++
		}
	}
	extMux := map[string]*dbc.ExtendedMux{}
	extMuxN := map[string]int{}
	for _, em := range ref.ExtendedMuxes {
		k := eiSigKey(em.MessageID, em.MultiplexedName)
		extMux[k] = em
		extMuxN[k]++
	}

	for id := range got.msgs {
		if msgCount[id] == 0 {
			fail("c10-msg:extra", sprintf("the bus has a message with CAN-ID %d that the file does not define", id))
		}
	}

	for _, rm := range ref.Messages {
		if msgCount[rm.ID] != 1 {
			continue
		}
		where := sprintf("message %s (id %d, %d bytes)", rm.Name, rm.ID, rm.Size)
		gm, ok := got.msgs[rm.ID]
		if !ok {
			fail("c10-msg:missing", where+" is not in the bus")
			continue
		}
		c.n++
		if gm.name != rm.Name {
			fail("c10-msg:name", sprintf("%s: imported name %q", where, gm.name))
		}
		if gm.size != int(rm.Size) {
			fail("c10-msg:size", sprintf("%s: imported size %d", where, gm.size))
		}
		if gm.sender != rm.Transmitter {
			fail("c10-msg:sender", sprintf("%s: transmitter %s, imported sender %s", where, rm.Transmitter, gm.sender))
		}
		recSet := map[string]bool{}
		for _, s := range rm.Signals {
			for _, r := range s.Receivers {
				if r != dbc.DummyNode {
					recSet[r] = true
				}
			}
		}
		var wantRec []string
		for r := range recSet {
			wantRec = append(wantRec, r)
		}
		sort.Strings(wantRec)
		if !eiStrsEq(wantRec, gm.receivers) {
			fail("c10-msg:receivers", sprintf("%s: union of the signal receivers %v, imported %v", where, wantRec, gm.receivers))
		}

		// signals
		nameCount := map[string]int{}
		var muxors []*dbc.Signal
		for _, s := range rm.Signals {
			nameCount[s.Name]++
			if s.IsMultiplexor {
				muxors = append(muxors, s)
			}
		}
		for _, rs := range rm.Signals {
			if nameCount[rs.Name] != 1 {
				continue
			}
			key := eiSigKey(rm.ID, rs.Name)
			sw := sprintf("%s signal %s (start %d, size %d, bigEndian %v, multiplexor %v, multiplexed %v m%d)", where, rs.Name, rs.StartBit, rs.Size,
				rs.ByteOrder == dbc.SignalBigEndian, rs.IsMultiplexor, rs.IsMultiplexed, rs.MuxSwitchValue)
			gs, ok := gm.sigs[rs.Name]
			if !ok {
				fail("c10-sig:missing", sw+" is not in the imported message")
				continue
			}
			startSig := "c10-sig:start"
			if rs.IsMultiplexed {
				startSig = "c10-mux-start"
			}
			if gs.start != eiConv(rs) {
				fail(startSig, sprintf("%s: converted start bit %d, imported start bit %d", sw, eiConv(rs), gs.start))
			}
			if commentN[key] <= 1 && gs.desc != comments[key] {
				fail("c10-sig:comment", sprintf("%s: comment %q, imported %q", sw, comments[key], gs.desc))
			}
			ve, hasVal := valEnc[key]
			switch {
			case rs.IsMultiplexor:
				if gs.kind != acmelib.SignalKindMultiplexer.String() {
					fail("c10-sig:kind", sprintf("%s: a multiplexor is imported as %s", sw, gs.kind))
				} else if gs.selWidth != int(rs.Size) {
					fail("c10-sig:size", sprintf("%s: selector width %d", sw, gs.selWidth))
				}
			case hasVal:
				if gs.kind != acmelib.SignalKindEnum.String() {
					fail("c10-sig:kind", sprintf("%s: a signal with a value table is imported as %s", sw, gs.kind))
					break
				}
				if gs.size != int(rs.Size) {
					fail("c10-sig:size", sprintf("%s: imported size %d (value table %s)", sw, gs.size, gs.enumVals))
				}
				if valEncN[key] == 1 {
					var xs []string
					for _, v := range ve.Values {
						xs = append(xs, sprintf("%06d:%s", v.ID, v.Name))
					}
					sort.Strings(xs)
					if w := strings.Join(xs, ","); w != gs.enumVals {
						fail("c10-sig:enum-values", sprintf("%s: values [%s], imported [%s]", sw, w, gs.enumVals))
					}
				}
			default:
				if gs.kind != acmelib.SignalKindStandard.String() {
					fail("c10-sig:kind", sprintf("%s: a plain signal is imported as %s", sw, gs.kind))
					break
				}
				if gs.size != int(rs.Size) {
					fail("c10-sig:size", sprintf("%s: imported size %d", sw, gs.size))
				}
				if gs.signed != (rs.ValueType == dbc.SignalSigned) {
					fail("c10-sig:signedness", sprintf("%s: signed %v, imported %v", sw, rs.ValueType == dbc.SignalSigned, gs.signed))
				}
				if gs.scale != rs.Factor {
					fail("c10-sig:factor", sprintf("%s: factor %v, imported %v", sw, rs.Factor, gs.scale))
				}
				if gs.offset != rs.Offset {
					fail("c10-sig:offset", sprintf("%s: offset %v, imported %v", sw, rs.Offset, gs.offset))
				}
				if gs.min != rs.Min {
					fail("c10-sig:min", sprintf("%s: minimum %v, imported %v", sw, rs.Min, gs.min))
				}
				if gs.max != rs.Max {
					fail("c10-sig:max", sprintf("%s: maximum %v, imported %v", sw, rs.Max, gs.max))
				}
				if gs.unit != rs.Unit {
					fail("c10-sig:unit", sprintf("%s: unit %q, imported %q", sw, rs.Unit, gs.unit))
				}
			}
			// group membership of multiplexed signals from m<k> / SG_MUL_VAL_
			if rs.IsMultiplexed && extMuxN[key] <= 1 {
				parent := ""
				var groups []int
				if em, ok := extMux[key]; ok {
					parent = em.MultiplexorName
					set := map[int]bool{}
					for _, rg := range em.Ranges {
						for k := int(rg.From); k <= int(rg.To) && k < 1<<16; k++ {
							set[k] = true
						}
					}
					for k := range set {
						groups = append(groups, k)
					}
					sort.Ints(groups)
				} else if len(muxors) == 1 {
					parent = muxors[0].Name
					groups = []int{int(rs.MuxSwitchValue)}
				}
				isMuxor := false
				for _, mx := range muxors {
					isMuxor = isMuxor || (mx.Name == parent && nameCount[parent] == 1)
				}
				if isMuxor && (gs.parent != parent || !eiIntsEq(gs.groups, groups)) {
					fail("c10-mux-membership", sprintf("%s: multiplexor %s groups %v, imported parent %q groups %v", sw, parent, groups, gs.parent, gs.groups))
				}
			}
		}
		c.checkDecode(label, where, rm, nameCount, gm, raw[rm.ID], shared)
	}
	c.checkAttributes(label, ref, got, msgCount)
}

// checkDecode: the decode clause for the non-multiplexed signals of one message.
func (c *eiCtx) checkDecode(label, where string, rm *dbc.Message, nameCount map[string]int, gm *eiMsgP, msg *acmelib.Message, shared string) {
	if msg == nil || msg.SizeByte() > 64 {
		return
	}
	fail := func(sig, detail string) {
		if sig == "c10-decode" || sig == "c10-decode:panic" {
			sig = shared + sig
		}
		c.fail("C10", sig, label+": "+where+": "+detail)
	}
	var plain []*dbc.Signal
	for _, s := range rm.Signals {
		if !s.IsMultiplexor && !s.IsMultiplexed && nameCount[s.Name] == 1 && s.Size >= 1 && s.Size <= 64 {
			plain = append(plain, s)
		}
	}
	if len(plain) == 0 {
		return
	}
	size := msg.SizeByte()
	r := rand.New(rand.NewSource(c.seed ^ int64(rm.ID)))
	var payloads [][]byte
	payloads = append(payloads, make([]byte, size), bytes.Repeat([]byte{0xff}, size))
	for i := 0; i < size*8; i++ {
		p := make([]byte, size)
		p[i/8] = 1 << (i % 8)
		payloads = append(payloads, p)
	}
	for i := 0; i < 6; i++ {
		p := make([]byte, size)
		r.Read(p)
		payloads = append(payloads, p)
	}
	for _, data := range payloads {
		var decs []*acmelib.SignalDecoding
		var pan any
		func() {
			defer func() { pan = recover() }()
			decs = msg.SignalLayout().Decode(data)
		}()
		if pan != nil {
			fail("c10-decode:panic", sprintf("Decode(% x) panics: %v", data, pan))
			return
		}
		byName := map[string]*acmelib.SignalDecoding{}
		for _, d := range decs {
			byName[d.Signal.Name()] = d
		}
		for _, s := range plain {
			be := s.ByteOrder == dbc.SignalBigEndian
			want, ok := eiRawDBC(data, int(s.StartBit), int(s.Size), be)
			if !ok {
				continue
			}
			sw := sprintf("signal %s (start %d, size %d, bigEndian %v)", s.Name, s.StartBit, s.Size, be)
			d, ok := byName[s.Name]
			if !ok {
				if gs, ok := gm.sigs[s.Name]; ok && gs.parent != "" {
					fail("c10-decode:plain-signal-moved-into-multiplexer", sprintf("%s is not multiplexed in the file, the import makes it a fixed signal of multiplexer %s and Decode does not yield it", sw, gs.parent))
				} else {
					fail("c10-decode:missing", sprintf("%s: Decode yields no value", sw))
				}
				continue
			}
			if d.RawValue != want {
				lin := eiConv(s)
				if be && lin/8 == (lin+int(s.Size)-1)/8 {
					fail("be-single-byte-decode", sprintf("%s: payload % x, DBC rules give raw %d, Decode gives %d", sw, data, want, d.RawValue))
				} else {
					fail("c10-decode", sprintf("%s: payload % x, DBC rules give raw %d, Decode gives %d", sw, data, want, d.RawValue))
				}
			}
		}
	}
}

// checkAttributes: attribute values and the well-known attributes.
func (c *eiCtx) checkAttributes(label string, ref *dbc.File, got *eiBusP, msgCount map[uint32]int) {
	fail := func(sig, detail string) { c.fail("C10", sig, label+": "+detail) }
	defs := map[string]*dbc.Attribute{}
	for _, a := range ref.Attributes {
		defs[a.Name] = a
	}
	type special struct {
		cycle, delay, startDelay *int
		sendType                 *string
		startValue               *float64
	}
	busWant := map[string]string{}
	nodeWant := map[string]map[string]string{}
	msgWant := map[uint32]map[string]string{}
	sigWant := map[string]map[string]string{}
	msgSpec := map[uint32]*special{}
	sigSpec := map[string]*special{}
	ambiguous := false
	unknown := map[string]bool{}
	isUnknown := func(kind dbc.AttributeKind, node string, id uint32, sig string) bool {
		return unknown[sprintf("%d/%s/%d/%s", kind, node, id, sig)]
	}
	put := func(m map[string]string, k, v string) {
		if _, ok := m[k]; ok {
			ambiguous = true
		}
		m[k] = v
	}
	for _, av := range ref.AttributeValues {
		def, ok := defs[av.AttributeName]
		if !ok {
			continue
		}
		// the value the file gives, in the notation of eiAttrVal
		var val string
		var num float64 // numeric value
		var ival int    // the same as an integer when it is one
		isNum, isInt := true, true
		switch av.Type {
		case dbc.AttributeValueInt:
			ival, num = av.ValueInt, float64(av.ValueInt)
		case dbc.AttributeValueHex:
			ival, num = int(av.ValueHex), float64(av.ValueHex)
		case dbc.AttributeValueFloat:
			num = av.ValueFloat
			if num >= -1e15 && num <= 1e15 && num == float64(int(num)) {
				ival = int(num)
			} else {
				isInt = false
			}
		default:
			isNum, isInt = false, false
		}
		// the well-known attributes go to dedicated fields whatever the declared value type
		wellKnown := false
		switch {
		case av.AttributeKind == dbc.AttributeMessage && (av.AttributeName == dbc.MsgCycleTimeName || av.AttributeName == dbc.MsgDelayTimeName || av.AttributeName == dbc.MsgStartDelayTimeName):
			if !isInt {
				continue
			}
			wellKnown = true
		case av.AttributeKind == dbc.AttributeSignal && av.AttributeName == dbc.SigStartValueName:
			if !isNum {
				continue
			}
			wellKnown = true
		}
		if def.Type == dbc.AttributeEnum {
			seen := map[string]bool{}
			dup := false
			for _, v := range def.EnumValues {
				dup = dup || seen[v]
				seen[v] = true
			}
			if dup {
				// the indexes of an enumeration with a repeated value are ambiguous: no expectation for the object
				unknown[sprintf("%d/%s/%d/%s", av.AttributeKind, av.NodeName, av.MessageID, av.SignalName)] = true
				continue
			}
		}
		switch def.Type {
		case dbc.AttributeString:
			if wellKnown {
				break
			}
			if isNum {
				continue // not a value of the attribute
			}
			val = strconv.Quote(av.ValueString)
		case dbc.AttributeInt, dbc.AttributeHex:
			if wellKnown {
				break
			}
			if !isInt {
				continue
			}
			val = sprintf("%d", ival)
		case dbc.AttributeFloat:
			if wellKnown {
				break
			}
			if !isNum {
				continue
			}
			val = sprintf("%g", num)
		case dbc.AttributeEnum:
			if wellKnown {
				break
			}
			if isNum {
				if !isInt || ival < 0 || ival >= len(def.EnumValues) {
					continue
				}
				val = strconv.Quote(def.EnumValues[ival])
			} else {
				val = strconv.Quote(av.ValueString)
			}
		}
		unq := func() string { s, _ := strconv.Unquote(val); return s }
		switch av.AttributeKind {
		case dbc.AttributeGeneral:
			put(busWant, av.AttributeName, val)
		case dbc.AttributeNode:
			if nodeWant[av.NodeName] == nil {
				nodeWant[av.NodeName] = map[string]string{}
			}
			put(nodeWant[av.NodeName], av.AttributeName, val)
		case dbc.AttributeMessage:
			sp := msgSpec[av.MessageID]
			if sp == nil {
				sp = &special{}
				msgSpec[av.MessageID] = sp
			}
			iv := ival
			switch av.AttributeName {
			case dbc.MsgCycleTimeName:
				sp.cycle = &iv
			case dbc.MsgDelayTimeName:
				sp.delay = &iv
			case dbc.MsgStartDelayTimeName:
				sp.startDelay = &iv
			case dbc.MsgSendTypeName:
				s := unq()
				sp.sendType = &s
			case dbc.SigStartValueName, dbc.SigSendTypeName:
				// a signal attribute given to a message: no expectation
			default:
				if msgWant[av.MessageID] == nil {
					msgWant[av.MessageID] = map[string]string{}
				}
				put(msgWant[av.MessageID], av.AttributeName, val)
			}
		case dbc.AttributeSignal:
			key := eiSigKey(av.MessageID, av.SignalName)
			sp := sigSpec[key]
			if sp == nil {
				sp = &special{}
				sigSpec[key] = sp
			}
			switch av.AttributeName {
			case dbc.SigStartValueName:
				f := num
				sp.startValue = &f
			case dbc.SigSendTypeName:
				s := unq()
				sp.sendType = &s
			case dbc.MsgCycleTimeName, dbc.MsgDelayTimeName, dbc.MsgStartDelayTimeName, dbc.MsgSendTypeName:
			default:
				if sigWant[key] == nil {
					sigWant[key] = map[string]string{}
				}
				put(sigWant[key], av.AttributeName, val)
			}
		}
	}
	if ambiguous {
		return // the file assigns an attribute twice to the same object
	}
	if eiDump {
		os.Stderr.WriteString(sprintf("attr expectations: bus %s | nodes %v | msgs %v | sigs %v | special msgs %d sigs %d\n", eiMapStr(busWant), nodeWant, msgWant, sigWant, len(msgSpec), len(sigSpec)))
	}
	if a, b := eiMapStr(busWant), eiMapStr(got.attrs); a != b && !isUnknown(dbc.AttributeGeneral, "", 0, "") {
		fail("c10-attr:bus", sprintf("the file assigns %s to the network, the bus has %s", a, b))
	}
	for _, n := range got.nodes {
		if a, b := eiMapStr(nodeWant[n]), eiMapStr(got.nodeAttrs[n]); a != b && n != dbc.DummyNode && !isUnknown(dbc.AttributeNode, n, 0, "") {
			fail("c10-attr:node", sprintf("node %s: the file assigns %s, the node has %s", n, a, b))
		}
	}
	for id, gm := range got.msgs {
		if msgCount[id] != 1 {
			continue
		}
		where := sprintf("message %s (id %d)", gm.name, id)
		msgKnown := !isUnknown(dbc.AttributeMessage, "", id, "")
		if a, b := eiMapStr(msgWant[id]), eiMapStr(gm.attrs); a != b && msgKnown {
			fail("c10-attr:message", sprintf("%s: the file assigns %s, the message has %s", where, a, b))
		}
		sp := msgSpec[id]
		if sp == nil {
			sp = &special{}
		}
		if !msgKnown {
			sp = &special{cycle: &gm.cycle, delay: &gm.delay, startDelay: &gm.startDelay}
		}
		intOf := func(p *int) int {
			if p == nil {
				return 0
			}
			return *p
		}
		if gm.cycle != intOf(sp.cycle) {
			fail("c10-attr:GenMsgCycleTime", sprintf("%s: the file says %d, CycleTime() = %d", where, intOf(sp.cycle), gm.cycle))
		}
		if gm.delay != intOf(sp.delay) {
			fail("c10-attr:GenMsgDelayTime", sprintf("%s: the file says %d, DelayTime() = %d", where, intOf(sp.delay), gm.delay))
		}
		if gm.startDelay != intOf(sp.startDelay) {
			fail("c10-attr:GenMsgStartDelayTime", sprintf("%s: the file says %d, StartDelayTime() = %d", where, intOf(sp.startDelay), gm.startDelay))
		}
		wantST := acmelib.MessageSendTypeUnset
		if sp.sendType != nil {
			wantST = eiMsgSendTypes[*sp.sendType]
		}
		if gm.sendType != wantST.String() && msgKnown {
			fail("c10-attr:GenMsgSendType", sprintf("%s: the file says %s, SendType() = %s", where, wantST, gm.sendType))
		}
		dup := map[string]bool{}
		for _, d := range gm.dup {
			dup[d] = true
		}
		for name, gs := range gm.sigs {
			if dup[name] {
				continue
			}
			key := eiSigKey(id, name)
			sw := sprintf("%s signal %s", where, name)
			if isUnknown(dbc.AttributeSignal, "", id, name) {
				continue
			}
			if a, b := eiMapStr(sigWant[key]), eiMapStr(gs.attrs); a != b {
				fail("c10-attr:signal", sprintf("%s: the file assigns %s, the signal has %s", sw, a, b))
			}
			ssp := sigSpec[key]
			if ssp == nil {
				ssp = &special{}
			}
			wantSV := 0.0
			if ssp.startValue != nil {
				wantSV = *ssp.startValue
			}
			if gs.startValue != wantSV {
				fail("c10-attr:GenSigStartValue", sprintf("%s: the file says %v, StartValue() = %v", sw, wantSV, gs.startValue))
			}
			wantSST := acmelib.SignalSendTypeUnset
			if ssp.sendType != nil {
				wantSST = eiSigSendTypes[*ssp.sendType]
			}
			if gs.sendType != wantSST.String() {
				fail("c10-attr:GenSigSendType", sprintf("%s: the file says %s, SendType() = %s", sw, wantSST, gs.sendType))
			}
		}
	}
}

// ---- model invariants of an imported bus (public getters only) ----

func (c *eiCtx) checkInvariants(label string, bus *acmelib.Bus, cause string) {
	fail := func(which, detail string) { c.fail("C10", cause+"c10-invariant:"+which, label+": "+detail) }
	layout := func(tag, where string, sigs []acmelib.Signal, capBits int) {
		prevEnd := 0
		for i, s := range sigs {
			st, sz := s.GetRelativeStartPos(), s.GetSize()
			if i > 0 && st < prevEnd {
				fail(tag+"-overlap", sprintf("%s: signal %s at %d (size %d) starts before the end %d of its predecessor", where, s.Name(), st, sz, prevEnd))
			}
			if st < 0 || sz <= 0 || st+sz > capBits {
				fail(tag+"-bounds", sprintf("%s: signal %s at %d (size %d) is outside 0..%d", where, s.Name(), st, sz, capBits))
			}
			prevEnd = st + sz
		}
	}
	nodeNames := map[string]bool{}
	canIDs := map[acmelib.CANID]string{}
	for _, ni := range bus.NodeInterfaces() {
		nn := ni.Node().Name()
		if ni.ParentBus() != bus {
			fail("bus-link", sprintf("interface of node %s does not point back to the bus", nn))
		}
		if nodeNames[nn] {
			fail("node-name-unique", sprintf("two nodes named %s", nn))
		}
		nodeNames[nn] = true
		found := false
		for _, x := range ni.Node().Interfaces() {
			found = found || x == ni
		}
		if !found {
			fail("node-link", sprintf("node %s does not list its interface", nn))
		}
		msgNames := map[string]bool{}
		for _, m := range ni.SentMessages() {
			mw := sprintf("message %s (CAN-ID %d)", m.Name(), m.GetCANID())
			if m.SenderNodeInterface() != ni {
				fail("sender-link", mw+" does not point back to its sender "+nn)
			}
			if msgNames[m.Name()] {
				fail("message-name-unique", sprintf("node %s sends two messages named %s", nn, m.Name()))
			}
			msgNames[m.Name()] = true
			if other, ok := canIDs[m.GetCANID()]; ok {
				fail("canid-unique", sprintf("%s and %s share a CAN-ID", mw, other))
			}
			canIDs[m.GetCANID()] = mw
			for _, rec := range m.Receivers() {
				ok := false
				for _, rm := range rec.ReceivedMessages() {
					ok = ok || rm == m
				}
				if !ok {
					fail("receiver-link", sprintf("%s lists receiver %s, which does not list the message", mw, rec.Node().Name()))
				}
				if rec.ParentBus() != bus {
					fail("receiver-link", sprintf("%s: receiver %s is not on the bus", mw, rec.Node().Name()))
				}
			}
			layout("message-layout", mw, m.Signals(), m.SizeByte()*8)
			names := map[string]bool{}
			var walk func(s acmelib.Signal, parent *acmelib.MultiplexerSignal)
			walk = func(s acmelib.Signal, parent *acmelib.MultiplexerSignal) {
				if names[s.Name()] {
					fail("signal-name-unique", sprintf("%s holds two signals named %s", mw, s.Name()))
				}
				names[s.Name()] = true
				if s.ParentMessage() != m {
					fail("parent-message-link", sprintf("%s: signal %s does not point back to the message", mw, s.Name()))
				}
				if s.ParentMultiplexerSignal() != parent {
					fail("parent-mux-link", sprintf("%s: signal %s does not point back to its multiplexer", mw, s.Name()))
				}
				if s.Kind() != acmelib.SignalKindMultiplexer {
					return
				}
				mx, err := s.ToMultiplexer()
				if err != nil {
					fail("kind", sprintf("%s: signal %s of kind multiplexer does not convert: %v", mw, s.Name(), err))
					return
				}
				seen := map[acmelib.EntityID]bool{}
				for gid, grp := range mx.GetSignalGroups() {
					layout("group-layout", sprintf("%s multiplexer %s group %d", mw, mx.Name(), gid), grp, mx.GroupSize())
					for _, k := range grp {
						if !seen[k.EntityID()] {
							seen[k.EntityID()] = true
							walk(k, mx)
						}
					}
				}
			}
			for _, s := range m.Signals() {
				walk(s, nil)
			}
			listed := map[string]bool{}
			for _, n := range m.SignalNames() {
				listed[n] = true
			}
			for n := range names {
				if !listed[n] {
					fail("signal-name-registry", sprintf("%s: signal %s is not in SignalNames()", mw, n))
				}
			}
			for n := range listed {
				if !names[n] {
					fail("signal-name-registry", sprintf("%s: SignalNames() lists %s, which is not in the tree", mw, n))
				}
			}
		}
		for _, m := range ni.ReceivedMessages() {
			ok := false
			for _, rec := range m.Receivers() {
				ok = ok || rec == ni
			}
			if !ok {
				fail("receiver-link", sprintf("node %s lists received message %s, which does not list the node", nn, m.Name()))
			}
		}
	}
}

// ---- the input texts ----

var eiFixtures = []string{"/repo/testdata/expected.dbc", "/repo/testdata/mux_signals.dbc"}

func eiFixture(i int) (string, string) {
	p := eiFixtures[((i%len(eiFixtures))+len(eiFixtures))%len(eiFixtures)]
	b, err := os.ReadFile(p)
	if err != nil {
		panic("fixture: " + err.Error())
	}
	return p, string(b)
}

// eiExported returns the DBC text of one bus of a generated network.
func eiExported(seed int64) (string, string) {
	r := rand.New(rand.NewSource(seed))
	variant := int(seed % 3) // dbcSafe variants only
	_ = r
	g := eiBuild(seed, eiOptsOf(variant))
	bus := g.buses[int(seed/3)%len(g.buses)]
	var buf bytes.Buffer
	acmelib.ExportBus(&buf, bus)
	return sprintf("export(seed %d, variant %d, bus %s)", seed, variant, bus.Name()), buf.String()
}

func (c *eiCtx) runC10() string {
	switch c.variant {
	case 0:
		label, text := eiExported(c.seed)
		// a rejected export is a C11 finding, not a C10 one
		c.checkText(label, text, false, true)
	case 1:
		label, text := eiFixture(int(c.seed))
		c.checkText(label, text, true, true)
	case 2:
		text := eiGenDBC(rand.New(rand.NewSource(c.seed)), false)
		c.checkText(sprintf("gen(seed %d)", c.seed), text, true, true)
	case 3:
		r := rand.New(rand.NewSource(c.seed))
		var label, text string
		switch r.Intn(4) {
		case 0:
			label, text = eiExported(c.seed)
		case 1:
			label, text = eiFixture(r.Intn(2))
		default:
			label, text = sprintf("gen(seed %d)", c.seed), eiGenDBC(rand.New(rand.NewSource(c.seed)), false)
		}
		for i := 0; i < 12; i++ {
			mut := eiMutateTokens(r, text)
			c.checkText(sprintf("mutant #%d of %s: %s", i, label, eiDiffLine(text, mut)), mut, false, true)
		}
	case 4:
		for i, text := range eiSweepTexts(int(c.seed)) {
			c.checkText(sprintf("sweep(chunk %d, file %d)", c.seed, i), text, true, true)
		}
	default:
		return "bad variant"
	}
	return c.okOut()
}

// eiDiffLine shows the first line of the mutant that is not a line of the original.
func eiDiffLine(orig, mut string) string {
	have := map[string]bool{}
	for _, l := range strings.Split(eiRender(eiTokens(orig)), "\n") {
		have[l] = true
	}
	var res []string
	for _, l := range strings.Split(mut, "\n") {
		if !have[l] {
			res = append(res, strconv.Quote(eiFirst(l, 160)))
			if len(res) == 3 {
				break
			}
		}
	}
	if len(res) == 0 {
		return "(lines removed only)"
	}
	return strings.Join(res, " ")
}

func (c *eiCtx) runC09() string {
	r := rand.New(rand.NewSource(c.seed))
	switch c.variant {
	case 0:
		var texts [][2]string
		l, t := eiExported(c.seed)
		texts = append(texts, [2]string{l, t})
		l, t = eiFixture(r.Intn(2))
		texts = append(texts, [2]string{l, t})
		texts = append(texts, [2]string{sprintf("gen(seed %d)", c.seed), eiGenDBC(rand.New(rand.NewSource(c.seed)), false)})
		for _, lt := range texts {
			c.checkText(lt[0], lt[1], false, false)
			c.n++
			for i := 0; i < 10; i++ {
				c.checkText(sprintf("char mutant #%d of %s", i, lt[0]), eiMutateChars(r, lt[1]), false, false)
				c.checkText(sprintf("token mutant #%d of %s", i, lt[0]), eiMutateTokens(r, lt[1]), false, false)
				c.n += 2
			}
		}
	case 1:
		for i := 0; i < 300; i++ {
			c.checkText(sprintf("random bytes #%d", i), eiRandomBytes(r), false, false)
			c.n++
		}
	case 2:
		var label, text string
		switch c.seed {
		case 0:
			label, text = eiFixture(1)
		case 1:
			label, text = "hand-written", eiSmallFile
		default:
			label, text = sprintf("gen-small(seed %d)", c.seed), eiGenDBC(rand.New(rand.NewSource(c.seed)), true)
		}
		for i := 0; i <= len(text); i++ {
			c.checkText(sprintf("%s truncated at %d", label, i), text[:i], false, false)
			c.n++
		}
	default:
		return "bad variant"
	}
	return c.okOut()
}

const eiSmallFile = `VERSION "v"
NS_ : CM_ BA_
BS_: 500000 : 1,2
BU_: A B
VAL_TABLE_ T 0 "off" 1 "on" ;
BO_ 291 Msg: 8 A
 SG_ Sel M : 0|2@1+ (1,0) [0|3] "" B
 SG_ X m1 : 2|6@1+ (0.5,-1.5) [-1.5|30] "V" B,A
 SG_ Y m2 : 15|8@0- (1,0) [0|0] "" Vector__XXX
 SG_ Z : 32|16@1+ (1,0) [0|65535] "rpm" B
BO_TX_BU_ 291 : A,B;
EV_ Env: 0 [0|10] "u" 1 2 DUMMY_NODE_VECTOR0 Vector__XXX;
CM_ "net";
CM_ BU_ A "node";
CM_ BO_ 291 "msg";
CM_ SG_ 291 Z "sig";
BA_DEF_ BO_ "GenMsgCycleTime" INT 0 3600000;
BA_DEF_ SG_ "GenSigStartValue" FLOAT 0 10000;
BA_DEF_ "Name" STRING ;
BA_DEF_ BU_ "Kind" ENUM "a","b";
BA_DEF_DEF_ "GenMsgCycleTime" 0;
BA_DEF_DEF_ "GenSigStartValue" 0;
BA_DEF_DEF_ "Name" "";
BA_DEF_DEF_ "Kind" "a";
BA_ "GenMsgCycleTime" BO_ 291 100;
BA_ "GenSigStartValue" SG_ 291 Z 1.5;
BA_ "Name" "bus";
BA_ "Kind" BU_ A 1;
VAL_ 291 X 0 "off" 1 "on" ;
SIG_GROUP_ 291 Grp 1 : X Y;
SIG_VALTYPE_ 291 Z : 1;
SG_MUL_VAL_ 291 X Sel 1-1, 3-3;
`
