// Command verifh is the correspondence harness of /verif: it generates seeded
// operation scripts, runs them on the real acmelib code (built from /repo's working
// tree with -tags verif), pipes the same scripts through the Lean model driver and
// compares the two observation streams.  It also runs Go-side property oracles on
// every script (failing-input search), shrinks diverging scripts and writes a JSON
// report.  It is differential testing of the model↔code tie, never a proof.
package main

import (
	"bufio"
	"bytes"
	"encoding/json"
	"flag"
	"fmt"
	"math/rand"
	"os"
	"os/exec"
	"path/filepath"
	"regexp"
	"runtime"
	"sort"
	"strings"
	"sync"
	"sync/atomic"
	"time"
)

// Finding is a property violation observed by a Go-side oracle on the real code.
type Finding struct {
	Prop   string `json:"property"`
	Sig    string `json:"signature"` // stable class of the failure (matched by known_findings.json)
	Detail string `json:"detail"`
	Line   int    `json:"line"` // index of the script line at which it was observed
}

// Exec runs one case on the real code.
type Exec interface {
	Do(line string) string
	Findings() []Finding
}

// Stream is one family of scripts.
type Stream interface {
	Name() string
	Props() []string
	// Gen produces the script of case idx (without the leading "reset").
	Gen(r *rand.Rand, tier string, idx int) []string
	// Exhaustive returns the scripts of the finite sub-space enumerated completely (may be nil).
	Exhaustive(tier string) [][]string
	NewExec() Exec
	// Same decides whether a Go output line and a model output line agree.
	Same(goOut, modelOut string) bool
	// Tag classifies a script for the distinct/non-trivial count and the histogram.
	Tag(lines, outs []string) (nontrivial bool, tags []string)
}

var streams = map[string]Stream{}

func register(s Stream) { streams[s.Name()] = s }

type Mismatch struct {
	Case     int       `json:"case"`
	Line     int       `json:"line"`
	Script   []string  `json:"script"`
	GoOut    []string  `json:"go_out"`
	ModelOut []string  `json:"model_out"`
	Shrunk   bool      `json:"shrunk"`
	Findings []Finding `json:"go_oracle_findings"`
}

type Report struct {
	Stream        string         `json:"stream"`
	Tier          string         `json:"tier"`
	Seed          int64          `json:"seed"`
	Cases         int            `json:"cases"`
	ExhaustiveN   int            `json:"exhaustive_cases"`
	CorpusN       int            `json:"corpus_cases"`
	Lines         int            `json:"lines"`
	Distinct      int            `json:"distinct_nontrivial"`
	Hist          map[string]int `json:"histogram"`
	Samples       [][]string     `json:"samples"`
	Mismatches    []Mismatch     `json:"mismatches"`
	Findings      []FindingAt    `json:"oracle_findings"`
	GoPanics      int            `json:"go_panics"`
	FindingCounts map[string]int `json:"finding_counts"`
	WallS         float64        `json:"wall_s"`
	ModelCmd      string         `json:"model_cmd"`
}

type FindingAt struct {
	Finding
	Case   int      `json:"case"`
	Script []string `json:"script"`
}

// parallelFor runs f(0..n-1) on all cores.
func parallelFor(n int, f func(i int)) {
	workers := runtime.NumCPU()
	if workers > 16 {
		workers = 16
	}
	if workers > n {
		workers = n
	}
	if workers <= 1 {
		for i := 0; i < n; i++ {
			f(i)
		}
		return
	}
	var wg sync.WaitGroup
	next := int64(-1)
	for w := 0; w < workers; w++ {
		wg.Add(1)
		go func() {
			defer wg.Done()
			for {
				i := int(atomic.AddInt64(&next, 1))
				if i >= n {
					return
				}
				f(i)
			}
		}()
	}
	wg.Wait()
}

func runGo(s Stream, script []string) (outs []string, fs []Finding) {
	ex := s.NewExec()
	outs = make([]string, len(script))
	for i, l := range script {
		outs[i] = safeDo(ex, l)
	}
	return outs, ex.Findings()
}

func safeDo(ex Exec, l string) (out string) {
	defer func() {
		if r := recover(); r != nil {
			out = "panic"
		}
	}()
	return ex.Do(l)
}

// runModel pipes the scripts through the model driver.  Every script starts with `reset`, so
// the scripts are independent: they are dealt to several driver processes that run at once.
func runModel(model string, scripts [][]string) ([][]string, error) {
	workers := runtime.NumCPU()
	if workers > 16 {
		workers = 16
	}
	if len(scripts) < 4*workers {
		workers = 1
	}
	if workers <= 1 {
		return runModelChunk(model, scripts)
	}
	res := make([][]string, len(scripts))
	errs := make([]error, workers)
	var wg sync.WaitGroup
	per := (len(scripts) + workers - 1) / workers
	for w := 0; w < workers; w++ {
		lo, hi := w*per, (w+1)*per
		if lo >= len(scripts) {
			break
		}
		if hi > len(scripts) {
			hi = len(scripts)
		}
		wg.Add(1)
		go func(w, lo, hi int) {
			defer wg.Done()
			out, err := runModelChunk(model, scripts[lo:hi])
			if err != nil {
				errs[w] = fmt.Errorf("cases %d..%d: %w", lo, hi-1, err)
				return
			}
			copy(res[lo:hi], out)
		}(w, lo, hi)
	}
	wg.Wait()
	for _, e := range errs {
		if e != nil {
			return nil, e
		}
	}
	return res, nil
}

func runModelChunk(model string, scripts [][]string) ([][]string, error) {
	var in bytes.Buffer
	for _, sc := range scripts {
		in.WriteString("reset\n")
		for _, l := range sc {
			if isOracleLine(l) {
				continue
			}
			in.WriteString(l)
			in.WriteByte('\n')
		}
	}
	cmd := exec.Command(model)
	cmd.Stdin = &in
	var out bytes.Buffer
	cmd.Stdout = &out
	cmd.Stderr = os.Stderr
	if err := cmd.Run(); err != nil {
		return nil, fmt.Errorf("model driver: %w", err)
	}
	res := make([][]string, len(scripts))
	sc := bufio.NewScanner(&out)
	sc.Buffer(make([]byte, 1<<20), 1<<26)
	for i, script := range scripts {
		if !sc.Scan() || sc.Text() != "reset" {
			return nil, fmt.Errorf("model driver: protocol desync at case %d (got %q)", i, sc.Text())
		}
		res[i] = make([]string, len(script))
		for j := range script {
			if isOracleLine(script[j]) {
				res[i][j] = oracleEcho
				continue
			}
			if !sc.Scan() {
				return nil, fmt.Errorf("model driver: short output at case %d line %d", i, j)
			}
			res[i][j] = sc.Text()
		}
	}
	return res, nil
}

// Lines that start with "oracle " are executed on the real code only (Go-side property
// oracles: failing-input search and support for the theorems); they have no model side.
const oracleEcho = "(oracle-only line: no model side)"

func isOracleLine(l string) bool { return strings.HasPrefix(l, "oracle ") }

func firstDiff(s Stream, a, b []string) int {
	for i := range a {
		if i < len(b) && b[i] == oracleEcho {
			continue
		}
		if i >= len(b) || !s.Same(a[i], b[i]) {
			return i
		}
	}
	return -1
}

// diverges re-runs both sides on a candidate script.
func diverges(s Stream, model string, script []string) (int, []string, []string, []Finding) {
	g, fs := runGo(s, script)
	m, err := runModel(model, [][]string{script})
	if err != nil {
		return -1, g, nil, fs
	}
	return firstDiff(s, g, m[0]), g, m[0], fs
}

// shrink removes lines while the two sides still disagree (greedy delta debugging).
func shrink(s Stream, model string, script []string) []string {
	cur := append([]string{}, script...)
	if d, _, _, _ := diverges(s, model, cur); d >= 0 && d+1 < len(cur) {
		cur = cur[:d+1]
	}
	budget := 400
	for chunk := len(cur) / 2; chunk >= 1 && budget > 0; {
		removed := false
		for i := 0; i+chunk <= len(cur)-1 && budget > 0; i++ { // never drop the last (diverging) line
			cand := append(append([]string{}, cur[:i]...), cur[i+chunk:]...)
			budget--
			if d, _, _, _ := diverges(s, model, cand); d >= 0 {
				cur = cand[:d+1]
				removed = true
				i--
			}
		}
		if !removed {
			chunk /= 2
		}
	}
	return cur
}

func loadCorpus(dir string) [][]string {
	var res [][]string
	files, _ := filepath.Glob(filepath.Join(dir, "*.ops"))
	sort.Strings(files)
	for _, f := range files {
		b, err := os.ReadFile(f)
		if err != nil {
			continue
		}
		var sc []string
		for _, l := range strings.Split(string(b), "\n") {
			l = strings.TrimSpace(l)
			if l == "" || strings.HasPrefix(l, "#") || l == "reset" {
				continue
			}
			sc = append(sc, l)
		}
		if len(sc) > 0 {
			res = append(res, sc)
		}
	}
	return res
}

func main() {
	var (
		stream = flag.String("stream", "", "stream name")
		seed   = flag.Int64("seed", 1, "PRNG seed")
		cases  = flag.Int("cases", 200, "generated cases")
		tier   = flag.String("tier", "quick", "quick|thorough")
		model  = flag.String("model", "/verif/lean/.lake/build/bin/acme-model", "model driver")
		out    = flag.String("out", "", "report file (JSON)")
		corpus = flag.String("corpus", "", "corpus directory (*.ops)")
		replay = flag.String("replay", "", "replay one script file instead of generating")
		list   = flag.Bool("list", false, "list streams")
		dumpTo = flag.String("scripts", "", "write all scripts to this file (debugging)")
	)
	flag.Parse()
	if *list {
		for n := range streams {
			fmt.Println(n)
		}
		return
	}
	s, ok := streams[*stream]
	if !ok {
		fmt.Fprintf(os.Stderr, "unknown stream %q\n", *stream)
		os.Exit(2)
	}
	t0 := time.Now()
	rep := Report{Stream: s.Name(), Tier: *tier, Seed: *seed, Hist: map[string]int{}, ModelCmd: *model}

	var scripts [][]string
	parallelGo := false
	if *replay != "" {
		scripts = loadCorpusFile(*replay)
	} else {
		if *corpus != "" {
			c := loadCorpus(*corpus)
			rep.CorpusN = len(c)
			scripts = append(scripts, c...)
		}
		ex := s.Exhaustive(*tier)
		rep.ExhaustiveN = len(ex)
		scripts = append(scripts, ex...)
		if ps, ok := s.(interface{ Parallel() bool }); ok && ps.Parallel() {
			// streams without shared state: every case has its own PRNG (seed, index) and the cases
			// are generated (with execution feedback on the real code) on all cores
			gen := make([][]string, *cases)
			parallelFor(*cases, func(i int) {
				gen[i] = s.Gen(rand.New(rand.NewSource(*seed*1_000_003+int64(i))), *tier, i)
			})
			scripts = append(scripts, gen...)
			parallelGo = true
		} else {
			r := rand.New(rand.NewSource(*seed))
			for i := 0; i < *cases; i++ {
				scripts = append(scripts, s.Gen(r, *tier, i))
			}
		}
	}
	rep.Cases = len(scripts)
	if *dumpTo != "" {
		var b strings.Builder
		for _, sc := range scripts {
			b.WriteString("reset\n")
			for _, l := range sc {
				b.WriteString(l + "\n")
			}
		}
		os.WriteFile(*dumpTo, []byte(b.String()), 0o644)
		return
	}

	goOuts := make([][]string, len(scripts))
	goFs := make([][]Finding, len(scripts))
	if parallelGo {
		parallelFor(len(scripts), func(i int) { goOuts[i], goFs[i] = runGo(s, scripts[i]) })
	} else {
		for i, sc := range scripts {
			goOuts[i], goFs[i] = runGo(s, sc)
		}
	}
	distinct := map[string]bool{}
	sigCount := map[string]int{}
	clsCount := map[string]int{}
	for i, sc := range scripts {
		o, fs := goOuts[i], goFs[i]
		rep.Lines += len(sc)
		for _, x := range o {
			if x == "panic" {
				rep.GoPanics++
			}
		}
		for _, f := range fs {
			key := f.Prop + "/" + f.Sig
			// at most 3 per signature AND per class of detail text (numbers and quoted strings
			// masked): a finding whose detail differs in kind from the first three of its
			// signature is kept, so that a known-finding entry that discriminates by detail
			// sees it
			cls := key + "|" + detailClass(f.Detail)
			if clsCount[cls] < 3 && sigCount[key] < 24 && len(rep.Findings) < 400 {
				rep.Findings = append(rep.Findings, FindingAt{Finding: f, Case: i, Script: sc})
				clsCount[cls]++
			}
			sigCount[key]++
		}
		nt, tags := s.Tag(sc, o)
		for _, t := range tags {
			rep.Hist[t]++
		}
		if nt {
			distinct[strings.Join(sc, "\n")] = true
		}
	}
	rep.Distinct = len(distinct)
	rep.FindingCounts = sigCount
	for i := 0; i < len(scripts) && len(rep.Samples) < 3; i += 1 + len(scripts)/3 {
		sc := scripts[i]
		if len(sc) > 40 {
			sc = sc[:40]
		}
		rep.Samples = append(rep.Samples, sc)
	}

	mOuts, err := runModel(*model, scripts)
	if err != nil {
		fmt.Fprintln(os.Stderr, err)
		os.Exit(3)
	}
	for i := range scripts {
		d := firstDiff(s, goOuts[i], mOuts[i])
		if d < 0 {
			continue
		}
		if len(rep.Mismatches) >= 5 {
			rep.Mismatches = append(rep.Mismatches, Mismatch{Case: i, Line: d})
			if len(rep.Mismatches) > 50 {
				break
			}
			continue
		}
		sh := shrink(s, *model, scripts[i])
		dd, g, m, fs := diverges(s, *model, sh)
		if dd < 0 {
			// the divergence did not come back on the re-run (the code's answer depends on something
			// that is not in the script, e.g. map iteration order): report what was SEEN, unshrunk
			cut := d + 1
			rep.Mismatches = append(rep.Mismatches, Mismatch{Case: i, Line: d, Script: scripts[i][:cut], GoOut: goOuts[i][:min(cut, len(goOuts[i]))],
				ModelOut: mOuts[i][:min(cut, len(mOuts[i]))], Shrunk: false, Findings: fs})
			continue
		}
		rep.Mismatches = append(rep.Mismatches, Mismatch{Case: i, Line: dd, Script: sh, GoOut: g, ModelOut: m, Shrunk: true, Findings: fs})
	}
	rep.WallS = time.Since(t0).Seconds()

	b, _ := json.MarshalIndent(rep, "", " ")
	if *out != "" {
		if err := os.WriteFile(*out, b, 0o644); err != nil {
			fmt.Fprintln(os.Stderr, err)
			os.Exit(3)
		}
	} else {
		fmt.Println(string(b))
	}
}

func loadCorpusFile(f string) [][]string {
	b, err := os.ReadFile(f)
	if err != nil {
		fmt.Fprintln(os.Stderr, err)
		os.Exit(3)
	}
	// a replay file is either a JSON object with a "script" array or a plain .ops file
	var obj struct {
		Script []string `json:"script"`
	}
	if json.Unmarshal(b, &obj) == nil && len(obj.Script) > 0 {
		return [][]string{obj.Script}
	}
	var sc []string
	for _, l := range strings.Split(string(b), "\n") {
		l = strings.TrimSpace(l)
		if l == "" || strings.HasPrefix(l, "#") || l == "reset" {
			continue
		}
		sc = append(sc, l)
	}
	return [][]string{sc}
}


var (
	reQuoted = regexp.MustCompile("\"(?:[^\"\\\\]|\\\\.)*\"")
	reNumber = regexp.MustCompile("[0-9]+")
)

// detailClass masks quoted strings and numbers of a finding's detail text and cuts it short.
func detailClass(d string) string {
	d = reQuoted.ReplaceAllString(d, "\"…\"")
	d = reNumber.ReplaceAllString(d, "#")
	if len(d) > 160 {
		d = d[:160]
	}
	return d
}
