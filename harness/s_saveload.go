package main

// Stream "saveload" (C12, C13): Go-side oracles only.
//
//	oracle c12 <seed> <variant>                  save -> load round trip, 7 encoding subsets, nil writers
//	oracle c13 <seed> <variant> <mutation-seed>  field-level mutations of the saved protobuf tree
//	oracle c13bytes <seed> <encoding> <n>        n damaged / random byte inputs (encoding 1=wire 2=JSON 4=text)
//	oracle c13alloc <pair> <log2bits>            resource probe (s_saveload_extra.go)
//	oracle c12self <seed> <variant>              sensitivity self-test of the C12 view (s_saveload_extra.go)
//
// Every line rebuilds its network from the seeds (a script is its own replay; only the
// random entity ids and creation times differ between runs), runs under recover and a
// 10 s watchdog and answers with a one-line summary.
//
// variants: 0 nested multiplexers, 1 DBC-safe, 2 blanks in names + equal names,
// 3 variant-0 options with depth 3 + extras (shared custom builder, cross-bus receivers,
// empty bus, odd strings, multi-group children, ...), 4 = 3 + values outside the
// int32/uint32 range of the schema (expected schema limits), 5 = single risky feature.

import (
	"bytes"
	"errors"
	"io"
	"log"
	"math"
	"math/rand"
	"os"
	"regexp"
	"runtime/debug"
	"sort"
	"strconv"
	"strings"
	"sync"
	"time"

	"github.com/squadracorsepolito/acmelib"
)

type saveloadStream struct{ baseStream }

func init() { register(saveloadStream{}) }

func (saveloadStream) Name() string    { return "saveload" }
func (saveloadStream) Props() []string { return []string{"C12", "C13"} }
func (saveloadStream) NewExec() Exec {
	log.SetOutput(io.Discard) // the loader logs rejected attribute values
	return &slExec{}
}

const slWatchdog = 10 * time.Second

func (saveloadStream) Gen(r *rand.Rand, tier string, idx int) []string {
	n := 24
	if tier == "thorough" {
		n = 64
	}
	seed := func() int64 { return 1 + r.Int63n(1_000_000) }
	lines := []string{sprintf("oracle c12 %d %d", seed(), pick(r, 0, 0, 1, 2, 3, 3, 3))}
	switch idx % 4 {
	case 0, 2:
		lines = append(lines, sprintf("oracle c12 %d 4", seed()))
	case 1:
		lines = append(lines, sprintf("oracle c12 %d 5", seed()))
	}
	for k := 0; k < 3; k++ {
		lines = append(lines, sprintf("oracle c13 %d %d %d", seed(), pick(r, 0, 1, 2, 3, 3), seed()))
	}
	lines = append(lines, sprintf("oracle c13bytes %d %d %d", seed(), pick(r, 1, 2, 4), n))
	lines = append(lines, slSelGen(r)...)
	return lines
}

func (saveloadStream) Exhaustive(tier string) [][]string {
	var res [][]string
	res = append(res, slSelExhaustive())
	for s := 1; s <= 40; s++ {
		sc := []string{
			sprintf("oracle c12 %d %d", s, s%6),
			sprintf("oracle c13 %d %d %d", s, s%4, 7*s+1),
			sprintf("oracle c13 %d %d %d", s, (s+1)%4, 11*s+3),
			sprintf("oracle c13bytes %d %d 16", s, []int{1, 2, 4}[s%3]),
		}
		if s <= 6 {
			sc = append(sc, sprintf("oracle c12self %d %d", s, []int{3, 0, 1, 2, 3, 3}[s-1])) // sensitivity of the view
		}
		if s <= 3 {
			sc = append(sc, sprintf("oracle c13alloc %d 20", s-1)) // resource probe, kept small
		}
		res = append(res, sc)
	}
	return res
}

var slTagRe = regexp.MustCompile(`tags=\[([^\]]*)\]`)

func (saveloadStream) Tag(lines, outs []string) (bool, []string) {
	var tags []string
	nt := false
	for i, l := range lines {
		f := fields(l)
		if len(f) < 2 {
			continue
		}
		o := outs[i]
		if f[0] == "ss" {
			tags = append(tags, "sel:"+o)
			nt = true
			continue
		}
		if m := slTagRe.FindStringSubmatch(o); m != nil && m[1] != "" {
			for _, t := range strings.Split(m[1], ",") {
				tags = append(tags, f[1]+":"+t)
			}
			nt = true
		} else {
			tags = append(tags, f[1]+":"+strings.SplitN(o, " ", 2)[0])
		}
	}
	return nt, tags
}

// ---------------------------------------------------------------------------------------
// exec, watchdog, finding aggregation

type slExec struct {
	fs    []Finding
	nline int
}

func (e *slExec) Findings() []Finding { return e.fs }

type slAgg struct {
	detail string
	count  int
}

// slRun collects the findings of one line; it is closed when the watchdog fires so that
// an abandoned goroutine cannot add anything later.
type slRun struct {
	mu      sync.Mutex
	closed  bool
	kind    string // c12 | c13 | c13bytes
	prop    string
	agg     map[string]*slAgg
	order   []string
	stage   string
	stageAt time.Time // the watchdog measures the time spent in ONE stage
	tags    map[string]bool
	debug   string
}

func (x *slRun) report(sig, detail string) {
	x.mu.Lock()
	defer x.mu.Unlock()
	if x.closed {
		return
	}
	a := x.agg[sig]
	if a == nil {
		a = &slAgg{detail: detail}
		x.agg[sig] = a
		x.order = append(x.order, sig)
	}
	a.count++
}

func (x *slRun) setStage(s string) {
	x.mu.Lock()
	x.stage = s
	x.stageAt = time.Now()
	x.mu.Unlock()
}

func (x *slRun) tag(t string) {
	x.mu.Lock()
	x.tags[t] = true
	x.mu.Unlock()
}

func (x *slRun) tagList() string {
	x.mu.Lock()
	defer x.mu.Unlock()
	var ts []string
	for t := range x.tags {
		ts = append(ts, t)
	}
	sort.Strings(ts)
	return "tags=" + listStr(ts)
}

var slDigits = regexp.MustCompile(`[0-9]+`)
var slIDLike = regexp.MustCompile(`"[A-Za-z0-9_-]{21}"`)

// slStable masks what changes from run to run (entity ids) and numbers.
func slStable(s string) string {
	return slDigits.ReplaceAllString(slIDLike.ReplaceAllString(s, "<id>"), "#")
}

func slClip(s string, n int) string {
	s = strings.Map(func(r rune) rune {
		if r == '\n' || r == '\r' || r == '\t' {
			return ' '
		}
		return r
	}, s)
	if len(s) > n {
		return s[:n]
	}
	return s
}

// slPanicInfo gives a stable short text "<function>: <message>" (digits masked) and the
// place of the first frame inside the library.
func slPanicInfo(r any, stack []byte) (short, where string) {
	msg := sprintf("%v", r)
	fn, place := "", ""
	lines := strings.Split(string(stack), "\n")
	seenPanic := false
	for i := 0; i+1 < len(lines); i++ {
		l := lines[i]
		if strings.HasPrefix(l, "panic(") {
			seenPanic = true
			continue
		}
		if !seenPanic {
			continue
		}
		const pfx = "github.com/squadracorsepolito/acmelib."
		if strings.HasPrefix(l, pfx) {
			fn = strings.TrimPrefix(l, pfx)
			if k := strings.LastIndex(fn, "("); k > 0 {
				fn = fn[:k]
			}
			place = strings.TrimSpace(lines[i+1])
			if k := strings.Index(place, " +0x"); k > 0 {
				place = place[:k]
			}
			break
		}
	}
	if fn == "" {
		fn = "?"
	}
	short = slClip(slStable(fn+": "+msg), 60)
	return short, sprintf("%s at %s", fn, place)
}

func (e *slExec) Do(line string) string {
	idx := e.nline
	e.nline++
	f := fields(line)
	if len(f) > 0 && f[0] == "ss" {
		return slSelDo(f)
	}
	if len(f) < 3 || f[0] != "oracle" {
		return "unsupported"
	}
	run := &slRun{kind: f[1], prop: "C13", agg: map[string]*slAgg{}, tags: map[string]bool{}}
	if f[1] == "c12" || f[1] == "c12self" {
		run.prop = "C12"
	}
	done := make(chan string, 1)
	go func() {
		defer func() {
			if r := recover(); r != nil {
				short, where := slPanicInfo(r, debug.Stack())
				run.report(run.kind+"-oracle-panic:"+short, sprintf("line %q stage %q: panic %v (%s)", line, run.stage, r, where))
				done <- run.kind + " panic " + short
			}
		}()
		switch f[1] {
		case "c12":
			if len(f) != 4 {
				done <- "unsupported"
				return
			}
			done <- run.c12(int64(atoi(f[2])), atoi(f[3]))
		case "c13":
			if len(f) != 5 {
				done <- "unsupported"
				return
			}
			done <- run.c13(int64(atoi(f[2])), atoi(f[3]), int64(atoi(f[4])))
		case "c13bytes":
			if len(f) != 5 {
				done <- "unsupported"
				return
			}
			done <- run.c13bytes(int64(atoi(f[2])), atoi(f[3]), atoi(f[4]))
		case "c13alloc":
			if len(f) != 4 {
				done <- "unsupported"
				return
			}
			done <- run.c13alloc(atoi(f[2]), atoi(f[3]))
		case "c12self":
			if len(f) != 4 {
				done <- "unsupported"
				return
			}
			done <- run.c12self(int64(atoi(f[2])), atoi(f[3]))
		default:
			done <- "unsupported"
		}
	}()
	var out string
	run.setStage("start")
	tick := time.NewTicker(250 * time.Millisecond)
	defer tick.Stop()
wait:
	for {
		select {
		case out = <-done:
			break wait
		case <-tick.C:
			run.mu.Lock()
			st, since := run.stage, time.Since(run.stageAt)
			run.mu.Unlock()
			if since < slWatchdog {
				continue
			}
			run.report(run.kind+"-hang", sprintf("line %q: one stage did not finish within %s; stage: %s", line, slWatchdog, st))
			out = run.kind + " hang stage=" + slClip(st, 80)
			break wait
		}
	}
	if os.Getenv("SLDEBUG") != "" {
		os.Stderr.WriteString(line + " => " + out + " | " + run.debug + "\n")
	}
	run.mu.Lock()
	run.closed = true
	for _, sig := range run.order {
		a := run.agg[sig]
		d := a.detail
		if a.count > 1 {
			d += sprintf(" [%d occurrences in this line]", a.count)
		}
		if len(e.fs) < 200 {
			e.fs = append(e.fs, Finding{Prop: run.prop, Sig: sig, Detail: d, Line: idx})
		}
	}
	run.mu.Unlock()
	return out
}

// ---------------------------------------------------------------------------------------
// networks

func slSafeBuild(r *rand.Rand, o genOpts) (g *genNet) {
	defer func() {
		if recover() != nil {
			g = nil
		}
	}()
	return buildNetwork(r, o)
}

type slNet struct {
	reseed  int
	g       *genNet
	custom  map[acmelib.EntityID]bool // custom (non-default) CAN-ID builders
	notes   []string
	int32x  []string // values outside int32 put into integer attributes
	uint32x []string // values outside uint32 put into times / baud rates
}

func (n *slNet) note(s string) { n.notes = append(n.notes, s) }

func slBuild(seed int64, variant int) *slNet {
	r := rand.New(rand.NewSource(seed))
	var o genOpts
	switch variant {
	case 0, 5:
		o = genOpts{maxNest: 2}
	case 1:
		o = genOpts{dbcSafe: true, maxNest: 1}
	case 2:
		o = genOpts{maxNest: 2, bigNames: true, manyEqual: true}
	default:
		o = genOpts{maxNest: 3}
	}
	g := slSafeBuild(r, o)
	n := &slNet{g: g, custom: map[acmelib.EntityID]bool{}}
	for k := int64(1); g == nil && k <= 50; k++ {
		// the shared generator rejects some seeds (it can draw two equal node ids): take the
		// next seed of a fixed sequence, so that the line stays its own replay
		g = slSafeBuild(rand.New(rand.NewSource(seed+k*1_000_003)), o)
		n.g = g
		n.reseed = int(k)
	}
	if g == nil {
		panic("saveload: the generator failed for 50 derived seeds")
	}
	for _, cb := range g.builders {
		n.custom[cb.EntityID()] = true
	}
	if variant == 3 || variant == 4 {
		n.extras(rand.New(rand.NewSource(seed ^ 0x5eed)))
	}
	if variant == 4 {
		n.narrowing(rand.New(rand.NewSource(seed ^ 0x7a77)))
	}
	if variant == 5 {
		n.risky(rand.New(rand.NewSource(seed ^ 0x715c)))
	}
	return n
}

const slOddText = "quo\"te back\\slash\nnew line\ttab ünï ☃ {curly} [sq] <a>&'x';"

func (n *slNet) typeOfSize(sz int) *acmelib.SignalType {
	for _, t := range n.g.types {
		if t.Size() == sz {
			return t
		}
	}
	return nil
}

// extras: features of the public API the shared generator does not use.
func (n *slNet) extras(r *rand.Rand) {
	g := n.g
	// descriptions and odd strings everywhere
	for _, t := range g.types {
		if r.Intn(3) == 0 {
			t.SetDesc(pick(r, "type description", slOddText))
		}
		if r.Intn(4) == 0 {
			t.SetMin(-12.5)
			t.SetMax(1e6)
		}
	}
	for _, u := range g.units {
		if r.Intn(2) == 0 {
			u.SetDesc(pick(r, "unit description", slOddText))
		}
	}
	for _, e := range g.enums {
		if r.Intn(2) == 0 {
			e.SetDesc("enum description")
		}
		for _, v := range e.Values() {
			if r.Intn(2) == 0 {
				v.SetDesc(pick(r, "value description", slOddText))
			}
		}
	}
	for _, a := range g.attrs {
		if d, ok := a.(interface{ SetDesc(string) }); ok && r.Intn(2) == 0 {
			d.SetDesc("attribute description")
		}
	}
	for _, cb := range g.builders {
		cb.SetDesc("builder description")
	}
	power := acmelib.NewSignalUnit("unit_power", acmelib.SignalUnitKindPower, "kW")
	g.units = append(g.units, power)
	for _, s := range g.sigs {
		if r.Intn(3) == 0 {
			s.SetSendType(pick(r, acmelib.SignalSendTypeCyclic, acmelib.SignalSendTypeOnWrite, acmelib.SignalSendTypeOnWriteWithRepetition,
				acmelib.SignalSendTypeOnChange, acmelib.SignalSendTypeOnChangeWithRepetition, acmelib.SignalSendTypeIfActive, acmelib.SignalSendTypeIfActiveWithRepetition))
		}
		if r.Intn(4) == 0 {
			s.SetStartValue(pick(r, -3.75, 0.1, 1e-9, 123456789.5))
		}
		if ss, err := s.ToStandard(); err == nil && s.ParentMessage() != nil && r.Intn(6) == 0 {
			ss.SetUnit(power)
		}
	}
	for _, m := range g.msgs {
		if r.Intn(4) == 0 {
			m.SetSendType(acmelib.MessageSendTypeCyclicIfActiveAndTriggered)
		}
		if r.Intn(5) == 0 {
			m.SetDesc(slOddText)
		}
		if r.Intn(6) == 0 {
			m.SetCycleTime(4_000_000_000) // fits uint32, not int32
			m.SetDelayTime(2_147_483_648)
			m.SetStartDelayTime(4_294_967_295)
		}
	}
	// more attributes
	strAtt := acmelib.NewStringAttribute("astr_odd", slOddText)
	negAtt, err := acmelib.NewIntegerAttribute("aint_neg", -5, -100000, 100000)
	must(err)
	infAtt, err := acmelib.NewFloatAttribute("aflt_inf", 0, math.Inf(-1), math.Inf(1))
	must(err)
	dupEnumAtt, err := acmelib.NewEnumAttribute("aenm_dup", "b", "a", "b", "c", "")
	must(err)
	g.attrs = append(g.attrs, strAtt, negAtt, infAtt, dupEnumAtt)
	for _, m := range g.msgs {
		if r.Intn(3) == 0 {
			must(m.AssignAttribute(strAtt, pick(r, slOddText, "", " ")))
		}
		if r.Intn(3) == 0 {
			must(m.AssignAttribute(negAtt, pick(r, -77777, -1, 0, 100000)))
		}
		if r.Intn(3) == 0 {
			must(m.AssignAttribute(infAtt, pick(r, 1e308, -1e-300, 0.1)))
		}
		if r.Intn(3) == 0 {
			must(m.AssignAttribute(dupEnumAtt, pick(r, "a", "b", "c", "")))
		}
	}
	if len(g.buses) > 0 {
		g.buses[0].SetBaudrate(4_000_000_000)
	}

	// shared custom builder with all four operation kinds
	if len(g.buses) >= 2 && r.Intn(2) == 0 {
		cb := acmelib.NewCANIDBuilder("builder_shared")
		cb.UseMessagePriority(26).UseMessageID(8, 12).UseNodeID(0, 8).UseBitMask(0, 29)
		if r.Intn(2) == 0 {
			// operations over zero bits are legal: the first two place nothing, the mask keeps nothing
			cb.UseNodeID(3, 0).UseMessageID(0, 0)
			if r.Intn(2) == 0 {
				cb.UseBitMask(5, 0).UseMessageID(2, 6)
			}
		}
		cb.SetDesc("shared by two buses")
		g.buses[0].SetCANIDBuilder(cb)
		g.buses[1].SetCANIDBuilder(cb)
		n.custom[cb.EntityID()] = true
		g.builders = append(g.builders, cb)
		n.note("shared-builder")
	}
	// an empty bus
	if r.Intn(2) == 0 {
		b := acmelib.NewBus("bus_empty")
		b.SetDesc("no interfaces")
		b.SetBaudrate(1_000_000)
		must(g.net.AddBus(b))
		g.buses = append(g.buses, b)
		n.note("empty-bus")
	}
	// a node with three interfaces: #0 on the first bus, #2 on the last bus, #1 unattached
	xn := acmelib.NewNode("xnode", 200, 3)
	xn.SetDesc(slOddText)
	must(xn.AssignAttribute(negAtt, -42))
	g.nodes = append(g.nodes, xn)
	first, last := g.buses[0], g.buses[len(g.buses)-1]
	must(first.AddNodeInterface(xn.Interfaces()[0]))
	if last != first {
		must(last.AddNodeInterface(xn.Interfaces()[2]))
	}
	// a node attached by interface #1 only
	yn := acmelib.NewNode("ynode", 201, 2)
	g.nodes = append(g.nodes, yn)
	must(first.AddNodeInterface(yn.Interfaces()[1]))

	// a message with special multiplexers, sent by xnode#0
	xm := acmelib.NewMessage("xmsg", 900, 8)
	xm.SetByteOrder(pick(r, acmelib.MessageByteOrderLittleEndian, acmelib.MessageByteOrderBigEndian))
	leaf := func(name string, sz int) acmelib.Signal {
		s, err := acmelib.NewStandardSignal(name, n.typeOfSize(sz))
		must(err)
		g.sigs = append(g.sigs, s)
		return s
	}
	mux3, err := acmelib.NewMultiplexerSignal("xmux3", 3, 10)
	must(err)
	must(mux3.InsertSignal(leaf("x_a_g02", 2), 0, 0, 2))    // non-adjacent groups
	must(mux3.InsertSignal(leaf("x_b_all", 1), 4, 0, 1, 2)) // every group, but not fixed
	inner, err := acmelib.NewMultiplexerSignal("xinner", 2, 2)
	must(err)
	must(inner.InsertSignal(leaf("x_in0", 2), 0, 0))
	must(inner.InsertSignal(leaf("x_in1", 1), 1, 1))
	must(mux3.InsertSignal(inner, 5, 0, 1))        // a multiplexer living in two groups
	must(mux3.InsertSignal(leaf("x_fixed", 1), 8)) // fixed
	must(xm.InsertSignal(mux3, 0))
	mux1, err := acmelib.NewMultiplexerSignal("xmux1", 1, 4) // one group
	must(err)
	must(mux1.InsertSignal(leaf("x_only", 3), 1, 0))
	must(xm.InsertSignal(mux1, 16))
	empty, err := acmelib.NewMultiplexerSignal("xempty", 2, 3) // no children
	must(err)
	must(xm.InsertSignal(empty, 24))
	emptyEnum := acmelib.NewSignalEnum("enum_empty")
	must(emptyEnum.SetMinSize(3))
	g.enums = append(g.enums, emptyEnum)
	es, err := acmelib.NewEnumSignal("x_enum_empty", emptyEnum)
	must(err)
	must(xm.InsertSignal(es, 40))
	g.sigs = append(g.sigs, mux3, inner, mux1, empty, es)
	must(xn.Interfaces()[0].AddSentMessage(xm))
	g.msgs = append(g.msgs, xm)
	// message id 0 and static CAN-ID 0
	m0 := acmelib.NewMessage("xmsg_id0", 0, 1)
	must(xn.Interfaces()[0].AddSentMessage(m0))
	g.msgs = append(g.msgs, m0)
	ms := acmelib.NewMessage("xmsg_static0", 901, 0)
	must(ms.SetStaticCANID(0))
	must(yn.Interfaces()[1].AddSentMessage(ms))
	g.msgs = append(g.msgs, ms)
	// receivers: on the other bus, and an unattached interface of an attached node
	must(xm.AddReceiver(yn.Interfaces()[1]))
	must(m0.AddReceiver(yn.Interfaces()[0])) // ynode#0 is not attached to any bus
	n.note("receiver-unattached-interface")
	if last != first {
		for _, ni := range last.NodeInterfaces() {
			if ni.Node() != xn && ni.Node() != yn {
				must(xm.AddReceiver(ni)) // interface on another bus than the sender
				n.note("receiver-other-bus")
				break
			}
		}
	}
}

// narrowing: values the schema cannot hold (int32 / uint32 fields).
func (n *slNet) narrowing(r *rand.Rand) {
	g := n.g
	did := false
	for !did {
		if r.Intn(2) == 0 {
			a, err := acmelib.NewIntegerAttribute("aint_big", 5_000_000_000, 0, 10_000_000_000)
			must(err)
			g.attrs = append(g.attrs, a)
			n.int32x = append(n.int32x, "attribute aint_big def 5000000000 max 10000000000")
			val := pick(r, 7, 6_000_000_000, 3_000_000_000)
			must(g.buses[0].AssignAttribute(a, val))
			if val > math.MaxInt32 {
				n.int32x = append(n.int32x, sprintf("assignment aint_big=%d on bus %q", val, g.buses[0].Name()))
			}
			did = true
		}
		if r.Intn(3) == 0 {
			a, err := acmelib.NewIntegerAttribute("aint_bigneg", 0, -3_000_000_000, 100)
			must(err)
			g.attrs = append(g.attrs, a)
			must(g.buses[0].AssignAttribute(a, 50))
			n.int32x = append(n.int32x, "attribute aint_bigneg min -3000000000")
			did = true
		}
		if r.Intn(3) == 0 && len(g.msgs) > 0 {
			a, err := acmelib.NewIntegerAttribute("aint_wide", 0, math.MinInt64, math.MaxInt64)
			must(err)
			g.attrs = append(g.attrs, a)
			m := g.msgs[r.Intn(len(g.msgs))]
			val := pick(r, -2_147_483_649, 2_147_483_648, 1<<40)
			must(m.AssignAttribute(a, val))
			n.int32x = append(n.int32x, sprintf("attribute aint_wide range int64; assignment %d on message %q", val, m.Name()))
			did = true
		}
		if r.Intn(2) == 0 && len(g.msgs) > 0 {
			m := g.msgs[r.Intn(len(g.msgs))]
			switch r.Intn(4) {
			case 0:
				m.SetCycleTime(-5)
				n.uint32x = append(n.uint32x, sprintf("cycle time -5 on message %q", m.Name()))
			case 1:
				m.SetDelayTime(-1)
				n.uint32x = append(n.uint32x, sprintf("delay time -1 on message %q", m.Name()))
			case 2:
				m.SetStartDelayTime(-100)
				n.uint32x = append(n.uint32x, sprintf("start delay time -100 on message %q", m.Name()))
			case 3:
				m.SetCycleTime(1 << 33)
				n.uint32x = append(n.uint32x, sprintf("cycle time 2^33 on message %q", m.Name()))
			}
			did = true
		}
		if r.Intn(4) == 0 {
			b := g.buses[len(g.buses)-1]
			b.SetBaudrate(-250000)
			n.uint32x = append(n.uint32x, sprintf("baud rate -250000 on bus %q", b.Name()))
			did = true
		}
	}
}

// risky: exactly one feature that is legal in the public API and suspicious for the saver.
func (n *slNet) risky(r *rand.Rand) {
	g := n.g
	switch r.Intn(6) {
	case 0:
		if len(g.msgs) == 0 {
			n.note("risky:none")
			return
		}
		zn := acmelib.NewNode("znode_unattached", 250, 1)
		must(g.msgs[0].AddReceiver(zn.Interfaces()[0]))
		n.note("risky:receiver-on-unattached-node")
	case 1:
		g.buses[0].SetDesc("bad utf8 \xff\xfe end")
		n.note("risky:invalid-utf8-desc")
	case 2:
		cb := acmelib.NewCANIDBuilder("builder_no_ops")
		g.buses[0].SetCANIDBuilder(cb)
		n.custom[cb.EntityID()] = true
		n.note("risky:builder-without-operations")
	case 3:
		a, err := acmelib.NewFloatAttribute("aflt_nan", math.NaN(), 0, 1)
		must(err)
		must(g.buses[0].AssignAttribute(a, 0.5))
		for _, s := range g.sigs {
			if s.ParentMessage() != nil {
				s.SetStartValue(math.NaN())
				break
			}
		}
		n.note("risky:nan-values")
	case 4:
		did := false
		for _, s := range g.sigs {
			if s.ParentMessage() != nil {
				s.SetStartValue(math.Copysign(0, -1))
				did = true
				break
			}
		}
		if did {
			n.note("risky:negative-zero-start-value")
		} else {
			n.note("risky:none")
		}
	case 5:
		g.net.UpdateName("")
		g.net.SetDesc("")
		if len(g.msgs) > 0 {
			g.msgs[0].SetDesc(strings.Repeat("long ", 20000))
		}
		n.note("risky:empty-network-name-long-desc")
	}
}

// ---------------------------------------------------------------------------------------
// C12

var slEncs = [3]acmelib.SaveEncoding{acmelib.SaveEncodingWire, acmelib.SaveEncodingJSON, acmelib.SaveEncodingText}
var slEncNames = [3]string{"wire", "json", "text"}
var slWriterNames = [3]string{"wWire", "wJSON", "wText"}

func slEncName(enc int) string {
	switch enc {
	case 1:
		return "wire"
	case 2:
		return "json"
	case 4:
		return "text"
	}
	return sprintf("enc%d", enc)
}

type slLoadRes struct {
	net   *acmelib.Network
	err   error
	panic string // short
	where string
}

func slTry(f func() (*acmelib.Network, error)) (res slLoadRes) {
	defer func() {
		if r := recover(); r != nil {
			short, where := slPanicInfo(r, debug.Stack())
			res = slLoadRes{panic: short, where: sprintf("%v (%s)", r, where)}
		}
	}()
	net, err := f()
	return slLoadRes{net: net, err: err}
}

func slLoadBytes(data []byte, enc acmelib.SaveEncoding) slLoadRes {
	return slTry(func() (*acmelib.Network, error) { return acmelib.LoadNetwork(bytes.NewReader(data), enc) })
}

// slMaskIDs replaces the (random) entity ids of the network in a text.
func slMaskIDs(s string, v *slView) string {
	for _, it := range v.items {
		if it.field == "entity-id" && len(it.val) >= 8 {
			s = strings.ReplaceAll(s, it.val, "<id>")
		}
	}
	return s
}

func slLabel(v0, v1 *slView, path string) string {
	if l := v0.labelOf(path); l != "" {
		return l
	}
	return v1.labelOf(path)
}

func slOutsideInt32(s string) bool {
	if i := strings.IndexByte(s, ':'); i >= 0 && strings.HasPrefix(s, "int:") {
		s = s[i+1:]
	}
	v, err := strconv.ParseInt(s, 10, 64)
	return err == nil && (v > math.MaxInt32 || v < math.MinInt32)
}

func slOutsideUint32(s string) bool {
	v, err := strconv.ParseInt(s, 10, 64)
	return err == nil && (v > math.MaxUint32 || v < 0)
}

func (x *slRun) c12(seed int64, variant int) string {
	x.setStage("build")
	n := slBuild(seed, variant)
	net := n.g.net
	x.tag(sprintf("v%d", variant))
	for _, nt := range n.notes {
		if strings.HasPrefix(nt, "risky:") {
			x.tag(nt)
		}
	}
	id := sprintf("seed=%d variant=%d", seed, variant)
	if len(n.notes) > 0 {
		id += " features=" + listStr(n.notes)
	}
	x.setStage("view of the original")
	v0 := slBuildView(net, n.custom)
	for _, vi := range slInvariants(net, false) {
		x.report("c12-original-invalid:"+vi.which, sprintf("%s: the generated network already violates an invariant (not a save/load issue): %s", id, vi.detail))
	}
	narrowAttr := len(n.int32x) > 0
	narrowTime := len(n.uint32x) > 0
	narrowNote := ""
	if narrowAttr || narrowTime {
		narrowNote = sprintf(" out-of-range inputs: %s", listStr(append(append([]string{}, n.int32x...), n.uint32x...)))
	}

	saves, loads, distinct, totalDiffs := 0, 0, 0, 0
	seenBytes := [3]map[string]bool{{}, {}, {}}
	baseLoads := map[int]bool{} // memo: does the variant-3 network of the same seed load in encoding k
	baseOK := func(k int) bool {
		if v, ok := baseLoads[k]; ok {
			return v
		}
		b := slBuild(seed, 3)
		var bufs [3]bytes.Buffer
		ok := false
		if err := acmelib.SaveNetwork(b.g.net, slEncs[k], &bufs[0], &bufs[1], &bufs[2]); err == nil {
			res := slLoadBytes(bufs[k].Bytes(), slEncs[k])
			ok = res.panic == "" && res.err == nil
		}
		baseLoads[k] = ok
		return ok
	}
	narrowSig := func() string {
		if narrowAttr {
			return "c12-int32-narrowing"
		}
		return "c12-uint32-narrowing"
	}

	for phase := 0; phase < 2; phase++ {
	firstSub := 1
	if phase == 1 {
		// a save is a function of the CURRENT model, not of what was saved before: every entity
		// that has an updater gets another name and another description, and the network is saved
		// (all three encodings) and loaded again
		x.setStage("edits between two saves")
		if n.editAll() == 0 {
			break
		}
		v0 = slBuildView(net, n.custom)
		id += " (second save, after every name and description was changed)"
		seenBytes = [3]map[string]bool{{}, {}, {}}
		firstSub = 7
	}
	for sub := firstSub; sub <= 7; sub++ {
		x.setStage(sprintf("save subset %d", sub))
		var bufs [3]bytes.Buffer
		sv := slTry(func() (*acmelib.Network, error) {
			return nil, acmelib.SaveNetwork(net, acmelib.SaveEncoding(sub), &bufs[0], &bufs[1], &bufs[2])
		})
		if sv.panic != "" {
			x.report("c12-save-panic:"+sv.panic, sprintf("%s: SaveNetwork(encoding=%d) panicked: %s", id, sub, sv.where))
			continue
		}
		if sv.err != nil {
			x.report("c12-save-failed:"+slClip(slStable(slMaskIDs(sv.err.Error(), v0)), 50), sprintf("%s: SaveNetwork(encoding=%d) returned %v", id, sub, sv.err))
			continue
		}
		saves++
		for k := 0; k < 3; k++ {
			requested := sub&(1<<k) != 0
			if requested != (bufs[k].Len() > 0) {
				x.report("c12-selection", sprintf("%s: SaveNetwork(encoding=%d): %s requested=%v but %d bytes written", id, sub, slEncNames[k], requested, bufs[k].Len()))
			}
		}
		for k := 0; k < 3; k++ {
			if sub&(1<<k) == 0 || bufs[k].Len() == 0 {
				continue
			}
			loads++
			key := bufs[k].String()
			if seenBytes[k][key] {
				continue // identical bytes were already loaded and compared
			}
			seenBytes[k][key] = true
			distinct++
			enc := slEncNames[k]
			x.setStage(sprintf("load %s of subset %d", enc, sub))
			res := slLoadBytes(bufs[k].Bytes(), slEncs[k])
			if res.panic != "" {
				x.report("c12-panic:"+res.panic, sprintf("%s: LoadNetwork(%s) of an unmodified save panicked: %s", id, enc, res.where))
				continue
			}
			if res.err != nil {
				msg := slClip(slStable(slMaskIDs(res.err.Error(), v0)), 50)
				if (narrowAttr || narrowTime) && slNarrowRefusal(res.err) && baseOK(k) {
					x.report(narrowSig(), sprintf("%s: LoadNetwork(%s) rejects the save: %v; the same network without the out-of-range values loads.%s", id, enc, res.err, narrowNote))
				} else {
					x.report(sprintf("c12-load-rejected:%s:%s", enc, msg), sprintf("%s: LoadNetwork(%s) of an unmodified save returned: %v", id, enc, res.err))
				}
				continue
			}
			x.setStage(sprintf("view of the %s load of subset %d", enc, sub))
			v1 := slBuildView(res.net, n.custom)
			diffs := slCompare(v0, v1)
			totalDiffs += len(diffs)
			// classification of expected schema limits
			plain := 0
			isNarrow := make([]string, len(diffs))
			for i, d := range diffs {
				switch {
				case strings.HasPrefix(d.field, "derived:"):
				case (d.field == "attribute-def" || d.field == "attribute-assignment") && slOutsideInt32(d.a):
					isNarrow[i] = "c12-int32-narrowing"
				case (d.field == "msg-timing" || d.field == "baudrate") && slOutsideUint32(d.a):
					isNarrow[i] = "c12-uint32-narrowing"
				default:
					plain++
				}
			}
			anyNarrow := false
			for _, s := range isNarrow {
				if s != "" {
					anyNarrow = true
				}
			}
			for i, d := range diffs {
				a, b := d.a, d.b
				if len(a) > 160 || len(b) > 160 {
					a, b = slFirstLineDiff(a, b)
				}
				det := sprintf("%s enc=%s subset=%d: %s [%s]: original %q, loaded %q", id, enc, sub, d.path, slLabel(v0, v1, d.path), slClip(a, 200), slClip(b, 200))
				switch {
				case isNarrow[i] != "":
					x.report(isNarrow[i], det+narrowNote)
				case strings.HasPrefix(d.field, "derived:") && anyNarrow && plain == 0:
					x.report(narrowSig(), det+" (derived observable; every field difference of this load is an out-of-range value)"+narrowNote)
				case strings.HasPrefix(d.field, "derived:"):
					x.report("c12-"+d.field, det)
				default:
					x.report("c12-differs:"+d.field, det)
				}
			}
			x.setStage(sprintf("invariants of the %s load of subset %d", enc, sub))
			for _, vi := range slInvariants(res.net, true, slViewNames(v0)...) {
				x.report("c12-loaded-invalid:"+vi.which, sprintf("%s enc=%s: %s", id, enc, vi.detail))
			}
		}
	}

	}

	// nil writers: every requested encoding in turn gets no writer
	x.setStage("nil writers")
	nilCases, nilOK := 0, 0
	for sub := 1; sub <= 7 && saves > 0; sub++ { // (a network that cannot be saved at all is reported above)
		for k := 0; k < 3; k++ {
			if sub&(1<<k) == 0 {
				continue
			}
			nilCases++
			var bufs [3]bytes.Buffer
			var ws [3]io.Writer
			for j := 0; j < 3; j++ {
				if j != k {
					ws[j] = &bufs[j]
				}
			}
			sv := slTry(func() (*acmelib.Network, error) {
				return nil, acmelib.SaveNetwork(net, acmelib.SaveEncoding(sub), ws[0], ws[1], ws[2])
			})
			what := sprintf("%s: SaveNetwork(encoding=%d) with a nil %s", id, sub, slWriterNames[k])
			if sv.panic != "" {
				x.report("c12-nil-writer", what+" panicked: "+sv.where)
				continue
			}
			var ae *acmelib.ArgumentError
			switch {
			case sv.err == nil:
				x.report("c12-nil-writer", what+" returned no error")
				continue
			case !errors.Is(sv.err, acmelib.ErrIsNil):
				x.report("c12-nil-writer", what+sprintf(" returned %v, not ErrIsNil", sv.err))
				continue
			case !errors.As(sv.err, &ae) || ae.Name != slWriterNames[k]:
				x.report("c12-nil-writer", what+sprintf(" returned %v: the ArgumentError does not name the writer", sv.err))
				continue
			}
			// observed rule: the encodings are written in the order wire, JSON, text; the ones
			// before the missing writer are already written when the error is returned
			good := true
			for j := 0; j < 3; j++ {
				expect := j < k && sub&(1<<j) != 0
				if (bufs[j].Len() > 0) != expect {
					good = false
					x.report("c12-nil-writer", what+sprintf(": %s has %d bytes; expected written=%v (requested encodings before the missing writer are written, later ones are not)", slEncNames[j], bufs[j].Len(), expect))
				}
			}
			if good {
				nilOK++
			}
		}
	}
	x.tag(sprintf("diffs:%v", totalDiffs > 0))
	return sprintf("c12 seed=%d v=%d buses=%d msgs=%d sigs=%d saves=%d loads=%d distinct=%d diffs=%d nilwriter=%d/%d(partial-output=earlier-encodings-written) %s",
		seed, variant, len(net.Buses()), len(n.g.msgs), len(n.g.sigs), saves, loads, distinct, totalDiffs, nilOK, nilCases, x.tagList())
}


// editAll gives every entity of the network another name and another description through
// whatever updater its kind offers; it returns the number of edits that were accepted.
func (n *slNet) editAll() int {
	edits := 0
	edit := func(i int, e any) {
		tag := sprintf("e2x%d_", i)
		type named interface{ Name() string }
		nm := ""
		if x, ok := e.(named); ok {
			nm = x.Name()
		}
		// one entity gets another name only, the next another description only, the third both
		// (an updater may invalidate what another one forgets to)
		doName, doDesc := i%3 != 1, i%3 != 0
		var ne any
		if doName {
			ne = e
		}
		switch x := ne.(type) {
		case interface{ UpdateName(string) error }:
			if x.UpdateName(tag+nm) == nil {
				edits++
			}
		case interface{ UpdateName(string) }:
			x.UpdateName(tag + nm)
			edits++
		case interface{ SetName(string) }:
			x.SetName(tag + nm)
			edits++
		}
		if x, ok := e.(interface{ SetDesc(string) }); ok && doDesc {
			x.SetDesc(sprintf("second description %d", i))
			edits++
		}
	}
	g := n.g
	i := 0
	next := func(e any) { i++; edit(i, e) }
	next(g.net)
	for _, e := range g.buses {
		next(e)
	}
	for _, e := range g.nodes {
		next(e)
	}
	for _, e := range g.msgs {
		next(e)
	}
	for _, e := range g.sigs {
		next(e)
	}
	for _, e := range g.types {
		next(e)
	}
	for _, e := range g.units {
		next(e)
	}
	for _, e := range g.enums {
		next(e)
		for _, v := range e.Values() {
			next(v)
		}
	}
	for _, e := range g.attrs {
		next(e)
	}
	for _, e := range g.builders {
		next(e)
	}
	return edits
}


// slNarrowRefusal: the refusals a value squeezed through int32 / uint32 can cause on load — an
// attribute whose bounds wrapped around (min > max), a default or an assigned value outside the
// wrapped bounds.  Any other refusal of an unmodified save is NOT the known narrowing.
func slNarrowRefusal(err error) bool {
	var gt *acmelib.ErrGreaterThen
	var lt *acmelib.ErrLowerThen
	var av *acmelib.AttributeValueError
	return errors.As(err, &gt) || errors.As(err, &lt) || (errors.As(err, &av) && errors.Is(err, acmelib.ErrOutOfBounds))
}
