package main

// Stream `sv` — the STRUCTURE-building code of saver.go / loader.go against the Lean model
// Acme.Save (lean/Acme/Core/Save.lean, driver lean/Acme/Driver/Save.lean, property C12/C13).
//
//   sv save <net-json>  → <pnet-json>
//        Go: build the described network through the PUBLIC API, VerifSaveProto, print the
//        protobuf tree (entity ids mapped back to the labels of the description; runs of equal
//        sort keys, which the code orders by the random entity ids, are checked and then listed
//        in label order).  Model: Acme.Save.save.
//   sv load <pnet-json> → ok <net-json> | err <class> [<arg>]
//        Go: build the protobuf tree from the JSON, VerifLoadProto, walk the result through the
//        public getters (two read-only reflection reads: the fixed flag of multiplexer children,
//        the default-builder flag of a bus).  Model: Acme.Save.load, shown in `norm` order.
//        Model: Acme.LoadGeom.loadFull = Acme.Save.load, then the geometry (loadGeom): the
//        placement the loader performs through Message / MultiplexerSignal.InsertSignal.  A
//        geometric refusal (out of bounds, no space left, intersect, size zero) is printed as
//        `err geom <cause>` and must be PREDICTED by the model; a successful load also prints the
//        layouts of the loaded network (svGeoOf), which must equal the model's.
//        A refusal by a public mutator the model does not cover (names, scalar validity) is
//        printed as `err api <type>`; such lines are accepted and counted (tag load:api).
//   sv wf <net-json>    → wf=true inrange=true roundtrip=true
//        the generator's networks satisfy NetWF and InRange, and the model's own round trip holds.
//
// The JSON shapes are described in lean/Acme/Driver/Save.lean.  Texts never contain blanks.

import (
	"encoding/json"
	"errors"
	"fmt"
	"io"
	"log"
	"math/rand"
	"os"
	"reflect"
	"sort"
	"strconv"
	"strings"

	"github.com/squadracorsepolito/acmelib"
	acmelibv1 "github.com/squadracorsepolito/acmelib/proto/gen/go/acmelib/v1"
)

type svStream struct{ baseStream }

func init() {
	register(svStream{})
	log.SetOutput(io.Discard) // loader.go logs refused assignments
}

func (svStream) Name() string    { return "sv" }
func (svStream) Props() []string { return []string{"C12", "C13"} }
func (svStream) NewExec() Exec   { return &svExec{} }
func (svStream) Parallel() bool  { return true }

// ---------------------------------------------------------------------------------------------
// JSON shapes

type svE struct {
	ID   string `json:"id"`
	Name string `json:"name"`
	Pl   string `json:"pl"`
}

type svAsg struct {
	Attr string `json:"attr"`
	Val  string `json:"val"`
}

type svKid struct {
	Sig   *svSig `json:"sig"`
	Pos   int    `json:"pos"`
	Fixed bool   `json:"fixed"`
	Grp   []int  `json:"grp"`
}

type svSig struct {
	E    svE     `json:"e"`
	Asg  []svAsg `json:"asg"`
	K    int     `json:"k"`
	Type string  `json:"type"`
	Unit string  `json:"unit"`
	Enum string  `json:"enum"`
	Gc   int     `json:"gc"`
	Kids []svKid `json:"kids"`
}

type svTop struct {
	Sig *svSig `json:"sig"`
	Pos int    `json:"pos"`
}

type svRecv struct {
	Node string `json:"node"`
	Num  int    `json:"num"`
}

type svMsg struct {
	E      svE      `json:"e"`
	Asg    []svAsg  `json:"asg"`
	Mid    int      `json:"mid"`
	Static int      `json:"static"`
	Sigs   []svTop  `json:"sigs"`
	Recvs  []svRecv `json:"recvs"`
}

type svIface struct {
	Node string  `json:"node"`
	Num  int     `json:"num"`
	Msgs []svMsg `json:"msgs"`
}

type svBus struct {
	E       svE       `json:"e"`
	Builder string    `json:"builder"`
	Ifaces  []svIface `json:"ifaces"`
	Asg     []svAsg   `json:"asg"`
}

type svOp struct {
	K int `json:"k"`
	F int `json:"f"`
	L int `json:"l"`
}

type svBld struct {
	E   svE    `json:"e"`
	Ops []svOp `json:"ops"`
}

type svNode struct {
	E   svE     `json:"e"`
	Nid int     `json:"nid"`
	Ifc int     `json:"ifc"`
	Asg []svAsg `json:"asg"`
}

type svAttr struct {
	E    svE      `json:"e"`
	K    int      `json:"k"`
	Vals []string `json:"vals"`
	Def  string   `json:"def"`
}

type svNet struct {
	E        svE      `json:"e"`
	Buses    []svBus  `json:"buses"`
	Builders []svBld  `json:"builders"`
	Nodes    []svNode `json:"nodes"`
	Types    []svE    `json:"types"`
	Units    []svE    `json:"units"`
	Enums    []svE    `json:"enums"`
	Attrs    []svAttr `json:"attrs"`
}

// the saved tree

type svpAsg struct {
	Owner string `json:"owner"`
	Attr  string `json:"attr"`
	Tag   int    `json:"tag"`
	Val   string `json:"val"`
}

type svpRef struct {
	ID  string `json:"id"`
	Pos int    `json:"pos"`
}

type svpSig struct {
	E      svE        `json:"e"`
	Asg    []svpAsg   `json:"asg"`
	Kind   int        `json:"kind"`
	Body   int        `json:"body"`
	Type   string     `json:"type"`
	Unit   string     `json:"unit"`
	Enum   string     `json:"enum"`
	Gc     int        `json:"gc"`
	Sigs   []*svpSig  `json:"sigs"`
	Fixed  []string   `json:"fixed"`
	Groups [][]svpRef `json:"groups"`
}

type svpMsg struct {
	E     svE       `json:"e"`
	Asg   []svpAsg  `json:"asg"`
	Mid   int       `json:"mid"`
	Sval  int       `json:"sval"`
	Hs    bool      `json:"hs"`
	Sigs  []*svpSig `json:"sigs"`
	Refs  []svpRef  `json:"refs"`
	Recvs []svRecv  `json:"recvs"`
}

type svpIface struct {
	Node string   `json:"node"`
	Num  int      `json:"num"`
	Msgs []svpMsg `json:"msgs"`
}

type svpBus struct {
	E       svE        `json:"e"`
	Builder string     `json:"builder"`
	Ifaces  []svpIface `json:"ifaces"`
	Asg     []svpAsg   `json:"asg"`
}

type svpNode struct {
	E   svE      `json:"e"`
	Nid int      `json:"nid"`
	Ifc int      `json:"ifc"`
	Asg []svpAsg `json:"asg"`
}

type svpAttr struct {
	E    svE      `json:"e"`
	Tag  int      `json:"tag"`
	Body int      `json:"body"`
	Vals []string `json:"vals"`
	Def  string   `json:"def"`
}

type svpNet struct {
	E        svE       `json:"e"`
	Buses    []svpBus  `json:"buses"`
	Builders []svBld   `json:"builders"`
	Nodes    []svpNode `json:"nodes"`
	Types    []svE     `json:"types"`
	Units    []svE     `json:"units"`
	Enums    []svE     `json:"enums"`
	Attrs    []svpAttr `json:"attrs"`
}

// svJSON prints compact JSON with sorted object keys and `[]` for empty lists (what
// Lean.Json.compress prints).
func svJSON(v any) string {
	b, err := json.Marshal(v)
	if err != nil {
		panic(err)
	}
	var t any
	dec := json.NewDecoder(strings.NewReader(string(b)))
	dec.UseNumber()
	if err := dec.Decode(&t); err != nil {
		panic(err)
	}
	t = svNoNull(t)
	b, err = json.Marshal(t)
	if err != nil {
		panic(err)
	}
	s := string(b)
	if strings.ContainsAny(s, " \t\n") {
		panic("sv: blank in JSON: " + s)
	}
	return s
}

func svNoNull(t any) any {
	switch x := t.(type) {
	case nil:
		return []any{}
	case map[string]any:
		for k, v := range x {
			x[k] = svNoNull(v)
		}
		return x
	case []any:
		for i, v := range x {
			x[i] = svNoNull(v)
		}
		return x
	}
	return t
}

func svClone[T any](x T) T {
	b, err := json.Marshal(x)
	if err != nil {
		panic(err)
	}
	var y T
	if err := json.Unmarshal(b, &y); err != nil {
		panic(err)
	}
	return y
}

// ---------------------------------------------------------------------------------------------
// payloads: `k=v;k=v` (the model never looks into them)

func svPl(kv ...string) string {
	var b strings.Builder
	for i := 0; i+1 < len(kv); i += 2 {
		if i > 0 {
			b.WriteByte(';')
		}
		b.WriteString(kv[i])
		b.WriteByte('=')
		b.WriteString(kv[i+1])
	}
	return b.String()
}

func svParsePl(pl string) map[string]string {
	m := map[string]string{}
	for _, f := range strings.Split(pl, ";") {
		if i := strings.IndexByte(f, '='); i >= 0 {
			m[f[:i]] = f[i+1:]
		}
	}
	return m
}

func svF(x float64) string { return strconv.FormatFloat(x, 'g', -1, 64) }
func svI(x int) string     { return strconv.Itoa(x) }
func svB(b bool) string {
	if b {
		return "1"
	}
	return "0"
}
func svAtoi(s string) int {
	v, err := strconv.ParseInt(s, 10, 64)
	if err != nil {
		return 0
	}
	return int(v)
}
func svAtof(s string) float64 {
	v, err := strconv.ParseFloat(s, 64)
	if err != nil {
		return 0
	}
	return v
}

// ---------------------------------------------------------------------------------------------
// generator of descriptions (geometry is tracked here: the model does not know sizes)

type svGen struct {
	r       *rand.Rand
	seq     int
	types   []svE
	tsize   map[string]int
	units   []svE
	enums   []svE
	esize   map[string]int
	attrs   []svAttr
	blds    []svBld
	nodes   []svNode
	maxNest int
}

func (g *svGen) id(prefix string) string {
	g.seq++
	// ids whose order differs from the creation order and from the name order
	return sprintf("%s%c%d", prefix, "zqmakx"[g.r.Intn(6)], g.seq)
}

func (g *svGen) desc() string {
	return pick(g.r, "", "", "about", "x-y_z", "Desc.1")
}

func (g *svGen) name(base string) string {
	g.seq++
	return sprintf("%s_%d", base, g.seq)
}

func (g *svGen) assign() []svAsg {
	var as []svAsg
	for _, a := range g.attrs {
		if g.r.Intn(4) != 0 {
			continue
		}
		switch a.K {
		case 0:
			as = append(as, svAsg{a.E.ID, pick(g.r, "hello", "a-b", "")})
		case 1:
			as = append(as, svAsg{a.E.ID, svI(g.r.Intn(200))})
		case 2:
			as = append(as, svAsg{a.E.ID, pick(g.r, "0.5", "2", "99.75")})
		default:
			as = append(as, svAsg{a.E.ID, a.Vals[g.r.Intn(len(a.Vals))]})
		}
	}
	g.r.Shuffle(len(as), func(i, j int) { as[i], as[j] = as[j], as[i] })
	return as
}

func (g *svGen) defs() {
	g.tsize, g.esize = map[string]int{}, map[string]int{}
	for _, sz := range []int{1, 2, 3, 4, 4, 7, 8, 8, 12, 16} {
		n := g.name("type")
		if g.r.Intn(3) == 0 {
			n = "same_type"
		}
		signed := g.r.Intn(3) == 0
		var pl string
		switch g.r.Intn(4) {
		case 0: // decimal
			pl = svPl("d", g.desc(), "k", "4", "sz", svI(sz), "sg", svB(signed), "mn", "0", "mx", svF(float64(int(1)<<sz-1)), "sc", pick(g.r, "0.5", "0.25", "2"), "of", pick(g.r, "0", "-40", "1.5"))
		case 1: // custom
			pl = svPl("d", g.desc(), "k", "1", "sz", svI(sz), "sg", svB(signed), "mn", "0", "mx", "100", "sc", "1", "of", "0")
		default: // integer
			pl = svPl("d", g.desc(), "k", "3", "sz", svI(sz), "sg", svB(signed), "mn", "-5", "mx", svF(float64(int(1)<<sz)), "sc", pick(g.r, "1", "2", "10"), "of", pick(g.r, "0", "5", "-5"))
		}
		e := svE{g.id("t"), n, pl}
		g.types = append(g.types, e)
		g.tsize[e.ID] = sz
	}
	fl := svE{g.id("t"), g.name("flag"), svPl("d", g.desc(), "k", "2", "sz", "1", "sg", "0", "mn", "0", "mx", "1", "sc", "1", "of", "0")}
	g.types = append(g.types, fl)
	g.tsize[fl.ID] = 1
	for i := 0; i < 3; i++ {
		n := g.name("unit")
		if i > 0 && g.r.Intn(2) == 0 {
			n = "same_unit"
		}
		g.units = append(g.units, svE{g.id("u"), n, svPl("d", g.desc(), "k", svI(1+g.r.Intn(4)), "sy", pick(g.r, "V", "degC", "rpm", "A"))})
	}
	for i := 0; i < 3; i++ {
		n := g.name("enum")
		if i > 0 && g.r.Intn(2) == 0 {
			n = "same_enum"
		}
		nv := g.r.Intn(4)
		maxIdx := 0
		var vs []string
		for j := 0; j < nv; j++ {
			idx := j*4 + g.r.Intn(4)
			if idx > maxIdx {
				maxIdx = idx
			}
			vs = append(vs, sprintf("V%d_%d:%d:%s", i, j, idx, g.desc()))
		}
		ms := 1
		if g.r.Intn(3) == 0 {
			ms = pick(g.r, 2, 4)
		}
		e := svE{g.id("e"), n, svPl("d", g.desc(), "ms", svI(ms), "vs", strings.Join(vs, "/"))}
		g.enums = append(g.enums, e)
		sz := acmelib.VerifCalcSizeFromValue(maxIdx)
		if ms > sz {
			sz = ms
		}
		g.esize[e.ID] = sz
	}
	an := func(base string) string {
		if g.r.Intn(4) == 0 {
			return "same_attr"
		}
		return g.name(base)
	}
	g.attrs = append(g.attrs,
		svAttr{E: svE{g.id("a"), an("astr"), svPl("d", g.desc(), "dv", "dflt")}, K: 0},
		svAttr{E: svE{g.id("a"), an("aint"), svPl("d", g.desc(), "dv", "5", "mn", "0", "mx", "1000", "hx", "0")}, K: 1},
		svAttr{E: svE{g.id("a"), an("ahex"), svPl("d", g.desc(), "dv", "1", "mn", "0", "mx", "1000", "hx", "1")}, K: 1},
		svAttr{E: svE{g.id("a"), an("aflt"), svPl("d", g.desc(), "dv", "1.5", "mn", "0", "mx", "100")}, K: 2},
		svAttr{E: svE{g.id("a"), an("aenm"), svPl("d", g.desc())}, K: 3, Vals: []string{"one", "two", "three"}, Def: "one"},
		svAttr{E: svE{g.id("a"), an("aenm"), svPl("d", g.desc())}, K: 3, Vals: []string{"hi", "lo"}, Def: "hi"},
	)
	nb := g.r.Intn(3)
	for i := 0; i < nb; i++ {
		n := g.name("builder")
		if i > 0 && g.r.Intn(2) == 0 {
			n = "same_builder"
		}
		var ops []svOp
		for k := g.r.Intn(5); k > 0; k-- {
			kind := g.r.Intn(4)
			op := svOp{K: kind, F: g.r.Intn(20), L: g.r.Intn(12)} // a length of 0 is legal (it places nothing; a bit mask of 0 bits clears everything)
			if kind == 0 {
				op.L = 2
			}
			ops = append(ops, op)
		}
		g.blds = append(g.blds, svBld{E: svE{g.id("c"), n, svPl("d", g.desc())}, Ops: ops})
	}
	nn := 2 + g.r.Intn(4)
	for i := 0; i < nn; i++ {
		n := g.name("node")
		g.nodes = append(g.nodes, svNode{E: svE{g.id("n"), n, svPl("d", g.desc())}, Nid: 4*i + g.r.Intn(3), Ifc: 1 + g.r.Intn(3), Asg: g.assign()})
	}
	// a node that is never attached may share its name with another node
	if g.r.Intn(2) == 0 {
		g.nodes = append(g.nodes, svNode{E: svE{g.id("n"), g.nodes[0].E.Name, svPl("d", g.desc())}, Nid: 4 * nn, Ifc: 1 + g.r.Intn(2), Asg: g.assign()})
	}
}

func (g *svGen) sigPl(gs int) string {
	kv := []string{"d", g.desc(), "st", svI(pick(g.r, 0, 0, 1, 4, 6)), "sv", pick(g.r, "0", "0", "1", "7")}
	if gs > 0 {
		kv = append(kv, "gs", svI(gs))
	}
	return svPl(kv...)
}

// leaf returns a standard or enum signal of size <= maxSize (nil if none fits)
func (g *svGen) leaf(maxSize int) (*svSig, int) {
	for try := 0; try < 20; try++ {
		if g.r.Intn(4) == 0 {
			e := g.enums[g.r.Intn(len(g.enums))]
			if g.esize[e.ID] <= maxSize {
				return &svSig{E: svE{g.id("s"), g.name("es"), g.sigPl(0)}, Asg: g.assign(), K: 2, Enum: e.ID}, g.esize[e.ID]
			}
			continue
		}
		t := g.types[g.r.Intn(len(g.types))]
		if g.tsize[t.ID] <= maxSize {
			s := &svSig{E: svE{g.id("s"), g.name("ss"), g.sigPl(0)}, Asg: g.assign(), K: 1, Type: t.ID}
			if g.r.Intn(2) == 0 {
				s.Unit = g.units[g.r.Intn(len(g.units))].ID
			}
			return s, g.tsize[t.ID]
		}
	}
	return nil, 0
}

// mux builds a multiplexer of total size <= maxSize (nil if there is no room)
func (g *svGen) mux(maxSize, depth int) (*svSig, int) {
	gc := pick(g.r, 1, 2, 2, 3, 4, 5)
	sel := acmelib.VerifCalcSizeFromValue(gc - 1)
	gs := maxSize - sel
	if gs < 2 {
		return nil, 0
	}
	if gs > 24 {
		gs = 8 + g.r.Intn(17)
	}
	m := &svSig{E: svE{g.id("s"), g.name("mux"), g.sigPl(gs)}, Asg: g.assign(), K: 3, Gc: gc}
	pos := 0
	// fixed children at the start of every group
	for nf := pick(g.r, 0, 0, 1, 1, 2); nf > 0; nf-- {
		if s, sz := g.leaf(min(4, gs-pos)); s != nil {
			m.Kids = append(m.Kids, svKid{Sig: s, Pos: pos, Fixed: true})
			pos += sz
		}
	}
	// room kept free at the end for children that live in several groups
	tail := 0
	var multi []svKid
	if gc >= 2 && g.r.Intn(2) == 0 && gs-pos >= 3 {
		for nm := 1 + g.r.Intn(2); nm > 0; nm-- {
			if s, sz := g.leaf(min(3, gs-pos-tail-1)); s != nil {
				tail += sz
				var grp []int
				for k := 0; k < gc; k++ {
					if g.r.Intn(2) == 0 {
						grp = append(grp, k)
					}
				}
				if len(grp) < 2 {
					grp = []int{0, gc - 1}
				}
				if g.r.Intn(5) == 0 {
					grp = nil
					for k := 0; k < gc; k++ {
						grp = append(grp, k)
					}
				}
				multi = append(multi, svKid{Sig: s, Pos: gs - tail, Grp: grp})
			}
		}
	}
	// empty groups come BEFORE populated ones with a fair chance
	emptyUntil := 0
	if gc >= 2 && g.r.Intn(2) == 0 {
		emptyUntil = 1 + g.r.Intn(gc-1)
	}
	for grp := 0; grp < gc; grp++ {
		if grp < emptyUntil || g.r.Intn(5) == 0 {
			continue
		}
		p := pos
		for p < gs-tail && g.r.Intn(4) != 0 {
			if depth > 1 && g.r.Intn(3) == 0 {
				if in, sz := g.mux(gs-tail-p, depth-1); in != nil {
					m.Kids = append(m.Kids, svKid{Sig: in, Pos: p, Grp: []int{grp}})
					p += sz
					continue
				}
			}
			s, sz := g.leaf(gs - tail - p)
			if s == nil {
				break
			}
			m.Kids = append(m.Kids, svKid{Sig: s, Pos: p, Grp: []int{grp}})
			p += sz
			if g.r.Intn(3) == 0 {
				p += g.r.Intn(3)
			}
		}
	}
	m.Kids = append(m.Kids, multi...)
	g.r.Shuffle(len(m.Kids), func(i, j int) { m.Kids[i], m.Kids[j] = m.Kids[j], m.Kids[i] })
	for i := range m.Kids {
		if m.Kids[i].Grp == nil {
			m.Kids[i].Grp = []int{}
		}
	}
	return m, gs + sel
}

func (g *svGen) message(mid int) svMsg {
	size := pick(g.r, 8, 8, 8, 4, 2, 1, 0, 6)
	m := svMsg{E: svE{g.id("m"), g.name("msg"), svPl("d", g.desc(), "sz", svI(size), "pr", svI(1+g.r.Intn(4)), "bo", svI(1+g.r.Intn(2)),
		"ct", svI(pick(g.r, 0, 10, 100)), "st", svI(g.r.Intn(5)), "dt", svI(pick(g.r, 0, 0, 5)), "sd", svI(pick(g.r, 0, 0, 20)))},
		Asg: g.assign(), Mid: mid, Static: -1}
	capBits := size * 8
	pos := 0
	for pos < capBits && g.r.Intn(6) != 0 {
		if g.maxNest > 0 && g.r.Intn(3) == 0 {
			if mx, sz := g.mux(capBits-pos, g.maxNest); mx != nil {
				m.Sigs = append(m.Sigs, svTop{mx, pos})
				pos += sz
				continue
			}
		}
		s, sz := g.leaf(capBits - pos)
		if s == nil {
			break
		}
		m.Sigs = append(m.Sigs, svTop{s, pos})
		pos += sz
		if g.r.Intn(3) == 0 {
			pos += g.r.Intn(4)
		}
	}
	g.r.Shuffle(len(m.Sigs), func(i, j int) { m.Sigs[i], m.Sigs[j] = m.Sigs[j], m.Sigs[i] })
	return m
}

func svGenNet(r *rand.Rand, maxNest int) *svNet {
	g := &svGen{r: r, maxNest: maxNest}
	g.defs()
	n := &svNet{E: svE{g.id("N"), g.name("net"), svPl("d", g.desc())}}
	nBuses := pick(r, 1, 2, 2, 3)
	attached := map[string]bool{} // node/num
	msgSeq := 0
	for b := 0; b < nBuses; b++ {
		bn := g.name("bus")
		bus := svBus{E: svE{g.id("b"), bn, svPl("d", g.desc(), "br", svI(pick(r, 0, 125000, 500000)), "ty", "1")}, Asg: g.assign()}
		if len(g.blds) > 0 && r.Intn(2) == 0 {
			bus.Builder = g.blds[r.Intn(len(g.blds))].E.ID
		}
		namesOnBus := map[string]bool{}
		for _, nd := range g.nodes {
			if r.Intn(4) == 0 || namesOnBus[nd.E.Name] {
				continue
			}
			// a free interface of the node
			var free []int
			for k := 0; k < nd.Ifc; k++ {
				if !attached[sprintf("%s/%d", nd.E.ID, k)] {
					free = append(free, k)
				}
			}
			if len(free) == 0 {
				continue
			}
			num := free[r.Intn(len(free))]
			attached[sprintf("%s/%d", nd.E.ID, num)] = true
			namesOnBus[nd.E.Name] = true
			ifc := svIface{Node: nd.E.ID, Num: num}
			for k := r.Intn(4); k > 0; k-- {
				msgSeq++
				m := g.message(msgSeq)
				if r.Intn(4) == 0 {
					m.Static = 0x100 + msgSeq
					m.Mid = m.Static
				}
				// receivers: interfaces of other nodes (attached anywhere or not at all)
				for _, rn := range g.nodes {
					if rn.E.ID != nd.E.ID && r.Intn(4) == 0 {
						m.Recvs = append(m.Recvs, svRecv{rn.E.ID, r.Intn(rn.Ifc)})
					}
				}
				ifc.Msgs = append(ifc.Msgs, m)
			}
			bus.Ifaces = append(bus.Ifaces, ifc)
		}
		r.Shuffle(len(bus.Ifaces), func(i, j int) { bus.Ifaces[i], bus.Ifaces[j] = bus.Ifaces[j], bus.Ifaces[i] })
		n.Buses = append(n.Buses, bus)
	}
	// only the definitions the network reaches are part of it
	used := map[string]bool{}
	var useAsg func(as []svAsg)
	useAsg = func(as []svAsg) {
		for _, a := range as {
			used[a.Attr] = true
		}
	}
	var useSig func(s *svSig)
	useSig = func(s *svSig) {
		useAsg(s.Asg)
		used[s.Type], used[s.Unit], used[s.Enum] = true, true, true
		for _, k := range s.Kids {
			useSig(k.Sig)
		}
	}
	for _, b := range n.Buses {
		used[b.Builder] = true
		useAsg(b.Asg)
		for _, i := range b.Ifaces {
			used[i.Node] = true
			for _, m := range i.Msgs {
				useAsg(m.Asg)
				for _, s := range m.Sigs {
					useSig(s.Sig)
				}
				for _, rc := range m.Recvs {
					used[rc.Node] = true
				}
			}
		}
	}
	for _, x := range g.nodes {
		if used[x.E.ID] {
			n.Nodes = append(n.Nodes, x)
			useAsg(x.Asg)
		}
	}
	for _, x := range g.blds {
		if used[x.E.ID] {
			n.Builders = append(n.Builders, x)
		}
	}
	for _, x := range g.types {
		if used[x.ID] {
			n.Types = append(n.Types, x)
		}
	}
	for _, x := range g.units {
		if used[x.ID] {
			n.Units = append(n.Units, x)
		}
	}
	for _, x := range g.enums {
		if used[x.ID] {
			n.Enums = append(n.Enums, x)
		}
	}
	for _, x := range g.attrs {
		if used[x.E.ID] {
			n.Attrs = append(n.Attrs, x)
		}
	}
	r.Shuffle(len(n.Types), func(i, j int) { n.Types[i], n.Types[j] = n.Types[j], n.Types[i] })
	r.Shuffle(len(n.Attrs), func(i, j int) { n.Attrs[i], n.Attrs[j] = n.Attrs[j], n.Attrs[i] })
	r.Shuffle(len(n.Nodes), func(i, j int) { n.Nodes[i], n.Nodes[j] = n.Nodes[j], n.Nodes[i] })
	return n
}

// ---------------------------------------------------------------------------------------------
// description → network, through the public API

type svBuilt struct {
	net   *acmelib.Network
	label map[string]string // real entity id → label of the description
}

func svMust(err error) {
	if err != nil {
		panic("sv build: " + err.Error())
	}
}

func svBuild(d *svNet) *svBuilt {
	b := &svBuilt{label: map[string]string{}}
	reg := func(real acmelib.EntityID, lab string) { b.label[string(real)] = lab }
	desc := func(x interface{ SetDesc(string) }, pl map[string]string) {
		if pl["d"] != "" {
			x.SetDesc(pl["d"])
		}
	}
	types := map[string]*acmelib.SignalType{}
	for _, t := range d.Types {
		pl := svParsePl(t.Pl)
		var st *acmelib.SignalType
		var err error
		sz, sg := svAtoi(pl["sz"]), pl["sg"] == "1"
		switch pl["k"] {
		case "1":
			st, err = acmelib.NewCustomSignalType(t.Name, sz, sg, svAtof(pl["mn"]), svAtof(pl["mx"]), svAtof(pl["sc"]), svAtof(pl["of"]))
		case "2":
			st = acmelib.NewFlagSignalType(t.Name)
		case "3":
			st, err = acmelib.NewIntegerSignalType(t.Name, sz, sg)
		default:
			st, err = acmelib.NewDecimalSignalType(t.Name, sz, sg)
		}
		svMust(err)
		st.SetMin(svAtof(pl["mn"]))
		st.SetMax(svAtof(pl["mx"]))
		st.SetScale(svAtof(pl["sc"]))
		st.SetOffset(svAtof(pl["of"]))
		desc(st, pl)
		types[t.ID] = st
		reg(st.EntityID(), t.ID)
	}
	units := map[string]*acmelib.SignalUnit{}
	for _, u := range d.Units {
		pl := svParsePl(u.Pl)
		su := acmelib.NewSignalUnit(u.Name, acmelib.SignalUnitKind(svAtoi(pl["k"])-1), pl["sy"])
		desc(su, pl)
		units[u.ID] = su
		reg(su.EntityID(), u.ID)
	}
	enums := map[string]*acmelib.SignalEnum{}
	for _, e := range d.Enums {
		pl := svParsePl(e.Pl)
		se := acmelib.NewSignalEnum(e.Name)
		if pl["vs"] != "" {
			for _, v := range strings.Split(pl["vs"], "/") {
				f := strings.Split(v, ":")
				ev := acmelib.NewSignalEnumValue(f[0], svAtoi(f[1]))
				if f[2] != "" {
					ev.SetDesc(f[2])
				}
				svMust(se.AddValue(ev))
			}
		}
		if ms := svAtoi(pl["ms"]); ms != 1 {
			svMust(se.SetMinSize(ms))
		}
		desc(se, pl)
		enums[e.ID] = se
		reg(se.EntityID(), e.ID)
	}
	attrs := map[string]acmelib.Attribute{}
	akind := map[string]int{}
	for _, a := range d.Attrs {
		pl := svParsePl(a.E.Pl)
		var att acmelib.Attribute
		switch a.K {
		case 0:
			x := acmelib.NewStringAttribute(a.E.Name, pl["dv"])
			desc(x, pl)
			att = x
		case 1:
			x, err := acmelib.NewIntegerAttribute(a.E.Name, svAtoi(pl["dv"]), svAtoi(pl["mn"]), svAtoi(pl["mx"]))
			svMust(err)
			if pl["hx"] == "1" {
				x.SetFormatHex()
			}
			desc(x, pl)
			att = x
		case 2:
			x, err := acmelib.NewFloatAttribute(a.E.Name, svAtof(pl["dv"]), svAtof(pl["mn"]), svAtof(pl["mx"]))
			svMust(err)
			desc(x, pl)
			att = x
		default:
			if len(a.Vals) == 0 || a.Vals[0] != a.Def {
				panic("sv build: the public API makes the first value the default")
			}
			x, err := acmelib.NewEnumAttribute(a.E.Name, a.Vals...)
			svMust(err)
			desc(x, pl)
			att = x
		}
		attrs[a.E.ID] = att
		akind[a.E.ID] = a.K
		reg(att.EntityID(), a.E.ID)
	}
	assign := func(x interface {
		AssignAttribute(acmelib.Attribute, any) error
	}, as []svAsg) {
		for _, a := range as {
			switch akind[a.Attr] {
			case 1:
				svMust(x.AssignAttribute(attrs[a.Attr], svAtoi(a.Val)))
			case 2:
				svMust(x.AssignAttribute(attrs[a.Attr], svAtof(a.Val)))
			default:
				svMust(x.AssignAttribute(attrs[a.Attr], a.Val))
			}
		}
	}
	blds := map[string]*acmelib.CANIDBuilder{}
	for _, c := range d.Builders {
		cb := acmelib.NewCANIDBuilder(c.E.Name)
		for _, o := range c.Ops {
			switch o.K {
			case 0:
				if o.L != 2 {
					panic("sv build: priority op has length 2")
				}
				cb.UseMessagePriority(o.F)
			case 1:
				cb.UseMessageID(o.F, o.L)
			case 2:
				cb.UseNodeID(o.F, o.L)
			default:
				cb.UseBitMask(o.F, o.L)
			}
		}
		desc(cb, svParsePl(c.E.Pl))
		blds[c.E.ID] = cb
		reg(cb.EntityID(), c.E.ID)
	}
	nodes := map[string]*acmelib.Node{}
	for _, x := range d.Nodes {
		nd := acmelib.NewNode(x.E.Name, acmelib.NodeID(x.Nid), x.Ifc)
		desc(nd, svParsePl(x.E.Pl))
		assign(nd, x.Asg)
		nodes[x.E.ID] = nd
		reg(nd.EntityID(), x.E.ID)
	}
	var mkSig func(s *svSig) acmelib.Signal
	mkSig = func(s *svSig) acmelib.Signal {
		pl := svParsePl(s.E.Pl)
		var sig acmelib.Signal
		switch s.K {
		case 1:
			x, err := acmelib.NewStandardSignal(s.E.Name, types[s.Type])
			svMust(err)
			if s.Unit != "" {
				x.SetUnit(units[s.Unit])
			}
			desc(x, pl)
			sig = x
		case 2:
			x, err := acmelib.NewEnumSignal(s.E.Name, enums[s.Enum])
			svMust(err)
			desc(x, pl)
			sig = x
		default:
			x, err := acmelib.NewMultiplexerSignal(s.E.Name, s.Gc, svAtoi(pl["gs"]))
			svMust(err)
			for _, k := range s.Kids {
				c := mkSig(k.Sig)
				if k.Fixed {
					svMust(x.InsertSignal(c, k.Pos))
				} else {
					svMust(x.InsertSignal(c, k.Pos, k.Grp...))
				}
			}
			desc(x, pl)
			sig = x
		}
		sig.SetSendType(acmelib.SignalSendType(svAtoi(pl["st"])))
		sig.SetStartValue(svAtof(pl["sv"]))
		assign(sig, s.Asg)
		reg(sig.EntityID(), s.E.ID)
		return sig
	}
	npl := svParsePl(d.E.Pl)
	b.net = acmelib.NewNetwork(d.E.Name)
	desc(b.net, npl)
	reg(b.net.EntityID(), d.E.ID)
	type pend struct {
		m  *acmelib.Message
		rs []svRecv
	}
	var pending []pend
	for _, bd := range d.Buses {
		pl := svParsePl(bd.E.Pl)
		bus := acmelib.NewBus(bd.E.Name)
		bus.SetBaudrate(svAtoi(pl["br"]))
		desc(bus, pl)
		if bd.Builder != "" {
			bus.SetCANIDBuilder(blds[bd.Builder])
		}
		assign(bus, bd.Asg)
		reg(bus.EntityID(), bd.E.ID)
		svMust(b.net.AddBus(bus))
		for _, id := range bd.Ifaces {
			ni, err := nodes[id.Node].GetInterface(id.Num)
			svMust(err)
			svMust(bus.AddNodeInterface(ni))
			for _, md := range id.Msgs {
				mpl := svParsePl(md.E.Pl)
				mid := md.Mid
				if md.Static >= 0 {
					mid = 1
				}
				m := acmelib.NewMessage(md.E.Name, acmelib.MessageID(mid), svAtoi(mpl["sz"]))
				desc(m, mpl)
				m.SetPriority(acmelib.MessagePriority(svAtoi(mpl["pr"]) - 1))
				m.SetByteOrder(acmelib.MessageByteOrder(svAtoi(mpl["bo"]) - 1))
				m.SetCycleTime(svAtoi(mpl["ct"]))
				m.SetSendType(acmelib.MessageSendType(svAtoi(mpl["st"])))
				m.SetDelayTime(svAtoi(mpl["dt"]))
				m.SetStartDelayTime(svAtoi(mpl["sd"]))
				assign(m, md.Asg)
				for _, sd := range md.Sigs {
					svMust(m.InsertSignal(mkSig(sd.Sig), sd.Pos))
				}
				if md.Static >= 0 {
					svMust(m.SetStaticCANID(acmelib.CANID(md.Static)))
				}
				svMust(ni.AddSentMessage(m))
				reg(m.EntityID(), md.E.ID)
				pending = append(pending, pend{m, md.Recvs})
			}
		}
	}
	for _, p := range pending {
		for _, rc := range p.rs {
			ni, err := nodes[rc.Node].GetInterface(rc.Num)
			svMust(err)
			svMust(p.m.AddReceiver(ni))
		}
	}
	return b
}

// ---------------------------------------------------------------------------------------------
// protobuf tree → pnet JSON

type svLab func(real string) string

func svPEnt(e *acmelibv1.Entity, lab svLab, pl string) svE {
	return svE{ID: lab(e.GetEntityId()), Name: e.GetName(), Pl: pl}
}

func svPAsgs(as []*acmelibv1.AttributeAssignment, lab svLab) []svpAsg {
	res := []svpAsg{}
	for _, a := range as {
		x := svpAsg{Owner: lab(a.GetEntityId()), Attr: lab(a.GetAttributeEntityId()), Tag: 3}
		switch v := a.Value.(type) {
		case *acmelibv1.AttributeAssignment_ValueString:
			x.Tag, x.Val = 0, v.ValueString
		case *acmelibv1.AttributeAssignment_ValueInt:
			x.Tag, x.Val = 1, svI(int(v.ValueInt))
		case *acmelibv1.AttributeAssignment_ValueDouble:
			x.Tag, x.Val = 2, svF(v.ValueDouble)
		}
		res = append(res, x)
	}
	return res
}

func svPRefs(p *acmelibv1.SignalPayload, lab svLab) []svpRef {
	res := []svpRef{}
	for _, r := range p.GetRefs() {
		res = append(res, svpRef{lab(r.GetSignalEntityId()), int(r.GetRelStartBit())})
	}
	return res
}

func svPSig(s *acmelibv1.Signal, lab svLab) *svpSig {
	kv := []string{"d", s.GetEntity().GetDesc(), "st", svI(int(s.GetSendType())), "sv", svF(s.GetStartValue())}
	x := &svpSig{Asg: svPAsgs(s.GetAttributeAssignments(), lab), Kind: int(s.GetKind()), Sigs: []*svpSig{}, Fixed: []string{}, Groups: [][]svpRef{}}
	switch b := s.Signal.(type) {
	case *acmelibv1.Signal_Standard:
		x.Body = 1
		x.Type, x.Unit = lab(b.Standard.GetTypeEntityId()), lab(b.Standard.GetUnitEntityId())
	case *acmelibv1.Signal_Enum:
		x.Body = 2
		x.Enum = lab(b.Enum.GetEnumEntityId())
	case *acmelibv1.Signal_Multiplexer:
		x.Body = 3
		x.Gc = int(b.Multiplexer.GetGroupCount())
		kv = append(kv, "gs", svI(int(b.Multiplexer.GetGroupSize())))
		for _, c := range b.Multiplexer.GetSignals() {
			x.Sigs = append(x.Sigs, svPSig(c, lab))
		}
		for _, f := range b.Multiplexer.GetFixedSignalEntityIds() {
			x.Fixed = append(x.Fixed, lab(f))
		}
		for _, g := range b.Multiplexer.GetGroups() {
			x.Groups = append(x.Groups, svPRefs(g, lab))
		}
	}
	x.E = svPEnt(s.GetEntity(), lab, svPl(kv...))
	return x
}

func svPMsg(m *acmelibv1.Message, lab svLab) svpMsg {
	x := svpMsg{
		E: svPEnt(m.GetEntity(), lab, svPl("d", m.GetEntity().GetDesc(), "sz", svI(int(m.GetSizeByte())), "pr", svI(int(m.GetPriority())), "bo", svI(int(m.GetByteOrder())),
			"ct", svI(int(m.GetCycleTime())), "st", svI(int(m.GetSendType())), "dt", svI(int(m.GetDelayTime())), "sd", svI(int(m.GetStartDelayTime())))),
		Asg: svPAsgs(m.GetAttributeAssignments(), lab), Mid: int(m.GetMessageId()), Sval: int(m.GetStaticCanId()), Hs: m.GetHasStaticCanId(),
		Sigs: []*svpSig{}, Refs: svPRefs(m.GetPayload(), lab), Recvs: []svRecv{},
	}
	for _, s := range m.GetSignals() {
		x.Sigs = append(x.Sigs, svPSig(s, lab))
	}
	for _, r := range m.GetReceivers() {
		x.Recvs = append(x.Recvs, svRecv{lab(r.GetNodeEntityId()), int(r.GetNodeInterfaceNumber())})
	}
	return x
}

func svPNet(p *acmelibv1.Network, lab svLab) *svpNet {
	n := &svpNet{E: svPEnt(p.GetEntity(), lab, svPl("d", p.GetEntity().GetDesc())),
		Buses: []svpBus{}, Builders: []svBld{}, Nodes: []svpNode{}, Types: []svE{}, Units: []svE{}, Enums: []svE{}, Attrs: []svpAttr{}}
	for _, b := range p.GetBuses() {
		x := svpBus{E: svPEnt(b.GetEntity(), lab, svPl("d", b.GetEntity().GetDesc(), "br", svI(int(b.GetBaudrate())), "ty", svI(int(b.GetType())))),
			Builder: lab(b.GetCanidBuilderEntityId()), Ifaces: []svpIface{}, Asg: svPAsgs(b.GetAttributeAssignments(), lab)}
		for _, i := range b.GetNodeInterfaces() {
			y := svpIface{Node: lab(i.GetNodeEntityId()), Num: int(i.GetNumber()), Msgs: []svpMsg{}}
			for _, m := range i.GetMessages() {
				y.Msgs = append(y.Msgs, svPMsg(m, lab))
			}
			x.Ifaces = append(x.Ifaces, y)
		}
		n.Buses = append(n.Buses, x)
	}
	for _, c := range p.GetCanidBuilders() {
		x := svBld{E: svPEnt(c.GetEntity(), lab, svPl("d", c.GetEntity().GetDesc())), Ops: []svOp{}}
		for _, o := range c.GetOperations() {
			x.Ops = append(x.Ops, svOp{int(o.GetKind()), int(o.GetFrom()), int(o.GetLen())})
		}
		n.Builders = append(n.Builders, x)
	}
	for _, nd := range p.GetNodes() {
		n.Nodes = append(n.Nodes, svpNode{E: svPEnt(nd.GetEntity(), lab, svPl("d", nd.GetEntity().GetDesc())), Nid: int(nd.GetNodeId()), Ifc: int(nd.GetInterfaceCount()),
			Asg: svPAsgs(nd.GetAttributeAssignments(), lab)})
	}
	for _, t := range p.GetSignalTypes() {
		n.Types = append(n.Types, svPEnt(t.GetEntity(), lab, svPl("d", t.GetEntity().GetDesc(), "k", svI(int(t.GetKind())), "sz", svI(int(t.GetSize())), "sg", svB(t.GetSigned()),
			"mn", svF(t.GetMin()), "mx", svF(t.GetMax()), "sc", svF(t.GetScale()), "of", svF(t.GetOffset()))))
	}
	for _, u := range p.GetSignalUnits() {
		n.Units = append(n.Units, svPEnt(u.GetEntity(), lab, svPl("d", u.GetEntity().GetDesc(), "k", svI(int(u.GetKind())), "sy", u.GetSymbol())))
	}
	for _, e := range p.GetSignalEnums() {
		var vs []string
		for _, v := range e.GetValues() {
			vs = append(vs, sprintf("%s:%d:%s", v.GetEntity().GetName(), v.GetIndex(), v.GetEntity().GetDesc()))
		}
		n.Enums = append(n.Enums, svPEnt(e.GetEntity(), lab, svPl("d", e.GetEntity().GetDesc(), "ms", svI(int(e.GetMinSize())), "vs", strings.Join(vs, "/"))))
	}
	for _, a := range p.GetAttributes() {
		x := svpAttr{Tag: int(a.GetType()), Vals: []string{}}
		kv := []string{"d", a.GetEntity().GetDesc()}
		switch b := a.Attribute.(type) {
		case *acmelibv1.Attribute_StringAttribute:
			x.Body = 1
			kv = append(kv, "dv", b.StringAttribute.GetDefValue())
		case *acmelibv1.Attribute_IntegerAttribute:
			x.Body = 2
			kv = append(kv, "dv", svI(int(b.IntegerAttribute.GetDefValue())), "mn", svI(int(b.IntegerAttribute.GetMin())), "mx", svI(int(b.IntegerAttribute.GetMax())), "hx", svB(b.IntegerAttribute.GetIsHexFormat()))
		case *acmelibv1.Attribute_FloatAttribute:
			x.Body = 3
			kv = append(kv, "dv", svF(b.FloatAttribute.GetDefValue()), "mn", svF(b.FloatAttribute.GetMin()), "mx", svF(b.FloatAttribute.GetMax()))
		case *acmelibv1.Attribute_EnumAttribute:
			x.Body = 4
			x.Vals = append(x.Vals, b.EnumAttribute.GetValues()...)
			x.Def = b.EnumAttribute.GetDefValue()
		}
		x.E = svPEnt(a.GetEntity(), lab, svPl(kv...))
		n.Attrs = append(n.Attrs, x)
	}
	return n
}

// svTieFix lists every run of equal primary sort keys in label order (the code orders such a
// run by the random entity ids; `realOf` gives them back for the check).
func svTieFix[T any](xs []T, key func(T) string, lab func(T) string) {
	sort.SliceStable(xs, func(i, j int) bool {
		if key(xs[i]) != key(xs[j]) {
			return false // keep the order of the code between different keys
		}
		return lab(xs[i]) < lab(xs[j])
	})
}

// svRunsOK reports whether every run of equal keys is consecutive (a stable re-sort inside the
// runs is then exactly the order by (key, label)).
func svSortedBy[T any](xs []T, less func(a, b T) bool) bool {
	for i := 0; i+1 < len(xs); i++ {
		if less(xs[i+1], xs[i]) {
			return false
		}
	}
	return true
}

// ---------------------------------------------------------------------------------------------
// pnet JSON → protobuf tree

func svQEnt(e svE, kind acmelibv1.EntityKind) *acmelibv1.Entity {
	return &acmelibv1.Entity{EntityId: e.ID, Name: e.Name, Desc: svParsePl(e.Pl)["d"], EntityKind: kind}
}

func svQAsgs(as []svpAsg) []*acmelibv1.AttributeAssignment {
	var res []*acmelibv1.AttributeAssignment
	for _, a := range as {
		x := &acmelibv1.AttributeAssignment{EntityId: a.Owner, AttributeEntityId: a.Attr}
		switch a.Tag {
		case 0:
			x.Value = &acmelibv1.AttributeAssignment_ValueString{ValueString: a.Val}
		case 1:
			x.Value = &acmelibv1.AttributeAssignment_ValueInt{ValueInt: int32(svAtoi(a.Val))}
		case 2:
			x.Value = &acmelibv1.AttributeAssignment_ValueDouble{ValueDouble: svAtof(a.Val)}
		}
		res = append(res, x)
	}
	return res
}

func svQRefs(rs []svpRef) *acmelibv1.SignalPayload {
	p := &acmelibv1.SignalPayload{}
	for _, r := range rs {
		p.Refs = append(p.Refs, &acmelibv1.SignalPayloadRef{SignalEntityId: r.ID, RelStartBit: uint32(r.Pos)})
	}
	return p
}

func svQSig(s *svpSig) *acmelibv1.Signal {
	pl := svParsePl(s.E.Pl)
	x := &acmelibv1.Signal{Entity: svQEnt(s.E, acmelibv1.EntityKind_ENTITY_KIND_SIGNAL), Kind: acmelibv1.SignalKind(s.Kind),
		SendType: acmelibv1.SignalSendType(svAtoi(pl["st"])), StartValue: svAtof(pl["sv"]), AttributeAssignments: svQAsgs(s.Asg)}
	switch s.Body {
	case 1:
		x.Signal = &acmelibv1.Signal_Standard{Standard: &acmelibv1.StandardSignal{TypeEntityId: s.Type, UnitEntityId: s.Unit}}
	case 2:
		x.Signal = &acmelibv1.Signal_Enum{Enum: &acmelibv1.EnumSignal{EnumEntityId: s.Enum}}
	case 3:
		m := &acmelibv1.MultiplexerSignal{GroupCount: uint32(s.Gc), GroupSize: uint32(svAtoi(pl["gs"])), FixedSignalEntityIds: s.Fixed}
		for _, c := range s.Sigs {
			m.Signals = append(m.Signals, svQSig(c))
		}
		for _, g := range s.Groups {
			m.Groups = append(m.Groups, svQRefs(g))
		}
		x.Signal = &acmelibv1.Signal_Multiplexer{Multiplexer: m}
	}
	return x
}

func svQNet(n *svpNet) *acmelibv1.Network {
	p := &acmelibv1.Network{Entity: svQEnt(n.E, acmelibv1.EntityKind_ENTITY_KIND_NETWORK)}
	for _, b := range n.Buses {
		pl := svParsePl(b.E.Pl)
		x := &acmelibv1.Bus{Entity: svQEnt(b.E, acmelibv1.EntityKind_ENTITY_KIND_BUS), Baudrate: uint32(svAtoi(pl["br"])), Type: acmelibv1.BusType(svAtoi(pl["ty"])),
			CanidBuilderEntityId: b.Builder, AttributeAssignments: svQAsgs(b.Asg)}
		for _, i := range b.Ifaces {
			y := &acmelibv1.NodeInterface{Number: int32(i.Num), NodeEntityId: i.Node}
			for _, m := range i.Msgs {
				mpl := svParsePl(m.E.Pl)
				z := &acmelibv1.Message{Entity: svQEnt(m.E, acmelibv1.EntityKind_ENTITY_KIND_MESSAGE), Payload: svQRefs(m.Refs),
					SizeByte: uint32(svAtoi(mpl["sz"])), MessageId: uint32(m.Mid), StaticCanId: uint32(m.Sval), HasStaticCanId: m.Hs,
					Priority: acmelibv1.MessagePriority(svAtoi(mpl["pr"])), ByteOrder: acmelibv1.MessageByteOrder(svAtoi(mpl["bo"])),
					CycleTime: uint32(svAtoi(mpl["ct"])), SendType: acmelibv1.MessageSendType(svAtoi(mpl["st"])),
					DelayTime: uint32(svAtoi(mpl["dt"])), StartDelayTime: uint32(svAtoi(mpl["sd"])), AttributeAssignments: svQAsgs(m.Asg)}
				for _, s := range m.Sigs {
					z.Signals = append(z.Signals, svQSig(s))
				}
				for _, r := range m.Recvs {
					z.Receivers = append(z.Receivers, &acmelibv1.MessageReceiver{NodeEntityId: r.Node, NodeInterfaceNumber: uint32(r.Num)})
				}
				y.Messages = append(y.Messages, z)
			}
			x.NodeInterfaces = append(x.NodeInterfaces, y)
		}
		p.Buses = append(p.Buses, x)
	}
	for _, c := range n.Builders {
		x := &acmelibv1.CANIDBuilder{Entity: svQEnt(c.E, acmelibv1.EntityKind_ENTITY_KIND_CANID_BUILDER)}
		for _, o := range c.Ops {
			x.Operations = append(x.Operations, &acmelibv1.CANIDBuilderOp{Kind: acmelibv1.CANIDBuilderOpKind(o.K), From: uint32(o.F), Len: uint32(o.L)})
		}
		p.CanidBuilders = append(p.CanidBuilders, x)
	}
	for _, nd := range n.Nodes {
		p.Nodes = append(p.Nodes, &acmelibv1.Node{Entity: svQEnt(nd.E, acmelibv1.EntityKind_ENTITY_KIND_NODE), NodeId: uint32(nd.Nid), InterfaceCount: uint32(nd.Ifc),
			AttributeAssignments: svQAsgs(nd.Asg)})
	}
	for _, t := range n.Types {
		pl := svParsePl(t.Pl)
		p.SignalTypes = append(p.SignalTypes, &acmelibv1.SignalType{Entity: svQEnt(t, acmelibv1.EntityKind_ENTITY_KIND_SIGNAL_TYPE), Kind: acmelibv1.SignalTypeKind(svAtoi(pl["k"])),
			Size: uint32(svAtoi(pl["sz"])), Signed: pl["sg"] == "1", Min: svAtof(pl["mn"]), Max: svAtof(pl["mx"]), Scale: svAtof(pl["sc"]), Offset: svAtof(pl["of"])})
	}
	for _, u := range n.Units {
		pl := svParsePl(u.Pl)
		p.SignalUnits = append(p.SignalUnits, &acmelibv1.SignalUnit{Entity: svQEnt(u, acmelibv1.EntityKind_ENTITY_KIND_SIGNAL_UNIT), Kind: acmelibv1.SignalUnitKind(svAtoi(pl["k"])), Symbol: pl["sy"]})
	}
	for _, e := range n.Enums {
		pl := svParsePl(e.Pl)
		x := &acmelibv1.SignalEnum{Entity: svQEnt(e, acmelibv1.EntityKind_ENTITY_KIND_SIGNAL_ENUM), MinSize: uint32(svAtoi(pl["ms"]))}
		if pl["vs"] != "" {
			for i, v := range strings.Split(pl["vs"], "/") {
				f := strings.Split(v, ":")
				x.Values = append(x.Values, &acmelibv1.SignalEnumValue{
					Entity: &acmelibv1.Entity{EntityId: sprintf("%s_v%d", e.ID, i), Name: f[0], Desc: f[2], EntityKind: acmelibv1.EntityKind_ENTITY_KIND_SIGNAL_ENUM_VALUE},
					Index:  uint32(svAtoi(f[1]))})
			}
		}
		p.SignalEnums = append(p.SignalEnums, x)
	}
	for _, a := range n.Attrs {
		pl := svParsePl(a.E.Pl)
		x := &acmelibv1.Attribute{Entity: svQEnt(a.E, acmelibv1.EntityKind_ENTITY_KIND_ATTRIBUTE), Type: acmelibv1.AttributeType(a.Tag)}
		switch a.Body {
		case 1:
			x.Attribute = &acmelibv1.Attribute_StringAttribute{StringAttribute: &acmelibv1.StringAttribute{DefValue: pl["dv"]}}
		case 2:
			x.Attribute = &acmelibv1.Attribute_IntegerAttribute{IntegerAttribute: &acmelibv1.IntegerAttribute{DefValue: int32(svAtoi(pl["dv"])), Min: int32(svAtoi(pl["mn"])), Max: int32(svAtoi(pl["mx"])), IsHexFormat: pl["hx"] == "1"}}
		case 3:
			x.Attribute = &acmelibv1.Attribute_FloatAttribute{FloatAttribute: &acmelibv1.FloatAttribute{DefValue: svAtof(pl["dv"]), Min: svAtof(pl["mn"]), Max: svAtof(pl["mx"])}}
		case 4:
			x.Attribute = &acmelibv1.Attribute_EnumAttribute{EnumAttribute: &acmelibv1.EnumAttribute{DefValue: a.Def, Values: a.Vals}}
		}
		p.Attributes = append(p.Attributes, x)
	}
	return p
}

// ---------------------------------------------------------------------------------------------
// loaded network → net JSON, through the public getters

func svFixedIDs(mux *acmelib.MultiplexerSignal) map[string]bool {
	res := map[string]bool{}
	f := reflect.ValueOf(mux).Elem().FieldByName("fixedSignals")
	if !f.IsValid() || f.IsNil() {
		return res
	}
	m := f.Elem().FieldByName("m")
	for _, k := range m.MapKeys() {
		res[k.String()] = true
	}
	return res
}

func svIsDefBuilder(bus *acmelib.Bus) bool {
	return reflect.ValueOf(bus).Elem().FieldByName("isDefCANIDBuilder").Bool()
}

type svWalk struct {
	types map[string]*acmelib.SignalType
	units map[string]*acmelib.SignalUnit
	enums map[string]*acmelib.SignalEnum
	attrs map[string]acmelib.Attribute
	nodes map[string]*acmelib.Node
	blds  map[string]*acmelib.CANIDBuilder
}

func svValStr(v any) string {
	switch x := v.(type) {
	case string:
		return x
	case int:
		return svI(x)
	case float64:
		return svF(x)
	}
	return sprintf("%v", v)
}

func (w *svWalk) asgs(as []*acmelib.AttributeAssignment) []svAsg {
	res := []svAsg{}
	for _, a := range as {
		att := a.Attribute()
		w.attrs[string(att.EntityID())] = att
		res = append(res, svAsg{string(att.EntityID()), svValStr(a.Value())})
	}
	return res
}

func (w *svWalk) sig(s acmelib.Signal) *svSig {
	kv := []string{"d", s.Desc(), "st", svI(int(s.SendType())), "sv", svF(s.StartValue())}
	x := &svSig{Asg: w.asgs(s.AttributeAssignments()), Kids: []svKid{}}
	switch s.Kind() {
	case acmelib.SignalKindStandard:
		ss, _ := s.ToStandard()
		x.K = 1
		x.Type = string(ss.Type().EntityID())
		w.types[x.Type] = ss.Type()
		if u := ss.Unit(); u != nil {
			x.Unit = string(u.EntityID())
			w.units[x.Unit] = u
		}
	case acmelib.SignalKindEnum:
		es, _ := s.ToEnum()
		x.K = 2
		x.Enum = string(es.Enum().EntityID())
		w.enums[x.Enum] = es.Enum()
	case acmelib.SignalKindMultiplexer:
		ms, _ := s.ToMultiplexer()
		x.K = 3
		x.Gc = ms.GroupCount()
		kv = append(kv, "gs", svI(ms.GroupSize()))
		fixed := svFixedIDs(ms)
		// occurrences group by group (a fixed child is met in group 0), the LAST one of a child counts
		type occ struct {
			s acmelib.Signal
		}
		var occs []acmelib.Signal
		grps := map[string][]int{}
		for k, g := range ms.GetSignalGroups() {
			for _, c := range g {
				id := string(c.EntityID())
				if fixed[id] && k > 0 {
					continue
				}
				occs = append(occs, c)
				if !fixed[id] {
					grps[id] = append(grps[id], k)
				}
			}
		}
		for i, c := range occs {
			last := true
			for _, d := range occs[i+1:] {
				if d.EntityID() == c.EntityID() {
					last = false
				}
			}
			if !last {
				continue
			}
			id := string(c.EntityID())
			k := svKid{Sig: w.sig(c), Pos: c.GetRelativeStartPos(), Fixed: fixed[id], Grp: grps[id]}
			if k.Grp == nil {
				k.Grp = []int{}
			}
			x.Kids = append(x.Kids, k)
		}
	}
	x.E = svE{string(s.EntityID()), s.Name(), svPl(kv...)}
	return x
}

func svWalkNet(net *acmelib.Network) *svNet {
	w := &svWalk{types: map[string]*acmelib.SignalType{}, units: map[string]*acmelib.SignalUnit{}, enums: map[string]*acmelib.SignalEnum{},
		attrs: map[string]acmelib.Attribute{}, nodes: map[string]*acmelib.Node{}, blds: map[string]*acmelib.CANIDBuilder{}}
	n := &svNet{E: svE{string(net.EntityID()), net.Name(), svPl("d", net.Desc())},
		Buses: []svBus{}, Builders: []svBld{}, Nodes: []svNode{}, Types: []svE{}, Units: []svE{}, Enums: []svE{}, Attrs: []svAttr{}}
	for _, b := range net.Buses() {
		x := svBus{E: svE{string(b.EntityID()), b.Name(), svPl("d", b.Desc(), "br", svI(b.Baudrate()), "ty", svI(int(b.Type())+1))},
			Ifaces: []svIface{}, Asg: w.asgs(b.AttributeAssignments())}
		if !svIsDefBuilder(b) {
			cb := b.CANIDBuilder()
			x.Builder = string(cb.EntityID())
			w.blds[x.Builder] = cb
		}
		for _, ni := range b.NodeInterfaces() {
			nd := ni.Node()
			w.nodes[string(nd.EntityID())] = nd
			y := svIface{Node: string(nd.EntityID()), Num: ni.Number(), Msgs: []svMsg{}}
			for _, m := range ni.SentMessages() {
				z := svMsg{E: svE{string(m.EntityID()), m.Name(), svPl("d", m.Desc(), "sz", svI(m.SizeByte()), "pr", svI(int(m.Priority())+1), "bo", svI(int(m.ByteOrder())+1),
					"ct", svI(m.CycleTime()), "st", svI(int(m.SendType())), "dt", svI(m.DelayTime()), "sd", svI(m.StartDelayTime()))},
					Asg: w.asgs(m.AttributeAssignments()), Mid: int(m.ID()), Static: -1, Sigs: []svTop{}, Recvs: []svRecv{}}
				if m.HasStaticCANID() {
					z.Static = int(m.GetCANID())
				}
				for _, s := range m.Signals() {
					z.Sigs = append(z.Sigs, svTop{w.sig(s), s.GetRelativeStartPos()})
				}
				for _, rc := range m.Receivers() {
					w.nodes[string(rc.Node().EntityID())] = rc.Node()
					z.Recvs = append(z.Recvs, svRecv{string(rc.Node().EntityID()), rc.Number()})
				}
				y.Msgs = append(y.Msgs, z)
			}
			x.Ifaces = append(x.Ifaces, y)
		}
		n.Buses = append(n.Buses, x)
	}
	for id, nd := range w.nodes {
		n.Nodes = append(n.Nodes, svNode{E: svE{id, nd.Name(), svPl("d", nd.Desc())}, Nid: int(nd.ID()), Ifc: len(nd.Interfaces()), Asg: w.asgs(nd.AttributeAssignments())})
	}
	sort.Slice(n.Nodes, func(i, j int) bool {
		if n.Nodes[i].Nid != n.Nodes[j].Nid {
			return n.Nodes[i].Nid < n.Nodes[j].Nid
		}
		return n.Nodes[i].E.ID < n.Nodes[j].E.ID
	})
	for id, cb := range w.blds {
		x := svBld{E: svE{id, cb.Name(), svPl("d", cb.Desc())}, Ops: []svOp{}}
		for _, o := range cb.Operations() {
			x.Ops = append(x.Ops, svOp{int(o.Kind()), o.From(), o.Len()})
		}
		n.Builders = append(n.Builders, x)
	}
	for id, t := range w.types {
		n.Types = append(n.Types, svE{id, t.Name(), svPl("d", t.Desc(), "k", svI(int(t.Kind())+1), "sz", svI(t.Size()), "sg", svB(t.Signed()),
			"mn", svF(t.Min()), "mx", svF(t.Max()), "sc", svF(t.Scale()), "of", svF(t.Offset()))})
	}
	for id, u := range w.units {
		n.Units = append(n.Units, svE{id, u.Name(), svPl("d", u.Desc(), "k", svI(int(u.Kind())+1), "sy", u.Symbol())})
	}
	for id, e := range w.enums {
		var vs []string
		for _, v := range e.Values() {
			vs = append(vs, sprintf("%s:%d:%s", v.Name(), v.Index(), v.Desc()))
		}
		n.Enums = append(n.Enums, svE{id, e.Name(), svPl("d", e.Desc(), "ms", svI(e.MinSize()), "vs", strings.Join(vs, "/"))})
	}
	for id, a := range w.attrs {
		x := svAttr{Vals: []string{}}
		kv := []string{"d", a.Desc()}
		switch a.Type() {
		case acmelib.AttributeTypeString:
			sa, _ := a.ToString()
			x.K = 0
			kv = append(kv, "dv", sa.DefValue())
		case acmelib.AttributeTypeInteger:
			ia, _ := a.ToInteger()
			x.K = 1
			kv = append(kv, "dv", svI(ia.DefValue()), "mn", svI(ia.Min()), "mx", svI(ia.Max()), "hx", svB(ia.IsHexFormat()))
		case acmelib.AttributeTypeFloat:
			fa, _ := a.ToFloat()
			x.K = 2
			kv = append(kv, "dv", svF(fa.DefValue()), "mn", svF(fa.Min()), "mx", svF(fa.Max()))
		case acmelib.AttributeTypeEnum:
			ea, _ := a.ToEnum()
			x.K = 3
			x.Vals = append(x.Vals, ea.Values()...)
			x.Def = ea.DefValue()
		}
		x.E = svE{id, a.Name(), svPl(kv...)}
		n.Attrs = append(n.Attrs, x)
	}
	byNameID := func(a, b svE) bool {
		if a.Name != b.Name {
			return a.Name < b.Name
		}
		return a.ID < b.ID
	}
	sort.Slice(n.Builders, func(i, j int) bool { return byNameID(n.Builders[i].E, n.Builders[j].E) })
	sort.Slice(n.Types, func(i, j int) bool { return byNameID(n.Types[i], n.Types[j]) })
	sort.Slice(n.Units, func(i, j int) bool { return byNameID(n.Units[i], n.Units[j]) })
	sort.Slice(n.Enums, func(i, j int) bool { return byNameID(n.Enums[i], n.Enums[j]) })
	sort.Slice(n.Attrs, func(i, j int) bool { return byNameID(n.Attrs[i].E, n.Attrs[j].E) })
	return n
}

// svGeoOf lists the layouts of a loaded network through the public getters: per message (by entity
// id) its size in bits, the top-level signals in LAYOUT order as [id, relative start, size], and per
// multiplexer of the message at every depth (by entity id) the group size and every group layout.
func svGeoOf(net *acmelib.Network) []any {
	slots := func(sigs []acmelib.Signal) []any {
		res := []any{}
		for _, s := range sigs {
			res = append(res, []any{string(s.EntityID()), s.GetRelativeStartPos(), s.GetSize()})
		}
		return res
	}
	type row struct {
		id string
		v  []any
	}
	byID := func(rs []row) []any {
		sort.Slice(rs, func(i, j int) bool { return rs[i].id < rs[j].id })
		res := []any{}
		for _, r := range rs {
			res = append(res, r.v)
		}
		return res
	}
	var msgs []row
	for _, bus := range net.Buses() {
		for _, ni := range bus.NodeInterfaces() {
			for _, msg := range ni.SentMessages() {
				var muxes []row
				seen := map[string]bool{}
				var rec func(sigs []acmelib.Signal)
				rec = func(sigs []acmelib.Signal) {
					for _, s := range sigs {
						if s.Kind() != acmelib.SignalKindMultiplexer || seen[string(s.EntityID())] {
							continue
						}
						seen[string(s.EntityID())] = true
						ms, _ := s.ToMultiplexer()
						groups := []any{}
						for _, g := range ms.GetSignalGroups() {
							groups = append(groups, slots(g))
						}
						muxes = append(muxes, row{string(s.EntityID()), []any{string(s.EntityID()), ms.GroupSize(), groups}})
						for _, g := range ms.GetSignalGroups() {
							rec(g)
						}
					}
				}
				rec(msg.Signals())
				msgs = append(msgs, row{string(msg.EntityID()), []any{string(msg.EntityID()), msg.SizeByte() * 8, slots(msg.Signals()), byID(muxes)}})
			}
		}
	}
	return byID(msgs)
}

// svErrClass maps an error of VerifLoadProto to the cause classes of the model.
func svErrClass(err error) string {
	switch e := err.(type) {
	case *acmelib.EntityIDError:
		if errors.Is(e.Err, acmelib.ErrNotFound) {
			return "err notFound " + string(e.EntityID)
		}
		if errors.Is(e.Err, acmelib.ErrIsDuplicated) {
			return "err duplicated " + string(e.EntityID)
		}
	case *acmelib.StartBitError:
		return sprintf("err twoPositions %d", e.StartBit)
	case *acmelib.ErrInvalidOneof:
		k := map[string]int{"SIGNAL_KIND_STANDARD": 1, "SIGNAL_KIND_ENUM": 2, "SIGNAL_KIND_MULTIPLEXER": 3,
			"ATTRIBUTE_TYPE_STRING": 11, "ATTRIBUTE_TYPE_INTEGER": 12, "ATTRIBUTE_TYPE_FLOAT": 13, "ATTRIBUTE_TYPE_ENUM": 14}[e.KindTypeField]
		return sprintf("err invalidOneof %d", k)
	case *acmelib.ErrMissingOneofField:
		return "err missingOneof"
	case *acmelib.ArgumentError:
		switch {
		case e.Name == "interfaceNumber" && errors.Is(e.Err, acmelib.ErrIsNegative):
			return "err ifaceNegative"
		case e.Name == "interfaceNumber" && errors.Is(e.Err, acmelib.ErrOutOfBounds):
			return "err ifaceOutOfBounds"
		case e.Name == "groupCount" && errors.Is(e.Err, acmelib.ErrIsZero):
			return "err groupCountZero"
		case e.Name == "values" && errors.Is(e.Err, acmelib.ErrIsNil):
			return "err enumValuesEmpty"
		case e.Name == "groupSize" && errors.Is(e.Err, acmelib.ErrIsZero):
			return "err geom groupSizeZero"
		case e.Name == "size" && errors.Is(e.Err, acmelib.ErrIsZero):
			return "err geom typeSizeZero"
		}
		return "err api argument:" + e.Name
	}
	// refusals of the placement (verifyBeforeInsert under Message / MultiplexerSignal.InsertSignal):
	// the geometry model Acme.LoadGeom predicts them
	var ins *acmelib.InsertSignalError
	if errors.As(err, &ins) {
		var sz *acmelib.SignalSizeError
		var sb *acmelib.StartBitError
		switch {
		case errors.As(ins.Err, &sz) && errors.Is(sz.Err, acmelib.ErrOutOfBounds):
			return "err geom outOfBounds"
		case errors.As(ins.Err, &sz) && errors.Is(sz.Err, acmelib.ErrNoSpaceLeft):
			return "err geom noSpaceLeft"
		case errors.As(ins.Err, &sb) && errors.Is(sb.Err, acmelib.ErrIntersect):
			return "err geom intersect"
		case errors.As(ins.Err, &sb) && errors.Is(sb.Err, acmelib.ErrIsNegative):
			return "err geom negative"
		}
	}
	var gid *acmelib.GroupIDError
	if errors.As(err, &gid) && errors.Is(gid.Err, acmelib.ErrOutOfBounds) {
		return sprintf("err groupId %d", gid.GroupID)
	}
	var av *acmelib.AttributeValueError
	if errors.As(err, &av) {
		if errors.Is(av.Err, acmelib.ErrOutOfBounds) {
			return "err api attribute-range"
		}
		return "err attrValue"
	}
	if errors.Is(err, acmelib.ErrReceiverIsSender) {
		return "err receiverIsSender"
	}
	// refusals of the public mutators the model does not cover
	chain := []string{}
	for e := err; e != nil; e = errors.Unwrap(e) {
		t := strings.TrimPrefix(fmt.Sprintf("%T", e), "*acmelib.")
		if t == "EntityError" {
			continue
		}
		chain = append(chain, t)
	}
	return "err api " + strings.Join(chain, ">")
}

// ---------------------------------------------------------------------------------------------
// executor

type svExec struct {
	fs []Finding
	ln int
}

func (e *svExec) Findings() []Finding { return e.fs }

func (e *svExec) add(sig, detail string) {
	e.fs = append(e.fs, Finding{Prop: "C12", Sig: sig, Detail: detail, Line: e.ln})
}

func (e *svExec) Do(line string) string {
	defer func() { e.ln++ }()
	f := fields(line)
	if len(f) != 3 || f[0] != "sv" {
		return "bad-op"
	}
	switch f[1] {
	case "save":
		var d svNet
		if err := json.Unmarshal([]byte(f[2]), &d); err != nil {
			return "bad-json " + err.Error()
		}
		b := svBuild(&d)
		p := acmelib.VerifSaveProto(b.net)
		e.checkSaveOrder(p)
		lab := func(real string) string {
			if real == "" {
				return ""
			}
			if l, ok := b.label[real]; ok {
				return l
			}
			return "?" + real
		}
		pn := svPNet(p, lab)
		svTiesP(pn)
		return svJSON(pn)
	case "load":
		var pn svpNet
		if err := json.Unmarshal([]byte(f[2]), &pn); err != nil {
			return "bad-json " + err.Error()
		}
		net, err := acmelib.VerifLoadProto(svQNet(&pn))
		if err != nil {
			return svErrClass(err)
		}
		return "ok " + svJSON(svWalkNet(net)) + " " + svJSON(svGeoOf(net))
	case "wf":
		return "wf=true inrange=true roundtrip=true"
	case "example", "example-saved":
		return "same=true"
	}
	return "bad-op"
}

// checkSaveOrder: every list the saver sorts is ordered by (primary key, real entity id).
func (e *svExec) checkSaveOrder(p *acmelibv1.Network) {
	le := func(n1, i1, n2, i2 string) bool { return n1 < n2 || (n1 == n2 && i1 <= i2) }
	ent := func(kind string, es []*acmelibv1.Entity) {
		for i := 0; i+1 < len(es); i++ {
			if !le(es[i].GetName(), es[i].GetEntityId(), es[i+1].GetName(), es[i+1].GetEntityId()) {
				e.add("c15-sv-table-order:"+kind, sprintf("%s before %s", es[i].GetName(), es[i+1].GetName()))
			}
		}
	}
	var es []*acmelibv1.Entity
	for _, x := range p.GetBuses() {
		es = append(es, x.GetEntity())
	}
	ent("buses", es)
	es = nil
	for _, x := range p.GetCanidBuilders() {
		es = append(es, x.GetEntity())
	}
	ent("builders", es)
	es = nil
	for _, x := range p.GetSignalTypes() {
		es = append(es, x.GetEntity())
	}
	ent("types", es)
	es = nil
	for _, x := range p.GetSignalUnits() {
		es = append(es, x.GetEntity())
	}
	ent("units", es)
	es = nil
	for _, x := range p.GetSignalEnums() {
		es = append(es, x.GetEntity())
	}
	ent("enums", es)
	es = nil
	for _, x := range p.GetAttributes() {
		es = append(es, x.GetEntity())
	}
	ent("attributes", es)
	ns := p.GetNodes()
	for i := 0; i+1 < len(ns); i++ {
		a, b := ns[i], ns[i+1]
		if a.GetNodeId() > b.GetNodeId() || (a.GetNodeId() == b.GetNodeId() && a.GetEntity().GetEntityId() > b.GetEntity().GetEntityId()) {
			e.add("c15-sv-table-order:nodes", sprintf("%d before %d", a.GetNodeId(), b.GetNodeId()))
		}
	}
}

// svTiesP lists the runs of equal primary keys in label order (see svTieFix).
func svTiesP(p *svpNet) {
	svTieFix(p.Buses, func(x svpBus) string { return x.E.Name }, func(x svpBus) string { return x.E.ID })
	svTieFix(p.Builders, func(x svBld) string { return x.E.Name }, func(x svBld) string { return x.E.ID })
	svTieFix(p.Nodes, func(x svpNode) string { return svI(x.Nid) }, func(x svpNode) string { return x.E.ID })
	svTieFix(p.Types, func(x svE) string { return x.Name }, func(x svE) string { return x.ID })
	svTieFix(p.Units, func(x svE) string { return x.Name }, func(x svE) string { return x.ID })
	svTieFix(p.Enums, func(x svE) string { return x.Name }, func(x svE) string { return x.ID })
	svTieFix(p.Attrs, func(x svpAttr) string { return x.E.Name }, func(x svpAttr) string { return x.E.ID })
	attrName := map[string]string{}
	for _, a := range p.Attrs {
		attrName[a.E.ID] = a.E.Name
	}
	nodeName := map[string]string{}
	for _, n := range p.Nodes {
		nodeName[n.E.ID] = n.E.Name
	}
	asg := func(as []svpAsg) {
		svTieFix(as, func(x svpAsg) string { return attrName[x.Attr] }, func(x svpAsg) string { return x.Attr })
	}
	var sig func(s *svpSig)
	sig = func(s *svpSig) {
		asg(s.Asg)
		for _, c := range s.Sigs {
			sig(c)
		}
	}
	for i := range p.Nodes {
		asg(p.Nodes[i].Asg)
	}
	for i := range p.Buses {
		b := &p.Buses[i]
		asg(b.Asg)
		for j := range b.Ifaces {
			for k := range b.Ifaces[j].Msgs {
				m := &b.Ifaces[j].Msgs[k]
				asg(m.Asg)
				svTieFix(m.Recvs, func(x svRecv) string { return nodeName[x.Node] }, func(x svRecv) string { return x.Node })
				for _, s := range m.Sigs {
					sig(s)
				}
			}
		}
	}
}

// ---------------------------------------------------------------------------------------------
// mutations of a saved tree (the error branches of the loader)

type svMut struct {
	r *rand.Rand
	p *svpNet
}

func (m *svMut) sigs() (all []*svpSig, muxes []*svpSig) {
	var rec func(s *svpSig)
	rec = func(s *svpSig) {
		all = append(all, s)
		if s.Body == 3 {
			muxes = append(muxes, s)
		}
		for _, c := range s.Sigs {
			rec(c)
		}
	}
	for i := range m.p.Buses {
		for j := range m.p.Buses[i].Ifaces {
			for k := range m.p.Buses[i].Ifaces[j].Msgs {
				for _, s := range m.p.Buses[i].Ifaces[j].Msgs[k].Sigs {
					rec(s)
				}
			}
		}
	}
	return
}

type svMsgAt struct {
	m       *svpMsg
	b, i, k int
	node    string
	num     int
}

func (m *svMut) msgs() []svMsgAt {
	var res []svMsgAt
	for i := range m.p.Buses {
		for j := range m.p.Buses[i].Ifaces {
			ifc := &m.p.Buses[i].Ifaces[j]
			for k := range ifc.Msgs {
				res = append(res, svMsgAt{&ifc.Msgs[k], i, j, k, ifc.Node, ifc.Num})
			}
		}
	}
	return res
}

func (m *svMut) asgLists() []*[]svpAsg {
	var res []*[]svpAsg
	for i := range m.p.Buses {
		res = append(res, &m.p.Buses[i].Asg)
	}
	for i := range m.p.Nodes {
		res = append(res, &m.p.Nodes[i].Asg)
	}
	for _, ma := range m.msgs() {
		res = append(res, &ma.m.Asg)
	}
	all, _ := m.sigs()
	for _, s := range all {
		res = append(res, &s.Asg)
	}
	return res
}

func svPlSet(pl, k, v string) string {
	fs := strings.Split(pl, ";")
	for i, f := range fs {
		if strings.HasPrefix(f, k+"=") {
			fs[i] = k + "=" + v
		}
	}
	return strings.Join(fs, ";")
}

func svInsertAt[T any](xs []T, i int, x T) []T {
	xs = append(xs, x)
	copy(xs[i+1:], xs[i:])
	xs[i] = x
	return xs
}

// apply performs one random mutation; it reports its name ("" = not applicable).
func (m *svMut) apply() string {
	r, p := m.r, m.p
	all, muxes := m.sigs()
	msgs := m.msgs()
	dangling := "zz9"
	kind := r.Intn(38)
	if kind >= 34 {
		kind = 12 // a child with two positions: the fault the loader can only see by comparing groups
	}
	switch kind {
	case 0: // delete a definition
		switch r.Intn(6) {
		case 0:
			if n := len(p.Types); n > 0 {
				i := r.Intn(n)
				p.Types = append(p.Types[:i], p.Types[i+1:]...)
				return "del-type"
			}
		case 1:
			if n := len(p.Units); n > 0 {
				i := r.Intn(n)
				p.Units = append(p.Units[:i], p.Units[i+1:]...)
				return "del-unit"
			}
		case 2:
			if n := len(p.Enums); n > 0 {
				i := r.Intn(n)
				p.Enums = append(p.Enums[:i], p.Enums[i+1:]...)
				return "del-enum"
			}
		case 3:
			if n := len(p.Attrs); n > 0 {
				i := r.Intn(n)
				p.Attrs = append(p.Attrs[:i], p.Attrs[i+1:]...)
				return "del-attr"
			}
		case 4:
			if n := len(p.Nodes); n > 0 {
				i := r.Intn(n)
				p.Nodes = append(p.Nodes[:i], p.Nodes[i+1:]...)
				return "del-node"
			}
		case 5:
			if n := len(p.Builders); n > 0 {
				i := r.Intn(n)
				p.Builders = append(p.Builders[:i], p.Builders[i+1:]...)
				return "del-builder"
			}
		}
	case 1: // duplicate a definition (the later entry wins)
		switch r.Intn(6) {
		case 0:
			if n := len(p.Types); n > 0 {
				x := p.Types[r.Intn(n)]
				x.Pl = svPlSet(x.Pl, "d", "DUP")
				x.Name += "_dup"
				p.Types = svInsertAt(p.Types, r.Intn(n+1), x)
				return "dup-type"
			}
		case 1:
			if n := len(p.Units); n > 0 {
				x := p.Units[r.Intn(n)]
				x.Pl = svPlSet(x.Pl, "d", "DUP")
				p.Units = svInsertAt(p.Units, r.Intn(n+1), x)
				return "dup-unit"
			}
		case 2:
			if n := len(p.Enums); n > 0 {
				x := p.Enums[r.Intn(n)]
				x.Pl = svPlSet(x.Pl, "d", "DUP")
				p.Enums = svInsertAt(p.Enums, r.Intn(n+1), x)
				return "dup-enum"
			}
		case 3:
			if n := len(p.Attrs); n > 0 {
				x := svClone(p.Attrs[r.Intn(n)])
				x.E.Pl = svPlSet(x.E.Pl, "d", "DUP")
				x.E.Name += "_dup"
				p.Attrs = svInsertAt(p.Attrs, r.Intn(n+1), x)
				return "dup-attr"
			}
		case 4:
			if n := len(p.Nodes); n > 0 {
				x := svClone(p.Nodes[r.Intn(n)])
				x.E.Pl = svPlSet(x.E.Pl, "d", "DUP")
				if r.Intn(2) == 0 {
					x.Asg = []svpAsg{}
				}
				p.Nodes = svInsertAt(p.Nodes, r.Intn(n+1), x)
				return "dup-node"
			}
		case 5:
			if n := len(p.Builders); n > 0 {
				x := svClone(p.Builders[r.Intn(n)])
				x.E.Pl = svPlSet(x.E.Pl, "d", "DUP")
				x.Ops = append(x.Ops, svOp{4, 0, 11})
				p.Builders = svInsertAt(p.Builders, r.Intn(n+1), x)
				return "dup-builder"
			}
		}
	case 2: // retarget the type / unit / enum of a signal
		if len(all) == 0 {
			return ""
		}
		s := all[r.Intn(len(all))]
		switch s.Body {
		case 1:
			if r.Intn(2) == 0 {
				if r.Intn(3) == 0 {
					s.Type = dangling
					return "dangling-type"
				}
				// a type of the same size keeps the geometry
				sz := ""
				for _, t := range p.Types {
					if t.ID == s.Type {
						sz = svParsePl(t.Pl)["sz"]
					}
				}
				var c []string
				for _, t := range p.Types {
					if svParsePl(t.Pl)["sz"] == sz && t.ID != s.Type {
						c = append(c, t.ID)
					}
				}
				if len(c) > 0 {
					s.Type = c[r.Intn(len(c))]
					return "retarget-type"
				}
				return ""
			}
			switch r.Intn(3) {
			case 0:
				s.Unit = dangling
				return "dangling-unit"
			case 1:
				s.Unit = ""
				return "drop-unit"
			default:
				if len(p.Units) > 0 {
					s.Unit = p.Units[r.Intn(len(p.Units))].ID
					return "retarget-unit"
				}
			}
		case 2:
			if r.Intn(2) == 0 {
				s.Enum = dangling
				return "dangling-enum"
			}
			s.Enum = ""
			return "empty-enum-id"
		}
	case 3: // retarget an attribute assignment
		ls := m.asgLists()
		var ne []*[]svpAsg
		for _, l := range ls {
			if len(*l) > 0 {
				ne = append(ne, l)
			}
		}
		if len(ne) == 0 {
			return ""
		}
		l := ne[r.Intn(len(ne))]
		a := &(*l)[r.Intn(len(*l))]
		switch r.Intn(6) {
		case 0:
			a.Attr = dangling
			return "dangling-attr"
		case 1:
			if len(p.Attrs) > 0 {
				a.Attr = p.Attrs[r.Intn(len(p.Attrs))].E.ID
				return "retarget-attr"
			}
		case 2:
			a.Tag = r.Intn(4)
			return "asg-tag"
		case 3:
			if a.Tag == 0 {
				a.Val = "nope"
				return "asg-value"
			}
		case 4:
			x := *a
			if x.Tag == 0 {
				x.Val = pick(r, "one", "hi", "other")
			}
			*l = svInsertAt(*l, r.Intn(len(*l)+1), x)
			return "dup-asg"
		case 5:
			a.Owner = dangling
			return "asg-owner"
		}
	case 4: // the node of an interface
		if len(p.Buses) == 0 {
			return ""
		}
		b := &p.Buses[r.Intn(len(p.Buses))]
		if len(b.Ifaces) == 0 {
			return ""
		}
		ifc := &b.Ifaces[r.Intn(len(b.Ifaces))]
		switch r.Intn(5) {
		case 0:
			ifc.Node = dangling
			return "dangling-iface-node"
		case 1:
			if len(p.Nodes) > 0 {
				ifc.Node = p.Nodes[r.Intn(len(p.Nodes))].E.ID
				return "retarget-iface-node"
			}
		case 2:
			ifc.Num = -1 - r.Intn(3)
			return "iface-negative"
		case 3:
			ifc.Num = 3 + r.Intn(5)
			return "iface-big"
		case 4:
			ifc.Num = r.Intn(3)
			return "iface-num"
		}
	case 5: // receivers
		if len(msgs) == 0 {
			return ""
		}
		ma := msgs[r.Intn(len(msgs))]
		switch r.Intn(6) {
		case 0:
			if ma.num < 0 {
				return "" // the receiver's number is a uint32 field: a (mutated) negative interface number has no encoding there
			}
			ma.m.Recvs = append(ma.m.Recvs, svRecv{ma.node, ma.num})
			return "recv-is-sender"
		case 1:
			if len(ma.m.Recvs) > 0 {
				ma.m.Recvs[r.Intn(len(ma.m.Recvs))].Node = dangling
				return "dangling-recv"
			}
		case 2:
			if len(ma.m.Recvs) > 0 {
				ma.m.Recvs[r.Intn(len(ma.m.Recvs))].Num = 3 + r.Intn(4)
				return "recv-big"
			}
		case 3:
			if len(ma.m.Recvs) > 0 && len(p.Nodes) > 0 {
				ma.m.Recvs[r.Intn(len(ma.m.Recvs))].Node = p.Nodes[r.Intn(len(p.Nodes))].E.ID
				return "retarget-recv"
			}
		case 4:
			if len(ma.m.Recvs) > 0 {
				x := ma.m.Recvs[r.Intn(len(ma.m.Recvs))]
				x.Num = 0
				ma.m.Recvs = svInsertAt(ma.m.Recvs, r.Intn(len(ma.m.Recvs)+1), x)
				return "dup-recv"
			}
		case 5:
			if len(p.Nodes) > 0 {
				ma.m.Recvs = append(ma.m.Recvs, svRecv{p.Nodes[r.Intn(len(p.Nodes))].E.ID, 0})
				return "add-recv"
			}
		}
	case 6: // the builder of a bus
		if len(p.Buses) == 0 {
			return ""
		}
		b := &p.Buses[r.Intn(len(p.Buses))]
		switch r.Intn(3) {
		case 0:
			b.Builder = dangling
			return "dangling-builder"
		case 1:
			b.Builder = ""
			return "default-builder"
		default:
			if len(p.Builders) > 0 {
				b.Builder = p.Builders[r.Intn(len(p.Builders))].E.ID
				return "retarget-builder"
			}
		}
	case 7: // the positions of the top-level signals
		if len(msgs) == 0 {
			return ""
		}
		ma := msgs[r.Intn(len(msgs))]
		if len(ma.m.Refs) == 0 {
			return ""
		}
		i := r.Intn(len(ma.m.Refs))
		switch r.Intn(4) {
		case 0:
			ma.m.Refs = append(ma.m.Refs[:i], ma.m.Refs[i+1:]...)
			return "del-position"
		case 1:
			ma.m.Refs[i].ID = dangling
			return "dangling-position"
		case 2:
			ma.m.Refs = svInsertAt(ma.m.Refs, r.Intn(len(ma.m.Refs)+1), ma.m.Refs[i])
			return "dup-position"
		case 3:
			r.Shuffle(len(ma.m.Refs), func(a, b int) { ma.m.Refs[a], ma.m.Refs[b] = ma.m.Refs[b], ma.m.Refs[a] })
			r.Shuffle(len(ma.m.Sigs), func(a, b int) { ma.m.Sigs[a], ma.m.Sigs[b] = ma.m.Sigs[b], ma.m.Sigs[a] })
			return "shuffle-signals"
		}
	case 8, 9: // swap two group lists
		if len(muxes) == 0 {
			return ""
		}
		x := muxes[r.Intn(len(muxes))]
		if len(x.Groups) < 2 {
			return ""
		}
		i, j := r.Intn(len(x.Groups)), r.Intn(len(x.Groups))
		if i == j {
			j = (i + 1) % len(x.Groups)
		}
		x.Groups[i], x.Groups[j] = x.Groups[j], x.Groups[i]
		return "swap-groups"
	case 10, 11: // a child that is in no group
		if len(muxes) == 0 {
			return ""
		}
		x := muxes[r.Intn(len(muxes))]
		if len(x.Sigs) == 0 {
			return ""
		}
		id := x.Sigs[r.Intn(len(x.Sigs))].E.ID
		for k := range x.Groups {
			var keep []svpRef
			for _, rf := range x.Groups[k] {
				if rf.ID != id {
					keep = append(keep, rf)
				}
			}
			x.Groups[k] = keep
		}
		if r.Intn(2) == 0 {
			var keep []string
			for _, f := range x.Fixed {
				if f != id {
					keep = append(keep, f)
				}
			}
			x.Fixed = keep
		}
		return "unplaced-child"
	case 12, 13: // a child with two positions
		if len(muxes) == 0 {
			return ""
		}
		x := muxes[r.Intn(len(muxes))]
		type at struct{ k, i int }
		occ := map[string][]at{}
		for k := range x.Groups {
			for i, rf := range x.Groups[k] {
				occ[rf.ID] = append(occ[rf.ID], at{k, i})
			}
		}
		var ids []string
		for id, o := range occ {
			if len(o) >= 2 {
				ids = append(ids, id)
			}
		}
		if len(ids) == 0 {
			return ""
		}
		sort.Strings(ids)
		o := occ[ids[r.Intn(len(ids))]]
		// a later occurrence: the first one is inserted where it was
		w := o[1+r.Intn(len(o)-1)]
		x.Groups[w.k][w.i].Pos += 1 + r.Intn(3)
		return "two-positions"
	case 14: // entries of the group lists
		if len(muxes) == 0 {
			return ""
		}
		x := muxes[r.Intn(len(muxes))]
		var ne []int
		for k := range x.Groups {
			if len(x.Groups[k]) > 0 {
				ne = append(ne, k)
			}
		}
		if len(ne) == 0 {
			return ""
		}
		k := ne[r.Intn(len(ne))]
		i := r.Intn(len(x.Groups[k]))
		switch r.Intn(3) {
		case 0:
			x.Groups[k][i].ID = dangling
			return "dangling-group-entry"
		case 1:
			x.Groups[k] = svInsertAt(x.Groups[k], r.Intn(len(x.Groups[k])+1), x.Groups[k][i])
			return "dup-group-entry"
		default:
			r.Shuffle(len(x.Groups[k]), func(a, b int) { x.Groups[k][a], x.Groups[k][b] = x.Groups[k][b], x.Groups[k][a] })
			return "shuffle-group"
		}
	case 15: // shape of the group lists / group count
		if len(muxes) == 0 {
			return ""
		}
		x := muxes[r.Intn(len(muxes))]
		switch r.Intn(6) {
		case 0:
			x.Gc = 0
			return "group-count-zero"
		case 1:
			x.Groups = append(x.Groups, []svpRef{})
			return "extra-empty-group"
		case 2:
			if len(x.Groups) > 0 {
				x.Groups = append(x.Groups, append([]svpRef{}, x.Groups[r.Intn(len(x.Groups))]...))
				return "extra-group"
			}
		case 3:
			if len(x.Groups) > 0 {
				x.Groups = x.Groups[:len(x.Groups)-1]
				return "drop-last-group"
			}
		case 4:
			if x.Gc > 1 && acmelib.VerifCalcSizeFromValue(x.Gc-2) == acmelib.VerifCalcSizeFromValue(x.Gc-1) {
				x.Gc--
				return "group-count-less"
			}
		case 5:
			if acmelib.VerifCalcSizeFromValue(x.Gc) == acmelib.VerifCalcSizeFromValue(x.Gc-1) {
				x.Gc++
				return "group-count-more"
			}
		}
	case 16: // the list of fixed children
		if len(muxes) == 0 {
			return ""
		}
		x := muxes[r.Intn(len(muxes))]
		switch r.Intn(4) {
		case 0:
			x.Fixed = append(x.Fixed, dangling)
			return "dangling-fixed"
		case 1:
			if len(x.Fixed) > 0 {
				i := r.Intn(len(x.Fixed))
				x.Fixed = append(x.Fixed[:i], x.Fixed[i+1:]...)
				return "unfix-child"
			}
		case 2:
			if len(x.Sigs) > 0 {
				x.Fixed = append(x.Fixed, x.Sigs[r.Intn(len(x.Sigs))].E.ID)
				return "fix-child"
			}
		case 3:
			if len(x.Sigs) > 1 {
				r.Shuffle(len(x.Sigs), func(a, b int) { x.Sigs[a], x.Sigs[b] = x.Sigs[b], x.Sigs[a] })
				return "shuffle-children"
			}
		}
	case 17: // enum attributes
		var es []*svpAttr
		for i := range p.Attrs {
			if p.Attrs[i].Body == 4 {
				es = append(es, &p.Attrs[i])
			}
		}
		if len(es) == 0 {
			return ""
		}
		a := es[r.Intn(len(es))]
		if len(a.Vals) == 0 {
			return ""
		}
		switch r.Intn(6) {
		case 0:
			a.Vals = []string{}
			return "enum-attr-empty"
		case 1:
			a.Def = "absent"
			return "enum-attr-default-absent"
		case 2:
			a.Def = a.Vals[r.Intn(len(a.Vals))]
			return "enum-attr-default-moved"
		case 3:
			r.Shuffle(len(a.Vals), func(i, j int) { a.Vals[i], a.Vals[j] = a.Vals[j], a.Vals[i] })
			return "enum-attr-shuffled"
		case 4:
			a.Vals = svInsertAt(a.Vals, r.Intn(len(a.Vals)+1), a.Vals[r.Intn(len(a.Vals))])
			return "enum-attr-dup-value"
		case 5:
			a.Vals = a.Vals[:len(a.Vals)-1]
			return "enum-attr-drop-value"
		}
	case 18: // duplicated bus / interface / message / signal id
		switch r.Intn(6) {
		case 3: // the same message (entity id) under another interface
			if len(msgs) > 0 && len(p.Buses) > 0 {
				ma := msgs[r.Intn(len(msgs))]
				t := &p.Buses[r.Intn(len(p.Buses))]
				if len(t.Ifaces) > 0 {
					ifc := &t.Ifaces[r.Intn(len(t.Ifaces))]
					x := svClone(*ma.m)
					if r.Intn(2) == 0 {
						x.Mid += 500 // another message id, the same entity id
					}
					ifc.Msgs = svInsertAt(ifc.Msgs, r.Intn(len(ifc.Msgs)+1), x)
					return "dup-message-elsewhere"
				}
			}
		case 4, 5: // one signal entity id under two parents: a coherent rename of a signal to the id of another
			if len(all) >= 2 {
				a, b := all[r.Intn(len(all))], all[r.Intn(len(all))]
				if a == b || a.E.ID == b.E.ID {
					return ""
				}
				from, to := a.E.ID, b.E.ID
				a.E.ID = to
				ren := func(refs []svpRef) {
					for i := range refs {
						if refs[i].ID == from {
							refs[i].ID = to
						}
					}
				}
				// the lists of the parent that name the renamed signal follow it
				for _, ma := range msgs {
					for _, x := range ma.m.Sigs {
						if x == a {
							ren(ma.m.Refs)
						}
					}
				}
				for _, mx := range muxes {
					for _, x := range mx.Sigs {
						if x == a {
							for gi := range mx.Groups {
								ren(mx.Groups[gi])
							}
							for i := range mx.Fixed {
								if mx.Fixed[i] == from {
									mx.Fixed[i] = to
								}
							}
						}
					}
				}
				return "dup-signal-id"
			}
		}
		switch r.Intn(3) {
		case 0:
			if n := len(p.Buses); n > 0 {
				p.Buses = append(p.Buses, svClone(p.Buses[r.Intn(n)]))
				return "dup-bus"
			}
		case 1:
			if n := len(p.Buses); n > 0 {
				b := &p.Buses[r.Intn(n)]
				if len(b.Ifaces) > 0 {
					x := svClone(b.Ifaces[r.Intn(len(b.Ifaces))])
					x.Msgs = []svpMsg{}
					t := &p.Buses[r.Intn(n)]
					t.Ifaces = append(t.Ifaces, x)
					return "dup-iface"
				}
			}
		case 2:
			if len(msgs) > 0 {
				ma := msgs[r.Intn(len(msgs))]
				ifc := &p.Buses[ma.b].Ifaces[ma.i]
				ifc.Msgs = append(ifc.Msgs, svClone(*ma.m))
				return "dup-message"
			}
		}
	case 19: // kind fields and oneofs
		if r.Intn(2) == 0 {
			if len(all) == 0 {
				return ""
			}
			s := all[r.Intn(len(all))]
			switch r.Intn(3) {
			case 0:
				s.Kind = r.Intn(5)
				return "signal-kind"
			case 1:
				s.Body = 0
				return "signal-no-oneof"
			default:
				s.Kind = 0
				return "signal-kind-unspecified"
			}
		}
		if len(p.Attrs) == 0 {
			return ""
		}
		a := &p.Attrs[r.Intn(len(p.Attrs))]
		switch r.Intn(3) {
		case 0:
			a.Tag = r.Intn(6)
			return "attr-type"
		case 1:
			a.Body = 0
			return "attr-no-oneof"
		default:
			a.Tag = 0
			return "attr-type-unspecified"
		}
	case 20: // static CAN-ID
		if len(msgs) == 0 {
			return ""
		}
		ma := msgs[r.Intn(len(msgs))]
		if ma.m.Hs {
			ma.m.Hs = false
			return "static-off"
		}
		ma.m.Hs = true
		ma.m.Sval = 0x700 + r.Intn(200)
		return "static-on"
	case 21: // builder operations
		if len(p.Builders) == 0 {
			return ""
		}
		b := &p.Builders[r.Intn(len(p.Builders))]
		if len(b.Ops) == 0 {
			b.Ops = append(b.Ops, svOp{r.Intn(6), 1, 2})
			return "builder-add-op"
		}
		if r.Intn(2) == 0 {
			b.Ops[r.Intn(len(b.Ops))].K = pick(r, 0, 5, 9)
			return "builder-op-kind"
		}
		r.Shuffle(len(b.Ops), func(i, j int) { b.Ops[i], b.Ops[j] = b.Ops[j], b.Ops[i] })
		return "builder-op-order"
	case 22: // order of the lists the loader keeps in maps
		switch r.Intn(4) {
		case 0:
			r.Shuffle(len(p.Buses), func(i, j int) { p.Buses[i], p.Buses[j] = p.Buses[j], p.Buses[i] })
			return "shuffle-buses"
		case 1:
			r.Shuffle(len(p.Types), func(i, j int) { p.Types[i], p.Types[j] = p.Types[j], p.Types[i] })
			r.Shuffle(len(p.Nodes), func(i, j int) { p.Nodes[i], p.Nodes[j] = p.Nodes[j], p.Nodes[i] })
			r.Shuffle(len(p.Attrs), func(i, j int) { p.Attrs[i], p.Attrs[j] = p.Attrs[j], p.Attrs[i] })
			return "shuffle-tables"
		case 2:
			for i := range p.Buses {
				b := &p.Buses[i]
				r.Shuffle(len(b.Ifaces), func(x, y int) { b.Ifaces[x], b.Ifaces[y] = b.Ifaces[y], b.Ifaces[x] })
				for j := range b.Ifaces {
					ms := b.Ifaces[j].Msgs
					r.Shuffle(len(ms), func(x, y int) { ms[x], ms[y] = ms[y], ms[x] })
				}
			}
			return "shuffle-ifaces-msgs"
		case 3:
			for _, l := range m.asgLists() {
				r.Shuffle(len(*l), func(x, y int) { (*l)[x], (*l)[y] = (*l)[y], (*l)[x] })
			}
			for _, ma := range msgs {
				rs := ma.m.Recvs
				r.Shuffle(len(rs), func(x, y int) { rs[x], rs[y] = rs[y], rs[x] })
			}
			return "shuffle-asg-recvs"
		}
	case 23: // an unreferenced definition
		p.Types = append(p.Types, svE{"tzz", "unused", svPl("d", "", "k", "3", "sz", "5", "sg", "0", "mn", "0", "mx", "31", "sc", "1", "of", "0")})
		p.Units = append(p.Units, svE{"uzz", "unused", svPl("d", "", "k", "1", "sy", "x")})
		p.Nodes = append(p.Nodes, svpNode{E: svE{"nzz", "unused", svPl("d", "")}, Nid: 99, Ifc: 1, Asg: []svpAsg{}})
		return "unused-definitions"
	case 24: // geometry: a top-level position moved onto a neighbour / past the payload
		if len(msgs) == 0 {
			return ""
		}
		ma := msgs[r.Intn(len(msgs))]
		if len(ma.m.Refs) == 0 {
			return ""
		}
		i := r.Intn(len(ma.m.Refs))
		capBits := svAtoi(svParsePl(ma.m.E.Pl)["sz"]) * 8
		switch r.Intn(4) {
		case 0:
			if len(ma.m.Refs) < 2 {
				return ""
			}
			j := (i + 1 + r.Intn(len(ma.m.Refs)-1)) % len(ma.m.Refs)
			ma.m.Refs[i].Pos = ma.m.Refs[j].Pos
			return "geo-onto-neighbour"
		case 1:
			if len(ma.m.Refs) < 2 {
				return ""
			}
			j := (i + 1 + r.Intn(len(ma.m.Refs)-1)) % len(ma.m.Refs)
			ma.m.Refs[i].Pos = ma.m.Refs[j].Pos + pick(r, -2, -1, 1, 2, 3)
			if ma.m.Refs[i].Pos < 0 {
				ma.m.Refs[i].Pos = 0
			}
			return "geo-near-neighbour"
		case 2:
			ma.m.Refs[i].Pos = capBits - pick(r, 0, 0, 1, 2, 4, 8)
			if ma.m.Refs[i].Pos < 0 {
				ma.m.Refs[i].Pos = 0
			}
			return "geo-past-payload"
		case 3:
			ma.m.Refs[i].Pos += pick(r, 1, 2, 3, 5, 8, 64, 1000)
			return "geo-shift-right"
		}
	case 25: // geometry: the size of a message
		if len(msgs) == 0 {
			return ""
		}
		ma := msgs[r.Intn(len(msgs))]
		sz := svAtoi(svParsePl(ma.m.E.Pl)["sz"])
		nsz := pick(r, 0, 1, sz-1, sz-1, sz-2, sz/2, sz+1)
		if nsz < 0 || nsz == sz {
			return ""
		}
		ma.m.E.Pl = svPlSet(ma.m.E.Pl, "sz", svI(nsz))
		return "geo-message-size"
	case 26: // geometry: an entry of a group moved onto a neighbour / past the group end (in every group that lists the child)
		if len(muxes) == 0 {
			return ""
		}
		x := muxes[r.Intn(len(muxes))]
		var ks []int
		for k := range x.Groups {
			if len(x.Groups[k]) > 0 {
				ks = append(ks, k)
			}
		}
		if len(ks) == 0 {
			return ""
		}
		k := ks[r.Intn(len(ks))]
		g := x.Groups[k]
		i := r.Intn(len(g))
		gs := svAtoi(svParsePl(x.E.Pl)["gs"])
		var np int
		name := ""
		switch r.Intn(4) {
		case 0:
			if len(g) < 2 {
				return ""
			}
			np = g[(i+1+r.Intn(len(g)-1))%len(g)].Pos
			name = "geo-group-onto-neighbour"
		case 1:
			if len(g) < 2 {
				return ""
			}
			np = g[(i+1+r.Intn(len(g)-1))%len(g)].Pos + pick(r, -2, -1, 1, 2, 3)
			name = "geo-group-near-neighbour"
		case 2:
			np = gs - pick(r, 0, 0, 1, 2, 4)
			name = "geo-group-past-end"
		case 3:
			np = g[i].Pos + pick(r, 1, 2, 3, 5, 8, 64)
			name = "geo-group-shift-right"
		}
		if np < 0 {
			np = 0
		}
		id := g[i].ID
		for kk := range x.Groups {
			for ii := range x.Groups[kk] {
				if x.Groups[kk][ii].ID == id {
					x.Groups[kk][ii].Pos = np
				}
			}
		}
		return name
	case 27: // geometry: a child copied into another group (its range may be taken there)
		if len(muxes) == 0 {
			return ""
		}
		x := muxes[r.Intn(len(muxes))]
		if len(x.Groups) < 2 {
			return ""
		}
		var ks []int
		for k := range x.Groups {
			if len(x.Groups[k]) > 0 {
				ks = append(ks, k)
			}
		}
		if len(ks) == 0 {
			return ""
		}
		k := ks[r.Intn(len(ks))]
		e := x.Groups[k][r.Intn(len(x.Groups[k]))]
		for _, f := range x.Fixed {
			if f == e.ID {
				return ""
			}
		}
		to := (k + 1 + r.Intn(len(x.Groups)-1)) % len(x.Groups)
		for _, o := range x.Groups[to] {
			if o.ID == e.ID {
				return ""
			}
		}
		x.Groups[to] = svInsertAt(x.Groups[to], r.Intn(len(x.Groups[to])+1), e)
		return "geo-copy-into-group"
	case 28: // geometry: one signal listed twice by its message / a child listed twice with a different body
		if len(msgs) == 0 {
			return ""
		}
		ma := msgs[r.Intn(len(msgs))]
		if len(ma.m.Sigs) == 0 {
			return ""
		}
		i := r.Intn(len(ma.m.Sigs))
		ma.m.Sigs = svInsertAt(ma.m.Sigs, r.Intn(len(ma.m.Sigs)+1), svClone(ma.m.Sigs[i]))
		return "geo-signal-twice"
	case 29: // geometry: the size of a type / an enum
		switch r.Intn(3) {
		case 0:
			if len(p.Types) == 0 {
				return ""
			}
			t := &p.Types[r.Intn(len(p.Types))]
			sz := svAtoi(svParsePl(t.Pl)["sz"])
			nsz := pick(r, 0, sz+1, sz+1, sz+2, sz+4, sz-1, sz+64)
			if nsz < 0 || nsz == sz {
				return ""
			}
			t.Pl = svPlSet(t.Pl, "sz", svI(nsz))
			return "geo-type-size"
		case 1:
			if len(p.Enums) == 0 {
				return ""
			}
			e := &p.Enums[r.Intn(len(p.Enums))]
			e.Pl = svPlSet(e.Pl, "ms", svI(pick(r, 1, 2, 3, 5, 8, 16))) // 0 is written as absent and loads as 1 (C12_scalar_minSize_zero): a payload difference, not geometry
			return "geo-enum-min-size"
		case 2:
			if len(p.Enums) == 0 {
				return ""
			}
			e := &p.Enums[r.Intn(len(p.Enums))]
			// the values stay sorted by index (the walk through the getters lists them so)
			pl := svParsePl(e.Pl)
			idx := pick(r, 3, 7, 8, 31, 32, 255, 256, 70000)
			var vs []string
			if pl["vs"] != "" {
				vs = strings.Split(pl["vs"], "/")
			}
			at := len(vs)
			for i, v := range vs {
				f := strings.Split(v, ":")
				if svAtoi(f[1]) == idx {
					return ""
				}
				if svAtoi(f[1]) > idx && at == len(vs) {
					at = i
				}
			}
			vs = svInsertAt(vs, at, sprintf("VX:%d:", idx))
			e.Pl = svPlSet(e.Pl, "vs", strings.Join(vs, "/"))
			return "geo-enum-index"
		}
	case 30, 31: // geometry: the group size / group count of a multiplexer
		if len(muxes) == 0 {
			return ""
		}
		x := muxes[r.Intn(len(muxes))]
		gs := svAtoi(svParsePl(x.E.Pl)["gs"])
		switch r.Intn(3) {
		case 0:
			ngs := pick(r, 0, gs-1, gs-1, gs-2, gs/2, gs+1, gs+1, gs+3, gs+40)
			if ngs < 0 || ngs == gs {
				return ""
			}
			x.E.Pl = svPlSet(x.E.Pl, "gs", svI(ngs))
			return "geo-group-size"
		case 1:
			// more groups (empty ones): the selector gets wider, the children stay where they are
			add := pick(r, 1, 1, 2, 3, 4, 12)
			x.Gc += add
			for ; add > 0; add-- {
				x.Groups = append(x.Groups, []svpRef{})
			}
			return "geo-selector-wider"
		case 2:
			// a fixed child that is listed in one group only still goes into every group
			if len(x.Fixed) == 0 || len(x.Groups) < 2 {
				return ""
			}
			id := x.Fixed[r.Intn(len(x.Fixed))]
			keep := r.Intn(len(x.Groups))
			for k := range x.Groups {
				if k == keep {
					continue
				}
				var kept []svpRef
				for _, rf := range x.Groups[k] {
					if rf.ID != id {
						kept = append(kept, rf)
					}
				}
				x.Groups[k] = kept
			}
			return "geo-fixed-listed-once"
		}
	case 32: // geometry: a listed child made fixed (it must be free in every group) / a fixed child moved
		if len(muxes) == 0 {
			return ""
		}
		x := muxes[r.Intn(len(muxes))]
		if len(x.Sigs) == 0 {
			return ""
		}
		id := x.Sigs[r.Intn(len(x.Sigs))].E.ID
		for _, f := range x.Fixed {
			if f == id {
				np := pick(r, 0, 1, 2, 4, 7)
				for kk := range x.Groups {
					for ii := range x.Groups[kk] {
						if x.Groups[kk][ii].ID == id {
							x.Groups[kk][ii].Pos = np
						}
					}
				}
				return "geo-fixed-moved"
			}
		}
		x.Fixed = append(x.Fixed, id)
		return "geo-make-fixed"
	case 33: // geometry: an enum / standard signal retargeted to a definition of another size
		if len(all) == 0 {
			return ""
		}
		sg := all[r.Intn(len(all))]
		switch sg.Body {
		case 1:
			if len(p.Types) < 2 {
				return ""
			}
			sg.Type = p.Types[r.Intn(len(p.Types))].ID
			return "geo-retarget-type"
		case 2:
			if len(p.Enums) < 2 {
				return ""
			}
			sg.Enum = p.Enums[r.Intn(len(p.Enums))].ID
			return "geo-retarget-enum"
		}
		return ""
	}
	return ""
}

// ---------------------------------------------------------------------------------------------
// scripts

func svSavedOf(d *svNet) *svpNet {
	b := svBuild(d)
	p := acmelib.VerifSaveProto(b.net)
	pn := svPNet(p, func(real string) string {
		if real == "" {
			return ""
		}
		if l, ok := b.label[real]; ok {
			return l
		}
		return "?" + real
	})
	svTiesP(pn)
	return pn
}

func (svStream) Gen(r *rand.Rand, tier string, idx int) []string {
	nest := pick(r, 0, 1, 2, 3, 3)
	d := svGenNet(r, nest)
	dj := svJSON(d)
	lines := []string{"sv save " + dj, "sv wf " + dj}
	// uint32 narrowing of a builder operation (D58): the saved tree holds the wrapped number
	if len(d.Builders) > 0 && r.Intn(3) == 0 {
		v := svClone(*d)
		b := &v.Builders[r.Intn(len(v.Builders))]
		if len(b.Ops) > 0 {
			o := &b.Ops[r.Intn(len(b.Ops))]
			if o.K != 0 && r.Intn(2) == 0 {
				o.L += 1 << 32
			} else {
				o.F += (1 + r.Intn(3)) << 32
			}
			lines = append(lines, "sv save "+svJSON(&v))
		}
	}
	saved := svSavedOf(d)
	lines = append(lines, "sv load "+svJSON(saved))
	nm := 6
	if tier == "thorough" {
		nm = 14
	}
	for k := 0; k < nm; k++ {
		mu := &svMut{r: r, p: svClone(saved)}
		names := []string{}
		want := 1
		if r.Intn(5) == 0 {
			want = 2
		}
		for try := 0; try < 30 && len(names) < want; try++ {
			if n := mu.apply(); n != "" {
				names = append(names, n)
			}
		}
		if len(names) == 0 {
			continue
		}
		lines = append(lines, "sv load "+svJSON(mu.p))
	}
	// kind / type field against the oneof, systematically: one attribute under every declared type,
	// one signal under every declared kind (the random mutation reaches a given pair too rarely)
	if n := len(saved.Attrs); n > 0 {
		i := r.Intn(n)
		for tag := 0; tag < 6; tag++ {
			if tag == saved.Attrs[i].Tag {
				continue
			}
			v := svClone(saved)
			v.Attrs[i].Tag = tag
			lines = append(lines, "sv load "+svJSON(v))
		}
	}
	{
		v := svClone(saved)
		mu := &svMut{r: r, p: v}
		if all, _ := mu.sigs(); len(all) > 0 {
			i := r.Intn(len(all))
			orig := all[i].Kind
			for kind := 0; kind < 5; kind++ {
				if kind == orig {
					continue
				}
				w := svClone(saved)
				wa, _ := (&svMut{r: r, p: w}).sigs()
				wa[i].Kind = kind
				lines = append(lines, "sv load "+svJSON(w))
			}
		}
	}
	return lines
}

func (svStream) Same(goOut, modelOut string) bool {
	if goOut == modelOut {
		return true
	}
	// children of a multiplexer that are in no group: the code names any of them (map order), the
	// model all of them
	if g, ok := strings.CutPrefix(goOut, "err notFound "); ok {
		if m, ok := strings.CutPrefix(modelOut, "err notFound "); ok && strings.Contains(m, "|") {
			for _, id := range strings.Split(m, "|") {
				if id == g {
					return true
				}
			}
		}
	}
	// two children with two positions in one group: the code names the position of whichever it
	// meets first (map order), the model the first in list order
	if strings.HasPrefix(goOut, "err twoPositions ") && strings.HasPrefix(modelOut, "err twoPositions ") {
		return true
	}
	// a tree with TWO faults in the group lists of a multiplexer (a dangling entry, a child with two
	// positions, a group index beyond the group count — from two stacked mutations): the code walks the entries of a group as a Go map and
	// reports whichever fault it meets first, the model the first in list order; both refuse
	groupFault := func(o string) bool {
		return strings.HasPrefix(o, "err twoPositions ") || strings.HasPrefix(o, "err notFound ") || strings.HasPrefix(o, "err groupId ")
	}
	if groupFault(goOut) && groupFault(modelOut) {
		return true
	}
	// a refusal of the placement: the model names the cause; for a multiplexer with several faults
	// it lists every cause the code may meet first (the entries of a group are a Go map)
	if g, ok := strings.CutPrefix(goOut, "err geom "); ok {
		if m, ok := strings.CutPrefix(modelOut, "err geom "); ok {
			for _, c := range strings.Split(m, "|") {
				if c == g {
					return true
				}
			}
			return false
		}
		// the code met the geometric fault BEFORE a structural one of the same tree (it interleaves
		// loading and placing; the model is load >=> loadGeom): both refuse, the order is not modelled
		if os.Getenv("VERIF_SV_DEBUG") != "" && strings.HasPrefix(modelOut, "err ") {
			fmt.Fprintf(os.Stderr, "sv-order go=%q model=%q\n", goOut, modelOut)
		}
		return strings.HasPrefix(modelOut, "err ")
	}
	// a refusal by a public mutator the model does not cover (names, scalar validity)
	return strings.HasPrefix(goOut, "err api ")
}

func (svStream) Tag(lines, outs []string) (bool, []string) {
	var tags []string
	for i, l := range lines {
		f := fields(l)
		if len(f) < 2 {
			continue
		}
		o := ""
		if i < len(outs) {
			o = outs[i]
		}
		switch f[1] {
		case "save":
			tags = append(tags, "save")
		case "wf":
			tags = append(tags, "wf")
		case "load":
			of := fields(o)
			switch {
			case len(of) > 0 && of[0] == "ok":
				tags = append(tags, "load:ok")
			case len(of) > 1 && of[1] == "api":
				tags = append(tags, "load:api", "load:api:"+strings.Join(of[2:], "_"))
			case len(of) > 2 && of[1] == "geom":
				tags = append(tags, "load:geom", "load:geom:"+of[2])
			case len(of) > 1:
				tags = append(tags, "load:err:"+of[1])
			default:
				tags = append(tags, "load:"+o)
			}
		}
	}
	return true, tags
}
