package main

import (
	"bytes"
	"math/rand"
	"regexp"
	"sort"
	"strconv"
	"strings"
	"sync/atomic"
	"time"

	"github.com/squadracorsepolito/acmelib"
)

// stream expimp — C11 (export then import reproduces the DBC-expressible model), C10 (a
// successful DBC import is a faithful, valid model of the file) and C09 (the DBC front end
// never crashes and locates syntax errors).  The stream has no model side: every line is an
// oracle-only line that rebuilds its input from a seed, so a script is its own replay.
//
//	oracle c11 <seed> <variant>   variant: 0..6, see eiOptsOf (3 and 5: several top-level
//	                              multiplexers per message; 4 and 5: nested multiplexers);
//	                              7: variant 1 + one class of "hard" text (quote, backslash, newline, …) in
//	                              descriptions, unit symbols, string attribute values and enum value names;
//	                              8: variant 1 + one class of odd entity name (leading digit, dash, dot, …)
//	oracle c10 <seed> <variant>   variant: 0 exported network, 1 fixture, 2 DBC-level generator,
//	                              3 token-level mutants of 0..2, 4 single-signal sweep (chunk = seed)
//	oracle c09 <seed> <variant>   variant: 0 all texts + character/token mutants, 1 raw bytes,
//	                              2 truncation at every position of a small file
//
// Output of a line: "ok n=<checked objects> [texts=<t> parsed=<p> imported=<i>]" | "panic" | "hang".
// The C10/C09 oracles and the DBC-level generator live in s_expimp_c10.go / s_expimp_gen.go.

type expimpStream struct{ baseStream }

func init() { register(expimpStream{}) }

func (expimpStream) Name() string    { return "expimp" }
func (expimpStream) Props() []string { return []string{"C10", "C11", "C09"} }

func (expimpStream) Gen(r *rand.Rand, tier string, idx int) []string {
	s := func() int64 { return 1 + r.Int63n(1<<31-2) }
	lines := []string{
		sprintf("oracle c11 %d %d", s(), pick(r, 0, 1, 1, 2, 6)),
		sprintf("oracle c11 %d %d", s(), pick(r, 3, 4, 5, 3, 4, 5, 7, 8)),
		sprintf("oracle c10 %d 0", s()),
		sprintf("oracle c10 %d 2", s()),
		sprintf("oracle c10 %d 3", s()),
		sprintf("oracle c09 %d %d", s(), pick(r, 0, 0, 1, 2)),
	}
	if idx%25 == 0 {
		lines = append(lines, sprintf("oracle c10 %d 1", idx/25))
	}
	return lines
}

func (expimpStream) Exhaustive(tier string) [][]string {
	var res [][]string
	for seed := 1; seed <= 50; seed++ {
		res = append(res, []string{
			sprintf("oracle c11 %d %d", seed, seed%7),
			sprintf("oracle c11 %d %d", seed, (seed+3)%7),
			sprintf("oracle c10 %d 2", seed),
		})
	}
	// every hard text in every place that carries text: the same classes on every run
	for i := range eiHardStrings {
		res = append(res, []string{sprintf("oracle c11 %d 7", eiHardBase+i)})
	}
	// every odd name on every kind of entity (node, message, signal): the same classes on every run
	for i := 0; i < 3*len(eiOddNames); i += 3 {
		res = append(res, []string{
			sprintf("oracle c11 %d 8", eiOddBase+i), sprintf("oracle c11 %d 8", eiOddBase+i+1), sprintf("oracle c11 %d 8", eiOddBase+i+2),
		})
	}
	// the two fixtures and the sweep over every legal (start, size, byte order) of one signal
	res = append(res, []string{"oracle c10 0 1", "oracle c10 1 1", "oracle c09 0 2", "oracle c09 1 2"})
	for chunk := 0; chunk < eiSweepChunks; chunk++ {
		res = append(res, []string{sprintf("oracle c10 %d 4", chunk)})
	}
	return res
}

func (expimpStream) Tag(lines, outs []string) (bool, []string) {
	var tags []string
	for i, l := range lines {
		f := fields(l)
		if len(f) != 4 {
			continue
		}
		tags = append(tags, f[1]+"/v"+f[3])
		if i < len(outs) {
			o := outs[i]
			switch {
			case o == "panic" || o == "hang":
				tags = append(tags, f[1]+"/v"+f[3]+"/"+o)
			case strings.HasPrefix(o, "ok n="):
				n, _ := strconv.Atoi(strings.TrimPrefix(fields(o)[1], "n="))
				b := "n=0"
				switch {
				case n >= 100:
					b = "n>=100"
				case n >= 20:
					b = "n>=20"
				case n >= 5:
					b = "n>=5"
				case n >= 1:
					b = "n>=1"
				}
				tags = append(tags, f[1]+"/v"+f[3]+"/"+b)
				var texts, parsed, imported int
				if k, _ := sscan(strings.NewReplacer("texts=", "", "parsed=", "", "imported=", "").Replace(strings.Join(fields(o)[2:], " ")), &texts, &parsed, &imported); k == 3 && texts > 0 {
					rate := func(what string, x int) string {
						switch {
						case x == 0:
							return what + "=none"
						case 2*x < texts:
							return what + "<half"
						case x < texts:
							return what + ">=half"
						}
						return what + "=all"
					}
					tags = append(tags, f[1]+"/v"+f[3]+"/"+rate("parsed", parsed), f[1]+"/v"+f[3]+"/"+rate("imported", imported))
				}
			}
		}
	}
	return len(lines) > 0, tags
}

// ---- exec ----

type eiExec struct {
	fs    []Finding
	nline int
}

func (expimpStream) NewExec() Exec    { return &eiExec{} }
func (e *eiExec) Findings() []Finding { return e.fs }

// eiCtx is the state of one oracle line; it is owned by the goroutine that runs the line.
type eiCtx struct {
	kind    string
	prop    string
	seed    int64
	variant int
	line    int
	fs      []Finding
	seen    map[string]bool
	cur     atomic.Value // string: what is being processed (for the watchdog)
	last    atomic.Int64 // when that step started
	n       int          // checked objects
	texts   int          // texts given to the parser
	parsed  int          // texts the parser accepts
	imports int          // texts the importer accepts

	sigPrefix string // class of the line's special content (C11 variants 7, 8)
	note      string
}

func (c *eiCtx) okOut() string {
	if c.kind == "c11" {
		return sprintf("ok n=%d", c.n)
	}
	return sprintf("ok n=%d texts=%d parsed=%d imported=%d", c.n, c.texts, c.parsed, c.imports)
}

const eiWatchdog = 10 * time.Second

// at names the step being processed; the watchdog measures the time since the last step, so
// that a line made of thousands of small texts is never mistaken for a hang on a loaded machine
func (c *eiCtx) at(what string) {
	c.cur.Store(what)
	c.last.Store(time.Now().UnixNano())
}

// fail records one finding per signature and line.
func (c *eiCtx) fail(prop, sig, detail string) {
	key := prop + "/" + sig
	if c.seen[key] || len(c.fs) >= 40 {
		return
	}
	c.seen[key] = true
	if prop == "C11" && c.sigPrefix != "" && !strings.Contains(sig, "is zero") {
		// the special content of the line is the cause: one signature per class and effect
		if strings.HasPrefix(sig, "c11-import-rejected:") {
			sig = "c11-import-rejected"
		}
		sig = c.sigPrefix + sig
		key = prop + "/" + sig
		detail = c.note + ": " + detail
	}
	if len(detail) > 700 {
		detail = detail[:700] + "…"
	}
	c.fs = append(c.fs, Finding{Prop: prop, Sig: sig, Detail: sprintf("%s [oracle %s %d %d]", detail, c.kind, c.seed, c.variant), Line: c.line})
}

type eiRes struct {
	out string
	fs  []Finding
}

func (e *eiExec) Do(line string) string {
	ln := e.nline
	e.nline++
	f := fields(line)
	if len(f) != 4 || f[0] != "oracle" {
		return "bad line"
	}
	seed, err1 := strconv.ParseInt(f[2], 10, 64)
	variant, err2 := strconv.Atoi(f[3])
	prop := map[string]string{"c11": "C11", "c10": "C10", "c09": "C09"}[f[1]]
	if err1 != nil || err2 != nil || prop == "" {
		return "bad line"
	}
	c := &eiCtx{kind: f[1], prop: prop, seed: seed, variant: variant, line: ln, seen: map[string]bool{}}
	c.at("start")
	ch := make(chan eiRes, 1)
	go func() {
		defer func() {
			if r := recover(); r != nil {
				c.fail(c.prop, "panic", sprintf("%v (while %v)", r, c.cur.Load()))
				ch <- eiRes{"panic", c.fs}
			}
		}()
		var out string
		switch c.kind {
		case "c11":
			out = c.runC11()
		case "c10":
			out = c.runC10()
		default:
			out = c.runC09()
		}
		ch <- eiRes{out, c.fs}
	}()
	tick := time.NewTicker(250 * time.Millisecond)
	defer tick.Stop()
	for {
		select {
		case res := <-ch:
			e.fs = append(e.fs, res.fs...)
			return res.out
		case <-tick.C:
			if time.Since(time.Unix(0, c.last.Load())) < eiWatchdog {
				continue
			}
			sig := "hang"
			if c.kind == "c09" {
				sig = "c09-hang"
			}
			e.fs = append(e.fs, Finding{Prop: prop, Sig: sig, Detail: sprintf("no answer after %v while %v [oracle %s %d %d]", eiWatchdog, c.cur.Load(), c.kind, seed, variant), Line: ln})
			return "hang"
		}
	}
}

// ---- C11: the network variants ----

func eiOptsOf(variant int) genOpts {
	switch variant {
	case 0:
		return genOpts{dbcSafe: true, maxNest: 0}
	case 1:
		return genOpts{dbcSafe: true, maxNest: 1}
	case 2:
		return genOpts{dbcSafe: true, maxNest: 1, bigNames: true}
	case 3:
		return genOpts{dbcSafe: false, maxNest: 1}
	case 4:
		return genOpts{dbcSafe: true, maxNest: 2}
	case 5:
		return genOpts{dbcSafe: false, maxNest: 2, bigNames: true}
	default:
		return genOpts{dbcSafe: true, maxNest: 1, bigNames: true, manyEqual: true}
	}
}

// eiBuild builds the network of a seed.  The shared generator can fail on its own (it draws
// node ids that collide): the seed is then replaced by the next of a fixed sequence, so that a
// line still is its own replay.
func eiBuild(seed int64, o genOpts) (g *genNet) {
	for k := int64(0); k < 50; k++ {
		func() {
			defer func() {
				if r := recover(); r != nil {
					if s, ok := r.(string); ok && strings.HasPrefix(s, "netgen:") {
						g = nil
						return
					}
					panic(r)
				}
			}()
			g = buildNetwork(rand.New(rand.NewSource(seed+k*1000003)), o)
		}()
		if g != nil {
			return g
		}
	}
	panic("netgen fails for 50 derived seeds")
}

func eiClear(s string) string { return acmelib.VerifClearSpaces(s) }

// ---- the canonical projection of a bus (public getters only) ----

type eiSigP struct {
	name, kind string
	parent     string // sanitised name of the multiplexer that holds the signal ("" = message)
	groups     []int  // group ids of the parent that contain the signal
	start      int    // absolute start bit
	size       int    // bit size (multiplexer: selector width)
	signed     bool
	scale      float64
	offset     float64
	min, max   float64
	unit       string
	enumVals   string
	selWidth   int
	desc       string
	startValue float64
	sendType   string
	attrs      map[string]string
}

type eiMsgP struct {
	canID                    uint32
	name                     string
	size                     int
	bigEndian                bool
	cycle, delay, startDelay int
	sendType                 string
	sender                   string
	receivers                []string
	desc                     string
	attrs                    map[string]string
	sigs                     map[string]*eiSigP
	order                    []string
	dup                      []string
	topMuxes, nestedMuxes    int
}

func (m *eiMsgP) multiMux() bool { return m.topMuxes >= 2 || m.nestedMuxes > 0 }

type eiBusP struct {
	nodes     []string
	nodeDesc  map[string]string
	nodeAttrs map[string]map[string]string
	desc      string
	attrs     map[string]string
	msgs      map[uint32]*eiMsgP
	order     []uint32
	dupCAN    []uint32
}

func eiAttrVal(v any) string {
	switch x := v.(type) {
	case int:
		return sprintf("%d", x)
	case float64:
		return sprintf("%g", x)
	case string:
		return strconv.Quote(x)
	}
	return sprintf("?%T:%v", v, v)
}

func eiAttrs(as []*acmelib.AttributeAssignment) map[string]string {
	res := map[string]string{}
	for _, a := range as {
		res[eiClear(a.Attribute().Name())] = eiAttrVal(a.Value())
	}
	return res
}

func eiMapStr(m map[string]string) string {
	keys := make([]string, 0, len(m))
	for k := range m {
		keys = append(keys, k)
	}
	sort.Strings(keys)
	var b strings.Builder
	for _, k := range keys {
		b.WriteString(k + "=" + m[k] + ";")
	}
	return b.String()
}

func eiEnumVals(e *acmelib.SignalEnum) string {
	var xs []string
	for _, v := range e.Values() {
		xs = append(xs, sprintf("%06d:%s", v.Index(), v.Name()))
	}
	sort.Strings(xs)
	return strings.Join(xs, ",")
}

func (m *eiMsgP) walk(s acmelib.Signal, parent string, groups []int) {
	p := &eiSigP{
		name: eiClear(s.Name()), kind: s.Kind().String(), parent: parent, groups: groups,
		start: s.GetStartBit(), size: s.GetSize(), desc: s.Desc(), startValue: s.StartValue(),
		sendType: s.SendType().String(), attrs: eiAttrs(s.AttributeAssignments()),
	}
	if _, ok := m.sigs[p.name]; ok {
		m.dup = append(m.dup, p.name)
	}
	m.sigs[p.name] = p
	m.order = append(m.order, p.name)
	switch s.Kind() {
	case acmelib.SignalKindStandard:
		st, err := s.ToStandard()
		if err != nil {
			panic(err)
		}
		t := st.Type()
		p.signed, p.scale, p.offset, p.min, p.max = t.Signed(), t.Scale(), t.Offset(), t.Min(), t.Max()
		if u := st.Unit(); u != nil {
			p.unit = u.Symbol()
		}
	case acmelib.SignalKindEnum:
		es, err := s.ToEnum()
		if err != nil {
			panic(err)
		}
		p.enumVals = eiEnumVals(es.Enum())
	case acmelib.SignalKindMultiplexer:
		mx, err := s.ToMultiplexer()
		if err != nil {
			panic(err)
		}
		p.selWidth = mx.GetGroupCountSize()
		p.size = p.selWidth // what the DBC signal of a multiplexer says
		if parent == "" {
			m.topMuxes++
		} else {
			m.nestedMuxes++
		}
		var kids []acmelib.Signal
		member := map[acmelib.EntityID][]int{}
		for gid, grp := range mx.GetSignalGroups() {
			for _, k := range grp {
				if _, ok := member[k.EntityID()]; !ok {
					kids = append(kids, k)
				}
				member[k.EntityID()] = append(member[k.EntityID()], gid)
			}
		}
		for _, k := range kids {
			m.walk(k, p.name, member[k.EntityID()])
		}
	}
}

func eiProjectMsg(msg *acmelib.Message) *eiMsgP {
	m := &eiMsgP{
		canID: uint32(msg.GetCANID()), name: eiClear(msg.Name()), size: msg.SizeByte(),
		bigEndian: msg.ByteOrder() == acmelib.MessageByteOrderBigEndian,
		cycle:     msg.CycleTime(), delay: msg.DelayTime(), startDelay: msg.StartDelayTime(),
		sendType: msg.SendType().String(), desc: msg.Desc(), attrs: eiAttrs(msg.AttributeAssignments()),
		sigs: map[string]*eiSigP{},
	}
	if ni := msg.SenderNodeInterface(); ni != nil {
		m.sender = eiClear(ni.Node().Name())
	}
	for _, rec := range msg.Receivers() {
		m.receivers = append(m.receivers, eiClear(rec.Node().Name()))
	}
	sort.Strings(m.receivers)
	for _, s := range msg.Signals() {
		m.walk(s, "", nil)
	}
	return m
}

func eiProjectBus(bus *acmelib.Bus) *eiBusP {
	b := &eiBusP{
		nodeDesc: map[string]string{}, nodeAttrs: map[string]map[string]string{},
		desc: bus.Desc(), attrs: eiAttrs(bus.AttributeAssignments()), msgs: map[uint32]*eiMsgP{},
	}
	for _, ni := range bus.NodeInterfaces() {
		n := ni.Node()
		name := eiClear(n.Name())
		b.nodes = append(b.nodes, name)
		b.nodeDesc[name] = n.Desc()
		b.nodeAttrs[name] = eiAttrs(n.AttributeAssignments())
		for _, msg := range ni.SentMessages() {
			m := eiProjectMsg(msg)
			if _, ok := b.msgs[m.canID]; ok {
				b.dupCAN = append(b.dupCAN, m.canID)
			}
			b.msgs[m.canID] = m
			b.order = append(b.order, m.canID)
		}
	}
	return b
}

// ---- C11 oracle ----

var (
	eiReLoc   = regexp.MustCompile(`[A-Za-z0-9_./-]+\.dbc:\d+:\d+`)
	eiReQuote = regexp.MustCompile(`"[^"]*"`)
	eiReIdent = regexp.MustCompile(`[A-Za-z]+_[A-Za-z0-9_]*\d[A-Za-z0-9_]*`)
	eiReNum   = regexp.MustCompile(`-?\d+(\.\d+)?`)
	eiReHexID = regexp.MustCompile(`[0-9a-f]{8}-[0-9a-f-]{20,}|[0-9a-fA-F]{24,}`)
)

// eiErrClass turns an error text into a stable class: locations, quoted texts, generated
// names, entity ids and numbers are replaced by placeholders.
func eiErrClass(err error, n int) string {
	var keep []string
	for _, seg := range strings.Split(err.Error(), " : ") {
		if strings.Contains(seg, "entity_id:") {
			continue // "<kind> error; entity_id:…, name:…" wrappers of the error chain
		}
		keep = append(keep, seg)
	}
	s := strings.Join(keep, " : ")
	s = eiReLoc.ReplaceAllString(s, "LOC")
	s = eiReHexID.ReplaceAllString(s, "ID")
	s = eiReQuote.ReplaceAllString(s, `"…"`)
	s = eiReIdent.ReplaceAllString(s, "NAME")
	s = eiReNum.ReplaceAllString(s, "N")
	s = strings.Join(strings.Fields(s), " ")
	s = strings.TrimPrefix(s, "LOC : ")
	if len(s) > n {
		s = s[:n]
	}
	return s
}

// ---- C11 variants 7 and 8: texts and names the DBC syntax has to carry ----

var eiHardStrings = [][2]string{
	{"quote", `say "hi"`}, {"backslash", `back\slash`}, {"backslash-quote", `a\"b`}, {"newline", "line1\nline2"}, {"semicolon", "semi;colon"},
	{"non-ascii", "ünï ° µ"}, {"padded", "  padded  "}, {"tab", "tab\there"}, {"percent", "100%d"}, {"cr", "a\rb"}, {"trailing-backslash", `end\`},
}

const eiOddBase = 9000000
const eiHardBase = 9100000

var eiOddNames = [][2]string{
	{"leading-digit", "1st"}, {"dash", "a-b"}, {"dot", "a.b"}, {"non-ascii", "größe"}, {"mux-indicator-M", "M"}, {"mux-indicator-m1", "m1"},
	{"keyword", "BO_"}, {"slash", "a/b"}, {"placeholder", "Vector__XXX"}, {"quote", `a"b`}, {"number", "42"}, {"tab", "a\tb"}, {"type-keyword", "INT"},
}

// eiAllSignals lists the signals of a message at every depth (once each).
func eiAllSignals(m *acmelib.Message) []acmelib.Signal {
	var res []acmelib.Signal
	seen := map[acmelib.EntityID]bool{}
	var walk func(s acmelib.Signal)
	walk = func(s acmelib.Signal) {
		if seen[s.EntityID()] {
			return
		}
		seen[s.EntityID()] = true
		res = append(res, s)
		if mx, err := s.ToMultiplexer(); err == nil {
			for _, grp := range mx.GetSignalGroups() {
				for _, k := range grp {
					walk(k)
				}
			}
		}
	}
	for _, s := range m.Signals() {
		walk(s)
	}
	return res
}

// eiDecorate applies the text / name class of the line to the network and returns the
// signature prefix and a description of what was changed.
func (c *eiCtx) eiDecorate(g *genNet) (string, string) {
	r := rand.New(rand.NewSource(c.seed ^ 0x5eed))
	var did []string
	if c.variant == 7 {
		cls := eiHardStrings[r.Intn(len(eiHardStrings))]
		all := c.seed >= eiHardBase && c.seed < eiHardBase+int64(len(eiHardStrings))
		if all {
			// the systematic part: every hard text in EVERY place that carries text, on every run
			cls = eiHardStrings[c.seed-eiHardBase]
		}
		txt := cls[1]
		for _, b := range g.buses {
			if (all || r.Intn(2) == 0) {
				b.SetDesc(txt)
				did = append(did, "bus desc")
			}
		}
		for _, n := range g.nodes {
			if (all || r.Intn(3) == 0) {
				n.SetDesc(txt)
				did = append(did, "node desc")
			}
		}
		for _, m := range g.msgs {
			if (all || r.Intn(3) == 0) {
				m.SetDesc(txt)
				did = append(did, "message desc")
			}
			if (all || r.Intn(3) == 0) && g.attrs[0].Type() == acmelib.AttributeTypeString {
				if m.AssignAttribute(g.attrs[0], txt) == nil {
					did = append(did, "message string attribute")
				}
			}
			for _, s := range eiAllSignals(m) {
				if (all || r.Intn(4) == 0) {
					s.SetDesc(txt)
					did = append(did, "signal desc")
				}
			}
		}
		if (all || r.Intn(2) == 0) {
			g.units[r.Intn(len(g.units))].SetSymbol(txt)
			did = append(did, "unit symbol")
		}
		if (all || r.Intn(2) == 0) {
			for _, e := range g.enums {
				if vs := e.Values(); len(vs) > 0 && vs[0].UpdateName(txt) == nil {
					did = append(did, "enum value name")
					break
				}
			}
		}
		return "c11-hard-string:" + cls[0] + ":", sprintf("text %q in %v", txt, did)
	}
	cls := eiOddNames[r.Intn(len(eiOddNames))]
	kind := pick(r, "node", "message", "signal")
	if c.seed >= eiOddBase && c.seed < eiOddBase+int64(3*len(eiOddNames)) {
		// the systematic part: every odd name on every kind of entity, on every run
		cls = eiOddNames[(c.seed-eiOddBase)/3]
		kind = []string{"node", "message", "signal"}[(c.seed-eiOddBase)%3]
	}
	switch kind {
	case "node":
		n := g.nodes[r.Intn(len(g.nodes))]
		if n.UpdateName(cls[1]) == nil {
			did = append(did, "node")
		}
	case "message":
		if len(g.msgs) > 0 {
			if g.msgs[r.Intn(len(g.msgs))].UpdateName(cls[1]) == nil {
				did = append(did, "message")
			}
		}
	default:
		for try := 0; try < 10 && len(did) == 0 && len(g.msgs) > 0; try++ {
			if sigs := eiAllSignals(g.msgs[r.Intn(len(g.msgs))]); len(sigs) > 0 {
				s := sigs[r.Intn(len(sigs))]
				if s.UpdateName(cls[1]) == nil {
					did = append(did, sprintf("signal (%s)", s.Kind()))
				}
			}
		}
	}
	return "c11-odd-name:" + cls[0] + ":", sprintf("name %q given to %v", cls[1], did)
}

func (c *eiCtx) runC11() string {
	opts := eiOptsOf(c.variant)
	if c.variant >= 7 {
		opts = eiOptsOf(1)
	}
	g := eiBuild(c.seed, opts)
	if c.variant >= 7 {
		c.sigPrefix, c.note = c.eiDecorate(g)
	}
	for bi, bus := range g.buses {
		c.at(sprintf("c11 bus #%d %q", bi, bus.Name()))
		var buf bytes.Buffer
		acmelib.ExportBus(&buf, bus)
		text := buf.String()
		orig := eiProjectBus(bus)
		var shapes []string
		for _, id := range orig.order {
			if m := orig.msgs[id]; m.multiMux() {
				shapes = append(shapes, sprintf("%s(top=%d,nested=%d)", m.name, m.topMuxes, m.nestedMuxes))
			}
		}
		if len(orig.dupCAN) > 0 {
			// C11 identifies messages BY CAN-ID: a bus in which two messages have the same CAN-ID
			// (a generated id that coincides with another generated or static one) has no DBC
			// form; the generator avoids it, a rare coincidence is skipped, not judged
			continue
		}
		imp, err := acmelib.ImportDBCFile("f.dbc", strings.NewReader(text))
		if err != nil {
			sig := "c11-import-rejected:" + eiErrClass(err, 60)
			if len(shapes) > 0 {
				sig = "c11-multi-mux:" + sig
			}
			c.fail("C11", sig, sprintf("bus %q: import of the exported text fails: %v; multi-mux messages: %v; offending text: %s", bus.Name(), err, shapes, eiTextAround(text, err)))
			continue
		}
		got := eiProjectBus(imp)
		c.compareBus(bus.Name(), orig, got)
		c.n += len(orig.order)
	}
	return sprintf("ok n=%d", c.n)
}

// eiTextAround returns the line of the text the error points at (if it has a location).
func eiTextAround(text string, err error) string {
	m := regexp.MustCompile(`\.dbc:(\d+):(\d+)`).FindStringSubmatch(err.Error())
	if m == nil {
		return "-"
	}
	ln, _ := strconv.Atoi(m[1])
	lines := strings.Split(text, "\n")
	if ln < 1 || ln > len(lines) {
		return "-"
	}
	return strconv.Quote(strings.TrimSpace(lines[ln-1]))
}

func eiStrsEq(a, b []string) bool {
	if len(a) != len(b) {
		return false
	}
	for i := range a {
		if a[i] != b[i] {
			return false
		}
	}
	return true
}

func eiIntsEq(a, b []int) bool {
	if len(a) != len(b) {
		return false
	}
	for i := range a {
		if a[i] != b[i] {
			return false
		}
	}
	return true
}

func (c *eiCtx) compareBus(busName string, o, g *eiBusP) {
	diff := func(field, detail string) {
		c.fail("C11", "c11-differs:"+field, sprintf("bus %q: %s", busName, detail))
	}
	if !eiStrsEq(o.nodes, g.nodes) {
		diff("node-order", sprintf("nodes %v, imported %v", o.nodes, g.nodes))
	}
	for _, n := range o.nodes {
		if _, ok := g.nodeDesc[n]; !ok {
			continue
		}
		if o.nodeDesc[n] != g.nodeDesc[n] {
			diff("node-desc", sprintf("node %s: %q, imported %q", n, o.nodeDesc[n], g.nodeDesc[n]))
		}
		if a, b := eiMapStr(o.nodeAttrs[n]), eiMapStr(g.nodeAttrs[n]); a != b {
			diff("node-attr", sprintf("node %s: %s, imported %s", n, a, b))
		}
	}
	if o.desc != g.desc {
		diff("bus-desc", sprintf("%q, imported %q", o.desc, g.desc))
	}
	if a, b := eiMapStr(o.attrs), eiMapStr(g.attrs); a != b {
		diff("bus-attr", sprintf("%s, imported %s", a, b))
	}
	if len(o.dupCAN) > 0 {
		diff("generator-duplicate-canid", sprintf("%v", o.dupCAN))
	}
	for _, id := range g.order {
		if _, ok := o.msgs[id]; !ok {
			diff("msg-extra", sprintf("imported message %s with CAN-ID %d does not exist in the bus", g.msgs[id].name, id))
		}
	}
	for _, id := range o.order {
		om := o.msgs[id]
		gm, ok := g.msgs[id]
		if !ok {
			diff("msg-missing", sprintf("message %s with CAN-ID %d is not in the imported bus", om.name, id))
			continue
		}
		c.compareMsg(busName, om, gm)
	}
}

func (c *eiCtx) compareMsg(busName string, o, g *eiMsgP) {
	pre := ""
	if o.multiMux() {
		pre = "c11-multi-mux:"
	}
	where := sprintf("bus %q message %s (CAN-ID %d, %d bytes, bigEndian=%v, top muxes %d, nested muxes %d)", busName, o.name, o.canID, o.size, o.bigEndian, o.topMuxes, o.nestedMuxes)
	diff := func(field, detail string) {
		c.fail("C11", pre+"c11-differs:"+field, where+": "+detail)
	}
	if o.name != g.name {
		diff("msg-name", sprintf("%q, imported %q", o.name, g.name))
	}
	if o.size != g.size {
		diff("msg-size", sprintf("%d, imported %d", o.size, g.size))
	}
	if len(o.order) > 0 && o.bigEndian != g.bigEndian {
		diff("msg-byteorder", sprintf("bigEndian %v, imported %v", o.bigEndian, g.bigEndian))
	}
	if o.cycle != g.cycle {
		diff("msg-cycle", sprintf("%d, imported %d", o.cycle, g.cycle))
	}
	if o.delay != g.delay {
		diff("msg-delay", sprintf("%d, imported %d", o.delay, g.delay))
	}
	if o.startDelay != g.startDelay {
		diff("msg-startdelay", sprintf("%d, imported %d", o.startDelay, g.startDelay))
	}
	if o.sendType != g.sendType {
		diff("msg-sendtype", sprintf("%s, imported %s", o.sendType, g.sendType))
	}
	if o.sender != g.sender {
		diff("msg-sender", sprintf("%s, imported %s", o.sender, g.sender))
	}
	// receivers are written per signal: a message without signals cannot carry them
	if len(o.order) > 0 && !eiStrsEq(o.receivers, g.receivers) {
		diff("msg-receivers", sprintf("%v, imported %v", o.receivers, g.receivers))
	}
	if o.desc != g.desc {
		diff("msg-desc", sprintf("%q, imported %q", o.desc, g.desc))
	}
	if a, b := eiMapStr(o.attrs), eiMapStr(g.attrs); a != b {
		diff("msg-attr", sprintf("%s, imported %s", a, b))
	}
	if len(o.dup) > 0 || len(g.dup) > 0 {
		diff("sig-name", sprintf("duplicated sanitised signal names: original %v, imported %v", o.dup, g.dup))
	}
	var missing, extra []string
	for _, n := range o.order {
		if _, ok := g.sigs[n]; !ok {
			missing = append(missing, n)
		}
	}
	for _, n := range g.order {
		if _, ok := o.sigs[n]; !ok {
			extra = append(extra, n)
		}
	}
	if len(missing)+len(extra) > 0 {
		diff("sig-name", sprintf("signals missing after import %v, unknown signals after import %v", missing, extra))
	}
	for _, n := range o.order {
		os := o.sigs[n]
		gs, ok := g.sigs[n]
		if !ok {
			continue
		}
		sw := sprintf("signal %s (%s, start %d, size %d, parent %q groups %v)", n, os.kind, os.start, os.size, os.parent, os.groups)
		sd := func(field, detail string) { diff(field, sw+": "+detail) }
		if os.kind != gs.kind {
			sd("sig-kind", sprintf("%s, imported %s", os.kind, gs.kind))
			continue
		}
		if os.start != gs.start {
			sd("sig-start", sprintf("%d, imported %d", os.start, gs.start))
		}
		switch os.kind {
		case acmelib.SignalKindMultiplexer.String():
			if os.selWidth != gs.selWidth {
				sd("mux-selector-width", sprintf("%d, imported %d", os.selWidth, gs.selWidth))
			}
		case acmelib.SignalKindEnum.String():
			if os.size != gs.size {
				sd("sig-size", sprintf("%d, imported %d", os.size, gs.size))
			}
			if os.enumVals != gs.enumVals {
				sd("sig-enum-values", sprintf("[%s], imported [%s]", os.enumVals, gs.enumVals))
			}
		default:
			if os.size != gs.size {
				sd("sig-size", sprintf("%d, imported %d", os.size, gs.size))
			}
			if os.signed != gs.signed {
				sd("sig-signed", sprintf("%v, imported %v", os.signed, gs.signed))
			}
			if os.scale != gs.scale {
				sd("sig-scale", sprintf("%v, imported %v", os.scale, gs.scale))
			}
			if os.offset != gs.offset {
				sd("sig-offset", sprintf("%v, imported %v", os.offset, gs.offset))
			}
			if os.min != gs.min {
				sd("sig-min", sprintf("%v, imported %v", os.min, gs.min))
			}
			if os.max != gs.max {
				sd("sig-max", sprintf("%v, imported %v", os.max, gs.max))
			}
			if os.unit != gs.unit {
				sd("sig-unit", sprintf("%q, imported %q", os.unit, gs.unit))
			}
		}
		if os.parent != gs.parent || !eiIntsEq(os.groups, gs.groups) {
			sd("mux-membership", sprintf("parent %q groups %v, imported parent %q groups %v", os.parent, os.groups, gs.parent, gs.groups))
		}
		if os.desc != gs.desc {
			sd("sig-desc", sprintf("%q, imported %q", os.desc, gs.desc))
		}
		if os.startValue != gs.startValue {
			sd("sig-startvalue", sprintf("%v, imported %v", os.startValue, gs.startValue))
		}
		if os.sendType != gs.sendType {
			sd("sig-sendtype", sprintf("%s, imported %s", os.sendType, gs.sendType))
		}
		if a, b := eiMapStr(os.attrs), eiMapStr(gs.attrs); a != b {
			sd("sig-attr", sprintf("%s, imported %s", a, b))
		}
	}
}
