package main

import (
	"reflect"

	"github.com/squadracorsepolito/acmelib"
)

// busProbe (line `oracle pl busprobe <msg>`, no model side): the message is sent, for a moment, by a
// node interface on a CAN 2.0A bus; sizes the BUS refuses (> 8 bytes) are asked for; each refusal
// must leave the message exactly as it was (C06) and, above all, must not leave room behind the
// payload: a 1-bit signal inserted at the first bit after the payload must be refused (C01: "bit
// ranges lie inside the payload").  Afterwards the message is detached again, so the world the
// model knows is unchanged.
func (e *plExec) busProbe(id int, line string) string {
	m := e.msgs[id]
	if m == nil {
		return "none"
	}
	if m.SizeByte() > 8 || m.SizeByte() < 0 || m.SenderNodeInterface() != nil {
		return "skip"
	}
	node := acmelib.NewNode("zz_probe_node", acmelib.NodeID(1), 1)
	ni := node.Interfaces()[0]
	bus := acmelib.NewBus("zz_probe_bus")
	if err := bus.AddNodeInterface(ni); err != nil {
		return "skip"
	}
	if err := ni.AddSentMessage(m); err != nil {
		return "skip"
	}
	defer func() { _ = ni.RemoveSentMessage(m.EntityID()) }()
	preSize, pre := m.SizeByte(), e.msgSnap(m)
	for _, want := range []int{9, 12, 64} {
		if err := m.UpdateSizeByte(want); err == nil {
			// accepted by the bus (not this property's business): put the size back
			if err := m.UpdateSizeByte(preSize); err != nil {
				e.fail("C06", "busprobe-cannot-restore", sprintf("%s: size %d accepted on a CAN 2.0A bus and %d refused afterwards: %v", line, want, preSize, err))
				return "changed"
			}
			continue
		}
		if m.SizeByte() != preSize || !reflect.DeepEqual(pre, e.msgSnap(m)) {
			e.fail("C06", "rejected-but-changed", sprintf("%s: UpdateSizeByte(%d) refused by the bus changed the message", line, want))
		}
		ft := acmelib.NewFlagSignalType("zz_probe_flag")
		tmp, err := acmelib.NewStandardSignal("zz_probe_sig", ft)
		if err != nil {
			return "skip"
		}
		if err := m.InsertSignal(tmp, m.SizeByte()*8); err == nil {
			e.fail("C01", "out-of-payload", sprintf("%s: after UpdateSizeByte(%d) was refused by the bus, a 1-bit signal was accepted at bit %d of a %d-byte message", line, want, m.SizeByte()*8, m.SizeByte()))
			_ = m.RemoveSignal(tmp.EntityID())
			return "phantom-space"
		}
	}
	return "ok"
}
