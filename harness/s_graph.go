package main

import (
	"errors"
	"math/rand"
	"sort"
	"strings"

	"github.com/squadracorsepolito/acmelib"
)

// stream graph — C04, C05, C06 on the container / registry / reference graph (networks,
// buses, nodes, node interfaces, messages without signals, CAN-ID builders, attributes and
// their assignments, signal types / units with the standard signals referencing them)
// against the Lean model Acme.Core.Graph (driver Acme.Driver.Graph).
//
// Harness ids are natural numbers, unique over ALL entity kinds of a script.  An id that
// names nothing stands for a nil argument (or a "nonexistent" entity id for Remove*).
// Names are single tokens.
//
//	gr net.new N name | gr net.addBus N B | gr net.rmBus N B | gr net.clear N
//	gr bus.new B name | gr bus.name B name | gr bus.addIface B I | gr bus.rmIface B NODE
//	gr bus.clear B | gr bus.builder B C|- | gr builder.new C
//	gr node.new N name nid k I1..Ik | gr node.name N name | gr node.id N nid
//	gr node.addIface N I | gr node.rmIface N k
//	gr msg.new M name mid size | gr msg.name M name | gr msg.id M mid | gr msg.static M c
//	gr msg.size M k | gr msg.addRecv M I | gr msg.rmRecv M NODE
//	gr iface.addSent I M | gr iface.rmSent I M | gr iface.clearSent I
//	gr iface.addRecv I M | gr iface.rmRecv I M | gr iface.clearRecv I
//	gr attr.str A | gr attr.int A dflt min max | gr attr.enum A v1..vk
//	gr assign KIND X A int v | gr assign KIND X A str s | gr assign KIND X A flt
//	gr unassign KIND X A | gr unassignAll KIND X            KIND = bus|node|msg|sig
//	gr type.new T | gr unit.new U | gr sig.new S T | gr sig.type S T | gr sig.unit S U|-
//
// mutators answer   ok | err <cause> | unsupported | panic
// (unsupported: the callee does not exist, an id is created twice, or an entity that
// already has a parent is attached again — D25, outside the model)
//
//	gr dump.net N      name=.. buses=[b:name,..] names=[a:0|1,..]
//	gr dump.bus B      name=.. net=n|- builder=c|- ifaces=[i:node:nodeName:nodeId,..] byname=[a:i|-,..] nids=[k:0|1,..] statics=[c:0|1,..] attrs=[a,..]
//	gr dump.node N     name=.. nid=.. count=.. ifaces=[i:number,..] attrs=[..]
//	gr dump.iface I    node=.. num=.. bus=b|- sent=[m,..] byname=[a:m|-,..] ids=[k:0|1,..] statics=[c:0|1,..] recv=[m,..]
//	gr dump.msg M      name=.. id=.. static=c|- size=.. sender=i|- recv=[i,..] attrs=[..]
//	gr dump.sig S      type=t unit=u|- attrs=[..]
//	gr dump.builder C | gr dump.attr A | gr dump.type T | gr dump.unit U      refs=[x,..]
//
// The `k:0|1` lists are PROBES of an index that no getter shows: 1 = the real verify…
// refuses the key.  A probe attaches a throw-away entity carrying the key through the
// public API and detaches it again.  Explicit probes for arbitrary keys:
//
//	gr probe.busname N name | gr probe.nodename B name | gr probe.nodeid B nid | gr probe.busstatic B c
//	gr probe.sentname I name | gr probe.sentid I mid | gr probe.sentstatic I c      free | used
type graphStream struct{ baseStream }

func init() { register(graphStream{}) }

func (graphStream) Name() string    { return "graph" }
func (graphStream) Parallel() bool  { return true } // no shared state: cases run on all cores
func (graphStream) Props() []string { return []string{"C04", "C05", "C06"} }

// Same: `Bus.AddNodeInterface` visits the interface's messages in map order; when one is
// oversize and another has a clashing static CAN-ID the model prints both causes.
func (graphStream) Same(a, b string) bool {
	if a == b {
		return true
	}
	if b == "err tooBig|duplicated" {
		return a == "err tooBig" || a == "err duplicated"
	}
	return false
}

var (
	grNamePool = []string{"a", "b", "c", "d"}
	grNidPool  = []uint32{0, 1, 2, 3, 7}
	grIDPool   = []uint32{0, 1, 2, 7, 100, 2047, 4294967295}
)

const (
	grProbeName  = "__probe"
	grProbeNid   = 0x7ffffff1
	grProbeMsgID = 123456789
)

type grExec struct {
	nets     map[int]*acmelib.Network
	buses    map[int]*acmelib.Bus
	nodes    map[int]*acmelib.Node
	ifaces   map[int]*acmelib.NodeInterface
	msgs     map[int]*acmelib.Message
	builders map[int]*acmelib.CANIDBuilder
	attrs    map[int]acmelib.Attribute
	types    map[int]*acmelib.SignalType
	units    map[int]*acmelib.SignalUnit
	sigs     map[int]*acmelib.StandardSignal

	netID       map[*acmelib.Network]int
	busID       map[*acmelib.Bus]int
	nodeID      map[*acmelib.Node]int
	ifaceID     map[*acmelib.NodeInterface]int
	msgID       map[*acmelib.Message]int
	builderID   map[*acmelib.CANIDBuilder]int
	oldDefaults []*acmelib.CANIDBuilder // default builders that were replaced (C05: they must have no references left)
	entID       map[acmelib.EntityID]int

	// independent bookkeeping: the interfaces of each node that were created and not removed
	live map[int][]int
	dead map[int]bool

	tmpMsg  *acmelib.Message
	tmpNode *acmelib.Node
	tmpBus  *acmelib.Bus

	fs       []Finding
	nline    int
	lastSnap string
	haveSnap bool
}

func newGrExec() *grExec {
	return &grExec{
		nets: map[int]*acmelib.Network{}, buses: map[int]*acmelib.Bus{}, nodes: map[int]*acmelib.Node{},
		ifaces: map[int]*acmelib.NodeInterface{}, msgs: map[int]*acmelib.Message{},
		builders: map[int]*acmelib.CANIDBuilder{}, attrs: map[int]acmelib.Attribute{},
		types: map[int]*acmelib.SignalType{}, units: map[int]*acmelib.SignalUnit{},
		sigs:  map[int]*acmelib.StandardSignal{},
		netID: map[*acmelib.Network]int{}, busID: map[*acmelib.Bus]int{}, nodeID: map[*acmelib.Node]int{},
		ifaceID: map[*acmelib.NodeInterface]int{}, msgID: map[*acmelib.Message]int{},
		builderID: map[*acmelib.CANIDBuilder]int{}, entID: map[acmelib.EntityID]int{},
		live: map[int][]int{}, dead: map[int]bool{},
		tmpMsg:  acmelib.NewMessage(grProbeName, grProbeMsgID, 0),
		tmpNode: acmelib.NewNode(grProbeName, grProbeNid, 1),
		tmpBus:  acmelib.NewBus(grProbeName),
	}
}

func (graphStream) NewExec() Exec     { return newGrExec() }
func (e *grExec) Findings() []Finding { return e.fs }
func (e *grExec) fail(prop, sig, d string) {
	if len(e.fs) < 12 {
		e.fs = append(e.fs, Finding{Prop: prop, Sig: sig, Detail: d, Line: e.nline})
	}
}

func optID(id int, ok bool) string {
	if !ok {
		return "-"
	}
	return sprintf("%d", id)
}

func intsStr(xs []int) string {
	sort.Ints(xs)
	ss := make([]string, len(xs))
	for i, x := range xs {
		ss[i] = sprintf("%d", x)
	}
	return listStr(ss)
}

func bit(b bool) string {
	if b {
		return "1"
	}
	return "0"
}

// ---- probes: is the key refused by the real verify… ?  (world left unchanged) ----

func (e *grExec) resetTmpMsg(name string) {
	e.tmpMsg.UpdateID(grProbeMsgID) // detached: also drops a static CAN-ID
	e.tmpMsg.UpdateName(name)
}

func (e *grExec) tryTmpMsg(ni *acmelib.NodeInterface) bool {
	if err := ni.AddSentMessage(e.tmpMsg); err != nil {
		return true
	}
	if err := ni.RemoveSentMessage(e.tmpMsg.EntityID()); err != nil {
		e.fail("C04", "probe-not-undone", "RemoveSentMessage of the probe message: "+err.Error())
	}
	return false
}

func (e *grExec) probeSentName(ni *acmelib.NodeInterface, name string) bool {
	e.resetTmpMsg(name)
	return e.tryTmpMsg(ni)
}

func (e *grExec) probeSentID(ni *acmelib.NodeInterface, mid uint32) bool {
	e.resetTmpMsg(grProbeName)
	e.tmpMsg.UpdateID(acmelib.MessageID(mid))
	used := e.tryTmpMsg(ni)
	e.resetTmpMsg(grProbeName)
	return used
}

func (e *grExec) probeSentStatic(ni *acmelib.NodeInterface, c uint32) bool {
	e.resetTmpMsg(grProbeName)
	e.tmpMsg.SetStaticCANID(acmelib.CANID(c))
	used := e.tryTmpMsg(ni)
	e.resetTmpMsg(grProbeName)
	return used
}

func (e *grExec) tryTmpNode(b *acmelib.Bus) bool {
	ti := e.tmpNode.Interfaces()[0]
	if err := b.AddNodeInterface(ti); err != nil {
		return true
	}
	if err := b.RemoveNodeInterface(e.tmpNode.EntityID()); err != nil {
		e.fail("C04", "probe-not-undone", "RemoveNodeInterface of the probe node: "+err.Error())
	}
	return false
}

func (e *grExec) resetTmpNode(name string, nid uint32) {
	e.tmpNode.Interfaces()[0].RemoveAllSentMessages()
	e.tmpNode.UpdateName(name)
	e.tmpNode.UpdateID(acmelib.NodeID(nid))
}

func (e *grExec) probeNodeName(b *acmelib.Bus, name string) bool {
	e.resetTmpNode(name, grProbeNid)
	return e.tryTmpNode(b)
}

func (e *grExec) probeNodeID(b *acmelib.Bus, nid uint32) bool {
	e.resetTmpNode(grProbeName, nid)
	return e.tryTmpNode(b)
}

func (e *grExec) probeBusStatic(b *acmelib.Bus, c uint32) bool {
	e.resetTmpNode(grProbeName, grProbeNid)
	e.resetTmpMsg(grProbeName)
	e.tmpMsg.SetStaticCANID(acmelib.CANID(c))
	ti := e.tmpNode.Interfaces()[0]
	if err := ti.AddSentMessage(e.tmpMsg); err != nil {
		e.fail("C04", "probe-not-undone", "probe interface refused the probe message: "+err.Error())
	}
	used := e.tryTmpNode(b)
	ti.RemoveAllSentMessages()
	e.resetTmpMsg(grProbeName)
	return used
}

func (e *grExec) probeBusName(n *acmelib.Network, name string) bool {
	e.tmpBus.UpdateName(name)
	if err := n.AddBus(e.tmpBus); err != nil {
		return true
	}
	if err := n.RemoveBus(e.tmpBus.EntityID()); err != nil {
		e.fail("C04", "probe-not-undone", "RemoveBus of the probe bus: "+err.Error())
	}
	return false
}

// ---- dumps (public getters + probes) ----

func (e *grExec) attrIDs(as []*acmelib.AttributeAssignment) string {
	var xs []int
	for _, a := range as {
		id, ok := e.entID[a.Attribute().EntityID()]
		if !ok {
			id = -1
		}
		xs = append(xs, id)
	}
	return intsStr(xs)
}

func (e *grExec) msgIDs(ms []*acmelib.Message) []int {
	var xs []int
	for _, m := range ms {
		id, ok := e.msgID[m]
		if !ok {
			id = -1
		}
		xs = append(xs, id)
	}
	return xs
}

func (e *grExec) dumpNet(id int) string {
	n := e.nets[id]
	if n == nil {
		return "none"
	}
	type bn struct {
		id   int
		name string
	}
	var bs []bn
	for _, b := range n.Buses() {
		bid, ok := e.busID[b]
		if !ok {
			bid = -1
		}
		bs = append(bs, bn{bid, b.Name()})
	}
	sort.Slice(bs, func(i, j int) bool { return bs[i].id < bs[j].id })
	var bl, nl []string
	for _, b := range bs {
		bl = append(bl, sprintf("%d:%s", b.id, b.name))
	}
	for _, s := range grNamePool {
		nl = append(nl, s+":"+bit(e.probeBusName(n, s)))
	}
	return sprintf("name=%s buses=%s names=%s", n.Name(), listStr(bl), listStr(nl))
}

func (e *grExec) busLookup(b *acmelib.Bus, name string) (out string) {
	defer func() {
		if r := recover(); r != nil {
			out = "panic"
		}
	}()
	ni, err := b.GetNodeInterfaceByNodeName(name)
	if err != nil {
		if errors.Is(err, acmelib.ErrNotFound) {
			return "-"
		}
		return "?"
	}
	id, ok := e.ifaceID[ni]
	if !ok {
		return "?"
	}
	return sprintf("%d", id)
}

func (e *grExec) sentLookup(ni *acmelib.NodeInterface, name string) (out string) {
	defer func() {
		if r := recover(); r != nil {
			out = "panic"
		}
	}()
	m, err := ni.GetSentMessageByName(name)
	if err != nil {
		if errors.Is(err, acmelib.ErrNotFound) {
			return "-"
		}
		return "?"
	}
	id, ok := e.msgID[m]
	if !ok {
		return "?"
	}
	return sprintf("%d", id)
}

func (e *grExec) dumpBus(id int) string {
	b := e.buses[id]
	if b == nil {
		return "none"
	}
	nid, nok := e.netID[b.ParentNetwork()]
	cid, cok := e.builderID[b.CANIDBuilder()]
	type ent struct {
		i, n int
		name string
		nid  uint32
	}
	var es []ent
	for _, ni := range b.NodeInterfaces() {
		ii, ok := e.ifaceID[ni]
		if !ok {
			ii = -1
		}
		nn, ok := e.nodeID[ni.Node()]
		if !ok {
			nn = -1
		}
		es = append(es, ent{ii, nn, ni.Node().Name(), uint32(ni.Node().ID())})
	}
	sort.Slice(es, func(i, j int) bool { return es[i].i < es[j].i })
	var il, bl, nl, sl []string
	for _, x := range es {
		il = append(il, sprintf("%d:%d:%s:%d", x.i, x.n, x.name, x.nid))
	}
	for _, s := range grNamePool {
		bl = append(bl, s+":"+e.busLookup(b, s))
	}
	for _, k := range grNidPool {
		nl = append(nl, sprintf("%d:%s", k, bit(e.probeNodeID(b, k))))
	}
	for _, k := range grIDPool {
		sl = append(sl, sprintf("%d:%s", k, bit(e.probeBusStatic(b, k))))
	}
	return sprintf("name=%s net=%s builder=%s ifaces=%s byname=%s nids=%s statics=%s attrs=%s",
		b.Name(), optID(nid, nok), optID(cid, cok), listStr(il), listStr(bl), listStr(nl), listStr(sl), e.attrIDs(b.AttributeAssignments()))
}

// ifaceCount: the smallest k that GetInterface refuses as out of bounds (= interfaceCount).
func ifaceCount(n *acmelib.Node) (out string) {
	defer func() {
		if r := recover(); r != nil {
			out = "panic"
		}
	}()
	for k := 0; k < 64; k++ {
		if _, err := n.GetInterface(k); err != nil {
			return sprintf("%d", k)
		}
	}
	return "64+"
}

func (e *grExec) dumpNode(id int) string {
	n := e.nodes[id]
	if n == nil {
		return "none"
	}
	var il []string
	for _, ni := range n.Interfaces() {
		ii, ok := e.ifaceID[ni]
		if !ok {
			ii = -1
		}
		il = append(il, sprintf("%d:%d", ii, ni.Number()))
	}
	return sprintf("name=%s nid=%d count=%s ifaces=%s attrs=%s", n.Name(), uint32(n.ID()), ifaceCount(n), listStr(il), e.attrIDs(n.AttributeAssignments()))
}

func (e *grExec) dumpIface(id int) string {
	ni := e.ifaces[id]
	if ni == nil {
		return "none"
	}
	nn, ok := e.nodeID[ni.Node()]
	if !ok {
		nn = -1
	}
	bid, bok := e.busID[ni.ParentBus()]
	var bl, il, sl []string
	for _, s := range grNamePool {
		bl = append(bl, s+":"+e.sentLookup(ni, s))
	}
	for _, k := range grIDPool {
		il = append(il, sprintf("%d:%s", k, bit(e.probeSentID(ni, k))))
	}
	for _, k := range grIDPool {
		sl = append(sl, sprintf("%d:%s", k, bit(e.probeSentStatic(ni, k))))
	}
	return sprintf("node=%d num=%d bus=%s sent=%s byname=%s ids=%s statics=%s recv=%s",
		nn, ni.Number(), optID(bid, bok), intsStr(e.msgIDs(ni.SentMessages())), listStr(bl), listStr(il), listStr(sl), intsStr(e.msgIDs(ni.ReceivedMessages())))
}

func (e *grExec) dumpMsg(id int) string {
	m := e.msgs[id]
	if m == nil {
		return "none"
	}
	st := "-"
	if m.HasStaticCANID() {
		st = sprintf("%d", uint32(m.GetCANID()))
	}
	sid, sok := e.ifaceID[m.SenderNodeInterface()]
	var rs []int
	for _, r := range m.Receivers() {
		ri, ok := e.ifaceID[r]
		if !ok {
			ri = -1
		}
		rs = append(rs, ri)
	}
	return sprintf("name=%s id=%d static=%s size=%d sender=%s recv=%s attrs=%s",
		m.Name(), uint32(m.ID()), st, m.SizeByte(), optID(sid, sok), intsStr(rs), e.attrIDs(m.AttributeAssignments()))
}

func (e *grExec) dumpSig(id int) string {
	s := e.sigs[id]
	if s == nil {
		return "none"
	}
	t := -1
	if s.Type() != nil {
		if x, ok := e.entID[s.Type().EntityID()]; ok {
			t = x
		}
	}
	u, uok := 0, false
	if s.Unit() != nil {
		u, uok = e.entID[s.Unit().EntityID()]
		if !uok {
			u, uok = -1, true
		}
	}
	return sprintf("type=%d unit=%s attrs=%s", t, optID(u, uok), e.attrIDs(s.AttributeAssignments()))
}

func (e *grExec) refIDs(ids []acmelib.EntityID) string {
	var xs []int
	for _, id := range ids {
		x, ok := e.entID[id]
		if !ok {
			x = -1
		}
		xs = append(xs, x)
	}
	return "refs=" + intsStr(xs)
}

func (e *grExec) dumpBuilder(id int) string {
	c := e.builders[id]
	if c == nil {
		return "none"
	}
	var ids []acmelib.EntityID
	for _, b := range c.References() {
		ids = append(ids, b.EntityID())
	}
	return e.refIDs(ids)
}

func (e *grExec) dumpAttr(id int) string {
	a := e.attrs[id]
	if a == nil {
		return "none"
	}
	var ids []acmelib.EntityID
	for _, r := range a.References() {
		ids = append(ids, r.EntityID())
	}
	return e.refIDs(ids)
}

func (e *grExec) dumpType(id int) string {
	t := e.types[id]
	if t == nil {
		return "none"
	}
	var ids []acmelib.EntityID
	for _, r := range t.References() {
		ids = append(ids, r.EntityID())
	}
	return e.refIDs(ids)
}

func (e *grExec) dumpUnit(id int) string {
	u := e.units[id]
	if u == nil {
		return "none"
	}
	var ids []acmelib.EntityID
	for _, r := range u.References() {
		ids = append(ids, r.EntityID())
	}
	return e.refIDs(ids)
}

// snapshot: every observable of the whole world (all dumps incl. the index probes, plus
// the derived CAN-IDs and the assigned values).
func (e *grExec) snapshot() string {
	var b strings.Builder
	for _, id := range sortedKeys(e.nets) {
		b.WriteString(sprintf("N%d{%s}", id, e.dumpNet(id)))
	}
	for _, id := range sortedKeys(e.buses) {
		b.WriteString(sprintf("B%d{%s", id, e.dumpBus(id)))
		for _, a := range e.buses[id].AttributeAssignments() {
			b.WriteString(sprintf(" %v", a.Value()))
		}
		bd := e.buses[id].CANIDBuilder()
		if bd != nil {
			b.WriteString(sprintf(" rc=%d", bd.ReferenceCount()))
		}
		b.WriteString("}")
	}
	for _, id := range sortedKeys(e.nodes) {
		b.WriteString(sprintf("D%d{%s", id, e.dumpNode(id)))
		for _, a := range e.nodes[id].AttributeAssignments() {
			b.WriteString(sprintf(" %v", a.Value()))
		}
		b.WriteString("}")
	}
	for _, id := range sortedKeys(e.ifaces) {
		b.WriteString(sprintf("I%d{%s}", id, e.dumpIface(id)))
	}
	for _, id := range sortedKeys(e.msgs) {
		b.WriteString(sprintf("M%d{%s canid=%d", id, e.dumpMsg(id), uint32(e.msgs[id].GetCANID())))
		for _, a := range e.msgs[id].AttributeAssignments() {
			b.WriteString(sprintf(" %v", a.Value()))
		}
		b.WriteString("}")
	}
	for _, id := range sortedKeys(e.sigs) {
		b.WriteString(sprintf("S%d{%s", id, e.dumpSig(id)))
		for _, a := range e.sigs[id].AttributeAssignments() {
			b.WriteString(sprintf(" %v", a.Value()))
		}
		b.WriteString("}")
	}
	for _, id := range sortedKeys(e.builders) {
		b.WriteString(sprintf("C%d{%s %d}", id, e.dumpBuilder(id), e.builders[id].ReferenceCount()))
	}
	for _, id := range sortedKeys(e.attrs) {
		b.WriteString(sprintf("A%d{%s}", id, e.dumpAttr(id)))
	}
	for _, id := range sortedKeys(e.types) {
		b.WriteString(sprintf("T%d{%s %d}", id, e.dumpType(id), e.types[id].ReferenceCount()))
	}
	for _, id := range sortedKeys(e.units) {
		b.WriteString(sprintf("U%d{%s %d}", id, e.dumpUnit(id), e.units[id].ReferenceCount()))
	}
	return b.String()
}

// ---- oracles, in the words of the properties (no reference to the model) ----

func msgStaticKey(m *acmelib.Message) (uint32, bool) {
	if m.HasStaticCANID() {
		return uint32(m.GetCANID()), true
	}
	return 0, false
}

func (e *grExec) checkC04(where string) {
	// static CAN-IDs carried on each bus (through its listed interfaces)
	busStatics := map[*acmelib.Bus]map[uint32]int{}
	for _, id := range sortedKeys(e.buses) {
		b := e.buses[id]
		st := map[uint32]int{}
		names := map[string]int{}
		nids := map[uint32]int{}
		carrier := map[string]*acmelib.NodeInterface{}
		for _, ni := range b.NodeInterfaces() {
			names[ni.Node().Name()]++
			nids[uint32(ni.Node().ID())]++
			carrier[ni.Node().Name()] = ni
			for _, m := range ni.SentMessages() {
				if c, ok := msgStaticKey(m); ok {
					st[c]++
				}
			}
		}
		busStatics[b] = st
		for k, c := range names {
			if c > 1 {
				e.fail("C04", "index-vs-contents:bus-node-names", sprintf("%s: bus %d lists %d nodes named %s", where, id, c, k))
			}
		}
		for k, c := range nids {
			if c > 1 {
				e.fail("C04", "index-vs-contents:bus-node-ids", sprintf("%s: bus %d lists %d nodes with id %d", where, id, c, k))
			}
		}
		for k, c := range st {
			if c > 1 {
				e.fail("C04", "index-vs-contents:bus-static-canids", sprintf("%s: bus %d carries %d messages with static CAN-ID %d", where, id, c, k))
			}
		}
		for _, s := range grNamePool {
			used := e.probeNodeName(b, s)
			e.keyVerdict("bus-node-names", where, sprintf("bus %d name %s", id, s), used, names[s] > 0)
			got := e.busLookup(b, s)
			want := "-"
			if ni := carrier[s]; ni != nil {
				want = sprintf("%d", e.ifaceID[ni])
			}
			if got != want && names[s] <= 1 {
				e.fail("C04", "lookup-wrong-entity:bus-node-names", sprintf("%s: bus %d GetNodeInterfaceByNodeName(%s) = %s, the carrier is %s", where, id, s, got, want))
			}
		}
		for _, k := range grNidPool {
			e.keyVerdict("bus-node-ids", where, sprintf("bus %d node id %d", id, k), e.probeNodeID(b, k), nids[k] > 0)
		}
		for _, k := range grIDPool {
			e.keyVerdict("bus-static-canids", where, sprintf("bus %d static CAN-ID %d", id, k), e.probeBusStatic(b, k), st[k] > 0)
		}
	}
	for _, id := range sortedKeys(e.ifaces) {
		ni := e.ifaces[id]
		names := map[string]int{}
		ids := map[uint32]int{}
		st := map[uint32]int{}
		carrier := map[string]*acmelib.Message{}
		for _, m := range ni.SentMessages() {
			names[m.Name()]++
			carrier[m.Name()] = m
			if c, ok := msgStaticKey(m); ok {
				st[c]++
			} else {
				ids[uint32(m.ID())]++
			}
		}
		for k, c := range names {
			if c > 1 {
				e.fail("C04", "index-vs-contents:sent-names", sprintf("%s: interface %d sends %d messages named %s", where, id, c, k))
			}
		}
		for k, c := range ids {
			if c > 1 {
				e.fail("C04", "index-vs-contents:sent-ids", sprintf("%s: interface %d sends %d messages with generated CAN-ID and id %d", where, id, c, k))
			}
		}
		for k, c := range st {
			if c > 1 {
				e.fail("C04", "index-vs-contents:sent-static-canids", sprintf("%s: interface %d sends %d messages with static CAN-ID %d", where, id, c, k))
			}
		}
		for _, s := range grNamePool {
			e.keyVerdict("sent-names", where, sprintf("interface %d name %s", id, s), e.probeSentName(ni, s), names[s] > 0)
			got := e.sentLookup(ni, s)
			want := "-"
			if m := carrier[s]; m != nil {
				want = sprintf("%d", e.msgID[m])
			}
			if got != want && names[s] <= 1 {
				e.fail("C04", "lookup-wrong-entity:sent-names", sprintf("%s: interface %d GetSentMessageByName(%s) = %s, the carrier is %s", where, id, s, got, want))
			}
		}
		for _, k := range grIDPool {
			e.keyVerdict("sent-ids", where, sprintf("interface %d message id %d", id, k), e.probeSentID(ni, k), ids[k] > 0)
		}
		for _, k := range grIDPool {
			inUse := st[k] > 0
			if pb := ni.ParentBus(); pb != nil && busStatics[pb] != nil && busStatics[pb][k] > 0 {
				inUse = true
			}
			e.keyVerdict("sent-static-canids", where, sprintf("interface %d static CAN-ID %d", id, k), e.probeSentStatic(ni, k), inUse)
		}
	}
	for _, id := range sortedKeys(e.nets) {
		n := e.nets[id]
		names := map[string]int{}
		for _, b := range n.Buses() {
			names[b.Name()]++
		}
		for k, c := range names {
			if c > 1 {
				e.fail("C04", "index-vs-contents:net-bus-names", sprintf("%s: network %d lists %d buses named %s", where, id, c, k))
			}
		}
		for _, s := range grNamePool {
			e.keyVerdict("net-bus-names", where, sprintf("network %d name %s", id, s), e.probeBusName(n, s), names[s] > 0)
		}
	}
}

func (e *grExec) keyVerdict(which, where, what string, refused, inUse bool) {
	if refused && !inUse {
		e.fail("C04", "released-key-refused:"+which, sprintf("%s: %s is carried by nothing but refused", where, what))
	}
	if !refused && inUse {
		e.fail("C04", "used-key-accepted:"+which, sprintf("%s: %s is in use but accepted", where, what))
	}
}

func (e *grExec) checkC05(where string) {
	// message <-> sender interface
	sentBy := map[*acmelib.Message]int{}
	for _, id := range sortedKeys(e.ifaces) {
		ni := e.ifaces[id]
		seen := map[*acmelib.Message]bool{}
		for _, m := range ni.SentMessages() {
			if seen[m] {
				e.fail("C05", "listed-twice", sprintf("%s: interface %d lists message %d twice", where, id, e.msgID[m]))
			}
			seen[m] = true
			sentBy[m]++
			if m.SenderNodeInterface() != ni {
				e.fail("C05", "parent-child-asymmetric:message-sender", sprintf("%s: interface %d lists message %d whose sender is %s", where, id, e.msgID[m], optID(e.ifaceID[m.SenderNodeInterface()], m.SenderNodeInterface() != nil)))
			}
		}
		for _, m := range ni.ReceivedMessages() {
			found := false
			sameNode := false
			for _, r := range m.Receivers() {
				if r == ni {
					found = true
				} else if r.Node() == ni.Node() {
					sameNode = true
				}
			}
			if !found {
				sig := "parent-child-asymmetric:message-receiver"
				if sameNode {
					sig = "receivers-keyed-by-node"
				}
				e.fail("C05", sig, sprintf("%s: interface %d receives message %d which does not list it", where, id, e.msgID[m]))
			}
		}
		if b := ni.ParentBus(); b != nil {
			found := false
			for _, x := range b.NodeInterfaces() {
				if x == ni {
					found = true
				}
			}
			if !found {
				e.fail("C05", "parent-child-asymmetric:interface-bus", sprintf("%s: interface %d reports bus %d which does not list it", where, id, e.busID[b]))
			}
		}
	}
	for _, id := range sortedKeys(e.msgs) {
		m := e.msgs[id]
		if sentBy[m] > 1 {
			e.fail("C05", "listed-twice", sprintf("%s: message %d is sent by %d interfaces", where, id, sentBy[m]))
		}
		if s := m.SenderNodeInterface(); s != nil {
			found := false
			for _, x := range s.SentMessages() {
				if x == m {
					found = true
				}
			}
			if !found {
				e.fail("C05", "parent-child-asymmetric:message-sender", sprintf("%s: message %d reports sender %d which does not list it", where, id, e.ifaceID[s]))
			}
		}
		for _, r := range m.Receivers() {
			found := false
			for _, x := range r.ReceivedMessages() {
				if x == m {
					found = true
				}
			}
			if !found {
				e.fail("C05", "parent-child-asymmetric:message-receiver", sprintf("%s: message %d lists receiver %d which does not receive it", where, id, e.ifaceID[r]))
			}
		}
	}
	// interface <-> bus, bus <-> network
	onBus := map[*acmelib.NodeInterface]int{}
	for _, id := range sortedKeys(e.buses) {
		b := e.buses[id]
		for _, ni := range b.NodeInterfaces() {
			onBus[ni]++
			if ni.ParentBus() != b {
				e.fail("C05", "parent-child-asymmetric:interface-bus", sprintf("%s: bus %d lists interface %d whose bus is %s", where, id, e.ifaceID[ni], optID(e.busID[ni.ParentBus()], ni.ParentBus() != nil)))
			}
		}
		if n := b.ParentNetwork(); n != nil {
			found := false
			for _, x := range n.Buses() {
				if x == b {
					found = true
				}
			}
			if !found {
				e.fail("C05", "parent-child-asymmetric:bus-network", sprintf("%s: bus %d reports network %d which does not list it", where, id, e.netID[n]))
			}
		}
	}
	for ni, c := range onBus {
		if c > 1 {
			e.fail("C05", "listed-twice", sprintf("%s: interface %d is listed by %d buses", where, e.ifaceID[ni], c))
		}
	}
	inNet := map[*acmelib.Bus]int{}
	for _, id := range sortedKeys(e.nets) {
		n := e.nets[id]
		for _, b := range n.Buses() {
			inNet[b]++
			if b.ParentNetwork() != n {
				e.fail("C05", "parent-child-asymmetric:bus-network", sprintf("%s: network %d lists bus %d whose network is %s", where, id, e.busID[b], optID(e.netID[b.ParentNetwork()], b.ParentNetwork() != nil)))
			}
		}
	}
	for b, c := range inNet {
		if c > 1 {
			e.fail("C05", "listed-twice", sprintf("%s: bus %d is listed by %d networks", where, e.busID[b], c))
		}
	}
	// references: exactly the current users
	for _, id := range sortedKeys(e.builders) {
		c := e.builders[id]
		var want, got []int
		for _, bid := range sortedKeys(e.buses) {
			if e.buses[bid].CANIDBuilder() == c {
				want = append(want, bid)
			}
		}
		for _, b := range c.References() {
			got = append(got, e.busID[b])
		}
		if intsStr(got) != intsStr(want) || c.ReferenceCount() != len(want) {
			e.fail("C05", "refs-not-exact:canid-builder", sprintf("%s: builder %d references %s (count %d), used by %s", where, id, intsStr(got), c.ReferenceCount(), intsStr(want)))
		}
	}
	for _, old := range e.oldDefaults {
		inUse := false
		for _, b := range e.buses {
			inUse = inUse || b.CANIDBuilder() == old
		}
		if !inUse && (len(old.References()) != 0 || old.ReferenceCount() != 0) {
			e.fail("C05", "refs-not-exact:canid-builder", sprintf("%s: a default builder that was replaced still has %d references", where, old.ReferenceCount()))
		}
	}
	for _, bid := range sortedKeys(e.buses) {
		b := e.buses[bid]
		c := b.CANIDBuilder()
		if c == nil {
			e.fail("C05", "refs-not-exact:canid-builder", sprintf("%s: bus %d has no CAN-ID builder", where, bid))
			continue
		}
		if _, user := e.builderID[c]; !user {
			if rs := c.References(); len(rs) != 1 || rs[0] != b || c.ReferenceCount() != 1 {
				e.fail("C05", "refs-not-exact:canid-builder", sprintf("%s: default builder of bus %d has %d references", where, bid, c.ReferenceCount()))
			}
		}
	}
	for _, id := range sortedKeys(e.attrs) {
		a := e.attrs[id]
		var want, got []int
		users := func(x int, as []*acmelib.AttributeAssignment) {
			for _, as := range as {
				if as.Attribute() == a {
					want = append(want, x)
				}
			}
		}
		for _, x := range sortedKeys(e.buses) {
			users(x, e.buses[x].AttributeAssignments())
		}
		for _, x := range sortedKeys(e.nodes) {
			users(x, e.nodes[x].AttributeAssignments())
		}
		for _, x := range sortedKeys(e.msgs) {
			users(x, e.msgs[x].AttributeAssignments())
		}
		for _, x := range sortedKeys(e.sigs) {
			users(x, e.sigs[x].AttributeAssignments())
		}
		for _, r := range a.References() {
			x, ok := e.entID[r.EntityID()]
			if !ok {
				x = -1
			}
			got = append(got, x)
		}
		if intsStr(got) != intsStr(want) {
			e.fail("C05", "refs-not-exact:attribute", sprintf("%s: attribute %d references %s, assigned to %s", where, id, intsStr(got), intsStr(want)))
		}
	}
	for _, id := range sortedKeys(e.types) {
		t := e.types[id]
		var want, got []int
		for _, s := range sortedKeys(e.sigs) {
			if e.sigs[s].Type() == t {
				want = append(want, s)
			}
		}
		for _, r := range t.References() {
			got = append(got, e.entID[r.EntityID()])
		}
		if intsStr(got) != intsStr(want) || t.ReferenceCount() != len(want) {
			e.fail("C05", "refs-not-exact:signal-type", sprintf("%s: type %d references %s, used by %s", where, id, intsStr(got), intsStr(want)))
		}
	}
	for _, id := range sortedKeys(e.units) {
		u := e.units[id]
		var want, got []int
		for _, s := range sortedKeys(e.sigs) {
			if e.sigs[s].Unit() == u {
				want = append(want, s)
			}
		}
		for _, r := range u.References() {
			got = append(got, e.entID[r.EntityID()])
		}
		if intsStr(got) != intsStr(want) || u.ReferenceCount() != len(want) {
			e.fail("C05", "refs-not-exact:signal-unit", sprintf("%s: unit %d references %s, used by %s", where, id, intsStr(got), intsStr(want)))
		}
	}
	// interfaces of a node: exactly those not removed, numbered 0..n-1 in order
	for _, id := range sortedKeys(e.nodes) {
		n := e.nodes[id]
		ifs := n.Interfaces()
		want := e.live[id]
		bad := len(ifs) != len(want)
		for k, ni := range ifs {
			if ni.Number() != k || ni.Node() != n {
				bad = true
			}
			if k < len(want) && e.ifaceID[ni] != want[k] {
				bad = true
			}
			if g, err := n.GetInterface(k); err != nil || g != ni {
				bad = true
			}
		}
		if ifaceCount(n) != sprintf("%d", len(want)) {
			bad = true
		}
		if bad {
			e.fail("C05", "interface-numbering", sprintf("%s: node %d: %s, not removed: %v", where, id, e.dumpNode(id), want))
		}
	}
}

// ---- interpreter ----

func (e *grExec) Do(line string) string {
	defer func() { e.nline++ }()
	f := fields(line)
	if len(f) < 2 || f[0] != "gr" {
		return "bad-op"
	}
	cmd, a := f[1], f[2:]
	if strings.HasPrefix(cmd, "dump.") || strings.HasPrefix(cmd, "probe.") {
		if len(a) < 1 {
			return "bad-op"
		}
		return e.observe(cmd, a)
	}
	if !e.haveSnap {
		e.lastSnap, e.haveSnap = e.snapshot(), true
	}
	before := e.lastSnap
	out := e.mutate(cmd, a)
	after := e.snapshot()
	e.lastSnap = after
	if strings.HasPrefix(out, "err") {
		if after != before {
			e.fail("C06", "rejected-but-changed", sprintf("%s -> %s: %s", line, out, snapDiff(before, after)))
		}
		if out == "err undocumented" {
			e.fail("C06", "undocumented-cause", line)
		}
	}
	if out == "panic" {
		e.fail("C06", "panic", line)
	}
	if out == "unsupported" && after != before {
		e.fail("C06", "harness-unsupported-changed", line)
	}
	e.checkC04(line)
	e.checkC05(line)
	if s := e.snapshot(); s != after {
		e.fail("C04", "probe-not-undone", sprintf("%s: the probes changed the world: %s", line, snapDiff(after, s)))
		e.lastSnap = s
	}
	return out
}

func snapDiff(a, b string) string {
	as, bs := strings.Split(a, "}"), strings.Split(b, "}")
	for i := range as {
		if i >= len(bs) || as[i] != bs[i] {
			o := ""
			if i < len(bs) {
				o = bs[i]
			}
			return as[i] + "}  =>  " + o + "}"
		}
	}
	return "(longer)"
}

func (e *grExec) observe(cmd string, a []string) string {
	id := atoi(a[0])
	switch cmd {
	case "dump.net":
		return e.dumpNet(id)
	case "dump.bus":
		return e.dumpBus(id)
	case "dump.node":
		return e.dumpNode(id)
	case "dump.iface":
		return e.dumpIface(id)
	case "dump.msg":
		return e.dumpMsg(id)
	case "dump.sig":
		return e.dumpSig(id)
	case "dump.builder":
		return e.dumpBuilder(id)
	case "dump.attr":
		return e.dumpAttr(id)
	case "dump.type":
		return e.dumpType(id)
	case "dump.unit":
		return e.dumpUnit(id)
	}
	if len(a) < 2 {
		return "bad-op"
	}
	us := func(b bool) string {
		if b {
			return "used"
		}
		return "free"
	}
	switch cmd {
	case "probe.busname":
		if n := e.nets[id]; n != nil {
			return us(e.probeBusName(n, a[1]))
		}
		return "none"
	case "probe.nodename", "probe.nodeid", "probe.busstatic":
		b := e.buses[id]
		if b == nil {
			return "none"
		}
		switch cmd {
		case "probe.nodename":
			return us(e.probeNodeName(b, a[1]))
		case "probe.nodeid":
			return us(e.probeNodeID(b, uint32(atoi(a[1]))))
		}
		return us(e.probeBusStatic(b, uint32(atoi(a[1]))))
	case "probe.sentname", "probe.sentid", "probe.sentstatic":
		ni := e.ifaces[id]
		if ni == nil {
			return "none"
		}
		switch cmd {
		case "probe.sentname":
			return us(e.probeSentName(ni, a[1]))
		case "probe.sentid":
			return us(e.probeSentID(ni, uint32(atoi(a[1]))))
		}
		return us(e.probeSentStatic(ni, uint32(atoi(a[1]))))
	}
	return "bad-op"
}

// grCause: the sentinels, plus the two structured causes of the attribute constructors.
func grErrOut(err error) string {
	if err == nil {
		return "ok"
	}
	c := causeOf(err)
	if c == "undocumented" {
		var gt *acmelib.ErrGreaterThen
		var lt *acmelib.ErrLowerThen
		if errors.As(err, &gt) {
			return "err greaterThan"
		}
		if errors.As(err, &lt) {
			return "err lowerThan"
		}
	}
	return "err " + c
}

func (e *grExec) entityID(kind string, id int) (acmelib.EntityID, bool) {
	switch kind {
	case "bus":
		if x := e.buses[id]; x != nil {
			return x.EntityID(), true
		}
	case "node":
		if x := e.nodes[id]; x != nil {
			return x.EntityID(), true
		}
	case "msg":
		if x := e.msgs[id]; x != nil {
			return x.EntityID(), true
		}
	case "attr":
		if x := e.attrs[id]; x != nil {
			return x.EntityID(), true
		}
	}
	return "nonexistent", false
}

func (e *grExec) mutate(cmd string, a []string) (out string) {
	defer func() {
		if r := recover(); r != nil {
			out = "panic"
		}
	}()
	id := func(i int) int { return atoi(a[i]) }
	switch cmd {
	case "net.new":
		if e.nets[id(0)] != nil {
			return "unsupported"
		}
		n := acmelib.NewNetwork(a[1])
		e.nets[id(0)] = n
		e.netID[n] = id(0)
		e.entID[n.EntityID()] = id(0)
		return "ok"
	case "net.addBus":
		n := e.nets[id(0)]
		if n == nil {
			return "unsupported"
		}
		b := e.buses[id(1)] // nil for an unknown id
		if b != nil && b.ParentNetwork() != nil {
			return "unsupported"
		}
		return grErrOut(n.AddBus(b))
	case "net.rmBus":
		n := e.nets[id(0)]
		if n == nil {
			return "unsupported"
		}
		eid, _ := e.entityID("bus", id(1))
		return grErrOut(n.RemoveBus(eid))
	case "net.clear":
		n := e.nets[id(0)]
		if n == nil {
			return "unsupported"
		}
		n.RemoveAllBuses()
		return "ok"
	case "bus.new":
		if e.buses[id(0)] != nil {
			return "unsupported"
		}
		b := acmelib.NewBus(a[1])
		e.buses[id(0)] = b
		e.busID[b] = id(0)
		e.entID[b.EntityID()] = id(0)
		return "ok"
	case "bus.name":
		b := e.buses[id(0)]
		if b == nil {
			return "unsupported"
		}
		return grErrOut(b.UpdateName(a[1]))
	case "bus.addIface":
		b := e.buses[id(0)]
		if b == nil {
			return "unsupported"
		}
		ni := e.ifaces[id(1)]
		if ni != nil && ni.ParentBus() != nil {
			return "unsupported"
		}
		return grErrOut(b.AddNodeInterface(ni))
	case "bus.rmIface":
		b := e.buses[id(0)]
		if b == nil {
			return "unsupported"
		}
		eid, _ := e.entityID("node", id(1))
		return grErrOut(b.RemoveNodeInterface(eid))
	case "bus.clear":
		b := e.buses[id(0)]
		if b == nil {
			return "unsupported"
		}
		b.RemoveAllNodeInterfaces()
		return "ok"
	case "bus.builder":
		b := e.buses[id(0)]
		if b == nil {
			return "unsupported"
		}
		var c *acmelib.CANIDBuilder
		if a[1] != "-" {
			c = e.builders[id(1)]
		}
		// a default builder that is being replaced must let go of the bus: keep a handle on it
		if old := b.CANIDBuilder(); old != nil {
			if _, user := e.builderID[old]; !user {
				e.oldDefaults = append(e.oldDefaults, old)
			}
		}
		b.SetCANIDBuilder(c)
		return "ok"
	case "builder.new":
		if e.builders[id(0)] != nil {
			return "unsupported"
		}
		c := acmelib.NewCANIDBuilder("c" + a[0])
		e.builders[id(0)] = c
		e.builderID[c] = id(0)
		e.entID[c.EntityID()] = id(0)
		return "ok"
	case "node.new":
		k := id(3)
		cnt := k // a negative count is treated as zero by NewNode
		if cnt < 0 {
			cnt = 0
		}
		if e.nodes[id(0)] != nil || len(a) != 4+cnt {
			return "unsupported"
		}
		seen := map[int]bool{}
		var ids []int
		for _, s := range a[4:] {
			x := atoi(s)
			if e.ifaces[x] != nil || seen[x] {
				return "unsupported"
			}
			seen[x] = true
			ids = append(ids, x)
		}
		n := acmelib.NewNode(a[1], acmelib.NodeID(uint32(id(2))), k)
		e.nodes[id(0)] = n
		e.nodeID[n] = id(0)
		e.entID[n.EntityID()] = id(0)
		for j, ni := range n.Interfaces() {
			e.ifaces[ids[j]] = ni
			e.ifaceID[ni] = ids[j]
		}
		e.live[id(0)] = ids
		return "ok"
	case "node.name":
		n := e.nodes[id(0)]
		if n == nil {
			return "unsupported"
		}
		return grErrOut(n.UpdateName(a[1]))
	case "node.id":
		n := e.nodes[id(0)]
		if n == nil {
			return "unsupported"
		}
		return grErrOut(n.UpdateID(acmelib.NodeID(uint32(id(1)))))
	case "node.addIface":
		n := e.nodes[id(0)]
		if n == nil || e.ifaces[id(1)] != nil {
			return "unsupported"
		}
		n.AddInterface()
		ifs := n.Interfaces()
		ni := ifs[len(ifs)-1]
		e.ifaces[id(1)] = ni
		e.ifaceID[ni] = id(1)
		e.live[id(0)] = append(e.live[id(0)], id(1))
		return "ok"
	case "node.rmIface":
		n := e.nodes[id(0)]
		if n == nil {
			return "unsupported"
		}
		k := id(1)
		err := n.RemoveInterface(k)
		if err == nil {
			l := e.live[id(0)]
			if k >= 0 && k < len(l) {
				e.dead[l[k]] = true
				e.live[id(0)] = append(append([]int{}, l[:k]...), l[k+1:]...)
			}
		}
		return grErrOut(err)
	case "msg.new":
		if e.msgs[id(0)] != nil {
			return "unsupported"
		}
		m := acmelib.NewMessage(a[1], acmelib.MessageID(uint32(id(2))), id(3))
		e.msgs[id(0)] = m
		e.msgID[m] = id(0)
		e.entID[m.EntityID()] = id(0)
		return "ok"
	case "msg.name":
		m := e.msgs[id(0)]
		if m == nil {
			return "unsupported"
		}
		return grErrOut(m.UpdateName(a[1]))
	case "msg.id":
		m := e.msgs[id(0)]
		if m == nil {
			return "unsupported"
		}
		return grErrOut(m.UpdateID(acmelib.MessageID(uint32(id(1)))))
	case "msg.static":
		m := e.msgs[id(0)]
		if m == nil {
			return "unsupported"
		}
		return grErrOut(m.SetStaticCANID(acmelib.CANID(uint32(id(1)))))
	case "msg.size":
		m := e.msgs[id(0)]
		if m == nil {
			return "unsupported"
		}
		return grErrOut(m.UpdateSizeByte(id(1)))
	case "iface.addSent":
		ni := e.ifaces[id(0)]
		if ni == nil {
			return "unsupported"
		}
		m := e.msgs[id(1)]
		if m != nil && m.SenderNodeInterface() != nil {
			return "unsupported"
		}
		return grErrOut(ni.AddSentMessage(m))
	case "iface.rmSent":
		ni := e.ifaces[id(0)]
		if ni == nil {
			return "unsupported"
		}
		eid, _ := e.entityID("msg", id(1))
		return grErrOut(ni.RemoveSentMessage(eid))
	case "iface.clearSent":
		ni := e.ifaces[id(0)]
		if ni == nil {
			return "unsupported"
		}
		ni.RemoveAllSentMessages()
		return "ok"
	case "iface.addRecv":
		ni := e.ifaces[id(0)]
		if ni == nil {
			return "unsupported"
		}
		return grErrOut(ni.AddReceivedMessage(e.msgs[id(1)]))
	case "iface.rmRecv":
		ni := e.ifaces[id(0)]
		if ni == nil {
			return "unsupported"
		}
		eid, _ := e.entityID("msg", id(1))
		return grErrOut(ni.RemoveReceivedMessage(eid))
	case "iface.clearRecv":
		ni := e.ifaces[id(0)]
		if ni == nil {
			return "unsupported"
		}
		ni.RemoveAllReceivedMessages()
		return "ok"
	case "msg.addRecv":
		m := e.msgs[id(0)]
		if m == nil {
			return "unsupported"
		}
		return grErrOut(m.AddReceiver(e.ifaces[id(1)]))
	case "msg.rmRecv":
		m := e.msgs[id(0)]
		if m == nil {
			return "unsupported"
		}
		eid, _ := e.entityID("node", id(1))
		return grErrOut(m.RemoveReceiver(eid))
	case "attr.str":
		if e.attrs[id(0)] != nil {
			return "unsupported"
		}
		at := acmelib.NewStringAttribute("A"+a[0], "")
		e.attrs[id(0)] = at
		e.entID[at.EntityID()] = id(0)
		return "ok"
	case "attr.int":
		if e.attrs[id(0)] != nil {
			return "unsupported"
		}
		at, err := acmelib.NewIntegerAttribute("A"+a[0], id(1), id(2), id(3))
		if err != nil {
			return grErrOut(err)
		}
		e.attrs[id(0)] = at
		e.entID[at.EntityID()] = id(0)
		return "ok"
	case "attr.enum":
		if e.attrs[id(0)] != nil {
			return "unsupported"
		}
		at, err := acmelib.NewEnumAttribute("A"+a[0], a[1:]...)
		if err != nil {
			return grErrOut(err)
		}
		e.attrs[id(0)] = at
		e.entID[at.EntityID()] = id(0)
		return "ok"
	case "assign", "unassign", "unassignAll":
		var ent acmelib.AttributableEntity
		switch a[0] {
		case "bus":
			if x := e.buses[id(1)]; x != nil {
				ent = x
			}
		case "node":
			if x := e.nodes[id(1)]; x != nil {
				ent = x
			}
		case "msg":
			if x := e.msgs[id(1)]; x != nil {
				ent = x
			}
		case "sig":
			if x := e.sigs[id(1)]; x != nil {
				ent = x
			}
		default:
			return "bad-op"
		}
		if ent == nil {
			return "unsupported"
		}
		switch cmd {
		case "unassignAll":
			ent.RemoveAllAttributeAssignments()
			return "ok"
		case "unassign":
			eid, _ := e.entityID("attr", id(2))
			return grErrOut(ent.RemoveAttributeAssignment(eid))
		}
		var at acmelib.Attribute // nil interface for an unknown id
		if x := e.attrs[id(2)]; x != nil {
			at = x
		}
		var v any
		switch a[3] {
		case "int":
			v = id(4)
		case "str":
			v = a[4]
		default:
			v = 1.5
		}
		return grErrOut(ent.AssignAttribute(at, v))
	case "type.new":
		if e.types[id(0)] != nil {
			return "unsupported"
		}
		t, err := acmelib.NewIntegerSignalType("T"+a[0], 1+id(0)%16, false)
		if err != nil {
			return grErrOut(err)
		}
		e.types[id(0)] = t
		e.entID[t.EntityID()] = id(0)
		return "ok"
	case "unit.new":
		if e.units[id(0)] != nil {
			return "unsupported"
		}
		u := acmelib.NewSignalUnit("U"+a[0], acmelib.SignalUnitKindCustom, "u")
		e.units[id(0)] = u
		e.entID[u.EntityID()] = id(0)
		return "ok"
	case "sig.new":
		if e.sigs[id(0)] != nil {
			return "unsupported"
		}
		s, err := acmelib.NewStandardSignal("S"+a[0], e.types[id(1)])
		if err != nil {
			return grErrOut(err)
		}
		e.sigs[id(0)] = s
		e.entID[s.EntityID()] = id(0)
		return "ok"
	case "sig.type":
		s := e.sigs[id(0)]
		if s == nil {
			return "unsupported"
		}
		return grErrOut(s.SetType(e.types[id(1)]))
	case "sig.unit":
		s := e.sigs[id(0)]
		if s == nil {
			return "unsupported"
		}
		var u *acmelib.SignalUnit
		if a[1] != "-" {
			u = e.units[id(1)]
		}
		s.SetUnit(u)
		return "ok"
	}
	return "bad-op"
}

// ---- generator with execution feedback ----

type grGen struct {
	r      *rand.Rand
	ex     *grExec
	sc     []string
	nextID int

	nets, buses, nodes, msgs, builders, attrs, types, units, sigs []int
	ifaces                                                        []int
}

func (g *grGen) emit(l string) string {
	out := safeDo(g.ex, l)
	g.sc = append(g.sc, l)
	return out
}

func (g *grGen) fresh() int { g.nextID++; return g.nextID }

func (g *grGen) anyOf(xs []int) int {
	if len(xs) == 0 || g.r.Intn(25) == 0 {
		return 9000 + g.r.Intn(3)
	}
	return xs[g.r.Intn(len(xs))]
}

func (g *grGen) name() string { return pick(g.r, grNamePool...) }
func (g *grGen) nid() uint32  { return pick(g.r, grNidPool...) }
func (g *grGen) mid() uint32  { return pick(g.r, uint32(0), 1, 2, 7, 100, 4294967295) }
func (g *grGen) static() uint32 {
	return pick(g.r, uint32(0), 1, 2, 100, 2047)
}

// siblings of message m on its sender interface
func (g *grGen) msgSiblings(m int) []*acmelib.Message {
	msg := g.ex.msgs[m]
	if msg == nil || msg.SenderNodeInterface() == nil {
		return nil
	}
	var xs []*acmelib.Message
	for _, x := range msg.SenderNodeInterface().SentMessages() {
		if x != msg {
			xs = append(xs, x)
		}
	}
	return xs
}

// other nodes on the buses node n is attached to
func (g *grGen) nodeSiblings(n int) []*acmelib.Node {
	nd := g.ex.nodes[n]
	if nd == nil {
		return nil
	}
	var xs []*acmelib.Node
	for _, ni := range nd.Interfaces() {
		if b := ni.ParentBus(); b != nil {
			for _, o := range b.NodeInterfaces() {
				if o.Node() != nd {
					xs = append(xs, o.Node())
				}
			}
		}
	}
	return xs
}

// an interface, biased towards the first ones so that they collect several messages
func (g *grGen) someIface() int {
	if len(g.ifaces) > 2 && g.r.Intn(2) == 0 {
		return g.ifaces[g.r.Intn(2)]
	}
	return g.anyOf(g.ifaces)
}

// liveIfaces: interfaces that still belong to their node
func (g *grGen) liveIfaces() []int {
	var xs []int
	for _, i := range g.ifaces {
		if !g.ex.dead[i] {
			xs = append(xs, i)
		}
	}
	return xs
}

func (g *grGen) newNode() {
	n := g.fresh()
	k := 1 + g.r.Intn(3)
	if g.r.Intn(12) == 0 {
		k = 0
	}
	kk := k
	if k == 0 && g.r.Intn(2) == 0 {
		kk = -1 - g.r.Intn(3) // NewNode treats a negative count as zero
	}
	l := sprintf("gr node.new %d %s %d %d", n, g.name(), g.nid(), kk)
	var ids []int
	for j := 0; j < k; j++ {
		i := g.fresh()
		ids = append(ids, i)
		l += sprintf(" %d", i)
	}
	if g.emit(l) == "ok" {
		g.nodes = append(g.nodes, n)
		g.ifaces = append(g.ifaces, ids...)
	}
}

func (g *grGen) newMsg() {
	m := g.fresh()
	size := g.r.Intn(10)
	if g.r.Intn(3) != 0 {
		size = g.r.Intn(9) // mostly fitting a CAN 2.0A bus
	}
	if g.emit(sprintf("gr msg.new %d %s %d %d", m, g.name(), g.mid(), size)) == "ok" {
		g.msgs = append(g.msgs, m)
		if g.r.Intn(4) == 0 {
			g.emit(sprintf("gr msg.static %d %d", m, g.static()))
		}
	}
}

// recvClash: would (interface i, message m) put two interfaces of one node among the
// receivers of m (D26)?
func (g *grGen) recvClash(i, m int) bool {
	ni, msg := g.ex.ifaces[i], g.ex.msgs[m]
	if ni == nil || msg == nil {
		return false
	}
	for j, o := range g.ex.ifaces {
		if j == i || o.Node() != ni.Node() {
			continue
		}
		for _, x := range o.ReceivedMessages() {
			if x == msg {
				return true
			}
		}
	}
	return false
}

// doubleFailure builds (rarely) the order-dependent rejection of Bus.AddNodeInterface: an
// unattached interface that sends an oversize message AND a message whose static CAN-ID is
// taken on the bus.
func (g *grGen) doubleFailure() {
	ex := g.ex
	for _, b := range g.buses {
		bus := ex.buses[b]
		for _, at := range bus.NodeInterfaces() {
			for _, m := range at.SentMessages() {
				if !m.HasStaticCANID() {
					continue
				}
				for _, i := range g.liveIfaces() {
					ni := ex.ifaces[i]
					if ni.ParentBus() != nil || ni.Node() == at.Node() {
						continue
					}
					m1, m2 := g.fresh(), g.fresh()
					g.emit(sprintf("gr msg.new %d %s %d 9", m1, grProbeName+"1", g.mid()))
					g.emit(sprintf("gr msg.new %d %s %d 8", m2, grProbeName+"2", g.mid()))
					g.emit(sprintf("gr msg.static %d %d", m2, uint32(m.GetCANID())))
					g.emit(sprintf("gr iface.addSent %d %d", i, m1))
					g.emit(sprintf("gr iface.addSent %d %d", i, m2))
					g.emit(sprintf("gr bus.addIface %d %d", b, i))
					g.emit(sprintf("gr dump.bus %d", b))
					g.emit(sprintf("gr dump.iface %d", i))
					g.msgs = append(g.msgs, m1, m2)
					return
				}
			}
		}
	}
}

func (g *grGen) kindAndEntity() (string, int) {
	switch g.r.Intn(4) {
	case 0:
		return "bus", g.anyOf(g.buses)
	case 1:
		return "node", g.anyOf(g.nodes)
	case 2:
		return "msg", g.anyOf(g.msgs)
	}
	return "sig", g.anyOf(g.sigs)
}

func (g *grGen) step() {
	r := g.r
	ex := g.ex
	switch k := r.Intn(200); {
	case k < 3:
		if len(g.nets) < 2 {
			n := g.fresh()
			g.emit(sprintf("gr net.new %d %s", n, g.name()))
			g.nets = append(g.nets, n)
		}
	case k < 8:
		if len(g.buses) < 3 {
			b := g.fresh()
			g.emit(sprintf("gr bus.new %d %s", b, g.name()))
			g.buses = append(g.buses, b)
		}
	case k < 18:
		if len(g.nets) > 0 {
			b := g.anyOf(g.buses)
			if bus := ex.buses[b]; bus != nil && bus.ParentNetwork() != nil && r.Intn(8) != 0 {
				return
			}
			g.emit(sprintf("gr net.addBus %d %d", g.anyOf(g.nets), b))
		}
	case k < 22:
		if len(g.nets) > 0 {
			g.emit(sprintf("gr net.rmBus %d %d", g.anyOf(g.nets), g.anyOf(g.buses)))
		}
	case k < 23:
		if len(g.nets) > 0 && r.Intn(2) == 0 {
			g.emit(sprintf("gr net.clear %d", g.anyOf(g.nets)))
		}
	case k < 30:
		b := g.anyOf(g.buses)
		nm := g.name()
		if bus := ex.buses[b]; bus != nil && bus.ParentNetwork() != nil && r.Intn(2) == 0 {
			bs := bus.ParentNetwork().Buses()
			nm = bs[r.Intn(len(bs))].Name()
		}
		g.emit(sprintf("gr bus.name %d %s", b, nm))
	case k < 48:
		// attach an interface that still belongs to its node (a removed interface object
		// stays usable in Go; see the report) — prefer unattached ones
		i := g.anyOf(g.liveIfaces())
		if ni := ex.ifaces[i]; ni != nil && ni.ParentBus() != nil && r.Intn(10) != 0 {
			return
		}
		g.emit(sprintf("gr bus.addIface %d %d", g.anyOf(g.buses), i))
	case k < 53:
		b := g.anyOf(g.buses)
		n := g.anyOf(g.nodes)
		if bus := ex.buses[b]; bus != nil && r.Intn(4) != 0 {
			if nis := bus.NodeInterfaces(); len(nis) > 0 {
				n = ex.nodeID[nis[r.Intn(len(nis))].Node()]
			}
		}
		g.emit(sprintf("gr bus.rmIface %d %d", b, n))
	case k < 54:
		if r.Intn(2) == 0 {
			g.emit(sprintf("gr bus.clear %d", g.anyOf(g.buses)))
		}
	case k < 59:
		c := sprintf("%d", g.anyOf(g.builders))
		if r.Intn(4) == 0 {
			c = "-"
		}
		g.emit(sprintf("gr bus.builder %d %s", g.anyOf(g.buses), c))
	case k < 61:
		if len(g.builders) < 2 {
			c := g.fresh()
			g.emit(sprintf("gr builder.new %d", c))
			g.builders = append(g.builders, c)
		}
	case k < 65:
		if len(g.nodes) < 4 {
			g.newNode()
		}
	case k < 73:
		n := g.anyOf(g.nodes)
		nm := g.name()
		if sib := g.nodeSiblings(n); len(sib) > 0 && r.Intn(2) == 0 {
			nm = sib[r.Intn(len(sib))].Name()
		}
		g.emit(sprintf("gr node.name %d %s", n, nm))
	case k < 81:
		n := g.anyOf(g.nodes)
		k := g.nid()
		if sib := g.nodeSiblings(n); len(sib) > 0 && r.Intn(2) == 0 {
			k = uint32(sib[r.Intn(len(sib))].ID())
		}
		g.emit(sprintf("gr node.id %d %d", n, k))
	case k < 84:
		n := g.anyOf(g.nodes)
		if nd := ex.nodes[n]; nd == nil || len(nd.Interfaces()) < 3 {
			i := g.fresh()
			if g.emit(sprintf("gr node.addIface %d %d", n, i)) == "ok" {
				g.ifaces = append(g.ifaces, i)
			}
		}
	case k < 88:
		g.emit(sprintf("gr node.rmIface %d %d", g.anyOf(g.nodes), pick(r, 0, 0, 1, 1, 2, 3, -1, 1<<40)))
	case k < 94:
		if len(g.msgs) < 8 {
			g.newMsg()
		}
	case k < 101:
		m := g.anyOf(g.msgs)
		nm := g.name()
		if sib := g.msgSiblings(m); len(sib) > 0 && r.Intn(2) == 0 {
			nm = sib[r.Intn(len(sib))].Name()
		}
		g.emit(sprintf("gr msg.name %d %s", m, nm))
	case k < 109:
		m := g.anyOf(g.msgs)
		k := g.mid()
		if sib := g.msgSiblings(m); len(sib) > 0 && r.Intn(2) == 0 {
			k = uint32(sib[r.Intn(len(sib))].ID())
		}
		g.emit(sprintf("gr msg.id %d %d", m, k))
	case k < 117:
		m := g.anyOf(g.msgs)
		k := g.static()
		if sib := g.msgSiblings(m); len(sib) > 0 && r.Intn(3) == 0 {
			k = uint32(sib[r.Intn(len(sib))].ID())
		}
		g.emit(sprintf("gr msg.static %d %d", m, k))
	case k < 123:
		g.emit(sprintf("gr msg.size %d %d", g.anyOf(g.msgs), pick(r, 0, 1, 4, 7, 8, 8, 9, 9, 16, -1, 1<<40)))
	case k < 141:
		m := g.anyOf(g.msgs)
		if msg := ex.msgs[m]; msg != nil && msg.SenderNodeInterface() != nil && r.Intn(10) != 0 {
			return
		}
		i := g.someIface()
		if ni := ex.ifaces[i]; ni != nil && r.Intn(6) == 0 {
			// a message that the interface receives (refused: receiver is sender)
			for _, x := range ni.ReceivedMessages() {
				if x.SenderNodeInterface() == nil {
					m = ex.msgID[x]
					break
				}
			}
		}
		g.emit(sprintf("gr iface.addSent %d %d", i, m))
	case k < 147:
		i := g.someIface()
		m := g.anyOf(g.msgs)
		if ni := ex.ifaces[i]; ni != nil && r.Intn(4) != 0 {
			if ms := ni.SentMessages(); len(ms) > 0 {
				m = ex.msgID[ms[r.Intn(len(ms))]]
			}
		}
		g.emit(sprintf("gr iface.rmSent %d %d", i, m))
	case k < 148:
		g.emit(sprintf("gr iface.clearSent %d", g.anyOf(g.ifaces)))
	case k < 156:
		i, m := g.anyOf(g.ifaces), g.anyOf(g.msgs)
		if g.recvClash(i, m) {
			return
		}
		if r.Intn(2) == 0 {
			g.emit(sprintf("gr iface.addRecv %d %d", i, m))
		} else {
			g.emit(sprintf("gr msg.addRecv %d %d", m, i))
		}
	case k < 159:
		i := g.anyOf(g.ifaces)
		m := g.anyOf(g.msgs)
		if ni := ex.ifaces[i]; ni != nil && r.Intn(4) != 0 {
			if ms := ni.ReceivedMessages(); len(ms) > 0 {
				m = ex.msgID[ms[r.Intn(len(ms))]]
			}
		}
		g.emit(sprintf("gr iface.rmRecv %d %d", i, m))
	case k < 160:
		g.emit(sprintf("gr iface.clearRecv %d", g.anyOf(g.ifaces)))
	case k < 163:
		m := g.anyOf(g.msgs)
		n := g.anyOf(g.nodes)
		if msg := ex.msgs[m]; msg != nil && r.Intn(4) != 0 {
			if rs := msg.Receivers(); len(rs) > 0 {
				n = ex.nodeID[rs[r.Intn(len(rs))].Node()]
			}
		}
		g.emit(sprintf("gr msg.rmRecv %d %d", m, n))
	case k < 166:
		if len(g.attrs) < 3 {
			a := g.fresh()
			var out string
			switch r.Intn(3) {
			case 0:
				out = g.emit(sprintf("gr attr.str %d", a))
			case 1:
				d, mn, mx := r.Intn(7)-1, r.Intn(4)-1, 2+r.Intn(5)
				if r.Intn(6) == 0 {
					mn, mx = mx, mn
				}
				out = g.emit(sprintf("gr attr.int %d %d %d %d", a, d, mn, mx))
			default:
				l := sprintf("gr attr.enum %d", a)
				for j := r.Intn(4); j > 0; j-- {
					l += " " + pick(r, "x", "y", "z")
				}
				out = g.emit(l)
			}
			if out == "ok" {
				g.attrs = append(g.attrs, a)
			}
		}
	case k < 176:
		kind, x := g.kindAndEntity()
		a := g.anyOf(g.attrs)
		var v string
		switch r.Intn(7) {
		case 0, 1, 2:
			v = sprintf("int %d", r.Intn(9)-2)
		case 3, 4, 5:
			v = "str " + pick(r, "x", "y", "z", "w")
		default:
			v = "flt"
		}
		g.emit(sprintf("gr assign %s %d %d %s", kind, x, a, v))
	case k < 180:
		kind, x := g.kindAndEntity()
		g.emit(sprintf("gr unassign %s %d %d", kind, x, g.anyOf(g.attrs)))
	case k < 181:
		kind, x := g.kindAndEntity()
		g.emit(sprintf("gr unassignAll %s %d", kind, x))
	case k < 183:
		if len(g.types) < 2 {
			t := g.fresh()
			g.emit(sprintf("gr type.new %d", t))
			g.types = append(g.types, t)
		} else if len(g.units) < 2 {
			u := g.fresh()
			g.emit(sprintf("gr unit.new %d", u))
			g.units = append(g.units, u)
		}
	case k < 186:
		if len(g.sigs) < 3 {
			s := g.fresh()
			if g.emit(sprintf("gr sig.new %d %d", s, g.anyOf(g.types))) == "ok" {
				g.sigs = append(g.sigs, s)
			}
		}
	case k < 189:
		g.emit(sprintf("gr sig.type %d %d", g.anyOf(g.sigs), g.anyOf(g.types)))
	case k < 192:
		u := sprintf("%d", g.anyOf(g.units))
		if r.Intn(4) == 0 {
			u = "-"
		}
		g.emit(sprintf("gr sig.unit %d %s", g.anyOf(g.sigs), u))
	case k < 193:
		if r.Intn(4) == 0 {
			g.doubleFailure()
		}
	case k < 196:
		g.staticVsGenerated()
	case k < 198:
		g.multiBusNode()
	case k < 199:
		g.staticZeroDetach()
	default:
		g.observe()
	}
}

// staticZeroDetach: a message with the static CAN-ID 0 (the zero value of the field) on one
// interface of a bus and a message WITHOUT static CAN-ID on another interface; the second
// interface is detached (and attached again): the key 0 must still be taken on the bus.
func (g *grGen) staticZeroDetach() {
	if len(g.buses) == 0 {
		return
	}
	r := g.r
	b := g.buses[r.Intn(len(g.buses))]
	nx, ix, ny, iy := g.fresh(), g.fresh(), g.fresh(), g.fresh()
	if g.emit(sprintf("gr node.new %d zx%d %d 1 %d", nx, nx, 60+r.Intn(4), ix)) != "ok" {
		return
	}
	g.nodes = append(g.nodes, nx)
	g.ifaces = append(g.ifaces, ix)
	if g.emit(sprintf("gr node.new %d zy%d %d 1 %d", ny, ny, 70+r.Intn(4), iy)) != "ok" {
		return
	}
	g.nodes = append(g.nodes, ny)
	g.ifaces = append(g.ifaces, iy)
	mx, my := g.fresh(), g.fresh()
	g.emit(sprintf("gr msg.new %d zsx%d %d 8", mx, mx, 500+r.Intn(50)))
	g.emit(sprintf("gr msg.static %d 0", mx))
	g.emit(sprintf("gr msg.new %d zsy%d %d 8", my, my, 600+r.Intn(50)))
	g.msgs = append(g.msgs, mx, my)
	g.emit(sprintf("gr iface.addSent %d %d", ix, mx))
	g.emit(sprintf("gr iface.addSent %d %d", iy, my))
	g.emit(sprintf("gr bus.addIface %d %d", b, ix))
	g.emit(sprintf("gr bus.addIface %d %d", b, iy))
	g.emit(sprintf("gr bus.rmIface %d %d", b, ny))
	g.emit(sprintf("gr probe.busstatic %d 0", b))
	g.emit(sprintf("gr dump.bus %d", b))
	if r.Intn(2) == 0 {
		g.emit(sprintf("gr bus.addIface %d %d", b, iy))
		g.emit(sprintf("gr dump.bus %d", b))
	}
}

// multiBusNode: a node with two interfaces on two DIFFERENT buses and, on the SECOND bus only,
// another node whose name / id is then asked for: the rename / id change must be refused and
// NEITHER bus may change (the first bus accepts the key, the second does not); then a key that is
// free on both is taken, and the old one must be reusable on both buses.
func (g *grGen) multiBusNode() {
	if len(g.buses) < 2 {
		return
	}
	r := g.r
	b1, b2 := g.buses[0], g.buses[1+r.Intn(len(g.buses)-1)]
	n, i1, i2 := g.fresh(), g.fresh(), g.fresh()
	if g.emit(sprintf("gr node.new %d mb%d %d 2 %d %d", n, n, 40+r.Intn(5), i1, i2)) != "ok" {
		return
	}
	g.nodes = append(g.nodes, n)
	g.ifaces = append(g.ifaces, i1, i2)
	o, oi := g.fresh(), g.fresh()
	oid := 50 + r.Intn(5)
	if g.emit(sprintf("gr node.new %d mo%d %d 1 %d", o, o, oid, oi)) != "ok" {
		return
	}
	g.nodes = append(g.nodes, o)
	g.ifaces = append(g.ifaces, oi)
	g.emit(sprintf("gr bus.addIface %d %d", b1, i1))
	g.emit(sprintf("gr bus.addIface %d %d", b2, i2))
	g.emit(sprintf("gr bus.addIface %d %d", b2, oi))
	if r.Intn(2) == 0 {
		g.emit(sprintf("gr node.name %d mo%d", n, o)) // taken on the second bus only
	} else {
		g.emit(sprintf("gr node.id %d %d", n, oid))
	}
	g.emit(sprintf("gr dump.bus %d", b1))
	g.emit(sprintf("gr dump.bus %d", b2))
	g.emit(sprintf("gr probe.nodename %d mb%d", b1, n))
	g.emit(sprintf("gr probe.nodename %d mo%d", b1, o))
	g.emit(sprintf("gr node.name %d mz%d", n, n)) // free on both
	g.emit(sprintf("gr dump.bus %d", b1))
	g.emit(sprintf("gr dump.bus %d", b2))
	g.emit(sprintf("gr dump.node %d", n))
}

// staticVsGenerated: on one interface a message with a GENERATED id k and a sibling whose
// STATIC CAN-ID is numerically k (the two key spaces are separate); then the sibling changes
// its message id / drops its static CAN-ID, and the key k of the first one must still be taken.
func (g *grGen) staticVsGenerated() {
	for _, i := range g.liveIfaces() {
		ni := g.ex.ifaces[i]
		if ni == nil {
			continue
		}
		for _, x := range ni.SentMessages() {
			if x.HasStaticCANID() || g.r.Intn(2) == 0 {
				continue
			}
			k := uint32(x.ID())
			var y int
			sibs := []int{}
			for _, o := range ni.SentMessages() {
				if o != x {
					sibs = append(sibs, g.ex.msgID[o])
				}
			}
			if len(sibs) > 0 && g.r.Intn(2) == 0 {
				y = sibs[g.r.Intn(len(sibs))]
			} else {
				y = g.fresh()
				if g.emit(sprintf("gr msg.new %d %s %d %d", y, grProbeName+"s", g.mid(), g.r.Intn(9))) != "ok" {
					return
				}
				g.msgs = append(g.msgs, y)
				g.emit(sprintf("gr iface.addSent %d %d", i, y))
			}
			g.emit(sprintf("gr msg.static %d %d", y, k))
			g.emit(sprintf("gr msg.id %d %d", y, pick(g.r, g.mid(), 5, 9)))
			g.emit(sprintf("gr probe.sentid %d %d", i, k))
			g.emit(sprintf("gr dump.iface %d", i))
			if g.r.Intn(2) == 0 {
				g.emit(sprintf("gr msg.id %d %d", y, k)) // must be refused: k is X's generated id
				g.emit(sprintf("gr dump.iface %d", i))
			}
			return
		}
	}
}

func (g *grGen) observe() {
	r := g.r
	switch r.Intn(12) {
	case 0:
		g.emit(sprintf("gr dump.net %d", g.anyOf(g.nets)))
	case 1, 2:
		g.emit(sprintf("gr dump.bus %d", g.anyOf(g.buses)))
	case 3:
		g.emit(sprintf("gr dump.node %d", g.anyOf(g.nodes)))
	case 4, 5:
		g.emit(sprintf("gr dump.iface %d", g.anyOf(g.ifaces)))
	case 6:
		g.emit(sprintf("gr dump.msg %d", g.anyOf(g.msgs)))
	case 7:
		g.emit(sprintf("gr %s %d", pick(r, "dump.builder", "dump.attr", "dump.type", "dump.unit", "dump.sig"),
			g.anyOf(pick(r, g.builders, g.attrs, g.types, g.units, g.sigs))))
	case 8:
		g.emit(sprintf("gr probe.sentid %d %d", g.anyOf(g.ifaces), pick(r, g.mid(), 5, 2047)))
	case 9:
		g.emit(sprintf("gr probe.sentstatic %d %d", g.anyOf(g.ifaces), pick(r, g.static(), 5)))
	case 10:
		g.emit(sprintf("gr %s %d %s", pick(r, "probe.sentname", "probe.nodename"), g.anyOf(pick(r, g.ifaces, g.buses)), pick(r, "a", "b", "c", "d", "e")))
	default:
		switch r.Intn(3) {
		case 0:
			g.emit(sprintf("gr probe.busname %d %s", g.anyOf(g.nets), g.name()))
		case 1:
			g.emit(sprintf("gr probe.nodeid %d %d", g.anyOf(g.buses), pick(r, g.nid(), 5)))
		default:
			g.emit(sprintf("gr probe.busstatic %d %d", g.anyOf(g.buses), pick(r, g.static(), 5)))
		}
	}
}

func (g *grGen) dumpAll() {
	for _, x := range g.nets {
		g.emit(sprintf("gr dump.net %d", x))
	}
	for _, x := range g.buses {
		g.emit(sprintf("gr dump.bus %d", x))
	}
	for _, x := range g.nodes {
		g.emit(sprintf("gr dump.node %d", x))
	}
	for _, x := range g.ifaces {
		g.emit(sprintf("gr dump.iface %d", x))
	}
	for _, x := range g.msgs {
		g.emit(sprintf("gr dump.msg %d", x))
	}
	for _, x := range g.builders {
		g.emit(sprintf("gr dump.builder %d", x))
	}
	for _, x := range g.attrs {
		g.emit(sprintf("gr dump.attr %d", x))
	}
	for _, x := range g.types {
		g.emit(sprintf("gr dump.type %d", x))
	}
	for _, x := range g.units {
		g.emit(sprintf("gr dump.unit %d", x))
	}
	for _, x := range g.sigs {
		g.emit(sprintf("gr dump.sig %d", x))
	}
}

func (graphStream) Gen(r *rand.Rand, tier string, idx int) []string {
	g := &grGen{r: r, ex: newGrExec()}
	// seed a useful world quickly
	for i := 1 + r.Intn(2); i > 0; i-- {
		n := g.fresh()
		g.emit(sprintf("gr net.new %d %s", n, g.name()))
		g.nets = append(g.nets, n)
	}
	for i := 1 + r.Intn(2); i > 0; i-- {
		b := g.fresh()
		g.emit(sprintf("gr bus.new %d %s", b, g.name()))
		g.buses = append(g.buses, b)
	}
	for i := 2 + r.Intn(2); i > 0; i-- {
		g.newNode()
	}
	for i := 3; i > 0; i-- {
		g.newMsg()
	}
	if r.Intn(3) != 0 { // attributes, a type, a unit, a signal
		a := g.fresh()
		g.emit(sprintf("gr attr.str %d", a))
		g.attrs = append(g.attrs, a)
		a = g.fresh()
		if r.Intn(2) == 0 {
			g.emit(sprintf("gr attr.int %d 1 0 5", a))
		} else {
			g.emit(sprintf("gr attr.enum %d x y x z", a))
		}
		g.attrs = append(g.attrs, a)
		t, u, sg := g.fresh(), g.fresh(), g.fresh()
		g.emit(sprintf("gr type.new %d", t))
		g.emit(sprintf("gr unit.new %d", u))
		g.emit(sprintf("gr sig.new %d %d", sg, t))
		g.types, g.units, g.sigs = append(g.types, t), append(g.units, u), append(g.sigs, sg)
	}
	n := 30 + r.Intn(51)
	if tier == "thorough" {
		n = 40 + r.Intn(161)
	}
	for i := 0; i < n; i++ {
		g.step()
	}
	g.dumpAll()
	return g.sc
}

// Exhaustive: a few directed histories (no enumeration): the order-dependent double
// rejection, a receiver that becomes the sender, key release after rename / id change /
// removal on every index, in the words of C04.
func (graphStream) Exhaustive(string) [][]string {
	sc := func(ls ...string) []string {
		out := make([]string, len(ls))
		for i, l := range ls {
			out[i] = "gr " + l
		}
		return out
	}
	return [][]string{
		sc("bus.new 1 a", "node.new 2 a 0 1 3", "node.new 4 b 1 1 5", "msg.new 6 a 1 8", "msg.static 6 100",
			"iface.addSent 3 6", "bus.addIface 1 3", "msg.new 7 a 1 9", "msg.new 8 b 2 8", "msg.static 8 100",
			"iface.addSent 5 7", "iface.addSent 5 8", "bus.addIface 1 5", "dump.bus 1", "dump.iface 5",
			"msg.size 7 8", "bus.addIface 1 5", "msg.id 8 2", "bus.addIface 1 5", "dump.bus 1", "dump.iface 5"),
		sc("node.new 1 a 0 1 2", "msg.new 3 a 1 8", "iface.addRecv 2 3", "iface.addSent 2 3", "dump.iface 2",
			"dump.msg 3", "iface.addRecv 2 3", "msg.addRecv 3 2", "iface.rmSent 2 3", "dump.msg 3", "dump.iface 2"),
		// interface indexes: name, generated id, static CAN-ID
		sc("node.new 1 a 0 1 2", "msg.new 3 a 1 8", "msg.new 4 b 2 8", "iface.addSent 2 3", "iface.addSent 2 4",
			"msg.name 4 a", "msg.name 3 c", "msg.name 4 a", "msg.name 3 b", "probe.sentname 2 c", "dump.iface 2",
			"msg.id 4 1", "msg.id 3 7", "msg.id 4 1", "probe.sentid 2 2", "dump.iface 2",
			"msg.static 3 100", "probe.sentid 2 7", "msg.id 4 7", "msg.static 4 100", "msg.id 3 5", "msg.static 4 100",
			"probe.sentid 2 100", "probe.sentid 2 5", "probe.sentstatic 2 100", "dump.iface 2", "dump.msg 3", "dump.msg 4",
			"iface.rmSent 2 4", "probe.sentstatic 2 100", "probe.sentname 2 a", "msg.new 5 a 5 8", "iface.addSent 2 5",
			"msg.static 3 100", "iface.clearSent 2", "dump.iface 2", "iface.addSent 2 5", "iface.addSent 2 4", "iface.addSent 2 3", "dump.iface 2"),
		// bus indexes: node name, node id, static CAN-IDs through attach / detach / remove-through-node
		sc("bus.new 1 a", "bus.new 2 b", "node.new 3 a 0 2 4 5", "node.new 6 b 1 1 7", "bus.addIface 1 4", "bus.addIface 2 5",
			"bus.addIface 1 7", "node.name 6 a", "node.name 3 c", "node.name 6 a", "dump.bus 1", "dump.bus 2",
			"node.id 6 0", "node.id 3 2", "node.id 6 0", "dump.bus 1", "dump.bus 2",
			"msg.new 8 a 1 8", "msg.static 8 100", "iface.addSent 4 8", "msg.new 9 a 1 8", "iface.addSent 7 9",
			"msg.static 9 100", "msg.static 8 2", "msg.static 9 100", "dump.bus 1", "msg.id 9 3", "probe.busstatic 1 100",
			"msg.static 9 2", "node.rmIface 3 0", "probe.busstatic 1 2", "msg.static 9 2", "dump.bus 1", "dump.bus 2", "dump.node 3",
			"dump.iface 4", "dump.iface 5", "bus.rmIface 2 3", "bus.clear 1", "dump.bus 1", "dump.bus 2", "dump.iface 7"),
		// network index, builders, attributes, types and units
		sc("net.new 1 a", "bus.new 2 a", "bus.new 3 b", "net.addBus 1 2", "net.addBus 1 3", "bus.name 3 a", "bus.name 2 c",
			"bus.name 3 a", "dump.net 1", "net.rmBus 1 3", "bus.name 2 a", "net.addBus 1 3", "net.clear 1", "dump.net 1", "dump.bus 2",
			"builder.new 4", "bus.builder 2 4", "bus.builder 3 4", "dump.builder 4", "bus.builder 2 -", "bus.builder 3 9000", "dump.builder 4",
			"attr.str 5", "attr.int 6 1 0 5", "attr.int 7 1 5 0", "attr.int 7 9 0 5", "attr.int 7 -1 0 5", "attr.enum 7 x y x", "attr.enum 8",
			"assign bus 2 5 str q", "assign bus 2 6 int 5", "assign bus 2 6 int 6", "assign bus 2 7 str z", "assign bus 2 7 str y", "assign bus 2 5 flt",
			"assign bus 2 5 str r", "dump.attr 5", "dump.attr 6", "dump.attr 7", "unassign bus 2 6", "unassign bus 2 6", "unassignAll bus 2",
			"dump.attr 5", "dump.attr 7", "dump.bus 2",
			"type.new 10", "type.new 11", "unit.new 12", "sig.new 13 10", "sig.new 14 9000", "sig.type 13 11", "sig.type 13 11", "sig.type 13 9000",
			"sig.unit 13 12", "sig.unit 13 12", "dump.unit 12", "sig.unit 13 -", "dump.unit 12", "dump.type 10", "dump.type 11", "dump.sig 13",
			"assign sig 13 5 str q", "dump.attr 5", "dump.sig 13"),
	}
}

func (graphStream) Tag(lines, outs []string) (bool, []string) {
	var tags []string
	okMut, errMut := 0, 0
	for i, l := range lines {
		f := fields(l)
		if len(f) < 2 || strings.HasPrefix(f[1], "dump.") {
			continue
		}
		o := outs[i]
		switch {
		case strings.HasPrefix(f[1], "probe."):
			tags = append(tags, f[1]+":"+o)
		case o == "ok":
			tags = append(tags, f[1]+":ok")
			okMut++
		case strings.HasPrefix(o, "err"):
			tags = append(tags, f[1]+":"+o)
			errMut++
		default:
			tags = append(tags, f[1]+":"+o)
		}
	}
	return okMut >= 8 && errMut >= 1, tags
}
