package main

import (
	"bytes"
	"encoding/json"
	"errors"
	"math"
	"math/big"
	"math/rand"
	"sort"
	"strconv"
	"strings"

	"github.com/squadracorsepolito/acmelib"
	"github.com/squadracorsepolito/acmelib/dbc"
)

// stream attr — C10 / C11 for ATTRIBUTES: the model Acme.Attr (exportAttrs / importAttrs) against
// the attribute part of the real exporter and importer, compared at the level of the DBC
// document (hooks VerifExportAST / VerifImportAST).
//
//	at export <model-json>  a bus with nodes, messages, signals is built through the public API
//	                        (New*Attribute, AssignAttribute, SetCycleTime …), VerifExportAST builds
//	                        the document and its Attributes / AttributeDefaults / AttributeValues
//	                        are rendered in the order of the document
//	at import <dbc-json>    a document with the nodes / messages / signals of "keys" and the three
//	                        attribute sections is handed to VerifImportAST; the attribute
//	                        assignments and the dedicated fields are read through the getters
//
// JSON and renderings: see lean/Acme/Driver/Attr.lean.  Every line is stateless; a fourth word
// (gen, exported, text, ast, imported) names the generator of the line and is read by nobody.  A float travels
// as the exact rational "num/den" of the binary64 number.
//
// Generators: (a) documents made at AST level (all value forms × attribute types, missing and
// duplicate defaults / definitions, unknown names, missing entities, well-known names with
// right and wrong forms), (b) documents obtained from DBC TEXT by dbc.Parse, in which numbers are
// spelled `5`, `0x1F`, `5.0`, `5.5`, `1e3`, `9223372036854775808`, `-3` …, (c) the document the real
// exporter made from a generated model (model of the importer on the output of the real
// exporter), (d) the model read back from an accepted import (model of the exporter on the output
// of the real importer).
//
// Oracle (Go side only, property C11): after an accepted `at export` the exported document is
// imported again and read back; "c11-attr:<class>" when the import is refused or the attributes
// differ from the NORMAL FORM of what was built (assignments sorted by attribute name; the hex
// format flag of an integer attribute whose range does not fit 0..2^32-1 cleared — since /repo
// 6272efd such an attribute is written as a plain INT attribute, nothing else of it may change).
// class = hex-range (the model holds a hex attribute that does not fit: repaired, must not fire
// any more — kept so that a regression is reported), reserved-name (an attribute of the user named
// like a well-known one, D83), same-name (two attributes with one name, D84), other.

type attrStream struct{ baseStream }

func init() { register(attrStream{}) }

func (attrStream) Name() string    { return "attr" }
func (attrStream) Props() []string { return []string{"C10", "C11"} }
func (attrStream) Parallel() bool  { return true }

// ---- JSON ---------------------------------------------------------------------------------

type atJDef struct {
	N    string   `json:"n"`
	T    string   `json:"t"` // s i f e
	S    string   `json:"s"`
	D    int64    `json:"d"`
	Min  int64    `json:"min"`
	Max  int64    `json:"max"`
	Hex  int      `json:"hex"`
	FD   string   `json:"fd"`
	FMin string   `json:"fmin"`
	FMax string   `json:"fmax"`
	Vals []string `json:"vals"`
}

type atJVal struct {
	T string `json:"t"` // s i f
	S string `json:"s"`
	I int64  `json:"i"`
	F string `json:"f"`
}

type atJAsg struct {
	D atJDef `json:"d"`
	V atJVal `json:"v"`
}

type atJEnt struct {
	K  string   `json:"k"` // n m s
	N  string   `json:"n"`
	ID uint32   `json:"id"`
	C  int64    `json:"c"`
	Dl int64    `json:"d"`
	SD int64    `json:"sd"`
	ST int      `json:"st"`
	SV string   `json:"sv"`
	A  []atJAsg `json:"a"`
}

type atJModel struct {
	Bus  []atJAsg `json:"bus"`
	Ents []atJEnt `json:"ents"`
}

type atJKey struct {
	K  string `json:"k"` // n m s
	N  string `json:"n"`
	ID uint32 `json:"id"`
}

type atJDDef struct {
	K    int      `json:"k"`
	N    string   `json:"n"`
	T    string   `json:"t"` // int hex float string enum
	Min  int64    `json:"min"`
	Max  int64    `json:"max"`
	HMin uint32   `json:"hmin"`
	HMax uint32   `json:"hmax"`
	FMin string   `json:"fmin"`
	FMax string   `json:"fmax"`
	Vals []string `json:"vals"`
}

type atJDVal struct {
	T string `json:"t"` // i h f s
	I int64  `json:"i"`
	H uint32 `json:"h"`
	F string `json:"f"`
	S string `json:"s"`
}

type atJDflt struct {
	N string  `json:"n"`
	V atJDVal `json:"v"`
}

type atJObj struct {
	K  string `json:"k"` // g n m s e
	N  string `json:"n"`
	ID uint32 `json:"id"`
}

type atJDValue struct {
	N string  `json:"n"`
	O atJObj  `json:"o"`
	V atJDVal `json:"v"`
}

type atJDbc struct {
	Keys []atJKey    `json:"keys"`
	Defs []atJDDef   `json:"defs"`
	Dflt []atJDflt   `json:"dflt"`
	Vals []atJDValue `json:"vals"`
}

// ---- exact rationals <-> float64 ----------------------------------------------------------------

func atRat(f float64) string {
	if math.IsNaN(f) || math.IsInf(f, 0) {
		return "nan"
	}
	return new(big.Rat).SetFloat64(f).String()
}

func atF(s string) float64 {
	r, ok := new(big.Rat).SetString(s)
	if !ok {
		return 0
	}
	f, _ := r.Float64()
	return f
}

// the float a decimal text denotes
func atDec(text string) float64 {
	f, err := strconv.ParseFloat(text, 64)
	if err != nil {
		panic("bad decimal " + text)
	}
	return f
}

func atQ(s string) string { return "\"" + s + "\"" }

func atQs(l []string) string {
	var o []string
	for _, s := range l {
		o = append(o, atQ(s))
	}
	return strings.Join(o, ",")
}

// ---- causes ---------------------------------------------------------------------------------------

func atCause(err error) string {
	var req *acmelib.ErrIsRequired
	if errors.As(err, &req) {
		return "defaultRequired"
	}
	var vi *acmelib.ValueIndexError
	if errors.As(err, &vi) {
		switch {
		case errors.Is(err, acmelib.ErrIsNegative):
			return "indexNegative"
		case errors.Is(err, acmelib.ErrOutOfBounds):
			return "indexOutOfBounds"
		}
		return "index?"
	}
	var ae *acmelib.ArgumentError
	if errors.As(err, &ae) {
		var gt *acmelib.ErrGreaterThen
		var lt *acmelib.ErrLowerThen
		switch {
		case ae.Name == "min" && errors.As(err, &gt):
			return "minGreaterThanMax"
		case ae.Name == "defValue" && errors.As(err, &gt):
			return "defGreaterThanMax"
		case ae.Name == "defValue" && errors.As(err, &lt):
			return "defLowerThanMin"
		case ae.Name == "values" && errors.Is(err, acmelib.ErrIsNil):
			return "valuesNil"
		}
		return "argument:" + ae.Name
	}
	var av *acmelib.AttributeValueError
	if errors.As(err, &av) {
		switch {
		case errors.Is(err, acmelib.ErrInvalidType):
			return "invalidType"
		case errors.Is(err, acmelib.ErrOutOfBounds):
			return "outOfBounds"
		case errors.Is(err, acmelib.ErrNotFound):
			return "notFound"
		}
		return "attributeValue?"
	}
	return "other:" + eiFirst(err.Error(), 60)
}

// ---- the real code: building a model through the public API ------------------------------------

func atMkAttr(d *atJDef) (acmelib.Attribute, error) {
	switch d.T {
	case "s":
		return acmelib.NewStringAttribute(d.N, d.S), nil
	case "i":
		a, err := acmelib.NewIntegerAttribute(d.N, int(d.D), int(d.Min), int(d.Max))
		if err != nil {
			return nil, err
		}
		if d.Hex != 0 {
			a.SetFormatHex()
		}
		return a, nil
	case "f":
		a, err := acmelib.NewFloatAttribute(d.N, atF(d.FD), atF(d.FMin), atF(d.FMax))
		if err != nil {
			return nil, err
		}
		return a, nil
	case "e":
		a, err := acmelib.NewEnumAttribute(d.N, d.Vals...)
		if err != nil {
			return nil, err
		}
		return a, nil
	}
	return nil, errors.New("bad def")
}

func atGoVal(v *atJVal) any {
	switch v.T {
	case "s":
		return v.S
	case "i":
		return int(v.I)
	default:
		return atF(v.F)
	}
}

type atBuilder struct {
	cache map[string]acmelib.Attribute
}

// one attribute object per distinct definition
func (b *atBuilder) attr(d *atJDef) (acmelib.Attribute, error) {
	key := encJSON(d)
	if a, ok := b.cache[key]; ok {
		return a, nil
	}
	a, err := atMkAttr(d)
	if err != nil {
		return nil, err
	}
	b.cache[key] = a
	return a, nil
}

func (b *atBuilder) assign(ent acmelib.AttributableEntity, asgs []atJAsg) error {
	// observe, then edit: before an entity gets the assignments of the model it carries two others,
	// is asked for its listing once, and loses them again — all at once where the model gives it
	// nothing, one by one otherwise.  What is exported afterwards is a function of the CURRENT
	// assignments, not of a listing somebody asked for earlier.
	type lister interface {
		AttributeAssignments() []*acmelib.AttributeAssignment
		RemoveAllAttributeAssignments()
		RemoveAttributeAssignment(acmelib.EntityID) error
	}
	if l, ok := ent.(lister); ok {
		g1 := acmelib.NewStringAttribute("zz_ghost_s", "g")
		g2, err := acmelib.NewIntegerAttribute("zz_ghost_i", 1, 0, 5)
		if err == nil && ent.AssignAttribute(g1, "gone") == nil && ent.AssignAttribute(g2, 3) == nil {
			_ = l.AttributeAssignments()
			if len(asgs) == 0 {
				l.RemoveAllAttributeAssignments()
			} else {
				_ = l.RemoveAttributeAssignment(g1.EntityID())
				_ = l.AttributeAssignments()
				_ = l.RemoveAttributeAssignment(g2.EntityID())
			}
		}
	}
	for i := range asgs {
		a, err := b.attr(&asgs[i].D)
		if err != nil {
			return err
		}
		if err := ent.AssignAttribute(a, atGoVal(&asgs[i].V)); err != nil {
			return err
		}
	}
	return nil
}

var atMsgSend = []acmelib.MessageSendType{acmelib.MessageSendTypeUnset, acmelib.MessageSendTypeCyclic,
	acmelib.MessageSendTypeCyclicIfActive, acmelib.MessageSendTypeCyclicAndTriggered,
	acmelib.MessageSendTypeCyclicIfActiveAndTriggered}

var atSigSend = []acmelib.SignalSendType{acmelib.SignalSendTypeUnset, acmelib.SignalSendTypeCyclic,
	acmelib.SignalSendTypeOnWrite, acmelib.SignalSendTypeOnWriteWithRepetition, acmelib.SignalSendTypeOnChange,
	acmelib.SignalSendTypeOnChangeWithRepetition, acmelib.SignalSendTypeIfActive,
	acmelib.SignalSendTypeIfActiveWithRepetition}

// atBuild: out != "" when the structure is not buildable (bad-op) or an attribute call is refused
func atBuild(m *atJModel) (bus *acmelib.Bus, out string) {
	b := &atBuilder{cache: map[string]acmelib.Attribute{}}
	bus = acmelib.NewBus("bus")
	if err := b.assign(bus, m.Bus); err != nil {
		return nil, "err " + atCause(err)
	}
	var curNI *acmelib.NodeInterface
	var curMsg *acmelib.Message
	nodeIdx := 0
	for i := range m.Ents {
		e := &m.Ents[i]
		switch e.K {
		case "n":
			node := acmelib.NewNode(e.N, acmelib.NodeID(nodeIdx), 1)
			nodeIdx++
			curNI = node.Interfaces()[0]
			curMsg = nil
			if err := bus.AddNodeInterface(curNI); err != nil {
				return nil, "bad-op node"
			}
			if err := b.assign(node, e.A); err != nil {
				return nil, "err " + atCause(err)
			}
		case "m":
			if curNI == nil {
				return nil, "bad-op msg-without-node"
			}
			msg := acmelib.NewMessage(sprintf("msg%d", e.ID), acmelib.MessageID(e.ID), 8)
			if err := msg.SetStaticCANID(acmelib.CANID(e.ID)); err != nil {
				return nil, "bad-op canid"
			}
			if err := curNI.AddSentMessage(msg); err != nil {
				return nil, "bad-op msg"
			}
			curMsg = msg
			msg.SetCycleTime(int(e.C))
			msg.SetDelayTime(int(e.Dl))
			msg.SetStartDelayTime(int(e.SD))
			if e.ST < 0 || e.ST >= len(atMsgSend) {
				return nil, "bad-op sendtype"
			}
			msg.SetSendType(atMsgSend[e.ST])
			if err := b.assign(msg, e.A); err != nil {
				return nil, "err " + atCause(err)
			}
		case "s":
			if curMsg == nil || uint32(curMsg.ID()) != e.ID {
				return nil, "bad-op sig-without-msg"
			}
			sig, err := acmelib.NewStandardSignal(e.N, acmelib.NewFlagSignalType("flag"))
			if err != nil {
				return nil, "bad-op sig"
			}
			if err := curMsg.AppendSignal(sig); err != nil {
				return nil, "bad-op sig-append"
			}
			sig.SetStartValue(atF(e.SV))
			if e.ST < 0 || e.ST >= len(atSigSend) {
				return nil, "bad-op sendtype"
			}
			sig.SetSendType(atSigSend[e.ST])
			if err := b.assign(sig, e.A); err != nil {
				return nil, "err " + atCause(err)
			}
		default:
			return nil, "bad-op ent"
		}
	}
	return bus, ""
}

// ---- rendering a document ------------------------------------------------------------------------

var atKindLetters = []string{"G", "N", "M", "S", "E"}

func atKindLetter(k dbc.AttributeKind) string {
	if int(k) < len(atKindLetters) {
		return atKindLetters[k]
	}
	return "?"
}

func atRenderDbc(f *dbc.File) string {
	var defs, dflt, vals []string
	for _, a := range f.Attributes {
		var t string
		switch a.Type {
		case dbc.AttributeInt:
			t = sprintf("INT(%d,%d)", a.MinInt, a.MaxInt)
		case dbc.AttributeHex:
			t = sprintf("HEX(%d,%d)", a.MinHex, a.MaxHex)
		case dbc.AttributeFloat:
			t = sprintf("FLOAT(%s,%s)", atRat(a.MinFloat), atRat(a.MaxFloat))
		case dbc.AttributeString:
			t = "STRING"
		case dbc.AttributeEnum:
			t = sprintf("ENUM(%s)", atQs(a.EnumValues))
		}
		defs = append(defs, sprintf("%s:%s:%s", atKindLetter(a.Kind), a.Name, t))
	}
	for _, d := range f.AttributeDefaults {
		var v string
		switch d.Type {
		case dbc.AttributeDefaultInt:
			v = sprintf("i:%d", d.ValueInt)
		case dbc.AttributeDefaultHex:
			v = sprintf("h:%d", d.ValueHex)
		case dbc.AttributeDefaultFloat:
			v = "f:" + atRat(d.ValueFloat)
		case dbc.AttributeDefaultString:
			v = "s:" + atQ(d.ValueString)
		}
		dflt = append(dflt, d.AttributeName+"="+v)
	}
	for _, a := range f.AttributeValues {
		var v, o string
		switch a.Type {
		case dbc.AttributeValueInt:
			v = sprintf("i:%d", a.ValueInt)
		case dbc.AttributeValueHex:
			v = sprintf("h:%d", a.ValueHex)
		case dbc.AttributeValueFloat:
			v = "f:" + atRat(a.ValueFloat)
		case dbc.AttributeValueString:
			v = "s:" + atQ(a.ValueString)
		}
		switch a.AttributeKind {
		case dbc.AttributeGeneral:
			o = "G"
		case dbc.AttributeNode:
			o = sprintf("N(%s)", a.NodeName)
		case dbc.AttributeMessage:
			o = sprintf("M(%d)", a.MessageID)
		case dbc.AttributeSignal:
			o = sprintf("S(%d,%s)", a.MessageID, a.SignalName)
		case dbc.AttributeEnvVar:
			o = sprintf("E(%s)", a.EnvVarName)
		}
		vals = append(vals, o+":"+a.AttributeName+"="+v)
	}
	return sprintf("defs=%s dflt=%s vals=%s", listStr(defs), listStr(dflt), listStr(vals))
}

// ---- a document from its JSON, and the JSON of a document -------------------------------------------

// a parsed (hence located) empty document: importFile reads the file name off the location
func atBaseFile() *dbc.File {
	var b bytes.Buffer
	dbc.Write(&b, &dbc.File{Nodes: &dbc.Nodes{}}, false)
	f, err := dbc.Parse("attr", &b, false)
	if err != nil {
		panic("base file: " + err.Error())
	}
	return f
}

func atDVal(v *atJDVal) (typ int, i int, h uint32, f float64, s string) {
	switch v.T {
	case "i":
		return 0, int(v.I), 0, 0, ""
	case "h":
		return 3, 0, v.H, 0, ""
	case "f":
		return 2, 0, 0, atF(v.F), ""
	default:
		return 1, 0, 0, 0, v.S
	}
}

// the entities of "keys": nodes, messages (sent by the first node, else by the placeholder),
// one flag signal per signal key at consecutive bits
func atSkeleton(f *dbc.File, keys []atJKey) bool {
	f.Nodes = &dbc.Nodes{}
	tx := dbc.DummyNode
	for _, k := range keys {
		if k.K == "n" {
			f.Nodes.Names = append(f.Nodes.Names, k.N)
			if tx == dbc.DummyNode {
				tx = k.N
			}
		}
	}
	msgs := map[uint32]*dbc.Message{}
	for _, k := range keys {
		if k.K == "m" {
			if msgs[k.ID] != nil {
				return false
			}
			m := &dbc.Message{ID: k.ID, Name: sprintf("msg%d", k.ID), Size: 8, Transmitter: tx}
			msgs[k.ID] = m
			f.Messages = append(f.Messages, m)
		}
	}
	for _, k := range keys {
		if k.K == "s" {
			m := msgs[k.ID]
			if m == nil || len(m.Signals) >= 64 {
				return false
			}
			m.Signals = append(m.Signals, &dbc.Signal{Name: k.N, Size: 1, StartBit: uint32(len(m.Signals)),
				ByteOrder: dbc.SignalLittleEndian, ValueType: dbc.SignalUnsigned, Factor: 1,
				Min: 0, Max: 1, Receivers: []string{dbc.DummyNode}})
		}
	}
	return true
}

func atFileOf(d *atJDbc) *dbc.File {
	f := atBaseFile()
	if !atSkeleton(f, d.Keys) {
		return nil
	}
	for i := range d.Defs {
		x := &d.Defs[i]
		a := &dbc.Attribute{Kind: dbc.AttributeKind(x.K), Name: x.N}
		switch x.T {
		case "int":
			a.Type, a.MinInt, a.MaxInt = dbc.AttributeInt, int(x.Min), int(x.Max)
		case "hex":
			a.Type, a.MinHex, a.MaxHex = dbc.AttributeHex, x.HMin, x.HMax
		case "float":
			a.Type, a.MinFloat, a.MaxFloat = dbc.AttributeFloat, atF(x.FMin), atF(x.FMax)
		case "string":
			a.Type = dbc.AttributeString
		case "enum":
			a.Type, a.EnumValues = dbc.AttributeEnum, append([]string{}, x.Vals...)
		default:
			return nil
		}
		f.Attributes = append(f.Attributes, a)
	}
	for i := range d.Dflt {
		x := &d.Dflt[i]
		t, iv, hv, fv, sv := atDVal(&x.V)
		f.AttributeDefaults = append(f.AttributeDefaults, &dbc.AttributeDefault{
			Type: dbc.AttributeDefaultType(t), AttributeName: x.N, ValueInt: iv, ValueHex: hv, ValueFloat: fv, ValueString: sv})
	}
	for i := range d.Vals {
		x := &d.Vals[i]
		t, iv, hv, fv, sv := atDVal(&x.V)
		v := &dbc.AttributeValue{Type: dbc.AttributeValueType(t), AttributeName: x.N,
			ValueInt: iv, ValueHex: hv, ValueFloat: fv, ValueString: sv}
		switch x.O.K {
		case "g":
			v.AttributeKind = dbc.AttributeGeneral
		case "n":
			v.AttributeKind, v.NodeName = dbc.AttributeNode, x.O.N
		case "m":
			v.AttributeKind, v.MessageID = dbc.AttributeMessage, x.O.ID
		case "s":
			v.AttributeKind, v.MessageID, v.SignalName = dbc.AttributeSignal, x.O.ID, x.O.N
		case "e":
			v.AttributeKind, v.EnvVarName = dbc.AttributeEnvVar, x.O.N
		default:
			return nil
		}
		f.AttributeValues = append(f.AttributeValues, v)
	}
	return f
}

func atJDValOf(typ int, i int, h uint32, f float64, s string) atJDVal {
	switch typ {
	case 0:
		return atJDVal{T: "i", I: int64(i)}
	case 3:
		return atJDVal{T: "h", H: h}
	case 2:
		return atJDVal{T: "f", F: atRat(f)}
	default:
		return atJDVal{T: "s", S: s}
	}
}

// atDbcOf reads the attribute sections and the entities of a document (nil when a float is not finite)
func atDbcOf(f *dbc.File) *atJDbc {
	d := &atJDbc{}
	if f.Nodes != nil {
		for _, n := range f.Nodes.Names {
			if n != dbc.DummyNode {
				d.Keys = append(d.Keys, atJKey{K: "n", N: n})
			}
		}
	}
	for _, m := range f.Messages {
		d.Keys = append(d.Keys, atJKey{K: "m", ID: m.ID})
		for _, s := range m.Signals {
			d.Keys = append(d.Keys, atJKey{K: "s", ID: m.ID, N: s.Name})
		}
	}
	bad := false
	chk := func(x float64) float64 {
		if math.IsNaN(x) || math.IsInf(x, 0) {
			bad = true
		}
		return x
	}
	for _, a := range f.Attributes {
		x := atJDDef{K: int(a.Kind), N: a.Name}
		switch a.Type {
		case dbc.AttributeInt:
			x.T, x.Min, x.Max = "int", int64(a.MinInt), int64(a.MaxInt)
		case dbc.AttributeHex:
			x.T, x.HMin, x.HMax = "hex", a.MinHex, a.MaxHex
		case dbc.AttributeFloat:
			x.T, x.FMin, x.FMax = "float", atRat(chk(a.MinFloat)), atRat(chk(a.MaxFloat))
		case dbc.AttributeString:
			x.T = "string"
		case dbc.AttributeEnum:
			x.T, x.Vals = "enum", append([]string{}, a.EnumValues...)
		}
		d.Defs = append(d.Defs, x)
	}
	for _, a := range f.AttributeDefaults {
		d.Dflt = append(d.Dflt, atJDflt{N: a.AttributeName,
			V: atJDValOf(int(a.Type), a.ValueInt, a.ValueHex, chk(a.ValueFloat), a.ValueString)})
	}
	for _, a := range f.AttributeValues {
		x := atJDValue{N: a.AttributeName, V: atJDValOf(int(a.Type), a.ValueInt, a.ValueHex, chk(a.ValueFloat), a.ValueString)}
		switch a.AttributeKind {
		case dbc.AttributeGeneral:
			x.O = atJObj{K: "g"}
		case dbc.AttributeNode:
			x.O = atJObj{K: "n", N: a.NodeName}
		case dbc.AttributeMessage:
			x.O = atJObj{K: "m", ID: a.MessageID}
		case dbc.AttributeSignal:
			x.O = atJObj{K: "s", ID: a.MessageID, N: a.SignalName}
		default:
			x.O = atJObj{K: "e", N: a.EnvVarName}
		}
		d.Vals = append(d.Vals, x)
	}
	if bad {
		return nil
	}
	return d
}

// ---- reading a bus back --------------------------------------------------------------------------

func atDefOf(att acmelib.Attribute) atJDef {
	d := atJDef{N: att.Name()}
	switch att.Type() {
	case acmelib.AttributeTypeString:
		a, _ := att.ToString()
		d.T, d.S = "s", a.DefValue()
	case acmelib.AttributeTypeInteger:
		a, _ := att.ToInteger()
		d.T, d.D, d.Min, d.Max = "i", int64(a.DefValue()), int64(a.Min()), int64(a.Max())
		if a.IsHexFormat() {
			d.Hex = 1
		}
	case acmelib.AttributeTypeFloat:
		a, _ := att.ToFloat()
		d.T, d.FD, d.FMin, d.FMax = "f", atRat(a.DefValue()), atRat(a.Min()), atRat(a.Max())
	case acmelib.AttributeTypeEnum:
		a, _ := att.ToEnum()
		d.T, d.Vals, d.S = "e", a.Values(), a.DefValue()
	}
	return d
}

func atAsgsOf(ent acmelib.AttributableEntity) []atJAsg {
	var out []atJAsg
	for _, aa := range ent.AttributeAssignments() {
		a := atJAsg{D: atDefOf(aa.Attribute())}
		switch v := aa.Value().(type) {
		case string:
			a.V = atJVal{T: "s", S: v}
		case int:
			a.V = atJVal{T: "i", I: int64(v)}
		case float64:
			a.V = atJVal{T: "f", F: atRat(v)}
		}
		out = append(out, a)
	}
	return out
}

func atFindMsg(bus *acmelib.Bus, id uint32) *acmelib.Message {
	for _, ni := range bus.NodeInterfaces() {
		for _, m := range ni.SentMessages() {
			if uint32(m.ID()) == id {
				return m
			}
		}
	}
	return nil
}

func atSendIdx[T comparable](tbl []T, v T) int {
	for i, x := range tbl {
		if x == v {
			return i
		}
	}
	return 0
}

// atReadBack reads the entities named by keys (nil: an entity is not there)
func atReadBack(bus *acmelib.Bus, keys []atJKey) *atJModel {
	m := &atJModel{Bus: atAsgsOf(bus)}
	for _, k := range keys {
		switch k.K {
		case "n":
			ni, err := bus.GetNodeInterfaceByNodeName(k.N)
			if err != nil {
				return nil
			}
			m.Ents = append(m.Ents, atJEnt{K: "n", N: k.N, A: atAsgsOf(ni.Node())})
		case "m":
			msg := atFindMsg(bus, k.ID)
			if msg == nil {
				return nil
			}
			m.Ents = append(m.Ents, atJEnt{K: "m", ID: k.ID, C: int64(msg.CycleTime()), Dl: int64(msg.DelayTime()),
				SD: int64(msg.StartDelayTime()), ST: atSendIdx(atMsgSend, msg.SendType()), A: atAsgsOf(msg)})
		case "s":
			msg := atFindMsg(bus, k.ID)
			if msg == nil {
				return nil
			}
			var sig acmelib.Signal
			for _, s := range msg.Signals() {
				if s.Name() == k.N {
					sig = s
				}
			}
			if sig == nil {
				return nil
			}
			m.Ents = append(m.Ents, atJEnt{K: "s", ID: k.ID, N: k.N, SV: atRat(sig.StartValue()),
				ST: atSendIdx(atSigSend, sig.SendType()), A: atAsgsOf(sig)})
		}
	}
	return m
}

func atShowDef(d *atJDef) string {
	switch d.T {
	case "s":
		return sprintf("str(%s)", atQ(d.S))
	case "i":
		if d.Hex != 0 {
			return sprintf("hex(%d,%d,%d)", d.D, d.Min, d.Max)
		}
		return sprintf("int(%d,%d,%d)", d.D, d.Min, d.Max)
	case "f":
		return sprintf("float(%s,%s,%s)", d.FD, d.FMin, d.FMax)
	default:
		return sprintf("enum(%s;%s)", atQs(d.Vals), atQ(d.S))
	}
}

func atShowVal(v *atJVal) string {
	switch v.T {
	case "s":
		return "s:" + atQ(v.S)
	case "i":
		return sprintf("i:%d", v.I)
	default:
		return "f:" + v.F
	}
}

func atShowAsgs(l []atJAsg) string {
	var o []string
	for i := range l {
		o = append(o, l[i].D.N+":"+atShowDef(&l[i].D)+"="+atShowVal(&l[i].V))
	}
	return listStr(o)
}

var atMsgSendNames = dbc.MsgSendTypeValues
var atSigSendNames = dbc.SigSendTypeValues

func atShowModel(m *atJModel) string {
	var es []string
	for i := range m.Ents {
		e := &m.Ents[i]
		switch e.K {
		case "n":
			es = append(es, sprintf("N(%s)%s", e.N, atShowAsgs(e.A)))
		case "m":
			es = append(es, sprintf("M(%d){c=%d,d=%d,sd=%d,st=%s}%s", e.ID, e.C, e.Dl, e.SD, atMsgSendNames[e.ST], atShowAsgs(e.A)))
		case "s":
			es = append(es, sprintf("S(%d,%s){sv=%s,st=%s}%s", e.ID, e.N, e.SV, atSigSendNames[e.ST], atShowAsgs(e.A)))
		}
	}
	return sprintf("bus=%s ents=[%s]", atShowAsgs(m.Bus), strings.Join(es, ";"))
}

// ---- the two operations ----------------------------------------------------------------------------

func atImportFile(f *dbc.File, keys []atJKey) (out string, back *atJModel) {
	bus, err := acmelib.VerifImportAST(f)
	if err != nil {
		return "err " + atCause(err), nil
	}
	back = atReadBack(bus, keys)
	if back == nil {
		return "err entity-missing", nil
	}
	return "ok " + atShowModel(back), back
}

func atImport(d *atJDbc) (out string, back *atJModel) {
	f := atFileOf(d)
	if f == nil {
		return "bad-op file", nil
	}
	return atImportFile(f, d.Keys)
}

func atExport(m *atJModel) (out string, bus *acmelib.Bus, ast *dbc.File) {
	bus, out = atBuild(m)
	if out != "" {
		return out, nil, nil
	}
	ast = acmelib.VerifExportAST(bus)
	return "ok " + atRenderDbc(ast), bus, ast
}

// ---- Exec ---------------------------------------------------------------------------------------------

type attrExec struct{ fs []Finding }

func (attrStream) NewExec() Exec        { return &attrExec{} }
func (e *attrExec) Findings() []Finding { return e.fs }
func (e *attrExec) find(prop, sig, detail string) {
	if len(e.fs) < 8 {
		e.fs = append(e.fs, Finding{Prop: prop, Sig: sig, Detail: detail})
	}
}

func (e *attrExec) Do(line string) string {
	f := fields(line)
	if len(f) < 3 || f[0] != "at" {
		return "bad-op"
	}
	switch f[1] {
	case "export":
		m := &atJModel{}
		if err := json.Unmarshal([]byte(f[2]), m); err != nil {
			return "bad-op json"
		}
		out, bus, ast := atExport(m)
		if bus != nil {
			e.oracleC11(line, m, ast)
		}
		return out
	case "import":
		d := &atJDbc{}
		if err := json.Unmarshal([]byte(f[2]), d); err != nil {
			return "bad-op json"
		}
		out, _ := atImport(d)
		return out
	}
	return "bad-op"
}

// ---- oracle C11 ----------------------------------------------------------------------------------------

var atReserved = map[string]bool{dbc.MsgCycleTimeName: true, dbc.MsgDelayTimeName: true, dbc.MsgStartDelayTimeName: true,
	dbc.MsgSendTypeName: true, dbc.SigStartValueName: true, dbc.SigSendTypeName: true}

func atAllAsgs(m *atJModel) [][]atJAsg {
	all := [][]atJAsg{m.Bus}
	for i := range m.Ents {
		all = append(all, m.Ents[i].A)
	}
	return all
}

// the normal form of a model (Acme.Attr.normA): assignments sorted by attribute name, the hex flag
// of an integer attribute kept only when its range fits unsigned 32 bit; an enum definition as
// the constructor leaves it (values de-duplicated, the first one is the default)
func atNorm(m *atJModel) *atJModel {
	cp := &atJModel{}
	b, _ := json.Marshal(m)
	json.Unmarshal(b, cp)
	fix := func(l []atJAsg) {
		for i := range l {
			d := &l[i].D
			switch d.T {
			case "i":
				if d.Hex != 0 && !(d.Min >= 0 && d.Max <= math.MaxUint32) {
					d.Hex = 0
				}
			case "e":
				seen := map[string]bool{}
				var vs []string
				for _, v := range d.Vals {
					if !seen[v] {
						seen[v] = true
						vs = append(vs, v)
					}
				}
				if len(d.Vals) > 0 {
					d.S = d.Vals[0]
				}
				d.Vals = vs
			}
		}
		sort.SliceStable(l, func(i, j int) bool { return l[i].D.N < l[j].D.N })
	}
	fix(cp.Bus)
	for i := range cp.Ents {
		fix(cp.Ents[i].A)
	}
	return cp
}

func atLossClass(m *atJModel) string {
	u32 := func(x int64) bool { return x >= 0 && x <= math.MaxUint32 }
	defs := map[string]string{}
	class := ""
	set := func(c string) {
		if class == "" {
			class = c
		}
	}
	for _, l := range atAllAsgs(m) {
		names := map[string]bool{}
		for i := range l {
			d := &l[i].D
			if names[d.N] {
				set("same-name")
			}
			names[d.N] = true
			key := encJSON(d)
			if old, ok := defs[d.N]; ok && old != key {
				set("same-name")
			}
			defs[d.N] = key
		}
	}
	for _, l := range atAllAsgs(m) {
		for i := range l {
			if atReserved[l[i].D.N] {
				set("reserved-name")
			}
		}
	}
	for _, l := range atAllAsgs(m) {
		for i := range l {
			d := &l[i].D
			if d.T == "i" && d.Hex != 0 && !(u32(d.Min) && u32(d.Max)) {
				set("hex-range")
			}
		}
	}
	if class == "" {
		return "other"
	}
	return class
}

func atKeysOf(m *atJModel) []atJKey {
	var ks []atJKey
	for i := range m.Ents {
		ks = append(ks, atJKey{K: m.Ents[i].K, N: m.Ents[i].N, ID: m.Ents[i].ID})
	}
	return ks
}

func (e *attrExec) oracleC11(line string, m *atJModel, ast *dbc.File) {
	f := atBaseFile()
	f.Nodes, f.Messages = ast.Nodes, ast.Messages
	f.Attributes, f.AttributeDefaults, f.AttributeValues = ast.Attributes, ast.AttributeDefaults, ast.AttributeValues
	out, back := atImportFile(f, atKeysOf(m))
	want := "ok " + atShowModel(atNorm(m))
	if out == want {
		return
	}
	class := atLossClass(m)
	if class == "reserved-name" || class == "same-name" {
		// the two recorded losses (D83, D84) explain a difference only if the model WITHOUT the
		// attributes they concern round-trips: otherwise something else is lost as well
		if m2 := atWithoutLossy(m); m2 != nil {
			if _, bus2, ast2 := atExport(m2); bus2 != nil {
				f2 := atBaseFile()
				f2.Nodes, f2.Messages = ast2.Nodes, ast2.Messages
				f2.Attributes, f2.AttributeDefaults, f2.AttributeValues = ast2.Attributes, ast2.AttributeDefaults, ast2.AttributeValues
				out2, _ := atImportFile(f2, atKeysOf(m2))
				if out2 != "ok "+atShowModel(atNorm(m2)) {
					class = "other-beside-" + class
				}
			}
		}
	}
	if back == nil {
		e.find("C11", "c11-attr:"+class+":reimport-refused", sprintf("%s | %s", out, eiFirst(line, 600)))
		return
	}
	e.find("C11", "c11-attr:"+class+":differs", sprintf("built %s | came back %s", eiFirst(want, 500), eiFirst(out, 500)))
}

// ---- generators ------------------------------------------------------------------------------------------

var atNames = []string{"A", "B", "C", "Dd", "Ee", "F1"}
var atSpecialNames = []string{dbc.MsgCycleTimeName, dbc.MsgDelayTimeName, dbc.MsgStartDelayTimeName,
	dbc.MsgSendTypeName, dbc.SigStartValueName, dbc.SigSendTypeName}
var atStrings = []string{"", "x", "hello", "Cyclic", "a-b", "OnWrite", "NoMsgSendType", "IfActive", "CyclicIfActive"}
var atEnumPool = []string{"a", "b", "c", "Cyclic", "OnChange", "x"}

// decimal spellings: integral, fractional, exponent, beyond int64, negative
var atDecimals = []string{"0.0", "5.0", "5.5", "1e3", "-3.0", "-2.5", "9223372036854775808.0", "-9223372036854775808.0",
	"-9223372036854775809.0", "1e19", "0.1", "100.0", "10000.0", "3600000.0", "1.5e2", "4294967295.0", "4294967296.0",
	"9007199254740993.0", "7.0", "2.0", "1.0", "-1.0", "12.25", "1e-3"}

var atInts = []int64{0, 1, 2, 3, 5, 7, 10, 100, 1000, -1, -3, -100, 4294967295, 4294967296, math.MaxInt64, math.MinInt64,
	9007199254740993, -9007199254740993, 3600000, 255, 65535}

func atRndInt(r *rand.Rand) int64 {
	if r.Intn(3) == 0 {
		return pick(r, atInts...)
	}
	return int64(r.Intn(41) - 10)
}

// a value of [a,b] (a when the interval is empty or too wide for the PRNG)
func atBetween(r *rand.Rand, a, b int64) int64 {
	if b <= a {
		return a
	}
	span := b - a
	if span <= 0 || span == math.MaxInt64 {
		return a
	}
	return a + r.Int63n(span+1)
}

func atRndFloat(r *rand.Rand) float64 {
	switch r.Intn(3) {
	case 0:
		return atDec(pick(r, atDecimals...))
	case 1:
		return float64(r.Intn(41) - 10)
	}
	return float64(r.Intn(401)-100) / 8
}

func atRndEnumVals(r *rand.Rand) []string {
	n := 1 + r.Intn(4)
	if r.Intn(40) == 0 {
		n = 0
	}
	vs := []string{}
	for i := 0; i < n; i++ {
		vs = append(vs, pick(r, atEnumPool...))
	}
	return vs
}

// ---- (model side) a random definition and a value for it

func atGenDef(r *rand.Rand, name string) atJDef {
	d := atJDef{N: name, FD: "0/1", FMin: "0/1", FMax: "0/1"}
	switch r.Intn(4) {
	case 0:
		d.T, d.S = "s", pick(r, atStrings...)
	case 1:
		d.T = "i"
		a, b := atRndInt(r), atRndInt(r)
		if a > b && r.Intn(30) != 0 {
			a, b = b, a
		}
		d.Min, d.Max = a, b
		switch r.Intn(15) {
		case 0:
			d.D = atRndInt(r)
		case 1, 2, 3:
			d.D = a
		case 4, 5, 6:
			d.D = b
		default:
			d.D = atBetween(r, a, b)
		}
		if r.Intn(3) == 0 {
			d.Hex = 1
			if r.Intn(6) == 0 { // the edge of the uint32 range
				d.Min, d.Max = 0, pick(r, int64(4294967295), 4294967296)
				d.D = pick(r, int64(0), d.Max)
			} else if r.Intn(4) != 0 { // mostly inside the uint32 range
				fit := func(x int64) int64 {
					if x < 0 {
						x = -(x + 1)
					}
					return x % (1 << 32)
				}
				d.Min, d.Max, d.D = fit(d.Min), fit(d.Max), fit(d.D)
				if d.Min > d.Max {
					d.Min, d.Max = d.Max, d.Min
				}
				if d.D < d.Min || d.D > d.Max {
					d.D = d.Min
				}
			}
		}
	case 2:
		d.T = "f"
		a, b := atRndFloat(r), atRndFloat(r)
		if a > b && r.Intn(30) != 0 {
			a, b = b, a
		}
		df := a
		switch r.Intn(15) {
		case 0:
			df = atRndFloat(r)
		case 1, 2, 3:
			df = b
		case 4, 5, 6, 7:
			if b > a {
				df = a + (b-a)/2
			}
		}
		d.FD, d.FMin, d.FMax = atRat(df), atRat(a), atRat(b)
	default:
		d.T, d.Vals = "e", atRndEnumVals(r)
	}
	return d
}

func atGenVal(r *rand.Rand, d *atJDef) atJVal {
	if r.Intn(60) == 0 { // any form
		switch r.Intn(3) {
		case 0:
			return atJVal{T: "s", S: pick(r, atStrings...)}
		case 1:
			return atJVal{T: "i", I: atRndInt(r)}
		}
		return atJVal{T: "f", F: atRat(atRndFloat(r))}
	}
	switch d.T {
	case "s":
		return atJVal{T: "s", S: pick(r, atStrings...)}
	case "i":
		v := d.Min
		switch r.Intn(20) {
		case 0:
			v = atRndInt(r)
		case 1, 2, 3, 4:
			v = d.Max
		case 5, 6, 7, 8, 9, 10, 11, 12, 13, 14:
			v = atBetween(r, d.Min, d.Max)
		}
		return atJVal{T: "i", I: v}
	case "f":
		a, b := atF(d.FMin), atF(d.FMax)
		v := a
		switch r.Intn(20) {
		case 0:
			v = atRndFloat(r)
		case 1, 2, 3, 4:
			v = b
		case 5, 6, 7, 8, 9, 10, 11, 12, 13, 14:
			if b > a {
				v = a + (b-a)*float64(r.Intn(9))/8
				if math.IsInf(v, 0) || math.IsNaN(v) {
					v = a
				}
			}
		}
		return atJVal{T: "f", F: atRat(v)}
	default:
		if len(d.Vals) > 0 && r.Intn(30) != 0 {
			return atJVal{T: "s", S: pick(r, d.Vals...)}
		}
		return atJVal{T: "s", S: pick(r, atEnumPool...)}
	}
}

func atGenModel(r *rand.Rand) *atJModel {
	// a pool of attributes; names mostly distinct
	var pool []atJDef
	n := 2 + r.Intn(5)
	for i := 0; i < n; i++ {
		name := atNames[i%len(atNames)]
		switch r.Intn(25) {
		case 0:
			name = pick(r, atNames...) // possibly a second attribute with the name
		case 1:
			name = pick(r, atSpecialNames...)
		}
		pool = append(pool, atGenDef(r, name))
	}
	asgs := func() []atJAsg {
		var l []atJAsg
		used := map[string]bool{}
		for k := r.Intn(4); k > 0; k-- {
			d := pool[r.Intn(len(pool))]
			if used[d.N] { // one entity never holds two attributes of one name (their order is by entity id)
				continue
			}
			used[d.N] = true
			l = append(l, atJAsg{D: d, V: atGenVal(r, &d)})
		}
		return l
	}
	time := func() int64 {
		switch r.Intn(4) {
		case 0:
			return 0
		case 1:
			return atRndInt(r)
		}
		return int64(r.Intn(2000))
	}
	m := &atJModel{Bus: asgs()}
	id := uint32(1 + r.Intn(50))
	for ni, nn := 0, 1+r.Intn(2); ni < nn; ni++ {
		m.Ents = append(m.Ents, atJEnt{K: "n", N: sprintf("n%d", ni), A: asgs()})
		for mi, mn := 0, r.Intn(3); mi < mn; mi++ {
			e := atJEnt{K: "m", ID: id, A: asgs()}
			if r.Intn(3) != 0 {
				e.C, e.Dl, e.SD, e.ST = time(), time(), time(), r.Intn(5)
			}
			m.Ents = append(m.Ents, e)
			for si, sn := 0, r.Intn(3); si < sn; si++ {
				s := atJEnt{K: "s", ID: id, N: sprintf("s%d", si), SV: "0/1", A: asgs()}
				if r.Intn(2) == 0 {
					s.SV, s.ST = atRat(atRndFloat(r)), r.Intn(8)
				}
				m.Ents = append(m.Ents, s)
			}
			id += uint32(1 + r.Intn(20))
		}
	}
	return m
}

// ---- (file side) a random document at AST level

func atGenKeys(r *rand.Rand) []atJKey {
	var ks []atJKey
	id := uint32(1 + r.Intn(50))
	for ni, nn := 0, 1+r.Intn(2); ni < nn; ni++ {
		ks = append(ks, atJKey{K: "n", N: sprintf("n%d", ni)})
	}
	for mi, mn := 0, r.Intn(3); mi < mn; mi++ {
		ks = append(ks, atJKey{K: "m", ID: id})
		for si, sn := 0, r.Intn(3); si < sn; si++ {
			ks = append(ks, atJKey{K: "s", ID: id, N: sprintf("s%d", si)})
		}
		id += uint32(1 + r.Intn(20))
	}
	return ks
}

func atGenDDef(r *rand.Rand, name string) atJDDef {
	d := atJDDef{K: r.Intn(5), N: name, FMin: "0/1", FMax: "0/1"}
	switch r.Intn(5) {
	case 0:
		d.T = "string"
	case 1:
		d.T = "int"
		a, b := atRndInt(r), atRndInt(r)
		if a > b && r.Intn(30) != 0 {
			a, b = b, a
		}
		d.Min, d.Max = a, b
	case 2:
		d.T = "hex"
		a, b := uint32(r.Intn(20)), uint32(r.Intn(300))
		if r.Intn(4) == 0 {
			b = math.MaxUint32
		}
		if a > b && r.Intn(30) != 0 {
			a, b = b, a
		}
		d.HMin, d.HMax = a, b
	case 3:
		d.T = "float"
		a, b := atRndFloat(r), atRndFloat(r)
		if a > b && r.Intn(30) != 0 {
			a, b = b, a
		}
		if r.Intn(4) == 0 { // room for integers that a float64 cannot hold exactly
			a, b = -1e19, 1e19
		}
		d.FMin, d.FMax = atRat(a), atRat(b)
	default:
		d.T, d.Vals = "enum", atRndEnumVals(r)
	}
	return d
}

// a number near the bounds of the definition, in a random written form
func atGenNumber(r *rand.Rand, d *atJDDef, wild int) atJDVal {
	if d.T == "float" && r.Intn(5) == 0 {
		return atJDVal{T: "i", I: pick(r, int64(9007199254740993), -9007199254740993, 9007199254740995, math.MaxInt64,
			math.MinInt64, 4611686018427387905, 9007199254740992, 1<<62+1<<8, 18014398509481985, -18014398509481987)}
	}
	var lo, hi float64
	switch d.T {
	case "int":
		lo, hi = float64(d.Min), float64(d.Max)
	case "hex":
		lo, hi = float64(d.HMin), float64(d.HMax)
	case "float":
		lo, hi = atF(d.FMin), atF(d.FMax)
	case "enum":
		lo, hi = 0, float64(len(d.Vals)-1)
	default:
		lo, hi = 0, 10
	}
	var x float64
	c := r.Intn(8)
	if c >= 2 && c <= 4 && r.Intn(wild) != 0 {
		c = 5
	}
	switch c {
	case 0:
		x = lo
	case 1:
		x = hi
	case 2:
		x = lo - 1
	case 3:
		x = hi + 1
	case 4:
		x = atRndFloat(r)
	default:
		x = lo
		if hi > lo {
			x = math.Floor(lo + (hi-lo)*float64(r.Intn(9))/8)
		}
	}
	if math.IsNaN(x) || math.IsInf(x, 0) {
		x = 0
	}
	form := r.Intn(10)
	if form >= 8 && r.Intn(wild) != 0 {
		form = r.Intn(8)
	}
	integral := x == math.Trunc(x) && x >= -9.2e18 && x <= 9.2e18
	switch {
	case form < 4 && integral:
		return atJDVal{T: "i", I: int64(x)}
	case form < 6 && integral && x >= 0 && x <= math.MaxUint32:
		return atJDVal{T: "h", H: uint32(x)}
	case form < 8:
		return atJDVal{T: "f", F: atRat(x)}
	case form == 8:
		return atJDVal{T: "f", F: atRat(x + 0.5)}
	}
	return atJDVal{T: "i", I: atRndInt(r)}
}

func atGenDValFor(r *rand.Rand, d *atJDDef, wild int) atJDVal {
	if r.Intn(10*wild) == 0 {
		return atJDVal{T: "s", S: pick(r, atStrings...)}
	}
	switch d.T {
	case "string":
		if r.Intn(6*wild) == 0 {
			return atGenNumber(r, d, wild)
		}
		return atJDVal{T: "s", S: pick(r, atStrings...)}
	case "enum":
		switch r.Intn(8) {
		case 0:
			if len(d.Vals) > 0 {
				return atJDVal{T: "s", S: pick(r, d.Vals...)}
			}
		case 1:
			return atJDVal{T: "s", S: pick(r, atEnumPool...)}
		case 2:
			return atJDVal{T: "i", I: int64(r.Intn(8) - 2)}
		case 3:
			return atGenNumber(r, d, wild)
		}
		if len(d.Vals) > 0 {
			return atJDVal{T: "i", I: int64(r.Intn(len(d.Vals)))}
		}
		return atJDVal{T: "i", I: 0}
	}
	return atGenNumber(r, d, wild)
}

func atGenTarget(r *rand.Rand, keys []atJKey) atJObj {
	if len(keys) > 0 && r.Intn(8) != 0 {
		k := keys[r.Intn(len(keys))]
		if r.Intn(3) != 0 {
			return atJObj{K: k.K, N: k.N, ID: k.ID}
		}
	}
	switch r.Intn(6) {
	case 0:
		return atJObj{K: "n", N: pick(r, "n0", "n1", "nx", dbc.DummyNode)}
	case 1:
		return atJObj{K: "m", ID: uint32(r.Intn(80))}
	case 2:
		return atJObj{K: "s", ID: uint32(r.Intn(80)), N: pick(r, "s0", "s1", "sx")}
	case 3:
		return atJObj{K: "e", N: "ev"}
	}
	return atJObj{K: "g"}
}

// the definition a well-known attribute usually has in a file (sometimes another one)
func atSpecialDDef(r *rand.Rand, name string) atJDDef {
	if r.Intn(4) == 0 {
		return atGenDDef(r, name)
	}
	d := atJDDef{N: name, FMin: "0/1", FMax: "0/1"}
	switch name {
	case dbc.MsgCycleTimeName, dbc.MsgDelayTimeName, dbc.MsgStartDelayTimeName:
		d.K, d.T, d.Min, d.Max = 2, "int", 0, pick(r, int64(1000), 3600000, 100)
		if r.Intn(5) == 0 {
			d.T, d.HMin, d.HMax = "hex", 0, 100000
		}
	case dbc.MsgSendTypeName:
		d.K, d.T, d.Vals = 2, "enum", append([]string{}, dbc.MsgSendTypeValues...)
		if r.Intn(4) == 0 {
			d.Vals = []string{"Cyclic", "NoMsgSendType", "Cyclic", "CyclicIfActive", "spontaneous"}
		}
	case dbc.SigStartValueName:
		d.K, d.T, d.FMin, d.FMax = 3, "float", "0/1", "10000/1"
		if r.Intn(4) == 0 {
			d.T, d.Min, d.Max = "int", 0, 10000
		}
	case dbc.SigSendTypeName:
		d.K, d.T, d.Vals = 3, "enum", append([]string{}, dbc.SigSendTypeValues...)
		if r.Intn(4) == 0 {
			d.Vals = []string{"OnWrite", "OnWrite", "Cyclic", "IfActive"}
		}
	}
	return d
}

func atGenDbc(r *rand.Rand) *atJDbc {
	d := &atJDbc{Keys: atGenKeys(r)}
	n := 1 + r.Intn(5)
	for i := 0; i < n; i++ {
		name := atNames[i%len(atNames)]
		var def atJDDef
		switch {
		case r.Intn(4) == 0:
			name = pick(r, atSpecialNames...)
			def = atSpecialDDef(r, name)
		case r.Intn(15) == 0:
			name = pick(r, atNames...) // a second definition of a name
			def = atGenDDef(r, name)
		default:
			def = atGenDDef(r, name)
		}
		d.Defs = append(d.Defs, def)
		if r.Intn(14) != 0 {
			d.Dflt = append(d.Dflt, atJDflt{N: name, V: atGenDValFor(r, &def, 6)})
		}
		if r.Intn(20) == 0 {
			d.Dflt = append(d.Dflt, atJDflt{N: name, V: atGenDValFor(r, &def, 2)})
		}
	}
	if r.Intn(6) == 0 {
		r.Shuffle(len(d.Dflt), func(i, j int) { d.Dflt[i], d.Dflt[j] = d.Dflt[j], d.Dflt[i] })
	}
	for k := r.Intn(7); k > 0; k-- {
		def := d.Defs[r.Intn(len(d.Defs))]
		// the definition that counts is the LAST one of the name
		for i := range d.Defs {
			if d.Defs[i].N == def.N {
				def = d.Defs[i]
			}
		}
		name := def.N
		if r.Intn(15) == 0 {
			name = "Unknown"
		}
		v := atJDValue{N: name, V: atGenDValFor(r, &def, 3)}
		v.O = atGenTarget(r, d.Keys)
		// a well-known name mostly on its own kind of entity
		if sp := atReserved[name]; sp && r.Intn(4) != 0 {
			want := "m"
			if name == dbc.SigStartValueName || name == dbc.SigSendTypeName {
				want = "s"
			}
			for _, k := range d.Keys {
				if k.K == want {
					v.O = atJObj{K: k.K, N: k.N, ID: k.ID}
				}
			}
		}
		d.Vals = append(d.Vals, v)
	}
	return d
}

// ---- (file side) a document spelled as TEXT and parsed by the real parser

var atIntTexts = []string{"0", "5", "7", "-3", "10", "100", "3600000", "9223372036854775807", "-9223372036854775808",
	"9223372036854775808", "0x1F", "0x0", "0xFFFFFFFF", "0x5", "0x7", "5.0", "5.5", "1e3", "1E3", "-2.0", "7.000", "2.5e1", "0.5e1",
	"9223372036854775808.0", "4294967296", "1.0", "2", "1", "3", "5", "7", "2.0", "3.0", "1e1", "1e0", "0.0", "4", "6", "8", "9"}

func atGenText(r *rand.Rand) *atJDbc {
	keys := atGenKeys(r)
	f := &dbc.File{}
	if !atSkeleton(f, keys) {
		return nil
	}
	var b bytes.Buffer
	dbc.Write(&b, f, false)
	hexMode := r.Intn(2) == 0
	num := func() string {
		for {
			if t := pick(r, atIntTexts...); hexMode || !strings.HasPrefix(t, "0x") {
				return t
			}
		}
	}
	var defs, dflt, vals []string
	type tdef struct{ name, typ string }
	var ds []tdef
	n := 1 + r.Intn(4)
	for i := 0; i < n; i++ {
		name := atNames[i%len(atNames)]
		if r.Intn(4) == 0 {
			name = pick(r, atSpecialNames...)
		}
		obj := pick(r, "", "BU_ ", "BO_ ", "SG_ ", "EV_ ")
		typ := pick(r, "INT", "HEX", "FLOAT", "STRING", "ENUM")
		switch name {
		case dbc.MsgCycleTimeName, dbc.MsgDelayTimeName, dbc.MsgStartDelayTimeName:
			typ = pick(r, "INT", "INT", "INT", "HEX", "FLOAT")
		case dbc.MsgSendTypeName, dbc.SigSendTypeName:
			typ = pick(r, "ENUM", "ENUM", "ENUM", "STRING", "INT")
		case dbc.SigStartValueName:
			typ = pick(r, "FLOAT", "FLOAT", "INT", "STRING")
		}
		switch typ {
		case "INT":
			defs = append(defs, sprintf("BA_DEF_ %s\"%s\" INT %s %s;", obj, name, pick(r, "0", "-10", "-9223372036854775808"), pick(r, "10", "3600000", "9223372036854775807")))
		case "HEX":
			if hexMode {
				defs = append(defs, sprintf("BA_DEF_ %s\"%s\" HEX %s %s;", obj, name, pick(r, "0x0", "0x1"), pick(r, "0xA", "0xFF", "0xFFFFFFFF")))
			} else {
				defs = append(defs, sprintf("BA_DEF_ %s\"%s\" HEX %s %s;", obj, name, pick(r, "0", "1"), pick(r, "10", "255", "4294967295")))
			}
		case "FLOAT":
			defs = append(defs, sprintf("BA_DEF_ %s\"%s\" FLOAT %s %s;", obj, name, pick(r, "0", "-10.5", "0.0"), pick(r, "10", "10000", "1e19")))
		case "STRING":
			defs = append(defs, sprintf("BA_DEF_ %s\"%s\" STRING ;", obj, name))
		case "ENUM":
			vs := []string{"Cyclic", "OnWrite", "NoMsgSendType", "Cyclic"}[:1+r.Intn(4)]
			defs = append(defs, sprintf("BA_DEF_ %s\"%s\" ENUM %s;", obj, name, atQs(vs)))
		}
		ds = append(ds, tdef{name, typ})
		if r.Intn(12) != 0 {
			v := num()
			if typ == "STRING" || typ == "ENUM" {
				if r.Intn(5) != 0 {
					v = atQ(pick(r, "Cyclic", "OnWrite", "x", ""))
				}
			}
			dflt = append(dflt, sprintf("BA_DEF_DEF_ \"%s\" %s;", name, v))
		}
	}
	for k := r.Intn(6); k > 0; k-- {
		d := ds[r.Intn(len(ds))]
		v := num()
		switch d.typ {
		case "STRING":
			if r.Intn(6) != 0 {
				v = atQ(pick(r, atStrings...))
			}
		case "ENUM":
			switch r.Intn(4) {
			case 0:
				v = atQ(pick(r, "Cyclic", "OnWrite", "x"))
			case 1:
				v = pick(r, "0", "1", "2", "3", "4", "-1", "1.0")
			}
		}
		obj := ""
		if len(keys) > 0 && r.Intn(5) != 0 {
			want := ""
			switch d.name {
			case dbc.MsgCycleTimeName, dbc.MsgDelayTimeName, dbc.MsgStartDelayTimeName, dbc.MsgSendTypeName:
				want = "m"
			case dbc.SigStartValueName, dbc.SigSendTypeName:
				want = "s"
			}
			k := keys[r.Intn(len(keys))]
			if want != "" && r.Intn(4) != 0 {
				for _, kk := range keys {
					if kk.K == want {
						k = kk
					}
				}
			}
			switch k.K {
			case "n":
				obj = sprintf("BU_ %s ", k.N)
			case "m":
				obj = sprintf("BO_ %d ", k.ID)
			case "s":
				obj = sprintf("SG_ %d %s ", k.ID, k.N)
			}
		}
		vals = append(vals, sprintf("BA_ \"%s\" %s%s;", d.name, obj, v))
	}
	text := b.String() + "\n" + strings.Join(defs, "\n") + "\n" + strings.Join(dflt, "\n") + "\n" + strings.Join(vals, "\n") + "\n"
	pf, err := dbc.Parse("attr", strings.NewReader(text), hexMode)
	if err != nil {
		return nil
	}
	d := atDbcOf(pf)
	if d == nil {
		return nil
	}
	d.Keys = keys
	return d
}

func atEnc(v any) string { return encJSON(v) }

func (attrStream) Gen(r *rand.Rand, tier string, idx int) []string {
	n := 8
	if tier == "thorough" {
		n = 16
	}
	var sc []string
	for len(sc) < n {
		switch r.Intn(5) {
		case 0, 1:
			m := atGenModel(r)
			sc = append(sc, "at export "+atEnc(m)+" gen")
			// (c) the exported document read again by the model of the importer
			if _, bus, ast := atExport(m); bus != nil {
				if d := atDbcOf(ast); d != nil {
					d.Keys = atKeysOf(m)
					sc = append(sc, "at import "+atEnc(d)+" exported")
				}
			}
		case 2:
			if d := atGenText(r); d != nil {
				sc = append(sc, "at import "+atEnc(d)+" text")
			}
		default:
			d := atGenDbc(r)
			sc = append(sc, "at import "+atEnc(d)+" ast")
			// (d) an accepted import exported again by the model of the exporter
			if out, back := atImport(d); back != nil && strings.HasPrefix(out, "ok ") && r.Intn(2) == 0 {
				if atExportable(back) {
					sc = append(sc, "at export "+atEnc(atAsInput(back))+" imported")
				}
			}
		}
	}
	return sc
}

// a model read back → the input form of `at export` (an enum definition is given by its values;
// the read-back list is already de-duplicated and starts with the default)
func atAsInput(m *atJModel) *atJModel {
	fix := func(l []atJAsg) {
		for i := range l {
			d := &l[i].D
			if d.FD == "" {
				d.FD, d.FMin, d.FMax = "0/1", "0/1", "0/1"
			}
		}
	}
	fix(m.Bus)
	for i := range m.Ents {
		fix(m.Ents[i].A)
		if m.Ents[i].SV == "" {
			m.Ents[i].SV = "0/1"
		}
	}
	return m
}

// the exporter walks node → its messages → their signals: a read-back model is exportable as a
// line when its entities come in that order (keys of generated documents: the nodes, then the
// messages each followed by its signals — atBuild hands the messages to the last node)
func atExportable(m *atJModel) bool {
	nodes := 0
	seenMsg := false
	for i := range m.Ents {
		switch m.Ents[i].K {
		case "n":
			if seenMsg {
				return false
			}
			nodes++
		case "m":
			seenMsg = true
		}
	}
	return !seenMsg || nodes >= 1
}

func (attrStream) Exhaustive(tier string) [][]string { return nil }

func (attrStream) Tag(lines, outs []string) (bool, []string) {
	var tags []string
	for i, l := range lines {
		f := fields(l)
		if len(f) < 3 {
			continue
		}
		o := outs[i]
		if len(f) > 3 {
			tags = append(tags, f[1]+":from:"+f[3])
			if strings.HasPrefix(o, "ok ") {
				tags = append(tags, f[1]+":from:"+f[3]+":ok")
			}
		}
		switch {
		case strings.HasPrefix(o, "ok "):
			tags = append(tags, f[1]+":ok")
			for _, w := range []string{"hex(", "int(", "float(", "enum(", "str(", "HEX(", "INT(", "FLOAT(", "ENUM(", "STRING"} {
				if strings.Contains(o, w) {
					tags = append(tags, f[1]+":ok:"+strings.Trim(w, "("))
				}
			}
			if f[1] == "import" && (strings.Contains(o, "{c=") && !strings.Contains(o, "{c=0,d=0,sd=0,st=NoMsgSendType}")) {
				tags = append(tags, "import:ok:msg-fields")
			}
			if f[1] == "import" && strings.Contains(o, "{sv=") && !strings.Contains(o, "{sv=0/1,st=NoSigSendType}") {
				tags = append(tags, "import:ok:sig-fields")
			}
		case strings.HasPrefix(o, "err "):
			tags = append(tags, f[1]+":"+strings.Replace(o, " ", ":", 1))
		default:
			tags = append(tags, f[1]+":"+eiFirst(o, 12))
		}
	}
	return true, tags
}


// atWithoutLossy returns a copy of the model without the assignments the recorded losses concern:
// attributes named like a well-known one, and attributes whose name is used by two definitions
// (or twice on one entity).
func atWithoutLossy(m *atJModel) *atJModel {
	cp := &atJModel{}
	if err := json.Unmarshal([]byte(encJSON(m)), cp); err != nil {
		return nil
	}
	defs := map[string]string{}
	dup := map[string]bool{}
	for _, l := range atAllAsgs(cp) {
		names := map[string]bool{}
		for i := range l {
			d := &l[i].D
			if names[d.N] {
				dup[d.N] = true
			}
			names[d.N] = true
			key := encJSON(d)
			if old, ok := defs[d.N]; ok && old != key {
				dup[d.N] = true
			}
			defs[d.N] = key
		}
	}
	keep := func(l []atJAsg) []atJAsg {
		out := l[:0:0]
		for i := range l {
			if !atReserved[l[i].D.N] && !dup[l[i].D.N] {
				out = append(out, l[i])
			}
		}
		return out
	}
	cp.Bus = keep(cp.Bus)
	for i := range cp.Ents {
		cp.Ents[i].A = keep(cp.Ents[i].A)
	}
	return cp
}
