package main

// Model lines of stream "saveload": the encoding selection of SaveNetwork against
// Acme.SaveSel.saveSelect.
//
//	ss sel <encoding> <hasWire> <hasJSON> <hasText>
//	   → "<encodings written, in order of writing>|<name of the missing writer or none>"
//
// The three writers share one log, so that the ORDER of the writes is observed too.

import (
	"errors"
	"io"
	"math/rand"
	"strings"

	"github.com/squadracorsepolito/acmelib"
)

type slSelLog struct{ order []string }

type slSelWriter struct {
	log  *slSelLog
	name string
}

func (w slSelWriter) Write(p []byte) (int, error) {
	w.log.order = append(w.log.order, w.name)
	return len(p), nil
}

func slSelDo(f []string) string {
	if len(f) != 6 || f[1] != "sel" {
		return "bad-op"
	}
	enc := atoi(f[2])
	if enc < 0 {
		return "bad-op"
	}
	lg := &slSelLog{}
	var ws [3]io.Writer
	for k, name := range []string{"wire", "json", "text"} {
		if atoi(f[3+k]) != 0 {
			ws[k] = slSelWriter{lg, name}
		}
	}
	net := acmelib.NewNetwork("n")
	bus := acmelib.NewBus("b")
	if err := net.AddBus(bus); err != nil {
		return "err " + err.Error()
	}
	err := acmelib.SaveNetwork(net, acmelib.SaveEncoding(enc), ws[0], ws[1], ws[2])
	missing := "none"
	if err != nil {
		var ae *acmelib.ArgumentError
		if errors.As(err, &ae) && errors.Is(err, acmelib.ErrIsNil) {
			missing = ae.Name
		} else {
			missing = "other-error"
		}
	}
	return strings.Join(lg.order, ",") + "|" + missing
}

func slSelGen(r *rand.Rand) []string {
	var res []string
	for k := 0; k < 4; k++ {
		enc := r.Intn(8)
		if r.Intn(8) == 0 {
			enc = r.Intn(64)
		}
		res = append(res, sprintf("ss sel %d %d %d %d", enc, r.Intn(2), r.Intn(2), r.Intn(2)))
	}
	return res
}

func slSelExhaustive() []string {
	var res []string
	for enc := 0; enc < 16; enc++ {
		for m := 0; m < 8; m++ {
			res = append(res, sprintf("ss sel %d %d %d %d", enc, m&1, m>>1&1, m>>2&1))
		}
	}
	return res
}
