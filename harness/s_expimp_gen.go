package main

import (
	"math/rand"
	"strconv"
	"strings"
)

// A small DBC-level generator for the expimp stream (C10/C09): it writes DBC TEXT directly
// (the reference is the AST dbc.Parse returns for that text), so that the import is checked on
// files that the exporter never writes: every legal start/size/byte order, shared and per-signal
// value tables, attributes of all kinds on all object kinds, the well-known attributes written as
// integers or decimals, simple multiplexing with M / m<k> / SG_MUL_VAL_.
// Layouts are disjoint and in bounds (the model cannot hold overlapping signals).

type eiGSig struct {
	name    string
	mux     string // "", "M", "m<k>"
	lin     int    // start in the linear bit order of the message (LE: start bit; BE: 8*byte + (7-bit) of the MSB)
	size    int
	vals    string // text of the value descriptions ("" = none)
	comment string
	ext     string // SG_MUL_VAL_ ranges ("" = none)
	extMux  string
}

type eiGMsg struct {
	id      uint32
	name    string
	size    int
	tx      string
	be      bool
	sigs    []*eiGSig
	comment string
}

type eiGAttr struct {
	obj  string // "", "BU_", "BO_", "SG_"
	typ  string // INT HEX FLOAT STRING ENUM
	name string
	enum []string
}

type eiGen struct {
	r         *rand.Rand
	nodes     []string
	tables    []string // value-description texts of the global value tables
	tableMax  []int    // largest value id of each table
	tableBits []int    // width of the signals that use the table (0 = unused so far)
	mixWidths bool     // signals of different widths may share a value table
	msgs      []*eiGMsg
	decimals  bool // integers are (sometimes) written as decimals where a number is expected
	decIntVal bool // values of INT attributes (incl. the well-known ones) are written as decimals
	oddities  bool // rare legal shapes (multiplexor without multiplexed signals, wide value ids, extended ids)
	nameSeq   int
}

func (g *eiGen) num(x float64) string {
	s := strconv.FormatFloat(x, 'g', -1, 64)
	if g.decimals && !strings.ContainsAny(s, ".e") && g.r.Intn(3) == 0 {
		s += ".0"
	}
	return s
}

func (g *eiGen) intNum(x int, asDecimal bool) string {
	if asDecimal {
		return sprintf("%d.0", x)
	}
	return sprintf("%d", x)
}

// valDescs writes value descriptions; the names of global tables and of per-signal tables
// differ (prefix), so that a per-signal table never equals a global one by chance.
func (g *eiGen) valDescs(maxID int, prefix string) (string, int) {
	n := 1 + g.r.Intn(4)
	var b strings.Builder
	used := map[int]bool{}
	top := 0
	for i := 0; i < n; i++ {
		id := g.r.Intn(maxID + 1)
		if used[id] {
			continue
		}
		used[id] = true
		top = max(top, id)
		b.WriteString(sprintf(" %d \"%s%s%d\"", id, prefix, pick(g.r, "Off", "On", "Error", "N A", "v", "Init"), id))
	}
	return b.String(), top
}

func eiDBCStart(lin int, be bool) int {
	if !be {
		return lin
	}
	return 8*(lin/8) + 7 - lin%8
}

func (g *eiGen) sigName(base string) string {
	g.nameSeq++
	return sprintf("%s%d", base, g.nameSeq)
}

func (g *eiGen) sizeFor(room int) int {
	n := pick(g.r, 1, 1, 2, 3, 4, 5, 7, 8, 8, 9, 12, 15, 16, 17, 24, 31, 32, 33, 48, 63, 64)
	if n > room {
		n = 1 + g.r.Intn(room)
	}
	return n
}

// plain fills [from, to) with disjoint signals.
func (g *eiGen) plain(m *eiGMsg, from, to int, mux string, maxSize int) {
	pos := from
	for pos < to && g.r.Intn(6) != 0 {
		if g.r.Intn(3) == 0 {
			pos += g.r.Intn(5)
		}
		if pos >= to {
			break
		}
		room := to - pos
		if room > maxSize {
			room = maxSize
		}
		n := g.sizeFor(room)
		s := &eiGSig{name: g.sigName("s"), mux: mux, lin: pos, size: n}
		// signal names are unique per MESSAGE only: now and then a signal takes the name (often
		// also the width) of a signal of an earlier message, with a value table of its own
		twin := false
		if len(g.msgs) > 0 && g.r.Intn(5) == 0 {
			om := g.msgs[g.r.Intn(len(g.msgs))]
			if len(om.sigs) > 0 {
				o := om.sigs[g.r.Intn(len(om.sigs))]
				taken := false
				for _, x := range m.sigs {
					taken = taken || x.name == o.name
				}
				if !taken {
					s.name = o.name
					twin = true
					if o.size <= room && g.r.Intn(3) != 0 {
						n, s.size = o.size, o.size
					}
				}
			}
		}
		g.decorate(s)
		if twin && g.r.Intn(2) == 0 {
			// an own table whose values need fewer bits than the signal has
			s.vals, _ = g.valDescs(min(1<<min(s.size, 3)-1, 5), "q")
		}
		m.sigs = append(m.sigs, s)
		pos += n
	}
}

func (g *eiGen) decorate(s *eiGSig) {
	if g.r.Intn(4) == 0 {
		maxID := 1<<min(s.size, 10) - 1
		if g.oddities && g.r.Intn(6) == 0 {
			maxID = 1<<min(s.size+2, 12) - 1 // a value that does not fit the signal
		}
		s.vals, _ = g.valDescs(maxID, "p")
		if len(g.tables) > 0 && g.r.Intn(2) == 0 {
			// the same values as a global table (the import shares the enum)
			ti := g.r.Intn(len(g.tables))
			fits := g.tableMax[ti] < 1<<min(s.size, 20) && (g.tableBits[ti] == 0 || g.tableBits[ti] == s.size)
			if fits || g.mixWidths {
				s.vals = g.tables[ti]
				if g.tableBits[ti] == 0 {
					g.tableBits[ti] = s.size
				}
			}
		}
	}
	if g.r.Intn(4) == 0 {
		s.comment = pick(g.r, "signal comment", "a; b", "x", "two words")
	}
}

func (g *eiGen) message(id uint32) *eiGMsg {
	m := &eiGMsg{id: id, name: g.sigName("M"), size: pick(g.r, 8, 8, 8, 8, 4, 2, 1, 0, 6, 3), be: g.r.Intn(2) == 0}
	m.tx = "Vector__XXX"
	if len(g.nodes) > 0 && g.r.Intn(5) != 0 {
		m.tx = g.nodes[g.r.Intn(len(g.nodes))]
	}
	if g.r.Intn(3) == 0 {
		m.comment = pick(g.r, "message comment", "m")
	}
	capBits := m.size * 8
	if capBits == 0 {
		return m
	}
	if capBits >= 8 && g.r.Intn(3) == 0 {
		// simple multiplexing: [before] muxor [region of the groups] [after]
		p0 := pick(g.r, 0, 0, 0, 1, 3, 8)
		w := pick(g.r, 1, 1, 2, 2, 3, 4)
		if p0+w+2 <= capBits {
			g.plain(m, 0, p0, "", 64)
			mx := &eiGSig{name: g.sigName("mux"), mux: "M", lin: p0, size: w}
			if g.r.Intn(4) == 0 {
				mx.comment = "selector"
			}
			m.sigs = append(m.sigs, mx)
			rs := p0 + w
			re := rs + 2 + g.r.Intn(min(30, capBits-rs-1))
			if re > capBits {
				re = capBits
			}
			groups := 1 << w
			multi := 0
			if g.r.Intn(3) == 0 && re-rs >= 3 {
				// one signal present in a range of groups at the tail of the region
				multi = 1 + g.r.Intn(2)
				from := g.r.Intn(groups)
				to := from + g.r.Intn(groups-from)
				ms := &eiGSig{name: g.sigName("mg"), mux: sprintf("m%d", from), lin: re - multi, size: multi,
					ext: sprintf("%d-%d", from, to), extMux: mx.name}
				if g.r.Intn(3) == 0 && from > 0 {
					ms.ext = sprintf("0-0, %d-%d", from, to)
					ms.mux = "m0"
				}
				m.sigs = append(m.sigs, ms)
			}
			any := multi > 0
			for k := 0; k < groups; k++ {
				if g.r.Intn(3) == 0 {
					continue
				}
				before := len(m.sigs)
				g.plain(m, rs, re-multi, sprintf("m%d", k), 32)
				any = any || len(m.sigs) > before
			}
			if !any && !(g.oddities && g.r.Intn(2) == 0) {
				s := &eiGSig{name: g.sigName("s"), mux: "m0", lin: rs, size: 1 + g.r.Intn(re-rs-multi)}
				m.sigs = append(m.sigs, s)
			}
			g.plain(m, re, capBits, "", 64)
			return m
		}
	}
	g.plain(m, 0, capBits, "", 64)
	return m
}

// receivers of a signal: nodes other than the transmitter (the model refuses a message that
// is received by its own sender; the odd files keep that shape).
func (g *eiGen) receivers(tx string) string {
	if len(g.nodes) == 0 || g.r.Intn(3) == 0 {
		return "Vector__XXX"
	}
	n := 1 + g.r.Intn(len(g.nodes))
	perm := g.r.Perm(len(g.nodes))[:n]
	var xs []string
	for _, i := range perm {
		if g.nodes[i] == tx && !(g.oddities && g.r.Intn(4) == 0) {
			continue
		}
		xs = append(xs, g.nodes[i])
	}
	if len(xs) == 0 {
		return "Vector__XXX"
	}
	return strings.Join(xs, ",")
}

func (g *eiGen) sigLine(m *eiGMsg, s *eiGSig) string {
	bo := 1
	if m.be {
		bo = 0
	}
	sign := "+"
	if s.mux != "M" && g.r.Intn(3) == 0 {
		sign = "-"
	}
	factor, offset := 1.0, 0.0
	minV, maxV := 0.0, 0.0
	if s.mux != "M" {
		factor = pick(g.r, 1, 1, 1, 0.5, 2, 0.1, 0.001, 10)
		offset = pick(g.r, 0, 0, 0, -40, 1.5, 100)
		switch g.r.Intn(4) {
		case 0:
			minV, maxV = 0, float64(uint64(1)<<min(s.size, 52)-1)
		case 1:
			minV, maxV = -10.5, 10.5
		case 2:
			minV, maxV = 0, 1
		}
	}
	unit := pick(g.r, "", "", "V", "km/h", "deg C", "%", "rpm")
	mux := s.mux
	if mux != "" {
		mux = " " + mux
	}
	return sprintf(" SG_ %s%s : %d|%d@%d%s (%s,%s) [%s|%s] \"%s\" %s\n", s.name, mux, eiDBCStart(s.lin, m.be), s.size, bo, sign,
		g.num(factor), g.num(offset), g.num(minV), g.num(maxV), unit, g.receivers(m.tx))
}

var eiWellKnown = []eiGAttr{
	{obj: "BO_", typ: "INT", name: "GenMsgCycleTime"},
	{obj: "BO_", typ: "INT", name: "GenMsgDelayTime"},
	{obj: "BO_", typ: "INT", name: "GenMsgStartDelayTime"},
	{obj: "BO_", typ: "ENUM", name: "GenMsgSendType", enum: []string{"NoMsgSendType", "Cyclic", "CyclicIfActive", "CyclicAndTriggered", "CyclicIfActiveAndTriggered"}},
	{obj: "SG_", typ: "FLOAT", name: "GenSigStartValue"},
	{obj: "SG_", typ: "ENUM", name: "GenSigSendType", enum: []string{"NoSigSendType", "Cyclic", "OnWrite", "OnWriteWithRepetition", "OnChange", "OnChangeWithRepetition", "IfActive", "IfActiveWithRepetition"}},
}

func (g *eiGen) attrDef(a eiGAttr) string {
	obj := a.obj
	if obj != "" {
		obj += " "
	}
	switch a.typ {
	case "INT":
		hi := 1000
		switch a.name {
		case "GenMsgCycleTime":
			hi = 3600000
		case "GenMsgStartDelayTime":
			hi = 100000
		}
		return sprintf("BA_DEF_ %s\"%s\" INT 0 %d;\n", obj, a.name, hi)
	case "HEX":
		return sprintf("BA_DEF_ %s\"%s\" HEX 0 255;\n", obj, a.name)
	case "FLOAT":
		return sprintf("BA_DEF_ %s\"%s\" FLOAT 0 %s;\n", obj, a.name, pick(g.r, "10000", "10000.5"))
	case "STRING":
		return sprintf("BA_DEF_ %s\"%s\" STRING ;\n", obj, a.name)
	default:
		return sprintf("BA_DEF_ %s\"%s\" ENUM \"%s\";\n", obj, a.name, strings.Join(a.enum, "\",\""))
	}
}

func (g *eiGen) attrDefault(a eiGAttr) string {
	var v string
	switch a.typ {
	case "INT":
		v = g.intNum(pick(g.r, 0, 0, 5), g.decimals && g.r.Intn(3) == 0)
	case "HEX":
		v = g.intNum(pick(g.r, 0, 3), false)
	case "FLOAT":
		v = pick(g.r, "0", "1.5", "2", "0.0")
	case "STRING":
		v = pick(g.r, `""`, `"dflt"`)
	default:
		v = `"` + a.enum[0] + `"`
	}
	return sprintf("BA_DEF_DEF_ \"%s\" %s;\n", a.name, v)
}

func (g *eiGen) attrValue(a eiGAttr) string {
	switch a.typ {
	case "INT":
		hi := 200
		if a.name == "GenMsgDelayTime" {
			hi = 50
		}
		return g.intNum(g.r.Intn(hi), g.decIntVal && g.r.Intn(2) == 0)
	case "HEX":
		return g.intNum(g.r.Intn(256), false)
	case "FLOAT":
		return pick(g.r, "0.5", "2", "99.75", "7", "3.0", "1e2")
	case "STRING":
		return pick(g.r, `"hello"`, `"a b"`, `""`, `"x;y"`)
	default:
		if g.oddities && g.r.Intn(4) == 0 {
			return `"` + a.enum[g.r.Intn(len(a.enum))] + `"`
		}
		return sprintf("%d", g.r.Intn(len(a.enum)))
	}
}

// eiGenDBC writes one DBC text.  small = a few short messages (for truncation sweeps).
func eiGenDBC(r *rand.Rand, small bool) string {
	g := &eiGen{r: r, decimals: r.Intn(2) == 0, decIntVal: r.Intn(6) == 0, oddities: r.Intn(8) == 0, mixWidths: r.Intn(6) == 0}
	for i, n := 0, r.Intn(5); i < n; i++ {
		g.nodes = append(g.nodes, sprintf("N%d", i))
	}
	for i, n := 0, r.Intn(3); i < n; i++ {
		t, top := g.valDescs(pick(r, 1, 3, 15), "")
		g.tables = append(g.tables, t)
		g.tableMax = append(g.tableMax, top)
		g.tableBits = append(g.tableBits, 0)
	}
	nm := 1 + r.Intn(5)
	if small {
		nm = 1 + r.Intn(2)
	}
	used := map[uint32]bool{}
	for len(g.msgs) < nm {
		id := uint32(pick(r, 1+r.Intn(0x7ff), 1+r.Intn(64)))
		if g.oddities && r.Intn(3) == 0 {
			id = 0x80000000 | uint32(r.Intn(1<<29))
		}
		if used[id] {
			continue
		}
		used[id] = true
		g.msgs = append(g.msgs, g.message(id))
	}
	return g.render()
}

func (g *eiGen) render() string {
	r := g.r
	var b strings.Builder
	b.WriteString("VERSION \"\"\n\nNS_ :\n\nBS_:\n\nBU_:")
	for _, n := range g.nodes {
		b.WriteString(" " + n)
	}
	b.WriteString("\n")
	for i, t := range g.tables {
		b.WriteString(sprintf("VAL_TABLE_ T%d%s ;\n", i, t))
	}
	b.WriteString("\n")
	for _, m := range g.msgs {
		b.WriteString(sprintf("BO_ %d %s: %d %s\n", m.id, m.name, m.size, m.tx))
		for _, s := range m.sigs {
			b.WriteString(g.sigLine(m, s))
		}
		b.WriteString("\n")
	}
	// comments
	if r.Intn(2) == 0 {
		b.WriteString("CM_ \"bus comment\";\n")
	}
	for _, n := range g.nodes {
		if r.Intn(3) == 0 {
			b.WriteString(sprintf("CM_ BU_ %s \"node %s\";\n", n, n))
		}
	}
	for _, m := range g.msgs {
		if m.comment != "" {
			b.WriteString(sprintf("CM_ BO_ %d \"%s\";\n", m.id, m.comment))
		}
		for _, s := range m.sigs {
			if s.comment != "" {
				b.WriteString(sprintf("CM_ SG_ %d %s \"%s\";\n", m.id, s.name, s.comment))
			}
		}
	}
	// attribute definitions: user attributes of every type on every object kind + the well-known ones
	var attrs []eiGAttr
	for _, obj := range []string{"", "BU_", "BO_", "SG_"} {
		for _, typ := range []string{"INT", "HEX", "FLOAT", "STRING", "ENUM"} {
			if r.Intn(3) == 0 {
				attrs = append(attrs, eiGAttr{obj: obj, typ: typ, name: sprintf("A%s%s", strings.TrimSuffix(obj, "_"), typ), enum: []string{"one", "two", "three"}})
			}
		}
	}
	for _, a := range eiWellKnown {
		if r.Intn(3) != 0 {
			if a.name == "GenSigStartValue" && r.Intn(3) == 0 {
				a.typ = "INT"
			}
			attrs = append(attrs, a)
		}
	}
	for _, a := range attrs {
		b.WriteString(g.attrDef(a))
	}
	for _, a := range attrs {
		b.WriteString(g.attrDefault(a))
	}
	for _, a := range attrs {
		switch a.obj {
		case "":
			if r.Intn(2) == 0 {
				b.WriteString(sprintf("BA_ \"%s\" %s;\n", a.name, g.attrValue(a)))
			}
		case "BU_":
			for _, n := range g.nodes {
				if r.Intn(2) == 0 {
					b.WriteString(sprintf("BA_ \"%s\" BU_ %s %s;\n", a.name, n, g.attrValue(a)))
				}
			}
		case "BO_":
			for _, m := range g.msgs {
				if r.Intn(2) == 0 {
					b.WriteString(sprintf("BA_ \"%s\" BO_ %d %s;\n", a.name, m.id, g.attrValue(a)))
				}
			}
		case "SG_":
			for _, m := range g.msgs {
				for _, s := range m.sigs {
					if r.Intn(4) == 0 {
						b.WriteString(sprintf("BA_ \"%s\" SG_ %d %s %s;\n", a.name, m.id, s.name, g.attrValue(a)))
					}
				}
			}
		}
	}
	for _, m := range g.msgs {
		for _, s := range m.sigs {
			if s.vals != "" && s.mux != "M" {
				b.WriteString(sprintf("VAL_ %d %s%s ;\n", m.id, s.name, s.vals))
			}
		}
	}
	for _, m := range g.msgs {
		for _, s := range m.sigs {
			if s.ext != "" {
				b.WriteString(sprintf("SG_MUL_VAL_ %d %s %s %s;\n", m.id, s.name, s.extMux, s.ext))
			}
		}
	}
	return b.String()
}

// ---- the sweep over every legal (start, size, byte order) of one signal in an 8-byte message ----

const eiSweepChunks = 16

// eiSweepTexts returns the files of one chunk: every file holds 20 messages with one signal each.
func eiSweepTexts(chunk int) []string {
	type combo struct {
		lin, size int
		be        bool
	}
	var all []combo
	for _, be := range []bool{false, true} {
		for lin := 0; lin < 64; lin++ {
			for size := 1; lin+size <= 64; size++ {
				all = append(all, combo{lin, size, be})
			}
		}
	}
	per := (len(all) + eiSweepChunks - 1) / eiSweepChunks
	lo, hi := chunk*per, min((chunk+1)*per, len(all))
	if chunk < 0 || lo >= len(all) {
		return nil
	}
	var res []string
	for i := lo; i < hi; i += 20 {
		var b strings.Builder
		b.WriteString("VERSION \"\"\nNS_ :\nBS_:\nBU_: A B\n")
		for j := i; j < min(i+20, hi); j++ {
			c := all[j]
			bo, sign := 1, "+"
			if c.be {
				bo = 0
			}
			if j%3 == 0 {
				sign = "-"
			}
			b.WriteString(sprintf("BO_ %d M%d: 8 A\n SG_ s%d : %d|%d@%d%s (1,0) [0|0] \"\" B\n", 1+j-i, j, j, eiDBCStart(c.lin, c.be), c.size, bo, sign))
		}
		res = append(res, b.String())
	}
	return res
}

// ---- token-level and character-level mutations ----

// eiTokens splits a DBC text into tokens; "\n" tokens keep the line structure.
func eiTokens(text string) []string {
	var toks []string
	i := 0
	for i < len(text) {
		ch := text[i]
		switch {
		case ch == '\n':
			toks = append(toks, "\n")
			i++
		case ch == ' ' || ch == '\t' || ch == '\r':
			i++
		case ch == '"':
			j := i + 1
			for j < len(text) && text[j] != '"' {
				j++
			}
			if j < len(text) {
				j++
			}
			toks = append(toks, text[i:j])
			i = j
		case strings.ContainsRune(":;,|@()[]", rune(ch)):
			toks = append(toks, string(ch))
			i++
		default:
			j := i
			for j < len(text) && !strings.ContainsRune(" \t\r\n\":;,|@()[]", rune(text[j])) {
				j++
			}
			toks = append(toks, text[i:j])
			i = j
		}
	}
	return toks
}

func eiRender(toks []string) string {
	var b strings.Builder
	bol := true
	for _, t := range toks {
		if t == "\n" {
			b.WriteString("\n")
			bol = true
			continue
		}
		if !bol {
			b.WriteString(" ")
		}
		b.WriteString(t)
		bol = false
	}
	return b.String()
}

var eiNumPool = []string{"0", "1", "2", "3", "7", "8", "9", "15", "16", "17", "31", "32", "33", "63", "64", "65", "255", "256", "2047", "2048",
	"65535", "65536", "2147483647", "2147483648", "4294967295", "4294967296", "9223372036854775807", "9223372036854775808", "18446744073709551616",
	"-1", "-0", "1.5", "0.0", "1e3", "1e400", "-1e-400", "0x10", "1+", "1-", "0+", "0-", "0-1", "1-0", "3-3", "m0", "m1", "m3", "m15", "m16", "M", "m1M", "m65536", "m4294967296"}

var eiWordPool = []string{"VERSION", "NS_", "BS_", "BU_", "BO_", "SG_", "CM_", "BA_DEF_", "BA_DEF_DEF_", "BA_", "VAL_", "VAL_TABLE_", "SG_MUL_VAL_", "EV_",
	"BO_TX_BU_", "SIG_GROUP_", "SIG_VALTYPE_", "SGTYPE_", "ENVVAR_DATA_", "INT", "HEX", "FLOAT", "STRING", "ENUM", "Vector__XXX", "N0", "N1", "A", "B",
	"GenMsgCycleTime", "\"GenMsgCycleTime\"", "\"GenMsgSendType\"", "\"GenSigStartValue\"", "\"GenSigSendType\"", "\"GenMsgDelayTime\"", "\"\"", "\"x\"", "\"",
	":", ";", ",", "|", "@", "(", ")", "[", "]", "+", "-"}

func eiIsNumTok(t string) bool {
	if t == "" {
		return false
	}
	c := t[0]
	return c >= '0' && c <= '9' || (c == '-' && len(t) > 1)
}

func eiIsIdentTok(t string) bool {
	if t == "" || strings.HasSuffix(t, "_") || t[0] == '"' {
		return false
	}
	c := t[0]
	return c >= 'a' && c <= 'z' || c >= 'A' && c <= 'Z'
}

// eiMutateTokens applies 1..2 token-level edits.  Most edits keep the text parseable (another
// number, another name of the same text, another string); the others are structural.
func eiMutateTokens(r *rand.Rand, text string) string {
	toks := eiTokens(text)
	if len(toks) == 0 {
		return text
	}
	// the tokens after the NS_ block (its symbols are a closed list)
	first := 0
	for i, t := range toks {
		if t == "BS_" || t == "BS_:" {
			first = i
			break
		}
	}
	pickTok := func(pred func(string) bool) int {
		for try := 0; try < 30; try++ {
			i := first + r.Intn(len(toks)-first)
			if toks[i] != "\n" && (pred == nil || pred(toks[i])) {
				return i
			}
		}
		return first + r.Intn(len(toks)-first)
	}
	for k, n := 0, 1+r.Intn(2); k < n && len(toks) > first; k++ {
		op := r.Intn(24)
		if op >= 12 {
			op = 5 + op%7 // the parse-preserving edits are the most frequent
		}
		switch op {
		case 0: // delete
			i := pickTok(nil)
			toks = append(toks[:i:i], toks[i+1:]...)
		case 1: // duplicate
			i := pickTok(nil)
			toks = append(toks[:i+1:i+1], toks[i:]...)
		case 2: // swap with the next
			i := pickTok(nil)
			if i+1 < len(toks) {
				toks[i], toks[i+1] = toks[i+1], toks[i]
			}
		case 3: // replace by a pool word
			toks[pickTok(nil)] = eiWordPool[r.Intn(len(eiWordPool))]
		case 4: // insert a pool token
			i := pickTok(nil)
			t := eiWordPool[r.Intn(len(eiWordPool))]
			if r.Intn(2) == 0 {
				t = eiNumPool[r.Intn(len(eiNumPool))]
			}
			toks = append(toks[:i:i], append([]string{t}, toks[i:]...)...)
		case 5, 6: // a name becomes another name of the text
			i, j := pickTok(eiIsIdentTok), pickTok(eiIsIdentTok)
			toks[i] = toks[j]
		case 7: // a string becomes another string of the text
			isStr := func(t string) bool { return len(t) >= 2 && t[0] == '"' }
			i, j := pickTok(isStr), pickTok(isStr)
			toks[i] = toks[j]
		case 8: // a number from the pool
			toks[pickTok(eiIsNumTok)] = eiNumPool[r.Intn(len(eiNumPool))]
		case 9: // the VALUE of an attribute assignment / default (the token before the ';' of a BA_ / BA_DEF_DEF_ line) becomes extreme
			var cands []int
			for i := first; i+1 < len(toks); i++ {
				if toks[i] == "BA_" || toks[i] == "BA_DEF_DEF_" {
					for j := i + 1; j < len(toks) && j < i+12; j++ {
						if toks[j] == ";" {
							if j-1 > i {
								cands = append(cands, j-1)
							}
							break
						}
					}
				}
			}
			if len(cands) > 0 {
				toks[cands[r.Intn(len(cands))]] = pick(r, "-1", "-2", "-1", "3", "99", "4294967296", "-0.5", "2.5", "1e30", "\"x\"")
			}
		default: // a number moves a little
			i := pickTok(eiIsNumTok)
			if v, err := strconv.Atoi(toks[i]); err == nil {
				toks[i] = sprintf("%d", v+pick(r, 1, -1, 2, -2, 4, 8, -8, 7, 16, 64))
			} else if strings.HasSuffix(toks[i], "+") || strings.HasSuffix(toks[i], "-") {
				toks[i] = pick(r, "0+", "0-", "1+", "1-")
			} else {
				toks[i] = pick(r, "0", "1", "2", "0.5", "3")
			}
		}
	}
	return eiRender(toks)
}

const eiMutChars = " \n\t\"\\:;,|@()[]+-._0123456789eExXmMABSGOU\x00\xff\xc3é"

func eiMutateChars(r *rand.Rand, text string) string {
	b := []byte(text)
	for k, n := 0, 1+r.Intn(3); k < n; k++ {
		if len(b) == 0 {
			b = append(b, eiMutChars[r.Intn(len(eiMutChars))])
			continue
		}
		i := r.Intn(len(b))
		switch r.Intn(4) {
		case 0:
			b = append(b[:i:i], b[i+1:]...)
		case 1:
			b[i] = eiMutChars[r.Intn(len(eiMutChars))]
		case 2:
			b = append(b[:i:i], append([]byte{eiMutChars[r.Intn(len(eiMutChars))]}, b[i:]...)...)
		default:
			b = b[:i]
		}
	}
	return string(b)
}

func eiRandomBytes(r *rand.Rand) string {
	n := r.Intn(200)
	b := make([]byte, n)
	switch r.Intn(3) {
	case 0:
		for i := range b {
			b[i] = byte(r.Intn(256))
		}
		return string(b)
	case 1:
		for i := range b {
			b[i] = eiMutChars[r.Intn(len(eiMutChars))]
		}
		return string(b)
	default:
		var sb strings.Builder
		for sb.Len() < n {
			if r.Intn(2) == 0 {
				sb.WriteString(eiWordPool[r.Intn(len(eiWordPool))])
			} else {
				sb.WriteString(eiNumPool[r.Intn(len(eiNumPool))])
			}
			sb.WriteString(pick(r, " ", " ", "\n", ""))
		}
		return sb.String()
	}
}
