package main

// saveload stream, part 4: two auxiliary oracle lines.
//
//	oracle c13alloc <pair> <log2bits>   resource probe: a ~200-byte save whose size fields ask
//	                                    for 2^log2bits payload bits (pair 0: message size + type
//	                                    size, 1: message size + multiplexer group size,
//	                                    2: message size + enum minimum size)
//	oracle c12self <seed> <variant>     sensitivity self-test of the C12 view: single edits of a
//	                                    loaded network through public setters must be seen

import (
	"bytes"
	"runtime"
	"time"

	"github.com/squadracorsepolito/acmelib"
	acmelibv1 "github.com/squadracorsepolito/acmelib/proto/gen/go/acmelib/v1"
	"google.golang.org/protobuf/proto"
)

func slEnt(id, name string, kind acmelibv1.EntityKind) *acmelibv1.Entity {
	return &acmelibv1.Entity{EntityId: id, Name: name, EntityKind: kind}
}

// slAllocTree: one bus, one node, one message of sizeBits/8 bytes with one signal of
// sizeBits-8 bits.
func slAllocTree(pair int, sizeBits uint32) *acmelibv1.Network {
	sig := &acmelibv1.Signal{Entity: slEnt("sig", "sig", acmelibv1.EntityKind_ENTITY_KIND_SIGNAL)}
	net := &acmelibv1.Network{Entity: slEnt("net", "net", acmelibv1.EntityKind_ENTITY_KIND_NETWORK)}
	switch pair {
	case 0:
		net.SignalTypes = []*acmelibv1.SignalType{{Entity: slEnt("typ", "typ", acmelibv1.EntityKind_ENTITY_KIND_SIGNAL_TYPE),
			Kind: acmelibv1.SignalTypeKind_SIGNAL_TYPE_KIND_INTEGER, Size: sizeBits - 8, Max: 1, Scale: 1}}
		sig.Kind = acmelibv1.SignalKind_SIGNAL_KIND_STANDARD
		sig.Signal = &acmelibv1.Signal_Standard{Standard: &acmelibv1.StandardSignal{TypeEntityId: "typ"}}
	case 1:
		sig.Kind = acmelibv1.SignalKind_SIGNAL_KIND_MULTIPLEXER
		sig.Signal = &acmelibv1.Signal_Multiplexer{Multiplexer: &acmelibv1.MultiplexerSignal{GroupCount: 1, GroupSize: sizeBits - 8,
			Groups: []*acmelibv1.SignalPayload{{}}}}
	default:
		net.SignalEnums = []*acmelibv1.SignalEnum{{Entity: slEnt("enm", "enm", acmelibv1.EntityKind_ENTITY_KIND_SIGNAL_ENUM), MinSize: sizeBits - 8}}
		sig.Kind = acmelibv1.SignalKind_SIGNAL_KIND_ENUM
		sig.Signal = &acmelibv1.Signal_Enum{Enum: &acmelibv1.EnumSignal{EnumEntityId: "enm"}}
	}
	net.Nodes = []*acmelibv1.Node{{Entity: slEnt("nod", "nod", acmelibv1.EntityKind_ENTITY_KIND_NODE), NodeId: 1, InterfaceCount: 1}}
	msg := &acmelibv1.Message{Entity: slEnt("msg", "msg", acmelibv1.EntityKind_ENTITY_KIND_MESSAGE), MessageId: 1, SizeByte: sizeBits / 8,
		Signals: []*acmelibv1.Signal{sig},
		Payload: &acmelibv1.SignalPayload{Refs: []*acmelibv1.SignalPayloadRef{{SignalEntityId: "sig", RelStartBit: 0}}}}
	net.Buses = []*acmelibv1.Bus{{Entity: slEnt("bus", "bus", acmelibv1.EntityKind_ENTITY_KIND_BUS),
		NodeInterfaces: []*acmelibv1.NodeInterface{{Number: 0, NodeEntityId: "nod", Messages: []*acmelibv1.Message{msg}}}}}
	return net
}

func (x *slRun) c13alloc(pair, log2bits int) string {
	if log2bits < 10 || log2bits > 24 || pair < 0 || pair > 2 {
		return "unsupported" // the probe itself stays small: at most 2^24 bits (2^21 filters)
	}
	bits := uint32(1) << log2bits
	data, err := proto.Marshal(slAllocTree(pair, bits))
	if err != nil {
		return "c13alloc marshal-failed"
	}
	x.setStage(sprintf("LoadNetwork of the %d-byte probe pair=%d bits=2^%d", len(data), pair, log2bits))
	runtime.GC()
	var m0, m1 runtime.MemStats
	runtime.ReadMemStats(&m0)
	t0 := time.Now()
	res := slLoadBytes(data, acmelib.SaveEncodingWire)
	dt := time.Since(t0)
	runtime.ReadMemStats(&m1)
	alloc := m1.TotalAlloc - m0.TotalAlloc
	outcome := "loaded"
	switch {
	case res.panic != "":
		outcome = "panic"
		x.report("c13-panic:"+res.panic, sprintf("allocation probe pair=%d bits=2^%d: LoadNetwork panicked: %s", pair, log2bits, res.where))
	case res.err != nil:
		outcome = "error(" + slClip(slStable(res.err.Error()), 60) + ")"
	}
	what := []string{"Message.size_byte + SignalType.size", "Message.size_byte + MultiplexerSignal.group_size", "Message.size_byte + SignalEnum.min_size"}[pair]
	if alloc > 1000*uint64(len(data)) && alloc > 8<<20 {
		x.report("c13-unbounded-allocation", sprintf("a %d-byte wire save with %s = 2^%d bits makes LoadNetwork allocate %d MiB in %d ms before it answers %s (one layout filter per payload byte; the same fields at 2^32 ask for about 2^29 filters); tree: one bus, one node, one message size_byte=%d, one signal of %d bits",
			len(data), what, log2bits, alloc>>20, dt.Milliseconds(), outcome, bits/8, bits-8))
		x.tag("amplified")
	}
	return sprintf("c13alloc pair=%d bits=2^%d input=%dB allocated=%dKiB ms=%d outcome=%s %s", pair, log2bits, len(data), alloc>>10, dt.Milliseconds(), outcome, x.tagList())
}

// ---------------------------------------------------------------------------------------

type slEdit struct {
	name   string
	fields []string // a difference in one of these fields counts as "seen"
	apply  func(net *acmelib.Network) bool
}

func slAllSignals(net *acmelib.Network, f func(m *acmelib.Message, s acmelib.Signal) bool) bool {
	var walk func(m *acmelib.Message, s acmelib.Signal) bool
	walk = func(m *acmelib.Message, s acmelib.Signal) bool {
		if f(m, s) {
			return true
		}
		if mux, err := s.ToMultiplexer(); err == nil {
			seen := map[acmelib.Signal]bool{}
			for _, grp := range mux.GetSignalGroups() {
				for _, c := range grp {
					if !seen[c] {
						seen[c] = true
						if walk(m, c) {
							return true
						}
					}
				}
			}
		}
		return false
	}
	for _, b := range net.Buses() {
		for _, ni := range b.NodeInterfaces() {
			for _, m := range ni.SentMessages() {
				for _, s := range m.Signals() {
					if walk(m, s) {
						return true
					}
				}
			}
		}
	}
	return false
}

func slFirstMsg(net *acmelib.Network, ok func(m *acmelib.Message) bool) *acmelib.Message {
	for _, b := range net.Buses() {
		for _, ni := range b.NodeInterfaces() {
			for _, m := range ni.SentMessages() {
				if ok(m) {
					return m
				}
			}
		}
	}
	return nil
}

func slEdits() []slEdit {
	anyMsg := func(m *acmelib.Message) bool { return true }
	onMsg := func(f func(m *acmelib.Message) bool) func(net *acmelib.Network) bool {
		return func(net *acmelib.Network) bool {
			m := slFirstMsg(net, anyMsg)
			return m != nil && f(m)
		}
	}
	return []slEdit{
		{"network-name", []string{"name"}, func(n *acmelib.Network) bool { n.UpdateName(n.Name() + "_z"); return true }},
		{"network-desc", []string{"desc"}, func(n *acmelib.Network) bool { n.SetDesc(n.Desc() + "_z"); return true }},
		{"bus-baudrate", []string{"baudrate"}, func(n *acmelib.Network) bool { b := n.Buses()[0]; b.SetBaudrate(b.Baudrate() + 1); return true }},
		{"bus-builder-replaced", []string{"builder-ops", "builder-identity"}, func(n *acmelib.Network) bool {
			n.Buses()[0].SetCANIDBuilder(acmelib.NewCANIDBuilder("other").UseMessageID(0, 11))
			return true
		}},
		{"shared-builder-split", []string{"builder-identity"}, func(n *acmelib.Network) bool {
			bs := n.Buses()
			for i := 0; i < len(bs); i++ {
				for j := i + 1; j < len(bs); j++ {
					if cb := bs[i].CANIDBuilder(); cb == bs[j].CANIDBuilder() {
						// an equal builder that is another object
						cp := acmelib.NewCANIDBuilder(cb.Name())
						for k, op := range cb.Operations() {
							if cp.InsertOperation(op.Kind(), op.From(), op.Len(), k) != nil {
								return false
							}
						}
						bs[j].SetCANIDBuilder(cp)
						return true
					}
				}
			}
			return false
		}},
		{"node-id", []string{"node-ids"}, func(n *acmelib.Network) bool {
			for _, b := range n.Buses() {
				for _, ni := range b.NodeInterfaces() {
					return ni.Node().UpdateID(ni.Node().ID()+77) == nil
				}
			}
			return false
		}},
		{"node-desc", []string{"desc"}, func(n *acmelib.Network) bool {
			for _, b := range n.Buses() {
				for _, ni := range b.NodeInterfaces() {
					ni.Node().SetDesc(ni.Node().Desc() + "_z")
					return true
				}
			}
			return false
		}},
		{"node-interface-added", []string{"interfaces"}, func(n *acmelib.Network) bool {
			for _, b := range n.Buses() {
				for _, ni := range b.NodeInterfaces() {
					ni.Node().AddInterface()
					return true
				}
			}
			return false
		}},
		{"msg-priority", []string{"msg-priority"}, onMsg(func(m *acmelib.Message) bool { m.SetPriority((m.Priority() + 1) % 4); return true })},
		{"msg-byteorder", []string{"msg-byteorder"}, onMsg(func(m *acmelib.Message) bool {
			if m.ByteOrder() == acmelib.MessageByteOrderBigEndian {
				m.SetByteOrder(acmelib.MessageByteOrderLittleEndian)
			} else {
				m.SetByteOrder(acmelib.MessageByteOrderBigEndian)
			}
			return true
		})},
		{"msg-cycle", []string{"msg-timing"}, onMsg(func(m *acmelib.Message) bool { m.SetCycleTime(m.CycleTime() + 1); return true })},
		{"msg-delay", []string{"msg-timing"}, onMsg(func(m *acmelib.Message) bool { m.SetDelayTime(m.DelayTime() + 1); return true })},
		{"msg-startdelay", []string{"msg-timing"}, onMsg(func(m *acmelib.Message) bool { m.SetStartDelayTime(m.StartDelayTime() + 1); return true })},
		{"msg-sendtype", []string{"msg-sendtype"}, onMsg(func(m *acmelib.Message) bool {
			if m.SendType() == acmelib.MessageSendTypeCyclic {
				m.SetSendType(acmelib.MessageSendTypeCyclicIfActive)
			} else {
				m.SetSendType(acmelib.MessageSendTypeCyclic)
			}
			return true
		})},
		{"msg-id", []string{"msg-id"}, func(n *acmelib.Network) bool {
			m := slFirstMsg(n, func(m *acmelib.Message) bool { return !m.HasStaticCANID() })
			return m != nil && m.UpdateID(m.ID()+5000) == nil
		}},
		{"msg-static", []string{"msg-static-canid"}, func(n *acmelib.Network) bool {
			m := slFirstMsg(n, func(m *acmelib.Message) bool { return !m.HasStaticCANID() })
			return m != nil && m.SetStaticCANID(0x7ABCDE) == nil
		}},
		{"msg-size", []string{"msg-size"}, func(n *acmelib.Network) bool {
			m := slFirstMsg(n, func(m *acmelib.Message) bool { return m.SizeByte() < 8 })
			return m != nil && m.UpdateSizeByte(m.SizeByte()+1) == nil
		}},
		{"msg-receiver-removed", []string{"msg-receivers"}, func(n *acmelib.Network) bool {
			m := slFirstMsg(n, func(m *acmelib.Message) bool { return len(m.Receivers()) > 0 })
			return m != nil && m.RemoveReceiver(m.Receivers()[0].Node().EntityID()) == nil
		}},
		{"sig-desc", []string{"desc"}, func(n *acmelib.Network) bool {
			return slAllSignals(n, func(m *acmelib.Message, s acmelib.Signal) bool { s.SetDesc(s.Desc() + "_z"); return true })
		}},
		{"nested-sig-name", []string{"name"}, func(n *acmelib.Network) bool {
			return slAllSignals(n, func(m *acmelib.Message, s acmelib.Signal) bool {
				return s.ParentMultiplexerSignal() != nil && s.UpdateName(s.Name()+"_z") == nil
			})
		}},
		{"sig-shift", []string{"sig-tree"}, func(n *acmelib.Network) bool {
			return slAllSignals(n, func(m *acmelib.Message, s acmelib.Signal) bool {
				if s.ParentMultiplexerSignal() != nil {
					return false
				}
				return m.ShiftSignalRight(s.EntityID(), 1) == 1 || m.ShiftSignalLeft(s.EntityID(), 1) == 1
			})
		}},
		{"nested-sig-removed", []string{"sig-tree"}, func(n *acmelib.Network) bool {
			return slAllSignals(n, func(m *acmelib.Message, s acmelib.Signal) bool {
				p := s.ParentMultiplexerSignal()
				return p != nil && p.RemoveSignal(s.EntityID()) == nil
			})
		}},
		{"listed-child-made-fixed", []string{"mux-membership"}, func(n *acmelib.Network) bool {
			// a child listed in every group becomes a fixed one: same groups, same position
			return slAllSignals(n, func(m *acmelib.Message, s acmelib.Signal) bool {
				p := s.ParentMultiplexerSignal()
				if p == nil || slFixedIDs(p)[string(s.EntityID())] {
					return false
				}
				for _, grp := range p.GetSignalGroups() {
					in := false
					for _, c := range grp {
						if c == s {
							in = true
						}
					}
					if !in {
						return false
					}
				}
				pos := s.GetRelativeStartPos()
				if p.RemoveSignal(s.EntityID()) != nil {
					return false
				}
				return p.InsertSignal(s, pos) == nil
			})
		}},
		{"child-leaves-a-group", []string{"mux-membership", "sig-tree"}, func(n *acmelib.Network) bool {
			return slAllSignals(n, func(m *acmelib.Message, s acmelib.Signal) bool {
				p := s.ParentMultiplexerSignal()
				if p == nil || slFixedIDs(p)[string(s.EntityID())] {
					return false
				}
				var in []int
				for g, grp := range p.GetSignalGroups() {
					for _, c := range grp {
						if c == s {
							in = append(in, g)
						}
					}
				}
				if len(in) < 2 {
					return false
				}
				pos := s.GetRelativeStartPos()
				if p.RemoveSignal(s.EntityID()) != nil {
					return false
				}
				return p.InsertSignal(s, pos, in[:len(in)-1]...) == nil
			})
		}},
		{"sig-sendtype", []string{"sig-sendtype"}, func(n *acmelib.Network) bool {
			return slAllSignals(n, func(m *acmelib.Message, s acmelib.Signal) bool {
				if s.SendType() == acmelib.SignalSendTypeOnWrite {
					s.SetSendType(acmelib.SignalSendTypeCyclic)
				} else {
					s.SetSendType(acmelib.SignalSendTypeOnWrite)
				}
				return true
			})
		}},
		{"sig-startvalue", []string{"sig-startvalue"}, func(n *acmelib.Network) bool {
			return slAllSignals(n, func(m *acmelib.Message, s acmelib.Signal) bool { s.SetStartValue(s.StartValue() + 1); return true })
		}},
		{"sig-unit-removed", []string{"unit"}, func(n *acmelib.Network) bool {
			return slAllSignals(n, func(m *acmelib.Message, s acmelib.Signal) bool {
				ss, err := s.ToStandard()
				if err != nil || ss.Unit() == nil {
					return false
				}
				ss.SetUnit(nil)
				return true
			})
		}},
		{"sig-type-cloned", []string{"type", "shared-definition-identity"}, func(n *acmelib.Network) bool {
			// an equal type that is another object with another id
			return slAllSignals(n, func(m *acmelib.Message, s acmelib.Signal) bool {
				ss, err := s.ToStandard()
				return err == nil && ss.SetType(ss.Type().Clone()) == nil
			})
		}},
		{"type-scale", []string{"type"}, func(n *acmelib.Network) bool {
			return slAllSignals(n, func(m *acmelib.Message, s acmelib.Signal) bool {
				ss, err := s.ToStandard()
				if err != nil {
					return false
				}
				ss.Type().SetScale(ss.Type().Scale() + 1)
				return true
			})
		}},
		{"unit-symbol", []string{"unit"}, func(n *acmelib.Network) bool {
			return slAllSignals(n, func(m *acmelib.Message, s acmelib.Signal) bool {
				ss, err := s.ToStandard()
				if err != nil || ss.Unit() == nil {
					return false
				}
				ss.Unit().SetSymbol(ss.Unit().Symbol() + "z")
				return true
			})
		}},
		{"enum-value-name", []string{"name"}, func(n *acmelib.Network) bool {
			return slAllSignals(n, func(m *acmelib.Message, s acmelib.Signal) bool {
				es, err := s.ToEnum()
				if err != nil || len(es.Enum().Values()) == 0 {
					return false
				}
				v := es.Enum().Values()[0]
				return v.UpdateName(v.Name()+"_z") == nil
			})
		}},
		{"enum-value-desc", []string{"desc"}, func(n *acmelib.Network) bool {
			return slAllSignals(n, func(m *acmelib.Message, s acmelib.Signal) bool {
				es, err := s.ToEnum()
				if err != nil || len(es.Enum().Values()) == 0 {
					return false
				}
				v := es.Enum().Values()[0]
				v.SetDesc(v.Desc() + "_z")
				return true
			})
		}},
		{"assignment-removed", []string{"attribute-assignment"}, func(n *acmelib.Network) bool {
			m := slFirstMsg(n, func(m *acmelib.Message) bool { return len(m.AttributeAssignments()) > 0 })
			return m != nil && m.RemoveAttributeAssignment(m.AttributeAssignments()[0].Attribute().EntityID()) == nil
		}},
		{"assignment-value", []string{"attribute-assignment"}, func(n *acmelib.Network) bool {
			done := false
			slFirstMsg(n, func(m *acmelib.Message) bool {
				for _, aa := range m.AttributeAssignments() {
					if v, ok := aa.Value().(float64); ok {
						if x, err := aa.Attribute().ToFloat(); err == nil && v != x.Max() {
							done = m.AssignAttribute(aa.Attribute(), x.Max()) == nil
							return done
						}
					}
				}
				return false
			})
			return done
		}},
		{"attribute-cloned", []string{"attribute-assignment", "shared-definition-identity"}, func(n *acmelib.Network) bool {
			m := slFirstMsg(n, func(m *acmelib.Message) bool { return len(m.AttributeAssignments()) > 0 })
			if m == nil {
				return false
			}
			aa := m.AttributeAssignments()[0]
			cp, err := aa.Attribute().Clone()
			if err != nil || m.RemoveAttributeAssignment(aa.Attribute().EntityID()) != nil {
				return false
			}
			return m.AssignAttribute(cp, aa.Value()) == nil
		}},
	}
}

func (x *slRun) c12self(seed int64, variant int) string {
	x.setStage("build")
	n := slBuild(seed, variant)
	var buf bytes.Buffer
	if err := acmelib.SaveNetwork(n.g.net, acmelib.SaveEncodingWire, &buf, nil, nil); err != nil {
		return "c12self save-failed"
	}
	base := slLoadBytes(buf.Bytes(), acmelib.SaveEncodingWire)
	if base.net == nil {
		return "c12self load-failed"
	}
	v0 := slBuildView(base.net, n.custom)
	applied, seen := 0, 0
	for _, ed := range slEdits() {
		x.setStage("edit " + ed.name)
		res := slLoadBytes(buf.Bytes(), acmelib.SaveEncodingWire)
		if res.net == nil {
			continue
		}
		ok := false
		func() {
			defer func() { recover() }()
			ok = ed.apply(res.net)
		}()
		if !ok {
			continue
		}
		applied++
		hit := false
		for _, d := range slCompare(v0, slBuildView(res.net, n.custom)) {
			for _, f := range ed.fields {
				if d.field == f {
					hit = true
				}
			}
		}
		if hit {
			seen++
			x.tag("seen:" + ed.name)
		} else {
			x.report("c12-selftest-blind:"+ed.name, sprintf("seed=%d variant=%d: the edit %q of a loaded network is not reported by the view comparison under %v (a defect of the ORACLE, not of the library)", seed, variant, ed.name, ed.fields))
		}
	}
	return sprintf("c12self seed=%d v=%d edits-applied=%d seen=%d %s", seed, variant, applied, seen, x.tagList())
}
