package main

import (
	"bytes"
	"math/rand"
	"os"
	"sort"
	"strings"

	"github.com/squadracorsepolito/acmelib"
	"github.com/squadracorsepolito/acmelib/dbc"
)

// stream conv — C11 / C10: the kernels of Acme.Core.Conv against the real exporter and
// importer.  Every line is stateless; the Go side builds a minimal bus (or a minimal DBC
// text), runs ExportBus / VerifExportAST / ImportDBCFile on it and reads the answer off the
// result.
//
//	cv start s            exported StartBit of a 1-bit signal at position s of a big-endian message
//	cv istart b           GetStartBit() of an imported 1-bit big-endian signal with DBC start bit b
//	cv compress g1 g2 …   SG_MUL_VAL_ ranges exported for a signal inserted with these group ids
//	cv compressn g1 g2 …  the same when the multiplexer also holds a nested multiplexer
//	cv compressfix gc     the same for a fixed signal of a multiplexer with gc groups
//	cv expand gc f1 t1 …  groups of an imported signal whose SG_MUL_VAL_ entry has these ranges
//	cv msgsend k / cv sigsend k              exported GenMsgSendType / GenSigSendType value
//	cv msgsendfrom str / cv sigsendfrom str  imported send type
//	cv enumidx n v1..vn v exported index of an enum attribute value
//	cv enumat n v1..vn i  imported value of an enum attribute written as index i
//	cv selw gc            exported size of the multiplexor signal
//	cv gcount w           GroupCount() of an imported multiplexor of w bits
//
// Oracle findings: Prop C11 "c11-kernel:<which>" when export→import (or import→export) is
// not the identity on the real code; Prop C10 "c10-…" when the import of a well-defined DBC
// text does not mean what the text says.

type convStream struct{ baseStream }

func init() { register(convStream{}) }

func (convStream) Name() string    { return "conv" }
func (convStream) Props() []string { return []string{"C11", "C10"} }

var cvMsgStrs = []string{"NoMsgSendType", "Cyclic", "CyclicIfActive", "CyclicAndTriggered", "CyclicIfActiveAndTriggered"}
var cvSigStrs = []string{"NoSigSendType", "Cyclic", "OnWrite", "OnWriteWithRepetition", "OnChange", "OnChangeWithRepetition", "IfActive", "IfActiveWithRepetition"}
var cvOddStrs = []string{"cyclic", "CYCLIC", "Cyclic_", "Foo", "None", "OnWriteWithRepetitio", "CyclicIfActiveAndTriggeredX", "IfActive1", "x"}
var cvEnumPool = []string{"a", "b", "c", "d", "e", "f", "Aa", "aA", "x1", "x_2", "zero", "one", "two", "On", "Off", "Cyclic"}

func cvIntsStr(xs []int) string {
	var b strings.Builder
	for _, x := range xs {
		b.WriteString(sprintf(" %d", x))
	}
	return b.String()
}

// --- generation ---------------------------------------------------------------------

func cvAscending(r *rand.Rand, n, max int) []int {
	if n > max {
		n = max
	}
	p := r.Perm(max)[:n]
	sort.Ints(p)
	return p
}

// well-formed ranges below gc: ascending, non-adjacent
func cvGoodRanges(r *rand.Rand, gc int) []int {
	var rs []int
	pos := r.Intn(3)
	for pos < gc && len(rs) < 12 {
		l := 0
		if r.Intn(2) == 0 {
			l = r.Intn(4)
		}
		to := pos + l
		if to >= gc {
			to = gc - 1
		}
		rs = append(rs, pos, to)
		pos = to + 2 + r.Intn(3)
		if r.Intn(4) == 0 {
			break
		}
	}
	if len(rs) == 0 {
		rs = []int{0, 0}
	}
	return rs
}

func cvEnumVals(r *rand.Rand, dups bool) []string {
	n := 1 + r.Intn(6)
	p := r.Perm(len(cvEnumPool))[:n]
	vals := make([]string, n)
	for i, k := range p {
		vals[i] = cvEnumPool[k]
	}
	if dups && n >= 2 {
		for k := 0; k < 1+r.Intn(2); k++ {
			vals[r.Intn(n)] = vals[r.Intn(n)]
		}
	}
	return vals
}

func (convStream) Gen(r *rand.Rand, tier string, idx int) []string {
	var sc []string
	for i := 0; i < 12; i++ {
		switch r.Intn(12) {
		case 0:
			sc = append(sc, sprintf("cv start %d", r.Intn(64)))
		case 1:
			sc = append(sc, sprintf("cv istart %d", r.Intn(64)))
		case 2, 3, 4:
			var ids []int
			switch r.Intn(8) {
			case 0: // one group only: no SG_MUL_VAL_ entry
				ids = []int{r.Intn(20)}
			case 1: // unordered / repeated ids (InsertSignal normalises them)
				ids = cvAscending(r, 2+r.Intn(5), 12)
				ids = append(ids, ids[r.Intn(len(ids))])
				r.Shuffle(len(ids), func(a, b int) { ids[a], ids[b] = ids[b], ids[a] })
			case 2: // dense: long runs
				ids = cvAscending(r, 6+r.Intn(6), 12)
			default:
				ids = cvAscending(r, 2+r.Intn(7), pick(r, 8, 16, 30))
			}
			if r.Intn(4) == 0 {
				sc = append(sc, "cv compressn"+cvIntsStr(ids))
			} else {
				sc = append(sc, "cv compress"+cvIntsStr(ids))
			}
		case 5, 6, 7:
			w := 1 + r.Intn(5)
			if r.Intn(6) == 0 {
				w = 6 + r.Intn(5)
			}
			gc := 1 << w
			var rs []int
			switch r.Intn(6) {
			case 0: // arbitrary pairs: descending, overlapping, beyond the group count
				for k := 0; k < 1+r.Intn(3); k++ {
					rs = append(rs, r.Intn(gc+2), r.Intn(gc+2))
				}
			case 1: // one range touching the bound
				f := r.Intn(gc)
				rs = []int{f, pick(r, gc-1, gc, gc+1)}
			case 2: // every group
				rs = []int{0, gc - 1}
				if gc >= 4 && r.Intn(2) == 0 {
					m := 1 + r.Intn(gc-2)
					rs = []int{0, m - 1, m, gc - 1}
				}
			default:
				rs = cvGoodRanges(r, gc)
			}
			sc = append(sc, sprintf("cv expand %d", gc)+cvIntsStr(rs))
		case 8:
			if r.Intn(2) == 0 {
				sc = append(sc, "cv msgsendfrom "+pick(r, append(append(append([]string{}, cvMsgStrs...), cvSigStrs...), cvOddStrs...)...))
			} else {
				sc = append(sc, "cv sigsendfrom "+pick(r, append(append(append([]string{}, cvMsgStrs...), cvSigStrs...), cvOddStrs...)...))
			}
		case 9:
			vals := cvEnumVals(r, r.Intn(6) == 0)
			v := vals[r.Intn(len(vals))]
			if r.Intn(10) == 0 {
				v = "absent"
			}
			sc = append(sc, sprintf("cv enumidx %d %s %s", len(vals), strings.Join(vals, " "), v))
		case 10:
			vals := cvEnumVals(r, r.Intn(6) == 0)
			sc = append(sc, sprintf("cv enumat %d %s %d", len(vals), strings.Join(vals, " "), r.Intn(len(vals)+3)-1))
		case 11:
			if r.Intn(2) == 0 {
				sc = append(sc, sprintf("cv selw %d", pick(r, 1+r.Intn(1100), 1<<uint(r.Intn(11)), 1+(1<<uint(r.Intn(11))))))
			} else {
				sc = append(sc, sprintf("cv gcount %d", 1+r.Intn(10)))
			}
		}
	}
	return sc
}

func (convStream) Exhaustive(tier string) [][]string {
	var res [][]string
	var sc []string
	for s := 0; s < 64; s++ {
		sc = append(sc, sprintf("cv start %d", s), sprintf("cv istart %d", s))
	}
	res = append(res, sc)

	sc = nil
	for k := 0; k <= 4; k++ {
		sc = append(sc, sprintf("cv msgsend %d", k))
	}
	for k := 0; k <= 7; k++ {
		sc = append(sc, sprintf("cv sigsend %d", k))
	}
	for _, s := range append(append(append([]string{}, cvMsgStrs...), cvSigStrs...), cvOddStrs...) {
		sc = append(sc, "cv msgsendfrom "+s, "cv sigsendfrom "+s)
	}
	res = append(res, sc)

	sc = nil
	for w := 1; w <= 10; w++ {
		sc = append(sc, sprintf("cv gcount %d", w))
	}
	for gc := 1; gc <= 40; gc++ {
		sc = append(sc, sprintf("cv selw %d", gc), sprintf("cv compressfix %d", gc))
	}
	res = append(res, sc)

	// every non-empty subset of {0..5} as a list of group ids
	sc = nil
	for m := 1; m < 64; m++ {
		var ids []int
		for b := 0; b < 6; b++ {
			if m&(1<<b) != 0 {
				ids = append(ids, b)
			}
		}
		sc = append(sc, "cv compress"+cvIntsStr(ids), "cv compressn"+cvIntsStr(ids))
	}
	res = append(res, sc)

	// gc = 4: every single range over 0..5 and every pair of ranges over 0..3
	sc = nil
	for f := 0; f <= 5; f++ {
		for t := 0; t <= 5; t++ {
			sc = append(sc, sprintf("cv expand 4 %d %d", f, t))
		}
	}
	res = append(res, sc)
	sc = nil
	for a := 0; a < 256; a++ {
		sc = append(sc, sprintf("cv expand 4 %d %d %d %d", a&3, (a>>2)&3, (a>>4)&3, (a>>6)&3))
	}
	res = append(res, sc)

	// enum attributes: every index of small lists, with and without a repeated value
	sc = nil
	for _, vals := range [][]string{{"a"}, {"a", "b"}, {"a", "b", "c"}, {"a", "a", "b"}, {"a", "b", "a", "c"}, {"b", "a", "b", "b"}} {
		for i := -1; i <= len(vals); i++ {
			sc = append(sc, sprintf("cv enumat %d %s %d", len(vals), strings.Join(vals, " "), i))
		}
		for _, v := range []string{"a", "b", "c", "d"} {
			sc = append(sc, sprintf("cv enumidx %d %s %s", len(vals), strings.Join(vals, " "), v))
		}
	}
	res = append(res, sc)
	return res
}

func (convStream) Tag(lines, outs []string) (bool, []string) {
	var tags []string
	for i, l := range lines {
		f := fields(l)
		if len(f) < 2 {
			continue
		}
		tags = append(tags, f[1])
		switch outs[i] {
		case "none", "absent", "err":
			tags = append(tags, f[1]+":"+outs[i])
		}
	}
	return true, tags
}

// --- execution ----------------------------------------------------------------------

type convExec struct{ fs []Finding }

func (convStream) NewExec() Exec        { return &convExec{} }
func (e *convExec) Findings() []Finding { return e.fs }

func (e *convExec) find(prop, sig, detail string) {
	e.fs = append(e.fs, Finding{Prop: prop, Sig: sig, Detail: detail})
}

func cvBus(sizeByte int) (*acmelib.Bus, *acmelib.Message) {
	bus := acmelib.NewBus("bus")
	node := acmelib.NewNode("n", 1, 1)
	ni := node.Interfaces()[0]
	if err := bus.AddNodeInterface(ni); err != nil {
		panic(err)
	}
	msg := acmelib.NewMessage("m", 1, sizeByte)
	if err := ni.AddSentMessage(msg); err != nil {
		panic(err)
	}
	return bus, msg
}

func cvByteSig(name string) *acmelib.StandardSignal {
	typ, err := acmelib.NewIntegerSignalType("u8", 8, false)
	if err != nil {
		panic(err)
	}
	sig, err := acmelib.NewStandardSignal(name, typ)
	if err != nil {
		panic(err)
	}
	return sig
}

func cvExportText(bus *acmelib.Bus) string {
	var b bytes.Buffer
	acmelib.ExportBus(&b, bus)
	return b.String()
}

func cvImport(text string) (*acmelib.Bus, error) {
	bus, err := acmelib.ImportDBCFile("imp", strings.NewReader(text))
	if err != nil && os.Getenv("CVDEBUG") != "" {
		os.Stderr.WriteString("import: " + err.Error() + "\n" + text + "\n")
	}
	return bus, err
}

// cvMsg returns the message "m" of an imported bus.
func cvMsg(bus *acmelib.Bus) *acmelib.Message {
	for _, ni := range bus.NodeInterfaces() {
		for _, m := range ni.SentMessages() {
			if m.Name() == "m" {
				return m
			}
		}
	}
	return nil
}

func cvASTSig(f *dbc.File, name string) *dbc.Signal {
	for _, m := range f.Messages {
		for _, s := range m.Signals {
			if s.Name == name {
				return s
			}
		}
	}
	return nil
}

const cvHeader = "VERSION \"\"\n\nNS_ :\n\nBS_:\n\nBU_: n\n\n"

// a CAN 2.0 bus (the only type an import produces) takes messages of at most 8 bytes
func cvSizeFor(bit int) int { return 8 }

// groups of the multiplexer "mx" of message m that contain the signal "t"
func cvGroupsOf(m *acmelib.Message, name string) ([]int, bool) {
	s, err := m.GetSignalByName("mx")
	if err != nil {
		return nil, false
	}
	mux, err := s.ToMultiplexer()
	if err != nil {
		return nil, false
	}
	ids := []int{}
	for id, g := range mux.GetSignalGroups() {
		for _, x := range g {
			if x.Name() == name {
				ids = append(ids, id)
			}
		}
	}
	return ids, true
}

func cvIntsOut(xs []int) string {
	ss := make([]string, len(xs))
	for i, x := range xs {
		ss[i] = sprintf("%d", x)
	}
	return listStr(ss)
}

func sameInts(a, b []int) bool {
	if len(a) != len(b) {
		return false
	}
	for i := range a {
		if a[i] != b[i] {
			return false
		}
	}
	return true
}

// muxBus builds message m = [ M(gc groups of 16 bits) ] with "t" (8 bits at 0) in the given
// groups (fixed when ids == nil) and "u" (8 bits at 8) in group 0.
func cvMuxBus(gc int, ids []int, nested bool) (*acmelib.Bus, error) {
	bus, msg := cvBus(8)
	mux, err := acmelib.NewMultiplexerSignal("mx", gc, 16)
	if err != nil {
		return nil, err
	}
	if err := mux.InsertSignal(cvByteSig("t"), 0, ids...); err != nil {
		return nil, err
	}
	if nested {
		// a nested multiplexer (2 groups of 4 bits, one 4-bit signal) in group 0: the exporter
		// then writes an SG_MUL_VAL_ entry for every multiplexed signal of the message
		nm, err := acmelib.NewMultiplexerSignal("nm", 2, 4)
		if err != nil {
			return nil, err
		}
		typ, err := acmelib.NewIntegerSignalType("u4", 4, false)
		if err != nil {
			return nil, err
		}
		v, err := acmelib.NewStandardSignal("v", typ)
		if err != nil {
			return nil, err
		}
		if err := nm.InsertSignal(v, 0, 1); err != nil {
			return nil, err
		}
		if err := mux.InsertSignal(nm, 8, 0); err != nil {
			return nil, err
		}
	} else if err := mux.InsertSignal(cvByteSig("u"), 8, 0); err != nil {
		return nil, err
	}
	if err := msg.InsertSignal(mux, 0); err != nil {
		return nil, err
	}
	return bus, nil
}

func (e *convExec) doCompress(line string, gc int, ids []int, nested bool) string {
	bus, err := cvMuxBus(gc, ids, nested)
	if err != nil {
		return "err"
	}
	ast := acmelib.VerifExportAST(bus)
	out := "none"
	for _, em := range ast.ExtendedMuxes {
		if em.MultiplexedName == "t" && em.MultiplexorName == "mx" {
			var rs []string
			for _, r := range em.Ranges {
				rs = append(rs, sprintf("(%d,%d)", r.From, r.To))
			}
			out = listStr(rs)
		}
	}
	// oracle: the group membership survives export → import
	want, _ := cvGroupsOf(cvMsg(bus), "t")
	bus2, err := cvImport(cvExportText(bus))
	if err != nil {
		e.find("C11", "c11-kernel:ranges", line+": re-import failed: "+err.Error())
		return out
	}
	got, ok := cvGroupsOf(cvMsg(bus2), "t")
	if !ok || !sameInts(got, want) {
		e.find("C11", "c11-kernel:ranges", sprintf("%s: groups %v became %v", line, want, got))
	}
	return out
}

func cvLog2(gc int) int {
	for w := 1; w <= 16; w++ {
		if 1<<w == gc {
			return w
		}
	}
	return -1
}

func cvMuxText(w int, extra string) string {
	return cvHeader + sprintf("BO_ 1 m: 8 n\n SG_ mx M : 0|%d@1+ (1,0) [0|%d] \"\" Vector__XXX\n", w, (1<<w)-1) +
		sprintf(" SG_ t m0 : %d|8@1+ (1,0) [0|255] \"\" Vector__XXX\n", w) +
		sprintf(" SG_ u m0 : %d|8@1+ (1,0) [0|255] \"\" Vector__XXX\n\n", w+8) + extra
}

func (e *convExec) doExpand(line string, gc int, rs []int) string {
	w := cvLog2(gc)
	if w < 1 || w > 10 || len(rs) < 2 || len(rs)%2 != 0 {
		return "bad-op"
	}
	var parts []string
	set := map[int]bool{}
	beyond, dup := false, false
	for i := 0; i < len(rs); i += 2 {
		parts = append(parts, sprintf("%d-%d", rs[i], rs[i+1]))
		if rs[i+1] >= gc || rs[i] > rs[i+1] {
			beyond = true // beyond the groups or descending: the importer must refuse it
		}
		for j := rs[i]; j <= rs[i+1]; j++ {
			if set[j] {
				dup = true
			}
			set[j] = true
		}
	}
	text := cvMuxText(w, sprintf("SG_MUL_VAL_ 1 t mx %s;\n", strings.Join(parts, ", ")))
	bus, err := cvImport(text)
	if err != nil {
		if !beyond {
			e.find("C10", "c10-ranges-refused", line+": "+err.Error())
		}
		return "none"
	}
	got, ok := cvGroupsOf(cvMsg(bus), "t")
	if !ok {
		return "err"
	}
	// oracle (C10): the signal is in exactly the groups the ranges denote
	want := []int{}
	for j := range set {
		want = append(want, j)
	}
	sort.Ints(want)
	if beyond {
		e.find("C10", "c10-ranges-beyond-accepted", line)
	} else if !sameInts(got, want) {
		switch {
		case len(want) == 0:
			e.find("C10", "c10-fixed-by-empty-range", sprintf("%s: the ranges denote no group, the signal is in %v", line, got))
		case dup:
			e.find("C10", "c10-fixed-by-id-count", sprintf("%s: the ranges denote %v, the signal is in %v", line, want, got))
		default:
			e.find("C10", "c10-ranges-meaning", sprintf("%s: the ranges denote %v, the signal is in %v", line, want, got))
		}
	}
	// oracle (C11): import → export → import keeps the membership
	bus2, err := cvImport(cvExportText(bus))
	if err != nil {
		e.find("C11", "c11-kernel:ranges", line+": re-import failed: "+err.Error())
	} else if got2, ok := cvGroupsOf(cvMsg(bus2), "t"); !ok || !sameInts(got2, got) {
		e.find("C11", "c11-kernel:ranges", sprintf("%s: groups %v became %v", line, got, got2))
	}
	return cvIntsOut(got)
}

// value of the enum attribute attName attached to message 1 / signal t, mapped back through
// the attribute definition of the same document
func cvASTEnum(f *dbc.File, attName string) (string, bool) {
	for _, av := range f.AttributeValues {
		if av.AttributeName != attName {
			continue
		}
		for _, a := range f.Attributes {
			if a.Name == attName {
				if av.Type != dbc.AttributeValueInt || av.ValueInt < 0 || av.ValueInt >= len(a.EnumValues) {
					return sprintf("bad-index %d", av.ValueInt), true
				}
				return a.EnumValues[av.ValueInt], true
			}
		}
		return "no-definition", true
	}
	return "", false
}

func cvEnumDef(kind, name string, vals []string) string {
	q := make([]string, len(vals))
	for i, v := range vals {
		q[i] = "\"" + v + "\""
	}
	return sprintf("BA_DEF_ %s \"%s\" ENUM %s;\nBA_DEF_DEF_ \"%s\" \"%s\";\n", kind, name, strings.Join(q, ","), name, vals[0])
}

func cvPlainText() string {
	return cvHeader + "BO_ 1 m: 8 n\n SG_ t : 0|8@1+ (1,0) [0|255] \"\" Vector__XXX\n\n"
}

func indexOf(xs []string, s string) int {
	for i, x := range xs {
		if x == s {
			return i
		}
	}
	return -1
}

func cvMsgAttr(m *acmelib.Message, name string) (any, bool) {
	for _, aa := range m.AttributeAssignments() {
		if aa.Attribute().Name() == name {
			return aa.Value(), true
		}
	}
	return nil, false
}

func (e *convExec) Do(line string) string {
	f := fields(line)
	if len(f) < 3 || f[0] != "cv" {
		return "bad-op"
	}
	switch f[1] {
	case "start":
		s := atoi(f[2])
		bus, msg := cvBus(cvSizeFor(s))
		msg.SetByteOrder(acmelib.MessageByteOrderBigEndian)
		sig, err := acmelib.NewStandardSignal("t", acmelib.NewFlagSignalType("flag"))
		if err != nil {
			return "err"
		}
		if err := msg.InsertSignal(sig, s); err != nil {
			return "err"
		}
		d := cvASTSig(acmelib.VerifExportAST(bus), "t")
		if d == nil {
			return "err"
		}
		if d.ByteOrder != dbc.SignalBigEndian {
			e.find("C11", "c11-kernel:start", line+": exported byte order is not big endian")
		}
		bus2, err := cvImport(cvExportText(bus))
		if err != nil {
			e.find("C11", "c11-kernel:start", line+": re-import failed: "+err.Error())
		} else if t, err := cvMsg(bus2).GetSignalByName("t"); err != nil || t.GetStartBit() != s ||
			cvMsg(bus2).ByteOrder() != acmelib.MessageByteOrderBigEndian {
			e.find("C11", "c11-kernel:start", sprintf("%s: start bit after export→import differs", line))
		}
		return sprintf("%d", d.StartBit)

	case "istart":
		b := atoi(f[2])
		text := cvHeader + sprintf("BO_ 1 m: %d n\n SG_ t : %d|1@0+ (1,0) [0|1] \"\" Vector__XXX\n", cvSizeFor(b), b)
		bus, err := cvImport(text)
		if err != nil {
			return "err"
		}
		t, err := cvMsg(bus).GetSignalByName("t")
		if err != nil {
			return "err"
		}
		if d := cvASTSig(acmelib.VerifExportAST(bus), "t"); d == nil || int(d.StartBit) != b || d.ByteOrder != dbc.SignalBigEndian {
			e.find("C11", "c11-kernel:start", sprintf("%s: start bit after import→export differs", line))
		}
		return sprintf("%d", t.GetStartBit())

	case "compress", "compressn":
		ids := make([]int, 0, len(f)-2)
		mx := 0
		for _, x := range f[2:] {
			v := atoi(x)
			ids = append(ids, v)
			if v > mx {
				mx = v
			}
		}
		gc := mx + 1 + len(ids)%3
		if gc < 2 {
			gc = 2
		}
		return e.doCompress(line, gc, ids, f[1] == "compressn")

	case "compressfix":
		return e.doCompress(line, atoi(f[2]), nil, false)

	case "expand":
		rs := []int{}
		for _, x := range f[3:] {
			rs = append(rs, atoi(x))
		}
		return e.doExpand(line, atoi(f[2]), rs)

	case "msgsend", "sigsend":
		k := atoi(f[2])
		bus, msg := cvBus(8)
		sig := cvByteSig("t")
		if err := msg.InsertSignal(sig, 0); err != nil {
			return "err"
		}
		attName := dbc.MsgSendTypeName
		if f[1] == "msgsend" {
			if k < 0 || k > 4 {
				return "bad-op"
			}
			msg.SetSendType(acmelib.MessageSendType(k))
		} else {
			if k < 0 || k > 7 {
				return "bad-op"
			}
			sig.SetSendType(acmelib.SignalSendType(k))
			attName = dbc.SigSendTypeName
		}
		out, ok := cvASTEnum(acmelib.VerifExportAST(bus), attName)
		if !ok {
			out = "absent"
		}
		bus2, err := cvImport(cvExportText(bus))
		if err != nil {
			e.find("C11", "c11-kernel:sendtype", line+": re-import failed: "+err.Error())
			return out
		}
		m2 := cvMsg(bus2)
		if f[1] == "msgsend" {
			if int(m2.SendType()) != k {
				e.find("C11", "c11-kernel:sendtype", sprintf("%s: became %d", line, int(m2.SendType())))
			}
		} else if t, err := m2.GetSignalByName("t"); err != nil || int(t.SendType()) != k {
			e.find("C11", "c11-kernel:sendtype", sprintf("%s: signal send type differs after export→import", line))
		}
		return out

	case "msgsendfrom", "sigsendfrom":
		str := f[2]
		isMsg := f[1] == "msgsendfrom"
		vals := append([]string{}, cvSigStrs...)
		name, kind, target := dbc.SigSendTypeName, "SG_", "SG_ 1 t"
		if isMsg {
			vals = append([]string{}, cvMsgStrs...)
			name, kind, target = dbc.MsgSendTypeName, "BO_", "BO_ 1"
		}
		if indexOf(vals, str) < 0 {
			vals = append(vals, str)
		}
		text := cvPlainText() + cvEnumDef(kind, name, vals) + sprintf("BA_ \"%s\" %s %d;\n", name, target, indexOf(vals, str))
		bus, err := cvImport(text)
		if err != nil {
			return "err"
		}
		m := cvMsg(bus)
		k := int(m.SendType())
		if !isMsg {
			t, err := m.GetSignalByName("t")
			if err != nil {
				return "err"
			}
			k = int(t.SendType())
		}
		// import → export → import keeps the send type
		if bus2, err := cvImport(cvExportText(bus)); err != nil {
			e.find("C11", "c11-kernel:sendtype", line+": re-import failed: "+err.Error())
		} else {
			k2 := int(cvMsg(bus2).SendType())
			if !isMsg {
				if t, err := cvMsg(bus2).GetSignalByName("t"); err == nil {
					k2 = int(t.SendType())
				} else {
					k2 = -1
				}
			}
			if k2 != k {
				e.find("C11", "c11-kernel:sendtype", sprintf("%s: %d became %d", line, k, k2))
			}
		}
		return sprintf("%d", k)

	case "enumidx", "enumat":
		n := atoi(f[2])
		if n < 1 || len(f) != n+4 {
			return "bad-op"
		}
		vals, last := f[3:3+n], f[3+n]
		if f[1] == "enumidx" {
			bus, msg := cvBus(8)
			if err := msg.InsertSignal(cvByteSig("t"), 0); err != nil {
				return "err"
			}
			att, err := acmelib.NewEnumAttribute("E", vals...)
			if err != nil {
				return "err"
			}
			if err := msg.AssignAttribute(att, last); err != nil {
				return "err"
			}
			ast := acmelib.VerifExportAST(bus)
			out := "absent"
			for _, av := range ast.AttributeValues {
				if av.AttributeName == "E" && av.Type == dbc.AttributeValueInt {
					out = sprintf("%d", av.ValueInt)
				}
			}
			if bus2, err := cvImport(cvExportText(bus)); err != nil {
				e.find("C11", "c11-kernel:enumattr", line+": re-import failed: "+err.Error())
			} else if v, ok := cvMsgAttr(cvMsg(bus2), "E"); !ok || v != any(last) {
				e.find("C11", "c11-kernel:enumattr", sprintf("%s: value after export→import is %v", line, v))
			}
			return out
		}
		i := atoi(last)
		text := cvPlainText() + cvEnumDef("BO_", "E", vals) + sprintf("BA_ \"E\" BO_ 1 %d;\n", i)
		bus, err := cvImport(text)
		if err != nil {
			if i >= 0 && i < n {
				e.find("C10", "c10-enum-index-refused", sprintf("%s: index %d denotes %q: %v", line, i, vals[i], err))
			}
			return "none"
		}
		v, ok := cvMsgAttr(cvMsg(bus), "E")
		if !ok {
			return "unassigned"
		}
		sv, _ := v.(string)
		if i >= 0 && i < n && sv != vals[i] {
			e.find("C10", "c10-enum-index-shifted", sprintf("%s: index %d denotes %q, imported %q", line, i, vals[i], sv))
		}
		return sv

	case "selw":
		gc := atoi(f[2])
		bus, msg := cvBus(8)
		mux, err := acmelib.NewMultiplexerSignal("mx", gc, 8)
		if err != nil {
			return "err"
		}
		if err := mux.InsertSignal(cvByteSig("u"), 0, 0); err != nil {
			return "err"
		}
		if err := msg.InsertSignal(mux, 0); err != nil {
			return "err"
		}
		d := cvASTSig(acmelib.VerifExportAST(bus), "mx")
		if d == nil || !d.IsMultiplexor {
			return "err"
		}
		// export → import → export writes the same width
		if bus2, err := cvImport(cvExportText(bus)); err != nil {
			e.find("C11", "c11-kernel:selwidth", line+": re-import failed: "+err.Error())
		} else if d2 := cvASTSig(acmelib.VerifExportAST(bus2), "mx"); d2 == nil || d2.Size != d.Size {
			e.find("C11", "c11-kernel:selwidth", sprintf("%s: selector width %d changed after export→import→export", line, d.Size))
		} else if s, err := cvMsg(bus2).GetSignalByName("mx"); err == nil {
			if mx, err := s.ToMultiplexer(); err != nil || mx.GroupCount() < gc {
				e.find("C11", "c11-kernel:selwidth", sprintf("%s: fewer groups after export→import", line))
			}
		}
		return sprintf("%d", d.Size)

	case "gcount":
		w := atoi(f[2])
		if w < 1 || w > 12 {
			return "bad-op"
		}
		bus, err := cvImport(cvMuxText(w, ""))
		if err != nil {
			return "err"
		}
		s, err := cvMsg(bus).GetSignalByName("mx")
		if err != nil {
			return "err"
		}
		mux, err := s.ToMultiplexer()
		if err != nil {
			return "err"
		}
		if d := cvASTSig(acmelib.VerifExportAST(bus), "mx"); d == nil || int(d.Size) != w {
			e.find("C11", "c11-kernel:selwidth", sprintf("%s: selector width after import→export differs", line))
		}
		return sprintf("%d", mux.GroupCount())
	}
	return "bad-op"
}
