package main

import (
	"errors"
	"math/rand"
	"strings"

	"github.com/squadracorsepolito/acmelib"
)

// stream canid — C14: CANIDBuilder and Message.GetCANID against Acme.Core.CanId.
//
//	canid calc N (kind from len)*N prio mid nid      N = -1: the default builder
//	canid ins  N (kind from len)*N kind from len idx
//	canid rem  N (kind from len)*N idx
//	canid get  N (kind from len)*N st static att prio mid nid
//	     st 1 = static CAN-ID set; att 0 = no sender, 1 = sender without bus, 2 = sender on a bus,
//	     3..6 = attached like 2 and then detached again: 3 RemoveNodeInterface, 4 RemoveAllNodeInterfaces,
//	     5 RemoveSentMessage, 6 RemoveAllSentMessages;
//	     7, 8 = sent by an interface that has NO bus, removed from it (7 RemoveAllSentMessages, 8 RemoveSentMessage)
//	     and only then the interface is attached to a bus: the message is not attached to anything;
//	     9 = the interface's attach is REFUSED by the bus (another message of it clashes): not attached

type canidStream struct{ baseStream }

func init() { register(canidStream{}) }

func (canidStream) Name() string    { return "canid" }
func (canidStream) Parallel() bool  { return true } // no shared state: cases run on all cores
func (canidStream) Props() []string { return []string{"C14"} }

type bop struct{ k, f, l int }

var interesting32 = []uint32{0, 1, 2, 3, 0xF, 0x10, 0x7F, 0x80, 0x7FF, 0x800, 0xFFFF, 0x7FFFFFFF, 0x80000000, 0xFFFFFFFF, 0xDEADBEEF}

func rnd32(r *rand.Rand) uint32 {
	if r.Intn(3) == 0 {
		return interesting32[r.Intn(len(interesting32))]
	}
	if r.Intn(2) == 0 {
		return uint32(r.Intn(4096))
	}
	return r.Uint32()
}

func genOp(r *rand.Rand, valid bool) bop {
	k := r.Intn(4)
	if valid || r.Intn(3) != 0 {
		f := r.Intn(32)
		l := r.Intn(33 - f)
		if k == 0 && r.Intn(2) == 0 {
			l = 2
			if f > 30 {
				f = 30
			}
		}
		return bop{k, f, l}
	}
	// arbitrary arguments accepted by the Use* methods (never for prio: fixed len 2)
	if k == 0 {
		k = 1 + r.Intn(3)
	}
	f := pick(r, -1, 0, 31, 32, 33, 40, 1<<31, 1<<32, -(1 << 31), 1<<32+3)
	l := pick(r, -1, 0, 1, 31, 32, 33, 64, 1<<32, 1<<32+5, -(1 << 32))
	if r.Intn(2) == 0 {
		f = r.Intn(40) - 4
	}
	if r.Intn(2) == 0 {
		l = r.Intn(40) - 4
	}
	return bop{k, f, l}
}

func opsStr(ops []bop) string {
	var b strings.Builder
	b.WriteString(sprintf("%d", len(ops)))
	for _, o := range ops {
		b.WriteString(sprintf(" %d %d %d", o.k, o.f, o.l))
	}
	return b.String()
}

func (canidStream) Gen(r *rand.Rand, tier string, idx int) []string {
	var sc []string
	for i := 0; i < 12; i++ {
		n := r.Intn(9)
		ops := make([]bop, n)
		for j := range ops {
			ops[j] = genOp(r, false)
		}
		head := opsStr(ops)
		c := r.Intn(5)
		if r.Intn(8) == 0 && c != 2 && c != 3 {
			head = "-1"
		}
		switch c {
		case 0, 1:
			sc = append(sc, sprintf("canid calc %s %d %d %d", head, rnd32(r), rnd32(r), rnd32(r)))
		case 2:
			o := genOp(r, r.Intn(2) == 0)
			if r.Intn(3) == 0 { // invalid-but-near arguments
				o.f = pick(r, -1, 0, 31, 32)
				o.l = pick(r, -1, 0, 1, 32-o.f, 33-o.f)
			}
			idxArg := pick(r, -1, 0, n, n+1, r.Intn(n+1))
			sc = append(sc, sprintf("canid ins %s %d %d %d %d", head, o.k, o.f, o.l, idxArg))
		case 3:
			sc = append(sc, sprintf("canid rem %s %d", head, pick(r, -1, 0, n-1, n, r.Intn(n+1))))
		case 4:
			if r.Intn(3) == 0 {
				head = "-1" // the default builder of the bus (and the routes by which a bus comes back to it)
			}
			att := []int{0, 1, 2, 3, 4, 5, 6, 7, 8, 9, 2, 2}[r.Intn(12)]
			sc = append(sc, sprintf("canid get %s %d %d %d %d %d %d", head, r.Intn(2), rnd32(r), att, r.Intn(4), rnd32(r), rnd32(r)))
		}
	}
	return sc
}

// Exhaustive: every valid single operation shape with fixed input triples.
func (canidStream) Exhaustive(tier string) [][]string {
	triples := [][3]uint32{{3, 0xFFFFFFFF, 0xFFFFFFFF}, {2, 0xDEADBEEF, 0x12345678}}
	if tier == "thorough" {
		triples = append(triples, [3]uint32{1, 0x55555555, 0xAAAAAAAA}, [3]uint32{0, 0x80000001, 0x7FFFFFFE})
	}
	var res [][]string
	for k := 0; k < 4; k++ {
		var sc []string
		for f := 0; f <= 31; f++ {
			for l := 0; l <= 32-f; l++ {
				for _, t := range triples {
					// a preceding full-width msgId op makes mask ops observable
					sc = append(sc, sprintf("canid calc 2 1 0 32 %d %d %d %d %d %d", k, f, l, t[0], t[1], t[2]))
					sc = append(sc, sprintf("canid calc 1 %d %d %d %d %d %d", k, f, l, t[0], t[1], t[2]))
				}
			}
		}
		res = append(res, sc)
	}
	return res
}

func (canidStream) Tag(lines, outs []string) (bool, []string) {
	nt := false
	tags := []string{}
	for i, l := range lines {
		f := fields(l)
		tags = append(tags, f[1])
		if strings.HasPrefix(outs[i], "err") {
			tags = append(tags, f[1]+":err")
		}
		if f[1] == "calc" && !strings.HasPrefix(outs[i], "calc 0 ") {
			nt = true
		}
	}
	return nt, tags
}

type canidExec struct{ fs []Finding }

func (canidStream) NewExec() Exec        { return &canidExec{} }
func (e *canidExec) Findings() []Finding { return e.fs }

func kindOf(k int) acmelib.CANIDBuilderOpKind {
	switch k {
	case 0:
		return acmelib.CANIDBuilderOpKindMessagePriority
	case 1:
		return acmelib.CANIDBuilderOpKindMessageID
	case 2:
		return acmelib.CANIDBuilderOpKindNodeID
	}
	return acmelib.CANIDBuilderOpKindBitMask
}

func kindNum(k acmelib.CANIDBuilderOpKind) int {
	switch k {
	case acmelib.CANIDBuilderOpKindMessagePriority:
		return 0
	case acmelib.CANIDBuilderOpKindMessageID:
		return 1
	case acmelib.CANIDBuilderOpKindNodeID:
		return 2
	}
	return 3
}

// buildBuilder returns nil for the default builder (n = -1).
func buildBuilder(f []string) (*acmelib.CANIDBuilder, []bop, []string) {
	n := atoi(f[0])
	f = f[1:]
	if n == -1 {
		return nil, nil, f
	}
	b := acmelib.NewCANIDBuilder("b")
	var ops []bop
	for i := 0; i < n; i++ {
		o := bop{atoi(f[0]), atoi(f[1]), atoi(f[2])}
		f = f[3:]
		ops = append(ops, o)
	}
	applyOps(b, ops)
	return b, ops, f
}

// applyOps appends the operations to the builder through the public API.
func applyOps(b *acmelib.CANIDBuilder, ops []bop) {
	for _, o := range ops {
		switch {
		case o.k == 0 && o.l == 2:
			b.UseMessagePriority(o.f)
		case o.k == 0:
			if err := b.InsertOperation(kindOf(0), o.f, o.l, len(b.Operations())); err != nil {
				panic("generator produced an unbuildable priority op")
			}
		case o.k == 1:
			b.UseMessageID(o.f, o.l)
		case o.k == 2:
			b.UseNodeID(o.f, o.l)
		default:
			b.UseBitMask(o.f, o.l)
		}
	}
}

func showBuilderOps(b *acmelib.CANIDBuilder) string {
	var xs []string
	for _, o := range b.Operations() {
		xs = append(xs, sprintf("(%d,%d,%d)", kindNum(o.Kind()), o.From(), o.Len()))
	}
	return listStr(xs)
}

func argErr(err error) string {
	var ae *acmelib.ArgumentError
	name := "?"
	if errors.As(err, &ae) {
		name = ae.Name
	}
	switch {
	case errors.Is(err, acmelib.ErrOutOfBounds):
		return "err outOfBounds " + name
	}
	return "err other " + name
}

// specCalc is the property's own statement of the CAN-ID function (independent of the model).
func specCalc(ops []bop, prio, mid, nid uint32) (uint32, bool) {
	v := uint32(0)
	for _, o := range ops {
		if o.f < 0 || o.f > 31 || o.l < 0 || o.l > 32-o.f {
			return 0, false // the property only speaks about validated operations
		}
		var low uint64 = (uint64(1) << uint(o.l)) - 1
		switch o.k {
		case 3:
			v &= uint32(low << uint(o.f))
		default:
			src := []uint32{prio, mid, nid}[o.k]
			v |= uint32((uint64(src) & low) << uint(o.f))
		}
	}
	return v, true
}

func (e *canidExec) Do(line string) string {
	f := fields(line)
	cmd := f[1]
	b, ops, rest := buildBuilder(f[2:])
	def := b == nil
	if def {
		ops = []bop{{2, 0, 4}, {1, 4, 7}, {3, 0, 11}}
	}
	switch cmd {
	case "calc":
		p, m, n := uint32(atoi(rest[0])), uint32(atoi(rest[1])), uint32(atoi(rest[2]))
		if def {
			b = acmelib.NewBus("x").CANIDBuilder()
		}
		id := b.Calculate(acmelib.MessagePriority(p), acmelib.MessageID(m), acmelib.NodeID(n))
		var ps []string
		parts := b.CalculatePartials(acmelib.MessagePriority(p), acmelib.MessageID(m), acmelib.NodeID(n))
		for _, x := range parts {
			ps = append(ps, sprintf("%d", uint32(x)))
		}
		if want, ok := specCalc(ops, p, m, n); ok && uint32(id) != want {
			e.fs = append(e.fs, Finding{Prop: "C14", Sig: "calculate-vs-spec", Detail: sprintf("%s: got %d want %d", line, uint32(id), want)})
		}
		if len(parts) > 0 && parts[len(parts)-1] != id {
			e.fs = append(e.fs, Finding{Prop: "C14", Sig: "last-partial", Detail: line})
		}
		if def && uint32(id) >= 2048 {
			e.fs = append(e.fs, Finding{Prop: "C14", Sig: "default-not-11bit", Detail: line})
		}
		return sprintf("calc %d %s", uint32(id), listStr(ps))
	case "ins":
		if def {
			return "bad-op"
		}
		k, fr, l, idx := atoi(rest[0]), atoi(rest[1]), atoi(rest[2]), atoi(rest[3])
		err := b.InsertOperation(kindOf(k), fr, l, idx)
		valid := fr >= 0 && fr <= 31 && l >= 0 && l <= 32-fr && idx >= 0 && idx <= len(ops)
		if (err == nil) != valid {
			e.fs = append(e.fs, Finding{Prop: "C14", Sig: "insert-acceptance", Detail: sprintf("%s: err=%v valid=%v", line, err, valid)})
		}
		if err != nil {
			if len(b.Operations()) != len(ops) {
				e.fs = append(e.fs, Finding{Prop: "C14", Sig: "insert-rejected-but-changed", Detail: line})
			}
			return argErr(err)
		}
		return "ok " + showBuilderOps(b)
	case "rem":
		if def {
			return "bad-op"
		}
		idx := atoi(rest[0])
		err := b.RemoveOperation(idx)
		valid := idx >= 0 && idx < len(ops)
		if (err == nil) != valid {
			e.fs = append(e.fs, Finding{Prop: "C14", Sig: "remove-acceptance", Detail: sprintf("%s: err=%v", line, err)})
		}
		if err != nil {
			return argErr(err)
		}
		return "ok " + showBuilderOps(b)
	case "get":
		st, static, att := atoi(rest[0]), uint32(atoi(rest[1])), atoi(rest[2])
		p, m, n := uint32(atoi(rest[3])), uint32(atoi(rest[4])), uint32(atoi(rest[5]))
		msg := acmelib.NewMessage("m", acmelib.MessageID(m), 8)
		msg.SetPriority(acmelib.MessagePriority(p))
		staticFirst := (static+p)%2 == 0
		// a message without a static CAN-ID may have HAD one: it was given its own number as static
		// CAN-ID and lost it again through UpdateID with the same number ("drop the static CAN-ID,
		// keep the number") — before it is attached, or after (see below)
		hadStatic := st == 0 && (p+n)%3 == 0
		if hadStatic && m%2 == 0 {
			if msg.SetStaticCANID(acmelib.CANID(m)) == nil {
				if err := msg.UpdateID(acmelib.MessageID(m)); err != nil {
					return "err " + err.Error()
				}
			}
		}
		if st == 1 && staticFirst {
			if err := msg.SetStaticCANID(acmelib.CANID(static)); err != nil {
				return "err " + err.Error()
			}
		}
		if att == 9 {
			// an attach the bus REFUSES: the interface also sends a message whose static CAN-ID is
			// already taken on the bus; the message under test stays detached (CAN-ID = message id),
			// whatever builder the bus has or gets afterwards
			clash := acmelib.CANID(0x7E0)
			if st == 1 && static == 0x7E0 {
				clash = 0x7E1
			}
			bus := acmelib.NewBus("bus")
			on := acmelib.NewNode("other", acmelib.NodeID(n+1), 1)
			oi := on.Interfaces()[0]
			om := acmelib.NewMessage("taken", acmelib.MessageID(m+1), 8)
			if om.SetStaticCANID(clash) != nil || oi.AddSentMessage(om) != nil || bus.AddNodeInterface(oi) != nil {
				return "err setup"
			}
			node := acmelib.NewNode("n", acmelib.NodeID(n), 1)
			ni := node.Interfaces()[0]
			cm := acmelib.NewMessage("clash", acmelib.MessageID(m+2), 8)
			if cm.SetStaticCANID(clash) != nil {
				return "err setup"
			}
			first, second := msg, cm
			if m%2 == 0 {
				first, second = cm, msg
			}
			if ni.AddSentMessage(first) != nil || ni.AddSentMessage(second) != nil {
				return "err setup"
			}
			if !def && p%2 == 0 {
				bus.SetCANIDBuilder(b)
			}
			if err := bus.AddNodeInterface(ni); err == nil {
				return "err attach-not-refused"
			}
			if !def && p%2 == 1 {
				bus.SetCANIDBuilder(b)
			}
		} else if att == 7 || att == 8 {
			node := acmelib.NewNode("n", acmelib.NodeID(n), 1)
			ni := node.Interfaces()[0]
			bus := acmelib.NewBus("bus")
			if err := ni.AddSentMessage(msg); err != nil {
				return "err " + err.Error()
			}
			if att == 7 {
				ni.RemoveAllSentMessages()
			} else if err := ni.RemoveSentMessage(msg.EntityID()); err != nil {
				return "err " + err.Error()
			}
			if err := bus.AddNodeInterface(ni); err != nil {
				return "err " + err.Error()
			}
			if !def {
				bus.SetCANIDBuilder(b)
			}
		} else if att >= 1 {
			// observe, then edit: the message, its node and (for a custom builder) the builder's
			// operations start out different, the CAN-ID is asked for once, and only then they get
			// the values of the line — the CAN-ID is a function of the CURRENT model
			stale := att == 2 && (p*7+m+n)%3 == 1 && !(st == 1 && staticFirst)
			node := acmelib.NewNode("n", acmelib.NodeID(n), 1)
			// exactly ONE of the four inputs starts out different (a stale answer keyed by the others)
			which := int((p + m/3 + n/3) % 4)
			if which == 3 && def {
				which = 2
			}
			if stale {
				switch which {
				case 0:
					msg = acmelib.NewMessage("m", acmelib.MessageID(m^1), 8)
					msg.SetPriority(acmelib.MessagePriority(p))
				case 1:
					msg.SetPriority(acmelib.MessagePriority((p + 1) % 4))
				case 2:
					node = acmelib.NewNode("n", acmelib.NodeID(n^1), 1)
				default:
					b.RemoveAllOperations()
					b.UseNodeID(1, 3).UseMessageID(4, 9)
				}
			}
			ni := node.Interfaces()[0]
			bus := acmelib.NewBus("bus")
			if att >= 2 && (m%2 == 0) { // attach to the bus before or after adding the message
				if err := bus.AddNodeInterface(ni); err != nil {
					return "err " + err.Error()
				}
			}
			if err := ni.AddSentMessage(msg); err != nil {
				return "err " + err.Error()
			}
			if att >= 2 && (m%2 != 0) {
				if err := bus.AddNodeInterface(ni); err != nil {
					return "err " + err.Error()
				}
			}
			// the builder of the bus is the LAST one it was given, by whatever route it got there:
			// directly / after another builder / after the bus's own default builder was edited in
			// place / given twice, with the default in between (nil = back to a fresh default builder)
			route := (p + m + n) % 4
			if def && route == 1 {
				route = 2 // the default builder is the one that can be edited in place
			}
			switch route {
			case 1:
				junk := acmelib.NewCANIDBuilder("junk")
				junk.UseMessageID(3, 5).UseNodeID(0, 3)
				bus.SetCANIDBuilder(junk)
			case 2:
				if cur := bus.CANIDBuilder(); cur != nil {
					if len(cur.Operations()) > 0 {
						_ = cur.RemoveOperation(len(cur.Operations()) - 1)
					}
					cur.UseMessageID(20, 9)
				}
			case 3:
				if def {
					bus.SetCANIDBuilder(nil)
				} else {
					bus.SetCANIDBuilder(b)
				}
				bus.SetCANIDBuilder(nil)
			}
			if !def {
				bus.SetCANIDBuilder(b)
			} else if (p+m+n)%4 != 0 {
				bus.SetCANIDBuilder(nil)
			}
			if stale {
				_ = msg.GetCANID()
				_ = msg.String()
				switch which {
				case 0:
					if err := msg.UpdateID(acmelib.MessageID(m)); err != nil {
						return "err " + err.Error()
					}
				case 1:
					msg.SetPriority(acmelib.MessagePriority(p))
				case 2:
					if err := node.UpdateID(acmelib.NodeID(n)); err != nil {
						return "err " + err.Error()
					}
				default:
					b.RemoveAllOperations()
					applyOps(b, ops)
				}
			}
			switch att { // detach again: the message is no longer attached to a bus
			case 3:
				if err := bus.RemoveNodeInterface(node.EntityID()); err != nil {
					return "err " + err.Error()
				}
			case 4:
				bus.RemoveAllNodeInterfaces()
			case 5:
				if err := ni.RemoveSentMessage(msg.EntityID()); err != nil {
					return "err " + err.Error()
				}
			case 6:
				ni.RemoveAllSentMessages()
			}
		}
		if st == 1 && !staticFirst {
			if err := msg.SetStaticCANID(acmelib.CANID(static)); err != nil {
				return "err " + err.Error()
			}
		}
		if hadStatic && m%2 != 0 {
			if msg.SetStaticCANID(acmelib.CANID(m)) == nil {
				_ = msg.GetCANID()
				if err := msg.UpdateID(acmelib.MessageID(m)); err != nil {
					return "err " + err.Error()
				}
			}
		}
		got := uint32(msg.GetCANID())
		// the property's own statement
		var want uint32
		switch {
		case st == 1:
			want = static
		case att != 2:
			want = m
		default:
			w, ok := specCalc(ops, p, m, n)
			if !ok {
				want = got
			} else {
				want = w
			}
		}
		if got != want {
			e.fs = append(e.fs, Finding{Prop: "C14", Sig: "getcanid-vs-spec", Detail: sprintf("%s: got %d want %d", line, got, want)})
		}
		return sprintf("id %d", got)
	}
	return "bad-op"
}
