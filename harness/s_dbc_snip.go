package main

// Hand-written texts of the stream "dbc": every section with its optional forms, number
// shapes, scanner corner cases; plus the truncation of a small file at every token.

var dbcSnippets = []string{
	// version
	``, `VERSION ""`, `VERSION "1.0"`, `VERSION "1" VERSION "2"`, `VERSION`, `VERSION 5`, `VERSION "a` + "\n" + `b"`,
	// new symbols
	`NS_ :`, `NS_`, `NS_ : CM_ BA_ NS_DESC_`, `NS_ : CM_ FOO`, `NS_ : CM_ 5 "x" ; , BS_:`, `NS_ : $ CM_ BS_: BU_: a`, `NS_ : $ FOO`,
	`NS_ : M m5 m5M BS_:`, `NS_ : CM_ BS_: 1 : 2,3`, `NS_ : BU_`, `NS_ : INT`, `NS_ : CM_ NS_ : CM_`, `NS_ : NS_ : BS_:`, `NS_ : VAL_ BS_: NS_ : BS_:`,
	"NS_ : CM_ \x00 BS_: BU_: a", "NS_ : CM_ \x00 BU_: a", "VERSION \"x\" \x00 BU_: a", `NS_ : 1e BS_: BU_: q`, `NS_ : 0x BS_:`, `NS_ : "open`,
	`NS_ : 1-2 0x1F -5 CM_`,
	// bit timing
	`BS_:`, `BS_`, `BS_: 500 : 1, 2`, `BS_: 500`, `BS_: 500 : 1`, `BS_: 500 : 1 2`, `BS_: BS_:`, `BS_: 1:2,3 BS_: 4:5,6`, `BS_: 4294967296 : 1,2`,
	`BS_: 1 : 4294967296,2`, `BS_: 1 : 2,4294967296`, `BS_: 0 : 5,6`, `BS_: a`, `BS_: "s"`, `BS_: 1.5 : 1,2`, `BS_: -1 : 1,2`, `BS_: BU_: a`, `BS_: INT`,
	// nodes
	`BU_:`, `BU_: a b c`, `BU_: a BU_: b`, `BU_: a m1`, `BU_: a M`, `BU_ a`, `BU_: a 5`, `BU_: a BO_`, `BU_: Vector__XXX`,
	// value tables
	`VAL_TABLE_ vt ;`, `VAL_TABLE_ vt 0 "a" 1 "b" ;`, `VAL_TABLE_ vt 0 ;`, `VAL_TABLE_ vt -1 "a";`, `VAL_TABLE_ vt 0 "a"`, `VAL_TABLE_ 5 0 "a";`,
	`VAL_TABLE_ vt 4294967296 "a";`, `VAL_TABLE_ vt 0 "a" "b";`, `VAL_TABLE_ vt 1.0 "a";`, `VAL_TABLE_ BO_ ;`,
	// messages and signals
	`BO_ 1 m: 8 n`, `BO_ 1 m : 8 n`, `BO_ 1 m: 8`, `BO_ 1 m 8 n`, `BO_ m: 8 n`, `BO_ 1 BO_: 8 n`, `BO_ 4294967295 m: 4294967295 Vector__XXX`, `BO_ 4294967296 m: 8 n`,
	`BO_ 1 m: 8 n SG_ s : 0|8@1+ (1,0) [0|255] "u" r`,
	`BO_ 1 m: 8 n SG_ s : 0|8@0- (1,0) [0|255] "u" r1,r2`,
	`BO_ 1 m: 8 n SG_ s : 0|8@1+ (1,0) [0|255] "u" r1, r2 ,r3 SG_ t M : 1|2@1- (0.5,-5) [-1|1] "" r`,
	`BO_ 1 m: 8 n SG_ s M : 0|8@1+ (1,0) [0|255] "u" r`, `BO_ 1 m: 8 n SG_ s m1 : 0|8@1+ (1,0) [0|255] "u" r`,
	`BO_ 1 m: 8 n SG_ s m12M : 0|8@1+ (1,0) [0|255] "u" r`, `BO_ 1 m: 8 n SG_ s m4294967296 : 0|8@1+ (1,0) [0|255] "u" r`,
	`BO_ 1 m: 8 n SG_ s m1M2 : 0|8@1+ (1,0) [0|255] "u" r`, `BO_ 1 m: 8 n SG_ s m1MM : 0|8@1+ (1,0) [0|255] "u" r`, `BO_ 1 m: 8 n SG_ s m007 : 0|8@1+ (1,0) [0|255] "u" r`,
	`BO_ 1 m: 8 n SG_ s m : 0|8@1+ (1,0) [0|255] "u" r`, `BO_ 1 m: 8 n SG_ m1 : 0|8@1+ (1,0) [0|255] "u" r`,
	`BO_ 1 m: 8 n SG_ s : 0|8@2+ (1,0) [0|255] "u" r`, `BO_ 1 m: 8 n SG_ s : 0|8@1 (1,0) [0|255] "u" r`, `BO_ 1 m: 8 n SG_ s : 0|8@1 + (1,0) [0|255] "u" r`,
	`BO_ 1 m: 8 n SG_ s : 0|8@1+(1,0)[0|255]"u"r`, `BO_ 1 m: 8 n SG_ s : 0|8@1+ (1,0) [0|255] "u"`, `BO_ 1 m: 8 n SG_ s : 0|8@1+ (1,0) [0|255] "u" r,`,
	`BO_ 1 m: 8 n SG_ s : 0|8@1+ (1,0) [0|255] "u" r, 5`, `BO_ 1 m: 8 n SG_ s : 0|8@1+ (1,0) [0|255] r`, `BO_ 1 m: 8 n SG_ s : 0|8@1+ (1 0) [0|255] "u" r`,
	`BO_ 1 m: 8 n SG_ s : 0-8@1+ (1,0) [0|255] "u" r`, `BO_ 1 m: 8 n SG_ s : 0|8@1- (1,0) [0|255] "u" r`, `BO_ 1 m: 8 n SG_ s : 0|8@1-5 (1,0) [0|255] "u" r`,
	`BO_ 1 m: 8 n SG_ s : 0|8@1+ (1e5,1E-5) [1.5e+3|+5] "u" r`, `BO_ 1 m: 8 n SG_ s : 0|8@1+ (5.,-0) [007|0.0] "u" r`, `BO_ 1 m: 8 n SG_ s : 0|8@1+ (1..2,0) [0|255] "u" r`,
	`BO_ 1 m: 8 n SG_ s : 0|8@1+ (0x1F,0) [0|255] "u" r`, `BO_ 1 m: 8 n SG_ s : 0|8@1+ (1.7976931348623158e308,0) [0|255] "u" r`,
	`BO_ 1 m: 8 n SG_ s : 0|8@1+ (1.7976931348623159e308,0) [0|255] "u" r`, `BO_ 1 m: 8 n SG_ s : 0|8@1+ (1e309,0) [0|255] "u" r`, `BO_ 1 m: 8 n SG_ s : 0|8@1+ (1e-400,0) [0|255] "u" r`,
	`BO_ 1 m: 8 n SG_ s : 0|8@1+ (-1e309,0) [0|255] "u" r`, `BO_ 1 m: 8 n SG_ s : 0|8@1+ (0e999,1e99999) [0|255] "u" r`, `BO_ 1 m: 8 n SG_ s : 0|8@1+ (179769313486231580793728971405303415079934132710037826936173778980444968292764750946649017977587207096330286416692887910946555547851940402630657488671505820681908902000708383676273854845817711531764475730270069855571366959622842914819860834936475292719074168444365510704342711559699508093042880177904174497791.9999,0) [0|255] "u" r`,
	`BO_ 1 m: 8 n SG_ s : 0|8@1+ (179769313486231580793728971405303415079934132710037826936173778980444968292764750946649017977587207096330286416692887910946555547851940402630657488671505820681908902000708383676273854845817711531764475730270069855571366959622842914819860834936475292719074168444365510704342711559699508093042880177904174497792,0) [0|255] "u" r`,
	`BO_ 1 m: 8 n SG_ s : 0|8@1+ (0.000000000000000000000000000000000000000000000000000001e362,0) [0|255] "u" r`, `BO_ 1 m: 8 n SG_ s : 0|8@1+ (0.000000000000000000000000000000000000000000000000000001e363,0) [0|255] "u" r`,
	`BO_ 1 m: 8 n SG_ s : 0|8@1+ (1e,0) [0|255] "u" r`, `BO_ 1 m: 8 n SG_ s : 0|8@1+ (1e+,0) [0|255] "u" r`, `BO_ 1 m: 8 n SG_ s : 0|8@1+ (-,0) [0|255] "u" r`,
	`BO_ 1 m: 8 n SG_ s : 0|8@1+ (NaN,0) [0|255] "u" r`, `BO_ 1 m: 8 n SG_ s : 0|8@1+ (+Inf,0) [0|255] "u" r`,
	`BO_ 1 m: 8 n SG_ s : 0|8@1+ (1,0) [0|255] "u" r BO_ 2 k: 1 n SG_ q : 1|1@1+ (1,0) [0|1] "" Vector__XXX`, `SG_ s : 0|8@1+ (1,0) [0|255] "u" r`, `SG_ SG_ BU_: a`,
	// message transmitters
	`BO_TX_BU_ 1 : a b ;`, `BO_TX_BU_ 1 : ;`, `BO_TX_BU_ 1 : a,b;`, `BO_TX_BU_ 1 a;`, `BO_TX_BU_ 1 : a`, `BO_TX_BU_ x : a;`, `BO_TX_BU_ 1 : a M;`,
	// env vars
	`EV_ e : 0 [0|1] "u" 0 1 DUMMY_NODE_VECTOR0 n;`, `EV_ e : 1 [-1.5|1e3] "" 2.5 4294967295 DUMMY_NODE_VECTOR8003 n1,n2 , n3;`,
	`EV_ e : 2 [0|1] "u" 0 1 DUMMY_NODE_VECTOR3 Vector__XXX;`, `EV_ e : 3 [0|1] "u" 0 1 DUMMY_NODE_VECTOR0 n;`, `EV_ e : 0 [0|1] "u" 0 1 DUMMY_NODE_VECTOR4 n;`,
	`EV_ e : 0 [0|1] "u" 0 1 DUMMY_NODE_VECTOR0;`, `EV_ e : 0 [0|1] "u" 0 1 DUMMY_NODE_VECTOR0 n`, `EV_ e : 0 [0|1] "u" 0 1 DUMMY_NODE_VECTOR0 n,;`,
	`EV_ e : 0 [0|1] "u" 0 1.5 DUMMY_NODE_VECTOR0 n;`, `EV_ e : 0 [0|1] "u" 0x1 1 DUMMY_NODE_VECTOR0 n;`, `EV_ e 0 [0|1] "u" 0 1 DUMMY_NODE_VECTOR0 n;`, `EV_ e : 0 [0 1] "u" 0 1 DUMMY_NODE_VECTOR0 n;`,
	// env var data
	`ENVVAR_DATA_ e : 5;`, `ENVVAR_DATA_ e : 5`, `ENVVAR_DATA_ e 5;`, `ENVVAR_DATA_ e : -5;`, `ENVVAR_DATA_ 5 : 5;`, `ENVVAR_DATA_ e : 4294967296;`,
	// signal types and references
	`SGTYPE_ t : 8@1+ (1,0) [0|1] "u" 0 , vt;`, `SGTYPE_ t : 8@0 - (1.5,-2) [-1|1e2] "" -0.5 , vt;`, `SGTYPE_ t : 8@1+ (1,0) [0|1] "u" 0 vt;`, `SGTYPE_ t : 8@1+ (1,0) [0|1] "u" 0 , vt`,
	`SGTYPE_ t : 8@3+ (1,0) [0|1] "u" 0 , vt;`, `SGTYPE_ t : 8@1 (1,0) [0|1] "u" 0 , vt;`, `SGTYPE_ t : 8@1+ (1,0) [0|1] "u" , vt;`, `SGTYPE_ t : 8@1+ (1,0) [0|1] "u" 0 , 5;`,
	`SGTYPE_ 1 s : t;`, `SGTYPE_ 1 s : t`, `SGTYPE_ 1 s t;`, `SGTYPE_ 1 : t;`, `SGTYPE_ 4294967296 s : t;`, `SGTYPE_ ;`, `SGTYPE_ "x";`, `SGTYPE_ BO_ s : t;`, `SGTYPE_ 1 s : 5;`,
	// comments
	`CM_ "x";`, `CM_ "x"`, `CM_ BU_ n "x";`, `CM_ BO_ 1 "x";`, `CM_ SG_ 1 s "x";`, `CM_ EV_ e "x";`, `CM_ INT "x";`, `CM_ 5 "x";`, `CM_ BU_ "x";`, `CM_ BO_ n "x";`,
	`CM_ SG_ 1 "x";`, `CM_ SG_ s "x";`, `CM_ EV_ "x";`, `CM_ "x" "y";`, `CM_ ;`, `CM_ BU_ n;`, `CM_ "multi` + "\n" + `line";`, `CM_ VERSION "x";`, `CM_ BO_ 4294967296 "x";`,
	// attribute definitions
	`BA_DEF_ "a" INT 0 1;`, `BA_DEF_ "a" INT -9223372036854775808 9223372036854775807;`, `BA_DEF_ "a" INT -9223372036854775809 0;`, `BA_DEF_ "a" INT 0 9223372036854775808;`,
	`BA_DEF_ "a" INT +5 -0;`, `BA_DEF_ "a" INT 1.5 2;`, `BA_DEF_ "a" INT 1e5 2;`, `BA_DEF_ "a" INT 0x1 2;`, `BA_DEF_ "a" INT 0;`, `BA_DEF_ "a" INT 0 1`,
	`BA_DEF_ BU_ "a" INT 0 1;`, `BA_DEF_ BO_ "a" HEX 0 255;`, `BA_DEF_ SG_ "a" HEX 0x0 0xFF;`, `BA_DEF_ EV_ "a" HEX 0X0 0XfF;`, `BA_DEF_ "a" HEX 0x0 255;`, `BA_DEF_ "a" HEX 0 0xFF;`,
	`BA_DEF_ "a" HEX 0 4294967296;`, `BA_DEF_ "a" HEX 0x0 0x100000000;`, `BA_DEF_ "a" HEX 0x0 0xffffffff;`, `BA_DEF_ "a" HEX -1 5;`, `BA_DEF_ "a" HEX 0x 5;`, `BA_DEF_ "a" HEX 0xg 5;`,
	`BA_DEF_ "a" FLOAT 0 1;`, `BA_DEF_ "a" FLOAT -1.5 1e10;`, `BA_DEF_ "a" FLOAT 0x1 1;`, `BA_DEF_ "a" FLOAT 1e400 1;`, `BA_DEF_ "a" FLOAT 0;`, `BA_DEF_ "a" STRING;`, `BA_DEF_ "a" STRING "x";`,
	`BA_DEF_ "a" ENUM "a","b";`, `BA_DEF_ "a" ENUM "a";`, `BA_DEF_ "a" ENUM;`, `BA_DEF_ "a" ENUM "a",;`, `BA_DEF_ "a" ENUM "a" "b";`, `BA_DEF_ "a" ENUM "a", "b" ,"c"`, `BA_DEF_ "a" ENUM ,"a";`,
	`BA_DEF_ "a b" INT 0 1;`, `BA_DEF_ "a` + "\t" + `b" INT 0 1;`, `BA_DEF_ "a` + "\n" + `b" INT 0 1;`, `BA_DEF_ "" INT 0 1;`, `BA_DEF_ a INT 0 1;`, `BA_DEF_ "a" a;`, `BA_DEF_ "a" BO_;`,
	`BA_DEF_ INT "a" INT 0 1;`, `BA_DEF_ 5 "a" INT 0 1;`, `BA_DEF_ BU_ INT 0 1;`, `BA_DEF_ "a" VERSION;`,
	// attribute defaults
	`BA_DEF_DEF_ "a" 5;`, `BA_DEF_DEF_ "a" -5;`, `BA_DEF_DEF_ "a" 5.5;`, `BA_DEF_DEF_ "a" "s";`, `BA_DEF_DEF_ "a" 0x1F;`, `BA_DEF_DEF_ "a" 0X1f;`, `BA_DEF_DEF_ "a" 0x100000000;`,
	`BA_DEF_DEF_ "a" 9223372036854775807;`, `BA_DEF_DEF_ "a" 9223372036854775808;`, `BA_DEF_DEF_ "a" -9223372036854775808;`, `BA_DEF_DEF_ "a" -9223372036854775809;`,
	`BA_DEF_DEF_ "a" 1e5;`, `BA_DEF_DEF_ "a" 1e400;`, `BA_DEF_DEF_ "a" 1.5e400;`, `BA_DEF_DEF_ "a" 1..5;`, `BA_DEF_DEF_ "a" +5;`, `BA_DEF_DEF_ "a" -0;`, `BA_DEF_DEF_ "a" 5.;`, `BA_DEF_DEF_ "a" 007;`,
	`BA_DEF_DEF_ "a" 012x5;`, `BA_DEF_DEF_ "a" 0.5x1;`, `BA_DEF_DEF_ "a" 5`, `BA_DEF_DEF_ "a" ;`, `BA_DEF_DEF_ "a b" 5;`, `BA_DEF_DEF_ a 5;`, `BA_DEF_DEF_ "a" a;`, `BA_DEF_DEF_ "a" 1-2;`,
	// attribute values
	`BA_ "a" 5;`, `BA_ "a" "s";`, `BA_ "a" 5.5;`, `BA_ "a" 0x1F;`, `BA_ "a" BU_ n 5;`, `BA_ "a" BO_ 1 5;`, `BA_ "a" SG_ 1 s 5;`, `BA_ "a" EV_ e 5;`, `BA_ "a b" 1;`,
	`BA_ "a" BU_ n "s";`, `BA_ "a" BO_ 1 -5.5;`, `BA_ "a" SG_ 1 s 0x0;`, `BA_ "a" EV_ e 99999999999999999999;`, `BA_ "a" INT 5;`, `BA_ "a" a 5;`, `BA_ "a" BU_ 5;`,
	`BA_ "a" BO_ n 5;`, `BA_ "a" SG_ 1 5;`, `BA_ "a" 5`, `BA_ "a";`, `BA_ a 5;`, `BA_ "a" BO_ 1;`, `BA_ "a" BU_ n a;`, `BA_ "a" 1e5;`, `BA_ "a" 1e400;`, `BA_ "a" -9223372036854775809;`,
	// value encodings
	`VAL_ 1 s 0 "a" ;`, `VAL_ 1 s 0 "a" 1 "b";`, `VAL_ e 0 "a";`, `VAL_ 1 s;`, `VAL_ e;`, `VAL_ 1;`, `VAL_ ;`, `VAL_ "x";`, `VAL_ 1 s 0;`, `VAL_ e 0 "a"`, `VAL_ 1 5 0 "a";`, `VAL_ e s 0 "a";`,
	// signal groups
	`SIG_GROUP_ 1 g 1 : a b;`, `SIG_GROUP_ 1 g 1 : ;`, `SIG_GROUP_ 1 g 1 : a,b;`, `SIG_GROUP_ 1 g : a;`, `SIG_GROUP_ 1 1 1 : a;`, `SIG_GROUP_ g 1 1 : a;`, `SIG_GROUP_ 1 g 1 a;`, `SIG_GROUP_ 1 g 1 : a`,
	`SIG_GROUP_ 1 g 4294967296 : a;`,
	// signal value types
	`SIG_VALTYPE_ 1 s 0;`, `SIG_VALTYPE_ 1 s 1;`, `SIG_VALTYPE_ 1 s 2;`, `SIG_VALTYPE_ 1 s 3;`, `SIG_VALTYPE_ 1 s : 1;`, `SIG_VALTYPE_ 1 s 1`, `SIG_VALTYPE_ 1 1;`, `SIG_VALTYPE_ s 1;`, `SIG_VALTYPE_ 1 s 01;`,
	// extended multiplexing
	`SG_MUL_VAL_ 1 a b 0-1;`, `SG_MUL_VAL_ 1 a b 0-1, 2-3;`, `SG_MUL_VAL_ 1 a b 0-1,2-3 , 4294967295-0;`, `SG_MUL_VAL_ 1 a b;`, `SG_MUL_VAL_ 1 a b 0-1 2-3;`, `SG_MUL_VAL_ 1 a b 0-4294967296;`,
	`SG_MUL_VAL_ 1 a b 4294967296-0;`, `SG_MUL_VAL_ 1 a b 0-1,;`, `SG_MUL_VAL_ 1 a b 0-1`, `SG_MUL_VAL_ 1 a 0-1;`, `SG_MUL_VAL_ 1 a b 5;`, `SG_MUL_VAL_ 1 a b 0 - 1;`, `SG_MUL_VAL_ 1 a b 1-2-3;`,
	`SG_MUL_VAL_ 1 a b 0-1e5;`, `SG_MUL_VAL_ 1 a b 01-02;`, `SG_MUL_VAL_ 1 a-1 b-2 0-1;`,
	// non-ASCII digits (unicode.IsDigit in the scanner, rejected by strconv)
	`BU_: a٣ b`, `BO_ ١ m: 8 n`, `VAL_TABLE_ vt ٣ "a";`, `BO_ 1 m: 8 n SG_ s m٣ : 0|8@1+ (1,0) [0|255] "u" r`, `BA_DEF_DEF_ "a" ٣;`, `BO_ 1 m: 8 n SG_ s : 0|8@1+ (٣,0) [0|255] "u" r`,
	// top level
	`INT`, `INT HEX FLOAT STRING ENUM SG_ BU_: a`, `a`, `5`, `"s"`, `;`, `M`, `m1`, `1-2`, `$`, `BU_: a $`, `BU_: a ` + "\x00" + ` BO_ 1 m: 8 n`, `INT 5`,
	`VERSION "1" NS_ : CM_ BS_: BU_: a b BO_ 1 m: 8 a SG_ s : 0|8@1+ (1,0) [0|255] "u" b CM_ "c"; BA_DEF_ "x" INT 0 1; BA_DEF_DEF_ "x" 0; BA_ "x" 1; VAL_ 1 s 0 "z";`,
}

const dbcTruncText = `VERSION "1"
NS_ :
	CM_
	BA_
BS_: 500 : 1, 2
BU_: a b
VAL_TABLE_ vt 0 "z" 1 "o";
BO_ 1 m: 8 a
 SG_ s m3M : 0|8@1+ (1,-2.5) [0|255] "u" a, b
 SG_ t : 8|4@0- (0.5,0) [-1|1] "" b
BO_TX_BU_ 1 : a b;
EV_ e : 1 [0|1.5] "u" 0.5 7 DUMMY_NODE_VECTOR1 a, b;
ENVVAR_DATA_ e : 4;
SGTYPE_ st : 8@1 + (1,0) [0|1] "u" 0 , vt;
CM_ "g";
CM_ SG_ 1 s "c";
BA_DEF_ BO_ "i" INT -5 5;
BA_DEF_ "h" HEX 0 255;
BA_DEF_ "f" FLOAT 0.5 1e3;
BA_DEF_ "s" STRING;
BA_DEF_ SG_ "n" ENUM "x", "y";
BA_DEF_DEF_ "i" -3;
BA_DEF_DEF_ "f" 1.5;
BA_DEF_DEF_ "s" "d";
BA_ "i" BO_ 1 4;
BA_ "n" SG_ 1 s 1;
BA_ "f" 2.5;
VAL_ 1 s 0 "off" 1 "on";
VAL_ e 0 "zero";
SGTYPE_ 1 s : st;
SIG_GROUP_ 1 g 2 : s t;
SIG_VALTYPE_ 1 t 2;
SG_MUL_VAL_ 1 t s 0-3, 5-5;
`

func (dbcStream) Exhaustive(tier string) [][]string {
	var res [][]string
	// snippets, both hex modes, alone and embedded behind a minimal header
	var sc []string
	for _, s := range dbcSnippets {
		sc = append(sc, dbcParseLine(s, false), dbcParseLine(s, true))
		if len(sc) >= 60 {
			res = append(res, sc)
			sc = nil
		}
	}
	if len(sc) > 0 {
		res = append(res, sc)
	}
	sc = nil
	for _, s := range dbcSnippets {
		sc = append(sc, dbcParseLine("VERSION \"\"\nNS_ :\nBS_:\nBU_: n\n"+s+"\nCM_ \"end\";\n", false))
		if len(sc) >= 60 {
			res = append(res, sc)
			sc = nil
		}
	}
	if len(sc) > 0 {
		res = append(res, sc)
	}
	// truncation of a small file at every token
	toks := dbcScanAll(dbcTruncText)
	sc = nil
	for k := 0; k <= len(toks); k++ {
		sc = append(sc, dbcParseLine(dbcRender(toks[:k], nil), false))
		if len(sc) >= 60 {
			res = append(res, sc)
			sc = nil
		}
	}
	if len(sc) > 0 {
		res = append(res, sc)
	}
	if tier == "thorough" {
		// truncation at every character
		sc = nil
		rs := []rune(dbcTruncText)
		for k := 0; k <= len(rs); k++ {
			sc = append(sc, dbcParseLine(string(rs[:k]), k%2 == 0))
			if len(sc) >= 60 {
				res = append(res, sc)
				sc = nil
			}
		}
		if len(sc) > 0 {
			res = append(res, sc)
		}
	}
	return append(res, dbcScanExhaustive(tier)...)
}
