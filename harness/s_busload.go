package main

import (
	"errors"
	"math"
	"math/big"
	"math/rand"
	"sort"
	"strings"

	"github.com/squadracorsepolito/acmelib"
)

// stream busload — C17: CalculateBusLoad against Acme.Core.BusLoad (exact rationals).
//
//	busload baud defCycle N (size cycle)*N
//
// A size written as 1000+s means: the message has s bytes, carries a signal in its last byte
// and a shrink by one byte was attempted (and must have been refused) before the load is
// computed — a refused edit changes nothing (C06), so the model reads it as size s.
//
// Go prints floats, the model prints num/den; Same compares numerically (1e-9 relative).

type busloadStream struct{ baseStream }

func init() { register(busloadStream{}) }

func (busloadStream) Name() string    { return "busload" }
func (busloadStream) Parallel() bool  { return true } // no shared state: cases run on all cores
func (busloadStream) Props() []string { return []string{"C17"} }

func (busloadStream) Gen(r *rand.Rand, tier string, idx int) []string {
	var sc []string
	for i := 0; i < 6; i++ {
		baud := pick(r, 0, 1, 125000, 250000, 500000, 1000000, r.Intn(2000000))
		def := pick(r, -5, -1, 0, 1, 10, 100, 500, 1000, 1+r.Intn(3600000))
		n := r.Intn(13)
		var b strings.Builder
		b.WriteString(sprintf("busload %d %d %d", baud, def, n))
		base := 1 + r.Intn(3600000)
		for j := 0; j < n; j++ {
			size := r.Intn(9)
			if size >= 1 && r.Intn(4) == 0 {
				size += 1000
			}
			cyc := 0
			switch r.Intn(5) {
			case 0:
				cyc = 0
			case 1:
				cyc = base + r.Intn(3) // near-equal rates
			case 2:
				cyc = pick(r, 1, 10, 100, 1000, 3600000)
			default:
				cyc = 1 + r.Intn(3600000)
			}
			b.WriteString(sprintf(" %d %d", size, cyc))
		}
		sc = append(sc, b.String())
	}
	return sc
}

type blEntry struct {
	id       int
	bps, pct float64
}

func parseNum(s string) (float64, bool) {
	if strings.Contains(s, "/") {
		q, ok := new(big.Rat).SetString(s)
		if !ok {
			return 0, false
		}
		f, _ := q.Float64()
		return f, true
	}
	var f float64
	_, err := sscan(s, &f)
	return f, err == nil
}

func parseBL(s string) (load float64, es []blEntry, ok bool) {
	f := fields(s)
	if len(f) < 3 || f[0] != "ok" {
		return 0, nil, false
	}
	load, ok = parseNum(f[1])
	if !ok {
		return
	}
	n := atoi(f[2])
	f = f[3:]
	if len(f) != 3*n {
		return 0, nil, false
	}
	for i := 0; i < n; i++ {
		b, ok1 := parseNum(f[3*i+1])
		p, ok2 := parseNum(f[3*i+2])
		if !ok1 || !ok2 {
			return 0, nil, false
		}
		es = append(es, blEntry{atoi(f[3*i]), b, p})
	}
	return load, es, true
}

func close9(a, b float64) bool {
	if a == b {
		return true
	}
	d := math.Abs(a - b)
	m := math.Max(math.Abs(a), math.Abs(b))
	return d <= 1e-9*m || d < 1e-300
}

func (busloadStream) Same(g, m string) bool {
	if !strings.HasPrefix(g, "ok") || !strings.HasPrefix(m, "ok") {
		return g == m
	}
	lg, eg, ok1 := parseBL(g)
	lm, em, ok2 := parseBL(m)
	if !ok1 || !ok2 || len(eg) != len(em) || !close9(lg, lm) {
		return false
	}
	byID := map[int]blEntry{}
	for _, e := range em {
		byID[e.id] = e
	}
	for i := range eg {
		// position-wise rates and shares agree (ties may be permuted: equal values anyway)
		if !close9(eg[i].bps, em[i].bps) || !close9(eg[i].pct, em[i].pct) {
			return false
		}
		x, ok := byID[eg[i].id]
		if !ok || !close9(x.bps, eg[i].bps) {
			return false
		}
		delete(byID, eg[i].id)
	}
	return len(byID) == 0
}

func (busloadStream) Tag(lines, outs []string) (bool, []string) {
	nt := false
	var tags []string
	for _, o := range outs {
		switch {
		case strings.HasPrefix(o, "err"):
			tags = append(tags, o)
		case strings.HasPrefix(o, "ok"):
			_, es, _ := parseBL(o)
			tags = append(tags, sprintf("ok:n=%d", len(es)))
			if len(es) >= 2 && es[0].bps != es[len(es)-1].bps {
				nt = true
			}
		}
	}
	return nt, tags
}

type busloadExec struct{ fs []Finding }

func (busloadStream) NewExec() Exec        { return &busloadExec{} }
func (e *busloadExec) Findings() []Finding { return e.fs }

func (e *busloadExec) fail(sig, d string) {
	if len(e.fs) < 5 {
		e.fs = append(e.fs, Finding{Prop: "C17", Sig: sig, Detail: d})
	}
}

func (e *busloadExec) Do(line string) string {
	f := fields(line)
	baud, def, n := atoi(f[1]), atoi(f[2]), atoi(f[3])
	bus := acmelib.NewBus("bus")
	bus.SetBaudrate(baud)
	k := 1 + (n % 4)
	var ifs []*acmelib.NodeInterface
	for i := 0; i < k; i++ {
		node := acmelib.NewNode(sprintf("n%d", i), acmelib.NodeID(i), 1)
		ni := node.Interfaces()[0]
		if err := bus.AddNodeInterface(ni); err != nil {
			panic(err)
		}
		ifs = append(ifs, ni)
	}
	ids := map[*acmelib.Message]int{}
	var lates []func()
	type spec struct{ size, cyc int }
	var specs []spec
	for j := 0; j < n; j++ {
		size, cyc := atoi(f[4+2*j]), atoi(f[5+2*j])
		refused := size >= 1000
		size %= 1000
		// every other message starts with another size and cycle time and gets the final ones only
		// after the load has been asked for once (see `observe` below): the load is a function of
		// the CURRENT model, not of what it was when somebody first looked
		late := j%2 == 0 && !refused
		m := acmelib.NewMessage(sprintf("m%d", j), acmelib.MessageID(j), size)
		m.SetCycleTime(cyc)
		if late {
			m = acmelib.NewMessage(sprintf("m%d", j), acmelib.MessageID(j), (size+3)%9)
			m.SetCycleTime(cyc + 7)
			lates = append(lates, func() {
				if err := m.UpdateSizeByte(size); err != nil {
					panic(err)
				}
				m.SetCycleTime(cyc)
			})
		}
		if refused {
			t, err := acmelib.NewIntegerSignalType("t8", 8, false)
			if err != nil {
				panic(err)
			}
			sg, err := acmelib.NewStandardSignal("s", t)
			if err != nil {
				panic(err)
			}
			if err := m.InsertSignal(sg, (size-1)*8); err != nil {
				panic(err)
			}
			if err := m.UpdateSizeByte(size - 1); err == nil {
				e.fail("resize-not-refused", line)
			}
		}
		if err := ifs[j%k].AddSentMessage(m); err != nil {
			panic(err)
		}
		ids[m] = j
		specs = append(specs, spec{size, cyc})
	}
	// observe, then edit: the bus is looked at (load, listings, texts) while it still has another
	// baud rate, late messages with other sizes / cycle times and a further interface that sends two
	// messages; then the baud rate and the late messages get the values of the line and the further
	// interface stops sending (RemoveAllSentMessages) — or, for a line without messages, every
	// interface is taken off the bus (RemoveAllNodeInterfaces).  The first answers are thrown away.
	{
		gn := acmelib.NewNode("ghost2", acmelib.NodeID(78), 1)
		gi := gn.Interfaces()[0]
		ga := acmelib.NewMessage("ghost2_a", acmelib.MessageID(904), 8)
		ga.SetCycleTime(1)
		gb := acmelib.NewMessage("ghost2_b", acmelib.MessageID(905), 3)
		attached := gi.AddSentMessage(ga) == nil && gi.AddSentMessage(gb) == nil && bus.AddNodeInterface(gi) == nil
		other := 123456
		if baud == other {
			other = 500000
		}
		bus.SetBaudrate(other)
		observe := func() {
			_, _, _ = acmelib.CalculateBusLoad(bus, 1+len(lates))
			for _, ni := range bus.NodeInterfaces() {
				_ = ni.SentMessages()
				_ = ni.String()
			}
			_ = bus.String()
		}
		observe()
		for _, f := range lates {
			f()
		}
		bus.SetBaudrate(baud)
		if attached {
			gi.RemoveAllSentMessages()
		}
		if n == 0 {
			observe()
			bus.RemoveAllNodeInterfaces()
		}
	}
	// messages that were sent once and are NOT sent any more must not be billed: a message with a
	// static CAN-ID and a plain one are added to an interface and removed again before the load is
	// computed (the line, and therefore the model, does not know them)
	if n%2 == 1 {
		g := acmelib.NewMessage("ghost_static", acmelib.MessageID(900), 8)
		g.SetCycleTime(1)
		if err := g.SetStaticCANID(acmelib.CANID(0x7f0)); err == nil {
			if err := ifs[0].AddSentMessage(g); err == nil {
				if err := ifs[0].RemoveSentMessage(g.EntityID()); err != nil {
					e.fail("ghost-remove-refused", line)
				}
			}
		}
	}
	if n%3 == 0 {
		g := acmelib.NewMessage("ghost_plain", acmelib.MessageID(901), 8)
		g.SetCycleTime(1)
		if err := ifs[len(ifs)-1].AddSentMessage(g); err == nil {
			if err := ifs[len(ifs)-1].RemoveSentMessage(g.EntityID()); err != nil {
				e.fail("ghost-remove-refused", line)
			}
		}
	}
	// an interface the bus REFUSED is not on the bus: its messages are not sent there and must not
	// be billed (one of them is too large for the bus; the other one has a static CAN-ID, so that a
	// refusal that comes late has something to take back)
	if n%2 == 0 {
		gn := acmelib.NewNode("ghostnode", acmelib.NodeID(77), 1)
		gi := gn.Interfaces()[0]
		g1 := acmelib.NewMessage("ghost_if_static", acmelib.MessageID(902), 8)
		g1.SetCycleTime(1)
		g2 := acmelib.NewMessage("ghost_if_big", acmelib.MessageID(903), 9)
		g2.SetCycleTime(1)
		if g1.SetStaticCANID(acmelib.CANID(0x7f1)) == nil && gi.AddSentMessage(g1) == nil && gi.AddSentMessage(g2) == nil {
			if err := bus.AddNodeInterface(gi); err == nil {
				// accepted after all (not this property's business): it is on the bus, take it off again
				if err := bus.RemoveNodeInterface(gn.EntityID()); err != nil {
					e.fail("ghost-remove-refused", line)
				}
			}
		}
	}
	load, mls, err := acmelib.CalculateBusLoad(bus, def)
	if err != nil {
		if def > 0 {
			e.fail("positive-default-refused", line)
		}
		switch {
		case errors.Is(err, acmelib.ErrIsNegative):
			return "err negative"
		case errors.Is(err, acmelib.ErrIsZero):
			return "err zero"
		}
		return "err other"
	}
	if def <= 0 {
		e.fail("nonpositive-default-accepted", line)
	}
	// the property's own arithmetic (float64, independent of the model)
	if baud == 0 {
		if load != 0 {
			e.fail("zero-baud-nonzero-load", line)
		}
	} else {
		// sizes and cycle times as the model reports them through its getters
		tot := 0.0
		for _, ni := range ifs {
			for _, m := range ni.SentMessages() {
				c := m.CycleTime()
				if c == 0 {
					c = def
				}
				bits := 8*m.SizeByte() + 19 + 25 + (34+8*m.SizeByte()-1)/4
				tot += float64(bits) / float64(c) * 1000
			}
		}
		for j, sp := range specs {
			for m, id := range ids {
				if id == j && (m.SizeByte() != sp.size || m.CycleTime() != sp.cyc) {
					e.fail("message-fields-changed", sprintf("%s: message %d reports size %d cycle %d", line, j, m.SizeByte(), m.CycleTime()))
				}
			}
		}
		if !close9(load, tot/float64(baud)*100) {
			e.fail("load-vs-sum", sprintf("%s: load %g want %g", line, load, tot/float64(baud)*100))
		}
		seen := map[int]bool{}
		sum := 0.0
		for i, ml := range mls {
			id := ids[ml.Message]
			if seen[id] {
				e.fail("message-twice", line)
			}
			seen[id] = true
			sum += ml.Percentage
			if i > 0 && mls[i-1].BitsPerSec < ml.BitsPerSec {
				e.fail("not-ordered", sprintf("%s: entry %d rate %g after %g", line, i, ml.BitsPerSec, mls[i-1].BitsPerSec))
			}
			if !close9(ml.Percentage, ml.BitsPerSec/tot*100) {
				e.fail("share-vs-total", line)
			}
		}
		if len(mls) != n {
			e.fail("message-count", line)
		}
		if n > 0 && math.Abs(sum-100) > 1e-6 {
			e.fail("shares-sum", sprintf("%s: %g", line, sum))
		}
	}
	var b strings.Builder
	b.WriteString(sprintf("ok %v %d", load, len(mls)))
	for _, ml := range mls {
		b.WriteString(sprintf(" %d %v %v", ids[ml.Message], ml.BitsPerSec, ml.Percentage))
	}
	_ = sort.Ints
	return b.String()
}
