package main

// JSON mirror of dbc.File used by the stream "dbc" (see s_dbc.go): the Go field names of
// ast.go, enums as numbers, float64 fields as strconv.FormatFloat(x,'f',-1,64) text,
// NewSymbols/Nodes as null-or-array, BitTiming as null-or-object.

import (
	"bytes"
	"encoding/json"
	"reflect"
	"strconv"
	"strings"

	"github.com/squadracorsepolito/acmelib/dbc"
)

type jBitTiming struct{ Baudrate, BitTimingReg1, BitTimingReg2 uint32 }

type jValueDescription struct {
	ID   uint32
	Name string
}

type jValueTable struct {
	Name   string
	Values []jValueDescription
}

type jSignal struct {
	Name                          string
	IsMultiplexor, IsMultiplexed  bool
	MuxSwitchValue, Size          uint32
	StartBit                      uint32
	ByteOrder, ValueType          uint
	Factor, Offset, Min, Max      string
	Unit                          string
	Receivers                     []string
}

type jMessage struct {
	ID          uint32
	Name        string
	Size        uint32
	Transmitter string
	Signals     []jSignal
}

type jMessageTransmitter struct {
	MessageID    uint32
	Transmitters []string
}

type jEnvVar struct {
	Name         string
	Type         uint
	Min, Max     string
	Unit         string
	InitialValue string
	ID           uint32
	AccessType   uint
	AccessNodes  []string
}

type jEnvVarData struct {
	EnvVarName string
	DataSize   uint32
}

type jSignalType struct {
	TypeName                 string
	Size                     uint32
	ByteOrder, ValueType     uint
	Factor, Offset, Min, Max string
	Unit                     string
	DefaultValue             string
	ValueTableName           string
}

type jComment struct {
	Kind       uint
	Text       string
	NodeName   string
	MessageID  uint32
	SignalName string
	EnvVarName string
}

type jAttribute struct {
	Kind, Type         uint
	Name               string
	MinInt, MaxInt     int64
	MinHex, MaxHex     uint32
	MinFloat, MaxFloat string
	EnumValues         []string
}

type jAttributeDefault struct {
	Type          uint
	AttributeName string
	ValueString   string
	ValueInt      int64
	ValueHex      uint32
	ValueFloat    string
}

type jAttributeValue struct {
	AttributeKind uint
	Type          uint
	AttributeName string
	NodeName      string
	MessageID     uint32
	SignalName    string
	EnvVarName    string
	ValueString   string
	ValueInt      int64
	ValueHex      uint32
	ValueFloat    string
}

type jValueEncoding struct {
	Kind       uint
	MessageID  uint32
	SignalName string
	EnvVarName string
	Values     []jValueDescription
}

type jSignalTypeRef struct {
	TypeName   string
	MessageID  uint32
	SignalName string
}

type jSignalGroup struct {
	MessageID   uint32
	GroupName   string
	Repetitions uint32
	SignalNames []string
}

type jSignalExtValueType struct {
	MessageID    uint32
	SignalName   string
	ExtValueType uint
}

type jExtendedMuxRange struct{ From, To uint32 }

type jExtendedMux struct {
	MessageID       uint32
	MultiplexorName string
	MultiplexedName string
	Ranges          []jExtendedMuxRange
}

type jFile struct {
	Version             string
	NewSymbols          *[]string
	BitTiming           *jBitTiming
	Nodes               *[]string
	ValueTables         []jValueTable
	Messages            []jMessage
	MessageTransmitters []jMessageTransmitter
	EnvVars             []jEnvVar
	EnvVarDatas         []jEnvVarData
	SignalTypes         []jSignalType
	Comments            []jComment
	Attributes          []jAttribute
	AttributeDefaults   []jAttributeDefault
	AttributeValues     []jAttributeValue
	ValueEncodings      []jValueEncoding
	SignalTypeRefs      []jSignalTypeRef
	SignalGroups        []jSignalGroup
	SignalExtValueTypes []jSignalExtValueType
	ExtendedMuxes       []jExtendedMux
}

// dbcFloatFields are the names of the float-as-text fields.
var dbcFloatFields = map[string]bool{
	"Factor": true, "Offset": true, "Min": true, "Max": true, "InitialValue": true,
	"DefaultValue": true, "MinFloat": true, "MaxFloat": true, "ValueFloat": true,
}

// dbcSections lists the fields of jFile in file order.
var dbcSections = []string{"Version", "NewSymbols", "BitTiming", "Nodes", "ValueTables", "Messages",
	"MessageTransmitters", "EnvVars", "EnvVarDatas", "SignalTypes", "Comments", "Attributes",
	"AttributeDefaults", "AttributeValues", "ValueEncodings", "SignalTypeRefs", "SignalGroups",
	"SignalExtValueTypes", "ExtendedMuxes"}

func floatText(x float64) string { return strconv.FormatFloat(x, 'f', -1, 64) }

func textFloat(s string) float64 {
	x, err := strconv.ParseFloat(s, 64)
	if err != nil {
		panic("bad float text " + s)
	}
	return x
}

// canonFloatText maps a number text to the FormatFloat text of its float64 value.
func canonFloatText(s string) string {
	x, err := strconv.ParseFloat(s, 64)
	if err != nil {
		return "!" + s
	}
	return floatText(x)
}

func cpStrs(xs []string) []string { return append([]string{}, xs...) }

func toJVDs(xs []*dbc.ValueDescription) []jValueDescription {
	res := []jValueDescription{}
	for _, v := range xs {
		res = append(res, jValueDescription{v.ID, v.Name})
	}
	return res
}

func fromJVDs(xs []jValueDescription) []*dbc.ValueDescription {
	var res []*dbc.ValueDescription
	for _, v := range xs {
		res = append(res, &dbc.ValueDescription{ID: v.ID, Name: v.Name})
	}
	return res
}

// toJ converts an AST to its JSON mirror (all slices non-nil).
func toJ(f *dbc.File) *jFile {
	j := &jFile{Version: f.Version}
	if f.NewSymbols != nil {
		s := cpStrs(f.NewSymbols.Symbols)
		j.NewSymbols = &s
	}
	if f.BitTiming != nil {
		j.BitTiming = &jBitTiming{f.BitTiming.Baudrate, f.BitTiming.BitTimingReg1, f.BitTiming.BitTimingReg2}
	}
	if f.Nodes != nil {
		s := cpStrs(f.Nodes.Names)
		j.Nodes = &s
	}
	j.ValueTables = []jValueTable{}
	for _, v := range f.ValueTables {
		j.ValueTables = append(j.ValueTables, jValueTable{v.Name, toJVDs(v.Values)})
	}
	j.Messages = []jMessage{}
	for _, m := range f.Messages {
		jm := jMessage{ID: m.ID, Name: m.Name, Size: m.Size, Transmitter: m.Transmitter, Signals: []jSignal{}}
		for _, s := range m.Signals {
			jm.Signals = append(jm.Signals, jSignal{Name: s.Name, IsMultiplexor: s.IsMultiplexor, IsMultiplexed: s.IsMultiplexed,
				MuxSwitchValue: s.MuxSwitchValue, Size: s.Size, StartBit: s.StartBit, ByteOrder: uint(s.ByteOrder),
				ValueType: uint(s.ValueType), Factor: floatText(s.Factor), Offset: floatText(s.Offset), Min: floatText(s.Min),
				Max: floatText(s.Max), Unit: s.Unit, Receivers: cpStrs(s.Receivers)})
		}
		j.Messages = append(j.Messages, jm)
	}
	j.MessageTransmitters = []jMessageTransmitter{}
	for _, m := range f.MessageTransmitters {
		j.MessageTransmitters = append(j.MessageTransmitters, jMessageTransmitter{m.MessageID, cpStrs(m.Transmitters)})
	}
	j.EnvVars = []jEnvVar{}
	for _, e := range f.EnvVars {
		j.EnvVars = append(j.EnvVars, jEnvVar{Name: e.Name, Type: uint(e.Type), Min: floatText(e.Min), Max: floatText(e.Max),
			Unit: e.Unit, InitialValue: floatText(e.InitialValue), ID: e.ID, AccessType: uint(e.AccessType), AccessNodes: cpStrs(e.AccessNodes)})
	}
	j.EnvVarDatas = []jEnvVarData{}
	for _, e := range f.EnvVarDatas {
		j.EnvVarDatas = append(j.EnvVarDatas, jEnvVarData{e.EnvVarName, e.DataSize})
	}
	j.SignalTypes = []jSignalType{}
	for _, s := range f.SignalTypes {
		j.SignalTypes = append(j.SignalTypes, jSignalType{TypeName: s.TypeName, Size: s.Size, ByteOrder: uint(s.ByteOrder),
			ValueType: uint(s.ValueType), Factor: floatText(s.Factor), Offset: floatText(s.Offset), Min: floatText(s.Min),
			Max: floatText(s.Max), Unit: s.Unit, DefaultValue: floatText(s.DefaultValue), ValueTableName: s.ValueTableName})
	}
	j.Comments = []jComment{}
	for _, c := range f.Comments {
		j.Comments = append(j.Comments, jComment{uint(c.Kind), c.Text, c.NodeName, c.MessageID, c.SignalName, c.EnvVarName})
	}
	j.Attributes = []jAttribute{}
	for _, a := range f.Attributes {
		j.Attributes = append(j.Attributes, jAttribute{Kind: uint(a.Kind), Type: uint(a.Type), Name: a.Name, MinInt: int64(a.MinInt),
			MaxInt: int64(a.MaxInt), MinHex: a.MinHex, MaxHex: a.MaxHex, MinFloat: floatText(a.MinFloat), MaxFloat: floatText(a.MaxFloat),
			EnumValues: cpStrs(a.EnumValues)})
	}
	j.AttributeDefaults = []jAttributeDefault{}
	for _, a := range f.AttributeDefaults {
		j.AttributeDefaults = append(j.AttributeDefaults, jAttributeDefault{uint(a.Type), a.AttributeName, a.ValueString,
			int64(a.ValueInt), a.ValueHex, floatText(a.ValueFloat)})
	}
	j.AttributeValues = []jAttributeValue{}
	for _, a := range f.AttributeValues {
		j.AttributeValues = append(j.AttributeValues, jAttributeValue{uint(a.AttributeKind), uint(a.Type), a.AttributeName, a.NodeName,
			a.MessageID, a.SignalName, a.EnvVarName, a.ValueString, int64(a.ValueInt), a.ValueHex, floatText(a.ValueFloat)})
	}
	j.ValueEncodings = []jValueEncoding{}
	for _, v := range f.ValueEncodings {
		j.ValueEncodings = append(j.ValueEncodings, jValueEncoding{uint(v.Kind), v.MessageID, v.SignalName, v.EnvVarName, toJVDs(v.Values)})
	}
	j.SignalTypeRefs = []jSignalTypeRef{}
	for _, s := range f.SignalTypeRefs {
		j.SignalTypeRefs = append(j.SignalTypeRefs, jSignalTypeRef{s.TypeName, s.MessageID, s.SignalName})
	}
	j.SignalGroups = []jSignalGroup{}
	for _, s := range f.SignalGroups {
		j.SignalGroups = append(j.SignalGroups, jSignalGroup{s.MessageID, s.GroupName, s.Repetitions, cpStrs(s.SignalNames)})
	}
	j.SignalExtValueTypes = []jSignalExtValueType{}
	for _, s := range f.SignalExtValueTypes {
		j.SignalExtValueTypes = append(j.SignalExtValueTypes, jSignalExtValueType{s.MessageID, s.SignalName, uint(s.ExtValueType)})
	}
	j.ExtendedMuxes = []jExtendedMux{}
	for _, m := range f.ExtendedMuxes {
		jm := jExtendedMux{m.MessageID, m.MultiplexorName, m.MultiplexedName, []jExtendedMuxRange{}}
		for _, r := range m.Ranges {
			jm.Ranges = append(jm.Ranges, jExtendedMuxRange{r.From, r.To})
		}
		j.ExtendedMuxes = append(j.ExtendedMuxes, jm)
	}
	return j
}

// fromJ builds the AST of a JSON mirror.
func fromJ(j *jFile) *dbc.File {
	f := &dbc.File{Version: j.Version}
	if j.NewSymbols != nil {
		f.NewSymbols = &dbc.NewSymbols{Symbols: cpStrs(*j.NewSymbols)}
	}
	if j.BitTiming != nil {
		f.BitTiming = &dbc.BitTiming{Baudrate: j.BitTiming.Baudrate, BitTimingReg1: j.BitTiming.BitTimingReg1, BitTimingReg2: j.BitTiming.BitTimingReg2}
	}
	if j.Nodes != nil {
		f.Nodes = &dbc.Nodes{Names: cpStrs(*j.Nodes)}
	}
	for _, v := range j.ValueTables {
		f.ValueTables = append(f.ValueTables, &dbc.ValueTable{Name: v.Name, Values: fromJVDs(v.Values)})
	}
	for _, m := range j.Messages {
		dm := &dbc.Message{ID: m.ID, Name: m.Name, Size: m.Size, Transmitter: m.Transmitter}
		for _, s := range m.Signals {
			dm.Signals = append(dm.Signals, &dbc.Signal{Name: s.Name, IsMultiplexor: s.IsMultiplexor, IsMultiplexed: s.IsMultiplexed,
				MuxSwitchValue: s.MuxSwitchValue, Size: s.Size, StartBit: s.StartBit, ByteOrder: dbc.SignalByteOrder(s.ByteOrder),
				ValueType: dbc.SignalValueType(s.ValueType), Factor: textFloat(s.Factor), Offset: textFloat(s.Offset),
				Min: textFloat(s.Min), Max: textFloat(s.Max), Unit: s.Unit, Receivers: cpStrs(s.Receivers)})
		}
		f.Messages = append(f.Messages, dm)
	}
	for _, m := range j.MessageTransmitters {
		f.MessageTransmitters = append(f.MessageTransmitters, &dbc.MessageTransmitter{MessageID: m.MessageID, Transmitters: cpStrs(m.Transmitters)})
	}
	for _, e := range j.EnvVars {
		f.EnvVars = append(f.EnvVars, &dbc.EnvVar{Name: e.Name, Type: dbc.EnvVarType(e.Type), Min: textFloat(e.Min), Max: textFloat(e.Max),
			Unit: e.Unit, InitialValue: textFloat(e.InitialValue), ID: e.ID, AccessType: dbc.EnvVarAccessType(e.AccessType), AccessNodes: cpStrs(e.AccessNodes)})
	}
	for _, e := range j.EnvVarDatas {
		f.EnvVarDatas = append(f.EnvVarDatas, &dbc.EnvVarData{EnvVarName: e.EnvVarName, DataSize: e.DataSize})
	}
	for _, s := range j.SignalTypes {
		f.SignalTypes = append(f.SignalTypes, &dbc.SignalType{TypeName: s.TypeName, Size: s.Size, ByteOrder: dbc.SignalByteOrder(s.ByteOrder),
			ValueType: dbc.SignalValueType(s.ValueType), Factor: textFloat(s.Factor), Offset: textFloat(s.Offset), Min: textFloat(s.Min),
			Max: textFloat(s.Max), Unit: s.Unit, DefaultValue: textFloat(s.DefaultValue), ValueTableName: s.ValueTableName})
	}
	for _, c := range j.Comments {
		f.Comments = append(f.Comments, &dbc.Comment{Kind: dbc.CommentKind(c.Kind), Text: c.Text, NodeName: c.NodeName,
			MessageID: c.MessageID, SignalName: c.SignalName, EnvVarName: c.EnvVarName})
	}
	for _, a := range j.Attributes {
		f.Attributes = append(f.Attributes, &dbc.Attribute{Kind: dbc.AttributeKind(a.Kind), Type: dbc.AttributeType(a.Type), Name: a.Name,
			MinInt: int(a.MinInt), MaxInt: int(a.MaxInt), MinHex: a.MinHex, MaxHex: a.MaxHex, MinFloat: textFloat(a.MinFloat),
			MaxFloat: textFloat(a.MaxFloat), EnumValues: cpStrs(a.EnumValues)})
	}
	for _, a := range j.AttributeDefaults {
		f.AttributeDefaults = append(f.AttributeDefaults, &dbc.AttributeDefault{Type: dbc.AttributeDefaultType(a.Type), AttributeName: a.AttributeName,
			ValueString: a.ValueString, ValueInt: int(a.ValueInt), ValueHex: a.ValueHex, ValueFloat: textFloat(a.ValueFloat)})
	}
	for _, a := range j.AttributeValues {
		f.AttributeValues = append(f.AttributeValues, &dbc.AttributeValue{AttributeKind: dbc.AttributeKind(a.AttributeKind),
			Type: dbc.AttributeValueType(a.Type), AttributeName: a.AttributeName, NodeName: a.NodeName, MessageID: a.MessageID,
			SignalName: a.SignalName, EnvVarName: a.EnvVarName, ValueString: a.ValueString, ValueInt: int(a.ValueInt),
			ValueHex: a.ValueHex, ValueFloat: textFloat(a.ValueFloat)})
	}
	for _, v := range j.ValueEncodings {
		f.ValueEncodings = append(f.ValueEncodings, &dbc.ValueEncoding{Kind: dbc.ValueEncodingKind(v.Kind), MessageID: v.MessageID,
			SignalName: v.SignalName, EnvVarName: v.EnvVarName, Values: fromJVDs(v.Values)})
	}
	for _, s := range j.SignalTypeRefs {
		f.SignalTypeRefs = append(f.SignalTypeRefs, &dbc.SignalTypeRef{TypeName: s.TypeName, MessageID: s.MessageID, SignalName: s.SignalName})
	}
	for _, s := range j.SignalGroups {
		f.SignalGroups = append(f.SignalGroups, &dbc.SignalGroup{MessageID: s.MessageID, GroupName: s.GroupName, Repetitions: s.Repetitions,
			SignalNames: cpStrs(s.SignalNames)})
	}
	for _, s := range j.SignalExtValueTypes {
		f.SignalExtValueTypes = append(f.SignalExtValueTypes, &dbc.SignalExtValueType{MessageID: s.MessageID, SignalName: s.SignalName,
			ExtValueType: dbc.SignalExtValueTypeType(s.ExtValueType)})
	}
	for _, m := range j.ExtendedMuxes {
		dm := &dbc.ExtendedMux{MessageID: m.MessageID, MultiplexorName: m.MultiplexorName, MultiplexedName: m.MultiplexedName}
		for _, r := range m.Ranges {
			dm.Ranges = append(dm.Ranges, &dbc.ExtendedMuxRange{From: r.From, To: r.To})
		}
		f.ExtendedMuxes = append(f.ExtendedMuxes, dm)
	}
	return f
}

// encJSON is compact JSON without any blank (blanks inside strings become \u0020): the model
// driver splits a line at blanks.
func encJSON(v any) string {
	var b bytes.Buffer
	enc := json.NewEncoder(&b)
	enc.SetEscapeHTML(false)
	if err := enc.Encode(v); err != nil {
		panic(err)
	}
	s := strings.TrimRight(b.String(), "\n")
	return strings.ReplaceAll(s, " ", "\\u0020")
}

// canonJ makes nil slices empty and maps every float text to its canonical text (in place).
func canonJ(j *jFile) { canonValue(reflect.ValueOf(j).Elem(), "") }

func canonValue(v reflect.Value, name string) {
	switch v.Kind() {
	case reflect.Ptr:
		if !v.IsNil() {
			canonValue(v.Elem(), name)
		}
	case reflect.Struct:
		for i := 0; i < v.NumField(); i++ {
			canonValue(v.Field(i), v.Type().Field(i).Name)
		}
	case reflect.Slice:
		if v.IsNil() {
			v.Set(reflect.MakeSlice(v.Type(), 0, 0))
		}
		for i := 0; i < v.Len(); i++ {
			canonValue(v.Index(i), name)
		}
	case reflect.String:
		if dbcFloatFields[name] {
			v.SetString(canonFloatText(v.String()))
		}
	}
}

func decodeJFile(s string) (*jFile, error) {
	j := &jFile{}
	if err := json.Unmarshal([]byte(s), j); err != nil {
		return nil, err
	}
	return j, nil
}
