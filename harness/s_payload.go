package main

import (
	"errors"
	"math/rand"
	"sort"
	"strings"

	"github.com/squadracorsepolito/acmelib"
)

// stream payload — C01, C02 (freshness + decode after histories), C03 (enum width over
// histories), parts of C04/C06: messages with top-level signals, types, enums, values
// against the Lean model Acme.Core.Payload.
//
//	pl type.new T size | pl enum.new E | pl val.new V name idx
//	pl enum.add E V | pl enum.rm E V | pl enum.clear E | pl enum.min E k | pl val.idx V i | pl val.name V n
//	pl sig.std S name T | pl sig.enum S name E | pl sig.mux S name gc gs
//	pl sig.type S T | pl sig.setenum S E | pl sig.name S n
//	pl msg.new M size | pl msg.app M S | pl msg.ins M S st | pl msg.rm M S | pl msg.clear M
//	pl msg.compact M | pl msg.shl M S a | pl msg.shr M S a | pl msg.size M k | pl msg.be M 0|1
//	pl dump M | pl edump E | pl sdump S | pl dec M b0 b1 ...

type payloadStream struct{ baseStream }

func init() { register(payloadStream{}) }

func (payloadStream) Name() string    { return "payload" }
func (payloadStream) Parallel() bool  { return true } // no shared state: cases run on all cores
func (payloadStream) Props() []string { return []string{"C01", "C02", "C03", "C06"} }

func causeOf(err error) string {
	switch {
	case errors.Is(err, acmelib.ErrIsDuplicated):
		return "duplicated"
	case errors.Is(err, acmelib.ErrNotFound):
		return "notFound"
	case errors.Is(err, acmelib.ErrOutOfBounds):
		return "outOfBounds"
	case errors.Is(err, acmelib.ErrNoSpaceLeft):
		return "noSpaceLeft"
	case errors.Is(err, acmelib.ErrIntersect):
		return "intersect"
	case errors.Is(err, acmelib.ErrIsNegative):
		return "negative"
	case errors.Is(err, acmelib.ErrIsZero):
		return "zero"
	case errors.Is(err, acmelib.ErrIsNil):
		return "nil"
	case errors.Is(err, acmelib.ErrTooBig):
		return "tooBig"
	case errors.Is(err, acmelib.ErrTooSmall):
		return "tooSmall"
	case errors.Is(err, acmelib.ErrReceiverIsSender):
		return "receiverIsSender"
	case errors.Is(err, acmelib.ErrInvalidType):
		return "invalidType"
	}
	return "undocumented"
}

func errOut(err error) string {
	if err == nil {
		return "ok"
	}
	return "err " + causeOf(err)
}

type plExec struct {
	types map[int]*acmelib.SignalType
	enums map[int]*acmelib.SignalEnum
	vals  map[int]*acmelib.SignalEnumValue
	sigs  map[int]acmelib.Signal
	msgs  map[int]*acmelib.Message
	sigID map[acmelib.EntityID]int
	valID map[acmelib.EntityID]int
	fs    []Finding
	nline int
	// oracle switches
	props map[string]bool
}

func newPlExec() *plExec {
	return &plExec{
		types: map[int]*acmelib.SignalType{}, enums: map[int]*acmelib.SignalEnum{},
		vals: map[int]*acmelib.SignalEnumValue{}, sigs: map[int]acmelib.Signal{},
		msgs: map[int]*acmelib.Message{}, sigID: map[acmelib.EntityID]int{}, valID: map[acmelib.EntityID]int{},
	}
}

func (payloadStream) NewExec() Exec   { return newPlExec() }
func (e *plExec) Findings() []Finding { return e.fs }
func (e *plExec) fail(prop, sig, d string) {
	if len(e.fs) < 8 {
		e.fs = append(e.fs, Finding{Prop: prop, Sig: sig, Detail: d, Line: e.nline})
	}
}

// ---- snapshots (public getters only) ----

type sigSnap struct {
	id, start, size int
	name            string
	be              bool
}

func (e *plExec) msgSnap(m *acmelib.Message) []sigSnap {
	var res []sigSnap
	for _, s := range m.Signals() {
		res = append(res, sigSnap{e.sigID[s.EntityID()], s.GetRelativeStartPos(), s.GetSize(), s.Name(), s.Endianness() == acmelib.MessageByteOrderBigEndian})
	}
	return res
}

func (e *plExec) worldSnap() string {
	var b strings.Builder
	for _, id := range sortedKeys(e.msgs) {
		m := e.msgs[id]
		b.WriteString(sprintf("M%d:%d:%v:%v;", id, m.SizeByte(), m.ByteOrder(), e.msgSnap(m)))
		for _, f := range m.SignalLayout().Filters() {
			b.WriteString(sprintf("f(%d,%d,%d,%d,%d)", e.sigID[f.Signal().EntityID()], f.ByteIndex(), f.Mask(), f.Length(), f.LeftOffset()))
		}
	}
	for _, id := range sortedKeys(e.enums) {
		en := e.enums[id]
		b.WriteString(sprintf("E%d:%d:%d:%d:", id, en.MinSize(), en.MaxIndex(), en.GetSize()))
		for _, v := range en.Values() {
			b.WriteString(sprintf("(%d,%s,%d)", e.valID[v.EntityID()], v.Name(), v.Index()))
		}
		b.WriteString(sprintf("r%d;", en.ReferenceCount()))
	}
	for _, id := range sortedKeys(e.sigs) {
		s := e.sigs[id]
		pm := "-"
		if s.ParentMessage() != nil {
			pm = string(s.ParentMessage().EntityID())
		}
		b.WriteString(sprintf("S%d:%s:%d:%d:%s;", id, s.Name(), s.GetRelativeStartPos(), s.GetSize(), pm))
	}
	for _, id := range sortedKeys(e.vals) {
		v := e.vals[id]
		b.WriteString(sprintf("V%d:%s:%d:%v;", id, v.Name(), v.Index(), v.ParentEnum() != nil))
	}
	return b.String()
}

func sortedKeys[V any](m map[int]V) []int {
	ks := make([]int, 0, len(m))
	for k := range m {
		ks = append(ks, k)
	}
	sort.Ints(ks)
	return ks
}

// ---- oracles ----

// checkWF: C01 first sentence on the real message.
func (e *plExec) checkWF(where string) {
	for _, id := range sortedKeys(e.msgs) {
		m := e.msgs[id]
		prevEnd := 0
		for _, s := range e.msgSnap(m) {
			if s.size <= 0 {
				e.fail("C01", "nonpositive-size", sprintf("%s: msg %d signal %d size %d", where, id, s.id, s.size))
			}
			if s.start < prevEnd {
				e.fail("C01", "overlap-or-unordered", sprintf("%s: msg %d signal %d starts at %d before %d", where, id, s.id, s.start, prevEnd))
			}
			prevEnd = s.start + s.size
		}
		if prevEnd > m.SizeByte()*8 {
			e.fail("C01", "out-of-payload", sprintf("%s: msg %d last signal ends at %d > %d", where, id, prevEnd, m.SizeByte()*8))
		}
	}
}

// specMask: the bits of byte `byteIdx` the property assigns to a signal (Intel numbering
// for little-endian, sequential most-significant-first positions for big-endian).
func specMask(start, size, byteIdx int, be bool) uint8 {
	var m uint8
	for p := start; p < start+size; p++ {
		if p/8 != byteIdx {
			continue
		}
		if be {
			m |= 1 << uint(7-p%8)
		} else {
			m |= 1 << uint(p%8)
		}
	}
	return m
}

// checkFilters: C02 third sentence — the published masks describe the current layout.
func (e *plExec) checkFilters(where string) {
	for _, id := range sortedKeys(e.msgs) {
		m := e.msgs[id]
		want := map[[2]int]uint8{}
		for _, s := range e.msgSnap(m) {
			for b := s.start / 8; b <= (s.start+s.size-1)/8; b++ {
				want[[2]int{s.id, b}] = specMask(s.start, s.size, b, s.be)
			}
		}
		got := map[[2]int]uint8{}
		for _, f := range m.SignalLayout().Filters() {
			got[[2]int{e.sigID[f.Signal().EntityID()], f.ByteIndex()}] |= f.Mask()
		}
		for k, w := range want {
			if got[k] != w {
				snap := e.msgSnap(m)
				var s sigSnap
				for _, x := range snap {
					if x.id == k[0] {
						s = x
					}
				}
				sig := "filters-not-current"
				if s.be && s.start/8 == (s.start+s.size-1)/8 {
					// same signal, right size, big-endian single byte: the D08 class
					var lenSum int
					for _, f := range m.SignalLayout().Filters() {
						if e.sigID[f.Signal().EntityID()] == k[0] {
							lenSum += f.Length()
						}
					}
					if lenSum == s.size {
						sig = "be-single-byte-mask"
					}
				}
				e.fail("C02", sig, sprintf("%s: msg %d signal %d byte %d mask %08b, layout demands %08b (start %d size %d be %v)", where, id, k[0], k[1], got[k], w, s.start, s.size, s.be))
			}
		}
		for k := range got {
			if _, ok := want[k]; !ok {
				e.fail("C02", "filters-not-current", sprintf("%s: msg %d stale filter for signal %d byte %d", where, id, k[0], k[1]))
			}
		}
	}
}

// specRaw: the raw value the property prescribes.
func specRaw(data []byte, start, size int, be bool) uint64 {
	var v uint64
	if !be {
		for i := size - 1; i >= 0; i-- {
			k := start + i
			v = v<<1 | uint64(data[k/8]>>uint(k%8)&1)
		}
		return v
	}
	for p := start; p < start+size; p++ {
		v = v<<1 | uint64(data[p/8]>>uint(7-p%8)&1)
	}
	return v
}

// probe runs a scripted scenario for a KNOWN finding on the real code only (oracle line):
// the defect regions the generator and the theorems exclude are exhibited here on every run,
// so that the check prints its KNOWN-FINDING line from an actual reproduction.
func (e *plExec) probe(id string) string {
	switch id {
	case "D74":
		// two signals of one layout reference the same enum; the enum grows: the followers are
		// moved per referencing signal in map order, a wrong order leaves an overlap
		for i := 0; i < 60; i++ {
			en := acmelib.NewSignalEnum("e")
			en.AddValue(acmelib.NewSignalEnumValue("x", 1))
			a, _ := acmelib.NewEnumSignal("a", en)
			b, _ := acmelib.NewEnumSignal("b", en)
			t, _ := acmelib.NewIntegerSignalType("t", 4, false)
			c, _ := acmelib.NewStandardSignal("c", t)
			m := acmelib.NewMessage("m", 1, 1)
			m.AppendSignal(a)
			m.AppendSignal(b)
			m.AppendSignal(c)
			if err := en.AddValue(acmelib.NewSignalEnumValue("y", 2)); err != nil {
				continue
			}
			prevEnd := 0
			for _, s := range m.Signals() {
				if s.GetRelativeStartPos() < prevEnd {
					e.fail("C01", "enum-two-refs-one-layout", sprintf("probe D74 (run %d): after AddValue(index 2) on an enum referenced by a@0 and b@1 of one message: %s starts at %d before %d", i, s.Name(), s.GetRelativeStartPos(), prevEnd))
					return "reproduced"
				}
				prevEnd = s.GetRelativeStartPos() + s.GetSize()
			}
		}
		return "not-reproduced"
	case "D25":
		// no "already has a parent" check: a signal appended to a second message is listed by both
		t, _ := acmelib.NewIntegerSignalType("t", 4, false)
		s, _ := acmelib.NewStandardSignal("s", t)
		m1 := acmelib.NewMessage("m1", 1, 1)
		m2 := acmelib.NewMessage("m2", 2, 1)
		m1.AppendSignal(s)
		if err := m2.AppendSignal(s); err == nil && len(m1.Signals()) == 1 && len(m2.Signals()) == 1 {
			e.fail("C05", "reattached-signal-listed-twice", "probe D25: a signal appended to m1 and then to m2 is accepted and listed by both; ParentMessage() reports only m2")
			return "reproduced"
		}
		return "not-reproduced"
	}
	return "unknown-probe"
}

func (e *plExec) Do(line string) string {
	defer func() { e.nline++ }()
	line = strings.TrimPrefix(line, "oracle ")
	f := fields(line)
	if len(f) < 2 {
		return "bad-op"
	}
	cmd := f[1]
	a := f[2:]
	switch cmd {
	case "probe":
		return e.probe(a[0])
	case "busprobe":
		return e.busProbe(atoi(a[0]), line)
	case "cloneprobe":
		return e.cloneProbe(atoi(a[0]), atoi(a[1]), line)
	case "dump":
		m := e.msgs[atoi(a[0])]
		if m == nil {
			return "none"
		}
		var sl, fl []string
		for _, s := range m.Signals() {
			be := 0
			if s.Endianness() == acmelib.MessageByteOrderBigEndian {
				be = 1
			}
			par := "-"
			if pm := s.ParentMessage(); pm != nil {
				for k, v := range e.msgs {
					if v == pm {
						par = sprintf("%d", k)
					}
				}
			}
			sl = append(sl, sprintf("(%d,%d,%d,%s,%d,%s)", e.sigID[s.EntityID()], s.GetRelativeStartPos(), s.GetSize(), s.Name(), be, par))
		}
		for _, x := range m.SignalLayout().Filters() {
			fl = append(fl, sprintf("(%d,%d,%d,%d,%d)", e.sigID[x.Signal().EntityID()], x.ByteIndex(), x.Mask(), x.Length(), x.LeftOffset()))
		}
		be := 0
		if m.ByteOrder() == acmelib.MessageByteOrderBigEndian {
			be = 1
		}
		return sprintf("size=%d be=%d layout=%s filters=%s", m.SizeByte(), be, listStr(sl), listStr(fl))
	case "edump":
		en := e.enums[atoi(a[0])]
		if en == nil {
			return "none"
		}
		var vs []string
		for _, v := range en.Values() {
			vs = append(vs, sprintf("(%d,%s,%d)", e.valID[v.EntityID()], v.Name(), v.Index()))
		}
		var refs []int
		for _, r := range en.References() {
			refs = append(refs, e.sigID[r.EntityID()])
		}
		sort.Ints(refs)
		var rs []string
		for _, r := range refs {
			rs = append(rs, sprintf("%d", r))
		}
		// C03 over histories: width = smallest sufficient width, never below the minimum
		mx := 0
		for _, v := range en.Values() {
			if v.Index() > mx {
				mx = v.Index()
			}
		}
		want := en.MinSize()
		if want < 1 {
			want = 1
		}
		for !isBitLenAtLeast(mx, want) {
			want++
		}
		if en.GetSize() != want {
			e.fail("C03", "enum-width-history", sprintf("%s: enum size %d, largest index %d, min %d: want %d", line, en.GetSize(), mx, en.MinSize(), want))
		}
		return sprintf("min=%d max=%d size=%d values=%s refs=%s", en.MinSize(), en.MaxIndex(), en.GetSize(), listStr(vs), listStr(rs))
	case "sdump":
		s := e.sigs[atoi(a[0])]
		if s == nil {
			return "none"
		}
		par := "-"
		if pm := s.ParentMessage(); pm != nil {
			for k, v := range e.msgs {
				if v == pm {
					par = sprintf("%d", k)
				}
			}
		}
		return sprintf("name=%s start=%d size=%d parent=%s", s.Name(), s.GetRelativeStartPos(), s.GetSize(), par)
	case "dec":
		m := e.msgs[atoi(a[0])]
		if m == nil {
			return "none"
		}
		data := make([]byte, len(a)-1)
		for i := range data {
			data[i] = byte(atoi(a[1+i]))
		}
		decs := m.SignalLayout().Decode(data)
		var out []string
		// C02: one result per standard or enum signal, in layout order, exact bits
		var wantIDs []sigSnap
		for i, s := range m.Signals() {
			if s.Kind() != acmelib.SignalKindMultiplexer {
				wantIDs = append(wantIDs, e.msgSnap(m)[i])
			}
		}
		if len(decs) != len(wantIDs) {
			e.fail("C02", "decode-result-count", sprintf("%s: %d results for %d value signals", line, len(decs), len(wantIDs)))
		}
		for i, d := range decs {
			if d == nil {
				e.fail("C02", "decode-nil-entry", line)
				out = append(out, "nil")
				continue
			}
			id := e.sigID[d.Signal.EntityID()]
			out = append(out, sprintf("(%d,%d)", id, d.RawValue))
			if i < len(wantIDs) {
				w := wantIDs[i]
				if w.id != id {
					e.fail("C02", "decode-order", line)
				} else if len(data)*8 >= w.start+w.size && w.size <= 64 {
					if want := specRaw(data, w.start, w.size, w.be); want != d.RawValue {
						sig := "decode-raw-bits"
						if w.be && w.start/8 == (w.start+w.size-1)/8 {
							sig = "be-single-byte-decode"
						}
						e.fail("C02", sig, sprintf("%s: signal %d start %d size %d be %v raw %d, payload bits say %d", line, id, w.start, w.size, w.be, d.RawValue, want))
					}
				}
			}
		}
		return listStr(out)
	}

	before := e.worldSnap()
	out := e.mutate(cmd, a, line)
	if strings.HasPrefix(out, "err") {
		if after := e.worldSnap(); after != before {
			e.fail("C06", "rejected-but-changed", sprintf("%s -> %s", line, out))
		}
		if out == "err undocumented" {
			e.fail("C06", "undocumented-cause", line)
		}
	}
	if out == "panic" {
		e.fail("C06", "panic", line)
	}
	e.checkWF(line)
	e.checkFilters(line)
	return out
}

func (e *plExec) mutate(cmd string, a []string, line string) (out string) {
	defer func() {
		if r := recover(); r != nil {
			out = "panic"
		}
	}()
	switch cmd {
	case "type.new":
		t, err := acmelib.NewIntegerSignalType(sprintf("t%d", atoi(a[0])%2), atoi(a[1]), false) // names of types and enums identify nothing
		if err != nil {
			return errOut(err)
		}
		e.types[atoi(a[0])] = t
		return "ok"
	case "enum.new":
		e.enums[atoi(a[0])] = acmelib.NewSignalEnum(sprintf("e%d", atoi(a[0])%2))
		return "ok"
	case "val.new":
		v := acmelib.NewSignalEnumValue(a[1], atoi(a[2]))
		e.vals[atoi(a[0])] = v
		e.valID[v.EntityID()] = atoi(a[0])
		return "ok"
	case "enum.add":
		en := e.enums[atoi(a[0])]
		v := e.vals[atoi(a[1])]
		if en == nil {
			return "unsupported"
		}
		if v == nil {
			return errOut(en.AddValue(nil))
		}
		if v.ParentEnum() != nil {
			return "unsupported"
		}
		return errOut(en.AddValue(v))
	case "enum.rm":
		en := e.enums[atoi(a[0])]
		if en == nil {
			return "unsupported"
		}
		v := e.vals[atoi(a[1])]
		if v == nil {
			return errOut(en.RemoveValue("nonexistent"))
		}
		return errOut(en.RemoveValue(v.EntityID()))
	case "enum.clear":
		en := e.enums[atoi(a[0])]
		if en == nil {
			return "unsupported"
		}
		en.RemoveAllValues()
		return "ok"
	case "enum.min":
		en := e.enums[atoi(a[0])]
		if en == nil {
			return "unsupported"
		}
		return errOut(en.SetMinSize(atoi(a[1])))
	case "val.idx":
		v := e.vals[atoi(a[0])]
		if v == nil {
			return "unsupported"
		}
		return errOut(v.UpdateIndex(atoi(a[1])))
	case "val.name":
		v := e.vals[atoi(a[0])]
		if v == nil {
			return "unsupported"
		}
		return errOut(v.UpdateName(a[1]))
	case "sig.std":
		if e.sigs[atoi(a[0])] != nil {
			return "unsupported"
		}
		s, err := acmelib.NewStandardSignal(a[1], e.types[atoi(a[2])])
		if err != nil {
			return errOut(err)
		}
		e.sigs[atoi(a[0])] = s
		e.sigID[s.EntityID()] = atoi(a[0])
		return "ok"
	case "sig.enum":
		if e.sigs[atoi(a[0])] != nil {
			return "unsupported"
		}
		s, err := acmelib.NewEnumSignal(a[1], e.enums[atoi(a[2])])
		if err != nil {
			return errOut(err)
		}
		e.sigs[atoi(a[0])] = s
		e.sigID[s.EntityID()] = atoi(a[0])
		return "ok"
	case "sig.mux":
		if e.sigs[atoi(a[0])] != nil {
			return "unsupported"
		}
		s, err := acmelib.NewMultiplexerSignal(a[1], atoi(a[2]), atoi(a[3]))
		if err != nil {
			return errOut(err)
		}
		e.sigs[atoi(a[0])] = s
		e.sigID[s.EntityID()] = atoi(a[0])
		return "ok"
	case "sig.type":
		s := e.sigs[atoi(a[0])]
		if s == nil {
			return "unsupported"
		}
		ss, ok := s.(*acmelib.StandardSignal)
		if !ok {
			return "unsupported"
		}
		return errOut(ss.SetType(e.types[atoi(a[1])]))
	case "sig.setenum":
		s := e.sigs[atoi(a[0])]
		if s == nil {
			return "unsupported"
		}
		es, ok := s.(*acmelib.EnumSignal)
		if !ok {
			return "unsupported"
		}
		return errOut(es.SetEnum(e.enums[atoi(a[1])]))
	case "sig.name":
		s := e.sigs[atoi(a[0])]
		if s == nil {
			return "unsupported"
		}
		return errOut(s.UpdateName(a[1]))
	case "msg.new":
		if e.msgs[atoi(a[0])] != nil {
			return "unsupported"
		}
		// message ids and names are unique per interface only: detached messages may share them, and
		// nothing may be keyed by either
		e.msgs[atoi(a[0])] = acmelib.NewMessage(sprintf("m%d", atoi(a[0])%3), acmelib.MessageID(1+atoi(a[0])%2), atoi(a[1]))
		return "ok"
	case "msg.app", "msg.ins":
		m := e.msgs[atoi(a[0])]
		if m == nil {
			return "unsupported"
		}
		s := e.sigs[atoi(a[1])]
		if s != nil && (s.ParentMessage() != nil || s.ParentMultiplexerSignal() != nil) {
			// re-attachment is outside the model (D25).  One case is decided by the property all the
			// same: a position the target message must refuse whatever it contains (before the payload
			// or behind it) — the refusal must leave the signal, its parent and both messages as they
			// were.  The real call is made, the answer of the line stays `unsupported`.
			if cmd == "msg.ins" && len(a) > 2 && s.ParentMessage() != nil && s.ParentMessage() != m &&
				m.SizeByte() >= 0 && m.SizeByte() <= 64 && (atoi(a[2]) < 0 || atoi(a[2]) >= m.SizeByte()*8) {
				home := s.ParentMessage()
				before := e.worldSnap()
				err := m.InsertSignal(s, atoi(a[2]))
				switch {
				case err == nil:
					e.fail("C05", "reattach-accepted-outside-payload", sprintf("%s: a signal that sits in another message was accepted at bit %d of a %d-byte message", line, atoi(a[2]), m.SizeByte()))
					_ = m.RemoveSignal(s.EntityID())
				case s.ParentMessage() != home:
					e.fail("C05", "refused-reattach-changed-parent", sprintf("%s: refused (%v), but the signal's parent message is no longer the message that lists it", line, errOut(err)))
				case e.worldSnap() != before:
					e.fail("C06", "rejected-but-changed", sprintf("%s -> %s (a refused re-attachment changed the world)", line, errOut(err)))
				}
			}
			return "unsupported"
		}
		pre := e.msgSnap(m)
		var err error
		if cmd == "msg.app" {
			if s == nil {
				err = m.AppendSignal(nil)
			} else {
				err = m.AppendSignal(s)
			}
		} else {
			if s == nil {
				err = m.InsertSignal(nil, atoi(a[2]))
			} else {
				err = m.InsertSignal(s, atoi(a[2]))
			}
		}
		if s != nil {
			e.oracleAttach(line, cmd, m, s, a, pre, err)
		}
		return errOut(err)
	case "msg.rm":
		m := e.msgs[atoi(a[0])]
		if m == nil {
			return "unsupported"
		}
		s := e.sigs[atoi(a[1])]
		if s == nil {
			return errOut(m.RemoveSignal("nonexistent"))
		}
		return errOut(m.RemoveSignal(s.EntityID()))
	case "msg.clear":
		m := e.msgs[atoi(a[0])]
		if m == nil {
			return "unsupported"
		}
		m.RemoveAllSignals()
		return "ok"
	case "msg.compact":
		m := e.msgs[atoi(a[0])]
		if m == nil {
			return "unsupported"
		}
		pre := e.msgSnap(m)
		m.CompactSignals()
		post := e.msgSnap(m)
		end := 0
		for i, s := range post {
			if s.start != end || i >= len(pre) || s.id != pre[i].id || s.size != pre[i].size || s.start > pre[i].start {
				e.fail("C01", "compact-not-packed", sprintf("%s: %v -> %v", line, pre, post))
				break
			}
			end = s.start + s.size
		}
		return "ok"
	case "msg.shl", "msg.shr":
		m := e.msgs[atoi(a[0])]
		if m == nil {
			return "unsupported"
		}
		s := e.sigs[atoi(a[1])]
		amount := atoi(a[2])
		pre := e.msgSnap(m)
		var d int
		id := acmelib.EntityID("nonexistent")
		if s != nil {
			id = s.EntityID()
		}
		if cmd == "msg.shl" {
			d = m.ShiftSignalLeft(id, amount)
		} else {
			d = m.ShiftSignalRight(id, amount)
		}
		post := e.msgSnap(m)
		// property: only the named signal moves, into free space, and d is the distance moved
		want := 0
		for i, x := range pre {
			if s != nil && x.id == atoi(a[1]) {
				gap := 0
				if cmd == "msg.shl" {
					prevEnd := 0
					if i > 0 {
						prevEnd = pre[i-1].start + pre[i-1].size
					}
					gap = x.start - prevEnd
				} else {
					next := m.SizeByte() * 8
					if i+1 < len(pre) {
						next = pre[i+1].start
					}
					gap = next - (x.start + x.size)
				}
				want = min(amount, gap)
				if want < 0 {
					want = 0
				}
			}
		}
		if d != want {
			e.fail("C01", "shift-distance", sprintf("%s: reported %d, free space allows %d", line, d, want))
		}
		for i := range post {
			if i < len(pre) {
				moved := post[i].start - pre[i].start
				if cmd == "msg.shl" {
					moved = -moved
				}
				isNamed := s != nil && pre[i].id == atoi(a[1])
				if (isNamed && moved != d) || (!isNamed && moved != 0) {
					e.fail("C01", "shift-moved-wrong", sprintf("%s: %v -> %v reported %d", line, pre, post, d))
					break
				}
			}
		}
		return sprintf("ok %d", d)
	case "msg.size":
		m := e.msgs[atoi(a[0])]
		if m == nil {
			return "unsupported"
		}
		pre := e.msgSnap(m)
		k := atoi(a[1])
		err := m.UpdateSizeByte(k)
		end := 0
		if len(pre) > 0 {
			end = pre[len(pre)-1].start + pre[len(pre)-1].size
		}
		if (err == nil) != (k >= 0 && k*8 >= end) {
			e.fail("C01", "resize-acceptance", sprintf("%s: err=%v last end %d", line, err, end))
		}
		return errOut(err)
	case "msg.be":
		m := e.msgs[atoi(a[0])]
		if m == nil {
			return "unsupported"
		}
		if atoi(a[1]) == 1 {
			m.SetByteOrder(acmelib.MessageByteOrderBigEndian)
		} else {
			m.SetByteOrder(acmelib.MessageByteOrderLittleEndian)
		}
		return "ok"
	}
	return "bad-op"
}

// oracleAttach: accept-iff for append / insert (C01 second sentence), in the property's words.
func (e *plExec) oracleAttach(line, cmd string, m *acmelib.Message, s acmelib.Signal, a []string, pre []sigSnap, err error) {
	size := s.GetSize()
	cap := m.SizeByte() * 8
	nameFree := true
	for _, x := range pre {
		if x.name == s.Name() {
			nameFree = false
		}
	}
	fits := false
	if cmd == "msg.app" {
		end := 0
		if len(pre) > 0 {
			end = pre[len(pre)-1].start + pre[len(pre)-1].size
		}
		fits = size <= cap-end
	} else {
		st := atoi(a[2])
		fits = st >= 0 && st <= cap-size
		for _, x := range pre {
			if fits && !(st+size <= x.start || x.start+x.size <= st) {
				fits = false
			}
		}
	}
	if (err == nil) != (nameFree && fits) {
		e.fail("C01", "attach-acceptance", sprintf("%s: err=%v nameFree=%v fits=%v", line, err, nameFree, fits))
	}
}

// ---- generator with execution feedback ----

type plGen struct {
	r      *rand.Rand
	ex     *plExec
	sc     []string
	nextID int
	types  []int
	tsize  map[int]int
	enums  []int
	vals   []int
	sigs   []int
	skind  map[int]string // std / enum / mux
	senum  map[int]int
	msgs   []int
}

var plNames = []string{"a", "b", "c", "d", "e", "f"}

func (g *plGen) emit(l string) string {
	out := safeDo(g.ex, l)
	g.sc = append(g.sc, l)
	return out
}

func (g *plGen) fresh() int { g.nextID++; return g.nextID }

func (g *plGen) anyOf(xs []int) int {
	if len(xs) == 0 || g.r.Intn(25) == 0 {
		return 9000 + g.r.Intn(3) // unknown id
	}
	return xs[g.r.Intn(len(xs))]
}

// startNear picks the start bit of an insertion: half of the time a position chosen RELATIVE to
// a signal that is already in the message — adjacent before / after (legal), overlapping its
// first or last bit, the same start, strictly inside it, strictly ENCLOSING it — so that every
// shape of intersection occurs often, not only by chance.
var plDebug = false

func (g *plGen) startNear(m int, sg acmelib.Signal, capBits int) int {
	msg := g.ex.msgs[m]
	if msg == nil || sg == nil || len(msg.Signals()) == 0 || g.r.Intn(2) == 0 {
		return g.intArg(capBits)
	}
	t := msg.Signals()[g.r.Intn(len(msg.Signals()))]
	ts, te, n := t.GetRelativeStartPos(), t.GetRelativeStartPos()+t.GetSize(), sg.GetSize()
	switch g.r.Intn(9) {
	case 0:
		return ts - n // adjacent before
	case 1:
		return te // adjacent after
	case 2:
		return ts - n + 1 // overlaps the first bit
	case 3:
		return te - 1 // overlaps the last bit
	case 4:
		return ts // same start
	case 5:
		return ts + 1 // starts inside
	case 6, 7:
		// encloses: starts before and ends after (when the new signal is wide enough)
		if n > t.GetSize()+1 {
			if plDebug {
				println(sprintf("ENCLOSE ts=%d te=%d n=%d sigs=%d\n", ts, te, n, len(msg.Signals())))
			}
			return ts - 1 - g.r.Intn(n-t.GetSize()-1)
		}
		return ts - 1
	}
	return te - n // ends together
}

func (g *plGen) intArg(hi int) int {
	switch g.r.Intn(20) {
	case 0:
		return -1
	case 1:
		return pick(g.r, hi, hi+1, hi-1, 63, 64, 65)
	case 2:
		return pick(g.r, 1<<62, -(1 << 62), 1<<63-1, -(1 << 63), 1<<32+1)
	}
	if hi <= 0 {
		return 0
	}
	return g.r.Intn(hi)
}

// enumsOf returns the enums referenced by signals attached to message m (RefsApart bookkeeping).
func (g *plGen) enumsIn(m int) map[int]bool {
	res := map[int]bool{}
	msg := g.ex.msgs[m]
	if msg == nil {
		return res
	}
	for _, s := range msg.Signals() {
		id := g.ex.sigID[s.EntityID()]
		if g.skind[id] == "enum" {
			if es, ok := s.(*acmelib.EnumSignal); ok {
				for k, en := range g.ex.enums {
					if en == es.Enum() {
						res[k] = true
					}
				}
			}
		}
	}
	return res
}

func (g *plGen) step() {
	r := g.r
	switch k := r.Intn(100); {
	case k < 4:
		t := g.fresh()
		sz := pick(r, 1, 2, 3, 4, 7, 8, 9, 12, 16, 20, 31, 32, 33, 63, 64, 1+r.Intn(64))
		if r.Intn(15) == 0 {
			sz = pick(r, 0, -1, 65)
		}
		if g.emit(sprintf("pl type.new %d %d", t, sz)) == "ok" {
			g.types = append(g.types, t)
			g.tsize[t] = sz
		}
	case k < 7:
		e := g.fresh()
		g.emit(sprintf("pl enum.new %d", e))
		g.enums = append(g.enums, e)
	case k < 13:
		v := g.fresh()
		idx := pick(r, 0, 1, 2, 3, 7, 8, 15, 16, 255, 256, r.Intn(70000))
		if r.Intn(20) == 0 {
			idx = pick(r, -1, 1<<40, 1<<62)
		}
		g.emit(sprintf("pl val.new %d %s %d", v, pick(r, "x", "y", "z", "w", "OK", "ERR"), idx))
		g.vals = append(g.vals, v)
	case k < 21:
		if len(g.enums) > 0 && len(g.vals) > 0 {
			v := g.anyOf(g.vals)
			if val := g.ex.vals[v]; val == nil || val.ParentEnum() == nil {
				g.emit(sprintf("pl enum.add %d %d", g.anyOf(g.enums), v))
			}
		}
	case k < 24:
		if len(g.enums) > 0 && len(g.vals) > 0 {
			// mostly a value that IS in an enum, removed from that enum (any index: first, middle, highest)
			en, v := g.anyOf(g.enums), g.anyOf(g.vals)
			if r.Intn(4) != 0 {
				for try := 0; try < 8; try++ {
					cand := g.anyOf(g.vals)
					val := g.ex.vals[cand]
					if val == nil || val.ParentEnum() == nil {
						continue
					}
					for _, eid := range g.enums {
						if g.ex.enums[eid] == val.ParentEnum() {
							en, v = eid, cand
						}
					}
					break
				}
			}
			g.emit(sprintf("pl enum.rm %d %d", en, v))
		}
	case k < 25:
		if len(g.enums) > 0 {
			g.emit(sprintf("pl enum.clear %d", g.anyOf(g.enums)))
		}
	case k < 29:
		if len(g.enums) > 0 {
			g.emit(sprintf("pl enum.min %d %d", g.anyOf(g.enums), pick(r, 1, 2, 3, 4, 8, 9, 16, 0, -1, 33, 64, 65)))
		}
	case k < 34:
		if len(g.vals) > 0 {
			g.emit(sprintf("pl val.idx %d %d", g.anyOf(g.vals), pick(r, 0, 1, 2, 3, 4, 7, 8, 15, 16, 31, 255, 256, 1023, -1, r.Intn(5000))))
		}
	case k < 36:
		if len(g.vals) > 0 {
			g.emit(sprintf("pl val.name %d %s", g.anyOf(g.vals), pick(r, "x", "y", "z", "w", "OK", "ERR")))
		}
	case k < 44:
		s := g.fresh()
		switch r.Intn(5) {
		case 0, 1, 2:
			if g.emit(sprintf("pl sig.std %d %s %d", s, pick(r, plNames...), g.anyOf(g.types))) == "ok" {
				g.sigs = append(g.sigs, s)
				g.skind[s] = "std"
			}
		case 3:
			if g.emit(sprintf("pl sig.enum %d %s %d", s, pick(r, plNames...), g.anyOf(g.enums))) == "ok" {
				g.sigs = append(g.sigs, s)
				g.skind[s] = "enum"
			}
		case 4:
			gc := pick(r, 1, 2, 3, 4, 8, 9, 0, -1)
			gs := pick(r, 1, 4, 8, 16, 30, 0, -2)
			if g.emit(sprintf("pl sig.mux %d %s %d %d", s, pick(r, plNames...), gc, gs)) == "ok" {
				g.sigs = append(g.sigs, s)
				g.skind[s] = "mux"
			}
		}
	case k < 48:
		if len(g.sigs) > 0 {
			s := g.anyOf(g.sigs)
			if g.skind[s] == "std" || s >= 9000 {
				g.emit(sprintf("pl sig.type %d %d", s, g.anyOf(g.types)))
			}
		}
	case k < 51:
		if len(g.sigs) > 0 && len(g.enums) > 0 {
			s := g.anyOf(g.sigs)
			if g.skind[s] == "enum" {
				en := g.anyOf(g.enums)
				// RefsApart: do not create a second reference to `en` inside the signal's message
				sg := g.ex.sigs[s]
				ok := true
				if sg != nil && sg.ParentMessage() != nil {
					for m, msg := range g.ex.msgs {
						if msg == sg.ParentMessage() && g.enumsIn(m)[en] {
							if es, isE := sg.(*acmelib.EnumSignal); !isE || g.ex.enums[en] != es.Enum() {
								ok = false
							}
						}
					}
				}
				if ok {
					g.emit(sprintf("pl sig.setenum %d %d", s, en))
				}
			}
		}
	case k < 53:
		if len(g.sigs) > 0 {
			g.emit(sprintf("pl sig.name %d %s", g.anyOf(g.sigs), pick(r, plNames...)))
		}
	case k < 56:
		m := g.fresh()
		g.emit(sprintf("pl msg.new %d %d", m, pick(r, 8, 8, 8, 4, 2, 1, 0, 3, 7)))
		g.msgs = append(g.msgs, m)
	case k < 72:
		if len(g.msgs) > 0 && len(g.sigs) > 0 {
			m := g.anyOf(g.msgs)
			s := g.anyOf(g.sigs)
			sg := g.ex.sigs[s]
			if sg != nil && (sg.ParentMessage() != nil || sg.ParentMultiplexerSignal() != nil) {
				// the picked signal is in use: make a fresh one (unique name) so that populated
				// messages keep receiving insertions
				if len(g.types) == 0 || r.Intn(3) == 0 {
					return
				}
				s = g.fresh()
				if g.emit(sprintf("pl sig.std %d n%d %d", s, s, g.anyOf(g.types))) != "ok" {
					return
				}
				g.sigs = append(g.sigs, s)
				g.skind[s] = "std"
				sg = g.ex.sigs[s]
			}
			if g.skind[s] == "enum" {
				if es, ok := sg.(*acmelib.EnumSignal); ok {
					for k, en := range g.ex.enums {
						if en == es.Enum() && g.enumsIn(m)[k] {
							return // RefsApart
						}
					}
				}
			}
			capBits := 64
			if msg := g.ex.msgs[m]; msg != nil {
				capBits = msg.SizeByte() * 8
			}
			if r.Intn(3) == 0 {
				g.emit(sprintf("pl msg.app %d %d", m, s))
			} else {
				g.emit(sprintf("pl msg.ins %d %d %d", m, s, g.startNear(m, sg, capBits)))
			}
			// a signal that sits in one message is offered to ANOTHER message at a position that
			// message must refuse (before its payload, behind it): the refusal must leave the signal
			// and both messages exactly as they were (its parent too)
			if r.Intn(6) == 0 && len(g.msgs) >= 2 {
				for try := 0; try < 6; try++ {
					s2 := g.anyOf(g.sigs)
					sg2 := g.ex.sigs[s2]
					if sg2 == nil || sg2.ParentMessage() == nil {
						continue
					}
					m2 := g.anyOf(g.msgs)
					msg2 := g.ex.msgs[m2]
					if msg2 == nil || msg2 == sg2.ParentMessage() || msg2.SizeByte() < 0 || msg2.SizeByte() > 64 {
						continue
					}
					pos := -1 - r.Intn(4)
					if r.Intn(2) == 0 {
						pos = msg2.SizeByte()*8 + r.Intn(9)
					}
					home := -1
					for k, v := range g.ex.msgs {
						if v == sg2.ParentMessage() {
							home = k
						}
					}
					g.emit(sprintf("pl msg.ins %d %d %d", m2, s2, pos))
					if home >= 0 {
						g.emit(sprintf("pl dump %d", home))
					}
					g.emit(sprintf("pl dump %d", m2))
					g.emit(sprintf("pl sdump %d", s2))
					break
				}
			}
		}
	case k < 74:
		if len(g.msgs) > 0 {
			g.emit(sprintf("pl msg.rm %d %d", g.anyOf(g.msgs), g.anyOf(g.sigs)))
		}
	case k < 76:
		// move a signal from one message to another one (other byte order, other size)
		if len(g.msgs) > 1 {
			from := g.msgs[r.Intn(len(g.msgs))]
			to := g.msgs[r.Intn(len(g.msgs))]
			if msg := g.ex.msgs[from]; msg != nil && len(msg.Signals()) > 0 && from != to {
				sg := msg.Signals()[r.Intn(len(msg.Signals()))]
				s := g.ex.sigID[sg.EntityID()]
				ok := true
				if es, isE := sg.(*acmelib.EnumSignal); isE {
					for k, en := range g.ex.enums {
						if en == es.Enum() && g.enumsIn(to)[k] {
							ok = false // RefsApart
						}
					}
				}
				if ok && g.emit(sprintf("pl msg.rm %d %d", from, s)) == "ok" {
					capBits := 64
					if m2 := g.ex.msgs[to]; m2 != nil {
						capBits = m2.SizeByte() * 8
					}
					g.emit(sprintf("pl msg.ins %d %d %d", to, s, g.intArg(capBits)))
					g.emit(sprintf("pl dump %d", to))
				}
			}
		}
	case k < 77:
		if len(g.msgs) > 0 && r.Intn(3) == 0 {
			g.emit(sprintf("pl msg.clear %d", g.anyOf(g.msgs)))
		}
	case k < 80:
		if len(g.msgs) > 0 {
			g.emit(sprintf("pl msg.compact %d", g.anyOf(g.msgs)))
		}
	case k < 88:
		if len(g.msgs) > 0 {
			m := g.anyOf(g.msgs)
			s := g.anyOf(g.sigs)
			if msg := g.ex.msgs[m]; msg != nil && len(msg.Signals()) > 0 && r.Intn(4) != 0 {
				s = g.ex.sigID[msg.Signals()[r.Intn(len(msg.Signals()))].EntityID()]
			}
			g.emit(sprintf("pl %s %d %d %d", pick(r, "msg.shl", "msg.shr"), m, s, g.intArg(20)))
		}
	case k < 92:
		if len(g.msgs) > 0 {
			g.emit(sprintf("pl msg.size %d %d", g.anyOf(g.msgs), pick(r, 0, 1, 2, 3, 4, 5, 6, 7, 8, 8, 9, 16, -1, 1<<40)))
		}
	case k < 95:
		if len(g.msgs) > 0 {
			g.emit(sprintf("pl msg.be %d %d", g.anyOf(g.msgs), r.Intn(2)))
		}
	default:
		g.observe()
	}
}

func (g *plGen) observe() {
	r := g.r
	if len(g.msgs) > 0 {
		m := g.msgs[r.Intn(len(g.msgs))]
		g.emit(sprintf("pl dump %d", m))
		if msg := g.ex.msgs[m]; msg != nil && msg.SizeByte() <= 64 {
			n := msg.SizeByte()
			var b strings.Builder
			b.WriteString(sprintf("pl dec %d", m))
			mode := r.Intn(4)
			bit := r.Intn(max(1, n*8))
			for i := 0; i < n; i++ {
				v := r.Intn(256)
				switch mode {
				case 0: // walking one
					v = 0
					if bit/8 == i {
						v = 1 << uint(bit%8)
					}
				case 1: // walking zero
					v = 255
					if bit/8 == i {
						v = 255 &^ (1 << uint(bit%8))
					}
				}
				b.WriteString(sprintf(" %d", v))
			}
			g.emit(b.String())
		}
	}
	if len(g.msgs) > 0 && r.Intn(4) == 0 {
		g.emit(sprintf("oracle pl busprobe %d", g.msgs[r.Intn(len(g.msgs))]))
	}
	if len(g.types) > 0 && r.Intn(6) == 0 {
		en := -1
		if len(g.enums) > 0 {
			en = g.enums[r.Intn(len(g.enums))]
		}
		g.emit(sprintf("oracle pl cloneprobe %d %d", g.types[r.Intn(len(g.types))], en))
	}
	if len(g.enums) > 0 && r.Intn(2) == 0 {
		g.emit(sprintf("pl edump %d", g.enums[r.Intn(len(g.enums))]))
	}
	if len(g.sigs) > 0 && r.Intn(3) == 0 {
		g.emit(sprintf("pl sdump %d", g.sigs[r.Intn(len(g.sigs))]))
	}
}

// enumGrowthScene: an enum signal in a message with a follower at distance 0..2 behind it (and,
// half of the time, a second message sharing the enum), then the enum changes its width by each
// of the ways the API offers — re-indexing a value across a power of two (up and down), adding
// a value, raising / lowering the minimum size, removing the highest value — with dumps after
// every step.  The history every size-change clause of C01 speaks about, made on purpose.
func (g *plGen) enumGrowthScene() {
	r := g.r
	e, v1, v2 := g.fresh(), g.fresh(), g.fresh()
	g.emit(sprintf("pl enum.new %d", e))
	g.enums = append(g.enums, e)
	g.emit(sprintf("pl val.new %d ga %d", v1, pick(r, 0, 1, 1, 3)))
	g.emit(sprintf("pl val.new %d gb %d", v2, pick(r, 1, 2, 3, 5, 7)))
	g.vals = append(g.vals, v1, v2)
	g.emit(sprintf("pl enum.add %d %d", e, v1))
	g.emit(sprintf("pl enum.add %d %d", e, v2))
	nMsgs := 1 + pick(r, 0, 1, 1)
	var ms []int
	for k := 0; k < nMsgs; k++ {
		m, s, f := g.fresh(), g.fresh(), g.fresh()
		g.emit(sprintf("pl msg.new %d %d", m, pick(r, 8, 4, 2, 8)))
		g.msgs = append(g.msgs, m)
		ms = append(ms, m)
		if r.Intn(3) == 0 {
			g.emit(sprintf("pl msg.be %d 1", m))
		}
		g.emit(sprintf("pl sig.enum %d ge%d %d", s, s, e))
		g.sigs = append(g.sigs, s)
		g.skind[s] = "enum"
		start := pick(r, 0, 0, 1, 5)
		g.emit(sprintf("pl msg.ins %d %d %d", m, s, start))
		if len(g.types) > 0 {
			if g.emit(sprintf("pl sig.std %d gf%d %d", f, f, g.anyOf(g.types))) == "ok" {
				g.sigs = append(g.sigs, f)
				g.skind[f] = "std"
				sz := 1
				if sg := g.ex.sigs[s]; sg != nil {
					sz = sg.GetSize()
				}
				g.emit(sprintf("pl msg.ins %d %d %d", m, f, start+sz+pick(r, 0, 0, 1, 2)))
			}
		}
		g.emit(sprintf("pl dump %d", m))
	}
	dumps := func() {
		for _, m := range ms {
			g.emit(sprintf("pl dump %d", m))
		}
		g.emit(sprintf("pl edump %d", e))
	}
	for _, k := range r.Perm(7) {
		switch k {
		case 6:
			g.emit(sprintf("pl enum.rm %d %d", e, v1)) // a value that is NOT the highest one
		case 0:
			g.emit(sprintf("pl val.idx %d %d", v2, pick(r, 4, 8, 9, 16, 17, 255, 256)))
		case 1:
			g.emit(sprintf("pl val.idx %d %d", v2, pick(r, 1, 2, 3)))
		case 2:
			v3 := g.fresh()
			g.emit(sprintf("pl val.new %d gc %d", v3, pick(r, 8, 16, 31, 32, 100)))
			g.vals = append(g.vals, v3)
			g.emit(sprintf("pl enum.add %d %d", e, v3))
		case 3:
			g.emit(sprintf("pl enum.min %d %d", e, pick(r, 2, 4, 6, 9)))
		case 4:
			g.emit(sprintf("pl enum.min %d %d", e, 1))
		case 5:
			g.emit(sprintf("pl enum.rm %d %d", e, v2))
		}
		dumps()
	}
	// one referencing signal moves to another enum while the other keeps this one; then calls the
	// enum must REFUSE (used name / used index / unknown value / rename to a used name): the cause
	// must be the documented one, whatever earlier accepted size changes left behind
	if len(ms) > 1 {
		e2 := g.fresh()
		g.emit(sprintf("pl enum.new %d", e2))
		g.enums = append(g.enums, e2)
		// one of the referencing signals moves away (the first or the last one found: which
		// reference a size change visited last is map order)
		var refs []int
		for _, sID := range g.sigs {
			if es, ok := g.ex.sigs[sID].(*acmelib.EnumSignal); ok && es.Enum() == g.ex.enums[e] && es.ParentMessage() != nil {
				refs = append(refs, sID)
			}
		}
		if len(refs) > 1 {
			g.emit(sprintf("pl sig.setenum %d %d", refs[pick(r, 0, len(refs)-1)], e2))
		}
		// the name and the index of a value that IS in the enum now (execution feedback)
		usedName, usedIdx := "ga", 1
		var anyVal int
		if en := g.ex.enums[e]; en != nil && len(en.Values()) > 0 {
			vs := en.Values()
			usedName, usedIdx = vs[0].Name(), vs[len(vs)-1].Index()
			for id, v := range g.ex.vals {
				if v == vs[0] {
					anyVal = id
				}
			}
		}
		v4, v5 := g.fresh(), g.fresh()
		g.emit(sprintf("pl val.new %d %s %d", v4, usedName, 60+r.Intn(3))) // a name in use
		g.emit(sprintf("pl enum.add %d %d", e, v4))
		g.emit(sprintf("pl val.new %d gz%d %d", v5, v5, usedIdx)) // an index in use
		g.emit(sprintf("pl enum.add %d %d", e, v5))
		g.vals = append(g.vals, v4, v5)
		g.emit(sprintf("pl enum.rm %d %d", e, v4)) // a value that is not in the enum
		if anyVal != 0 {
			g.emit(sprintf("pl val.name %d %s", v2, usedName)) // (when v2 is still a member) a name in use
		}
		dumps()
	}
}

func (payloadStream) Gen(r *rand.Rand, tier string, idx int) []string {
	g := &plGen{r: r, ex: newPlExec(), tsize: map[int]int{}, skind: map[int]string{}, senum: map[int]int{}}
	// seed a useful world quickly
	for i := 0; i < 3; i++ {
		t := g.fresh()
		sz := pick(r, 1, 2, 4, 7, 8, 12, 16)
		g.emit(sprintf("pl type.new %d %d", t, sz))
		g.types = append(g.types, t)
		g.tsize[t] = sz
	}
	e0 := g.fresh()
	g.emit(sprintf("pl enum.new %d", e0))
	g.enums = append(g.enums, e0)
	for i := 0; i < 1+r.Intn(2); i++ {
		m := g.fresh()
		g.emit(sprintf("pl msg.new %d %d", m, pick(r, 8, 8, 4, 2, 8)))
		g.msgs = append(g.msgs, m)
		if r.Intn(3) == 0 {
			g.emit(sprintf("pl msg.be %d 1", m))
		}
	}
	if idx%3 == 1 {
		g.enumGrowthScene()
	}
	n := 25 + r.Intn(50)
	if tier == "thorough" {
		n = 40 + r.Intn(140)
	}
	for i := 0; i < n; i++ {
		g.step()
	}
	for _, m := range g.msgs {
		g.emit(sprintf("pl dump %d", m))
	}
	for _, e := range g.enums {
		g.emit(sprintf("pl edump %d", e))
	}
	g.observe()
	return g.sc
}

// Exhaustive: every single-signal placement (start 0..63, size 1..64-start, both byte
// orders; quick: a size subset) decoded from walking-one / walking-zero / fixed payloads
// through the real Message.SignalLayout().Decode — the finite sub-space of C02.
func (payloadStream) Exhaustive(tier string) [][]string {
	sizes := []int{1, 2, 3, 4, 7, 8, 9, 12, 16, 17, 31, 32, 33, 63, 64}
	if tier == "thorough" {
		sizes = nil
		for i := 1; i <= 64; i++ {
			sizes = append(sizes, i)
		}
	}
	payloads := [][8]int{{255, 255, 255, 255, 255, 255, 255, 255}, {1, 2, 4, 8, 16, 32, 64, 128}, {0xA5, 0x5A, 0x3C, 0xC3, 0x0F, 0xF0, 0x81, 0x7E}}
	var res [][]string
	for be := 0; be < 2; be++ {
		for _, size := range sizes {
			var sc []string
			sc = append(sc, sprintf("pl type.new 1 %d", size))
			id := 10
			for start := 0; start+size <= 64; start++ {
				id++
				sc = append(sc, sprintf("pl sig.std %d s 1", id), "pl msg.new "+sprintf("%d", 1000+id)+" 8",
					sprintf("pl msg.be %d %d", 1000+id, be), sprintf("pl msg.ins %d %d %d", 1000+id, id, start), sprintf("pl dump %d", 1000+id))
				for _, p := range payloads {
					sc = append(sc, sprintf("pl dec %d %d %d %d %d %d %d %d %d", 1000+id, p[0], p[1], p[2], p[3], p[4], p[5], p[6], p[7]))
				}
				if tier == "thorough" || start%8 == 0 || (start+size)%8 == 0 {
					// walking one over the bytes the signal touches
					for bit := (start / 8) * 8; bit < ((start+size-1)/8+1)*8; bit++ {
						var p [8]int
						p[bit/8] = 1 << uint(bit%8)
						sc = append(sc, sprintf("pl dec %d %d %d %d %d %d %d %d %d", 1000+id, p[0], p[1], p[2], p[3], p[4], p[5], p[6], p[7]))
					}
				}
			}
			res = append(res, sc)
		}
	}
	return res
}

func (payloadStream) Tag(lines, outs []string) (bool, []string) {
	var tags []string
	okMut, errMut := 0, 0
	for i, l := range lines {
		f := fields(l)
		if len(f) < 2 {
			continue
		}
		o := outs[i]
		switch {
		case strings.HasPrefix(o, "ok"):
			tags = append(tags, f[1]+":ok")
			okMut++
		case strings.HasPrefix(o, "err"):
			tags = append(tags, f[1]+":"+o)
			errMut++
		case o == "unsupported" || o == "panic":
			tags = append(tags, f[1]+":"+o)
		}
	}
	return okMut >= 5 && errMut >= 1, tags
}
