package main

import (
	"math/rand"

	"github.com/squadracorsepolito/acmelib"
)

// netgen — a seeded generator of whole networks built through the public API only, shared
// by the export/import, save/load, Markdown, determinism and race streams.  It stays inside
// the modelled / defect-free region: no entity is attached twice (D25), receivers of a message
// are interfaces of different nodes (D26), multi-group signals are never followed by size
// changes (D73) and are inserted once per group set (D35).

type genOpts struct {
	dbcSafe   bool // at most one top-level multiplexer per message, DBC-expressible names
	maxNest   int  // multiplexer nesting depth (0 = no multiplexers)
	bigNames  bool // names with blanks (sanitised by the exporter)
	manyEqual bool // definitions with equal names / sizes (determinism ties)
}

type genNet struct {
	net      *acmelib.Network
	buses    []*acmelib.Bus
	nodes    []*acmelib.Node
	msgs     []*acmelib.Message
	types    []*acmelib.SignalType
	units    []*acmelib.SignalUnit
	enums    []*acmelib.SignalEnum
	attrs    []acmelib.Attribute
	builders []*acmelib.CANIDBuilder
	sigs     []acmelib.Signal
	nameSeq  int
}

func must(err error) {
	if err != nil {
		panic("netgen: " + err.Error())
	}
}

func (g *genNet) name(r *rand.Rand, base string, o genOpts) string {
	g.nameSeq++
	if o.bigNames && r.Intn(4) == 0 {
		return sprintf("%s %d x", base, g.nameSeq)
	}
	return sprintf("%s_%d", base, g.nameSeq)
}

func buildNetwork(r *rand.Rand, o genOpts) *genNet {
	g := &genNet{}
	g.net = acmelib.NewNetwork(g.name(r, "net", o))
	if r.Intn(2) == 0 {
		g.net.SetDesc("network description")
	}

	// shared definitions
	for _, sz := range []int{1, 2, 3, 4, 7, 8, 12, 16} {
		signed := r.Intn(3) == 0
		var t *acmelib.SignalType
		var err error
		tn := g.name(r, "type", o)
		if o.manyEqual && r.Intn(3) == 0 {
			tn = "same_type"
		}
		switch r.Intn(4) {
		case 0:
			t, err = acmelib.NewDecimalSignalType(tn, sz, signed)
			must(err)
			t.SetScale(pick(r, 0.5, 0.25, 0.1, 2))
			t.SetOffset(pick(r, 0, -40, 1.5))
		case 1:
			t, err = acmelib.NewCustomSignalType(tn, sz, signed, 0, 100, 1, 0)
			must(err)
		default:
			t, err = acmelib.NewIntegerSignalType(tn, sz, signed)
			must(err)
			if r.Intn(3) == 0 {
				t.SetScale(float64(pick(r, 1, 2, 10)))
				t.SetOffset(float64(pick(r, 0, 5, -5)))
			}
		}
		if r.Intn(4) == 0 {
			t.SetDesc("type desc")
		}
		g.types = append(g.types, t)
	}
	g.types = append(g.types, acmelib.NewFlagSignalType(g.name(r, "flag", o)))
	if r.Intn(2) == 0 {
		// numbers at and beyond the 64-bit integer range (a text or integer short-cut for doubles fails here)
		t, err := acmelib.NewCustomSignalType(g.name(r, "type", o), 8, false, 0, 18446744073709551615, 1, 0)
		must(err)
		g.types = append(g.types, t)
		t, err = acmelib.NewCustomSignalType(g.name(r, "type", o), 12, true, -1e300, 9223372036854775808, 1e19, -1e19)
		must(err)
		g.types = append(g.types, t)
	}
	if r.Intn(3) == 0 {
		// a clone is a definition of its own (own id, own references): the original and its renamed
		// clone are both used by signals of the network
		c := g.types[r.Intn(len(g.types))].Clone()
		c.SetName(g.name(r, "type", o))
		g.types = append(g.types, c)
	}
	for i := 0; i < 3; i++ {
		un := g.name(r, "unit", o)
		if o.manyEqual && i > 0 {
			un = "same_unit"
		}
		g.units = append(g.units, acmelib.NewSignalUnit(un, pick(r, acmelib.SignalUnitKindCustom, acmelib.SignalUnitKindElectrical, acmelib.SignalUnitKindTemperature), pick(r, "V", "degC", "rpm", "A")+sprintf("%d", i)))
	}
	for i := 0; i < 3; i++ {
		en := g.name(r, "enum", o)
		if o.manyEqual && i > 0 {
			en = "same_enum"
		}
		e := acmelib.NewSignalEnum(en)
		nv := r.Intn(4)
		// now and then an enum repeats the value NAMES of the first enum, in the same order, with
		// indexes of its own (two value tables that differ in the indexes only)
		twin := i > 0 && len(g.enums) > 0 && len(g.enums[0].Values()) > 0 && r.Intn(3) == 0
		if twin {
			nv = len(g.enums[0].Values())
		}
		for j := 0; j < nv; j++ {
			vn := sprintf("V%d_%d", i, j)
			if twin {
				vn = sprintf("V0_%d", j)
			}
			must(e.AddValue(acmelib.NewSignalEnumValue(vn, j*4+r.Intn(4))))
		}
		if r.Intn(3) == 0 {
			must(e.SetMinSize(pick(r, 2, 4)))
		}
		g.enums = append(g.enums, e)
	}
	if r.Intn(3) == 0 {
		// clones of a unit and of an enum, renamed, used next to their originals
		cu := g.units[r.Intn(len(g.units))].Clone()
		cu.SetName(g.name(r, "unit", o))
		g.units = append(g.units, cu)
		if ce, err := g.enums[r.Intn(len(g.enums))].Clone(); err == nil {
			ce.UpdateName(g.name(r, "enum", o))
			g.enums = append(g.enums, ce)
		}
	}
	// attributes of all four types
	g.attrs = append(g.attrs, acmelib.NewStringAttribute(g.name(r, "astr", o), "dflt"))
	ia, err := acmelib.NewIntegerAttribute(g.name(r, "aint", o), 5, 0, 1000)
	must(err)
	g.attrs = append(g.attrs, ia)
	ha, err := acmelib.NewIntegerAttribute(g.name(r, "ahex", o), 1, 0, 255)
	must(err)
	ha.SetFormatHex()
	g.attrs = append(g.attrs, ha)
	fa, err := acmelib.NewFloatAttribute(g.name(r, "aflt", o), 1.5, 0, 100)
	must(err)
	g.attrs = append(g.attrs, fa)
	ea, err := acmelib.NewEnumAttribute(g.name(r, "aenm", o), "one", "two", "three")
	must(err)
	g.attrs = append(g.attrs, ea)

	// nodes
	nNodes := 2 + r.Intn(3)
	for i := 0; i < nNodes; i++ {
		n := acmelib.NewNode(g.name(r, "node", o), acmelib.NodeID(4*i+r.Intn(3)), 1+r.Intn(2))
		if r.Intn(3) == 0 {
			n.SetDesc("node desc")
		}
		g.assign(r, n)
		g.nodes = append(g.nodes, n)
	}
	// buses
	nBuses := 1 + r.Intn(2)
	for b := 0; b < nBuses; b++ {
		bus := acmelib.NewBus(g.name(r, "bus", o))
		bus.SetBaudrate(pick(r, 0, 125000, 250000, 500000))
		if r.Intn(3) == 0 {
			bus.SetDesc("bus desc")
		}
		if r.Intn(3) == 0 {
			cb := acmelib.NewCANIDBuilder(g.name(r, "builder", o))
			cb.UseMessagePriority(9).UseMessageID(4, 5).UseNodeID(0, 4)
			if r.Intn(2) == 0 {
				cb.UseCAN2A()
			}
			bus.SetCANIDBuilder(cb)
			g.builders = append(g.builders, cb)
		}
		g.assign(r, bus)
		must(g.net.AddBus(bus))
		g.buses = append(g.buses, bus)
		// interface #b of every node that has one
		var ifs []*acmelib.NodeInterface
		for _, n := range g.nodes {
			if b < len(n.Interfaces()) && r.Intn(5) != 0 {
				ni := n.Interfaces()[b]
				must(bus.AddNodeInterface(ni))
				ifs = append(ifs, ni)
			}
		}
		usedCAN := map[uint32]bool{}
		for _, ni := range ifs {
			nm := r.Intn(4)
			for k := 0; k < nm; k++ {
				m := g.buildMessage(r, o, len(g.msgs))
				if r.Intn(4) == 0 {
					c := uint32(0x100 + len(g.msgs))
					if !usedCAN[c] {
						usedCAN[c] = true
						must(m.SetStaticCANID(acmelib.CANID(c)))
					}
				}
				must(ni.AddSentMessage(m))
				g.msgs = append(g.msgs, m)
				// receivers: interfaces of other nodes on this bus
				for _, rec := range ifs {
					if rec.Node() != ni.Node() && r.Intn(3) == 0 {
						must(m.AddReceiver(rec))
					}
				}
			}
		}
	}
	g.refusedMuxInserts()
	return g
}

// refusedMuxInserts: a refused operation leaves nothing behind.  Every multiplexer of the network
// with two or more groups is offered a fresh one-bit signal (a) as a FIXED child and (b) as a
// child of two listed groups, at a position that is free in the lowest group concerned and taken
// in a higher one (read through the public getters): the call must be refused, and the network —
// which every stream goes on to export, save, decode or walk — must be what it was before.
func (g *genNet) refusedMuxInserts() {
	free := func(mx *acmelib.MultiplexerSignal, grp, pos int) bool {
		for _, s := range mx.GetSignalGroup(grp) {
			if s.GetRelativeStartPos() <= pos && pos < s.GetRelativeStartPos()+s.GetSize() {
				return false
			}
		}
		return true
	}
	n := 0
	for _, sg := range append([]acmelib.Signal{}, g.sigs...) {
		mx, err := sg.ToMultiplexer()
		if err != nil || mx == nil || mx.GroupCount() < 2 || mx.GroupCount() > 64 {
			continue
		}
		for pos := 0; pos < mx.GroupSize(); pos++ {
			if !free(mx, 0, pos) {
				continue
			}
			hi := -1
			for k := mx.GroupCount() - 1; k >= 1; k-- {
				if !free(mx, k, pos) {
					hi = k
					break
				}
			}
			if hi < 0 {
				continue
			}
			n++
			for variant := 0; variant < 2; variant++ {
				probe, err := acmelib.NewStandardSignal(sprintf("zz_refused_%d_%d", n, variant), acmelib.NewFlagSignalType("zz_refused_flag"))
				if err != nil {
					continue
				}
				if variant == 0 {
					err = mx.InsertSignal(probe, pos)
				} else {
					err = mx.InsertSignal(probe, pos, 0, hi)
				}
				if err == nil {
					_ = mx.RemoveSignal(probe.EntityID()) // accepted after all: not what this probe is about
				}
			}
			break
		}
	}
}

func (g *genNet) assign(r *rand.Rand, x interface {
	AssignAttribute(acmelib.Attribute, any) error
}) {
	for _, a := range g.attrs {
		if r.Intn(4) != 0 {
			continue
		}
		switch a.Type() {
		case acmelib.AttributeTypeString:
			must(x.AssignAttribute(a, pick(r, "hello", "a b", "")))
		case acmelib.AttributeTypeInteger:
			must(x.AssignAttribute(a, r.Intn(200)))
		case acmelib.AttributeTypeFloat:
			must(x.AssignAttribute(a, pick(r, 0.5, 2, 99.75)))
		case acmelib.AttributeTypeEnum:
			must(x.AssignAttribute(a, pick(r, "one", "two", "three")))
		}
	}
}

func (g *genNet) newLeaf(r *rand.Rand, o genOpts, maxSize int) acmelib.Signal {
	for try := 0; try < 20; try++ {
		if r.Intn(4) == 0 {
			e := g.enums[r.Intn(len(g.enums))]
			if e.GetSize() <= maxSize {
				s, err := acmelib.NewEnumSignal(g.name(r, "es", o), e)
				must(err)
				g.decorate(r, s)
				return s
			}
			continue
		}
		t := g.types[r.Intn(len(g.types))]
		if t.Size() <= maxSize {
			s, err := acmelib.NewStandardSignal(g.name(r, "ss", o), t)
			must(err)
			if r.Intn(2) == 0 {
				s.SetUnit(g.units[r.Intn(len(g.units))])
			}
			g.decorate(r, s)
			return s
		}
	}
	return nil
}

func (g *genNet) decorate(r *rand.Rand, s acmelib.Signal) {
	if r.Intn(4) == 0 {
		s.SetDesc("signal desc")
	}
	if r.Intn(5) == 0 {
		s.SetStartValue(float64(pick(r, 1, 2, 7)))
	}
	if r.Intn(5) == 0 {
		s.SetSendType(pick(r, acmelib.SignalSendTypeCyclic, acmelib.SignalSendTypeOnChange, acmelib.SignalSendTypeIfActive))
	}
	g.assign(r, s)
	g.sigs = append(g.sigs, s)
}

// newMux builds a populated multiplexer of total size <= maxSize (or nil).
func (g *genNet) newMux(r *rand.Rand, o genOpts, maxSize, depth int) *acmelib.MultiplexerSignal {
	gc := pick(r, 2, 2, 3, 4)
	sel := 1
	if gc > 2 {
		sel = 2
	}
	gs := maxSize - sel
	if gs < 2 {
		return nil
	}
	if gs > 24 {
		gs = 8 + r.Intn(17)
	}
	mux, err := acmelib.NewMultiplexerSignal(g.name(r, "mux", o), gc, gs)
	must(err)
	g.decorate(r, mux)
	// a fixed signal at the start of every group (sometimes)
	pos := 0
	if r.Intn(3) == 0 {
		if s := g.newLeaf(r, o, min(4, gs)); s != nil {
			must(mux.InsertSignal(s, 0))
			pos = s.GetSize()
		}
	}
	// per-group signals
	for grp := 0; grp < gc; grp++ {
		p := pos
		for p < gs && r.Intn(4) != 0 {
			if depth > 1 && r.Intn(4) == 0 {
				if in := g.newMux(r, o, gs-p, depth-1); in != nil {
					must(mux.InsertSignal(in, p, grp))
					p += in.GetSize()
					continue
				}
			}
			s := g.newLeaf(r, o, gs-p)
			if s == nil {
				break
			}
			must(mux.InsertSignal(s, p, grp))
			p += s.GetSize()
			if r.Intn(3) == 0 {
				p += r.Intn(3)
			}
		}
	}
	// one multi-group signal at the very end of the groups where the room is free
	if r.Intn(3) == 0 && gc >= 2 {
		if s := g.newLeaf(r, o, 2); s != nil {
			st := gs - s.GetSize()
			if err := mux.InsertSignal(s, st, 0, 1); err != nil {
				// the room was taken: forget the signal
				g.sigs = g.sigs[:len(g.sigs)-1]
			}
		}
	}
	return mux
}

func (g *genNet) buildMessage(r *rand.Rand, o genOpts, idx int) *acmelib.Message {
	size := pick(r, 8, 8, 8, 4, 2, 1, 0, 6)
	m := acmelib.NewMessage(g.name(r, "msg", o), acmelib.MessageID(idx+1), size)
	if r.Intn(2) == 0 {
		m.SetByteOrder(acmelib.MessageByteOrderBigEndian)
	}
	m.SetPriority(acmelib.MessagePriority(r.Intn(4)))
	if r.Intn(2) == 0 {
		m.SetCycleTime(pick(r, 10, 100, 1000))
	}
	if r.Intn(5) == 0 {
		m.SetDelayTime(pick(r, 1, 5))
	}
	if r.Intn(5) == 0 {
		m.SetStartDelayTime(pick(r, 2, 20))
	}
	if r.Intn(4) == 0 {
		m.SetSendType(pick(r, acmelib.MessageSendTypeCyclic, acmelib.MessageSendTypeCyclicIfActive, acmelib.MessageSendTypeCyclicAndTriggered))
	}
	if r.Intn(3) == 0 {
		m.SetDesc("message desc")
	}
	g.assign(r, m)
	capBits := size * 8
	pos := 0
	muxes := 0
	for pos < capBits && r.Intn(6) != 0 {
		if o.maxNest > 0 && r.Intn(4) == 0 && (!o.dbcSafe || muxes == 0) {
			if mux := g.newMux(r, o, capBits-pos, o.maxNest); mux != nil {
				must(m.InsertSignal(mux, pos))
				pos += mux.GetSize()
				muxes++
				continue
			}
		}
		s := g.newLeaf(r, o, capBits-pos)
		if s == nil {
			break
		}
		if r.Intn(2) == 0 {
			must(m.AppendSignal(s))
			pos = s.GetRelativeStartPos() + s.GetSize()
		} else {
			must(m.InsertSignal(s, pos))
			pos += s.GetSize()
		}
		if r.Intn(3) == 0 {
			pos += r.Intn(4)
		}
	}
	return m
}
