package main

import (
	"sort"
	"strings"

	"github.com/squadracorsepolito/acmelib"
)

// cloneProbe (line `oracle pl cloneprobe <type> <enum>`, no model side): C05's clause on cloning —
// "every shared definition reports as its references exactly the entities that currently use it,
// also after replacement and cloning".  A clone is a NEW definition: it has its own entity id,
// the same scalar fields, starts with no references, and from then on the two reference lists
// move independently (a signal given the clone is listed by the clone only; a signal moved from
// the original to the clone leaves the original's list).  Done for a type and an enum of the
// world (whatever references they have at this point of the history) and for a fresh unit and
// fresh attributes; every object made here is thrown away, the world is left as it was.
func (e *plExec) cloneProbe(tid, eid int, line string) string {
	refIDs := func(ids []acmelib.EntityID) string {
		var xs []string
		for _, x := range ids {
			xs = append(xs, string(x))
		}
		sort.Strings(xs)
		return strings.Join(xs, ",")
	}
	bad := func(what string) string {
		e.fail("C05", "clone-shares-references", sprintf("%s: %s", line, what))
		return "clone-bad"
	}
	if t := e.types[tid]; t != nil {
		ids := func(x *acmelib.SignalType) string {
			var r []acmelib.EntityID
			for _, s := range x.References() {
				r = append(r, s.EntityID())
			}
			return refIDs(r)
		}
		before := ids(t)
		c := t.Clone()
		if c == t || c.EntityID() == t.EntityID() {
			return bad("SignalType.Clone returned the same entity")
		}
		if ids(c) != "" {
			return bad(sprintf("a fresh clone of type %d lists references [%s]", tid, ids(c)))
		}
		if c.Size() != t.Size() || c.Signed() != t.Signed() || c.Min() != t.Min() || c.Max() != t.Max() || c.Scale() != t.Scale() || c.Offset() != t.Offset() || c.Kind() != t.Kind() || c.Name() != t.Name() {
			return bad(sprintf("the clone of type %d differs in a scalar field", tid))
		}
		s1, err := acmelib.NewStandardSignal("zz_clone_a", c)
		if err == nil {
			if ids(t) != before {
				return bad(sprintf("a signal made with the CLONE of type %d is listed by the original", tid))
			}
			if ids(c) != string(s1.EntityID()) {
				return bad(sprintf("the clone of type %d lists [%s] after one signal was made with it", tid, ids(c)))
			}
		}
		s2, err := acmelib.NewStandardSignal("zz_clone_b", t)
		if err == nil {
			if !strings.Contains(ids(t), string(s2.EntityID())) || strings.Contains(ids(c), string(s2.EntityID())) {
				return bad(sprintf("a signal made with type %d is not listed by it alone", tid))
			}
			if t.Size() == c.Size() && s2.SetType(c) == nil {
				if strings.Contains(ids(t), string(s2.EntityID())) || !strings.Contains(ids(c), string(s2.EntityID())) {
					return bad(sprintf("a signal moved from type %d to its clone is still listed by the original / not by the clone", tid))
				}
				if s2.SetType(t) != nil {
					return bad("moving the probe signal back failed")
				}
			}
			// the probe signals are unattached; detach them from the world's type again
			if u := c.Clone(); u != nil {
				_ = s2.SetType(u)
			}
		}
		if ids(t) != before {
			return bad(sprintf("the reference list of type %d was not restored: before [%s], now [%s]", tid, before, ids(t)))
		}
	}
	if en := e.enums[eid]; en != nil {
		ids := func(x *acmelib.SignalEnum) string {
			var r []acmelib.EntityID
			for _, s := range x.References() {
				r = append(r, s.EntityID())
			}
			return refIDs(r)
		}
		before := ids(en)
		nvals := len(en.Values())
		c, err := en.Clone()
		if err == nil && c != nil {
			if c == en || c.EntityID() == en.EntityID() {
				return bad("SignalEnum.Clone returned the same entity")
			}
			if ids(c) != "" {
				return bad(sprintf("a fresh clone of enum %d lists references [%s]", eid, ids(c)))
			}
			if len(c.Values()) != nvals {
				return bad(sprintf("the clone of enum %d has %d values, the original %d", eid, len(c.Values()), nvals))
			}
			for i, v := range c.Values() {
				o := en.Values()[i]
				if v == o || v.EntityID() == o.EntityID() || v.ParentEnum() != c || o.ParentEnum() != en || v.Index() != o.Index() || v.Name() != o.Name() {
					return bad(sprintf("value %d of the clone of enum %d is not an independent copy", i, eid))
				}
			}
			if s, err := acmelib.NewEnumSignal("zz_clone_e", c); err == nil {
				if ids(en) != before || ids(c) != string(s.EntityID()) {
					return bad(sprintf("an enum signal made with the CLONE of enum %d is listed wrongly (original [%s], clone [%s])", eid, ids(en), ids(c)))
				}
			}
			c.RemoveAllValues()
			if len(en.Values()) != nvals {
				return bad(sprintf("emptying the clone of enum %d changed the original", eid))
			}
		}
	}
	// a unit and attributes of their own
	u := acmelib.NewSignalUnit("zz_unit", acmelib.SignalUnitKindCustom, "x")
	if t := e.types[tid]; t != nil {
		if s, err := acmelib.NewStandardSignal("zz_clone_u", t.Clone()); err == nil {
			s.SetUnit(u)
			cu := u.Clone()
			if cu == u || cu.EntityID() == u.EntityID() || len(cu.References()) != 0 || len(u.References()) != 1 {
				return bad("the clone of a unit in use does not start without references (or the original lost its one)")
			}
			s.SetUnit(cu)
			if len(u.References()) != 0 || len(cu.References()) != 1 {
				return bad("a signal moved from a unit to its clone is listed wrongly")
			}
		}
	}
	if a, err := acmelib.NewIntegerAttribute("zz_attr", 1, 0, 10); err == nil {
		m := acmelib.NewMessage("zz_clone_m", 1, 1)
		if m.AssignAttribute(a, 2) == nil {
			if c, err := a.Clone(); err == nil && c != nil {
				if c.EntityID() == a.EntityID() || len(c.References()) != 0 || len(a.References()) != 1 {
					return bad("the clone of an attribute in use does not start without references (or the original lost its one)")
				}
				if m.AssignAttribute(c, 3) == nil && (len(a.References()) != 1 || len(c.References()) != 1) {
					return bad("assigning the clone of an attribute changed the original's references")
				}
			}
		}
	}
	return "ok"
}
