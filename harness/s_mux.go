package main

import (
	"math/rand"
	"reflect"
	"sort"
	"strings"
	"unsafe"

	"github.com/squadracorsepolito/acmelib"
)

// stream mux — C07 (multiplexer groups are valid layouts with consistent membership, sizes,
// absolute start bits, message view in step) and the C06 snapshot oracles, against the Lean
// model Acme.Core.Mux (driver word `mx`).
//
//	mx sig.leaf S name size | mx sig.mux S name gc gs | mx msg.new M sizeByte
//	mx msg.app M S | mx msg.ins M S st | mx msg.rm M S | mx msg.clear M | mx msg.shl M S a | mx msg.shr M S a
//	mx mux.ins X S st [g1 g2 ...] | mx mux.rm X S | mx mux.clear X g | mx mux.clearAll X
//	mx mux.shl X S a | mx mux.shr X S a | mx leaf.size S n | mx sig.name S name
//	mx dump.msg M | mx dump.mux X | mx dump.sig S
//
// All mutations go through the public API.  The dumps additionally read (never write) the
// unexported registries of a multiplexer (fixedSignals, signalGroupIDs, signals, signalNames)
// by reflection, because the public API has no getter for them; everything a Go map yields
// is sorted before it is printed.

type muxStream struct{ baseStream }

func init() { register(muxStream{}) }

func (muxStream) Name() string    { return "mux" }
func (muxStream) Parallel() bool  { return true } // no shared state: cases run on all cores
func (muxStream) Props() []string { return []string{"C07", "C06"} }

type mxMemb struct {
	fixed bool
	ids   map[int]bool
}

type mxExec struct {
	sigs  map[int]acmelib.Signal
	msgs  map[int]*acmelib.Message
	sigID map[acmelib.EntityID]int
	fs    []Finding
	nline int

	// shadow of the membership the accepted operations ask for: mux -> signal -> groups
	memb map[int]map[int]*mxMemb
	// multiplexers whose positions are already known to be corrupted (one finding per mux)
	posTaint map[int]bool
	// a signal was accepted in two modes (fixed and with ids) in one multiplexer: the
	// membership / message-view oracles have already reported and stop
	structTaint bool
	knownTaint  bool // a finding of the recorded classes D35 / D73 was reported on this world
	panicked    bool
	// counters for the histogram
	events map[string]int
}

func newMxExec() *mxExec {
	return &mxExec{
		sigs: map[int]acmelib.Signal{}, msgs: map[int]*acmelib.Message{}, sigID: map[acmelib.EntityID]int{},
		memb: map[int]map[int]*mxMemb{}, posTaint: map[int]bool{}, events: map[string]int{},
	}
}

func (muxStream) NewExec() Exec       { return newMxExec() }
func (e *mxExec) Findings() []Finding { return e.fs }
func (e *mxExec) fail(prop, sig, d string) {
	switch sig {
	case "reinsertion-moved-signal", "shared-follower-moved", "panic-negative-start":
		// the two recorded defects of the multiplexer (D35, D73) and their direct consequence:
		// only THESE make a later "rejected but changed" a consequence of a known defect
		e.knownTaint = true
	}
	if len(e.fs) < 12 {
		e.fs = append(e.fs, Finding{Prop: prop, Sig: sig, Detail: d, Line: e.nline})
	}
}

// ---- read-only access to unexported registries ----

func mxField(ptr any, name string) reflect.Value {
	v := reflect.ValueOf(ptr).Elem()
	f := v.FieldByName(name)
	return reflect.NewAt(f.Type(), unsafe.Pointer(f.UnsafeAddr())).Elem()
}

// mxSetMap returns the map inside a *set[K,V] field of the object.
func mxSetMap(ptr any, field string) reflect.Value {
	p := mxField(ptr, field) // *set[K,V]
	mf := p.Elem().FieldByName("m")
	return reflect.NewAt(mf.Type(), unsafe.Pointer(mf.UnsafeAddr())).Elem()
}

func (e *mxExec) idOf(id acmelib.EntityID) int {
	if v, ok := e.sigID[id]; ok {
		return v
	}
	return -1
}

func mxInts(xs []int) string {
	ss := make([]string, len(xs))
	for i, x := range xs {
		ss[i] = sprintf("%d", x)
	}
	return listStr(ss)
}

func (e *mxExec) msgIDOf(m *acmelib.Message) string {
	if m == nil {
		return "-"
	}
	for k, v := range e.msgs {
		if v == m {
			return sprintf("%d", k)
		}
	}
	return "?"
}

func (e *mxExec) muxIDOf(x *acmelib.MultiplexerSignal) string {
	if x == nil {
		return "-"
	}
	return sprintf("%d", e.idOf(x.EntityID()))
}

func (e *mxExec) slotsStr(sigs []acmelib.Signal) string {
	var sl []string
	for _, s := range sigs {
		sl = append(sl, sprintf("(%d,%d,%d)", e.idOf(s.EntityID()), s.GetRelativeStartPos(), s.GetSize()))
	}
	return listStr(sl)
}

func (e *mxExec) asMux(id int) *acmelib.MultiplexerSignal {
	s := e.sigs[id]
	if s == nil || s.Kind() != acmelib.SignalKindMultiplexer {
		return nil
	}
	x, err := s.ToMultiplexer()
	if err != nil {
		return nil
	}
	return x
}

func (e *mxExec) dumpMsg(id int) string {
	m := e.msgs[id]
	if m == nil {
		return "none"
	}
	var reg []int
	for _, k := range sortedKeys(e.sigs) {
		if _, err := m.GetSignal(e.sigs[k].EntityID()); err == nil {
			reg = append(reg, k)
		}
	}
	names := m.SignalNames()
	sort.Strings(names)
	var ns []string
	for _, n := range names {
		s, err := m.GetSignalByName(n)
		if err != nil {
			ns = append(ns, n+":?")
			continue
		}
		ns = append(ns, sprintf("%s:%d", n, e.idOf(s.EntityID())))
	}
	return sprintf("cap=%d layout=%s sigs=%s names=%s", m.SizeByte()*8, e.slotsStr(m.Signals()), mxInts(reg), listStr(ns))
}

func (e *mxExec) dumpMux(id int) string {
	x := e.asMux(id)
	if x == nil {
		return "none"
	}
	var gl []string
	for _, g := range x.GetSignalGroups() {
		gl = append(gl, e.slotsStr(g))
	}
	var fixed, reg []int
	it := mxSetMap(x, "fixedSignals").MapRange()
	for it.Next() {
		fixed = append(fixed, e.idOf(acmelib.EntityID(it.Key().String())))
	}
	sort.Ints(fixed)
	it = mxSetMap(x, "signals").MapRange()
	for it.Next() {
		reg = append(reg, e.idOf(acmelib.EntityID(it.Key().String())))
	}
	sort.Ints(reg)
	gids := map[int][]int{}
	it = mxSetMap(x, "signalGroupIDs").MapRange()
	for it.Next() {
		k := e.idOf(acmelib.EntityID(it.Key().String()))
		v := it.Value()
		l := []int{}
		for i := 0; i < v.Len(); i++ {
			l = append(l, int(v.Index(i).Int()))
		}
		gids[k] = l
	}
	var gs []string
	for _, k := range sortedKeys(gids) {
		gs = append(gs, sprintf("%d:%s", k, mxInts(gids[k])))
	}
	var names []string
	it = mxSetMap(x, "signalNames").MapRange()
	for it.Next() {
		names = append(names, sprintf("%s:%d", it.Key().String(), e.idOf(acmelib.EntityID(it.Value().String()))))
	}
	sort.Strings(names)
	return sprintf("gc=%d gs=%d sel=%d size=%d groups=%s fixed=%s gids=%s sigs=%s names=%s",
		x.GroupCount(), x.GroupSize(), x.GetGroupCountSize(), x.GetSize(), listStr(gl), mxInts(fixed), listStr(gs), mxInts(reg), listStr(names))
}

func (e *mxExec) dumpSig(id int) string {
	s := e.sigs[id]
	if s == nil {
		return "none"
	}
	return sprintf("name=%s rel=%d size=%d start=%d pmux=%s pmsg=%s", s.Name(), s.GetRelativeStartPos(), s.GetSize(), s.GetStartBit(),
		e.muxIDOf(s.ParentMultiplexerSignal()), e.msgIDOf(s.ParentMessage()))
}

func (e *mxExec) worldSnap() string {
	var b strings.Builder
	for _, id := range sortedKeys(e.msgs) {
		b.WriteString(sprintf("M%d{%s}", id, e.dumpMsg(id)))
	}
	for _, id := range sortedKeys(e.sigs) {
		b.WriteString(sprintf("S%d{%s}", id, e.dumpSig(id)))
		if e.asMux(id) != nil {
			b.WriteString(sprintf("X%d{%s}", id, e.dumpMux(id)))
		}
	}
	return b.String()
}

// ---- structure queries shared by the interpreter and the generator ----

// foreign: the signal already belongs to a container other than multiplexer x (x == nil: any).
func mxForeign(s acmelib.Signal, x *acmelib.MultiplexerSignal) bool {
	if p := s.ParentMultiplexerSignal(); p != nil {
		return x == nil || p != x
	}
	return s.ParentMessage() != nil
}

// mxSelfOrAncestor: s is x or one of the multiplexers x is nested in.
func mxSelfOrAncestor(s acmelib.Signal, x *acmelib.MultiplexerSignal) bool {
	for cur := x; cur != nil; cur = cur.ParentMultiplexerSignal() {
		if cur.EntityID() == s.EntityID() {
			return true
		}
	}
	return false
}

// mxSelWidth: the number of bits needed to select one of gc groups (the property's
// "selector width for its group count"), computed independently of the library.
func mxSelWidth(gc int) int {
	w := 1
	for (1 << uint(w)) < gc {
		w++
	}
	return w
}

// ---- oracles ----

func (e *mxExec) checkSizesAndStarts(where string) {
	for _, id := range sortedKeys(e.sigs) {
		s := e.sigs[id]
		if x := e.asMux(id); x != nil {
			want := x.GroupSize() + mxSelWidth(x.GroupCount())
			if x.GetSize() != want || x.GetGroupCountSize() != mxSelWidth(x.GroupCount()) {
				e.fail("C07", "mux-size", sprintf("%s: mux %d gc %d gs %d: size %d selector %d, want %d", where, id, x.GroupCount(), x.GroupSize(), x.GetSize(), x.GetGroupCountSize(), want))
			}
		}
		want := s.GetRelativeStartPos()
		if p := s.ParentMultiplexerSignal(); p != nil {
			want = p.GetStartBit() + mxSelWidth(p.GroupCount()) + s.GetRelativeStartPos()
		}
		if s.GetStartBit() != want {
			e.fail("C07", "absolute-start", sprintf("%s: signal %d start bit %d, parent start + selector + rel = %d", where, id, s.GetStartBit(), want))
		}
	}
}

// checkGroups: every group is a well-formed layout within the group size.
// class: signature used when the violation appears right after the current operation.
func (e *mxExec) checkGroups(where, class string) {
	for _, id := range sortedKeys(e.sigs) {
		x := e.asMux(id)
		if x == nil || e.posTaint[id] {
			continue
		}
		for g := 0; g < x.GroupCount(); g++ {
			prevEnd := 0
			bad := ""
			for _, s := range x.GetSignalGroup(g) {
				st, sz := s.GetRelativeStartPos(), s.GetSize()
				if st < prevEnd {
					bad = sprintf("signal %d starts at %d before %d", e.idOf(s.EntityID()), st, prevEnd)
					break
				}
				prevEnd = st + sz
			}
			if bad == "" && prevEnd > x.GroupSize() {
				bad = sprintf("last signal ends at %d > group size %d", prevEnd, x.GroupSize())
			}
			if bad != "" {
				e.posTaint[id] = true
				e.events[class]++
				e.fail("C07", class, sprintf("%s: mux %d group %d %s: %s", where, id, g, e.slotsStr(x.GetSignalGroup(g)), bad))
				break
			}
		}
	}
}

func (e *mxExec) checkMembership(where string) {
	if e.structTaint {
		return
	}
	for _, id := range sortedKeys(e.sigs) {
		x := e.asMux(id)
		if x == nil {
			continue
		}
		exp := e.memb[id]
		for g := 0; g < x.GroupCount(); g++ {
			cnt := map[int]int{}
			for _, s := range x.GetSignalGroup(g) {
				cnt[e.idOf(s.EntityID())]++
			}
			for _, sid := range sortedKeys(exp) {
				mb := exp[sid]
				want := 0
				if mb.fixed || mb.ids[g] {
					want = 1
				}
				if cnt[sid] != want {
					sig := "group-membership"
					if mb.fixed {
						sig = "fixed-membership"
					}
					e.fail("C07", sig, sprintf("%s: mux %d group %d holds signal %d %d time(s), expected %d", where, id, g, sid, cnt[sid], want))
					e.structTaint = true
					return
				}
			}
			for _, sid := range sortedKeys(cnt) {
				if exp[sid] == nil {
					e.fail("C07", "group-membership", sprintf("%s: mux %d group %d holds signal %d that was never inserted / was removed", where, id, g, sid))
					e.structTaint = true
					return
				}
			}
		}
	}
}

func (e *mxExec) reach(m *acmelib.Message) map[int]bool {
	res := map[int]bool{}
	var walk func(s acmelib.Signal, depth int)
	walk = func(s acmelib.Signal, depth int) {
		id := e.idOf(s.EntityID())
		if res[id] || depth > 16 {
			return
		}
		res[id] = true
		if s.Kind() == acmelib.SignalKindMultiplexer {
			x, _ := s.ToMultiplexer()
			for _, g := range x.GetSignalGroups() {
				for _, c := range g {
					walk(c, depth+1)
				}
			}
		}
	}
	for _, s := range m.Signals() {
		walk(s, 0)
	}
	return res
}

func (e *mxExec) checkMessageView(where string) {
	if e.structTaint {
		return
	}
	for _, mid := range sortedKeys(e.msgs) {
		m := e.msgs[mid]
		reach := e.reach(m)
		for _, sid := range sortedKeys(e.sigs) {
			s := e.sigs[sid]
			_, err := m.GetSignal(s.EntityID())
			byName, errN := m.GetSignalByName(s.Name())
			nameOK := errN == nil && byName.EntityID() == s.EntityID()
			switch {
			case reach[sid] && err != nil:
				e.fail("C07", "message-view-out-of-step", sprintf("%s: msg %d: signal %d is reachable through the layout but GetSignal fails", where, mid, sid))
				return
			case reach[sid] && !nameOK:
				e.fail("C07", "message-view-out-of-step", sprintf("%s: msg %d: signal %d (%s) is reachable but GetSignalByName does not return it", where, mid, sid, s.Name()))
				return
			case reach[sid] && s.ParentMessage() != m:
				e.fail("C07", "message-view-out-of-step", sprintf("%s: msg %d: signal %d is reachable but ParentMessage is %s", where, mid, sid, e.msgIDOf(s.ParentMessage())))
				return
			case !reach[sid] && err == nil:
				e.fail("C07", "message-view-out-of-step", sprintf("%s: msg %d: signal %d is not reachable but GetSignal succeeds", where, mid, sid))
				return
			case !reach[sid] && s.ParentMessage() == m:
				e.fail("C07", "message-view-out-of-step", sprintf("%s: msg %d: signal %d is not reachable but ParentMessage is the message", where, mid, sid))
				return
			}
		}
		for _, n := range m.SignalNames() {
			s, err := m.GetSignalByName(n)
			if err != nil || !reach[e.idOf(s.EntityID())] || s.Name() != n {
				e.fail("C07", "message-view-out-of-step", sprintf("%s: msg %d: registered name %s does not lead to a reachable signal of that name", where, mid, n))
				return
			}
		}
	}
}

// ---- interpreter ----

func (e *mxExec) Do(line string) string {
	defer func() { e.nline++ }()
	f := fields(line)
	if len(f) < 2 {
		return "bad-op"
	}
	cmd := f[1]
	a := f[2:]
	switch cmd {
	case "dump.msg":
		return e.dumpMsg(atoi(a[0]))
	case "dump.mux":
		return e.dumpMux(atoi(a[0]))
	case "dump.sig":
		return e.dumpSig(atoi(a[0]))
	}

	before := e.worldSnap()
	class := "group-not-wellformed"
	out := e.mutate(cmd, a, line, &class)
	if strings.HasPrefix(out, "err") {
		if after := e.worldSnap(); after != before {
			sig := "rejected-but-changed"
			if e.knownTaint {
				// the objects were already corrupted by a reported defect (D35 / D73): a
				// signal twice in a slice or overlapping followers make the second
				// verification of modifySignalSize disagree with the first one
				sig = "rejected-but-changed-after-known-defect"
			}
			e.events[sig]++
			e.fail("C06", sig, sprintf("%s -> %s (state changed)", line, out))
		}
		if out == "err undocumented" {
			e.fail("C06", "undocumented-cause", line)
		}
	}
	if out == "panic" && !e.panicked {
		e.panicked = true // later panics are consequences of the abandoned call
		sig := "panic"
		for _, id := range sortedKeys(e.sigs) {
			if e.sigs[id].GetRelativeStartPos() < 0 {
				// consequence of D73: a start position became negative, generateFilters
				// shifts a mask by a negative count
				sig = "panic-negative-start"
			}
		}
		e.fail("C06", sig, line)
		// the call was abandoned half-way: the shadow does not describe the objects any more
		e.structTaint = true
		for _, id := range sortedKeys(e.sigs) {
			e.posTaint[id] = true
		}
	}
	e.checkGroups(line, class)
	e.checkMembership(line)
	e.checkSizesAndStarts(line)
	e.checkMessageView(line)
	return out
}

func (e *mxExec) entID(id int) acmelib.EntityID {
	if s := e.sigs[id]; s != nil {
		return s.EntityID()
	}
	return acmelib.EntityID("nonexistent")
}

func (e *mxExec) membOf(x, s int) *mxMemb {
	if e.memb[x] == nil {
		return nil
	}
	return e.memb[x][s]
}

func (e *mxExec) mutate(cmd string, a []string, line string, class *string) (out string) {
	defer func() {
		if r := recover(); r != nil {
			out = "panic"
		}
	}()
	switch cmd {
	case "sig.leaf":
		id := atoi(a[0])
		if e.sigs[id] != nil {
			return "unsupported"
		}
		t, err := acmelib.NewIntegerSignalType("t", atoi(a[2]), false)
		if err != nil {
			return errOut(err)
		}
		s, err := acmelib.NewStandardSignal(a[1], t)
		if err != nil {
			return errOut(err)
		}
		e.sigs[id] = s
		e.sigID[s.EntityID()] = id
		return "ok"
	case "sig.mux":
		id := atoi(a[0])
		if e.sigs[id] != nil {
			return "unsupported"
		}
		s, err := acmelib.NewMultiplexerSignal(a[1], atoi(a[2]), atoi(a[3]))
		if err != nil {
			return errOut(err)
		}
		e.sigs[id] = s
		e.sigID[s.EntityID()] = id
		e.memb[id] = map[int]*mxMemb{}
		return "ok"
	case "msg.new":
		id := atoi(a[0])
		if e.msgs[id] != nil {
			return "unsupported"
		}
		e.msgs[id] = acmelib.NewMessage(sprintf("m%d", id%3), acmelib.MessageID(1+id%2), atoi(a[1])) // detached messages may share ids and names
		return "ok"
	case "msg.app", "msg.ins":
		m := e.msgs[atoi(a[0])]
		if m == nil {
			return "unsupported"
		}
		s := e.sigs[atoi(a[1])]
		if s == nil {
			if cmd == "msg.app" {
				return errOut(m.AppendSignal(nil))
			}
			return errOut(m.InsertSignal(nil, atoi(a[2])))
		}
		if mxForeign(s, nil) {
			return "unsupported"
		}
		if cmd == "msg.app" {
			return errOut(m.AppendSignal(s))
		}
		return errOut(m.InsertSignal(s, atoi(a[2])))
	case "msg.rm":
		m := e.msgs[atoi(a[0])]
		if m == nil {
			return "unsupported"
		}
		sid := atoi(a[1])
		var pm *acmelib.MultiplexerSignal
		if s := e.sigs[sid]; s != nil {
			pm = s.ParentMultiplexerSignal()
		}
		err := m.RemoveSignal(e.entID(sid))
		if err == nil && pm != nil {
			delete(e.memb[e.idOf(pm.EntityID())], sid)
		}
		return errOut(err)
	case "msg.clear":
		m := e.msgs[atoi(a[0])]
		if m == nil {
			return "unsupported"
		}
		m.RemoveAllSignals()
		return "ok"
	case "msg.shl", "msg.shr":
		m := e.msgs[atoi(a[0])]
		if m == nil {
			return "unsupported"
		}
		if cmd == "msg.shl" {
			return sprintf("ok %d", m.ShiftSignalLeft(e.entID(atoi(a[1])), atoi(a[2])))
		}
		return sprintf("ok %d", m.ShiftSignalRight(e.entID(atoi(a[1])), atoi(a[2])))
	case "mux.ins":
		xid, sid, st := atoi(a[0]), atoi(a[1]), atoi(a[2])
		x := e.asMux(xid)
		if x == nil {
			return "unsupported"
		}
		gids := []int{}
		for _, g := range a[3:] {
			gids = append(gids, atoi(g))
		}
		s := e.sigs[sid]
		if s == nil {
			return errOut(x.InsertSignal(nil, st, gids...))
		}
		if mxForeign(s, x) || mxSelfOrAncestor(s, x) {
			return "unsupported"
		}
		wasChild := s.ParentMultiplexerSignal() == x
		prevRel := s.GetRelativeStartPos()
		pre := e.membOf(xid, sid)
		err := x.InsertSignal(s, st, gids...)
		if err != nil {
			return errOut(err)
		}
		// accepted: the property's refusals
		held := false
		for _, g := range gids {
			if g < 0 || g >= x.GroupCount() {
				e.fail("C07", "bad-group-id-accepted", sprintf("%s: group id %d outside 0..%d accepted", line, g, x.GroupCount()-1))
			} else if pre != nil && (pre.fixed || pre.ids[g]) {
				held = true
			}
		}
		if pre != nil && len(gids) == 0 {
			held = true // inserted into every group although some already hold it
		}
		if wasChild && (held || st != prevRel) {
			*class = "reinsertion-moved-signal"
		}
		if held {
			// known class D35: a group that already holds the signal accepted it again
			e.events["reinsertion-moved-signal"]++
			e.fail("C07", "reinsertion-moved-signal", sprintf("%s: accepted although a target group already holds signal %d (now twice in that group, one shared position)", line, sid))
			e.structTaint = true
		}
		mb := pre
		if mb == nil {
			mb = &mxMemb{ids: map[int]bool{}}
			e.memb[xid][sid] = mb
		}
		if len(gids) == 0 {
			mb.fixed = true
		}
		for _, g := range gids {
			mb.ids[g] = true
		}
		return "ok"
	case "mux.rm":
		x := e.asMux(atoi(a[0]))
		if x == nil {
			return "unsupported"
		}
		err := x.RemoveSignal(e.entID(atoi(a[1])))
		if err == nil {
			delete(e.memb[atoi(a[0])], atoi(a[1]))
		}
		return errOut(err)
	case "mux.clear":
		xid, g := atoi(a[0]), atoi(a[1])
		x := e.asMux(xid)
		if x == nil {
			return "unsupported"
		}
		err := x.ClearSignalGroup(g)
		if err == nil {
			for sid, mb := range e.memb[xid] {
				if !mb.fixed && mb.ids[g] {
					delete(mb.ids, g)
					if len(mb.ids) == 0 {
						delete(e.memb[xid], sid)
					}
				}
			}
		}
		return errOut(err)
	case "mux.clearAll":
		x := e.asMux(atoi(a[0]))
		if x == nil {
			return "unsupported"
		}
		x.ClearAllSignalGroups()
		e.memb[atoi(a[0])] = map[int]*mxMemb{}
		return "ok"
	case "mux.shl", "mux.shr":
		x := e.asMux(atoi(a[0]))
		if x == nil {
			return "unsupported"
		}
		if cmd == "mux.shl" {
			return sprintf("ok %d", x.ShiftSignalLeft(e.entID(atoi(a[1])), atoi(a[2])))
		}
		return sprintf("ok %d", x.ShiftSignalRight(e.entID(atoi(a[1])), atoi(a[2])))
	case "leaf.size":
		s := e.sigs[atoi(a[0])]
		if s == nil {
			return "unsupported"
		}
		ss, ok := s.(*acmelib.StandardSignal)
		if !ok {
			return "unsupported"
		}
		t, err := acmelib.NewIntegerSignalType("t", atoi(a[1]), false)
		if err != nil {
			return errOut(err)
		}
		*class = "shared-follower-moved"
		return errOut(ss.SetType(t))
	case "sig.name":
		s := e.sigs[atoi(a[0])]
		if s == nil {
			return "unsupported"
		}
		return errOut(s.UpdateName(a[1]))
	}
	return "bad-op"
}

// ---- generator with execution feedback ----

type mxGen struct {
	r      *rand.Rand
	ex     *mxExec
	sc     []string
	nextID int
	sigs   []int
	msgs   []int
}

var mxNames = []string{"a", "b", "c", "d", "e"}

func (g *mxGen) emit(l string) string {
	out := safeDo(g.ex, l)
	g.sc = append(g.sc, l)
	return out
}

func (g *mxGen) fresh() int { g.nextID++; return g.nextID }

func (g *mxGen) muxes() []int {
	var res []int
	for _, id := range g.sigs {
		if g.ex.asMux(id) != nil {
			res = append(res, id)
		}
	}
	return res
}

func (g *mxGen) leaves() []int {
	var res []int
	for _, id := range g.sigs {
		if g.ex.asMux(id) == nil {
			res = append(res, id)
		}
	}
	return res
}

func (g *mxGen) free() []int {
	var res []int
	for _, id := range g.sigs {
		if !mxForeign(g.ex.sigs[id], nil) {
			res = append(res, id)
		}
	}
	return res
}

func (g *mxGen) children(x int) []int {
	var res []int
	mx := g.ex.asMux(x)
	for _, id := range g.sigs {
		if p := g.ex.sigs[id].ParentMultiplexerSignal(); p != nil && p == mx {
			res = append(res, id)
		}
	}
	return res
}

func (g *mxGen) attached() []int {
	var res []int
	for _, id := range g.sigs {
		if mxForeign(g.ex.sigs[id], nil) {
			res = append(res, id)
		}
	}
	return res
}

// depth of a multiplexer (1 = not nested in another one)
func (g *mxGen) depth(x int) int {
	d := 0
	for cur := g.ex.asMux(x); cur != nil; cur = cur.ParentMultiplexerSignal() {
		d++
	}
	return d
}

// height of a signal: 0 for a leaf, 1 + the highest child for a multiplexer
func (g *mxGen) height(s int) int {
	if g.ex.asMux(s) == nil {
		return 0
	}
	h := 0
	for _, c := range g.children(s) {
		if ch := g.height(c); ch > h {
			h = ch
		}
	}
	return 1 + h
}

func (g *mxGen) pickOf(xs []int) (int, bool) {
	if len(xs) == 0 {
		return 0, false
	}
	return xs[g.r.Intn(len(xs))], true
}

// freeStarts: the start bits at which a signal of the given size fits into all the groups.
func (g *mxGen) freeStarts(x *acmelib.MultiplexerSignal, size int, groups []int, ignore acmelib.Signal) []int {
	var res []int
	for st := 0; st+size <= x.GroupSize(); st++ {
		ok := true
		for _, gi := range groups {
			for _, s := range x.GetSignalGroup(gi) {
				if ignore != nil && s.EntityID() == ignore.EntityID() {
					continue
				}
				a, b := s.GetRelativeStartPos(), s.GetRelativeStartPos()+s.GetSize()
				if !(st+size <= a || b <= st) {
					ok = false
				}
			}
		}
		if ok {
			res = append(res, st)
		}
	}
	return res
}

func (g *mxGen) chooseGroups(gc int) []int {
	r := g.r
	switch k := r.Intn(10); {
	case k < 3:
		return nil // fixed
	case k < 6:
		return []int{r.Intn(gc)}
	default:
		n := 2 + r.Intn(3)
		var res []int
		for i := 0; i < n; i++ {
			res = append(res, r.Intn(gc))
		}
		return res
	}
}

func mxUniqValid(gids []int, gc int) []int {
	seen := map[int]bool{}
	var res []int
	for _, x := range gids {
		if x >= 0 && x < gc && !seen[x] {
			seen[x] = true
			res = append(res, x)
		}
	}
	return res
}

func mxGidsArgs(gids []int) string {
	var b strings.Builder
	for _, x := range gids {
		b.WriteString(sprintf(" %d", x))
	}
	return b.String()
}

// nestedSignals: s and everything nested in it (through the groups).
func (g *mxGen) nestedSignals(s acmelib.Signal) []acmelib.Signal {
	res := []acmelib.Signal{s}
	seen := map[acmelib.EntityID]bool{s.EntityID(): true}
	for i := 0; i < len(res) && i < 64; i++ {
		if res[i].Kind() != acmelib.SignalKindMultiplexer {
			continue
		}
		x, _ := res[i].ToMultiplexer()
		for _, grp := range x.GetSignalGroups() {
			for _, c := range grp {
				if !seen[c.EntityID()] {
					seen[c.EntityID()] = true
					res = append(res, c)
				}
			}
		}
	}
	return res
}

// namesFreeIn: no name of s (or of a signal nested in it) is registered in the message.
func (g *mxGen) namesFreeIn(m *acmelib.Message, s acmelib.Signal) bool {
	for _, t := range g.nestedSignals(s) {
		if _, err := m.GetSignalByName(t.Name()); err == nil {
			return false
		}
	}
	return true
}

// nameOKInMux: inserting s into x will not be refused because of a name.
func (g *mxGen) nameOKInMux(xid int, s acmelib.Signal) bool {
	x := g.ex.asMux(xid)
	if s.ParentMultiplexerSignal() == x {
		return true
	}
	for _, c := range g.children(xid) {
		if g.ex.sigs[c].Name() == s.Name() {
			return false
		}
	}
	if m := x.ParentMessage(); m != nil {
		return g.namesFreeIn(m, s)
	}
	return true
}

// rareName: a name from the pool that is used least in the world.
func (g *mxGen) rareName() string {
	cnt := map[string]int{}
	for _, id := range g.sigs {
		cnt[g.ex.sigs[id].Name()]++
	}
	best := []string{}
	bc := 1 << 30
	for _, n := range mxNames {
		if cnt[n] < bc {
			bc = cnt[n]
			best = []string{n}
		} else if cnt[n] == bc {
			best = append(best, n)
		}
	}
	if g.r.Intn(4) == 0 {
		return pick(g.r, mxNames...)
	}
	return best[g.r.Intn(len(best))]
}

func (g *mxGen) newLeaf() {
	r := g.r
	s := g.fresh()
	sz := pick(r, 1, 1, 2, 2, 3, 4, 4, 5, 6, 8, 8, 10, 12, 16, 1+r.Intn(24))
	if r.Intn(30) == 0 {
		sz = pick(r, 0, -1, 64, 70)
	}
	if g.emit(sprintf("mx sig.leaf %d %s %d", s, g.rareName(), sz)) == "ok" {
		g.sigs = append(g.sigs, s)
	}
}

func (g *mxGen) newMux() {
	r := g.r
	s := g.fresh()
	gc := 1 + r.Intn(9)
	if r.Intn(25) == 0 {
		gc = pick(r, 0, -1)
	}
	var gs int
	switch r.Intn(4) {
	case 0:
		gs = 24 + r.Intn(17)
	case 1:
		gs = 10 + r.Intn(11)
	case 2:
		gs = 2 + r.Intn(7)
	default:
		gs = 1 + r.Intn(40)
	}
	if r.Intn(25) == 0 {
		gs = pick(r, 0, -1)
	}
	if g.emit(sprintf("mx sig.mux %d %s %d %d", s, g.rareName(), gc, gs)) == "ok" {
		g.sigs = append(g.sigs, s)
	}
}

func (g *mxGen) newMsg() {
	m := g.fresh()
	g.emit(sprintf("mx msg.new %d %d", m, pick(g.r, 8, 8, 8, 8, 6, 4, 2, 1, 0)))
	g.msgs = append(g.msgs, m)
}

func (g *mxGen) attachToMsg() {
	r := g.r
	m, ok := g.pickOf(g.msgs)
	if !ok {
		return
	}
	cands := g.free()
	var good, goodMux []int
	for _, c := range cands {
		if g.namesFreeIn(g.ex.msgs[m], g.ex.sigs[c]) && g.ex.sigs[c].GetSize() <= g.ex.msgs[m].SizeByte()*8 {
			good = append(good, c)
			if g.ex.asMux(c) != nil {
				goodMux = append(goodMux, c)
			}
		}
	}
	if len(goodMux) > 0 && r.Intn(2) == 0 {
		cands = goodMux
	} else if len(good) > 0 && r.Intn(8) != 0 {
		cands = good
	}
	s, ok2 := g.pickOf(cands)
	if !ok2 {
		return
	}
	if r.Intn(3) == 0 {
		g.emit(sprintf("mx msg.app %d %d", m, s))
		return
	}
	msg := g.ex.msgs[m]
	st := r.Intn(max(1, msg.SizeByte()*8))
	if r.Intn(2) == 0 {
		// first fitting start
		size := g.ex.sigs[s].GetSize()
		var cand []int
		for c := 0; c+size <= msg.SizeByte()*8; c++ {
			fit := true
			for _, t := range msg.Signals() {
				a, b := t.GetRelativeStartPos(), t.GetRelativeStartPos()+t.GetSize()
				if !(c+size <= a || b <= c) {
					fit = false
				}
			}
			if fit {
				cand = append(cand, c)
			}
		}
		if len(cand) > 0 {
			st = cand[r.Intn(len(cand))]
		}
	}
	if r.Intn(30) == 0 {
		st = pick(r, -1, 64, 1000)
	}
	g.emit(sprintf("mx msg.ins %d %d %d", m, s, st))
}

func (g *mxGen) insertNew() {
	r := g.r
	xs := g.muxes()
	var att []int
	for _, id := range xs {
		if g.ex.sigs[id].ParentMessage() != nil {
			att = append(att, id)
		}
	}
	if len(att) > 0 && r.Intn(2) == 0 {
		xs = att
	}
	xid, ok := g.pickOf(xs)
	if !ok {
		return
	}
	x := g.ex.asMux(xid)
	var cands []int
	for _, s := range g.free() {
		if s == xid || mxSelfOrAncestor(g.ex.sigs[s], x) {
			continue
		}
		if g.depth(xid)+g.height(s) > 3 {
			continue
		}
		cands = append(cands, s)
	}
	// prefer signals that fit
	var fit, fitMux []int
	for _, s := range cands {
		if g.ex.sigs[s].GetSize() <= x.GroupSize() && (g.nameOKInMux(xid, g.ex.sigs[s]) || r.Intn(6) == 0) {
			fit = append(fit, s)
			if g.ex.asMux(s) != nil {
				fitMux = append(fitMux, s)
			}
		}
	}
	if len(fitMux) > 0 && r.Intn(3) == 0 {
		cands = fitMux
	} else if len(fit) > 0 && r.Intn(8) != 0 {
		cands = fit
	}
	sid, ok := g.pickOf(cands)
	if !ok {
		return
	}
	gc := x.GroupCount()
	gids := g.chooseGroups(gc)
	switch r.Intn(20) {
	case 0:
		gids = append(gids, pick(r, -1, gc, gc+1, 100))
	case 1:
		if len(gids) > 0 { // non-adjacent duplicate
			gids = append(gids, r.Intn(gc), gids[0])
		}
	}
	target := mxUniqValid(gids, gc)
	if len(gids) == 0 {
		for i := 0; i < gc; i++ {
			target = append(target, i)
		}
	}
	st := r.Intn(x.GroupSize() + 2)
	if fs := g.freeStarts(x, g.ex.sigs[sid].GetSize(), target, nil); len(fs) > 0 && r.Intn(10) < 7 {
		st = fs[r.Intn(len(fs))]
		if r.Intn(2) == 0 {
			st = fs[0]
		}
	}
	if r.Intn(40) == 0 {
		st = pick(r, -1, -5, x.GroupSize(), 1<<40)
	}
	g.emit(sprintf("mx mux.ins %d %d %d%s", xid, sid, st, mxGidsArgs(gids)))
}

func (g *mxGen) insertAgain() {
	r := g.r
	var xs []int
	for _, x := range g.muxes() {
		if len(g.children(x)) > 0 {
			xs = append(xs, x)
		}
	}
	xid, ok := g.pickOf(xs)
	if !ok {
		g.insertNew()
		return
	}
	x := g.ex.asMux(xid)
	sid, _ := g.pickOf(g.children(xid))
	s := g.ex.sigs[sid]
	mb := g.ex.membOf(xid, sid)
	gc := x.GroupCount()
	var further []int
	for i := 0; i < gc; i++ {
		if mb == nil || (!mb.fixed && !mb.ids[i]) {
			further = append(further, i)
		}
	}
	var gids []int
	switch k := r.Intn(20); {
	case k < 13 && len(further) > 0: // further groups
		r.Shuffle(len(further), func(i, j int) { further[i], further[j] = further[j], further[i] })
		gids = append(gids, further[:1+r.Intn(min(3, len(further)))]...)
	case k < 15: // a group that already holds it (to be refused)
		gids = []int{r.Intn(gc)}
		if len(further) > 0 && r.Intn(2) == 0 {
			gids = append(gids, further[0])
		}
	case k < 17: // again without ids
		gids = nil
	case k < 18:
		gids = []int{pick(r, -1, gc, gc+3)}
	default:
		gids = []int{r.Intn(gc), r.Intn(gc)}
	}
	st := s.GetRelativeStartPos()
	if r.Intn(7) == 0 { // another position (D35)
		st = r.Intn(x.GroupSize() + 1)
		if fs := g.freeStarts(x, s.GetSize(), mxUniqValid(gids, gc), s); len(fs) > 0 && r.Intn(2) == 0 {
			st = fs[r.Intn(len(fs))]
		}
	}
	g.emit(sprintf("mx mux.ins %d %d %d%s", xid, sid, st, mxGidsArgs(gids)))
}

func (g *mxGen) removeOne() {
	r := g.r
	att := g.attached()
	sid, ok := g.pickOf(att)
	if !ok {
		return
	}
	s := g.ex.sigs[sid]
	if r.Intn(15) == 0 {
		sid = 9000 + r.Intn(3)
	}
	viaMsg := s.ParentMessage() != nil && r.Intn(2) == 0
	if viaMsg {
		g.emit(sprintf("mx msg.rm %s %d", g.ex.msgIDOf(s.ParentMessage()), sid))
		return
	}
	if p := s.ParentMultiplexerSignal(); p != nil {
		g.emit(sprintf("mx mux.rm %d %d", g.ex.idOf(p.EntityID()), sid))
		return
	}
	if s.ParentMessage() != nil {
		g.emit(sprintf("mx msg.rm %s %d", g.ex.msgIDOf(s.ParentMessage()), sid))
	}
}

func (g *mxGen) clearSome() {
	r := g.r
	switch k := r.Intn(10); {
	case k < 6:
		if xid, ok := g.pickOf(g.muxes()); ok {
			gc := g.ex.asMux(xid).GroupCount()
			gi := r.Intn(gc)
			if r.Intn(12) == 0 {
				gi = pick(r, -1, gc, gc+2)
			}
			g.emit(sprintf("mx mux.clear %d %d", xid, gi))
		}
	case k < 8:
		if xid, ok := g.pickOf(g.muxes()); ok {
			g.emit(sprintf("mx mux.clearAll %d", xid))
		}
	default:
		if m, ok := g.pickOf(g.msgs); ok && r.Intn(2) == 0 {
			g.emit(sprintf("mx msg.clear %d", m))
		}
	}
}

func (g *mxGen) shiftOne() {
	r := g.r
	sid, ok := g.pickOf(g.attached())
	if !ok {
		return
	}
	s := g.ex.sigs[sid]
	amount := 1 + r.Intn(8)
	if r.Intn(15) == 0 {
		amount = pick(r, 0, -1, 100, 1<<40)
	}
	dir := pick(r, "shl", "shr")
	if p := s.ParentMultiplexerSignal(); p != nil && r.Intn(6) != 0 {
		g.emit(sprintf("mx mux.%s %d %d %d", dir, g.ex.idOf(p.EntityID()), sid, amount))
		return
	}
	if m := s.ParentMessage(); m != nil {
		g.emit(sprintf("mx msg.%s %s %d %d", dir, g.ex.msgIDOf(m), sid, amount))
	}
}

func (g *mxGen) resizeLeaf() {
	r := g.r
	var cands []int
	for _, id := range g.leaves() {
		if mxForeign(g.ex.sigs[id], nil) || r.Intn(6) == 0 {
			cands = append(cands, id)
		}
	}
	sid, ok := g.pickOf(cands)
	if !ok {
		return
	}
	cur := g.ex.sigs[sid].GetSize()
	n := cur + pick(r, -4, -3, -2, -1, -1, 1, 1, 2, 3, 4, 6)
	if r.Intn(5) == 0 || n < 1 {
		n = 1 + r.Intn(16)
	}
	if r.Intn(25) == 0 {
		n = pick(r, 0, -1, 64, cur)
	}
	g.emit(sprintf("mx leaf.size %d %d", sid, n))
}

func (g *mxGen) odd() {
	r := g.r
	switch r.Intn(6) {
	case 0: // re-attachment (unsupported on both sides)
		if sid, ok := g.pickOf(g.attached()); ok {
			if m, ok := g.pickOf(g.msgs); ok && r.Intn(2) == 0 {
				g.emit(sprintf("mx msg.app %d %d", m, sid))
			} else if x, ok := g.pickOf(g.muxes()); ok {
				g.emit(sprintf("mx mux.ins %d %d %d", x, sid, r.Intn(8)))
			}
		}
	case 1: // a multiplexer into itself / a descendant
		if x, ok := g.pickOf(g.muxes()); ok {
			tgt := x
			if cs := g.children(x); len(cs) > 0 && r.Intn(2) == 0 {
				tgt = cs[r.Intn(len(cs))]
			}
			g.emit(sprintf("mx mux.ins %d %d 0", tgt, x))
		}
	case 2: // unknown ids
		if x, ok := g.pickOf(g.muxes()); ok {
			if r.Intn(2) == 0 {
				g.emit(sprintf("mx mux.rm %d %d", x, 9000+r.Intn(3)))
			} else {
				g.emit(sprintf("mx mux.ins %d %d 0%s", x, 9000+r.Intn(3), pick(r, "", " 0")))
			}
		}
	case 3:
		if m, ok := g.pickOf(g.msgs); ok {
			g.emit(sprintf("mx %s %d %d", pick(r, "msg.rm", "msg.app"), m, 9000+r.Intn(3)))
		}
	case 4: // operations on a leaf as if it were a multiplexer, unknown containers
		if l, ok := g.pickOf(g.leaves()); ok {
			g.emit(sprintf("mx mux.clear %d 0", l))
		}
		g.emit(sprintf("mx msg.clear %d", 9000))
	case 5: // removal / shift of a signal through a multiplexer that does not hold it
		if x, ok := g.pickOf(g.muxes()); ok {
			if s, ok := g.pickOf(g.sigs); ok {
				if r.Intn(2) == 0 {
					g.emit(sprintf("mx mux.rm %d %d", x, s))
				} else {
					g.emit(sprintf("mx %s %d %d %d", pick(r, "mux.shl", "mux.shr"), x, s, 1+r.Intn(4)))
				}
			}
		}
	}
}

func (g *mxGen) observe() {
	r := g.r
	if m, ok := g.pickOf(g.msgs); ok {
		g.emit(sprintf("mx dump.msg %d", m))
	}
	if x, ok := g.pickOf(g.muxes()); ok {
		g.emit(sprintf("mx dump.mux %d", x))
	}
	if s, ok := g.pickOf(g.sigs); ok && r.Intn(2) == 0 {
		g.emit(sprintf("mx dump.sig %d", s))
	}
}

// chain: a message with multiplexers nested up to three deep, composed in a random order
// (outermost first = populated after attachment, innermost first = populated before).
func (g *mxGen) chain() {
	r := g.r
	depth := 1 + r.Intn(3)
	names := append([]string{}, mxNames...)
	r.Shuffle(len(names), func(i, j int) { names[i], names[j] = names[j], names[i] })
	var ids []int
	sizes := [][2]int{{30, 11}, {14, 7}, {3, 6}}
	if depth == 1 {
		sizes = [][2]int{{8, 33}}
	}
	for d := 0; d < depth; d++ {
		id := g.fresh()
		gc := 1 + r.Intn(4)
		if d == depth-1 {
			gc = 1 + r.Intn(9)
		}
		gs := sizes[d][0] + r.Intn(sizes[d][1])
		if g.emit(sprintf("mx sig.mux %d %s %d %d", id, names[d], gc, gs)) == "ok" {
			g.sigs = append(g.sigs, id)
			ids = append(ids, id)
		}
	}
	if len(ids) != depth || len(g.msgs) == 0 {
		return
	}
	m := g.msgs[0]
	// the composition steps: attach ids[0] to the message, ids[d+1] into ids[d]
	steps := []int{-1}
	for d := 0; d+1 < depth; d++ {
		steps = append(steps, d)
	}
	switch r.Intn(3) {
	case 0: // innermost first
		for i, j := 0, len(steps)-1; i < j; i, j = i+1, j-1 {
			steps[i], steps[j] = steps[j], steps[i]
		}
	case 1:
		r.Shuffle(len(steps), func(i, j int) { steps[i], steps[j] = steps[j], steps[i] })
	}
	leaf := func(parent int) {
		id := g.fresh()
		x := g.ex.asMux(parent)
		sz := 1 + r.Intn(min(4, x.GroupSize()))
		if g.emit(sprintf("mx sig.leaf %d %s %d", id, names[3+r.Intn(2)], sz)) == "ok" {
			g.sigs = append(g.sigs, id)
			gids := g.chooseGroups(x.GroupCount())
			tgt := mxUniqValid(gids, x.GroupCount())
			if len(gids) == 0 {
				for i := 0; i < x.GroupCount(); i++ {
					tgt = append(tgt, i)
				}
			}
			st := 0
			if fs := g.freeStarts(x, sz, tgt, nil); len(fs) > 0 {
				st = fs[len(fs)-1-r.Intn(min(3, len(fs)))]
			}
			g.emit(sprintf("mx mux.ins %d %d %d%s", parent, id, st, mxGidsArgs(gids)))
		}
	}
	for _, st := range steps {
		if r.Intn(3) == 0 {
			leaf(ids[r.Intn(len(ids))])
		}
		if st < 0 {
			if r.Intn(2) == 0 {
				g.emit(sprintf("mx msg.app %d %d", m, ids[0]))
			} else {
				g.emit(sprintf("mx msg.ins %d %d %d", m, ids[0], r.Intn(8)))
			}
			continue
		}
		x := g.ex.asMux(ids[st])
		gids := g.chooseGroups(x.GroupCount())
		tgt := mxUniqValid(gids, x.GroupCount())
		if len(gids) == 0 {
			for i := 0; i < x.GroupCount(); i++ {
				tgt = append(tgt, i)
			}
		}
		pos := 0
		if fs := g.freeStarts(x, g.ex.sigs[ids[st+1]].GetSize(), tgt, nil); len(fs) > 0 {
			pos = fs[r.Intn(min(4, len(fs)))]
		}
		g.emit(sprintf("mx mux.ins %d %d %d%s", ids[st], ids[st+1], pos, mxGidsArgs(gids)))
	}
}

func (g *mxGen) step() {
	switch k := g.r.Intn(100); {
	case k < 8:
		g.newLeaf()
	case k < 13:
		g.newMux()
	case k < 14:
		if len(g.msgs) < 3 {
			g.newMsg()
		}
	case k < 23:
		g.attachToMsg()
	case k < 45:
		g.insertNew()
	case k < 57:
		g.insertAgain()
	case k < 63:
		g.removeOne()
	case k < 67:
		g.clearSome()
	case k < 75:
		g.shiftOne()
	case k < 88:
		g.resizeLeaf()
	case k < 91:
		if s, ok := g.pickOf(g.sigs); ok {
			g.emit(sprintf("mx sig.name %d %s", s, pick(g.r, mxNames...)))
		}
	case k < 95:
		g.odd()
	default:
		g.observe()
	}
}

// growScene: a signal that lives in several groups (or is fixed) with DIFFERENT single-group
// followers per group — room to grow in the first group (the follower has to be pushed), too
// little room in a later one — and then size changes of it: growth that is refused (nothing may
// move in ANY group), growth that fits, shrinking.  Every follower is exclusive to one group,
// so the history is admissible (outside D73).
func (g *mxGen) growScene() {
	r := g.r
	x, f, a, b := g.fresh(), g.fresh(), g.fresh(), g.fresh()
	gs := 12 + r.Intn(8)
	if g.emit(sprintf("mx sig.mux %d gx%d %d %d", x, x, 2+r.Intn(3), gs)) != "ok" {
		return
	}
	g.sigs = append(g.sigs, x)
	fsz := 2 + r.Intn(3)
	g.emit(sprintf("mx sig.leaf %d gf%d %d", f, f, fsz))
	g.emit(sprintf("mx sig.leaf %d ga%d %d", a, a, 2+r.Intn(3)))
	bsz := gs - fsz - r.Intn(2) // fills group 1 behind f (up to one free bit)
	g.emit(sprintf("mx sig.leaf %d gb%d %d", b, b, bsz))
	g.sigs = append(g.sigs, f, a, b)
	if r.Intn(3) == 0 {
		g.emit(sprintf("mx mux.ins %d %d 0", x, f)) // fixed
	} else {
		g.emit(sprintf("mx mux.ins %d %d 0 0 1", x, f))
	}
	g.emit(sprintf("mx mux.ins %d %d %d 0", x, a, fsz+r.Intn(2)))
	g.emit(sprintf("mx mux.ins %d %d %d 1", x, b, fsz))
	if len(g.msgs) > 0 && r.Intn(2) == 0 {
		g.emit(sprintf("mx msg.app %d %d", g.msgs[r.Intn(len(g.msgs))], x))
	}
	g.emit(sprintf("mx dump.mux %d", x))
	for _, n := range []int{fsz + 2 + r.Intn(4), fsz + 1, fsz - 1, fsz + 1 + r.Intn(2)} {
		g.emit(sprintf("mx leaf.size %d %d", f, n))
		g.emit(sprintf("mx dump.mux %d", x))
	}
}

func (muxStream) Gen(r *rand.Rand, tier string, idx int) []string {
	g := &mxGen{r: r, ex: newMxExec()}
	// seed a useful world quickly
	for i := 0; i < 1+r.Intn(2); i++ {
		g.newMsg()
	}
	if r.Intn(10) < 6 {
		g.chain()
	}
	for i := 0; i < 1+r.Intn(2); i++ {
		g.newMux()
	}
	for i := 0; i < 3; i++ {
		g.newLeaf()
	}
	if idx%4 == 2 {
		g.growScene()
	}
	n := 30 + r.Intn(51)
	if tier == "thorough" {
		n = 60 + r.Intn(141)
	}
	for len(g.sc) < n {
		g.step()
	}
	for _, m := range g.msgs {
		g.emit(sprintf("mx dump.msg %d", m))
	}
	for _, s := range g.sigs {
		if g.ex.asMux(s) != nil {
			g.emit(sprintf("mx dump.mux %d", s))
		}
		g.emit(sprintf("mx dump.sig %d", s))
	}
	return g.sc
}

func (muxStream) Tag(lines, outs []string) (bool, []string) {
	var tags []string
	okMut, errMut := 0, 0
	isMux := map[string]bool{}
	parent := map[string]string{} // signal -> multiplexer
	inMsg := map[string]bool{}    // top-level signals of a message
	depthOf := func(x string) (int, bool) {
		d := 0
		for cur, n := x, 0; cur != "" && n < 10; cur, n = parent[cur], n+1 {
			d++
			if inMsg[cur] {
				return d, true
			}
		}
		return d, false
	}
	for i, l := range lines {
		f := fields(l)
		if len(f) < 2 || strings.HasPrefix(f[1], "dump.") {
			continue
		}
		o := outs[i]
		name := f[1]
		okk := strings.HasPrefix(o, "ok")
		switch name {
		case "sig.mux":
			if okk {
				isMux[f[2]] = true
			}
		case "msg.app", "msg.ins":
			if okk {
				inMsg[f[3]] = true
			}
		case "msg.rm", "mux.rm":
			if okk {
				delete(inMsg, f[3])
				delete(parent, f[3])
			}
		case "msg.clear":
			if okk {
				inMsg = map[string]bool{}
			}
		case "mux.clearAll":
			if okk {
				for k, v := range parent {
					if v == f[2] {
						delete(parent, k)
					}
				}
			}
		case "mux.ins":
			form := "many"
			switch len(f) {
			case 5:
				form = "fixed"
			case 6:
				form = "one"
			}
			name = "mux.ins/" + form
			if okk {
				d, att := depthOf(f[2])
				if isMux[f[3]] {
					d++
				}
				where := "detached"
				if att {
					where = "attached"
				}
				again := ""
				if parent[f[3]] == f[2] {
					again = "/again"
				}
				tags = append(tags, sprintf("nest:%d/%s%s", d, where, again))
				parent[f[3]] = f[2]
			}
		}
		switch {
		case okk:
			tags = append(tags, name+":ok")
			okMut++
		case strings.HasPrefix(o, "err"):
			tags = append(tags, name+":"+o)
			errMut++
		case o == "unsupported" || o == "panic":
			tags = append(tags, name+":"+o)
		}
	}
	return okMut >= 8 && errMut >= 1, tags
}
