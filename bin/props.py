"""Per-property configuration of bin/check (which Lean module carries the theorems,
which harness streams tie the model to /repo, and what the evidence says)."""

COMMON_TRUST = [
    "Go toolchain/runtime semantics; the harness (harness/*.go), its canonicalisation and oracles",
    "Lean compiler/runtime for the model driver (a miscompilation would show as a divergence)",
]

PROPS = {
    "C03": {
        "module": "Acme.Props.C03",
        "level": "proof",
        "streams": [{"name": "arith", "quick": 400, "thorough": 20000}],
        "theorems": ["C03_signExtend", "C03_int_signed", "C03_int_unsigned", "C03_float_signed",
                     "C03_float_unsigned", "C03_flag", "C03_enum_hit", "C03_enum_miss",
                     "C03_range_signed", "C03_range_unsigned", "C03_calcSize", "C03_enumSize", "C03_muxSel"],
        "rule": "scripts = decodes of one signal of every kind/size/signedness through the real Message.SignalLayout().Decode (boundary and random raw values, integral scale/offset for integer kinds, dyadic scale/offset for decimal kinds), type ranges of NewIntegerSignalType/NewDecimalSignalType, enum widths through real enums (AddValue, SetMinSize), selector widths through real multiplexers; exhaustive part: every raw value of every size <= 8 (quick) / <= 12 (thorough) bits x both signednesses x integer and decimal kinds, all 64x2 ranges, calcSize at 2^k-1, 2^k, 2^k+1 for k < 63, selector widths for 1..300 groups; non-trivial = a negative decoded value; distinct by script text",
        "exhaustive_note": "all raw values for sizes 1..8 (quick) / 1..12 (thorough), all 128 type ranges, all power-of-two boundaries of calcSizeFromValue, group counts 1..300",
        "trusted": COMMON_TRUST + ["float64 rounding of the decimal/custom kinds is not modelled (values over Q, compared at 1e-9)", "float64(min/max) conversion of the integer ranges: compared after rounding the model's exact integer to float64"],
        "assumptions": ["int64(float) / uint64(float) conversions of integral scale and offset are exact (|x| < 2^53 in the generator)"],
    },
    "C14": {
        "module": "Acme.Props.C14",
        "level": "proof",
        "streams": [{"name": "canid", "quick": 400, "thorough": 20000}],
        "theorems": ["C14_id_op", "C14_mask_op", "C14_static", "C14_unattached", "C14_attached",
                     "C14_last_partial", "C14_default_11bit", "C14_can2a_11bit", "C14_insert",
                     "C14_remove", "C14_insert_valid"],
        "rule": "scripts = builder op lists (all kinds, from/len in and out of range, extreme ints) x (priority, message id, node id) over the 32-bit range x attachment states, executed on real Bus/Node/Message objects; exhaustive part: every single (kind, from, len) with 0<=from<=31, 0<=len<=32-from; non-trivial = at least one op with len>0 and a non-zero source; distinct by script text",
        "exhaustive_note": "all 4x560 valid single-operation shapes x fixed input triples",
        "trusted": COMMON_TRUST,
        "assumptions": ["uint32 conversion and shift semantics of Go are as modelled (u32, shift >= 32 gives 0); validated by the correspondence run"],
    },
    "C17": {
        "module": "Acme.Props.C17",
        "level": "proof",
        "streams": [{"name": "busload", "quick": 400, "thorough": 20000}],
        "theorems": ["C17_frameBits", "C17_load", "C17_shares", "C17_zero_baud", "C17_refused",
                     "C17_mono_size", "C17_mono_cycle"],
        "rule": "scripts = buses with 0..4 node interfaces and 0..12 messages (sizes 0..8, cycle 0 or 1..3600000, near-equal rates included), baud rates incl. 0, default cycle incl. <= 0; real CalculateBusLoad vs the model over Q at 1e-9 relative; non-trivial = >= 2 messages with different rates; distinct by script text",
        "trusted": COMMON_TRUST + ["IEEE-754 float64 arithmetic of CalculateBusLoad is not modelled: the theorems are over Q, the harness compares at 1e-9 relative tolerance"],
        "assumptions": ["float64 rounding error of the load expression stays below 1e-9 relative on the explored inputs"],
    },
    "C19": {
        "module": "Acme.Props.C19",
        "level": "proof",
        "streams": [{"name": "avl", "quick": 300, "thorough": 20000}],
        "theorems": ["C19_history", "C19_sorted", "C19_intersects", "C19_canUpdate"],
        "rule": "scripts = insert/delete/clear/query sequences over intervals (inverted, duplicate lows, equal intervals, pairwise-disjoint mode), dumps compare size, in-order contents and the pre-order tree shape (low, high, max, height, children) through the verif hook; exhaustive part: every insert/delete sequence of length 4 (quick) / 6 (thorough) over coordinates 0..2; non-trivial = >= 2 inserts and >= 1 delete; distinct by script text",
        "exhaustive_note": "all insert/delete sequences of length 4 (quick) or 6 (thorough) over the 6 proper intervals with coordinates 0..2",
        "trusted": COMMON_TRUST,
        "assumptions": ["Go int arithmetic does not overflow on the coordinates used (model uses unbounded Int)"],
    },
}
