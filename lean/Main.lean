/-
Line-protocol driver for the executable model (core Lean only; no Mathlib import may be
reachable from here, otherwise the executable does not link).

One input line = one output line.  First token selects the stream; `reset` re-initialises
every stream's state (start of a case).
-/
import Acme.Driver.Util
import Acme.Driver.Avl
import Acme.Driver.CanId
import Acme.Driver.BusLoad
import Acme.Driver.Arith
import Acme.Driver.Payload
import Acme.Driver.Mux
import Acme.Driver.Graph
import Acme.Driver.Dbc
import Acme.Driver.Md
import Acme.Driver.Conv
import Acme.Driver.SaveSel
import Acme.Driver.Import
import Acme.Driver.Save
import Acme.Driver.SaveScalar
import Acme.Driver.Attr
import Acme.Driver.ImportBus
import Acme.Driver.ImportFile

open Acme.Driver

structure DState where
  avl : AvlD.St := AvlD.init
  pl : PayloadD.St := {}
  mx : MuxD.St := {}
  gr : GraphD.St := {}

def stepLine (s : DState) (line : String) : DState × String :=
  let toks := (line.splitOn " ").filter (· ≠ "")
  match toks with
  | ["reset"] => ({}, "reset")
  | "avl" :: rest => let (a, o) := AvlD.handle s.avl rest; ({ s with avl := a }, o)
  | "canid" :: rest => (s, CanIdD.handle rest)
  | "busload" :: rest => (s, BusLoadD.handle rest)
  | "arith" :: rest => (s, ArithD.handle rest)
  | "pl" :: rest => let (a, o) := PayloadD.handle s.pl rest; ({ s with pl := a }, o)
  | "mx" :: rest => let (a, o) := MuxD.handle s.mx rest; ({ s with mx := a }, o)
  | "gr" :: rest => let (a, o) := GraphD.handle s.gr rest; ({ s with gr := a }, o)
  | "dbc" :: rest => (s, DbcD.handle rest)
  | "md" :: rest => (s, MdD.handle rest)
  | "cv" :: rest => (s, ConvD.handle rest)
  | "ss" :: rest => (s, SaveSelD.handle rest)
  | "imp" :: rest => (s, ImportD.handle rest)
  | "sv" :: rest => (s, SaveD.handle rest)
  | "svs" :: rest => (s, SaveScalarD.handle rest)
  | "at" :: rest => (s, AttrD.handle rest)
  | "ib" :: rest => (s, ImportBusD.handle rest)
  | "if" :: rest => (s, ImportFileD.handle rest)
  | _ => (s, "bad-op")

partial def loop (hin : IO.FS.Stream) (hout : IO.FS.Stream) (s : DState) : IO Unit := do
  let line ← hin.getLine
  if line.isEmpty then return ()
  let l := line.trimAscii.toString
  let (s', out) := stepLine s l
  hout.putStrLn out
  loop hin hout s'

def main : IO Unit := do
  let hin ← IO.getStdin
  let hout ← IO.getStdout
  loop hin hout {}
  hout.flush
