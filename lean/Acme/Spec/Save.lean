/-
Specification side of the structural save / load model (`Acme.Core.Save`):

* `norm` — the order normal form a loaded network is compared with: every list the Go code keeps
  in a map is listed in the order of the getter the saver iterates (buses by name, interfaces by
  node id, messages by message id, signals by position, receivers by node name, assignments by
  attribute name, definition tables by their comparator), the children of a multiplexer in the
  order of their last appearance when the groups are walked by index and position, and the values
  of an enum attribute with the default value first.
* `NetWF` — what a network built through the public API satisfies, as far as the model can say it.
* `InRange` — the numbers the saver narrows to uint32 / int32 fit.
-/
import Acme.Core.Save

namespace Acme.Save

/-! ## norm -/

mutual
  def normSig (t : Tbl) : Sig → Sig
    | .mk e asg body => .mk e (sortBy (asgLe t) asg) (normBody t body)
  def normBody (t : Tbl) : Body → Body
    | .std ty un => .std ty un
    | .enm en => .enm en
    | .mux gc kids => .mux gc (dedupLast (fun k => k.sig.id) (muxSignals gc (normKids t kids)))
  def normKids (t : Tbl) : List Kid → List (KH × Kid)
    | [] => []
    | .mk s pos grp :: r => (⟨s.id, pos, grp⟩, .mk (normSig t s) pos grp) :: normKids t r
end

def normMsg (t : Tbl) (m : Msg) : Msg :=
  { m with asg := sortBy (asgLe t) m.asg
           sigs := (sortBy topLe m.sigs).map (fun p => (normSig t p.1, p.2))
           recvs := sortBy (recvLe t) m.recvs }

def normIface (t : Tbl) (i : Iface) : Iface :=
  { i with msgs := (sortBy msgLe i.msgs).map (normMsg t) }

def normBus (t : Tbl) (b : Bus) : Bus :=
  { b with ifaces := (sortBy (ifaceLe t) b.ifaces).map (normIface t)
           asg := sortBy (asgLe t) b.asg }

def normNode (t : Tbl) (x : Node) : Node := { x with asg := sortBy (asgLe t) x.asg }

/-- default value first, the other values in their order -/
def normAttr (a : Attr) : Attr :=
  match a.kind with
  | .enm vs d => { a with kind := .enm (d :: vs.filter (fun v => v != d)) d }
  | _ => a

def normTbl (t : Tbl) : Tbl :=
  { builders := sortBy builderLe t.builders
    nodes := (sortBy nodeLe t.nodes).map (normNode t)
    types := sortBy entLe t.types
    units := sortBy entLe t.units
    enums := sortBy entLe t.enums
    attrs := (sortBy attrLe t.attrs).map normAttr }

def norm (n : Net) : Net :=
  { e := n.e, buses := (sortBy busLe n.buses).map (normBus n.t), t := normTbl n.t }

/-! ## well-formedness -/

def nodupB (xs : List String) : Bool := decide xs.Nodup

def ascB : List Nat → Bool
  | [] => true
  | [_] => true
  | a :: b :: r => decide (a < b) && ascB (b :: r)

/-- assignments of one entity: one per attribute, the attribute exists, an enum value is a value -/
def asgsWf (t : Tbl) (asg : List Asg) : Bool :=
  nodupB (asg.map (·.attr)) &&
  asg.all fun a =>
    match t.attr a.attr with
    | none => false
    | some x => match x.kind with | .enm vs _ => vs.contains a.val | _ => true

def grpWf (gc : Nat) : Option (List Nat) → Bool
  | none => true
  | some gs => !gs.isEmpty && ascB gs && gs.all (fun k => decide (k < gc))

mutual
  def sigWf (t : Tbl) : Sig → Bool
    | .mk _ asg body => asgsWf t asg && bodyWf t body
  def bodyWf (t : Tbl) : Body → Bool
    | .std ty un =>
      (findEnt t.types ty).isSome &&
      (match un with | none => true | some u => u != "" && (findEnt t.units u).isSome)
    | .enm en => (findEnt t.enums en).isSome
    | .mux gc kids => decide (0 < gc) && kidsWf t gc kids && nodupB (kidIds kids)
  def kidsWf (t : Tbl) (gc : Nat) : List Kid → Bool
    | [] => true
    | .mk s _ grp :: r => sigWf t s && grpWf gc grp && kidsWf t gc r
  def kidIds : List Kid → List Id
    | [] => []
    | .mk s _ _ :: r => s.id :: kidIds r
end

def recvWf (t : Tbl) (r : Recv) : Bool :=
  match t.node r.node with | none => false | some x => decide (r.num < x.ifc)

def msgWf (t : Tbl) (m : Msg) : Bool :=
  asgsWf t m.asg &&
  (match m.static with | none => true | some v => m.mid == v) &&
  m.sigs.all (fun p => sigWf t p.1) &&
  nodupB (m.sigs.map (·.1.id)) &&
  m.recvs.all (recvWf t) &&
  nodupB (m.recvs.map (·.node))

def ifaceWf (t : Tbl) (i : Iface) : Bool :=
  recvWf t ⟨i.node, i.num⟩ &&
  i.msgs.all (fun m => msgWf t m && !(m.recvs.contains ⟨i.node, i.num⟩))

def busWf (t : Tbl) (b : Bus) : Bool :=
  asgsWf t b.asg &&
  (match b.builder with | none => true | some id => id != "" && (t.builder id).isSome) &&
  b.ifaces.all (ifaceWf t)

def attrWf (a : Attr) : Bool :=
  match a.kind with
  | .enm vs d => nodupB vs && vs.contains d
  | _ => true

/-! ### who lists a signal: every signal of a tree with its owner (`Owner`, Core) -/

mutual
  def sigOwners (o : Owner) : Sig → List (Id × Owner)
    | .mk e _ body => (e.id, o) :: bodyOwners e.id body
  def bodyOwners (self : Id) : Body → List (Id × Owner)
    | .std _ _ => []
    | .enm _ => []
    | .mux _ kids => kidsOwners self kids
  def kidsOwners (self : Id) : List Kid → List (Id × Owner)
    | [] => []
    | .mk s _ _ :: r => sigOwners (.sig self) s ++ kidsOwners self r
end

def msgOwners (m : Msg) : List (Id × Owner) := m.sigs.flatMap fun p => sigOwners (.msg m.e.id) p.1

/-- every signal of the network (top-level signals and, recursively, the children of the
    multiplexers) with the message / multiplexer that lists it -/
def netOwners (n : Net) : List (Id × Owner) :=
  n.buses.flatMap fun b => b.ifaces.flatMap fun i => i.msgs.flatMap msgOwners

def ifaceKeys (n : Net) : List (Id × Nat) := n.buses.flatMap fun b => b.ifaces.map fun i => (i.node, i.num)
def msgIds (n : Net) : List Id := n.buses.flatMap fun b => b.ifaces.flatMap fun i => i.msgs.map (·.e.id)

def tblWf (n : Net) : Bool :=
  let t := n.t
  let used := usedRefs n
  nodupB (t.builders.map (·.e.id)) && nodupB (t.nodes.map (·.e.id)) && nodupB (t.types.map (·.id)) &&
  nodupB (t.units.map (·.id)) && nodupB (t.enums.map (·.id)) && nodupB (t.attrs.map (·.e.id)) &&
  t.builders.all (fun x => used.contains (RefK.builder, x.e.id) && x.ops.all (fun o => decide (o.kind ≤ 3))) &&
  t.nodes.all (fun x => (walkRefs n).contains (RefK.node, x.e.id) && asgsWf t x.asg) &&
  t.types.all (fun x => used.contains (RefK.type, x.id)) &&
  t.units.all (fun x => used.contains (RefK.unit, x.id)) &&
  t.enums.all (fun x => used.contains (RefK.enum, x.id)) &&
  t.attrs.all (fun x => used.contains (RefK.attr, x.e.id) && attrWf x)

def wf (n : Net) : Bool :=
  tblWf n &&
  n.buses.all (busWf n.t) &&
  nodupB (n.buses.map (·.e.id)) &&
  decide (ifaceKeys n).Nodup &&
  nodupB (msgIds n) &&
  -- the signals of the whole network, nested children included, have distinct entity ids
  -- (the public API draws them at random; the loader refuses an id listed by two parents)
  nodupB ((netOwners n).map (·.1))

/-- decidable: what networks built through the public API satisfy -/
def NetWF (n : Net) : Prop := wf n = true

instance (n : Net) : Decidable (NetWF n) := inferInstanceAs (Decidable (wf n = true))

/-! ## the narrowed numbers -/

def fits32 (x : Nat) : Bool := decide (x < 4294967296)
def fits31 (x : Nat) : Bool := decide (x < 2147483648)

mutual
  def sigInRange : Sig → Bool
    | .mk _ _ body => bodyInRange body
  def bodyInRange : Body → Bool
    | .std _ _ => true
    | .enm _ => true
    | .mux gc kids => fits32 gc && kidsInRange kids
  def kidsInRange : List Kid → Bool
    | [] => true
    | .mk s pos _ :: r => sigInRange s && fits32 pos && kidsInRange r
end

def msgInRange (m : Msg) : Bool :=
  fits32 m.mid && (match m.static with | none => true | some v => fits32 v) &&
  m.sigs.all (fun p => sigInRange p.1 && fits32 p.2) && m.recvs.all (fun r => fits32 r.num)

def inRange (n : Net) : Bool :=
  n.buses.all (fun b => b.ifaces.all fun i => fits31 i.num && i.msgs.all msgInRange) &&
  n.t.builders.all (fun b => b.ops.all fun o => fits32 o.from && fits32 o.len) &&
  n.t.nodes.all (fun x => fits32 x.nid && fits32 x.ifc)

/-- the fields that narrow: builder op `from` / `len` (uint32), node id, interface count (uint32),
    interface number (int32), message id, static CAN-ID, receiver interface number, relative start
    positions, group count (uint32) -/
def InRange (n : Net) : Prop := inRange n = true

instance (n : Net) : Decidable (InRange n) := inferInstanceAs (Decidable (inRange n = true))

end Acme.Save
