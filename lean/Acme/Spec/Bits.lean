/-
Specification for C02: what "the payload bits a signal occupies" means, on bit lists,
independently of masks and shifts.
-/
import Acme.Core.Bits
import Acme.Spec.Layout

namespace Acme.Bits
open Acme.Layout

/-- payload bit `k` in Intel numbering: byte k/8, bit k%8 (0 beyond the data) -/
def bitLE (data : List Nat) (k : Nat) : Bool := (data.getD (k / 8) 0).testBit (k % 8)

/-- payload bit at big-endian sequential position `p`: byte p/8, bit 7 - p%8 -/
def bitBE (data : List Nat) (p : Nat) : Bool := (data.getD (p / 8) 0).testBit (7 - p % 8)

/-- little-endian raw value: raw bit i is payload bit st+i -/
def rawLE (data : List Nat) (st : Nat) : Nat → Nat
  | 0 => 0
  | n + 1 => (bitLE data st).toNat + 2 * rawLE data (st + 1) n

/-- big-endian raw value: positions st, st+1, … read most-significant first -/
def rawBE (data : List Nat) (st : Nat) : Nat → Nat
  | 0 => 0
  | n + 1 => 2 * rawBE data st n + (bitBE data (st + n)).toNat

/-- big-endian sequential position ↔ Intel bit number of the same payload bit -/
def conv (p : Nat) : Nat := 8 * (p / 8) + (7 - p % 8)

/-- next bit of the DBC Motorola saw-tooth (towards less significant bits) -/
def sawNext (b : Nat) : Nat := if b % 8 = 0 then b + 15 else b - 1

/-- the value DBC prescribes for a Motorola signal whose most significant bit is Intel
    bit number `b`: bits b, sawNext b, … most-significant first -/
def motorola (data : List Nat) : Nat → Nat → Nat
  | _, 0 => 0
  | b, n + 1 => (bitLE data b).toNat * 2 ^ n + motorola data (sawNext b) n

/-- Intel bit numbers of the payload bits one filter publishes through its mask -/
def filterBits (f : Filter) : List Nat :=
  ((List.range 8).filter (fun j => f.mask.testBit j)).map (fun j => 8 * f.byteIdx.toNat + j)

/-- all payload bits published for one signal -/
def sigBits (s : Slot) (be : Bool) : List Nat := (sigFilters s be).flatMap filterBits

/-- the big-endian single-byte filter is only right when the signal sits symmetrically in
    its byte (D08, pinned by Test_SignalLayout_Unpack); `BeOK` = outside that defect -/
def BeOK (s : Slot) : Prop :=
  s.start / 8 ≠ (s.start + s.size - 1) / 8 ∨ s.start % 8 = 8 - s.start % 8 - s.size

/-- payload well-formedness: `n` bytes at least, every entry a byte -/
def DataOK (n : Nat) (data : List Nat) : Prop := n ≤ data.length ∧ ∀ b ∈ data, b < 256

end Acme.Bits
