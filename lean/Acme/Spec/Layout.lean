/-
Specification for the layout algebra (C01, C07), written independently of the code's loops.
-/
import Acme.Core.Layout

namespace Acme.Layout

/-- Well-formed from `lo` on: ascending, pairwise disjoint, positive sizes, inside `cap`. -/
def WFfrom (lo cap : Int) : List Slot → Prop
  | [] => lo ≤ cap
  | s :: rest => lo ≤ s.start ∧ 0 < s.size ∧ WFfrom (s.start + s.size) cap rest

/-- A well-formed layout of `cap` bits. -/
def WF (cap : Int) (l : List Slot) : Prop := WFfrom 0 cap l

/-- the bit range [st, st+sz) is free in `l` -/
def RangeFree (l : List Slot) (st sz : Int) : Prop :=
  ∀ s ∈ l, st + sz ≤ s.start ∨ s.start + s.size ≤ st

/-- ids are pairwise different -/
def IdsNodup (l : List Slot) : Prop := (l.map (·.id)).Nodup

/-- sum of the sizes -/
def sizeSum (l : List Slot) : Int := (l.map (·.size)).foldr (· + ·) 0

/-- the slots after the (first) slot with id `id` -/
def followers (id : Nat) : List Slot → List Slot
  | [] => []
  | s :: rest => if s.id = id then rest else followers id rest

/-- the (first) slot with id `id` -/
def find (id : Nat) (l : List Slot) : Option Slot := l.find? (fun s => s.id = id)

/-- free bits behind slot `id`: everything between its end and `cap` not occupied by followers -/
def freeBehind (cap : Int) (l : List Slot) (id : Nat) : Int :=
  match find id l with
  | none => 0
  | some s => cap - (s.start + s.size) - sizeSum (followers id l)

/-- the slot list with the size of slot `id` replaced -/
def setSize (l : List Slot) (id : Nat) (sz : Int) : List Slot :=
  l.map (fun s => if s.id = id then { s with size := sz } else s)

/-- end of the predecessor of slot `id` (0 when it is the first) -/
def prevEndOf (id : Nat) : (prevEnd : Int) → List Slot → Int
  | pe, [] => pe
  | pe, s :: rest => if s.id = id then pe else prevEndOf id (s.start + s.size) rest

/-- start of the successor of slot `id` (`cap` when it is the last) -/
def nextStartOf (cap : Int) (id : Nat) : List Slot → Int
  | [] => cap
  | s :: rest => if s.id = id then (match rest with | [] => cap | n :: _ => n.start) else nextStartOf cap id rest

/-- packed: every signal starts where the previous one ends, the first at 0 -/
def PackedFrom (lo : Int) : List Slot → Prop
  | [] => True
  | s :: rest => s.start = lo ∧ PackedFrom (s.start + s.size) rest

end Acme.Layout
