/-
Specification vocabulary of the bus-level round trip export → import (C11):
  `BusWF`   the class of buses of the theorem (decidable),
  `view`    a bus without object identities: what C11 compares,
  `normB`   the view that comes back from `importBus (exportBus b)`: the normal form,
  `FileOK`  a sufficient condition for `importBus` to accept a document.
Used by Acme/Props/C11Bus.lean; the lemmas are in Acme/Proofs/ExportBus*.lean.
-/
import Acme.Core.ExportBus
import Acme.Spec.ImportBus

namespace Acme.ExportBus
open Acme.ImportBus Acme.Arith
open Acme.Import (sortBy)

/-! ## the identity-free view of a bus -/

inductive VKind where
  /-- the fields of the type object, the unit symbol ("" = no unit or a unit without symbol) -/
  | standard (ty : SigType) (unit : String)
  /-- the values of the enum object (sorted by index) and the size of the signal -/
  | enum (values : List DVal) (size : Nat)
  deriving Repr, DecidableEq, Inhabited

structure VSignal where
  name : String
  start : Nat
  desc : String
  kind : VKind
  deriving Repr, DecidableEq, Inhabited

structure VMessage where
  id : Nat
  name : String
  size : Nat
  sender : String
  receivers : List String
  desc : String
  sigs : List VSignal
  deriving Repr, DecidableEq, Inhabited

structure VBus where
  desc : String
  nodes : List INode
  msgs : List VMessage
  deriving Repr, DecidableEq, Inhabited

def viewSig (b : IBus) (s : ISignal) : VSignal :=
  { name := s.name, start := s.start, desc := s.desc,
    kind := match s.kind with
      | .standard t u => .standard (b.types.getD t default) (unitSym b u)
      | .enum e => .enum (b.enums.getD e default).values (b.enums.getD e default).size.toNat }

def viewMsg (b : IBus) (m : IMessage) : VMessage :=
  { id := m.id, name := m.name, size := m.size, sender := m.sender, receivers := m.receivers,
    desc := m.desc, sigs := m.sigs.map (viewSig b) }

/-- the bus without object identities: no sharing, no enum names, no minimum sizes -/
def view (b : IBus) : VBus :=
  { desc := b.desc, nodes := b.nodes, msgs := b.msgs.map (viewMsg b) }

/-! ## the normal form -/

/-- the kind `importSignalType` selects for the numbers of a type -/
def reKind (ty : SigType) : Kind :=
  if ty.size = 1 ∧ ty.signed = false ∧ ty.scale = 1 ∧ ty.offset = 0 ∧ ty.min = 0 ∧ ty.max = 1 then .flag
  else if isDec ty.scale || isDec ty.max || isDec ty.min || isDec ty.offset then .decimal
  else .integer

/-- a signal after the round trip: the kind of its type is selected again from the numbers -/
def normSig (b : IBus) (s : ISignal) : VSignal :=
  { name := s.name, start := s.start, desc := s.desc,
    kind := match s.kind with
      | .standard t u => .standard { b.types.getD t default with kind := reKind (b.types.getD t default) } (unitSym b u)
      | .enum e => .enum (b.enums.getD e default).values (b.enums.getD e default).size.toNat }

/-- a message after the round trip: the receivers are written with the signals — a message
    without signals loses them —, sorted by name, the placeholder name is not a receiver -/
def normMsg (b : IBus) (m : IMessage) : VMessage :=
  { id := m.id, name := m.name, size := m.size, sender := m.sender,
    receivers := if m.sigs = [] then [] else (sortStr id m.receivers).filter (fun r => r ≠ placeholder),
    desc := m.desc, sigs := m.sigs.map (normSig b) }

/-- the nodes after the round trip: in id order, the id of a node becomes its position in that
    order; a node named like the placeholder is replaced by the placeholder node (id 1024, no
    description) at the end, and only if it sends a message -/
def normNodes (b : IBus) : List INode :=
  ((sortedNodes b).zipIdx.filter (fun p => p.1.name ≠ placeholder)).map (fun p => { p.1 with id := p.2 })
    ++ (if b.msgs.any (fun m => m.sender = placeholder) then [placeholderNode] else [])

/-- what comes back from `importBus (exportBus b)`, as a view: the messages in the order of the
    export (by sender in node-id order, then by CAN-ID) -/
def normB (b : IBus) : VBus :=
  { desc := b.desc, nodes := normNodes b, msgs := (exportOrder b).map (normMsg b) }

/-! ## the class of the theorem -/

/-- the values of an enum object as `Values()` returns them: indexes strictly ascending, names
    distinct -/
def ValsWF (vs : List DVal) : Prop :=
  (vs.map (·.1)).Pairwise (· < ·) ∧ (vs.map (·.2)).Nodup

instance (vs : List DVal) : Decidable (ValsWF vs) := by unfold ValsWF; infer_instance

/-- the size the exporter writes for a signal -/
def sigSizeOf (b : IBus) (s : ISignal) : Nat := (exportSig b [] s).size

/-- the signals of a message lie one after the other inside the payload (`lastEnd` = end of the
    previous one) -/
def layoutOK (b : IBus) (cap : Nat) : Nat → List ISignal → Bool
  | _, [] => true
  | lastEnd, s :: r =>
    decide (lastEnd ≤ s.start) && decide (s.start + sigSizeOf b s ≤ cap) && layoutOK b cap (s.start + sigSizeOf b s) r

/-- a type has at least one bit (`New…SignalType` refuses 0); an enum object is well formed -/
def SigWF (b : IBus) (s : ISignal) : Prop :=
  match s.kind with
  | .standard t _ => 1 ≤ (b.types.getD t default).size
  | .enum e => ValsWF (b.enums.getD e default).values

instance (b : IBus) (s : ISignal) : Decidable (SigWF b s) := by
  unfold SigWF; split <;> infer_instance

def MsgWF (b : IBus) (m : IMessage) : Prop :=
  m.sender ∈ b.nodes.map (·.name) ∧
  (∀ r ∈ m.receivers, r ∈ b.nodes.map (·.name)) ∧
  m.receivers.Nodup ∧ m.sender ∉ m.receivers ∧ m.size ≤ 8 ∧
  (m.sigs.map (·.name)).Nodup ∧ layoutOK b (m.size * 8) 0 m.sigs = true ∧
  ∀ s ∈ m.sigs, SigWF b s

instance (b : IBus) (m : IMessage) : Decidable (MsgWF b m) := by unfold MsgWF; infer_instance

/-- what the public API guarantees for a bus of top-level standard / enum signals with static
    CAN-IDs (node names distinct, senders and receivers nodes of the bus, the sender not a
    receiver, at most 8 bytes, CAN-IDs distinct, message names distinct per sender, signal names
    distinct per message, signals disjoint inside the payload, types of at least one bit, enum
    values with distinct indexes and names), plus ONE limit of the importer: at most 1024 nodes -/
def BusWF (b : IBus) : Prop :=
  (b.nodes.map (·.name)).Nodup ∧ b.nodes.length ≤ placeholderId ∧
  (b.msgs.map (·.id)).Nodup ∧
  b.msgs.Pairwise (fun m₁ m₂ => ¬(m₁.sender = m₂.sender ∧ m₁.name = m₂.name)) ∧
  ∀ m ∈ b.msgs, MsgWF b m

instance (b : IBus) : Decidable (BusWF b) := by unfold BusWF; infer_instance

/-! ## a sufficient condition for acceptance by the importer -/

/-- `AddValue` accepts the values in any order: indexes distinct, names distinct -/
def ValsOK (vs : List DVal) : Prop := (vs.map (·.1)).Nodup ∧ (vs.map (·.2)).Nodup

/-- the sorted signals follow one another -/
def chainOK : Nat → List DSignal → Bool
  | _, [] => true
  | lastEnd, d :: r => decide (lastEnd ≤ d.start) && chainOK (d.start + d.size) r

/-- a signal can be imported: an enum signal is wide enough for its highest index, a standard
    signal has at least one bit -/
def SigPre (f : DFile) (id : Nat) (d : DSignal) : Prop :=
  d.size ≤ 64 ∧
  match encOf f.encs id d.name with
  | some vals => calcSize (maxIndex (sortVals vals) : Nat) ≤ (d.size : Int)
  | none => 1 ≤ d.size

def MsgPre (f : DFile) (m : DMessage) : Prop :=
  ((sortedSigs m).map (·.name)).Nodup ∧
  (∀ d ∈ sortedSigs m, d.start + d.size ≤ m.size * 8) ∧
  (∀ d ∈ m.sigs, ∀ r ∈ d.receivers, r = placeholder ∨ r ∈ f.nodes) ∧
  (m.transmitter = placeholder ∨ m.transmitter ∈ f.nodes) ∧
  (m.transmitter = placeholder ∨ ∀ d ∈ m.sigs, m.transmitter ∉ d.receivers) ∧
  m.size ≤ 8 ∧ chainOK 0 (sortedSigs m) = true ∧
  ∀ d ∈ sortedSigs m, SigPre f m.id d

def FileOK (f : DFile) : Prop :=
  (∀ t ∈ f.tables, ValsOK t.values) ∧ (∀ c ∈ f.encs, ValsOK c.values) ∧
  f.nodes.Nodup ∧ f.nodes.length ≤ placeholderId ∧
  f.msgs.Pairwise (fun m₁ m₂ => m₁.id ≠ m₂.id ∧ ¬(m₁.transmitter = m₂.transmitter ∧ m₁.name = m₂.name)) ∧
  ∀ m ∈ f.msgs, MsgPre f m

end Acme.ExportBus
