/-
Specification vocabulary for the message level of the DBC importer / exporter (C10Msg, C11Msg):
what a well-formed imported tree is, the flat view of a tree (every signal with its absolute
start bit and its place), and what it means for an entry of the tree to be the faithful image
of a signal of the file.  Written without reference to the loops of `Acme.Import.importMsg`.
-/
import Acme.Core.Import
import Acme.Spec.Layout

namespace Acme.Import
open Acme.Layout Acme.Conv Acme.Arith

/-- a well-formed multiplexer node -/
structure MuxWF (n : MuxNode) : Prop where
  gcPos : 0 < n.groupCount
  gsPos : 0 < n.groupSize
  /-- selector width = `calcSizeFromValue(groupCount - 1)` -/
  selW : n.selW = calcSize (n.groupCount - 1)
  /-- every group is a well-formed layout within the group size -/
  groups : ∀ k : Nat, (k : Int) < n.groupCount → WF n.groupSize (childSlots (groupOf n.children (k : Int)))
  /-- group ids are below the group count (and non-negative), strictly ascending -/
  ids : ∀ c ∈ n.children, (∀ g ∈ c.gids, 0 ≤ g ∧ g < n.groupCount) ∧ c.gids.Pairwise (· < ·)
  sizes : ∀ c ∈ n.children, 0 < c.size
  names : (n.children.map (·.name)).Nodup

/-- every child of `p` that is a multiplexer has its node among `nested`: same name, the
    child's size is the node's total size, and the node's ABSOLUTE start is the parent's absolute
    start + the parent's selector width + the child's relative start (as `Signal.GetStartBit`
    computes it, C07_abs_start) -/
def LinkOK (nested : List MuxNode) (p : MuxNode) : Prop :=
  ∀ c ∈ p.children, c.isMux = true →
    ∃ n ∈ nested, n.name = c.name ∧ c.size = n.groupSize + n.selW ∧ n.start = p.start + p.selW + c.rel

/-- no multiplexor of the file has an extended-multiplexing entry of its own: nothing is nested -/
def FlatFile (m : DMsg) : Prop := ∀ s ∈ m.sigs, s.isMultiplexor = true → findExt m.exts s.name = none

/-- where a signal sits in the tree -/
inductive Place where
  | top
  | muxor
  /-- child of the multiplexer `parent` (which has `gc` groups), inserted with `gids` (`[]` = fixed) -/
  | child (parent : String) (gc : Int) (gids : List Int)
  /-- a multiplexer that is a child of the multiplexer `parent` (nested), inserted with `gids` -/
  | subMux (parent : String) (gc : Int) (gids : List Int)
  deriving Repr, DecidableEq

/-- one signal of the tree: name, size (selector width for a multiplexer), ABSOLUTE start bit
    (parent start + selector width + relative start for a child, as C07 defines it), place -/
structure Entry where
  name : String
  size : Int
  abs : Int
  place : Place
  deriving Repr, DecidableEq

def childEntry (n : MuxNode) (c : Child) : Entry :=
  ⟨c.name, c.size, n.start + n.selW + c.rel, .child n.name n.groupCount c.gids⟩

def itemEntries : Item → List Entry
  | .sig l => [⟨l.name, l.size, l.start, .top⟩]
  | .mux n => ⟨n.name, n.selW, n.start, .muxor⟩ :: n.children.map (childEntry n)

/-- the flat view of a tree -/
def entries (t : ITree) : List Entry := t.top.flatMap itemEntries

/-- selector width of the nested multiplexer of that name -/
def selWOf (N : List MuxNode) (name : String) : Int :=
  match N.find? (fun x => x.name == name) with
  | some n => n.selW
  | none => 0

/-- the entry of a child, nested multiplexers included: a child that is a multiplexer is listed
    with its SELECTOR width (what the file states for the multiplexor signal) and the place
    `subMux`; its absolute start is, as for every child, parent start + selector width + relative
    start — at every depth, because the parent's `start` is itself absolute (`LinkOK`) -/
def childEntryN (N : List MuxNode) (n : MuxNode) (c : Child) : Entry :=
  if c.isMux then ⟨c.name, selWOf N c.name, n.start + n.selW + c.rel, .subMux n.name n.groupCount c.gids⟩
  else childEntry n c

def nodeEntriesN (N : List MuxNode) (n : MuxNode) : List Entry := n.children.map (childEntryN N n)

def itemEntriesN (N : List MuxNode) : Item → List Entry
  | .sig l => [⟨l.name, l.size, l.start, .top⟩]
  | .mux n => ⟨n.name, n.selW, n.start, .muxor⟩ :: nodeEntriesN N n

/-- the flat view of a tree with nested multiplexers: the top-level items with their children,
    then the children of every nested multiplexer -/
def entriesN (t : ITree) : List Entry :=
  t.top.flatMap (itemEntriesN t.nested) ++ t.nested.flatMap (nodeEntriesN t.nested)

/-- where the importer puts a signal of the file (`Acme.Props.C10.importPos`) -/
def filePos (s : DSig) : Int := if s.bigEndian then convStart s.start else s.start

/-- the groups a child stands for: `[]` is every group -/
def inGroups (gids : List Int) (g : Int) : Prop := gids = [] ∨ g ∈ gids

/-- the group ids the file asks for, for a signal that ends up inside a multiplexer with `gc`
    groups:
    * with an extended entry (the LAST `SG_MUL_VAL_` line naming the signal): the groups of
      `Acme.Conv.expand`; when these are all `gc` groups (or the entry has no range) the
      signal is inserted as fixed;
    * multiplexed without an entry: exactly the group of its switch value;
    * not multiplexed (D75): fixed. -/
def GroupsAsFile (exts : List DExt) (gc : Int) (s : DSig) (gids : List Int) : Prop :=
  match findExt exts s.name with
  | some e => ∃ xs, expand gc (natRanges e.ranges) = some xs ∧
      ((gids = [] ∧ (xs = [] ∨ ((Acme.Mux.compactAdj (Acme.Mux.sortInts xs)).length : Int) = gc)) ∨
       (gids ≠ [] ∧ gids.Pairwise (· < ·) ∧ ∀ g, g ∈ gids ↔ g ∈ xs))
  | none => if s.isMultiplexed then gids = [(s.muxSwitch : Int)] else gids = []

/-- `e` is the faithful image of the signal `s` of the file -/
def EntryRel (exts : List DExt) (s : DSig) (e : Entry) : Prop :=
  e.name = s.name ∧ e.size = (s.size : Int) ∧ e.abs = filePos s ∧
  match e.place with
  | .top => s.isMultiplexor = false
  | .muxor => s.isMultiplexor = true
  | .child _ gc gids => s.isMultiplexor = false ∧ GroupsAsFile exts gc s gids
  | .subMux _ gc gids => s.isMultiplexor = true ∧ GroupsAsFile exts gc s gids

/-- the multiplexors of the file have a selector of at least one bit.  Holds for every accepted
    import (`importMuxSignal` refuses a 0-bit multiplexor since /repo 6b610c4; before, it was
    accepted and shifted every multiplexed signal by one bit): `C10Msg.import_selectorsOK` -/
def SelectorsOK (m : DMsg) : Prop := ∀ s ∈ m.sigs, s.isMultiplexor = true → 1 ≤ s.size

/-- no other signal carries the name of a multiplexor.  Holds for every accepted import (the
    first loop of `importMessage` refuses a repeated name since /repo 6b610c4; before, such a
    signal was skipped silently): `C10Msg.import_muxNamesOK` -/
def MuxNamesOK (m : DMsg) : Prop :=
  ∀ s ∈ m.sigs, ∀ x ∈ m.sigs, x.isMultiplexor = true → s.name = x.name → s.isMultiplexor = true

end Acme.Import
