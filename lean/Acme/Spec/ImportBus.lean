/-
Specification vocabulary of the bus level of the DBC importer (C10): what "the file's nodes",
"the value encoding of a signal", "a signal / message of the bus is faithful to the one of the
file" mean.  Used by Acme/Props/C10Bus.lean; the lemmas are in Acme/Proofs/ImportBus*.lean.
-/
import Acme.Core.ImportBus

namespace Acme.ImportBus
open Acme.Arith
open Acme.Import (sortBy)

/-- position-wise relation between two lists (same length, `R` at every position) -/
inductive All2 {α β : Type} (R : α → β → Prop) : List α → List β → Prop where
  | nil : All2 R [] []
  | cons {a : α} {b : β} {as : List α} {bs : List β} : R a b → All2 R as bs → All2 R (a :: as) (b :: bs)

/-! ## nodes -/

/-- the node objects `importNodes` makes from the indexed names of `BU_`: the placeholder name is
    skipped, the id is the index, the description is the last `CM_ BU_` of the name -/
def nodesOf (cs : List DComment) (l : List (String × Nat)) : List INode :=
  (l.filter (fun p => p.1 ≠ placeholder)).map
    (fun p => { name := p.1, id := p.2, desc := descOf (selNode p.1) cs })

def fileNodes (f : DFile) : List INode := nodesOf f.comments f.nodes.zipIdx

/-- a message of the file names the placeholder as its transmitter -/
def usesPlaceholder (f : DFile) : Bool := f.msgs.any (fun m => m.transmitter = placeholder)

/-! ## value encodings -/

/-- the `VAL_` list that counts for a signal: the LAST one with its key (a Go map) -/
def encOf : List DEnc → Nat → String → Option (List DVal)
  | [], _, _ => none
  | c :: r, id, name =>
    match encOf r id name with
    | some v => some v
    | none => if c.msgId = id ∧ c.sigName = name then some c.values else none

/-! ## signals -/

/-- the kind selection of `importSignalType` -/
def kindSel (d : DSignal) : Kind :=
  if isFlag d then .flag
  else if isDec d.factor || isDec d.max || isDec d.min || isDec d.offset then .decimal
  else .integer

/-- the unit of a standard signal: none for the empty symbol, else an object with the symbol -/
def UnitFaithful (b : IBus) (sym : String) (u : Option Nat) : Prop :=
  (sym = "" ∧ u = none) ∨ (sym ≠ "" ∧ ∃ i, u = some i ∧ b.units[i]? = some sym)

/-- signal `s` of the bus is what C10 asks for signal `d` of message `msgId` of file `f` -/
def SigFaithful (f : DFile) (b : IBus) (msgId : Nat) (d : DSignal) (s : ISignal) : Prop :=
  s.name = d.name ∧ s.start = d.start ∧ b.sigSize s = some (d.size : Int) ∧
  s.desc = descOf (selSig msgId d.name) f.comments ∧
  match encOf f.encs msgId d.name with
  | some vals =>
    ∃ e en, s.kind = .enum e ∧ b.enums[e]? = some en ∧ en.values = sortVals vals
  | none =>
    ∃ t u ty, s.kind = .standard t u ∧ b.types[t]? = some ty ∧
      ty.kind = kindSel d ∧ ty.size = d.size ∧ ty.signed = d.signed ∧ ty.min = d.min ∧ ty.max = d.max ∧
      ty.scale = d.factor ∧ ty.offset = d.offset ∧ UnitFaithful b d.unit u

/-! ## messages -/

/-- the signals of a message in the order of the bus (layout order = start-bit order) -/
def sortedSigs (m : DMessage) : List DSignal := sortBy (·.start) m.sigs

/-- message `im` of the bus is what C10 asks for message `m` of file `f` -/
def MsgFaithful (f : DFile) (b : IBus) (m : DMessage) (im : IMessage) : Prop :=
  im.id = m.id ∧ im.name = m.name ∧ im.size = m.size ∧
  im.desc = descOf (selMsg m.id) f.comments ∧
  -- the sender: the node the file names (the placeholder node iff the file names the placeholder)
  im.sender = m.transmitter ∧ (∃ n ∈ b.nodes, n.name = m.transmitter) ∧
  -- the receivers: the set-union of the signals' receivers without the placeholder
  (∀ r, r ∈ im.receivers ↔ r ≠ placeholder ∧ ∃ d ∈ m.sigs, r ∈ d.receivers) ∧
  im.receivers.Nodup ∧ (∀ r ∈ im.receivers, ∃ n ∈ b.nodes, n.name = r) ∧
  -- (a message whose sender is among the receivers is refused)
  m.transmitter ∉ im.receivers

/-- `d`, a signal of a message with id `msgId` of the file (message number `i`), became `s` -/
def Occ (f : DFile) (b : IBus) (msgId : Nat) (d : DSignal) (s : ISignal) : Prop :=
  ∃ (i : Nat) (m : DMessage) (im : IMessage), f.msgs[i]? = some m ∧ b.msgs[i]? = some im ∧ m.id = msgId ∧
    (d, s) ∈ (sortedSigs m).zip im.sigs

/-- what selects the type object of a standard signal -/
def typeParams (d : DSignal) : Kind × Nat × Bool × Rat × Rat × Rat × Rat :=
  (kindSel d, d.size, d.signed, d.min, d.max, d.factor, d.offset)

end Acme.ImportBus
