/-
Specification vocabulary for C16 (Markdown export): what the document is measured against.
Everything here is defined on the INPUT (the signal trees and the network skeleton), by its own
traversal, independently of the exporter model of `Acme.Core.Md`.
-/
import Acme.Core.Md

namespace Acme.Md

/-- a signal occurrence: name, start bit, size -/
abbrev Occ := String × Int × Int

/-! ### Signal occurrences at every multiplexing depth, in document order
(a multiplexer, then its groups in group-id order, each group in layout order) -/
mutual
  def Sig.occs : Sig → List Occ
    | .std n s z _ _ _ => [(n, s, z)]
    | .enm n s z _ _ => [(n, s, z)]
    | .mux n s z _ gs => (n, s, z) :: gs.occs
  def Sigs.occs : Sigs → List Occ
    | .nil => []
    | .cons s r => s.occs ++ r.occs
  def Groups.occs : Groups → List Occ
    | .nil => []
    | .cons g r => g.occs ++ r.occs
end

/-! ### Total number of groups (at every depth, empty groups included) -/
mutual
  def Sig.nGroups : Sig → Nat
    | .std .. => 0
    | .enm .. => 0
    | .mux _ _ _ _ gs => gs.nGroups
  def Sigs.nGroups : Sigs → Nat
    | .nil => 0
    | .cons s r => s.nGroups + r.nGroups
  def Groups.nGroups : Groups → Nat
    | .nil => 0
    | .cons g r => 1 + g.nGroups + r.nGroups
end

/-! ### Referenced definitions, one entry per reference -/
mutual
  def Sig.typeRefs : Sig → List TypeRef
    | .std _ _ _ _ ty _ => [ty]
    | .enm .. => []
    | .mux _ _ _ _ gs => gs.typeRefs
  def Sigs.typeRefs : Sigs → List TypeRef
    | .nil => []
    | .cons s r => s.typeRefs ++ r.typeRefs
  def Groups.typeRefs : Groups → List TypeRef
    | .nil => []
    | .cons g r => g.typeRefs ++ r.typeRefs
end

mutual
  def Sig.unitRefs : Sig → List UnitRef
    | .std _ _ _ _ _ u => u.toList
    | .enm .. => []
    | .mux _ _ _ _ gs => gs.unitRefs
  def Sigs.unitRefs : Sigs → List UnitRef
    | .nil => []
    | .cons s r => s.unitRefs ++ r.unitRefs
  def Groups.unitRefs : Groups → List UnitRef
    | .nil => []
    | .cons g r => g.unitRefs ++ r.unitRefs
end

mutual
  def Sig.enumRefs : Sig → List EnumRef
    | .std .. => []
    | .enm _ _ _ _ e => [e]
    | .mux _ _ _ _ gs => gs.enumRefs
  def Sigs.enumRefs : Sigs → List EnumRef
    | .nil => []
    | .cons s r => s.enumRefs ++ r.enumRefs
  def Groups.enumRefs : Groups → List EnumRef
    | .nil => []
    | .cons g r => g.enumRefs ++ r.enumRefs
end

/-! ### The rows of a tree as a function of the tree alone -/
mutual
  def Sig.rows : Sig → List Row
    | .std n s z d ty u => [.sig n s z (stdCells ty u d)]
    | .enm n s z d e => [.sig n s z (enumCells e d)]
    | .mux n s z d gs => .sig n s z (muxCells gs.count d) :: gs.rows 0
  def Sigs.rows : Sigs → List Row
    | .nil => []
    | .cons s r => s.rows ++ r.rows
  def Groups.rows : Groups → Nat → List Row
    | .nil, _ => []
    | .cons g r, k => .sep k :: g.rows ++ r.rows (k + 1)
end

/-! ### The network skeleton -/

/-- all messages in the order of `Buses()` / `NodeInterfaces()` / `SentMessages()` -/
def Net.msgs (n : Net) : List Msg := n.buses.flatMap (fun b => b.ifaces.flatMap (·.msgs))

def Net.typeRefs (n : Net) : List TypeRef := n.msgs.flatMap (·.sigs.typeRefs)
def Net.unitRefs (n : Net) : List UnitRef := n.msgs.flatMap (·.sigs.unitRefs)
def Net.enumRefs (n : Net) : List EnumRef := n.msgs.flatMap (·.sigs.enumRefs)

/-- the part of the document a message stands for -/
def msgItems (m : Msg) : List Item :=
  if m.sigs.isEmpty then [.h 4 m.name] else [.h 4 m.name, .table sigHeader (m.sigs.rows.map Row.cells)]

def ifaceItems (i : Iface) : List Item := .h 3 i.node :: i.msgs.flatMap msgItems
def busItems (b : Bus) : List Item := .h 2 b.name :: b.ifaces.flatMap ifaceItems

/-- the headings of a document, in order -/
def Item.heading? : Item → Option (Nat × String)
  | .h l t => some (l, t)
  | .table .. => none

def headings (items : List Item) : List (Nat × String) := items.filterMap Item.heading?

/-- one H2 per bus, under it one H3 per node interface, under it one H4 per message -/
def Net.bodyHeadings (n : Net) : List (Nat × String) :=
  n.buses.flatMap (fun b => (2, b.name) :: b.ifaces.flatMap (fun i => (3, i.node) :: i.msgs.map (fun m => (4, m.name))))

/-- the texts of the headings of one level -/
def headingsAt (level : Nat) (items : List Item) : List String :=
  ((headings items).filter (fun p => p.1 == level)).map (·.2)

end Acme.Md
