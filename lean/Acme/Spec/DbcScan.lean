/-
Specification vocabulary for the byte-level scanner model (`Acme.Core.DbcScan`), C09:
"a syntax error names the file, line and column of the offending token".

Core Lean only.  Nothing here looks at the control flow of the scanner, except `lexAlone`, which
RUNS `scanTok` on the text of one token (a decidable "this token is in the image of the scanner").

* `lineAt rs i`, `colAt rs i` — the line and column of the `i`-th rune of a text, defined
  independently of `Pos.adv`:
  - the text is the list `rs` of runes AS `ReadRune` DELIVERS THEM (`rds (decode bytes)`): one
    rune per valid UTF-8 sequence and one U+FFFD per byte that starts no valid sequence;
  - line   = 1 + number of `'\n'` runes before index `i`;
  - column = sum of the widths of the runes of the same line up to AND INCLUDING rune `i`, where a
    tab has width 5 and every other rune (multi-byte runes, `'\r'`, NUL, U+FFFD for an invalid byte
    alike) has width 1.  So the first rune of a line is in column 1 (5 if it is a tab), a rune
    behind one tab at the start of a line is in column 6.  (For the rune `'\n'` itself the scanner
    says "column 0 of the next line"; no token but a space token starts with it.)
* `tokText`, `render` — what the writer prints for a token / a token list with separators.
* `lexAlone t` — the text of `t`, scanned alone, is consumed completely and yields `t`.
* `hardStop`, `noMerge`, `chainOK` — when two tokens may be printed without a blank in between.
-/
import Acme.Core.DbcScan
import Acme.Spec.Dbc

namespace Acme.Dbc.Scan

/-! ## positions -/

def runeWidth (c : Char) : Nat := if c = '\t' then 5 else 1

def lineAt (rs : List Char) (i : Nat) : Nat := 1 + (rs.take i).count '\n'

def colAt (rs : List Char) (i : Nat) : Nat :=
  (((rs.take (i + 1)).reverse.takeWhile (· != '\n')).map runeWidth).sum

/-- the position just behind the last rune of the text: the line of the end (1 + number of `'\n'`
in the text) and 1 + the widths of the runes behind the last `'\n'`; `(1,1)` for the empty text -/
def endPos (rs : List Char) : Pos :=
  ⟨1 + rs.count '\n', 1 + ((rs.reverse.takeWhile (· != '\n')).map runeWidth).sum⟩

/-- lexicographic order on positions -/
def Pos.lt (p q : Pos) : Prop := p.line < q.line ∨ (p.line = q.line ∧ p.col < q.col)

instance : Decidable (Pos.lt p q) := by unfold Pos.lt; exact inferInstance

/-! ## rendering -/

/-- the text the writer prints for a token (`eof` / `error` have none) -/
def tokText : Token → String
  | .ident v => v
  | .number v => v
  | .numberRange v => v
  | .muxIndicator v => v
  | .string v => "\"" ++ v ++ "\""
  | .keyword v => v
  | .punct v => v
  | .eof => ""
  | .error _ => ""

/-- `t₁ sep₁ t₂ sep₂ … tₙ sepₙ` -/
def renderToks : List (Token × String) → String
  | [] => ""
  | p :: l => tokText p.1 ++ p.2 ++ renderToks l

/-- `lead t₁ sep₁ t₂ sep₂ … tₙ sepₙ` -/
def render (lead : String) (l : List (Token × String)) : String := lead ++ renderToks l

/-- the bytes of a string -/
def utf8 (s : String) : List UInt8 := s.toUTF8.data.toList

/-- blanks, tabs, new lines, carriage returns only -/
def isBlankStr (s : String) : Bool := s.toList.all isSpace

/-! ## the image of the scanner -/

/-- the token of the token-level model for a kind / message / raw value -/
def tokOf (kind : Kind) (msg : String) (raw : List Char) : Token :=
  (PTok.tok ⟨kind, msg, raw, ⟨0, 0⟩, 0, 0⟩)

/-- the items of a text that is valid UTF-8 (what `decode` yields for its bytes:
`Acme.Dbc.Scan.decode_utf8`) -/
def itemsOfChars (cs : List Char) : List Item := cs.map itemOfChar

/-- The text of `t`, scanned alone, is read completely by ONE `s.scan()` and gives `t` (which is
neither a space, nor `eof`, nor an error token). -/
def lexAlone (t : Token) : Bool :=
  let w := (tokText t).toList
  let lx := scanTok (itemsOfChars w)
  lx.rest.isEmpty && decide (lx.raw = w) && decide (tokOf lx.kind lx.msg lx.raw = t) &&
  lx.kind != .eof && lx.kind != .error && lx.kind != .space

/-- every token is in the image of the scanner -/
def ScanWF (ts : List Token) : Prop := ∀ t ∈ ts, lexAlone t = true

instance (ts : List Token) : Decidable (ScanWF ts) :=
  inferInstanceAs (Decidable (∀ t ∈ ts, lexAlone t = true))

/-! ## separators -/

/-- a character that ends every token in front of it: a quote or a punctuation character other
than `-` -/
def hardStop (c : Char) : Bool := c == '"' || (isPunct c && c != '-')

/-- tokens that end by themselves, whatever follows: strings and the punctuation other than the
signs (a sign followed by a digit starts a number) -/
def selfDelimiting : Token → Bool
  | .string _ => true
  | .punct v => v != "+" && v != "-"
  | _ => false

def isNumTok : Token → Bool
  | .number _ => true
  | .numberRange _ => true
  | _ => false

/-- `t₂` may follow `t₁` without a blank: `t₁` is self-delimiting, or the text of `t₂` starts with
a hard stop, or `t₁` is a number (range) and `t₂` is the punctuation `-` (as in `0|8@1- (1,0)`;
whatever follows that `-` is then constrained by the next pair: a sign is not self-delimiting) -/
def noMerge (t₁ t₂ : Token) : Bool :=
  selfDelimiting t₁ ||
  (match (tokText t₂).toList with
   | c :: _ => hardStop c
   | [] => false) ||
  (isNumTok t₁ && decide (t₂ = .punct "-"))

/-- the separator between `t₁` and `t₂` -/
def sepOK (t₁ : Token) (sep : String) (t₂ : Token) : Bool :=
  isBlankStr sep && (!sep.isEmpty || noMerge t₁ t₂)

/-- every separator is blank, and non-empty unless the two tokens cannot merge; the last
separator (behind the last token) is any blank string -/
def chainOK : List (Token × String) → Bool
  | [] => true
  | [p] => isBlankStr p.2
  | p :: q :: rest => sepOK p.1 p.2 q.1 && chainOK (q :: rest)

/-! ## number shapes the writer prints

`lexAlone` is the exact image of the scanner; for number tokens the following syntactic shapes are
sufficient (`Acme.Dbc.Scan.lexAlone_writerNum`): they cover `strconv.FormatUint/FormatInt`
(`formatUint`, `formatInt`), `FormatFloat(x,'f',-1,64)` for finite `x` (`isFloatShape`),
`writer.formatHexInt` (`0x` + 1..8 hex digits) and the ranges `from-to` of `SG_MUL_VAL_`. -/

/-- an ASCII hexadecimal digit -/
def isHexChar (c : Char) : Bool :=
  c.isDigit || (decide ('a' ≤ c) && decide (c ≤ 'f')) || (decide ('A' ≤ c) && decide (c ≤ 'F'))

/-- `0x` / `0X` and 1 to 9 hexadecimal digits (the scanner reads at most 1 + 8 of them) -/
def hexShape : List Char → Bool
  | '0' :: x :: hs => (x == 'x' || x == 'X') && !hs.isEmpty && decide (hs.length ≤ 9) && hs.all isHexChar
  | _ => false

/-- `digits-digits` -/
def rangeShape (cs : List Char) : Bool :=
  match cs.dropWhile Char.isDigit with
  | '-' :: ds2 => !(cs.takeWhile Char.isDigit).isEmpty && !ds2.isEmpty && ds2.all Char.isDigit
  | _ => false

/-- number tokens have one of the writer's shapes (no condition on the other tokens) -/
def writerNumOK : Token → Bool
  | .number v => isFloatShape v.toList || hexShape v.toList
  | .numberRange v => rangeShape v.toList
  | _ => true

/-- a token with a text: neither `eof` nor `error` -/
def hasText : Token → Bool
  | .eof => false
  | .error _ => false
  | _ => true

/-! ## a canonical layout -/

/-- one blank behind every token, a new line behind a `;` -/
def layoutSep (t : Token) : String := if t = .punct ";" then "\n" else " "

/-- the token list with its canonical separators -/
def layout (ts : List Token) : List (Token × String) := ts.map (fun t => (t, layoutSep t))

/-- the first pair of adjacent tokens that violates `chainOK` (index of the first of the two; the
last separator counts as a pair with nothing), `none` iff `chainOK` -/
def firstBadPair : Nat → List (Token × String) → Option Nat
  | _, [] => none
  | i, [p] => if isBlankStr p.2 then none else some i
  | i, p :: q :: rest => if sepOK p.1 p.2 q.1 then firstBadPair (i + 1) (q :: rest) else some i

end Acme.Dbc.Scan
